/-
Helper lemmas for C01 with inline links, inline images AND hard breaks in one paragraph (`Props/C01i.lean`, last part):
the paragraph of several lines as a piece of a document, from the pattern loop (`Lemmas/DocParse6NLoop.lean`), the
stages after it (`Lemmas/DocParse6NBack.lean`), the printed form (`Lemmas/DocParse6NPrint.lean`) and the block parser on
a paragraph whose lines may start with a link (`Lemmas/DocParse6NBlock.lean`); the blocks of `MixedBrDoc`; the document.
Core Lean only.
-/
import MdVerif.Lemmas.DocParse6NLoop
import MdVerif.Lemmas.DocParse6NBack
import MdVerif.Lemmas.DocParse6NPrint
import MdVerif.Lemmas.DocParse6NBlock
import MdVerif.Lemmas.DocParse6M

namespace MdVerif.DocMixB
open Py Inline Escape DocSpec CodeLaw DocParse Block DocParse2 RefText DocLink DocImg

/-! ### the paragraph as a piece -/

def bPiece (g : List Str) (C0 : Chunk) (gs : List BUse) : Piece2 :=
  ⟨chunkB g { tag := .name "p".toList, text := some (bRaw ESC C0 gs) }, bElem "p".toList ESC C0 gs,
    bElem "p".toList ESC C0 gs⟩

theorem bsW_ne {ls : List BIt} {gs : List BUse} (hL : BsW ls gs) (hne : ls ≠ []) : gs ≠ [] := by
  intro e
  have := bsW_length ls gs hL
  rw [e] at this
  cases ls with
  | nil => exact hne rfl
  | cons _ _ => simp at this

theorem bElem_ok' (A : List DocSpec.Inline) (ls : List BIt) (C0 : Chunk) (gs : List BUse) (hW : ChunkW A C0)
    (hL : BsW ls gs) (hne : ls ≠ []) (refs : List (Str × Str × Option Str)) :
    ElemOK { esc := ESC, refs := refs } (bElem "p".toList ESC C0 gs) := by
  have hgs : ∀ g ∈ gs, BUseOK ESC g := fun g hg => by
    obtain ⟨l, _, hw⟩ := bsW_mem ls gs hL g hg; exact bUseOK_of hw
  exact bElem_ok { esc := ESC, refs := refs } escOK_generated rbr_ESC "p".toList (by decide) C0 gs hW.ok hgs
    (bVis_of hL) (bsW_ne hL hne)
    (loopOK_mixedBr { esc := ESC, refs := refs } escOK_generated rbr_ESC C0 gs hW.ok hgs)

theorem linkLineStart_head {l : Str} (h : LinkLineStart l) : ∃ c0 tl, l = c0 :: tl ∧ isSpace c0 = false := by
  rcases h with ⟨c0, tl, e, hcs, _⟩ | ⟨T, R, e, _⟩
  · exact ⟨c0, tl, e, hcs⟩
  · exact ⟨'[', _, e, by decide⟩

/-- the paragraph of the lines `Ls`, the first one indented by `i < 4` -/
theorem bPara_ok (A : List DocSpec.Inline) (ls : List BIt) (C0 : Chunk) (gs : List BUse) (hW : ChunkW A C0)
    (hL : BsW ls gs) (hne : ls ≠ []) (Ls : List Str) (hLne : Ls ≠ []) (hjoin : joinLines Ls = bRaw ESC C0 gs)
    (hlines : ∀ l ∈ Ls, (∀ ch ∈ l, DocParse2.okCh ch) ∧ refsClosed l = true ∧ LinkLineStart l)
    (hol : olMarker (bRaw ESC C0 gs) = none) (i : Nat) (hi : i < 4) :
    Piece2OK {} (bPiece (indentFirst i Ls) C0 gs) := by
  obtain ⟨a, r, har⟩ : ∃ a r, Ls = a :: r := by
    cases Ls with
    | nil => exact absurd rfl hLne
    | cons a r => exact ⟨a, r, rfl⟩
  have hg : indentFirst i Ls = (spaces i ++ a) :: r := by
    rw [har]; simp [indentFirst, rep, spaces]
  have hnlL : ∀ l ∈ Ls, '\n' ∉ l := fun l hl hm => ((hlines l hl).1 _ hm).1 rfl
  have hgl : ∀ l ∈ indentFirst i Ls, (l ≠ [] ∧ '\n' ∉ l) ∧
      (lineSafe l = true ∧ '<' ∉ l ∧ refsClosed l = true) := by
    intro l hl
    rw [hg] at hl
    rcases List.mem_cons.1 hl with rfl | hl
    · obtain ⟨h1, h2, h3⟩ := hlines a (by rw [har]; simp)
      obtain ⟨c0, tl, e, hcs⟩ := linkLineStart_head h3
      have hline : ∀ x ∈ spaces i ++ a, DocParse2.okCh x := by
        intro x hx
        rcases List.mem_append.1 hx with hx | hx
        · exact (okCh_spaces i x hx).1
        · exact h1 x hx
      have hc0 : c0 ∈ spaces i ++ a := by rw [e]; simp
      have hsafe := safe_of_okCh _ hline ⟨c0, hc0, by intro e'; subst e'; exact absurd hcs (by decide)⟩
      refine ⟨⟨by rw [e]; simp, fun hm => (hline _ hm).1 rfl⟩, hsafe.1, hsafe.2, ?_⟩
      exact refsClosed_noamp_append _ _ (fun hm => (okCh_spaces i _ hm).2 rfl) h2
    · obtain ⟨h1, h2, h3⟩ := hlines l (by rw [har]; exact List.mem_cons_of_mem _ hl)
      obtain ⟨c0, tl, e, hcs⟩ := linkLineStart_head h3
      have hc0 : c0 ∈ l := by rw [e]; simp
      have hsafe := safe_of_okCh _ h1 ⟨c0, hc0, by intro e'; subst e'; exact absurd hcs (by decide)⟩
      exact ⟨⟨by rw [e]; simp, fun hm => (h1 _ hm).1 rfl⟩, hsafe.1, hsafe.2, h2⟩
  have hgne : indentFirst i Ls ≠ [] := by rw [hg]; simp
  have hok := bElem_ok' A ls C0 gs hW hL hne
  refine ⟨chunkB_ok 4 _ _ hgne (nel_lines _ hgne (fun l hl => (hgl l hl).1)) ?_ ?_ ?_,
    fun l hl => (hgl l hl).2, ?_, rfl, rfl, hok, hok, rfl⟩
  · rw [joinLines_indentFirst i _ hLne, ← hjoin]
    apply produces_para_multiL i (by omega) _ hLne (fun l hl => ⟨(hlines l hl).2.2, hnlL l hl⟩)
    rw [hjoin]; exact hol
  · simp [isListTag, Node.isTag]
  · simp [preCode, Node.isTag]
  · obtain ⟨c0, tl, e, hcs⟩ := linkLineStart_head (hlines a (by rw [har]; simp)).2.2
    refine ⟨c0, ?_, hcs⟩
    show c0 ∈ joinLines (indentFirst i Ls)
    rw [joinLines_indentFirst i _ hLne, har]
    apply List.mem_append_right
    cases r with
    | nil => rw [joinLines_single, e]; simp
    | cons b r' => rw [joinLines_cons_cons, e]; simp

/-! ### the paragraph, the blocks, the document -/

/-- **a paragraph of several lines with inline links, inline images and hard breaks** -/
theorem blockPrints_mixedBrPara (c : List DocSpec.Inline) (hp : mixedBrRun c = true)
    (hw : wfInlines false .none true c = true) (hl : (bSplit c).2 ≠ []) : BlockPrints (.para c) := by
  simp only [mixedBrRun, Bool.and_eq_true, List.all_eq_true] at hp
  simp only [wfInlines, wfRun, Bool.and_eq_true] at hw
  obtain ⟨⟨⟨⟨hst, hen⟩, hadj⟩, _⟩, hlist⟩ := hw
  obtain ⟨⟨hitems, hnb⟩, hll⟩ := hp
  have hit : ∀ x ∈ c, ItemOKB x := fun x hx => itemOKB_of_wf x (hitems x hx) (wfInlineList_mem hlist x hx)
  obtain ⟨hA, hls⟩ := split_factsB c hit hadj hnb
  intro st
  obtain ⟨s, st', extra, hpr, hd, hgood⟩ := printB_rel (bSplit c).2 (bSplit c).1 (draw st).2 hA hls
  rw [joinB_split] at hpr
  refine ⟨indentTop true (draw st).1 (splitC '\n' s), st', extra, ?_, by rw [hd, draw_defs], ?_⟩
  · rw [printBlock_para]; simp only [printContent, hpr]
  · intro hex hlt
    have hlts : '<' ∉ s := by
      intro hm
      obtain ⟨x, hx, hc⟩ := DocLinkH.lt_of_join hm
      cases hsp : splitC '\n' s with
      | nil => rw [hsp] at hx; cases hx
      | cons a r =>
        rw [hsp] at hx
        rcases List.mem_cons.1 hx with rfl | hx
        · exact hlt (rep ((draw st).1 % 4) ' ' ++ x) (by simp [indentTop, indentFirst, hsp]) (by simp [hc])
        · exact hlt x (by simp [indentTop, indentFirst, hsp, hx]) hc
    obtain ⟨C0, gs, hs, hW, hL⟩ := hgood hex hlts
    have hs0 : s = bRaw ESC C0 gs := hs 0 0
    have hj := joinB_split c
    have hst' : startsOk (joinB (bSplit c).1 (bSplit c).2) = true := by rw [hj]; exact hst
    have hen' : endsOk (joinB (bSplit c).1 (bSplit c).2) = true := by rw [hj]; exact hen
    have hadj' : okAdjacents (joinB (bSplit c).1 (bSplit c).2) = true := by rw [hj]; exact hadj
    have hll' : lineLinksOK (joinB (bSplit c).1 (bSplit c).2) = true := by rw [hj]; exact hll
    have hltr : '<' ∉ bRaw ESC C0 gs := by rw [← hs0]; exact hlts
    obtain ⟨Ls, hLne, hjoin, hsplit, hlines, hol⟩ :=
      b_para_facts _ _ C0 gs hW hL hl hst' hll' hadj' hen' hltr
    refine ⟨bPiece (indentFirst ((draw st).1 % 4) Ls) C0 gs, ?_,
      bPara_ok _ _ C0 gs hW hL hl Ls hLne hjoin hlines hol _ (Nat.mod_lt _ (by omega)), ?_, rfl⟩
    · rw [hs0, hsplit]
      simp [bPiece, chunkB, indentTop]
    · have := bOut_spec _ _ hL _ _ hW
      rw [hj] at this
      show bOut "p".toList C0 gs = specBlock (.para c)
      rw [specBlock_para, ← this]
      simp only [bOut, S]
      rfl

theorem blockPrints_mixedBrBlock (b : DocSpec.Block) (hf : isMixedBrBlock b = true) (hw : wfBlock none b = true) :
    BlockPrints b := by
  cases b with
  | para c =>
    by_cases hmb : isMixedBlock (.para c) = true
    · exact DocMix.blockPrints_mixedBlock _ hmb hw
    · have hmr : mixedBrRun c = true := by
        simp only [isMixedBrBlock, isMixedBlock, Bool.or_eq_true] at hf hmb
        rcases hf with hf | hf
        · exact absurd hf hmb
        · exact hf
      have hnbr : ¬ brRun c = true := fun h => hmb (by simp [isMixedBlock, h])
      by_cases hl : (bSplit c).2 = []
      · exfalso
        apply hnbr
        have hno := noUses_of_splitB c hl
        exact noLinkImg_brRun c hmr (fun x hx => by
          have := hno x hx
          cases x <;> simp_all [isUseB, DocMix.isUseI])
      · simp only [wfBlock] at hw
        exact blockPrints_mixedBrPara c hmr hw hl
  | rule => exact DocMix.blockPrints_mixedBlock _ rfl hw
  | code ls => exact DocMix.blockPrints_mixedBlock _ hf hw
  | atx l c => exact DocMix.blockPrints_mixedBlock _ hf hw
  | setext l c => exact DocMix.blockPrints_mixedBlock _ hf hw
  | quote _ => simp [isMixedBrBlock, isDeep2Block] at hf
  | ulist _ _ => simp [isMixedBrBlock, isDeep2Block] at hf
  | olist _ _ => simp [isMixedBrBlock, isDeep2Block] at hf

/-- **C01 on flat documents with inline links, inline images and hard breaks** -/
theorem convert_mixedBrDoc (d : Doc) (sp : Spelling) (hwf : WF d = true) (hs : DocSpec.MixedBrDoc d = true)
    (hsp : DocSpec.inlineStyle d sp = true) : Pipeline.convert {} (print d sp) = .ok (spec d) :=
  convert_of_blockPrints d sp hwf
    (fun b hb hw => blockPrints_mixedBrBlock b (by
      have : ∀ b ∈ d, isMixedBrBlock b = true := by simpa [DocSpec.MixedBrDoc, List.all_eq_true] using hs
      exact this b hb) hw) hsp

end MdVerif.DocMixB
