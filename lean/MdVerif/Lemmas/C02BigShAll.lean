/-
Helper lemmas for `Props/C02Big.lean`, section 10: `Markdown.convert` does not raise in the extension pipeline, for the
flag sets whose tree processors behind the inline stage are `prettify` and `unescape` only (tables, ADMONITION, def_list,
sane_lists, nl2br, wikilinks on or off).

`convertXBig = err` only if the `<div>` strip fails (`convertXBig_err_only_strip`); it cannot, because the root of the
tree is the bare `div` the block parser was given:

* `parseDocumentXT_shell` — the extended block parser keeps tag and attributes of the parent it works into (every cfg,
                            admonition included: `Lemmas/C02BigShBlock.lean`);
* `runLoopX_shell`        — the inline stage replaces children only;
* `prettify_shell`, `unescapeTree_shell` — so do the two tree processors;
* `treeXBig_rootDiv`, `convertXBig_ne_err`, and with the termination results `convertXBig_ok`.
Core Lean only.
-/
import MdVerif.Lemmas.C02BigShBlock
import MdVerif.Lemmas.C02BigXErr
import MdVerif.Lemmas.C02BigWAll
import MdVerif.Lemmas.C14XDoc

namespace MdVerif.C02BigSh
open Py Block BlockExt Inline InlineX TreeProc

/-- the bare wrapper: tag `div`, no attribute -/
def Shell (n : Node) : Prop := n.tag = .name "div".toList ∧ n.attrs = []

theorem shell_of_same {p r : Node} (h : SameShell p r) (hp : Shell p) : Shell r :=
  ⟨h.1.trans hp.1, h.2.trans hp.2⟩

/-- **the root of the document is the `div` the parser was given** (every cfg, tables, tab) -/
theorem parseDocumentXT_shell {tables : Bool} {cfg : BlockExt.XCfg} {tab : Nat} {text : Str} {root : Node} {log : Refs}
    (h : parseDocumentXT tables cfg tab text = some (root, log)) : Shell root :=
  shell_of_same (parseChunkXT_shstep tables cfg tab _ [] [] (Node.el "div") text h (VocabXWF.isstate_nil _)) ⟨rfl, rfl⟩

/-! ### the inline stage -/

theorem setAt_shell {root cur : Node} (p : Path) (cs : List Node) (h : getAt root p = some cur) :
    SameShell root (setAt root p { cur with children := cs }) := by
  cases p with
  | nil =>
    rw [NoCtl.getAt_nil] at h; cases h
    rw [NoCtl.setAt_nil]
    exact ⟨rfl, rfl⟩
  | cons i p =>
    rw [NoCtl.setAt_cons]
    split <;> exact ⟨rfl, rfl⟩

theorem runLoopX_shell (xc : InlineX.XCfg) (g2 : Nat) :
    ∀ (g : Nat) (root : Node) (stack : List Path) (x : InlineX.XSt) (root' : Node) (x' : InlineX.XSt),
      runLoopX xc g2 g root stack x = some (root', x') → SameShell root root' := by
  intro g
  induction g with
  | zero => intro root stack x root' x' h; simp [runLoopX] at h
  | succ g ih =>
    intro root stack x root' x' h
    cases stack with
    | nil =>
      simp only [runLoopX, Option.some.injEq, Prod.mk.injEq] at h
      obtain ⟨e, _⟩ := h; subst e; exact SameShell.refl _
    | cons p stack =>
      simp only [runLoopX] at h
      split at h
      · exact ih _ _ _ _ _ h
      · rename_i cur hcur
        split at h
        · cases h
        · rename_i v hv
          exact (setAt_shell p v.done.reverse hcur).trans (ih _ _ _ _ _ h)

/-! ### prettify and unescape -/

theorem prettifyETree_shell (bl : List Str) (n : Node) : SameShell n (prettifyETree bl n) := by
  obtain ⟨tag, attrs, text, ta, children, tail, tla⟩ := n
  simp only [prettifyETree]
  exact ⟨rfl, rfl⟩

theorem brRule_shell (n : Node) : SameShell n (brRule n) := by
  unfold brRule
  split
  · split <;> exact ⟨rfl, rfl⟩
  · exact SameShell.refl _

theorem preRule_shell (n : Node) : SameShell n (preRule n) := by
  unfold preRule
  split
  · split
    · split
      · split <;> exact ⟨rfl, rfl⟩
      · exact SameShell.refl _
    · exact SameShell.refl _
  · exact SameShell.refl _

theorem mapTree_shell {f : Node → Node} (hf : ∀ n, SameShell n (f n)) (n : Node) : SameShell n (mapTree f n) := by
  obtain ⟨tag, attrs, text, ta, children, tail, tla⟩ := n
  simp only [mapTree]
  exact SameShell.trans ⟨rfl, rfl⟩ (hf _)

theorem prettify_shell (n : Node) (bl : List Str) : SameShell n (prettify n bl) := by
  unfold prettify
  exact ((prettifyETree_shell bl n).trans (mapTree_shell brRule_shell _)).trans (mapTree_shell preRule_shell _)

theorem unescapeTree_shell {n u : Node} (h : unescapeTree n = some u) (hn : Shell n) : Shell u := by
  obtain ⟨tag, attrs, text, ta, children, tail, tla⟩ := n
  obtain ⟨h1, h2⟩ := hn
  simp only at h1 h2
  subst h1; subst h2
  simp only [unescapeTree, unescAttrs] at h
  split at h
  · rename_i t tl a ks e1 e2 e3 e4
    simp only [Option.some.injEq] at h e3
    subst h; subst e3
    exact ⟨rfl, rfl⟩
  · cases h

end MdVerif.C02BigSh

namespace MdVerif.C02BigX
open Py Pipeline PipelineX NoCtl C02BigSh

/-- the root of the block stage without the footnote tree processor -/
theorem blockStageX_shell {x : Exts} {cfg : Cfg} {src : Str} (hfn : x.footnotes = false) {root : Node}
    {log : Block.Refs} {stash : List Str} (h : blockStageX x cfg src = .ok (root, log, stash)) : Shell root := by
  simp only [blockStageX] at h
  split at h
  · cases h
  · cases h
  · split at h
    · cases h
    · next root' log' hpd =>
      simp only [fnStageX, hfn, Bool.false_eq_true, if_false] at h
      simp only [FootnotesTree.R.ok.injEq, Prod.mk.injEq] at h
      obtain ⟨rfl, _, _⟩ := h
      exact parseDocumentXT_shell hpd

/-- **the tree handed to the serializer has the bare `div` as its root** (footnotes, abbr, attr_list, toc off) -/
theorem treeXBig_rootDiv {x : Exts} (hfn : x.footnotes = false) (hab : x.abbr = false) (hal : x.attrList = false)
    (htoc : x.toc = false) {cfg : Cfg} {src : Str} {u : Node} {html : List Str}
    (h : treeXBig x cfg src = .ok u html) : C14X.rootDiv u = true := by
  unfold treeXBig at h
  cases hb : blockStageX x cfg src with
  | oof => rw [hb] at h; cases h
  | ood => rw [hb] at h; cases h
  | ok r =>
    obtain ⟨root, log, stash⟩ := r
    rw [hb] at h
    simp only at h
    have h0 := blockStageX_shell hfn hb
    cases hr : runXBig (inlineCfgX x cfg log) root stash with
    | none => rw [hr] at h; cases h
    | some ts =>
      obtain ⟨t, xs⟩ := ts
      rw [hr] at h
      simp only at h
      have h1 : Shell t := by
        unfold runXBig at hr
        exact shell_of_same (runLoopX_shell _ _ _ _ _ _ _ _ hr) h0
      rw [lateStageX_simple hfn hab hal htoc] at h
      cases hun : TreeProc.unescapeTree (TreeProc.prettify t cfg.blockLevel) with
      | none => rw [hun] at h; cases h
      | some u' =>
        rw [hun] at h
        simp only [TreeResult.ok.injEq] at h
        obtain ⟨rfl, _⟩ := h
        obtain ⟨e1, e2⟩ := unescapeTree_shell hun (shell_of_same (prettify_shell t cfg.blockLevel) h1)
        simp [C14X.rootDiv, e1, e2]

/-- **`Markdown.convert` does not raise**: `convertXBig` never answers `err` when footnotes, abbr, attr_list, toc and
    fenced_code are off (every configuration, every source) -/
theorem convertXBig_ne_err {x : Exts} (hf : x.fencedCode = false) (hfn : x.footnotes = false) (hab : x.abbr = false)
    (hal : x.attrList = false) (htoc : x.toc = false) (cfg : Cfg) (src : Str) : convertXBig x cfg src ≠ .err := by
  intro h
  obtain ⟨u, html, ht, hs⟩ := convertXBig_err_only_strip hf hfn hab hal htoc cfg src h
  rw [C14X.topLevelStrip_div _ u (treeXBig_rootDiv hfn hab hal htoc ht)] at hs
  cases hs

/-- the preprocessors do not answer `ood` without attr_list, for a source the model covers -/
theorem prepareX_ne_ood {x : Exts} {cfg : Cfg} {src : Str} (hal : x.attrList = false)
    (hadm : x.admonition = true → admNonAscii (Normalize.normalize cfg.tab src) = false) :
    prepareX x cfg src ≠ .ood := by
  unfold prepareX
  simp only [hal, Bool.false_and, Bool.false_eq_true, if_false]
  split
  · next hc =>
    simp only [Bool.and_eq_true] at hc
    rw [hadm hc.1] at hc
    cases hc.2
  · split
    · split <;> (intro h; cases h)
    · intro h; cases h

theorem treeXBig_ne_ood {x : Exts} (hfn : x.footnotes = false) (hab : x.abbr = false)
    (hal : x.attrList = false) (htoc : x.toc = false) {cfg : Cfg} {src : Str}
    (hadm : x.admonition = true → admNonAscii (Normalize.normalize cfg.tab src) = false) :
    treeXBig x cfg src ≠ .ood := by
  unfold treeXBig
  cases hb : blockStageX x cfg src with
  | oof => intro h; cases h
  | ood =>
    exfalso
    simp only [blockStageX] at hb
    split at hb
    · cases hb
    · next hp => exact prepareX_ne_ood hal hadm hp
    · split at hb
      · cases hb
      · simp only [fnStageX, hfn, Bool.false_eq_true, if_false] at hb
        cases hb
  | ok r =>
    obtain ⟨root, log, stash⟩ := r
    simp only
    cases hr : runXBig (inlineCfgX x cfg log) root stash with
    | none => intro h; cases h
    | some ts =>
      obtain ⟨t, xs⟩ := ts
      simp only
      rw [lateStageX_simple hfn hab hal htoc]
      cases TreeProc.unescapeTree (TreeProc.prettify t cfg.blockLevel) <;> (intro h; cases h)

theorem convertXBig_ne_ood {x : Exts} (hfn : x.footnotes = false) (hab : x.abbr = false)
    (hal : x.attrList = false) (htoc : x.toc = false) {cfg : Cfg} {src : Str} (hlt : '<' ∉ src)
    (hadm : x.admonition = true → admNonAscii (Normalize.normalize cfg.tab src) = false) :
    convertXBig x cfg src ≠ .ood := by
  unfold convertXBig
  split
  · next hc => exact absurd (by simpa using hc) hlt
  · split
    · next hc => cases hc
    · split
      · intro h; cases h
      · cases ht : treeXBig x cfg src with
        | oof => intro h; cases h
        | err => intro h; cases h
        | ood => exact absurd ht (treeXBig_ne_ood hfn hab hal htoc hadm)
        | ok u html =>
          simp only [finishX]
          split
          · intro h; cases h
          · split <;> (intro h; cases h)

/-- **C02 for the block-only flag sets: `convertXBig` returns a string** — tables, admonition, def_list, sane_lists, nl2br,
    wikilinks on or off; every configuration (`tab_length ≥ 1` with admonition); every `<`-free source the model covers
    (with admonition: no `!!!` followed by a non-ASCII character) in whose normalised text, when wikilinks is on, no `[`
    is immediately followed by a blank -/
theorem convertXBig_ok {x : Exts} (hf : x.fencedCode = false) (hfn : x.footnotes = false) (hab : x.abbr = false)
    (hal : x.attrList = false) (htoc : x.toc = false) (cfg : Cfg) (src : Str) (hlt : '<' ∉ src)
    (hadm : x.admonition = true → 0 < cfg.tab ∧ admNonAscii (Normalize.normalize cfg.tab src) = false)
    (hw : x.wikilinks = true → WikiSrc cfg src) : ∃ out, convertXBig x cfg src = .ok out := by
  have h1 : convertXBig x cfg src ≠ .oof := by
    cases hwl : x.wikilinks with
    | true => exact convertXBig_ne_oof_wiki src (hw hwl) hf (fun h => (hadm h).1)
    | false => exact convertXBig_ne_oof_nowiki src hwl hf (fun h => (hadm h).1)
  have h2 := convertXBig_ne_err hf hfn hab hal htoc cfg src
  have h3 := convertXBig_ne_ood hfn hab hal htoc hlt (fun h => (hadm h).2)
  cases hc : convertXBig x cfg src with
  | ok out => exact ⟨out, rfl⟩
  | oof => exact absurd hc h1
  | err => exact absurd hc h2
  | ood => exact absurd hc h3

end MdVerif.C02BigX
