/-
The concrete instance model with the `meta` extension (`InstanceX.convertSM`): on a new instance it is
`PipelineM.convertM` (answer and `md.Meta`); without the extension it is `convertS`.  Core Lean only.
-/
import MdVerif.Lemmas.InstanceXLog
import MdVerif.Lemmas.MetaPipe

namespace MdVerif.InstanceX
open Py Pipeline PipelineX PipelineM MetaPipe

/-- the state of an `ok` result keeps the `md.Meta` it was given -/
def TreeResultS.metaKept (m : Meta.Dict) : TreeResultS → Prop
  | .ok _ st => st.metaData = m
  | _ => True

theorem lateS_metaKept (x : Exts) (cfg : Cfg) (st : MdSt) (stash : List Str) (root : Node) (log : Block.Refs) :
    (lateS x cfg st stash root log).metaKept st.metaData := by
  unfold lateS
  generalize (if x.footnotes = true then
      match FootnotesTree.makeDiv (parseChunkX x cfg) fnCount (BlockExt.footnotesOf log) log with
      | .ok (some div, log') => FootnotesTree.R.ok (FootnotesTree.placeDiv root div, log')
      | .ok (none, log') => .ok (root, log')
      | .oof => .oof
      | .ood => .ood
    else .ok (root, log)) = fs
  cases fs with
  | oof => trivial
  | ood => trivial
  | ok p =>
    obtain ⟨root1, log1⟩ := p
    simp only []
    generalize InlineX.runLoopX _ _ _ _ _ _ = rl
    cases rl with
    | none => trivial
    | some p =>
      obtain ⟨t, xs⟩ := p
      simp only []
      cases (if x.footnotes = true then FootnotesTree.duplicates xs.fn t else some t) with
      | none => trivial
      | some t =>
        simp only []
        generalize (if x.toc = true then TocTree.run _ _ _ else TocTree.R.ok _) = ts
        cases ts with
        | oof => trivial
        | err => trivial
        | ood => trivial
        | ok t =>
          simp only []
          cases TreeProc.unescapeTree t with
          | none => trivial
          | some u => rfl

theorem treePS_metaKept (x : Exts) (cfg : Cfg) (st : MdSt) (prep : FootnotesTree.R (Str × List Str)) :
    (treePS x cfg st prep).metaKept st.metaData := by
  rw [treePS_stages]
  cases prep with
  | oof => trivial
  | ood => trivial
  | ok p =>
    obtain ⟨text, stash⟩ := p
    simp only []
    cases docParseS x cfg st.log text with
    | none => trivial
    | some q =>
      obtain ⟨root, log⟩ := q
      exact lateS_metaKept x cfg st stash root log

theorem treePS_ok_meta {x : Exts} {cfg : Cfg} {st st' : MdSt} {prep : FootnotesTree.R (Str × List Str)} {u : Node}
    (h : treePS x cfg st prep = .ok u st') : st'.metaData = st.metaData := by
  have := treePS_metaKept x cfg st prep
  rw [h] at this
  exact this

theorem prepareST_nil (x : Exts) (cfg : Cfg) (t : Str) : prepareST x cfg [] t = prepareT x cfg t := rfl

/-- **on a new instance `convertSM` is `convertM`**: the answer and `md.Meta` -/
theorem convertSM_fresh (on : Bool) (x : Exts) (cfg : Cfg) (s : Str) :
    ((convertSM on x cfg fresh s).1, (convertSM on x cfg fresh s).2.metaData) = convertM on x cfg s := by
  unfold convertSM convertM
  simp only [fresh, Bool.not_true, Bool.false_eq_true, if_false]
  cases hb : Normalize.isBlankDoc s with
  | true => rfl
  | false =>
    simp only [Bool.false_eq_true, if_false]
    generalize hr : metaStep on (Normalize.normalize cfg.tab s) = r
    have hm : (if on = true then ({ metaData := r.2 } : MdSt) else ({} : MdSt)).metaData = r.2 := by
      cases on with
      | true => rfl
      | false =>
        simp only [Bool.false_eq_true, if_false]
        rw [← hr]; rfl
    generalize hstm : (if on = true then ({ metaData := r.2 } : MdSt) else ({} : MdSt)) = stm at hm
    have hl : stm.log = [] := by rw [← hstm]; cases on <;> rfl
    have hf : stm.fn = Footnotes.State.empty := by rw [← hstm]; cases on <;> rfl
    have hh : stm.html = [] := by rw [← hstm]; cases on <;> rfl
    unfold convertT
    simp only [List.contains_iff_mem]
    by_cases h1 : '<' ∈ r.1
    · simp [h1, MdSt.invalid, hm]
    · simp only [h1, if_false]
      by_cases h2 : x.unsupported = true
      · simp [h2, MdSt.invalid, hm]
      · simp only [h2, Bool.false_eq_true, if_false, hh, prepareST_nil]
        have hp := treePS_empty x cfg hl hf (prepareT x cfg r.1)
        cases ht : treePS x cfg stm (prepareT x cfg r.1) with
        | oof => rw [ht] at hp; simp only [TreeResultS.proj] at hp; simp [← hp, MdSt.invalid, hm]
        | err => rw [ht] at hp; simp only [TreeResultS.proj] at hp; simp [← hp, MdSt.invalid, hm]
        | ood => rw [ht] at hp; simp only [TreeResultS.proj] at hp; simp [← hp, MdSt.invalid, hm]
        | ok u st' =>
          rw [ht] at hp
          simp only [TreeResultS.proj] at hp
          have hmeta := treePS_ok_meta ht
          simp only [← hp]
          cases finishX x cfg st'.html (Ser.serialize cfg.fmt u) with
          | ok out => simp [hmeta, hm]
          | oof => simp [MdSt.invalid, hm]
          | err => simp [MdSt.invalid, hm]
          | ood => simp [MdSt.invalid, hm]

/-- **without the `meta` extension `convertSM` is `convertS`** -/
theorem convertSM_off (x : Exts) (cfg : Cfg) (st : MdSt) (s : Str) : convertSM false x cfg st s = convertS x cfg st s := by
  unfold convertSM convertS
  cases hv : st.valid with
  | false => rfl
  | true =>
    simp only [Bool.not_true, Bool.false_eq_true, if_false, metaStep, contains_lt_normalize]
    cases hb : Normalize.isBlankDoc s with
    | true =>
      have := blank_no_lt hb
      simp only [this, Bool.false_eq_true, if_false, if_true, Exts.unsupported]
    | false =>
      simp only [Bool.false_eq_true, if_false]
      rfl

end MdVerif.InstanceX
