/-
Lemmas for `Props/C02Big.lean`, section 9 (wikilinks): c10x's `Sep Ok N` invariant through `__handleInline` and `run` over
a pattern table (`Lemmas/InlineXInvP4.lean`, `applyPatternX_P` … `runX_deepP`) with the hypothesis "the table has no
wikilink pattern" replaced by what it was used for — every pattern of the table keeps the invariant (`FindP`) — so that
the wikilink pattern can be allowed for string classes in which a wiki label is never blank.  GENERATED COPY (sed) of
the second half of `Lemmas/InlineXInvP4.lean`; `FindP` and its instances are new.  Core Lean only.
-/
import MdVerif.Lemmas.InlineXInvP4

namespace MdVerif.InlineX
open Py Inline

variable {Ok : Str → Prop} {N : Char → Prop}

/-- every pattern of the table keeps the invariant: the stash of inline nodes is not touched, a new element has `Ok`
    texts and no tail, a string to stash is a non-empty run of neutral characters -/
def FindP (Ok : Str → Prop) (N : Char → Prop) (xc : XCfg) : Prop :=
  ∀ k ∈ xc.table, ∀ (data : Str) (si : Nat) (x : XSt) (r : Option Found) (x' : XSt), Ok data →
    findX xc k data si x = some (r, x') → x'.st.stash = x.st.stash ∧ ∀ f, r = some f → FoundP Ok N f

theorem applyPatternX_PW (hs : Sep Ok N) (xc : XCfg) (hfind : FindP Ok N xc) {hi : HIX}
    (hg : HIP Ok N hi) (pi : Nat) (data : Str) (si : Nat) (x : XSt) (hd : Ok data) (hx : StashP Ok N x.st.stash)
    {d : Str} {m : Bool} {si' : Nat} {x' : XSt} (h : applyPatternX xc hi pi data si x = some (d, m, si', x')) :
    Ok d ∧ StashP Ok N x'.st.stash := by
  simp only [applyPatternX] at h
  cases hk : xc.table[pi]? with
  | none =>
    rw [hk] at h
    injection h with h
    injection h with h1 h
    injection h with _ h
    injection h with _ h2
    subst h1; subst h2
    exact ⟨hd, hx⟩
  | some k =>
    rw [hk] at h
    simp only [] at h
    cases hf : findX xc k data si x with
    | none => rw [hf] at h; cases h
    | some r =>
      obtain ⟨fo, x0⟩ := r
      rw [hf] at h
      obtain ⟨hst, hfc⟩ := hfind k (List.mem_of_getElem? hk) data si x _ _ hd hf
      have hx0 : StashP Ok N x0.st.stash := hst ▸ hx
      cases fo with
      | none =>
        injection h with h
        injection h with h1 h
        injection h with _ h
        injection h with _ h2
        subst h1; subst h2
        exact ⟨hd, hx0⟩
      | some f =>
        have hF := hfc f rfl
        simp only [] at h
        cases hnode : f.node with
        | none =>
          rw [hnode] at h
          injection h with h
          injection h with h1 h
          injection h with _ h
          injection h with _ h2
          subst h1; subst h2
          exact ⟨hd, hx0⟩
        | str s =>
          rw [hnode] at h
          simp only [stashX, stashNode] at h
          injection h with h
          injection h with h1 h
          injection h with _ h
          injection h with _ h2
          subst h1; subst h2
          have hsN : Neut N s := by simpa [FoundP, hnode] using hF
          exact ⟨hs.splice hd (placeholder_neut hs _) _ _, StashP_snoc hx0 hsN⟩
        | el n =>
          rw [hnode] at h
          have hnD : DeepP Ok n ∧ n.tail = none := by simpa [FoundP, hnode] using hF
          simp only [] at h
          by_cases hat : (n.text.isSome && n.textAtomic) = true
          · simp only [hat, if_true, stashX, stashNode] at h
            injection h with h
            injection h with h1 h
            injection h with _ h
            injection h with _ h2
            subst h1; subst h2
            exact ⟨hs.splice hd (placeholder_neut hs _) _ _, StashP_snoc hx0 hnD⟩
          · simp only [hat, Bool.false_eq_true, if_false] at h
            cases h1 : hiNodeX hi pi { n with children := [] } x0 with
            | none => rw [h1] at h; cases h
            | some r1 =>
              obtain ⟨n1, x1⟩ := r1
              rw [h1] at h
              simp only [] at h
              obtain ⟨hn1, hx1, htl, _⟩ := hiNodeX_P hs hg pi _ x0
                (DeepP_children [] hnD.1 (by intro k hk; cases hk)) hx0 h1
              cases h2 : hiNodesX hi pi n.children x1 with
              | none => rw [h2] at h; cases h
              | some r2 =>
                obtain ⟨kids, x2⟩ := r2
                rw [h2] at h
                obtain ⟨hkids, hx2⟩ := hiNodesX_P hs hg pi n.children x1 (DeepP_kids hnD.1) hx1 h2
                simp only [stashX, stashNode] at h
                injection h with h
                injection h with h3 h
                injection h with _ h
                injection h with _ h4
                subst h3; subst h4
                exact ⟨hs.splice hd (placeholder_neut hs _) _ _,
                  StashP_snoc hx2 ⟨DeepP_children kids hn1 hkids, htl hnD.2⟩⟩

theorem handleInlineX_PW (hs : Sep Ok N) (xc : XCfg) (hfind : FindP Ok N xc) :
    ∀ f, HIP Ok N (handleInlineX xc f) := by
  intro f
  induction f with
  | zero => intro d p x d' x' _ _ h; simp only [handleInlineX] at h; cases h
  | succ f ih =>
    intro d p x d' x' hd hx h
    simp only [handleInlineX] at h
    exact hiLoopX_P _ (fun pi data si x d m si' x' hd hx h => applyPatternX_PW hs xc hfind ih pi data si x hd hx h)
      _ _ _ _ _ hd hx h

theorem handleInlineTopX_PW (hs : Sep Ok N) (xc : XCfg) (hfind : FindP Ok N xc) (data : Str)
    (x : XSt) (hd : Ok data) (hx : StashP Ok N x.st.stash) {d' : Str} {x' : XSt}
    (h : handleInlineTopX xc data x = some (d', x')) : Ok d' ∧ StashP Ok N x'.st.stash := by
  simp only [handleInlineTopX] at h
  exact handleInlineX_PW hs xc hfind _ _ _ _ _ _ hd hx h

/-! ### `run` -/

theorem textStageX_PW (hs : Sep Ok N) (xc : XCfg) (hfind : FindP Ok N xc) (child : Node) (x : XSt)
    (hch : DeepP Ok child) (hx : StashP Ok N x.st.stash) {c1 : Node} {lst : List Node} {x1 : XSt}
    (h : textStageX xc child x = some (c1, lst, x1)) :
    DeepP Ok c1 ∧ (∀ n ∈ lst, DeepP Ok n) ∧ StashP Ok N x1.st.stash := by
  simp only [textStageX] at h
  split at h
  · cases hh : handleInlineTopX xc (child.text.getD []) x with
    | none => rw [hh] at h; cases h
    | some r =>
      obtain ⟨data, x1'⟩ := r
      rw [hh] at h
      simp only [] at h
      obtain ⟨hd', hx'⟩ := handleInlineTopX_PW hs xc hfind _ x (okP_text hs hch) hx hh
      cases hp : ppTop x1'.st data false { child with text := none, textAtomic := false } true with
      | none => rw [hp] at h; cases h
      | some q =>
        obtain ⟨lst', c1'⟩ := q
        rw [hp] at h
        injection h with h
        injection h with h1' h
        injection h with h2' h3'
        subst h1'; subst h2'; subst h3'
        have := ppTop_P hs hx' hd' (DeepP_noText hch) rfl hp
        exact ⟨this.2.1, this.1, hx'⟩
  · injection h with h
    injection h with h1' h
    injection h with h2' h3'
    subst h1'; subst h2'; subst h3'
    exact ⟨hch, (by intro n hn; cases hn), hx⟩

theorem tailStageX_PW (hs : Sep Ok N) (xc : XCfg) (hfind : FindP Ok N xc) (c1 : Node) (x1 : XSt)
    (hc1 : DeepP Ok c1) (hx1 : StashP Ok N x1.st.stash) {c2 : Node} {tr : List Node} {x2 : XSt}
    (h : tailStageX xc c1 x1 = some (c2, tr, x2)) :
    DeepP Ok c2 ∧ (∀ n ∈ tr, DeepP Ok n) ∧ StashP Ok N x2.st.stash := by
  simp only [tailStageX] at h
  split at h
  · by_cases hat : c1.tailAtomic = true
    · rw [if_pos hat] at h
      exact tailFinish_P hs c1 hc1 _ (by
        intro data x2' hh
        injection hh with hh
        injection hh with e1 e2
        subst e1; subst e2
        exact ⟨okP_tail hs hc1, hx1⟩) _ _ _ h
    · rw [if_neg hat] at h
      exact tailFinish_P hs c1 hc1 _
        (fun data x2' hh => handleInlineTopX_PW hs xc hfind _ x1 (okP_tail hs hc1) hx1 hh) _ _ _ h
  · injection h with h
    injection h with h1' h
    injection h with h2' h3'
    subst h1'; subst h2'; subst h3'
    exact ⟨hc1, (by intro n hn; cases hn), hx1⟩

theorem visitChildX_PW (hs : Sep Ok N) (xc : XCfg) (hfind : FindP Ok N xc) (child : Node)
    (v : VisitX) (hch : DeepP Ok child) (hv : StashP Ok N v.x.st.stash) {k : Node} {tr : List Node} {v' : VisitX}
    (h : visitChildX xc child v = some (k, tr, v')) :
    DeepP Ok k ∧ (∀ n ∈ tr, DeepP Ok n) ∧ StashP Ok N v'.x.st.stash ∧ v'.done = v.done := by
  rw [visitChildX_stages] at h
  cases h1 : textStageX xc child v.x with
  | none => rw [h1] at h; cases h
  | some r1 =>
    obtain ⟨c1, lst, x1⟩ := r1
    rw [h1] at h
    simp only [] at h
    obtain ⟨hc1, hlst, hx1⟩ := textStageX_PW hs xc hfind child v.x hch hv h1
    cases h2 : tailStageX xc c1 x1 with
    | none => rw [h2] at h; cases h
    | some r2 =>
      obtain ⟨c2, tr2, x2⟩ := r2
      rw [h2] at h
      obtain ⟨hc2, htr, hx2⟩ := tailStageX_PW hs xc hfind c1 x1 hc1 hx1 h2
      injection h with h
      injection h with h1' h
      injection h with h2' h3'
      subst h1'; subst h2'; subst h3'
      refine ⟨?_, htr, hx2, rfl⟩
      apply DeepP_children _ hc2
      intro n hn
      rcases List.mem_append.mp hn with hn | hn
      · exact hlst n hn
      · exact DeepP_kids hc2 n hn

theorem visitLoopX_PW (hs : Sep Ok N) (xc : XCfg) (hfind : FindP Ok N xc) :
    ∀ (g : Nat) (todo : List (Node × Option Nat)) (v : VisitX),
    (∀ t ∈ todo, DeepP Ok t.1) → (∀ n ∈ v.done, DeepP Ok n) → StashP Ok N v.x.st.stash →
    ∀ {v' : VisitX}, visitLoopX xc g todo v = some v' →
      (∀ n ∈ v'.done, DeepP Ok n) ∧ StashP Ok N v'.x.st.stash := by
  intro g
  induction g with
  | zero => intro todo v _ _ _ v' h; simp only [visitLoopX] at h; cases h
  | succ g ih =>
    intro todo v ht hdone hv v' h
    cases todo with
    | nil =>
      simp only [visitLoopX] at h
      injection h with h
      exact h ▸ ⟨hdone, hv⟩
    | cons hd todo =>
      obtain ⟨child, orig⟩ := hd
      simp only [visitLoopX] at h
      cases h1 : visitChildX xc child v with
      | none => rw [h1] at h; cases h
      | some r =>
        obtain ⟨k, tr, v1⟩ := r
        rw [h1] at h
        simp only [] at h
        obtain ⟨hk, htr, hv1, hd1⟩ := visitChildX_PW hs xc hfind child v (ht (child, orig) List.mem_cons_self) hv h1
        apply ih _ _ ?_ ?_ ?_ h
        · intro t htm
          rcases List.mem_append.mp htm with htm | htm
          · obtain ⟨n, hn, rfl⟩ := List.mem_map.mp htm
            exact htr n hn
          · exact ht t (List.mem_cons_of_mem _ htm)
        · intro n hn
          rcases List.mem_cons.mp hn with hn | hn
          · exact hn ▸ hk
          · exact hdone n (hd1 ▸ hn)
        · exact hv1

theorem runLoopX_PW (hs : Sep Ok N) (xc : XCfg) (hfind : FindP Ok N xc) (g2 : Nat) :
    ∀ (g : Nat) (root : Node) (stack : List Path) (x : XSt), DeepP Ok root → StashP Ok N x.st.stash →
    ∀ {r : Node} {x' : XSt}, runLoopX xc g2 g root stack x = some (r, x') →
      DeepP Ok r ∧ StashP Ok N x'.st.stash := by
  intro g
  induction g with
  | zero => intro root stack x _ _ r x' h; simp only [runLoopX] at h; cases h
  | succ g ih =>
    intro root stack x hr hx r x' h
    cases stack with
    | nil =>
      simp only [runLoopX] at h
      injection h with h
      injection h with h1 h2
      subst h1; subst h2
      exact ⟨hr, hx⟩
    | cons p stack =>
      simp only [runLoopX] at h
      cases hg : getAt root p with
      | none => rw [hg] at h; exact ih _ _ _ hr hx h
      | some cur =>
        rw [hg] at h
        simp only [] at h
        have hcur := getAt_deepP p hr hg
        cases hv : visitLoopX xc g2 (withIdx cur.children 0) { x := x } with
        | none => rw [hv] at h; cases h
        | some v =>
          rw [hv] at h
          simp only [] at h
          obtain ⟨hdone, hvx⟩ := visitLoopX_PW hs xc hfind g2 (withIdx cur.children 0) { x := x }
            (withIdx_deepP _ 0 (DeepP_kids hcur)) (by intro n hn; cases hn) hx hv
          apply ih _ _ _ ?_ hvx h
          apply setAt_deepP p hr
          apply DeepP_children _ hcur
          intro n hn
          exact hdone n (List.mem_reverse.mp hn)

/-- the inline stage (without the wikilink pattern) keeps an `Ok` tree `Ok` -/
theorem runX_deepPW (hs : Sep Ok N) (xc : XCfg) (hfind : FindP Ok N xc) (tree : Node)
    (html : List Str) (ht : DeepP Ok tree) {r : Node} {x' : XSt} (h : runX xc tree html = some (r, x')) :
    DeepP Ok r ∧ StashP Ok N x'.st.stash := by
  simp only [runX] at h
  exact runLoopX_PW hs xc hfind _ _ tree [[]] { st := { html := html } } ht (by intro it hit; cases hit) h

end MdVerif.InlineX
