/-
Helper lemmas for C02 (extended block parser), part 3: one turn of the extended loop makes progress
(`dispatchXT_progress`), hence `parseBlocksXT` needs at most `2 * mu blocks + 1` fuel (`parseBlocksXT_total`) and
`parseDocumentXT` always answers (`parseDocumentXT_total`).  Core Lean only.

The only hypothesis: `0 < tab` when the admonition extension is on (with `tab_length = 0` the sibling branch of
`AdmonitionProcessor.run` re-parses the unchanged block one level deeper in the tree: it terminates because the tree is
finite, not because the text shrinks).
-/
import MdVerif.Lemmas.BlockExtFuelProc

namespace MdVerif.BlockExt.Fuel
open Py Block

theorem tailRef_progress (state : List BState) (refs : Refs) (parent : Node) (b : Str) (rest : List Str) :
    Progress (tailRef state refs parent b rest) b rest := by
  simp only [tailRef]
  split
  · next m hm => exact referenceP_measure refs parent b rest m hm
  · exact paraP_measure state refs parent b rest

theorem tailAbbr_progress (cfg : XCfg) (state : List BState) (refs : Refs) (parent : Node) (b : Str) (rest : List Str) :
    Progress (tailAbbr cfg state refs parent b rest) b rest := by
  simp only [tailAbbr]
  split
  · split
    · next rf rs hok => exact ⟨_, _, _, rfl, abbrP_measure _ _ _ _ _ hok⟩
    · next hr => exact absurd hr (abbrP_ne_raised refs b rest)
    · exact tailRef_progress state refs parent b rest
  · exact tailRef_progress state refs parent b rest

theorem tailFootnote_progress (cfg : XCfg) (state : List BState) (refs : Refs) (parent : Node) (b : Str)
    (rest : List Str) : Progress (tailFootnote cfg state refs parent b rest) b rest := by
  simp only [tailFootnote]
  split
  · split
    · next rf rs hok => exact ⟨_, _, _, rfl, footnoteP_measure _ _ _ _ _ hok⟩
    · exact tailAbbr_progress cfg state refs parent b rest
  · exact tailAbbr_progress cfg state refs parent b rest

theorem tailQuote_progress (cfg : XCfg) (pb : PB) (state : List BState) (refs : Refs) (parent : Node) (b : Str)
    (rest : List Str) (hb : b ≠ []) (hnl : startsWith b ['\n'] = false) (hS : Small pb b.length) :
    Progress (tailQuote cfg pb state refs parent b rest) b rest := by
  simp only [tailQuote]
  split
  · next q hq => exact quoteP_measure pb state refs parent b rest q hb hnl hq hS
  · exact tailFootnote_progress cfg state refs parent b rest

theorem tailDef_progress (cfg : XCfg) (tab : Nat) (pb : PB) (state : List BState) (refs : Refs) (parent : Node) (b : Str)
    (rest : List Str) (hb : b ≠ []) (hnl : startsWith b ['\n'] = false) (hS : Small pb b.length) :
    Progress (tailDef cfg tab pb state refs parent b rest) b rest := by
  simp only [tailDef]
  split
  · split
    · next m hm =>
      split
      · next r hr => exact defListP_measure tab pb state refs parent b rest m hm hS r hr
      · exact tailQuote_progress cfg pb state refs parent b rest hb hnl hS
    · exact tailQuote_progress cfg pb state refs parent b rest hb hnl hS
  · exact tailQuote_progress cfg pb state refs parent b rest hb hnl hS

theorem tailList_progress (cfg : XCfg) (tab : Nat) (pb : PB) (state : List BState) (refs : Refs) (parent : Node) (b : Str)
    (rest : List Str) (hb : b ≠ []) (hnl : startsWith b ['\n'] = false) (hS : Small pb b.length) :
    Progress (tailList cfg tab pb state refs parent b rest) b rest := by
  simp only [tailList]
  split
  · next hl =>
    split
    · exact listPX_measure .saneOl tab pb state refs parent b rest "ol" true false hb hl hS
    · exact listP_measure tab pb state refs parent b rest "ol" true false hb hl hS
  · split
    · next hl =>
      split
      · exact listPX_measure .saneUl tab pb state refs parent b rest "ul" false true hb hl hS
      · exact listP_measure tab pb state refs parent b rest "ul" false true hb hl hS
    · exact tailDef_progress cfg tab pb state refs parent b rest hb hnl hS

theorem tailEmptyT_eq (tables : Bool) (cfg : XCfg) (tab : Nat) (pb : PB) (state : List BState) (refs : Refs)
    (parent : Node) (b : Str) (rest : List Str) : tailEmptyT tables cfg tab pb state refs parent b rest =
    if b.isEmpty || startsWith b ['\n'] then some (emptyP refs parent b rest)
    else if indentTest tab state parent b then indentP tab pb state refs parent b rest
    else if cfg.defList && indentTestX isListTagD isItemTagD tab state parent b then
      indentPX isListTagD isItemTagD "dd" tab pb state refs parent b rest
    else if startsWith b (spaces tab) then some (codeP tab refs parent b rest)
    else match (if tables then Tables.tableTest b else none) with
    | some bs => some (tableP refs parent b rest bs)
    | none =>
    match hashSearch b with
    | some m => hashP tab pb state refs parent b rest m
    | none =>
    if setextMatch b then some (setextP refs parent b rest) else
    match hrSearch b with
    | some m => hrP pb state refs parent b rest m
    | none => tailList cfg tab pb state refs parent b rest := rfl

theorem indentTestX_detabbed {isL isI : Node → Bool} {tab : Nat} {state : List BState} {parent : Node} {b : Str}
    (h : indentTestX isL isI tab state parent b = true) : isstate state .detabbed = false := by
  simp only [indentTestX, Bool.and_eq_true, Bool.not_eq_true'] at h
  exact h.1.2

theorem tailEmptyT_progress (tables : Bool) (cfg : XCfg) (tab : Nat) (pb : PB) (state : List BState) (refs : Refs)
    (parent : Node) (b : Str) (rest : List Str) (hS : Small pb b.length)
    (hD : isstate state .detabbed = false → SmallD pb state (b.length + 1)) :
    Progress (tailEmptyT tables cfg tab pb state refs parent b rest) b rest := by
  rw [tailEmptyT_eq]
  split
  · exact emptyP_measure refs parent b rest
  · next h0 =>
    simp only [Bool.or_eq_true, not_or, Bool.not_eq_true] at h0
    have hb : b ≠ [] := by rintro rfl; simp at h0
    have hnl := h0.2
    split
    · next hc =>
      simp only [indentTest, Bool.and_eq_true, Bool.not_eq_true'] at hc
      exact indentP_measure tab pb state refs parent b rest (hD hc.1.2)
    · split
      · next hc =>
        simp only [Bool.and_eq_true] at hc
        exact indentPX_measure isListTagD isItemTagD "dd" tab pb state refs parent b rest (hD (indentTestX_detabbed hc.2))
      · split
        · next hc => exact codeP_measure tab refs parent b rest hc
        · split
          · next bs _ => exact tableP_measure refs parent b rest bs
          · split
            · next m hm => exact hashP_measure tab pb state refs parent b rest m hb hm hS
            · split
              · exact setextP_measure refs parent b rest
              · split
                · next m hm => exact hrP_measure pb state refs parent b rest m hm hS
                · exact tailList_progress cfg tab pb state refs parent b rest hb hnl hS

/-- **progress of one turn of the extended loop** -/
theorem dispatchXT_progress (tables : Bool) (cfg : XCfg) (tab : Nat) (htab : cfg.admonition = true → 0 < tab) (pb : PB)
    (state : List BState) (refs : Refs) (parent : Node) (b : Str) (rest : List Str) (hS : Small pb b.length)
    (hD : isstate state .detabbed = false → SmallD pb state (b.length + 1)) :
    Progress (dispatchXT tables cfg tab pb state refs parent b rest) b rest := by
  simp only [dispatchXT]
  split
  · next hit hh =>
    split at hh
    · next hadm => exact admonitionP_measure tab (htab hadm) pb state refs parent b rest hit hh hS
    · cases hh
  · exact tailEmptyT_progress tables cfg tab pb state refs parent b rest hS hD

theorem parseBlocksXT_total (tables : Bool) (cfg : XCfg) (tab : Nat) (htab : cfg.admonition = true → 0 < tab) (f : Nat) :
    ∀ (state : List BState) (refs : Refs) (parent : Node) (blocks : List Str), need state blocks ≤ f →
      (parseBlocksXT tables cfg tab f state refs parent blocks).isSome := by
  induction f with
  | zero =>
    intro state refs parent blocks h
    cases blocks with
    | nil => simp [parseBlocksXT]
    | cons b rest => simp [need] at h; omega
  | succ f ih =>
    intro state refs parent blocks h
    cases blocks with
    | nil => simp [parseBlocksXT]
    | cons b rest =>
      simp only [need, mu_cons] at h
      have hS : Small (parseBlocksXT tables cfg tab f) b.length := by
        intro st rf par bl hbl
        apply ih
        simp only [need]
        split <;> split at h <;> omega
      have hD : isstate state .detabbed = false → SmallD (parseBlocksXT tables cfg tab f) state (b.length + 1) := by
        intro hst rf par bl hbl
        apply ih
        simp only [need, isstate_append_detabbed, hst] at h ⊢
        simp at h ⊢; omega
      obtain ⟨p, rf, bl, hr, hbl⟩ :=
        dispatchXT_progress tables cfg tab htab (parseBlocksXT tables cfg tab f) state refs parent b rest hS hD
      simp only [parseBlocksXT, hr]
      apply ih
      simp only [need]
      split <;> split at h <;> omega

theorem parseChunkXT_total (tables : Bool) (cfg : XCfg) (tab : Nat) (htab : cfg.admonition = true → 0 < tab)
    (state : List BState) (refs : Refs) (parent : Node) (text : Str) (f : Nat) (hf : fuelForX text.length ≤ f) :
    (parseChunk (parseBlocksXT tables cfg tab f) state refs parent text).isSome := by
  simp only [parseChunk]
  apply parseBlocksXT_total tables cfg tab htab
  have := mu_splitS ['\n', '\n'] text
  simp only [need, fuelForX] at hf ⊢
  split <;> omega

theorem parseDocumentXT_total (tables : Bool) (cfg : XCfg) (tab : Nat) (htab : cfg.admonition = true → 0 < tab)
    (text : Str) : (parseDocumentXT tables cfg tab text).isSome :=
  parseChunkXT_total tables cfg tab htab [] [] (Node.el "div") text _ (Nat.le_refl _)

end MdVerif.BlockExt.Fuel
