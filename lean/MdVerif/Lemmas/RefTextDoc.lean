/-
Helper lemmas for `Props/C15Text.lean`, part 1: a *generic back end* for documents `docOf before para after`
(`Lemmas/InlineRefForms.lean`) whose paragraph the inline processor turns into an arbitrary element `P`
(children with children allowed), and the end-to-end form of the undefined reference.  Core Lean only.
-/
import MdVerif.Lemmas.InlineRefForms

namespace MdVerif.RefText
open Py Inline RefDef InlineRef

/-! ### the tree processors and the serializer on `<div>P</div>` -/

/-- the document tree after `PrettifyTreeprocessor` when the paragraph element became `pretty` -/
def prettyOne (pretty : Node) : Node :=
  { tag := .name "div".toList, text := some ['\n'], children := [pretty], tail := some ['\n'] }

theorem prettify_one (P pretty : Node)
    (hb : TreeProc.isBlockLevel TreeProc.defaultBlockLevel P.tag = true)
    (hpretty : TreeProc.mapTree TreeProc.preRule (TreeProc.mapTree TreeProc.brRule
      (TreeProc.prettifyETree TreeProc.defaultBlockLevel P)) = pretty) :
    TreeProc.prettify ((Node.el "div").append P) = prettyOne pretty := by
  have h1 : TreeProc.isBlockLevel TreeProc.defaultBlockLevel (.name "div".toList) = true := by decide
  have h3 : (Tag.name "div".toList == Tag.name "code".toList) = false := by decide
  have h4 : (Tag.name "div".toList == Tag.name "pre".toList) = false := by decide
  have h7 : (Tag.name "div".toList == Tag.name "br".toList) = false := by decide
  simp only [TreeProc.prettify, Node.append, Node.el, List.nil_append, TreeProc.prettifyETree, h1, h3, h4, hb,
    TreeProc.prettifyKids, TreeProc.blankOrNone, Node.truthy, Bool.not_false, Bool.true_or, Bool.and_self, if_true,
    TreeProc.mapTree, TreeProc.mapKids, TreeProc.brRule, TreeProc.preRule, TreeProc.tagIs, h7,
    Bool.false_eq_true, if_false, prettyOne]
  rw [hpretty]

theorem unescape_one (pretty fin : Node) (h : TreeProc.unescapeTree pretty = some fin) :
    TreeProc.unescapeTree (prettyOne pretty) = some (prettyOne fin) := by
  have hnl : TreeProc.unescapeText 0 ['\n'] = some ['\n'] := by decide
  simp [prettyOne, TreeProc.unescapeTree, TreeProc.unescapeKids, h, TreeProc.unescAttrs, hnl, Node.truthy]

theorem serialize_one (fmt : Ser.Fmt) (fin : Node) (out : Str) (h : Ser.serialize fmt fin = out ++ ['\n']) :
    Ser.serialize fmt (prettyOne fin) = "<div>".toList ++ ('\n' :: out ++ ['\n']) ++ "</div>\n".toList := by
  have h1 : Ser.isEmptyTag "div".toList = false := by decide
  have h3 : Ser.isRawTextTag "div".toList = false := by decide
  have h5 : Ser.escCdata ['\n'] = ['\n'] := by decide
  unfold prettyOne
  rw [serialize_name, element_nonempty _ _ _ _ _ h1 h3, serializeList_one, h]
  simp [Ser.sortAttrs, Ser.writeAttrs, h5, Node.truthy, List.append_assoc]

/-- **Generic back end.**  The document is definitions, a paragraph, definitions; the inline processor turns the
    paragraph element into `P`; `P` goes through prettify, unescape and the serializer to `<p>E</p>`: that is the
    output of `convert`. -/
theorem convert_one (cfg : Pipeline.Cfg) (hbl : cfg.blockLevel = TreeProc.defaultBlockLevel) (htab : 0 < cfg.tab)
    (before after : List DefSpec) (hb : ∀ d ∈ before, d.ok cfg.tab = true) (ha : ∀ d ∈ after, d.ok cfg.tab = true)
    {para : Str} (hp : ParaOK para) (P pretty fin : Node) (E : Str) (st : St)
    (hrun : Inline.run { esc := cfg.esc, refs := ((before ++ after).map DefSpec.entry).reverse }
      ((Node.el "div").append (Block.mkText "p" para)) = some ((Node.el "div").append P, st))
    (hst : st.html = [])
    (hblock : TreeProc.isBlockLevel TreeProc.defaultBlockLevel P.tag = true)
    (hpretty : TreeProc.mapTree TreeProc.preRule (TreeProc.mapTree TreeProc.brRule
      (TreeProc.prettifyETree TreeProc.defaultBlockLevel P)) = pretty)
    (hun : TreeProc.unescapeTree pretty = some fin)
    (hser : Ser.serialize cfg.fmt fin = ("<p>".toList ++ E ++ "</p>".toList) ++ ['\n'])
    (hstx : Post.STX ∉ E) :
    Pipeline.convert cfg (docOf before para after) = .ok ("<p>".toList ++ E ++ "</p>".toList) := by
  obtain ⟨h1, h2, h3⟩ := front_doc cfg htab before after hb ha hp
  have h6 := prettify_one P pretty hblock hpretty
  have h7 := unescape_one pretty fin hun
  have h8 := serialize_one cfg.fmt fin _ hser
  have h9 := finish_linkDoc cfg.blockLevel E hstx
  simp only [Pipeline.convert, Pipeline.tree, h1, h2, Bool.false_eq_true, if_false, h3, hrun, hbl, h6, h7, h8, hst]
  rw [hbl] at h9
  simp only [List.append_assoc, List.cons_append, List.nil_append] at h9 ⊢
  simp only [h9]

/-! ### a paragraph that stays text -/

theorem prettify_textP (s : Str) (_hs : isBlank s = false) :
    TreeProc.mapTree TreeProc.preRule (TreeProc.mapTree TreeProc.brRule
      (TreeProc.prettifyETree TreeProc.defaultBlockLevel (Block.mkText "p" s))) =
      { tag := .name "p".toList, text := some s, tail := some ['\n'] } := by
  have h2 : TreeProc.isBlockLevel TreeProc.defaultBlockLevel (.name "p".toList) = true := by decide
  have h5 : (Tag.name "p".toList == Tag.name "code".toList) = false := by decide
  have h6 : (Tag.name "p".toList == Tag.name "pre".toList) = false := by decide
  have h8 : (Tag.name "p".toList == Tag.name "br".toList) = false := by decide
  simp [Block.mkText, Node.el, TreeProc.prettifyETree, TreeProc.prettifyKids, TreeProc.blankOrNone,
    Node.truthy, TreeProc.mapTree, TreeProc.mapKids, TreeProc.brRule, TreeProc.preRule, TreeProc.tagIs]

theorem unescape_textP (s : Str) (hs : TreeProc.STX ∉ s) :
    TreeProc.unescapeTree { tag := .name "p".toList, text := some s, tail := some ['\n'] } =
      some { tag := .name "p".toList, text := some s, tail := some ['\n'] } := by
  have hnl : TreeProc.unescapeText 0 ['\n'] = some ['\n'] := by decide
  have u1 := unescapeText_id s hs
  cases s <;>
    simp [TreeProc.unescapeTree, TreeProc.unescapeKids, TreeProc.unescAttrs, hnl, u1, Node.truthy]

theorem serialize_textP (fmt : Ser.Fmt) (s : Str) (hs : s ≠ []) :
    Ser.serialize fmt { tag := .name "p".toList, text := some s, tail := some ['\n'] } =
      ("<p>".toList ++ Ser.escCdata s ++ "</p>".toList) ++ ['\n'] := by
  have h2 : Ser.isEmptyTag "p".toList = false := by decide
  have h4 : Ser.isRawTextTag "p".toList = false := by decide
  have h5 : Ser.escCdata ['\n'] = ['\n'] := by decide
  rw [serialize_name, element_nonempty _ _ _ _ _ h2 h4, serializeList_nil]
  cases s with
  | nil => exact absurd rfl hs
  | cons c r => simp [Ser.sortAttrs, Ser.writeAttrs, h5, Node.truthy, List.append_assoc]

theorem stx_not_mem_escCdata (s : Str) (h : Post.STX ∉ s) : Post.STX ∉ Ser.escCdata s := by
  rw [Ser.onepass_cdata']
  exact stx_not_mem_esc1 false false s h

/-- **An undefined reference, end to end**: among any definitions none of which has the key of the label or of the
    text, the paragraph is rendered as its source text. -/
theorem convert_undefined (cfg : Pipeline.Cfg) (hbl : cfg.blockLevel = TreeProc.defaultBlockLevel)
    (htab : 0 < cfg.tab) (before after : List DefSpec) (hb : ∀ d ∈ before, d.ok cfg.tab = true)
    (ha : ∀ d ∈ after, d.ok cfg.tab = true) (pre text sp label post : Str)
    (hpre : PlainText pre = true) (htext : PlainText text = true) (hpost : PlainText post = true)
    (hstart : ParaStartOK pre = true) (hsp : sp = [] ∨ sp = [' ']) (hl : QuietLabel label = true)
    (hlc : label.all docCh = true)
    (hf1 : Block.lookupRef ((before ++ after).map DefSpec.entry) (normUse text) = none)
    (hf2 : Block.lookupRef ((before ++ after).map DefSpec.entry) (normUse label) = none) :
    Pipeline.convert cfg (docOf before (refSrc pre text sp label post) after) =
      .ok ("<p>".toList ++ Ser.escCdata (refSrc pre text sp label post) ++ "</p>".toList) := by
  have hul := quietLabel_useLabel hl
  have hlnl : '\n' ∉ label := quietLabel_not_mem hl (by decide)
  have hp := paraOK_refSrc hpre htext hpost hstart hsp hlnl hlc
  have hspok : SpOK sp := by
    rcases hsp with e | e
    · exact Or.inl e
    · exact Or.inr ⟨' ', e, by decide⟩
  have hnlsp : '\n' ∉ sp := by rcases hsp with e | e <;> simp [e]
  have hstxl : STX ∉ label := by
    intro hm
    have := List.all_eq_true.mp hlc _ hm
    revert this; decide
  have hnone : ∀ key, Block.lookupRef ((before ++ after).map DefSpec.entry) key = none →
      (((before ++ after).map DefSpec.entry).reverse).find? (fun x => x.1 = key) = none := by
    intro key h
    unfold Block.lookupRef at h
    cases hf : (((before ++ after).map DefSpec.entry).reverse).find? (fun r => r.1 = key) with
    | none => rfl
    | some x => rw [hf] at h; simp at h
  have hrun := run_ref_undefined { esc := cfg.esc, refs := ((before ++ after).map DefSpec.entry).reverse }
    pre text sp label post hpre htext hpost hspok hnlsp hl hstxl (hnone _ hf1) (hnone _ hf2)
  have hsrc_stx : STX ∉ refSrc pre text sp label post := refSrc_no_stx hpre htext hpost hspok hstxl
  have hne := refSrc_ne_nil pre text sp label post
  have hblank : isBlank (refSrc pre text sp label post) = false := by
    have := hp.visible
    obtain ⟨c, r, e, _, hs⟩ := hp.shape
    rw [e]
    simp [isBlank, hs]
  exact convert_one cfg hbl htab before after hb ha hp _ _ _ _ _ hrun rfl (by show TreeProc.isBlockLevel TreeProc.defaultBlockLevel (.name "p".toList) = true; decide)
    (prettify_textP _ hblank) (unescape_textP _ hsrc_stx) (serialize_textP cfg.fmt _ hne)
    (stx_not_mem_escCdata _ hsrc_stx)

end MdVerif.RefText
