/-
Helper lemmas for C17 (footnotes part).  Core Lean only.
-/
import MdVerif.Spec.Footnotes
import MdVerif.Lemmas.Toc

namespace MdVerif.Footnotes
open MdVerif.Py MdVerif.Footnotes.Spec MdVerif.Toc

/-! ### strings -/

theorem splitFirst_append (c : Char) (a b : Str) (h : c ∉ a) : splitFirst c (a ++ c :: b) = some (a, b) := by
  induction a with
  | nil => simp [splitFirst]
  | cons x a ih =>
    have hx : x ≠ c := fun e => h (by simp [e])
    have := ih (fun hm => h (by simp [hm]))
    simp [splitFirst, hx, this]

theorem colon_not_mem_fnref : ':' ∉ fnref := by decide

theorem colon_not_mem_natToDec (n : Nat) : ':' ∉ natToDec n := not_mem_natToDec (by decide) n

theorem isDecimal_of_isAsciiDigit {c : Char} (h : isAsciiDigit c = true) : isDecimal c = true := by
  unfold isDecimal
  have : c.toNat < 128 := by
    simp only [isAsciiDigit, Bool.and_eq_true, decide_eq_true_eq] at h
    have h2 : c.toNat ≤ '9'.toNat := h.2
    have : '9'.toNat = 57 := by decide
    omega
  simp [this, h]

theorem takeWhile_all {α} (p : α → Bool) (l : List α) (h : ∀ c ∈ l, p c = true) : l.takeWhile p = l := by
  induction l with
  | nil => rfl
  | cons a l ih =>
    simp [List.takeWhile, h a (by simp), ih (fun c hc => h c (by simp [hc]))]

theorem startsWith_append (p s : Str) : startsWith (p ++ s) p = true := by
  induction p with
  | nil => cases s <;> rfl
  | cons c p ih => simp [startsWith, ih]

theorem refIdMatch_fnref : refIdMatch fnref = none := by decide

theorem refIdMatch_counter (n : Nat) : refIdMatch (fnref ++ natToDec n) = some (fnref, natToDec n) := by
  unfold refIdMatch
  rw [startsWith_append]
  have hd : (fnref ++ natToDec n).drop 5 = natToDec n := by simp [fnref]
  rw [hd, takeWhile_all _ _ (fun c hc => isDecimal_of_isAsciiDigit (natToDec_digits n c hc))]
  cases h : natToDec n with
  | nil => exact absurd h (natToDec_ne_nil n)
  | cons d ds => simp

/-! ### `refName` -/

theorem refName_split (id : Str) (n : Nat) :
    ∃ pre, ':' ∉ pre ∧ refName id n = pre ++ ':' :: id ∧
      (n = 0 → pre = fnref) ∧ (∀ m, n = m + 1 → pre = fnref ++ natToDec (m + 2)) := by
  cases n with
  | zero => exact ⟨fnref, colon_not_mem_fnref, rfl, fun _ => rfl, fun m h => by omega⟩
  | succ m =>
    refine ⟨fnref ++ natToDec (m + 2), ?_, by simp [refName], fun h => by omega, fun m' h => by
      have : m = m' := by omega
      subst this; rfl⟩
    intro h
    rcases List.mem_append.mp h with h | h
    · exact colon_not_mem_fnref h
    · exact colon_not_mem_natToDec _ h

theorem bumpRef_refName (id : Str) (n : Nat) : bumpRef (refName id n) = refName id (n + 1) := by
  cases n with
  | zero =>
    unfold bumpRef
    simp only [refName]
    rw [splitFirst_append _ _ _ colon_not_mem_fnref]
    simp only [refIdMatch_fnref]
  | succ m =>
    unfold bumpRef
    have hc : ':' ∉ fnref ++ natToDec (m + 2) := by
      intro h
      rcases List.mem_append.mp h with h | h
      · exact colon_not_mem_fnref h
      · exact colon_not_mem_natToDec _ h
    have : refName id (m + 1) = (fnref ++ natToDec (m + 2)) ++ ':' :: id := by simp [refName]
    rw [this, splitFirst_append _ _ _ hc]
    simp only [refIdMatch_counter, decToNat_natToDec]
    simp [refName]

theorem refName_injective {id id' : Str} {n n' : Nat} (h : refName id n = refName id' n') :
    id = id' ∧ n = n' := by
  obtain ⟨p, hp, he, h0, hs⟩ := refName_split id n
  obtain ⟨p', hp', he', h0', hs'⟩ := refName_split id' n'
  have h1 := splitFirst_append ':' p id hp
  have h2 := splitFirst_append ':' p' id' hp'
  rw [← he, h, he', h2] at h1
  simp only [Option.some.injEq, Prod.mk.injEq] at h1
  refine ⟨h1.2.symm, ?_⟩
  have hpp : p = p' := h1.1.symm
  cases n with
  | zero =>
    cases n' with
    | zero => rfl
    | succ m' =>
      rw [h0 rfl, hs' m' rfl] at hpp
      have : natToDec (m' + 2) = [] := by
        have := List.append_cancel_left (hpp.symm.trans (List.append_nil fnref).symm)
        exact this
      exact absurd this (natToDec_ne_nil _)
  | succ m =>
    cases n' with
    | zero =>
      rw [hs m rfl, h0' rfl] at hpp
      have : natToDec (m + 2) = [] :=
        List.append_cancel_left (hpp.trans (List.append_nil fnref).symm)
      exact absurd this (natToDec_ne_nil _)
    | succ m' =>
      rw [hs m rfl, hs' m' rfl] at hpp
      have := natToDec_injective (List.append_cancel_left hpp)
      omega

/-! ### the loop -/

theorem uniqueRefLoop_refName (used : List Str) (id : Str) (k : Nat)
    (hin : ∀ j, j < k → refName id j ∈ used) (hout : refName id k ∉ used) :
    ∀ fuel i, i ≤ k → k - i ≤ fuel → uniqueRefLoop fuel (refName id i) used = refName id k := by
  intro fuel
  induction fuel with
  | zero =>
    intro i hi hf
    have : i = k := by omega
    subst this; rfl
  | succ fuel ih =>
    intro i hi hf
    by_cases hik : i = k
    · subst hik
      simp only [uniqueRefLoop, if_neg hout]
    · have hlt : i < k := by omega
      simp only [uniqueRefLoop, if_pos (hin i hlt), bumpRef_refName]
      exact ih (i + 1) (by omega) (by omega)

/-! ### `found_refs` -/

theorem lookup_incr (key key' : Str) (l : List (Str × Nat)) :
    lookup key (incr key' l) = lookup key l + (if key' = key then 1 else 0) := by
  induction l with
  | nil => by_cases h : key' = key <;> simp [incr, lookup, h]
  | cons p l ih =>
    obtain ⟨k, n⟩ := p
    by_cases hk : k = key'
    · subst hk
      by_cases h : k = key <;> simp [incr, lookup, h]
    · by_cases h : k = key
      · subst h
        have : ¬ key' = k := fun e => hk e.symm
        simp [incr, lookup, hk, this]
      · simp [incr, lookup, hk, h, ih]


/-! ### the state invariant -/

/-- `hist` = the linked references processed so far -/
structure Inv (st : State) (hist : List Str) : Prop where
  used : ∀ id n, refName id n ∈ st.usedRefs ↔ n < hist.count id
  found : ∀ id, lookup (fnref ++ ':' :: id) st.foundRefs = hist.count id
  len : hist.length ≤ st.usedRefs.length

theorem Inv.empty : Inv State.empty [] :=
  ⟨fun _ _ => by simp [State.empty], fun _ => by simp [State.empty, lookup], by simp⟩

theorem footnoteRefId_true (st : State) (hist : List Str) (hI : Inv st hist) (u : Str) :
    (footnoteRefId u true st).1 = refName u (hist.count u) ∧ Inv (footnoteRefId u true st).2 (u :: hist) := by
  have hloop : uniqueRefLoop (st.usedRefs.length + 1) (fnref ++ ':' :: u) st.usedRefs
      = refName u (hist.count u) := by
    have := uniqueRefLoop_refName st.usedRefs u (hist.count u)
      (fun j hj => (hI.used u j).mpr hj) (fun h => by have := (hI.used u _).mp h; omega)
      (st.usedRefs.length + 1) 0 (by omega) (by
        have := List.count_le_length (a := u) (l := hist)
        have := hI.len
        omega)
    exact this
  have hres : footnoteRefId u true st =
      (refName u (hist.count u),
        { usedRefs := refName u (hist.count u) :: st.usedRefs,
          foundRefs := incr (fnref ++ ':' :: u) st.foundRefs }) := by
    simp only [footnoteRefId, uniqueRef, if_true, hloop]
  rw [hres]
  refine ⟨rfl, ?_, ?_, ?_⟩
  · intro id n
    simp only [List.mem_cons, List.count_cons]
    constructor
    · rintro (h | h)
      · obtain ⟨rfl, rfl⟩ := refName_injective h
        simp
      · have := (hI.used id n).mp h
        omega
    · intro h
      by_cases hu : u = id
      · subst hu
        simp at h
        by_cases hn : n = hist.count u
        · left; rw [hn]
        · right; exact (hI.used u n).mpr (by omega)
      · have hb : (u == id) = false := by simp [hu]
        simp [hb] at h
        right; exact (hI.used id n).mpr h
  · intro id
    simp only [lookup_incr, hI.found, List.count_cons]
    by_cases hu : u = id
    · subst hu; simp
    · have : ¬ (fnref ++ ':' :: u = fnref ++ ':' :: id) := by
        intro h; exact hu (List.cons.inj (List.append_cancel_left h)).2
      simp [hu, this]
  · simp; exact hI.len

theorem processRefsFrom_spec (defs : List Str) (us : List Str) (st : State) (hist : List Str)
    (hI : Inv st hist) :
    (processRefsFrom defs us st).2 = refsFrom defs hist us ∧
    Inv (processRefsFrom defs us st).1 ((us.filter (· ∈ defs)).reverse ++ hist) := by
  induction us generalizing st hist with
  | nil => exact ⟨rfl, by simpa [processRefsFrom] using hI⟩
  | cons u us ih =>
    by_cases hu : u ∈ defs
    · obtain ⟨h1, h2⟩ := footnoteRefId_true st hist hI u
      obtain ⟨h3, h4⟩ := ih _ _ h2
      simp only [processRefsFrom, refsFrom, if_pos hu]
      refine ⟨by rw [h1, h3], ?_⟩
      simpa [List.filter_cons, hu] using h4
    · obtain ⟨h3, h4⟩ := ih _ _ hI
      simp only [processRefsFrom, refsFrom, if_neg hu]
      refine ⟨h3, ?_⟩
      simpa [List.filter_cons, hu] using h4

theorem processRefs_spec (defs uses : List Str) :
    (processRefs defs uses).2 = refsFrom defs [] uses ∧
    Inv (processRefs defs uses).1 (uses.filter (· ∈ defs)).reverse := by
  have := processRefsFrom_spec defs uses State.empty [] Inv.empty
  simpa [processRefs] using this

/-! ### the specification list -/

theorem refsFrom_hrefs (defs hist us : List Str) :
    (refsFrom defs hist us).map (·.2) = (us.filter (· ∈ defs)).map (fun u => '#' :: footnoteId u) := by
  induction us generalizing hist with
  | nil => rfl
  | cons u us ih =>
    by_cases hu : u ∈ defs
    · simp [refsFrom, hu, ih]
    · simp [refsFrom, hu, ih]

theorem refsFrom_bound (defs hist us : List Str) :
    ∀ p ∈ refsFrom defs hist us, ∃ u n, p.1 = refName u n ∧ hist.count u ≤ n := by
  induction us generalizing hist with
  | nil => simp [refsFrom]
  | cons u us ih =>
    by_cases hu : u ∈ defs
    · simp only [refsFrom, if_pos hu, List.mem_cons]
      rintro p (rfl | hp)
      · exact ⟨u, _, rfl, Nat.le_refl _⟩
      · obtain ⟨v, n, h1, h2⟩ := ih _ p hp
        refine ⟨v, n, h1, ?_⟩
        have : hist.count v ≤ (u :: hist).count v := by simp [List.count_cons]
        omega
    · simp only [refsFrom, if_neg hu]
      exact ih hist

theorem refsFrom_nodup (defs hist us : List Str) : ((refsFrom defs hist us).map (·.1)).Nodup := by
  induction us generalizing hist with
  | nil => simp [refsFrom]
  | cons u us ih =>
    by_cases hu : u ∈ defs
    · simp only [refsFrom, if_pos hu, List.map_cons]
      refine List.nodup_cons.mpr ⟨?_, ih _⟩
      intro hm
      obtain ⟨p, hp, he⟩ := List.mem_map.mp hm
      obtain ⟨v, n, h1, h2⟩ := refsFrom_bound defs (u :: hist) us p hp
      rw [h1] at he
      obtain ⟨rfl, rfl⟩ := refName_injective he
      simp at h2
      omega
    · simp only [refsFrom, if_neg hu]
      exact ih hist

theorem footnoteId_injective {a b : Str} (h : ('#' :: footnoteId a) = '#' :: footnoteId b) : a = b := by
  simpa [footnoteId] using h

theorem refsFrom_supsOf (defs hist us : List Str) (id : Str) (hid : id ∈ defs) :
    supsOf id (refsFrom defs hist us) = (List.range' (hist.count id) (us.count id)).map (refName id) := by
  induction us generalizing hist with
  | nil => simp [refsFrom, supsOf]
  | cons u us ih =>
    by_cases hu : u ∈ defs
    · by_cases hui : u = id
      · subst hui
        have := ih (u :: hist)
        simp only [supsOf] at this ⊢
        simp only [refsFrom, if_pos hu, List.filter_cons, if_true, List.map_cons, this,
          List.count_cons_self, decide_true]
        simp [List.range'_succ]
      · have := ih (u :: hist)
        have hne : ¬ ('#' :: footnoteId u = '#' :: footnoteId id) := fun h => hui (footnoteId_injective h)
        have hb : (u == id) = false := by simp [hui]
        simp only [supsOf, List.count_cons, hb] at this ⊢
        simp only [refsFrom, if_pos hu, List.filter_cons, hne, decide_false]
        simpa using this
    · have hui : u ≠ id := fun e => hu (e ▸ hid)
      have hb : (u == id) = false := by simp [hui]
      have := ih hist
      simp only [supsOf] at this ⊢
      simp only [refsFrom, if_neg hu, this, List.count_cons, hb]
      simp

/-! ### back-links -/

theorem range'_shift (g : Nat → Str) (s m : Nat) :
    (List.range' (s + 1) m).map (fun i => g (i - 1)) = (List.range' s m).map g := by
  induction m generalizing s with
  | zero => rfl
  | succ m ih => simp [List.range'_succ, ih]

theorem numDuplicates_footnoteId (id : Str) (st : State) :
    numDuplicates (footnoteId id) st = lookup (fnref ++ ':' :: id) st.foundRefs := by
  have : footnoteId id = ['f', 'n'] ++ ':' :: id := rfl
  unfold numDuplicates
  rw [this, splitFirst_append _ _ _ (by decide)]
  rfl

theorem backlinksOf_hasBody (st : State) (hasBody : Str → Bool) (id : Str) (hb : hasBody id = true)
    (k : Nat) (hk : lookup (fnref ++ ':' :: id) st.foundRefs = k) (hk1 : 1 ≤ k) :
    (backlinksOf st hasBody id).2 = ((List.range' 0 k).map (refName id)).map ('#' :: ·) := by
  have hsplit : splitFirst ':' ('#' :: (fnref ++ ':' :: id)) = some ('#' :: fnref, id) :=
    splitFirst_append ':' ('#' :: fnref) id (by decide)
  simp only [backlinksOf, hb, if_true, numDuplicates_footnoteId, hk, footnoteRefId, uniqueRef,
    Bool.false_eq_true, if_false]
  obtain ⟨m, rfl⟩ : ∃ m, k = m + 1 := ⟨k - 1, by omega⟩
  by_cases hm : m + 1 > 1
  · simp only [if_pos hm, duplicateLinks, hsplit]
    have h1 : (List.range' 2 (m + 1 - 1)).map (fun i => ('#' :: fnref) ++ natToDec i ++ ':' :: id)
        = (List.range' 1 m).map (fun n => '#' :: refName id n) := by
      have := range'_shift (fun n => '#' :: refName id n) 1 m
      rw [← this]
      have hm' : m + 1 - 1 = m := by omega
      rw [hm']
      apply List.map_congr_left
      intro i hi
      have := (List.mem_range'_1.mp hi).1
      obtain ⟨j, rfl⟩ : ∃ j, i = j + 2 := ⟨i - 2, by omega⟩
      simp [refName]
    rw [h1]
    simp [List.range'_succ, refName]
  · have : m = 0 := by omega
    subst this
    simp [refName]

theorem backlinksOf_noBody (st : State) (hasBody : Str → Bool) (id : Str) (hb : hasBody id = false) :
    (backlinksOf st hasBody id).2 = [] := by
  simp [backlinksOf, hb, duplicateLinks]

theorem backlinksOf_fst (st : State) (hasBody : Str → Bool) (id : Str) :
    (backlinksOf st hasBody id).1 = footnoteId id := rfl

end MdVerif.Footnotes
