/-
Helper lemmas for C01 (`Props/C01i.lean`), the union: inline IMAGES in ATX / Setext headings (the element of
`Lemmas/DocParse6Back.lean` is stated for the tags p, h1–h6; the line satisfies `RawOK` of `Lemmas/DocParse2.lean`, so
the hash-header and Setext processors take it as they take the headings of the smaller sub-grammars), and the blocks
of `LinkImgDoc`: paragraphs and headings with links (`Lemmas/DocParse5.lean`, `Lemmas/DocParse6H.lean`) or with images
(`Lemmas/DocParse6.lean`, here).  Core Lean only.
-/
import MdVerif.Lemmas.DocParse6
import MdVerif.Lemmas.DocParse6H

namespace MdVerif.DocImg
open Py Inline Escape DocSpec CodeLaw DocParse Block DocParse2 RefText DocLink DocLinkH

/-! ### the pieces -/

/-- a Setext heading with inline images -/
theorem iSetext_ok (C0 : Chunk) (is : List MUse) (hch : ∀ ch ∈ imgRaw ESC C0 is, DocParse2.okCh ch)
    (hrefs : refsClosed (imgRaw ESC C0 is) = true) (hraw : RawOK (imgRaw ESC C0 is))
    (i : Nat) (hi : i < 4) (lv k : Nat) (hlv : lv = 1 ∨ lv = 2)
    (hok : ∀ refs, ElemOK { esc := ESC, refs := refs } (iElem ('h' :: natToDec lv) ESC C0 is)) :
    Piece2OK {} (iPiece [spaces i ++ imgRaw ESC C0 is,
      List.replicate (k + 1) (if lv = 1 then '=' else '-')] ('h' :: natToDec lv) C0 is) := by
  have hT := hTagOK lv (by omega) (by omega)
  have hprod := produces_setext_raw 4 i hi _ hraw lv k hlv
  obtain ⟨c0, tl, hX, hcs, _⟩ := hraw.shape
  have hnl := hraw.nl
  generalize hu : (if lv = 1 then '=' else '-') = ch at *
  have hch2 : ch = '=' ∨ ch = '-' := by rw [← hu]; split <;> simp
  have hunl : '\n' ∉ List.replicate (k + 1) ch := by
    intro hm; have := List.eq_of_mem_replicate hm
    rcases hch2 with h' | h' <;> rw [h'] at this <;> exact absurd this (by decide)
  have hjoin : joinLines [spaces i ++ imgRaw ESC C0 is, List.replicate (k + 1) ch] =
      spaces i ++ imgRaw ESC C0 is ++ '\n' :: List.replicate (k + 1) ch := by
    simp [joinLines, join]
  have hline : ∀ x ∈ spaces i ++ imgRaw ESC C0 is, DocParse2.okCh x := by
    intro x hx
    rcases List.mem_append.1 hx with hx | hx
    · exact (okCh_spaces i x hx).1
    · exact hch x hx
  have hc0 : c0 ∈ spaces i ++ imgRaw ESC C0 is := by rw [hX]; simp
  have hsafe := safe_of_okCh _ hline ⟨c0, hc0, by intro e; subst e; exact absurd hcs (by decide)⟩
  have hrefsL : refsClosed (spaces i ++ imgRaw ESC C0 is) = true :=
    refsClosed_noamp_append _ _ (fun hm => (okCh_spaces i _ hm).2 rfl) hrefs
  have hl1nl : '\n' ∉ spaces i ++ imgRaw ESC C0 is := fun hm => (hline _ hm).1 rfl
  have hlne : spaces i ++ imgRaw ESC C0 is ≠ [] := by
    intro e; rw [e] at hc0; simp at hc0
  refine ⟨chunkB_ok 4 _ _ (by simp) ?_ ?_ (hSrc_clean _ hT _).1 (hSrc_clean _ hT _).2, ?_, ?_, rfl, rfl, hok, hok, rfl⟩
  · rw [hjoin]
    exact nel_two_lines _ _ hlne (by simp [List.replicate_succ]) hl1nl hunl
  · rw [hjoin]; exact hprod
  · intro l hl
    simp only [iPiece, chunkB, List.mem_cons, List.not_mem_nil, or_false] at hl
    rcases hl with rfl | rfl
    · exact ⟨hsafe.1, hsafe.2, hrefsL⟩
    · have hall : ∀ x ∈ List.replicate (k + 1) ch, DocParse2.okCh x ∧ x ≠ '&' := by
        intro x hx; rw [List.eq_of_mem_replicate hx]
        rcases hch2 with h' | h' <;> rw [h'] <;>
          exact ⟨⟨by decide, by decide, by decide, by decide, by decide, by decide⟩, by decide⟩
      have := safe_of_okCh _ (fun x hx => (hall x hx).1)
        ⟨ch, by simp [List.replicate_succ], by rcases hch2 with h' | h' <;> rw [h'] <;> decide⟩
      exact ⟨this.1, this.2, refsClosed_of_no_amp _ (fun hm => (hall _ hm).2 rfl)⟩
  · refine ⟨c0, ?_, hcs⟩
    show c0 ∈ joinLines [spaces i ++ imgRaw ESC C0 is, List.replicate (k + 1) ch]
    rw [hjoin]; exact List.mem_append_left _ hc0

/-- an ATX heading with inline images -/
theorem iAtx_ok (C0 : Chunk) (is : List MUse) (hch : ∀ ch ∈ imgRaw ESC C0 is, DocParse2.okCh ch)
    (hrefs : refsClosed (imgRaw ESC C0 is) = true) (hraw : RawOK (imgRaw ESC C0 is))
    (lv : Nat) (h1 : 1 ≤ lv) (h6 : lv ≤ 6) (Y : Str) (hY : Y = [] ∨ ∃ m, Y = ' ' :: List.replicate m '#')
    (hok : ∀ refs, ElemOK { esc := ESC, refs := refs } (iElem ('h' :: natToDec lv) ESC C0 is)) :
    Piece2OK {} (iPiece [List.replicate lv '#' ++ ' ' :: (imgRaw ESC C0 is ++ Y)] ('h' :: natToDec lv) C0 is) := by
  have hT := hTagOK lv h1 h6
  have hprod := produces_atx_raw 4 (by omega) _ hraw lv h1 h6 Y hY
  obtain ⟨c0, tl, hX, hcs, _⟩ := hraw.shape
  have hhash : DocParse2.okCh '#' ∧ ('#' : Char) ≠ '&' :=
    ⟨⟨by decide, by decide, by decide, by decide, by decide, by decide⟩, by decide⟩
  have hQ : ∀ x ∈ Y, DocParse2.okCh x ∧ x ≠ '&' := by
    intro x hx
    rcases hY with rfl | ⟨m, rfl⟩
    · simp at hx
    · rcases List.mem_cons.1 hx with hx | hx
      · rw [hx]; exact DocParse2.okCh_space
      · rw [List.eq_of_mem_replicate hx]; exact hhash
  have hline : ∀ x ∈ List.replicate lv '#' ++ ' ' :: (imgRaw ESC C0 is ++ Y), DocParse2.okCh x := by
    intro x hx
    simp only [List.mem_append, List.mem_cons] at hx
    rcases hx with hx | hx | hx | hx
    · rw [List.eq_of_mem_replicate hx]; exact hhash.1
    · rw [hx]; exact DocParse2.okCh_space.1
    · exact hch x hx
    · exact (hQ x hx).1
  have hc0 : c0 ∈ List.replicate lv '#' ++ ' ' :: (imgRaw ESC C0 is ++ Y) := by rw [hX]; simp
  have hsafe := safe_of_okCh _ hline ⟨c0, hc0, by intro e; subst e; exact absurd hcs (by decide)⟩
  have hrefsY : refsClosed (imgRaw ESC C0 is ++ Y) = true := by
    rcases hY with rfl | ⟨m, rfl⟩
    · simpa using hrefs
    · exact refsClosed_append _ ' ' _ (by decide) hrefs (refsClosed_of_no_amp _ (fun hm => by
        rcases List.mem_cons.1 hm with hm | hm
        · exact absurd hm (by decide)
        · exact absurd (List.eq_of_mem_replicate hm) (by decide)))
  have hrefsL : refsClosed (List.replicate lv '#' ++ ' ' :: (imgRaw ESC C0 is ++ Y)) = true := by
    have : List.replicate lv '#' ++ ' ' :: (imgRaw ESC C0 is ++ Y) =
        (List.replicate lv '#' ++ [' ']) ++ (imgRaw ESC C0 is ++ Y) := by simp
    rw [this]
    apply refsClosed_noamp_append _ _ _ hrefsY
    intro hm
    rcases List.mem_append.1 hm with hm | hm
    · exact absurd (List.eq_of_mem_replicate hm) (by decide)
    · simp at hm
  have hnl : '\n' ∉ List.replicate lv '#' ++ ' ' :: (imgRaw ESC C0 is ++ Y) := fun hm => (hline _ hm).1 rfl
  have hlne : List.replicate lv '#' ++ ' ' :: (imgRaw ESC C0 is ++ Y) ≠ [] := by simp
  refine ⟨chunkB_ok 4 _ _ (by simp) ?_ ?_ (hSrc_clean _ hT _).1 (hSrc_clean _ hT _).2, ?_, ?_, rfl, rfl, hok, hok, rfl⟩
  · simp only [joinLines, join_singleton]
    exact nel_line _ hlne hnl
  · simp only [joinLines, join_singleton]; exact hprod
  · intro l hl
    have : l = List.replicate lv '#' ++ ' ' :: (imgRaw ESC C0 is ++ Y) := by simpa [iPiece, chunkB] using hl
    subst this; exact ⟨hsafe.1, hsafe.2, hrefsL⟩
  · exact ⟨c0, by simpa [iPiece, chunkB, joinLines] using hc0, hcs⟩

/-! ### the headings -/

/-- what the printed content of a heading with images is, when no definition is added and no `<` is printed -/
structure HeadGoodM (c : List DocSpec.Inline) (s : Str) (C0 : Chunk) (is : List MUse) : Prop where
  eq : s = imgRaw ESC C0 is
  chars : ∀ ch ∈ imgRaw ESC C0 is, DocParse2.okCh ch
  refs : refsClosed (imgRaw ESC C0 is) = true
  raw : RawOK (imgRaw ESC C0 is)
  elem : ∀ tg, tg ∈ ["p", "h1", "h2", "h3", "h4", "h5", "h6"].map String.toList →
    ∀ refs, ElemOK { esc := ESC, refs := refs } (iElem tg ESC C0 is)
  out : C0.out ++ imOut is = specInlines c

theorem content_imgsH (c : List DocSpec.Inline) (hp : imgRun c = true)
    (hw : wfInlines false .none false c = true) (hl : (imgSplit c).2 ≠ []) (st : PSt) :
    ∃ (s : Str) (st' : PSt) (extra : List Str), printInlines none true true c st = (s, st') ∧
      st'.defs = st.defs ++ extra ∧ (extra = [] → '<' ∉ s → ∃ C0 is, HeadGoodM c s C0 is) := by
  simp only [imgRun, Bool.and_eq_true, List.all_eq_true] at hp
  simp only [wfInlines, wfRun, Bool.and_eq_true] at hw
  obtain ⟨⟨⟨⟨hst, hen⟩, hadj⟩, _⟩, hlist⟩ := hw
  obtain ⟨hitems, hnb⟩ := hp
  have hit : ∀ x ∈ c, ItemOKM x := fun x hx => itemOKM_of_wf x false (hitems x hx) (wfInlineList_mem hlist x hx)
  obtain ⟨hA, hls⟩ := split_factsM c hit hadj hnb
  obtain ⟨s, st', extra, hpr, hd, hgood⟩ := printImgs_rel (imgSplit c).2 (imgSplit c).1 st hA hls
  rw [joinImgs_split] at hpr
  refine ⟨s, st', extra, hpr, hd, ?_⟩
  intro hex hlts
  obtain ⟨C0, is, hs, hW, hL⟩ := hgood hex hlts
  have hs0 : s = imgRaw ESC C0 is := hs 0 0
  have hst' : startsOk (joinImgs (imgSplit c).1 (imgSplit c).2) = true := by rw [joinImgs_split]; exact hst
  have hen' : endsOk (joinImgs (imgSplit c).1 (imgSplit c).2) = true := by rw [joinImgs_split]; exact hen
  have hltr : '<' ∉ imgRaw ESC C0 is := by rw [← hs0]; exact hlts
  obtain ⟨hch, hrefs, _, _⟩ := img_line_facts _ _ C0 is hW hL hl hst' hltr
  have hraw := imgRaw_rawOK _ _ C0 is hW hL hl hst' hen' hltr
  have hout := imOut_spec _ _ hL _ _ hW
  rw [joinImgs_split] at hout
  exact ⟨C0, is, hs0, hch, hrefs, hraw, fun tg htg => iElem_ok' tg htg _ _ C0 is hW hL hl, hout⟩

theorem iOut_spec (l : Nat) (c : List DocSpec.Inline) (C0 : Chunk) (is : List MUse)
    (h : C0.out ++ imOut is = specInlines c) :
    iOut ('h' :: natToDec l) C0 is =
      S "<h" ++ natToDec l ++ S ">" ++ specInlines c ++ S "</h" ++ natToDec l ++ S ">" := by
  rw [← h]
  have e1 : S "<h" = ['<', 'h'] := by decide
  have e2 : S ">" = ['>'] := by decide
  have e3 : S "</h" = ['<', '/', 'h'] := by decide
  rw [e1, e2, e3]
  simp [iOut, List.append_assoc]

/-- **an ATX heading with inline images** -/
theorem blockPrints_imgAtx (l : Nat) (c : List DocSpec.Inline) (hp : imgRun c = true)
    (hw : wfBlock none (.atx l c) = true) (hl : (imgSplit c).2 ≠ []) : BlockPrints (.atx l c) := by
  simp only [wfBlock, Bool.and_eq_true, decide_eq_true_eq] at hw
  intro st
  obtain ⟨s, st', extra, hpr, hd, hgood⟩ := content_imgsH c hp hw.2 hl (draw st).2
  have hjoin : join ['\n'] (splitC '\n' s) = s := splitC_join '\n' s
  refine ⟨[rep l '#' ++ [' '] ++ s ++ atxClosing (draw st).1 l], st', extra, ?_, by rw [hd, draw_defs], ?_⟩
  · rw [printBlock_atx]; simp only [printContent, hpr, atxLine, hjoin]
  · intro hex hlt
    have hlts : '<' ∉ s := fun hm =>
      hlt (rep l '#' ++ [' '] ++ s ++ atxClosing (draw st).1 l) List.mem_cons_self (by simp [hm])
    obtain ⟨C0, is, hG⟩ := hgood hex hlts
    have hY : atxClosing (draw st).1 l = [] ∨ ∃ m, atxClosing (draw st).1 l = ' ' :: List.replicate m '#' := by
      unfold atxClosing
      split
      · exact Or.inl rfl
      · split
        · exact Or.inr ⟨1, rfl⟩
        · exact Or.inr ⟨l, rfl⟩
    refine ⟨iPiece [List.replicate l '#' ++ ' ' :: (imgRaw ESC C0 is ++ atxClosing (draw st).1 l)]
        ('h' :: natToDec l) C0 is, ?_,
      iAtx_ok C0 is hG.chars hG.refs hG.raw l hw.1.1 hw.1.2 _ hY (hG.elem _ (tg_header l hw.1.1 hw.1.2)), ?_, rfl⟩
    · rw [hG.eq]
      simp [iPiece, chunkB, rep, List.append_assoc]
    · show iOut ('h' :: natToDec l) C0 is = specBlock (.atx l c)
      rw [specBlock_atx, iOut_spec l c C0 is hG.out]

/-- **a Setext heading with inline images** -/
theorem blockPrints_imgSetext (l : Nat) (c : List DocSpec.Inline) (hp : imgRun c = true)
    (hw : wfBlock none (.setext l c) = true) (hl : (imgSplit c).2 ≠ []) : BlockPrints (.setext l c) := by
  simp only [wfBlock, Bool.and_eq_true, Bool.or_eq_true, decide_eq_true_eq] at hw
  intro st
  obtain ⟨s, st', extra, hpr, hd, hgood⟩ := content_imgsH c hp hw.2 hl (draw (draw st).2).2
  refine ⟨indentTop true (draw st).1 (splitC '\n' s) ++ [setextUnderline l (draw (draw st).2).1], st', extra, ?_,
    by rw [hd]; simp [draw_defs], ?_⟩
  · rw [printBlock_setext]; simp only [printContent, hpr]
  · intro hex hlt
    have hlts : '<' ∉ s := by
      intro hm
      obtain ⟨x, hx, hc⟩ := lt_of_join hm
      cases hsp : splitC '\n' s with
      | nil => rw [hsp] at hx; cases hx
      | cons a r =>
        rw [hsp] at hx
        rcases List.mem_cons.1 hx with rfl | hx
        · exact hlt (rep ((draw st).1 % 4) ' ' ++ x) (by simp [indentTop, indentFirst, hsp]) (by simp [hc])
        · exact hlt x (by simp [indentTop, indentFirst, hsp, hx]) hc
    obtain ⟨C0, is, hG⟩ := hgood hex hlts
    have hnl : '\n' ∉ s := by rw [hG.eq]; exact hG.raw.nl
    have h16 : 1 ≤ l ∧ l ≤ 6 := by rcases hw.1 with h | h <;> omega
    refine ⟨iPiece [spaces ((draw st).1 % 4) ++ imgRaw ESC C0 is,
          List.replicate ((draw (draw st).2).1 % 8 + 1) (if l = 1 then '=' else '-')] ('h' :: natToDec l) C0 is, ?_,
      iSetext_ok C0 is hG.chars hG.refs hG.raw _ (Nat.mod_lt _ (by omega)) l _ hw.1
        (hG.elem _ (tg_header l h16.1 h16.2)), ?_, rfl⟩
    · rw [splitC_noNl _ (notNl_of_not_mem hnl), hG.eq]
      simp [iPiece, chunkB, indentTop, indentFirst, rep, spaces, setextUnderline]
    · show iOut ('h' :: natToDec l) C0 is = specBlock (.setext l c)
      rw [specBlock_setext, iOut_spec l c C0 is hG.out]

theorem deep2Run_of_noImgs (c : List DocSpec.Inline) (hp : imgRun c = true) (hl : (imgSplit c).2 = []) :
    deep2Run c = true := by
  have hno := noImgs_of_split c hl
  simp only [imgRun, Bool.and_eq_true, List.all_eq_true] at hp
  simp only [deep2Run, Bool.and_eq_true, List.all_eq_true]
  refine ⟨fun x hx => ?_, hp.2⟩
  have hb := brItem_of_imgItem x (hp.1 x hx) (hno x hx)
  have hi := hp.1 x hx
  cases x with
  | br => simp [isImgItem, isMixItem] at hi
  | _ => exact hb

/-! ### the blocks of `LinkImgDoc`, the document -/

theorem blockPrints_linkImgBlock (b : DocSpec.Block) (hf : isLinkImgBlock b = true) (hw : wfBlock none b = true) :
    BlockPrints b := by
  cases b with
  | para c => exact blockPrints_imgBlock (.para c) hf hw
  | rule => exact blockPrints_imgBlock .rule rfl hw
  | code ls => exact blockPrints_imgBlock (.code ls) hf hw
  | atx l c =>
    by_cases hlh : isLinkHBlock (.atx l c) = true
    · exact blockPrints_linkHBlock _ hlh hw
    · have hir : imgRun c = true := by
        simp only [isLinkImgBlock, isLinkHBlock, Bool.or_eq_true] at hf hlh
        rcases hf with hf | hf
        · exact absurd hf hlh
        · exact hf
      have hnd : ¬ deep2Run c = true := fun h => hlh (by simp [isLinkHBlock, h])
      by_cases hl : (imgSplit c).2 = []
      · exact absurd (deep2Run_of_noImgs c hir hl) hnd
      · exact blockPrints_imgAtx l c hir hw hl
  | setext l c =>
    by_cases hlh : isLinkHBlock (.setext l c) = true
    · exact blockPrints_linkHBlock _ hlh hw
    · have hir : imgRun c = true := by
        simp only [isLinkImgBlock, isLinkHBlock, Bool.or_eq_true] at hf hlh
        rcases hf with hf | hf
        · exact absurd hf hlh
        · exact hf
      have hnd : ¬ deep2Run c = true := fun h => hlh (by simp [isLinkHBlock, h])
      by_cases hl : (imgSplit c).2 = []
      · exact absurd (deep2Run_of_noImgs c hir hl) hnd
      · exact blockPrints_imgSetext l c hir hw hl
  | quote _ => simp [isLinkImgBlock, isDeep2Block] at hf
  | ulist _ _ => simp [isLinkImgBlock, isDeep2Block] at hf
  | olist _ _ => simp [isLinkImgBlock, isDeep2Block] at hf

/-- **C01 on flat documents with inline links or inline images in paragraphs and in headings** -/
theorem convert_linkImgDoc (d : Doc) (sp : Spelling) (hwf : WF d = true) (hs : DocSpec.LinkImgDoc d = true)
    (hsp : DocSpec.inlineStyle d sp = true) : Pipeline.convert {} (print d sp) = .ok (spec d) :=
  convert_of_blockPrints d sp hwf
    (fun b hb hw => blockPrints_linkImgBlock b (by
      have : ∀ b ∈ d, isLinkImgBlock b = true := by simpa [DocSpec.LinkImgDoc, List.all_eq_true] using hs
      exact this b hb) hw) hsp

end MdVerif.DocImg
