/-
Helper lemmas for `Props/C18X.lean`, part 1: the inline tree processor over ANY pattern table (`InlineX.runX`) keeps
every `AtomicString` of ANY tree (`Probe.Emb`), and what that means for the list of atomic strings of the tree in
document order (`atomicTexts`).  Core Lean only.

A. `atomicTexts`, `atomicKept` and `Emb`
B. `visitChildX`, `visitLoopX`, `runLoopX`, `runX` (the proof of `StashAtomic.run_emb` carried over to the table-driven
   engine: the placeholder machinery `ppTop` is shared, `handleInlineTopX` is never asked about an atomic string)
-/
import MdVerif.Lemmas.StashAtomic
import MdVerif.Model.InlineX

namespace MdVerif.AtomicX
open Py Probe StashAtomic Inline InlineX

/-! ### A. the atomic strings of a tree -/

mutual
/-- the `AtomicString`s of a tree in document order: for every element its text (when atomic), then what its
    children hold, then its tail (when atomic) -/
def atomicTexts : Node → List Str
  | ⟨_, _, text, ta, children, tail, tla⟩ =>
    (if ta then [text.getD []] else []) ++ atomicTextsKids children ++ (if tla then [tail.getD []] else [])
def atomicTextsKids : List Node → List Str
  | [] => []
  | c :: r => atomicTexts c ++ atomicTextsKids r
end

mutual
/-- the same without the atomic TAILS that contain the inline-placeholder prefix `STX klzzwxh:` (those are looked
    through by `__processPlaceholders`, which rebuilds them as plain `str`) -/
def atomicKept : Node → List Str
  | ⟨_, _, text, ta, children, tail, tla⟩ =>
    (if ta then [text.getD []] else []) ++ atomicKeptKids children ++
      (if tla && !contains (tail.getD []) Inline.phPrefix then [tail.getD []] else [])
def atomicKeptKids : List Node → List Str
  | [] => []
  | c :: r => atomicKept c ++ atomicKeptKids r
end

mutual
/-- no atomic tail of the tree contains the inline-placeholder prefix -/
def cleanTails : Node → Bool
  | ⟨_, _, _, _, children, tail, tla⟩ =>
    (!tla || !contains (tail.getD []) Inline.phPrefix) && cleanTailsKids children
def cleanTailsKids : List Node → Bool
  | [] => true
  | c :: r => cleanTails c && cleanTailsKids r
end

theorem atomicTexts_eq (n : Node) : atomicTexts n =
    (if n.textAtomic then [n.text.getD []] else []) ++ atomicTextsKids n.children ++
      (if n.tailAtomic then [n.tail.getD []] else []) := by
  cases n; rfl

theorem atomicKept_eq (n : Node) : atomicKept n =
    (if n.textAtomic then [n.text.getD []] else []) ++ atomicKeptKids n.children ++
      (if n.tailAtomic && !contains (n.tail.getD []) Inline.phPrefix then [n.tail.getD []] else []) := by
  cases n; rfl

theorem atomicTextsKids_append (a b : List Node) :
    atomicTextsKids (a ++ b) = atomicTextsKids a ++ atomicTextsKids b := by
  induction a with
  | nil => rfl
  | cons c r ih => simp [atomicTextsKids, ih]

theorem atomicKeptKids_append (a b : List Node) :
    atomicKeptKids (a ++ b) = atomicKeptKids a ++ atomicKeptKids b := by
  induction a with
  | nil => rfl
  | cons c r ih => simp [atomicKeptKids, ih]

mutual
theorem atomicKept_of_clean : ∀ n : Node, cleanTails n = true → atomicKept n = atomicTexts n
  | ⟨_, _, text, ta, children, tail, tla⟩, h => by
    simp only [cleanTails, Bool.and_eq_true, Bool.or_eq_true, Bool.not_eq_true'] at h
    simp only [atomicKept, atomicTexts, atomicKeptKids_of_clean children h.2]
    congr 1
    cases tla with
    | false => rfl
    | true =>
      rcases h.1 with h1 | h1
      · cases h1
      · simp [h1]
theorem atomicKeptKids_of_clean : ∀ l : List Node, cleanTailsKids l = true → atomicKeptKids l = atomicTextsKids l
  | [], _ => rfl
  | c :: r, h => by
    simp only [cleanTailsKids, Bool.and_eq_true] at h
    simp only [atomicKeptKids, atomicTextsKids, atomicKept_of_clean c h.1, atomicKeptKids_of_clean r h.2]
end

theorem sublist_ite_single {p q : Bool} {a b : Str} (h : p = true → q = true ∧ b = a) :
    List.Sublist (if p then [a] else []) (if q then [b] else []) := by
  cases p with
  | false => exact List.nil_sublist _
  | true =>
    obtain ⟨h1, h2⟩ := h rfl
    subst h1 h2
    exact List.Sublist.refl _

mutual
/-- **what `Emb` means for the list of atomic strings**: every atomic string of the first tree (atomic tails with a
    placeholder prefix apart) is an atomic string of the second one, in the same order -/
theorem emb_atomic : (a : Node) → ∀ b, Emb a b → List.Sublist (atomicKept a) (atomicTexts b)
  | ⟨tag, attrs, text, ta, children, tail, tla⟩, b, h => by
    obtain ⟨_, _, h3, h4, h5⟩ := (emb_iff _ _).1 h
    rw [atomicTexts_eq b]
    simp only [atomicKept]
    refine List.Sublist.append (List.Sublist.append ?_ (embList_atomic children b.children h5)) ?_
    · apply sublist_ite_single
      intro hta
      obtain ⟨e1, e2⟩ := h3 hta
      exact ⟨e2, by rw [e1]⟩
    · apply sublist_ite_single
      intro hc
      simp only [Bool.and_eq_true, Bool.not_eq_true'] at hc
      obtain ⟨e1, e2⟩ := h4 hc.1 hc.2
      exact ⟨e2, by rw [e1]⟩
theorem embList_atomic : (as : List Node) → ∀ bs, EmbList as bs →
    List.Sublist (atomicKeptKids as) (atomicTextsKids bs)
  | [], _, _ => List.nil_sublist _
  | a :: as, bs, h => by
    obtain ⟨pre, b, rest, rfl, h1, h2⟩ := (embList_cons_iff _ _ _).1 h
    rw [atomicTextsKids_append]
    simp only [atomicKeptKids, atomicTextsKids]
    exact (List.Sublist.append (emb_atomic a b h1) (embList_atomic as rest h2)).trans
      (List.sublist_append_right _ _)
end

/-! ### B. `runX` -/

/-- the text half of `visitChildX` -/
def vcTextX (xc : XCfg) (child : Node) (x : XSt) : Option (Node × List Node × XSt) :=
  if Node.truthy child.text && !child.textAtomic then
    match handleInlineTopX xc (child.text.getD []) x with
    | none => none
    | some (data, x1) =>
      match ppTop x1.st data false { child with text := none, textAtomic := false } true with
      | none => none
      | some (lst, c1) => some (c1, lst, x1)
  else some (child, [], x)

/-- the tail half of `visitChildX` -/
def vcTailX (xc : XCfg) (c1 : Node) (x1 : XSt) : Option (Node × List Node × XSt) :=
  if Node.truthy c1.tail then
    let tl := c1.tail.getD []
    let h : Option (Str × XSt) := if c1.tailAtomic then some (tl, x1) else handleInlineTopX xc tl x1
    match h with
    | none => none
    | some (data, x2) =>
      match ppTop x2.st data c1.tailAtomic (mkEl "d") false with
      | none => none
      | some (tr, dumby) =>
        let c2 : Node :=
          if Node.truthy dumby.tail then { c1 with tail := dumby.tail, tailAtomic := dumby.tailAtomic }
          else { c1 with tail := none, tailAtomic := false }
        some (c2, tr, x2)
  else some (c1, [], x1)

theorem visitChildX_eq (xc : XCfg) (child : Node) (v : VisitX) :
    visitChildX xc child v =
      match vcTextX xc child v.x with
      | none => none
      | some (c1, lst, x1) =>
        match vcTailX xc c1 x1 with
        | none => none
        | some (c2, tr, x2) =>
          let i := v.done.length
          let pushes := ((List.range lst.length).map (fun k => [i, k])).reverse ++ v.pushes
          let pushes := if child.children.isEmpty then pushes else [i] :: pushes
          some ({ c2 with children := lst ++ c2.children }, tr, { v with pushes := pushes, x := x2 }) := rfl

theorem vcTextX_spec (xc : XCfg) (child : Node) (x : XSt) (c1 : Node) (lst : List Node) (x1 : XSt)
    (h : vcTextX xc child x = some (c1, lst, x1)) :
    c1.tag = child.tag ∧ c1.attrs = child.attrs ∧ c1.children = child.children ∧ c1.tail = child.tail ∧
    c1.tailAtomic = child.tailAtomic ∧ (child.textAtomic = true → c1.text = child.text ∧ c1.textAtomic = true) := by
  unfold vcTextX at h
  split at h
  · rename_i hc
    have hna : child.textAtomic = false := by
      cases hta : child.textAtomic with
      | false => rfl
      | true => rw [hta] at hc; simp at hc
    split at h
    · cases h
    · split at h
      · cases h
      · rename_i hpp
        simp only [Option.some.injEq, Prod.mk.injEq] at h
        obtain ⟨f1, f2, f3, f4, _⟩ := ppTop_frame _ _ _ _ _ _ _ hpp
        rw [← h.1]
        exact ⟨f1, f2, f3, (f4 rfl).1, (f4 rfl).2, fun ht => by rw [hna] at ht; cases ht⟩
  · simp only [Option.some.injEq, Prod.mk.injEq] at h
    rw [← h.1]
    exact ⟨rfl, rfl, rfl, rfl, rfl, fun ht => ⟨rfl, ht⟩⟩

theorem vcTailX_spec (xc : XCfg) (c1 : Node) (x1 : XSt) (c2 : Node) (tr : List Node) (x2 : XSt)
    (h : vcTailX xc c1 x1 = some (c2, tr, x2)) :
    c2.tag = c1.tag ∧ c2.attrs = c1.attrs ∧ c2.children = c1.children ∧ c2.text = c1.text ∧
    c2.textAtomic = c1.textAtomic ∧
    (c1.tailAtomic = true → contains (c1.tail.getD []) phPrefix = false → c2.tail = c1.tail ∧ c2.tailAtomic = true) := by
  unfold vcTailX at h
  split at h
  · rename_i htr
    simp only [] at h
    split at h
    · cases h
    · rename_i data x2' hh
      split at h
      · cases h
      · rename_i tr' dumby hpp
        simp only [Option.some.injEq, Prod.mk.injEq] at h
        rw [← h.1]
        refine ⟨by split <;> rfl, by split <;> rfl, by split <;> rfl, by split <;> rfl, by split <;> rfl, ?_⟩
        intro hta hc
        rw [hta] at hh hpp
        simp only [if_true, Option.some.injEq, Prod.mk.injEq] at hh
        rw [← hh.1] at hpp
        have := ppTop_clean_tail x2'.st (c1.tail.getD []) true (mkEl "d") (truthy_ne_nil htr) hc rfl
        rw [this] at hpp
        simp only [Option.some.injEq, Prod.mk.injEq] at hpp
        rw [← hpp.2]
        have ht2 : Node.truthy (some (c1.tail.getD [])) = true := by rw [← truthy_eq_some htr]; exact htr
        simp only [ht2, if_true]
        exact ⟨(truthy_eq_some htr).symm, trivial⟩
  · simp only [Option.some.injEq, Prod.mk.injEq] at h
    rw [← h.1]
    exact ⟨rfl, rfl, rfl, rfl, rfl, fun ht _ => ⟨rfl, ht⟩⟩

/-- one visited child: the result embeds the child, and its children are the child's children with the elements
    taken out of the child's text in front -/
theorem visitChildX_emb (xc : XCfg) (child : Node) (v : VisitX) (c : Node) (tr : List Node) (v1 : VisitX)
    (h : visitChildX xc child v = some (c, tr, v1)) : Emb child c := by
  rw [visitChildX_eq] at h
  split at h
  · cases h
  · rename_i c1 lst x1 h1
    split at h
    · cases h
    · rename_i c2 tr' x2 h2
      simp only [Option.some.injEq, Prod.mk.injEq] at h
      obtain ⟨a1, a2, a3, a4, a5, a6⟩ := vcTextX_spec _ _ _ _ _ _ h1
      obtain ⟨b1, b2, b3, b4, b5, b6⟩ := vcTailX_spec _ _ _ _ _ _ h2
      rw [← h.1, emb_iff]
      refine ⟨b1.trans a1, b2.trans a2, ?_, ?_, ?_⟩
      · intro ht
        obtain ⟨x1, x2⟩ := a6 ht
        exact ⟨b4.trans x1, b5.trans x2⟩
      · intro ht hc
        exact (by
          have := b6 (a5.trans ht) (by rw [a4]; exact hc)
          exact ⟨this.1.trans a4, this.2⟩)
      · show EmbList child.children (lst ++ c2.children)
        rw [b3, a3]
        exact embList_append_left _ (embList_refl _)

theorem visitChildX_done (xc : XCfg) (child : Node) (v : VisitX) (c : Node) (tr : List Node) (v1 : VisitX)
    (h : visitChildX xc child v = some (c, tr, v1)) : v1.done = v.done := by
  rw [visitChildX_eq] at h
  split at h
  · cases h
  · split at h
    · cases h
    · simp only [Option.some.injEq, Prod.mk.injEq] at h
      rw [← h.2.2]

theorem visitLoopX_emb (xc : XCfg) : ∀ (g : Nat) (todo : List (Node × Option Nat)) (v v' : VisitX),
    visitLoopX xc g todo v = some v' →
    ∃ X, v'.done = X.reverse ++ v.done ∧ EmbList (todo.map Prod.fst) X := by
  intro g
  induction g with
  | zero => intro todo v v' h; simp [visitLoopX] at h
  | succ g ih =>
    intro todo v v' h
    cases todo with
    | nil =>
      simp only [visitLoopX, Option.some.injEq] at h
      exact ⟨[], by simp [h], embList_nil _⟩
    | cons x todo =>
      obtain ⟨child, orig⟩ := x
      simp only [visitLoopX] at h
      split at h
      · cases h
      · rename_i c tr v1 hv
        obtain ⟨X, hX, hE⟩ := ih _ _ _ h
        refine ⟨c :: X, by simp [hX, visitChildX_done _ _ _ _ _ _ hv], ?_⟩
        simp only [List.map_append, List.map_map, List.map_cons] at hE ⊢
        exact embList_cons (visitChildX_emb _ _ _ _ _ _ hv) (embList_drop_prefix _ hE)

theorem runLoopX_emb (xc : XCfg) (g2 : Nat) : ∀ (g : Nat) (root : Node) (stack : List Path) (x : XSt) (root' : Node)
    (x' : XSt), runLoopX xc g2 g root stack x = some (root', x') → Emb root root' := by
  intro g
  induction g with
  | zero => intro root stack x root' x' h; simp [runLoopX] at h
  | succ g ih =>
    intro root stack x root' x' h
    cases stack with
    | nil =>
      simp only [runLoopX, Option.some.injEq, Prod.mk.injEq] at h
      rw [← h.1]; exact emb_refl _
    | cons p stack =>
      simp only [runLoopX] at h
      split at h
      · exact ih _ _ _ _ _ h
      · rename_i cur hcur
        split at h
        · cases h
        · rename_i v hv
          obtain ⟨X, hX, hE⟩ := visitLoopX_emb _ _ _ _ _ hv
          rw [withIdx_map_fst] at hE
          have hd : v.done.reverse = X := by rw [hX]; simp
          have hcur' : Emb cur { cur with children := v.done.reverse } := by
            rw [emb_iff, hd]
            exact ⟨rfl, rfl, fun ht => ⟨rfl, ht⟩, fun ht _ => ⟨rfl, ht⟩, hE⟩
          exact emb_trans _ _ _ (setAt_emb _ _ _ _ hcur hcur') (ih _ _ _ _ _ h)

/-- **`InlineProcessor.run` over ANY pattern table keeps every atomic string of ANY tree** -/
theorem runX_emb (xc : XCfg) (tree : Node) (html : List Str) (t : Node) (x : XSt)
    (h : runX xc tree html = some (t, x)) : Emb tree t :=
  runLoopX_emb xc _ _ _ _ _ _ _ h

end MdVerif.AtomicX
