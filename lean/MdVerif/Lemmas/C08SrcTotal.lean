/-
Helper lemma for `Props/C08Src.lean`: on the leak-free domain of `C10b` the model never answers `err` or `ood` — the
answer is `ok`, or `oof` (a fuel of the model ran out).  `C05_full_total` lists the possible answers for a `<`-free
source; `err` means that `UnescapeTreeprocessor` raised, which it does not on a tree whose STX all belong to the escape
tokens the inline patterns write (`unescapeTree_fnode_some`).  Core Lean only.
-/
import MdVerif.Lemmas.C08Src
import MdVerif.Props.C05Full

namespace MdVerif.C08Src
open Py Block Inline NoCtl

theorem convert_ok_or_oof (pc : Pipeline.Cfg) (hcfg : EscOK pc.esc) (h2 : AmpFull.EscTwo pc.esc) {src : Str}
    (hd : C10DomainL pc.tab src) :
    Pipeline.convert pc src = .oof ∨ ∃ out, Pipeline.convert pc src = .ok out := by
  have hlt : '<' ∉ src := by
    intro hm
    have := hd.1 _ hm
    revert this; decide
  rcases C05.C05_full_total pc h2 src hlt with ⟨h, -⟩ | ⟨-, ht⟩ | ⟨out, -, h, -, -⟩
  · exact Or.inl h
  · exfalso
    unfold Pipeline.tree at ht
    cases hp : parseDocument pc.tab (Pipeline.prepare pc src) with
    | none => simp [hp] at ht
    | some rr =>
      obtain ⟨rt, refs⟩ := rr
      cases hr : Inline.run { esc := pc.esc, refs := refs.reverse } rt with
      | none => simp [hp, hr] at ht
      | some ts =>
        obtain ⟨t, st⟩ := ts
        have hw := run_result_wnodeB pc hcfg hd hp hr
        have hfn : t.Forall FNode := Node.Forall.mono (fun _ hn => fnode_of_wnodeB hn) t hw
        obtain ⟨u, hu⟩ := unescapeTree_fnode_some (prettify_fnode hfn pc.blockLevel)
        simp [hp, hr, hu] at ht
  · exact Or.inr ⟨out, h⟩

end MdVerif.C08Src
