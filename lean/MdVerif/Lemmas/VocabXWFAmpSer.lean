/-
C05 on the extension pipeline, removal of the residual hypothesis `hamp` of `C05X_partial`, part 1: the serializer.

`Lemmas/AmpFullTree.lean` proves `tl_serialize` / `inner_no_amp` for trees of the CORE vocabulary (`Vocab2.Good`).
Here the same induction for the trees of named elements `VocabXOut.GN` / `GNL` (names accepted by `Ser.isName`, no
raw-text element, void elements empty): the serialisation of such a tree whose texts, tails and attribute values
hold no `STX a` (`AmpFull.NodeQ`) does not contain the ampersand substitute `STX amp ETX`.

Core Lean only.
-/
import MdVerif.Lemmas.VocabXWFAmpGTree
import MdVerif.Lemmas.VocabXWFOut

set_option autoImplicit false

namespace MdVerif.VocabXAmp
open Py Ser Vocab2 G
open VocabXOut (GN GNL gnl_cons name_clean)

/-- the attribute list in front of `>` or ` />`, attribute names that are names -/
theorem tl_writeAttrs_gn (fmt : Fmt) : ∀ (as : List (Str × Str)), (∀ kv ∈ as, isName kv.1 = true) →
    (∀ kv ∈ as, SQ kv.2 = true) → ∀ (Z : Str), Tl Z → Tl (writeAttrs fmt as ++ Z) := by
  intro as
  induction as with
  | nil => intro _ _ Z hZ; exact hZ
  | cons kv r ih =>
    intro hk hv Z hZ
    obtain ⟨k, v⟩ := kv
    have hkc : STX ∉ k := (name_clean (hk (k, v) List.mem_cons_self)).1
    have ihr := ih (fun x hx => hk x (List.mem_cons_of_mem _ hx)) (fun x hx => hv x (List.mem_cons_of_mem _ hx)) Z hZ
    simp only [writeAttrs]
    split
    · rename_i hb
      have hkv : k = escAttrHtml v := by simp only [Bool.and_eq_true, decide_eq_true_eq] at hb; exact hb.1
      rw [← hkv, List.append_assoc]
      exact tl_markup (M := ' ' :: k) (by
        intro hm
        rcases List.mem_cons.1 hm with hm | hm
        · revert hm; decide
        · exact hkc hm) rfl (by decide) ihr.1
    · have e1 : (' ' :: k ++ "=\"".toList ++ escAttrHtml v ++ ['"']) ++ writeAttrs fmt r ++ Z =
          (' ' :: k ++ "=\"".toList) ++ (escAttrHtml v ++ ('"' :: (writeAttrs fmt r ++ Z))) := by
        simp [List.append_assoc]
      rw [e1]
      have t1 : Tl ('"' :: (writeAttrs fmt r ++ Z)) :=
        tl_markup (M := ['"']) (by decide) rfl (by decide) ihr.1
      have t2 := SQ_escAttr t1 (hv (k, v) List.mem_cons_self)
      exact tl_markup (M := ' ' :: k ++ "=\"".toList) (by
        intro hm
        rcases List.mem_append.1 hm with hm | hm
        · rcases List.mem_cons.1 hm with hm | hm
          · revert hm; decide
          · exact hkc hm
        · revert hm; decide) rfl (by decide) t2

mutual
/-- **the serialisation of a named element** whose strings have no `STX a`, in front of markup -/
theorem tl_serialize_gn (fmt : Fmt) : (n : Node) → GN n = true → n.Forall NodeQ → ∀ (Y : Str), Tl Y →
    Tl (serialize fmt n ++ Y)
  | ⟨tag, attrs, text, ta, children, tail, tla⟩, h, hq, Y, hY => by
    simp only [Node.Forall] at hq
    obtain ⟨⟨q1, q2, q3⟩, qk⟩ := hq
    simp only at q1 q2 q3
    cases tag with
    | name t =>
      simp only [GN, Bool.and_eq_true, Bool.not_eq_true', Bool.or_eq_true, List.isEmpty_iff, List.all_eq_true] at h
      obtain ⟨⟨⟨⟨⟨ht, f2⟩, ha⟩, _⟩, hv⟩, hk⟩ := h
      have hkids := tl_serializeList_gn fmt children hk qk
      have htc : STX ∉ t := (name_clean ht).1
      have hW : ∀ Z, Tl Z → Tl (writeAttrs fmt (sortAttrs attrs) ++ Z) := fun Z hZ =>
        tl_writeAttrs_gn fmt _ (fun kv hkv => ha kv (mem_sortAttrs attrs kv hkv))
          (fun kv hkv => q3 kv (mem_sortAttrs attrs kv hkv)) Z hZ
      have hTL : SQ ((if Node.truthy tail = true then escCdata (tail.getD []) else []) ++ Y) = true :=
        SQ_textStr (t := tail) hY q2
      simp only [serialize, element_none, f2, Bool.false_eq_true, ↓reduceIte]
      split
      · -- xhtml, void
        have e : '<' :: (t ++ (writeAttrs fmt (sortAttrs attrs) ++ " />".toList)) ++
            (if Node.truthy tail = true then escCdata (tail.getD []) else []) ++ Y =
            ('<' :: t) ++ (writeAttrs fmt (sortAttrs attrs) ++ (" />".toList ++
              ((if Node.truthy tail = true then escCdata (tail.getD []) else []) ++ Y))) := by
          simp [List.append_assoc]
        rw [e]
        exact tl_markup (noSTX_lt_tag htc) rfl (by decide)
          (hW _ (tl_markup (M := " />".toList) (by decide) rfl (by decide) hTL)).1
      · by_cases hvoid : isEmptyTag t = true
        · -- html, void: no text, no children
          rcases hv with hv | ⟨hnt, hch⟩
          · rw [hv] at hvoid; cases hvoid
          · subst hch
            simp only [hvoid, hnt, ↓reduceIte, serializeList, List.append_nil, Bool.false_eq_true]
            have e : '<' :: (t ++ (writeAttrs fmt (sortAttrs attrs) ++ ['>'])) ++
                (if Node.truthy tail = true then escCdata (tail.getD []) else []) ++ Y =
                ('<' :: t) ++ (writeAttrs fmt (sortAttrs attrs) ++ (['>'] ++
                  ((if Node.truthy tail = true then escCdata (tail.getD []) else []) ++ Y))) := by
              simp [List.append_assoc]
            rw [e]
            exact tl_markup (noSTX_lt_tag htc) rfl (by decide)
              (hW _ (tl_markup (M := ['>']) (by decide) rfl (by decide) hTL)).1
        · have hnv : isEmptyTag t = false := by simpa using hvoid
          simp only [hnv, Bool.false_eq_true, ↓reduceIte]
          have hTX : ∀ Z, Tl Z → SQ ((if Node.truthy text = true then escCdata (text.getD []) else []) ++ Z) = true :=
            fun Z hZ => SQ_textStr (t := text) hZ q1
          have e : '<' :: (t ++ (writeAttrs fmt (sortAttrs attrs) ++ '>' ::
                ((if Node.truthy text = true then escCdata (text.getD []) else []) ++
                  (serializeList fmt children ++ ("</".toList ++ t ++ ['>']))))) ++
              (if Node.truthy tail = true then escCdata (tail.getD []) else []) ++ Y =
              ('<' :: t) ++ (writeAttrs fmt (sortAttrs attrs) ++ (['>'] ++
                ((if Node.truthy text = true then escCdata (text.getD []) else []) ++
                  (serializeList fmt children ++ (("</".toList ++ t ++ ['>']) ++
                    ((if Node.truthy tail = true then escCdata (tail.getD []) else []) ++ Y)))))) := by
            simp [List.append_assoc]
          rw [e]
          have hC : Tl (("</".toList ++ t ++ ['>']) ++
              ((if Node.truthy tail = true then escCdata (tail.getD []) else []) ++ Y)) :=
            tl_markup (M := "</".toList ++ t ++ ['>']) (by
              intro hm
              rcases List.mem_append.1 hm with hm | hm
              · rcases List.mem_append.1 hm with hm | hm
                · revert hm; decide
                · exact htc hm
              · revert hm; decide) rfl (by decide) hTL
          exact tl_markup (noSTX_lt_tag htc) rfl (by decide)
            (hW _ (tl_markup (M := ['>']) (by decide) rfl (by decide) (hTX _ (hkids _ hC)))).1
    | comment => simp [GN] at h
    | pi => simp [GN] at h
    | none => simp [GN] at h
    | qname q => simp [GN] at h
theorem tl_serializeList_gn (fmt : Fmt) : (l : List Node) → GNL l = true → Node.ForallL NodeQ l →
    ∀ (Y : Str), Tl Y → Tl (serializeList fmt l ++ Y)
  | [], _, _, Y, hY => by simpa [serializeList] using hY
  | c :: r, h, hq, Y, hY => by
    rw [gnl_cons, Bool.and_eq_true] at h
    simp only [Node.ForallL] at hq
    simp only [serializeList, List.append_assoc]
    exact tl_serialize_gn fmt c h.1 hq.1 _ (tl_serializeList_gn fmt r h.2 hq.2 Y hY)
end

/-- **no ampersand substitute in the serialisation** of a wrapper whose children are named elements and whose strings
    have no `STX a` (the root's tag and attributes are not written by `inner`) -/
theorem inner_no_amp_gn (fmt : Fmt) (root : Node) (hk : GNL root.children = true) (hq : root.Forall NodeQ) :
    contains (inner fmt root) Post.ampSubstitute = false := by
  apply no_amp_of_SQ
  rw [Node.forall_def] at hq
  have h1 := tl_serializeList_gn fmt root.children hk hq.2 [] tl_nil
  rw [List.append_nil] at h1
  rw [inner_eq]
  exact SQ_textStr h1 hq.1.1

end MdVerif.VocabXAmp
