/-
Helper lemmas for C01 with inline images (`Props/C01i.lean`), the pattern loop: `__handleInline` from pattern 0 on a
line `C₀ ![alt₁](d₁) C₁ … ![altₘ](dₘ) Cₘ` (`imgRaw` of `Lemmas/DocParse6Def.lean`).  The passes on the chunks are
those of `Lemmas/RefTextPass.lean`; patterns 2 (reference) and 3 (link) skip every `![`, pattern 4 (image_link) takes
the images out left to right — the `<img>` element has no text, nothing is nested —, patterns 5–13 find nothing, the
emphasis passes work on the contents as in `Lemmas/RefTextLine.lean`.  Result: `LoopOK`.  Core Lean only.
-/
import MdVerif.Lemmas.DocParse6Def

namespace MdVerif.DocImg
open Py Inline Escape DocSpec CodeLaw DocParse Block DocParse2 RefText DocLink

/-! ### the characters of `![alt](dest)` -/

/-- `![alt](dest)` -/
def openerM (u : MUse) : Str := '!' :: '[' :: (u.alt ++ closerM u)

theorem imStage_cons' (esc : List Char) (lv : Nat) (pe : Bool) (m n0 : Nat) (u : MUse) (r : List MUse) :
    imStage esc lv pe m n0 (u :: r) =
      openerM u ++ (u.C.stage esc lv pe m n0 0 0 ++ imStage esc lv pe (m + u.C.escs esc) (n0 + u.C.cnt 0) r) := by
  simp [imStage, openerM, closerM, List.append_assoc]

theorem alnumSp_quiet {x : Char} (h : isAlnumSp x = true) :
    x ≠ '`' ∧ x ≠ '\\' ∧ x ≠ '[' ∧ x ≠ ']' ∧ x ≠ '!' ∧ Inline.STX ≠ x := by
  refine ⟨?_, ?_, ?_, ?_, ?_, ?_⟩ <;> (intro e; subst e; exact absurd h (by decide))

theorem closerM_chars {esc : List Char} {u : MUse} (h : MUseOK esc u) :
    ∀ c ∈ closerM u, c ≠ '`' ∧ c ≠ '\\' ∧ c ≠ '[' ∧ c ≠ '!' := by
  intro c hc
  simp only [closerM, List.mem_cons, List.mem_append, List.not_mem_nil, or_false] at hc
  rcases hc with rfl | rfl | hc | rfl
  · exact ⟨by decide, by decide, by decide, by decide⟩
  · exact ⟨by decide, by decide, by decide, by decide⟩
  · have := dest_chars h.dest c hc
    exact ⟨this.1, this.2.1, this.2.2.1, this.2.2.2.2⟩
  · exact ⟨by decide, by decide, by decide, by decide⟩

theorem noTickBs_openerM {esc : List Char} {u : MUse} (h : MUseOK esc u) : noTickBs (openerM u) := by
  intro c hc
  simp only [openerM, List.mem_cons, List.mem_append] at hc
  rcases hc with rfl | rfl | hc | hc
  · exact ⟨by decide, by decide⟩
  · exact ⟨by decide, by decide⟩
  · exact ⟨(alnumSp_quiet (h.alt c hc)).1, (alnumSp_quiet (h.alt c hc)).2.1⟩
  · exact ⟨(closerM_chars h c hc).1, (closerM_chars h c hc).2.1⟩

theorem bs_not_mem_openerM {esc : List Char} {u : MUse} (h : MUseOK esc u) : '\\' ∉ openerM u :=
  fun hc => (noTickBs_openerM h _ hc).2 rfl

theorem openerM_ne (u : MUse) : openerM u ≠ [] := by simp [openerM]

theorem imStage_head (esc : List Char) (lv : Nat) (pe : Bool) (m n0 : Nat) (us : List MUse) :
    (imStage esc lv pe m n0 us).head? ≠ some '`' := by
  cases us with
  | nil => simp [imStage]
  | cons u r => simp [imStage]

/-! ### patterns 0 and 1 -/

/-- **the backtick pass on the images**: the code spans of the contents, left to right -/
theorem code_pass_imgs (cfg : Inline.Cfg) (hi : HI) (hb : '\\' ∈ cfg.esc) (ht : '`' ∈ cfg.esc) (us : List MUse) :
    ∀ (A : Str) (m n0 : Nat) (st : St) (g : Nat), BtOK A → (∀ u ∈ us, MUseOK cfg.esc u) →
      hiLoop (applyPattern cfg hi) (g + imCnt0 us) (A ++ imStage cfg.esc 0 false m n0 us) 0 0 st =
        hiLoop (applyPattern cfg hi) g (A ++ imStage cfg.esc 1 false m st.stash.length us) 0 0
          { st with stash := st.stash ++ imNodes0 us } ∧
      BtOK (A ++ imStage cfg.esc 1 false m st.stash.length us) := by
  induction us with
  | nil => intro A m n0 st g hA _; simp [imStage, imCnt0, imNodes0, hA]
  | cons u r ih =>
    intro A m n0 st g hA hus
    have hu := hus u List.mem_cons_self
    have hur : ∀ x ∈ r, MUseOK cfg.esc x := fun x hx => hus x (List.mem_cons_of_mem _ hx)
    have hA1 := btOK_item hA (noTickBs_openerM hu)
    have hA1l := hA1.2 (openerM_ne u)
    have e1 := code_pass_chunk cfg hi hb ht
      (imStage cfg.esc 0 false (m + u.C.escs cfg.esc) (n0 + u.C.cnt 0) r) (imStage_head _ _ _ _ _ _) u.C
      (A ++ openerM u) m n0 0 0 st (g + imCnt0 r) hA1.1 hA1l hu.after.ok hu.after.junctions
    have hA2 := btOK_chunk1 hb ht u.C.segs (A ++ openerM u) u.C.t0 (m + escCount cfg.esc u.C.t0) st.stash.length 0 0
      hA1.1 hA1l hu.after.ok
    generalize hst1 : ({ st with stash := st.stash ++ nodesOf 0 u.C.segs } : St) = st1 at e1
    have hst1l : st1.stash.length = st.stash.length + u.C.cnt 0 := by rw [← hst1]; simp [Chunk.cnt]
    have hstage1C : u.C.stage cfg.esc 1 false m st.stash.length 0 0 =
        escAll cfg.esc u.C.t0 ++ stageM cfg.esc 1 false (m + escCount cfg.esc u.C.t0) st.stash.length 0 0 u.C.segs := by
      simp [Chunk.stage]
    rw [← hstage1C] at hA2
    obtain ⟨e3, hA5⟩ := ih (A ++ openerM u ++ u.C.stage cfg.esc 1 false m st.stash.length 0 0)
      (m + u.C.escs cfg.esc) (n0 + u.C.cnt 0) st1 g hA2 hur
    refine ⟨?_, ?_⟩
    · rw [imStage_cons', imStage_cons']
      rw [show g + imCnt0 (u :: r) = g + imCnt0 r + u.C.cnt 0 by simp [imCnt0]; omega]
      simp only [List.append_assoc] at e1 e3 ⊢
      rw [e1, e3, ← hst1]
      simp [imNodes0, List.append_assoc, Chunk.cnt]
    · rw [imStage_cons']
      rw [hst1l] at hA5
      simpa only [List.append_assoc] using hA5

/-- **the escape pass on the images** -/
theorem esc_pass_imgs (cfg : Inline.Cfg) (hi : HI) (hE : EscOK cfg.esc) (hrb : ']' ∈ cfg.esc) (us : List MUse) :
    ∀ (A : Str) (m n0 : Nat) (st : St) (g : Nat), '\\' ∉ A → (∀ u ∈ us, MUseOK cfg.esc u) →
      hiLoop (applyPattern cfg hi) (g + imEscs cfg.esc us) (A ++ imStage cfg.esc 1 false m n0 us) 1 0 st =
        hiLoop (applyPattern cfg hi) g (A ++ imStage cfg.esc 1 true st.stash.length n0 us) 1 0
          { st with stash := st.stash ++ imEscStash cfg.esc us } := by
  induction us with
  | nil => intro A m n0 st g _ _; simp [imStage, imEscs, imEscStash]
  | cons u r ih =>
    intro A m n0 st g hA hus
    have hu := hus u List.mem_cons_self
    have hur : ∀ x ∈ r, MUseOK cfg.esc x := fun x hx => hus x (List.mem_cons_of_mem _ hx)
    have hA1 : '\\' ∉ A ++ openerM u := by
      intro h; rcases List.mem_append.1 h with h | h
      · exact hA h
      · exact bs_not_mem_openerM hu h
    have e1 := esc_pass_chunk cfg hi hE.bs 1 (by omega)
      (imStage cfg.esc 1 false (m + u.C.escs cfg.esc) (n0 + u.C.cnt 0) r)
      u.C (A ++ openerM u) m n0 0 0 st (g + imEscs cfg.esc r) hA1 hu.after.ok
    generalize hst1 : ({ st with stash := st.stash ++ u.C.escStash cfg.esc } : St) = st1 at e1
    have hst1l : st1.stash.length = st.stash.length + u.C.escs cfg.esc := by
      rw [← hst1]; simp [Chunk.escStash_length]
    have hA2 : '\\' ∉ A ++ openerM u ++ u.C.stage cfg.esc 1 true st.stash.length n0 0 0 := by
      intro h
      rcases List.mem_append.1 h with h | h
      · exact hA1 h
      · exact bs_not_mem_stage hE hrb 1 (by omega) u.C hu.after.ok hu.after.plain _ _ _ _ h
    have e3 := ih _ (m + u.C.escs cfg.esc) (n0 + u.C.cnt 0) st1 g hA2 hur
    rw [imStage_cons', imStage_cons']
    rw [show g + imEscs cfg.esc (u :: r) = g + imEscs cfg.esc r + u.C.escs cfg.esc by simp [imEscs]; omega]
    simp only [List.append_assoc] at e1 e3 ⊢
    rw [e1, e3, ← hst1]
    simp [imEscStash, List.append_assoc, Chunk.escStash_length, Nat.add_assoc]

theorem bs_not_mem_imStage1 {cfg : Inline.Cfg} (hE : EscOK cfg.esc) (hrb : ']' ∈ cfg.esc) (us : List MUse)
    (hus : ∀ u ∈ us, MUseOK cfg.esc u) : ∀ (m n0 : Nat), '\\' ∉ imStage cfg.esc 1 true m n0 us := by
  induction us with
  | nil => intro _ _ h; simp [imStage] at h
  | cons u r ih =>
    intro m n0 h
    have hu := hus u List.mem_cons_self
    rw [imStage_cons'] at h
    simp only [List.mem_append] at h
    rcases h with h | h | h
    · exact bs_not_mem_openerM hu h
    · exact bs_not_mem_stage hE hrb 1 (by omega) u.C hu.after.ok hu.after.plain _ _ _ _ h
    · exact ih (fun x hx => hus x (List.mem_cons_of_mem _ hx)) _ _ h

/-! ### patterns 2 and 3 find nothing: every `[` stands behind a `!` -/

theorem linkScan_skip_imgs (cfg : Inline.Cfg) (hE : EscOK cfg.esc) (hrb : ']' ∈ cfg.esc) (stash : List StashItem)
    (pi : Nat) (hpi : ¬ (pi = 4 ∨ pi = 5 ∨ pi = 7)) (data : Str) (us : List MUse) :
    ∀ (A : Str) (m n0 : Nat) (prev : Option Char) (i : Nat), '[' ∉ A → (∀ u ∈ us, MUseOK cfg.esc u) →
      linkScan cfg stash pi data prev (A ++ imStage cfg.esc 1 true m n0 us) i = none := by
  induction us with
  | nil =>
    intro A m n0 prev i hA _
    simp only [imStage, List.append_nil]
    exact linkScan_nobracket cfg stash pi hpi data A hA _ _
  | cons u r ih =>
    intro A m n0 prev i hA hus
    have hu := hus u List.mem_cons_self
    have hC := not_mem_of_charOK (charOK_stage hE hrb 1 (by omega) u.C hu.after.ok hu.after.plain m n0 0 0)
    have hA' : '[' ∉ u.alt ++ (closerM u ++ u.C.stage cfg.esc 1 true m n0 0 0) := by
      intro h
      rcases List.mem_append.1 h with h | h
      · exact (alnumSp_quiet (hu.alt _ h)).2.2.1 rfl
      · rcases List.mem_append.1 h with h | h
        · exact (closerM_chars hu _ h).2.2.1 rfl
        · exact hC.1 h
    have e : A ++ imStage cfg.esc 1 true m n0 (u :: r) =
        A ++ '!' :: '[' :: ((u.alt ++ (closerM u ++ u.C.stage cfg.esc 1 true m n0 0 0)) ++
          imStage cfg.esc 1 true (m + u.C.escs cfg.esc) (n0 + u.C.cnt 0) r) := by
      simp [imStage, closerM, List.append_assoc]
    rw [e, InlineRef.linkScan_skip_bang cfg stash pi hpi data A _ prev i hA]
    exact ih _ _ _ _ _ hA' (fun x hx => hus x (List.mem_cons_of_mem _ hx))

/-! ### pattern 4: the images, left to right -/

theorem imgEl_inline (url : Str) (title : Option (Char × Str)) (alt : Str) (h : DestOK url title) :
    ((match titleOf title with
      | some t => ((mkEl "img").setAttr "src".toList url).setAttr "title".toList t
      | none => (mkEl "img").setAttr "src".toList url).setAttr "alt".toList alt) =
      InlineRef.imgEl url (titleOf title) alt := by
  unfold InlineRef.imgEl
  cases title with
  | none => simp [titleOf, Node.truthy]
  | some qt =>
    obtain ⟨q, t⟩ := qt
    obtain ⟨_, _, _, _, _, htne, _, _⟩ := h
    cases t with
    | nil => exact absurd rfl htne
    | cons a b => simp [titleOf, Node.truthy]

/-- `handleMatch` of `ImageInlineProcessor` at `![alt](dest)`; `alt` without brackets and placeholders -/
theorem linkHandle_img (cfg : Inline.Cfg) (stash : List StashItem) (A alt url post : Str)
    (title : Option (Char × Str)) (mstart : Nat) (h1 : '[' ∉ alt) (h2 : ']' ∉ alt) (h3 : Inline.STX ∉ alt)
    (hd : DestOK url title) :
    linkHandle cfg stash 4 (A ++ alt ++ ']' :: '(' :: (destSrc url title ++ ')' :: post)) mstart A.length =
      some ⟨.el (InlineRef.imgEl url (titleOf title) alt), mstart,
        (((A ++ alt ++ [']']).length + 1 + (destSrc url title).length + 1 : Nat) : Int)⟩ := by
  have hg := InlineRef.getText_plain A alt ('(' :: (destSrc url title ++ ')' :: post)) h1 h2
  have hgl := getLink_dest stash (A ++ alt ++ [']']) url post title hd
  have hdata : A ++ alt ++ [']'] ++ '(' :: (destSrc url title ++ ')' :: post) =
      A ++ alt ++ ']' :: '(' :: (destSrc url title ++ ')' :: post) := by simp [List.append_assoc]
  have hlen : (A ++ alt ++ [']']).length = A.length + alt.length + 1 := by simp; omega
  rw [hdata, hlen] at hgl
  unfold linkHandle
  rw [hg]
  simp only [Bool.not_true, Bool.false_eq_true, if_false, decide_true, Bool.or_true, Bool.true_or, if_true, hgl, hlen,
    InlineRef.unescape_id stash alt h3]
  have := imgEl_inline url title alt hd
  simp only [titleOf] at this ⊢
  rw [← this]
  cases title <;> rfl

theorem findMatch4_eq (cfg : Inline.Cfg) (st : St) (data : Str) :
    findMatch cfg 4 data 0 st = some (linkScan cfg st.stash 4 data none data 0, st) := by
  simp [findMatch]

theorem findMatch3_eq' (cfg : Inline.Cfg) (st : St) (data : Str) :
    findMatch cfg 3 data 0 st = some (linkScan cfg st.stash 3 data none data 0, st) := by
  simp [findMatch]

/-- **one turn of the pattern loop at an inline image**: the `<img>` element is stashed, a placeholder takes the
    place of `![alt](dest)` -/
theorem applyPattern_imgAt (cfg : Inline.Cfg) (hi : HI) (st : St) (pre alt url post : Str)
    (title : Option (Char × Str)) (hp : '!' ∉ pre) (h1 : '[' ∉ alt) (h2 : ']' ∉ alt) (h3 : Inline.STX ∉ alt)
    (hd : DestOK url title) :
    applyPattern cfg hi 4 (pre ++ '!' :: '[' :: (alt ++ ']' :: '(' :: (destSrc url title ++ ')' :: post))) 0 st =
      some (pre ++ (placeholder st.stash.length ++ post), true, 0,
        { st with stash := st.stash ++ [.node (InlineRef.imgEl url (titleOf title) alt)] }) := by
  generalize hD : pre ++ '!' :: '[' :: (alt ++ ']' :: '(' :: (destSrc url title ++ ')' :: post)) = D
  have hD2 : D = (pre ++ ['!', '[']) ++ alt ++ ']' :: '(' :: (destSrc url title ++ ')' :: post) := by
    rw [← hD]; simp [List.append_assoc]
  have hlh := linkHandle_img cfg st.stash (pre ++ ['!', '[']) alt url post title (0 + pre.length) h1 h2 h3 hd
  rw [← hD2] at hlh
  have hlen : (pre ++ ['!', '[']).length = 0 + pre.length + 2 := by simp
  rw [hlen] at hlh
  have hscan := InlineRef.linkScan_image_at cfg st.stash 4 (Or.inl rfl) D pre
    (alt ++ ']' :: '(' :: (destSrc url title ++ ')' :: post)) none 0 hp _ hlh
  rw [hD] at hscan
  have hf : findMatch cfg 4 D 0 st = some (some ⟨.el (InlineRef.imgEl url (titleOf title) alt), 0 + pre.length,
      (((pre ++ ['!', '['] ++ alt ++ [']']).length + 1 + (destSrc url title).length + 1 : Nat) : Int)⟩, st) := by
    rw [findMatch4_eq, hscan]
  have himg := InlineRef.imgEl_eq url (titleOf title) alt
  have hap := InlineRef.applyPattern_leaf cfg hi 4 D 0 st (InlineRef.imgEl url (titleOf title) alt) (0 + pre.length)
    ((pre ++ ['!', '['] ++ alt ++ [']']).length + 1 + (destSrc url title).length + 1) hf
    (by rw [himg]) (by rw [himg]) (by rw [himg]) (by rw [himg]; intro t ht; cases ht)
  rw [hap]
  have htake : D.take (0 + pre.length) = pre := by rw [← hD]; simp
  have hdrop : D.drop ((pre ++ ['!', '['] ++ alt ++ [']']).length + 1 + (destSrc url title).length + 1) = post := by
    have : D = ((pre ++ ['!', '['] ++ alt ++ [']']) ++ ['('] ++ destSrc url title ++ [')']) ++ post := by
      rw [← hD]; simp [List.append_assoc]
    rw [this, List.drop_left' (by simp; omega)]
  rw [htake, hdrop]
  simp [List.append_assoc]

/-- **the image pass** -/
theorem img_pass (cfg : Inline.Cfg) (hE : EscOK cfg.esc) (hrb : ']' ∈ cfg.esc) (hi : HI) (us : List MUse) :
    ∀ (A : Str) (m n0 : Nat) (st : St) (g : Nat), '!' ∉ A → (∀ u ∈ us, MUseOK cfg.esc u) →
      hiLoop (applyPattern cfg hi) (g + us.length) (A ++ imStage cfg.esc 1 true m n0 us) 4 0 st =
      hiLoop (applyPattern cfg hi) g (A ++ outStage cfg.esc 1 0 0 (imOuter cfg.esc m n0 st.stash.length us)) 4 0
        { st with stash := st.stash ++ us.map (fun u => StashItem.node (imgNode u)) } := by
  induction us with
  | nil => intro A m n0 st g _ _; simp [imStage, imOuter, outStage]
  | cons u r ih =>
    intro A m n0 st g hA hus
    have hu := hus u List.mem_cons_self
    have hur : ∀ x ∈ r, MUseOK cfg.esc x := fun x hx => hus x (List.mem_cons_of_mem _ hx)
    have hC := not_mem_of_charOK (charOK_stage hE hrb 1 (by omega) u.C hu.after.ok hu.after.plain m n0 0 0)
    have ha1 : '[' ∉ u.alt := fun h => (alnumSp_quiet (hu.alt _ h)).2.2.1 rfl
    have ha2 : ']' ∉ u.alt := fun h => (alnumSp_quiet (hu.alt _ h)).2.2.2.1 rfl
    have ha3 : Inline.STX ∉ u.alt := fun h => (alnumSp_quiet (hu.alt _ h)).2.2.2.2.2 rfl
    have hstep := applyPattern_imgAt cfg hi st A u.alt u.url
      (u.C.stage cfg.esc 1 true m n0 0 0 ++ imStage cfg.esc 1 true (m + u.C.escs cfg.esc) (n0 + u.C.cnt 0) r)
      u.dtitle hA ha1 ha2 ha3 hu.dest
    have hA' : '!' ∉ A ++ (placeholder st.stash.length ++ u.C.stage cfg.esc 1 true m n0 0 0) := by
      intro h
      rcases List.mem_append.1 h with h | h
      · exact hA h
      · rcases List.mem_append.1 h with h | h
        · exact InlineRef.not_mem_placeholder (by decide) h
        · exact hC.2.2.1 h
    have e3 := ih _ (m + u.C.escs cfg.esc) (n0 + u.C.cnt 0)
      { st with stash := st.stash ++ [.node (InlineRef.imgEl u.url (titleOf u.dtitle) u.alt)] } g hA' hur
    have hlen2 : (st.stash ++ [StashItem.node (InlineRef.imgEl u.url (titleOf u.dtitle) u.alt)]).length =
        st.stash.length + 1 := by simp
    simp only [hlen2] at e3
    rw [show g + (u :: r).length = (g + r.length) + 1 by simp; omega]
    simp only [imStage, List.map_cons, imOuter, outStage, imgNode]
    simp only [List.append_assoc, List.cons_append, List.nil_append, imgNode] at hstep e3 ⊢
    rw [hiLoop_step _ _ _ 4 0 st (by omega) _ _ _ _ hstep]
    simp only [if_true]
    rw [e3, outStage1_indep cfg.esc _ (0 + u.C.cnt 1) (0 + u.C.cnt 2) 0 0]

/-! ### the whole loop -/

theorem outOK_imOuter {esc : List Char} (us : List MUse) (h : ∀ u ∈ us, MUseOK esc u) :
    ∀ (m n0 s : Nat), OutOK esc (imOuter esc m n0 s us) := by
  induction us with
  | nil => intro _ _ _ o ho; simp [imOuter] at ho
  | cons u r ih =>
    intro m n0 s o ho
    simp only [imOuter, List.mem_cons] at ho
    rcases ho with rfl | ho
    · exact (h u List.mem_cons_self).after
    · exact ih (fun x hx => h x (List.mem_cons_of_mem _ hx)) _ _ _ o ho

theorem outCnt_imOuterL (esc : List Char) (k : Nat) (us : List MUse) :
    ∀ (m n0 s : Nat), outCnt k (imOuter esc m n0 s us) = imOutCnt k us := by
  induction us with
  | nil => intro _ _ _; rfl
  | cons u r ih => intro m n0 s; simp only [imOuter, outCnt, imOutCnt, ih]

theorem imNodes0_lengthL (us : List MUse) : (imNodes0 us).length = imCnt0 us := by
  induction us with
  | nil => rfl
  | cons u r ih => simp [imNodes0, imCnt0, ih, Chunk.cnt]

theorem imEscStash_lengthL (esc : List Char) (us : List MUse) : (imEscStash esc us).length = imEscs esc us := by
  induction us with
  | nil => rfl
  | cons u r ih => simp [imEscStash, imEscs, ih, Chunk.escStash_length]

/-- the line is long enough for the fuel of the loop -/
theorem imRaw_length {esc : List Char} (us : List MUse) (h : ∀ u ∈ us, MUseOK esc u) : ∀ (m n0 : Nat),
    imEscs esc us + imCnt0 us + us.length + imOutCnt 1 us + imOutCnt 2 us ≤ (imStage esc 0 false m n0 us).length := by
  induction us with
  | nil => intro _ _; simp [imEscs, imCnt0, imOutCnt, imStage]
  | cons u r ih =>
    intro m n0
    have hu := h u List.mem_cons_self
    have h2 := chunk_raw_length esc u.C hu.after.ok
    have h3 := ih (fun x hx => h x (List.mem_cons_of_mem _ hx)) (m + u.C.escs esc) (n0 + u.C.cnt 0)
    simp only [imEscs, imCnt0, imOutCnt, imStage, Chunk.stage_raw, List.length_cons, List.length_append]
    omega

/-- **the pattern loop on the line**: the code spans of all contents, the escapes of all contents, the images left to
    right, the `*` emphases and the `_` emphases of the contents -/
theorem loopOK_imgs (cfg : Inline.Cfg) (hE : EscOK cfg.esc) (hrb : ']' ∈ cfg.esc) (C0 : Chunk)
    (us : List MUse) (h0 : ChunkOK cfg.esc C0) (hus : ∀ u ∈ us, MUseOK cfg.esc u) : LoopOK cfg C0 us := by
  intro st
  generalize hraw : imgRaw cfg.esc C0 us = raw
  have hlen : C0.escs cfg.esc + C0.cnt 0 + C0.cnt 1 + C0.cnt 2 +
      (imEscs cfg.esc us + imCnt0 us + us.length + imOutCnt 1 us + imOutCnt 2 us) ≤ raw.length := by
    have h1 := chunk_raw_length cfg.esc C0 h0.ok
    have h2 := imRaw_length us hus 0 0
    rw [← hraw, imgRaw, List.length_append]; omega
  obtain ⟨x, hx⟩ : ∃ x, loopFuel raw.length =
      x + 1 + 1 + imOutCnt 2 us + C0.cnt 2 + 1 + imOutCnt 1 us + C0.cnt 1 + 1 + 9 + us.length + 1 + 1 + 1 +
        imEscs cfg.esc us + C0.escs cfg.esc + 1 + imCnt0 us + C0.cnt 0 :=
    ⟨loopFuel raw.length - (imOutCnt 2 us + C0.cnt 2 + imOutCnt 1 us + C0.cnt 1 + us.length + imEscs cfg.esc us +
      C0.escs cfg.esc + imCnt0 us + C0.cnt 0 + 17), by
      have := CodeLaw.loopFuel_ge raw.length; omega⟩
  unfold handleInlineTop depthFuel
  rw [show raw.length + 20 = ((raw.length + 18) + 1) + 1 from rfl]
  unfold handleInline
  rw [hx]
  generalize hhi : (fun d p s => handleInline cfg ((raw.length + 18) + 1) d p s) = hi
  generalize hs0 : st.stash.length = s0
  rw [← hraw, imgRaw, ← Chunk.stage_raw cfg.esc 0 0 0 0 C0]
  -- pattern 0
  have e0 := code_pass_chunk cfg hi hE.bs hE.tick (imStage cfg.esc 0 false 0 0 us) (imStage_head _ _ _ _ _ _) C0 []
    0 0 0 0 st (x + 1 + 1 + imOutCnt 2 us + C0.cnt 2 + 1 + imOutCnt 1 us + C0.cnt 1 + 1 + 9 + us.length + 1 + 1 + 1 +
        imEscs cfg.esc us + C0.escs cfg.esc + 1 + imCnt0 us) btOK_nil (by simp) h0.ok h0.junctions
  simp only [List.nil_append] at e0
  rw [e0, hs0]
  have hb1 := btOK_chunk1 hE.bs hE.tick C0.segs [] C0.t0 (0 + escCount cfg.esc C0.t0) s0 0 0 btOK_nil (by simp) h0.ok
  simp only [List.nil_append] at hb1
  obtain ⟨e0', hb2⟩ := code_pass_imgs cfg hi hE.bs hE.tick us (C0.stage cfg.esc 1 false 0 s0 0 0) 0 0
    { st with stash := st.stash ++ nodesOf 0 C0.segs }
    (x + 1 + 1 + imOutCnt 2 us + C0.cnt 2 + 1 + imOutCnt 1 us + C0.cnt 1 + 1 + 9 + us.length + 1 + 1 + 1 +
        imEscs cfg.esc us + C0.escs cfg.esc + 1)
    (by simpa [Chunk.stage] using hb1) hus
  rw [e0']
  have hl1 : (st.stash ++ nodesOf 0 C0.segs).length = s0 + C0.cnt 0 := by simp [hs0, Chunk.cnt]
  simp only [hl1] at hb2 ⊢
  rw [hiLoop_step _ _ _ 0 0 _ (by omega) _ _ _ _ (applyPattern_zero_none cfg _ _ _ (btFind_of_btOK _ hb2))]
  simp only [Bool.false_eq_true, if_false, Nat.zero_add]
  -- pattern 1
  have e1 := esc_pass_chunk cfg hi hE.bs 1 (by omega) (imStage cfg.esc 1 false 0 (s0 + C0.cnt 0) us) C0 [] 0 s0 0 0
    { st with stash := st.stash ++ nodesOf 0 C0.segs ++ imNodes0 us }
    (x + 1 + 1 + imOutCnt 2 us + C0.cnt 2 + 1 + imOutCnt 1 us + C0.cnt 1 + 1 + 9 + us.length + 1 + 1 + 1 +
        imEscs cfg.esc us) (by simp) h0.ok
  simp only [List.nil_append] at e1
  rw [e1]
  have hl2 : (st.stash ++ nodesOf 0 C0.segs ++ imNodes0 us).length = mStartM s0 C0 us := by
    simp [hs0, Chunk.cnt, mStartM, imNodes0_lengthL, Nat.add_assoc]
  simp only [hl2]
  have hbs0 : '\\' ∉ C0.stage cfg.esc 1 true (mStartM s0 C0 us) s0 0 0 :=
    bs_not_mem_stage hE hrb 1 (by omega) C0 h0.ok h0.plain _ _ _ _
  have e1' := esc_pass_imgs cfg hi hE hrb us (C0.stage cfg.esc 1 true (mStartM s0 C0 us) s0 0 0) 0 (s0 + C0.cnt 0)
    { st with stash := st.stash ++ nodesOf 0 C0.segs ++ imNodes0 us ++ C0.escStash cfg.esc }
    (x + 1 + 1 + imOutCnt 2 us + C0.cnt 2 + 1 + imOutCnt 1 us + C0.cnt 1 + 1 + 9 + us.length + 1 + 1 + 1) hbs0 hus
  rw [e1']
  have hl3 : (st.stash ++ nodesOf 0 C0.segs ++ imNodes0 us ++ C0.escStash cfg.esc).length =
      mStartM s0 C0 us + C0.escs cfg.esc := by
    rw [List.length_append, hl2, Chunk.escStash_length]
  simp only [hl3]
  have hbsD : '\\' ∉ C0.stage cfg.esc 1 true (mStartM s0 C0 us) s0 0 0 ++
      imStage cfg.esc 1 true (mStartM s0 C0 us + C0.escs cfg.esc) (s0 + C0.cnt 0) us := by
    intro h; rcases List.mem_append.1 h with h | h
    · exact hbs0 h
    · exact bs_not_mem_imStage1 hE hrb us hus _ _ h
  rw [hiLoop_step _ _ _ 1 0 _ (by omega) _ _ _ _ (applyPattern_esc_none cfg hi _ _ hbsD)]
  simp only [Bool.false_eq_true, if_false]
  -- patterns 2 and 3: every `[` stands behind `!`
  have hc0 := charOK_stage hE hrb 1 (by omega) C0 h0.ok h0.plain (mStartM s0 C0 us) s0 0 0
  have hn0 := not_mem_of_charOK hc0
  generalize hD1 : C0.stage cfg.esc 1 true (mStartM s0 C0 us) s0 0 0 ++
      imStage cfg.esc 1 true (mStartM s0 C0 us + C0.escs cfg.esc) (s0 + C0.cnt 0) us = D1
  have hscan : ∀ (stash : List StashItem) (pi : Nat), ¬ (pi = 4 ∨ pi = 5 ∨ pi = 7) →
      linkScan cfg stash pi D1 none D1 0 = none := by
    intro stash pi hpi
    have := linkScan_skip_imgs cfg hE hrb stash pi hpi D1 us (C0.stage cfg.esc 1 true (mStartM s0 C0 us) s0 0 0)
      (mStartM s0 C0 us + C0.escs cfg.esc) (s0 + C0.cnt 0) none 0 hn0.1 hus
    rw [hD1] at this; exact this
  rw [show (1 : Nat) + 1 = 2 from rfl,
    hiLoop_step _ _ _ 2 0 _ (by omega) _ _ _ _ (InlineRef.applyPattern_none cfg hi 2 _ 0 _ (by
      rw [findMatch2_eq]; simp only [hscan _ 2 (by decide)]))]
  simp only [Bool.false_eq_true, if_false]
  rw [show (2 : Nat) + 1 = 3 from rfl,
    hiLoop_step _ _ _ 3 0 _ (by omega) _ _ _ _ (InlineRef.applyPattern_none cfg hi 3 _ 0 _ (by
      rw [findMatch3_eq']; simp only [hscan _ 3 (by decide)]))]
  simp only [Bool.false_eq_true, if_false]
  rw [← hD1]
  -- pattern 4: the images
  have e2 := img_pass cfg hE hrb hi us (C0.stage cfg.esc 1 true (mStartM s0 C0 us) s0 0 0)
    (mStartM s0 C0 us + C0.escs cfg.esc) (s0 + C0.cnt 0)
    { st with stash := st.stash ++ nodesOf 0 C0.segs ++ imNodes0 us ++ C0.escStash cfg.esc ++ imEscStash cfg.esc us }
    (x + 1 + 1 + imOutCnt 2 us + C0.cnt 2 + 1 + imOutCnt 1 us + C0.cnt 1 + 1 + 9) hn0.2.2.1 hus
  have hl4 : (st.stash ++ nodesOf 0 C0.segs ++ imNodes0 us ++ C0.escStash cfg.esc ++ imEscStash cfg.esc us).length =
      lStartM cfg.esc s0 C0 us := by
    rw [List.length_append, hl3, imEscStash_lengthL]; rfl
  simp only [hl4] at e2
  rw [show (3 : Nat) + 1 = 4 from rfl, e2]
  have hos : OutOK cfg.esc (lineOuterM cfg.esc s0 C0 us) := outOK_imOuter us hus _ _ _
  have hfold : imOuter cfg.esc (mStartM s0 C0 us + C0.escs cfg.esc) (s0 + C0.cnt 0) (lStartM cfg.esc s0 C0 us) us =
      lineOuterM cfg.esc s0 C0 us := rfl
  rw [hfold]
  generalize hos' : lineOuterM cfg.esc s0 C0 us = os at hos
  -- patterns 4–12
  have hmid : Mid (C0.stage cfg.esc 1 true (mStartM s0 C0 us) s0 0 0 ++ outStage cfg.esc 1 0 0 os) :=
    Mid.append (mid_of_charOK hc0) (mid_of_charOK (charOK_outStage hE hrb 1 (by omega) os hos 0 0))
  rw [hiLoop_mid cfg hi _ _ hmid _ 9 4 rfl (by omega)]
  -- pattern 13
  have hns : nsFind (C0.stage cfg.esc 1 true (mStartM s0 C0 us) s0 0 0 ++ outStage cfg.esc 1 0 0 os) 0 = none :=
    nsFind_of_nsSkip _ (nsSkip_append (nsSkip_stage hE.star hE.under 1 (by omega) C0 h0.ok _ _ _ _)
      (nsSkip_outStage hE.star hE.under 1 (by omega) os hos 0 0))
  rw [hiLoop_step _ _ _ 13 0 _ (by omega) _ _ _ _ (applyPattern_13 cfg hi _ _ hns)]
  simp only [Bool.false_eq_true, if_false]
  have hoc : ∀ k, outCnt k os = imOutCnt k us := by
    intro k; rw [← hos']; exact outCnt_imOuterL cfg.esc k us _ _ _
  -- pattern 14
  have hl5 : (st.stash ++ nodesOf 0 C0.segs ++ imNodes0 us ++ C0.escStash cfg.esc ++ imEscStash cfg.esc us ++ us.map (fun u => StashItem.node (imgNode u))).length = o1StartM cfg.esc s0 C0 us := by
    rw [List.length_append, hl4]; simp [o1StartM]
  have e14 := star_pass_chunk cfg (raw.length + 18) hE.star hE.under (outStage cfg.esc 1 0 0 os) C0 []
    (mStartM s0 C0 us) s0 0 0
    { st with stash := st.stash ++ nodesOf 0 C0.segs ++ imNodes0 us ++ C0.escStash cfg.esc ++ imEscStash cfg.esc us ++ us.map (fun u => StashItem.node (imgNode u)) } (x + 1 + 1 + imOutCnt 2 us + C0.cnt 2 + 1 + imOutCnt 1 us) (by simp) h0.ok
  simp only [List.nil_append, hl5] at e14
  rw [show 13 + 1 = 14 from rfl, ← hhi, e14]
  have e14' := star_pass_outer cfg (raw.length + 18) hE hrb os
    (C0.stage cfg.esc 2 true (mStartM s0 C0 us) s0 (o1StartM cfg.esc s0 C0 us) 0) 0 0
    { st with stash := st.stash ++ nodesOf 0 C0.segs ++ imNodes0 us ++ C0.escStash cfg.esc ++ imEscStash cfg.esc us ++ us.map (fun u => StashItem.node (imgNode u)) ++ nodesOf 1 C0.segs } (x + 1 + 1 + imOutCnt 2 us + C0.cnt 2 + 1)
    (star_not_mem_stage2 hE hrb C0 h0.ok h0.plain _ _ _ _) hos
  have hl6 : (st.stash ++ nodesOf 0 C0.segs ++ imNodes0 us ++ C0.escStash cfg.esc ++ imEscStash cfg.esc us ++ us.map (fun u => StashItem.node (imgNode u)) ++ nodesOf 1 C0.segs).length = o1StartM cfg.esc s0 C0 us + C0.cnt 1 := by
    rw [List.length_append, hl5]; rfl
  simp only [hl6, hoc] at e14'
  rw [outStage1_indep cfg.esc os 0 0 (0 + C0.cnt 1) (0 + C0.cnt 2)] at e14
  rw [outStage1_indep cfg.esc os (0 + C0.cnt 1) (0 + C0.cnt 2) 0 0] at e14
  rw [e14']
  have hstar2 : '*' ∉ C0.stage cfg.esc 2 true (mStartM s0 C0 us) s0 (o1StartM cfg.esc s0 C0 us) 0 ++
      outStage cfg.esc 2 (o1StartM cfg.esc s0 C0 us + C0.cnt 1) 0 os := by
    intro h; rcases List.mem_append.1 h with h | h
    · exact star_not_mem_stage2 hE hrb C0 h0.ok h0.plain _ _ _ _ h
    · have := (charOK_outStage hE hrb 2 (by omega) os hos _ _ _ h).2.2.2.2.2.2.2.1 rfl
      omega
  rw [hhi, hiLoop_step _ _ _ 14 0 _ (by omega) _ _ _ _
    (applyPattern_em_none cfg hi 14 (Or.inl rfl) _ _ (by simpa using hstar2))]
  simp only [Bool.false_eq_true, if_false]
  -- pattern 15
  have hl7 : (st.stash ++ nodesOf 0 C0.segs ++ imNodes0 us ++ C0.escStash cfg.esc ++ imEscStash cfg.esc us ++ us.map (fun u => StashItem.node (imgNode u)) ++ nodesOf 1 C0.segs ++ outNodes 1 os).length = o2StartM cfg.esc s0 C0 us := by
    rw [List.length_append, hl6, outNodes_length, hoc]; simp [o2StartM, Nat.add_assoc]
  have e15 := under_pass_chunk cfg (raw.length + 18) hE.star hE.under
    (outStage cfg.esc 2 (o1StartM cfg.esc s0 C0 us + C0.cnt 1) 0 os) (outStage_head _ _ _ _ _)
    (noTriple_outStage2 hE.star hE.under os hos _ _) C0 [] (mStartM s0 C0 us) s0 (o1StartM cfg.esc s0 C0 us) 0
    { st with stash := st.stash ++ nodesOf 0 C0.segs ++ imNodes0 us ++ C0.escStash cfg.esc ++ imEscStash cfg.esc us ++ us.map (fun u => StashItem.node (imgNode u)) ++ nodesOf 1 C0.segs ++ outNodes 1 os } (x + 1 + 1 + imOutCnt 2 us) (by simp) h0.ok
    (by
      by_cases ht : C0.t0 = []
      · simp only [ht, if_true]; have := h0.under; rw [ht] at this; simpa [lastOr, isW, lastW] using this
      · simp only [ht, if_false]; exact h0.under)
  simp only [List.nil_append, hl7] at e15
  rw [show 14 + 1 = 15 from rfl, ← hhi, e15]
  have e15' := under_pass_outer cfg (raw.length + 18) hE hrb os
    (C0.stage cfg.esc 3 true (mStartM s0 C0 us) s0 (o1StartM cfg.esc s0 C0 us) (o2StartM cfg.esc s0 C0 us))
    (o1StartM cfg.esc s0 C0 us + C0.cnt 1) 0
    { st with stash := st.stash ++ nodesOf 0 C0.segs ++ imNodes0 us ++ C0.escStash cfg.esc ++ imEscStash cfg.esc us ++ us.map (fun u => StashItem.node (imgNode u)) ++ nodesOf 1 C0.segs ++ outNodes 1 os ++ nodesOf 2 C0.segs } (x + 1 + 1)
    (under_not_mem_stage3 hE hrb C0 h0.ok h0.plain _ _ _ _) hos
  have hl8 : (st.stash ++ nodesOf 0 C0.segs ++ imNodes0 us ++ C0.escStash cfg.esc ++ imEscStash cfg.esc us ++ us.map (fun u => StashItem.node (imgNode u)) ++ nodesOf 1 C0.segs ++ outNodes 1 os ++ nodesOf 2 C0.segs).length =
      o2StartM cfg.esc s0 C0 us + C0.cnt 2 := by
    rw [List.length_append, hl7]; rfl
  simp only [hl8, hoc] at e15'
  rw [e15']
  have hund3 : '_' ∉ C0.stage cfg.esc 3 true (mStartM s0 C0 us) s0 (o1StartM cfg.esc s0 C0 us) (o2StartM cfg.esc s0 C0 us) ++
      outStage cfg.esc 3 (o1StartM cfg.esc s0 C0 us + C0.cnt 1) (o2StartM cfg.esc s0 C0 us + C0.cnt 2) os := by
    intro h; rcases List.mem_append.1 h with h | h
    · exact under_not_mem_stage3 hE hrb C0 h0.ok h0.plain _ _ _ _ h
    · have := (charOK_outStage hE hrb 3 (by omega) os hos _ _ _ h).2.2.2.2.2.2.2.2 rfl
      omega
  rw [hhi, hiLoop_step _ _ _ 15 0 _ (by omega) _ _ _ _
    (applyPattern_em_none cfg hi 15 (Or.inr rfl) _ _ (by simpa using hund3))]
  simp only [Bool.false_eq_true, if_false]
  simp only [hiLoop, patternCount, show ¬ (15 + 1 < 16) by omega, if_false]
  subst hos'
  simp [imRes, imStash, List.append_assoc]

end MdVerif.DocImg
