/-
Helper lemmas for `Props/C02Big.lean`, section 12: `Markdown.convert` does not raise WITH abbr.

`AbbrTreeprocessor` cuts texts and tails at the occurrences of the abbreviations — also INSIDE an escape token (`*[42]: x`
and `\*`: the `42` of `STX 42 ETX` is an occurrence), so the STX-token invariant `TokFull.NodeS` does not survive it.  What
`UnescapeTreeprocessor` needs is weaker and closed under cutting: no string holds a BAD token `STX digits ETX` with a number
of at least 0x110000 (`NB`); every string `AbbrTreeprocessor` writes is a piece of a string it read, or a title from the
log (no STX).

* `NB`, `NodeNB`, `unescapeTree_NB` — the weaker invariant suffices for `UnescapeTreeprocessor`;
* `segs_pieces`, `abbrRun_NB`, `abbrRun_shell` — `AbbrTreeprocessor` keeps it, and the tag and attributes of the root;
* `lateStageX_abbr`, `treeXBig_ne_err'`, `treeXBig_rootDiv'`, `convertXBig_ok'`, … — the results of sections 7, 10, 11
  with abbr on or off.
Core Lean only.
-/
import MdVerif.Lemmas.C02BigFTok

namespace MdVerif.C02BigNB
open Py TreeProc C02Big

/-- no bad token: `UnescapeTreeprocessor.unescape` does not raise on the string -/
def NB (s : Str) : Prop := ¬ BadToken s

theorem badToken_infix {a s : Str} (h : BadToken a) (hi : a <:+: s) : BadToken s := by
  obtain ⟨pre, d, post, e, h1, h2, h3⟩ := h
  obtain ⟨u, v, rfl⟩ := hi
  exact ⟨u ++ pre, d, post ++ v, by rw [e]; simp, h1, h2, h3⟩

theorem NB.infix {a s : Str} (h : NB s) (hi : a <:+: s) : NB a := fun hb => h (badToken_infix hb hi)

theorem nb_of_sokA {s : Str} (h : TokFull.SOkA s = true) : NB s := by
  intro hb
  have := TokFull.unescapeText_sokA h
  rw [(TreeProc.C02_unescape_raises_iff s).2 hb] at this
  cases this

theorem nb_of_sok {s : Str} (h : TokFull.SOk s = true) : NB s := nb_of_sokA (TokFull.SOkA_of_SOk h)

theorem nb_of_noSTX {s : Str} (h : TreeProc.STX ∉ s) : NB s := nb_of_sokA (TokFull.SOkA_of_noSTX h)

theorem nb_nil : NB [] := nb_of_noSTX (by simp)

/-- the invariant at one element -/
def NodeNB (n : Node) : Prop := NB (n.text.getD []) ∧ NB (n.tail.getD []) ∧ ∀ kv ∈ n.attrs, NB kv.2

theorem nodeNB_of_nodeS {n : Node} (h : TokFull.NodeS n) : NodeNB n :=
  ⟨nb_of_sok h.1, nb_of_sok h.2.1, fun kv hkv => nb_of_sokA (h.2.2 kv hkv)⟩

theorem forallNB_of_S {t : Node} (h : t.Forall TokFull.NodeS) : t.Forall NodeNB :=
  Node.Forall.mono (fun _ hn => nodeNB_of_nodeS hn) t h

mutual
theorem unescInputs_NB : (n : Node) → n.Forall NodeNB → ∀ s ∈ TreeProc.unescInputs n, NB s
  | ⟨tag, attrs, text, ta, children, tail, tla⟩, h => by
    unfold Node.Forall at h
    have hk := unescInputsList_NB children h.2
    obtain ⟨h1, h2, h3⟩ := h.1
    intro s hs
    unfold TreeProc.unescInputs at hs
    simp only [List.mem_append] at hs
    rcases hs with ((hs | hs) | hs) | hs
    · split at hs
      · simp only [List.mem_singleton] at hs; subst hs; exact h1
      · cases hs
    · split at hs
      · simp only [List.mem_singleton] at hs; subst hs; exact h2
      · cases hs
    · obtain ⟨kv, hkv, rfl⟩ := List.mem_map.1 hs
      exact h3 kv hkv
    · exact hk s hs
theorem unescInputsList_NB : (l : List Node) → Node.ForallL NodeNB l → ∀ s ∈ TreeProc.unescInputsList l, NB s
  | [], _ => by intro s hs; unfold TreeProc.unescInputsList at hs; cases hs
  | c :: r, h => by
    unfold Node.ForallL at h
    have hc := unescInputs_NB c h.1
    have hr := unescInputsList_NB r h.2
    intro s hs
    unfold TreeProc.unescInputsList at hs
    rcases List.mem_append.1 hs with hs | hs
    · exact hc s hs
    · exact hr s hs
end

/-- **`UnescapeTreeprocessor.run` does not raise on a tree without bad tokens** -/
theorem unescapeTree_NB {n : Node} (h : n.Forall NodeNB) : TreeProc.unescapeTree n ≠ none := by
  intro hn
  obtain ⟨s, hs, hb⟩ := (unescapeTree_none_iff n).1 hn
  exact unescInputs_NB n h s hs hb

/-! ### `AbbrTreeprocessor` -/

open AbbrTree

theorem abbrAt_prefix {keys : List Str} {prev : Option Char} {suf key : Str} (h : abbrAt keys prev suf = some key) :
    key <+: suf := by
  simp only [abbrAt] at h
  split at h
  · have := List.find?_some h
    simp only [Bool.and_eq_true] at this
    exact (BlockExt.startsWith_iff_prefix _ _).mp this.1.2
  · cases h

/-- **`finditer` of the abbreviation pattern cuts the string into pieces**: the text in front of the first occurrence is
    a prefix of what is left after the skipped characters, every key and every text behind one an infix -/
theorem segs_pieces (keys : List Str) : ∀ (s : Str) (prev : Option Char) (k : Nat),
    (segs keys prev k s).1 <+: s.drop k ∧ ∀ m ∈ (segs keys prev k s).2, m.1 <:+: s ∧ m.2 <:+: s := by
  intro s
  induction s with
  | nil => intro prev k; simp [segs]
  | cons c r ih =>
    intro prev k
    cases k with
    | succ k =>
      simp only [segs, List.drop_succ_cons]
      obtain ⟨h1, h2⟩ := ih (some c) k
      exact ⟨h1, fun m hm => ⟨(h2 m hm).1.trans (List.suffix_cons c r).isInfix,
        (h2 m hm).2.trans (List.suffix_cons c r).isInfix⟩⟩
    | zero =>
      simp only [segs, List.drop_zero]
      split
      · next key hk =>
        obtain ⟨h1, h2⟩ := ih (some c) (key.length - 1)
        refine ⟨List.nil_prefix, ?_⟩
        intro m hm
        rcases List.mem_cons.1 hm with rfl | hm
        · exact ⟨(abbrAt_prefix hk).isInfix,
            (h1.isInfix.trans (List.drop_suffix _ _).isInfix).trans (List.suffix_cons c r).isInfix⟩
        · exact ⟨(h2 m hm).1.trans (List.suffix_cons c r).isInfix, (h2 m hm).2.trans (List.suffix_cons c r).isInfix⟩
      · obtain ⟨h1, h2⟩ := ih (some c) 0
        refine ⟨?_, fun m hm => ⟨(h2 m hm).1.trans (List.suffix_cons c r).isInfix,
          (h2 m hm).2.trans (List.suffix_cons c r).isInfix⟩⟩
        rw [List.drop_zero] at h1
        exact (List.prefix_cons_inj c).2 h1

theorem mkAbbr_NB {abbrs : List (Str × Str)} (ha : ∀ kv ∈ abbrs, NB kv.2) {m : Str × Str} (h1 : NB m.1) (h2 : NB m.2) :
    (mkAbbr abbrs m).Forall NodeNB := by
  unfold mkAbbr
  simp only [Node.Forall, Node.ForallL, and_true]
  refine ⟨h1, h2, ?_⟩
  intro kv hkv
  simp only [List.mem_cons, List.not_mem_nil, or_false] at hkv
  subst hkv
  show NB (((abbrs.find? (fun kv => kv.1 = m.1)).map (·.2)).getD [])
  cases hf : abbrs.find? (fun kv => kv.1 = m.1) with
  | none => exact nb_nil
  | some kv => exact ha kv (List.mem_of_find?_eq_some hf)

theorem forallL_append {P : Node → Prop} {a b : List Node} (ha : Node.ForallL P a) (hb : Node.ForallL P b) :
    Node.ForallL P (a ++ b) := by
  induction a with
  | nil => exact hb
  | cons c r ih =>
    unfold Node.ForallL at ha
    show Node.ForallL P (c :: (r ++ b))
    unfold Node.ForallL
    exact ⟨ha.1, ih ha.2⟩

theorem forallL_of_mem {P : Node → Prop} {l : List Node} (h : ∀ n ∈ l, n.Forall P) : Node.ForallL P l := by
  induction l with
  | nil => trivial
  | cons c r ih =>
    unfold Node.ForallL
    exact ⟨h c List.mem_cons_self, ih (fun n hn => h n (List.mem_cons_of_mem _ hn))⟩

/-- the pieces of a string without bad tokens, as `abbr` elements -/
theorem segs_abbrs_NB {abbrs : List (Str × Str)} (ha : ∀ kv ∈ abbrs, NB kv.2) (keys : List Str) {s : Str} (hs : NB s) :
    NB (segs keys none 0 s).1 ∧ Node.ForallL NodeNB ((segs keys none 0 s).2.map (mkAbbr abbrs)) := by
  obtain ⟨h1, h2⟩ := segs_pieces keys s none 0
  refine ⟨hs.infix h1.isInfix, forallL_of_mem ?_⟩
  intro n hn
  obtain ⟨m, hm, rfl⟩ := List.mem_map.1 hn
  exact mkAbbr_NB ha (hs.infix (h2 m hm).1) (hs.infix (h2 m hm).2)

/-- what `iter_element` makes of a text or tail -/
def piece (abbrs : List (Str × Str)) (keys : List Str) (c : Bool) (s : Option Str) (a : Bool) :
    (Option Str × Bool) × List Node :=
  if c then
    if (segs keys none 0 (s.getD [])).2.isEmpty then ((s, a), [])
    else ((some (segs keys none 0 (s.getD [])).1, false), (segs keys none 0 (s.getD [])).2.map (mkAbbr abbrs))
  else ((s, a), [])

theorem abbrNode_eq (abbrs : List (Str × Str)) (keys : List Str) (isRoot : Bool) (tag : Tag) (attrs : List (Str × Str))
    (text : Option Str) (ta : Bool) (children : List Node) (tail : Option Str) (tla : Bool) :
    abbrNode abbrs keys isRoot ⟨tag, attrs, text, ta, children, tail, tla⟩ =
      (⟨tag, attrs, (piece abbrs keys (Node.truthy text && !ta) text ta).1.1,
        (piece abbrs keys (Node.truthy text && !ta) text ta).1.2,
        (piece abbrs keys (Node.truthy text && !ta) text ta).2 ++ abbrKids abbrs keys children,
        (piece abbrs keys (!isRoot && Node.truthy tail && !tla) tail tla).1.1,
        (piece abbrs keys (!isRoot && Node.truthy tail && !tla) tail tla).1.2⟩,
       (piece abbrs keys (!isRoot && Node.truthy tail && !tla) tail tla).2) := by
  simp only [abbrNode, piece]

theorem piece_NB {abbrs : List (Str × Str)} (ha : ∀ kv ∈ abbrs, NB kv.2) (keys : List Str) (c : Bool) {s : Option Str}
    (a : Bool) (hs : NB (s.getD [])) :
    NB ((piece abbrs keys c s a).1.1.getD []) ∧ Node.ForallL NodeNB (piece abbrs keys c s a).2 := by
  have hp := segs_abbrs_NB ha keys hs
  unfold piece
  split
  · split
    · exact ⟨hs, trivial⟩
    · exact ⟨hp.1, hp.2⟩
  · exact ⟨hs, trivial⟩

mutual
theorem abbrNode_NB {abbrs : List (Str × Str)} (ha : ∀ kv ∈ abbrs, NB kv.2) (keys : List Str) (isRoot : Bool) :
    (n : Node) → n.Forall NodeNB →
      (abbrNode abbrs keys isRoot n).1.Forall NodeNB ∧ Node.ForallL NodeNB (abbrNode abbrs keys isRoot n).2
  | ⟨tag, attrs, text, ta, children, tail, tla⟩, h => by
    unfold Node.Forall at h
    obtain ⟨⟨h1, h2, h3⟩, hk⟩ := h
    have hkids := abbrKids_NB ha keys children hk
    simp only at h1 h2 h3
    have htx := piece_NB ha keys (Node.truthy text && !ta) ta h1
    have htl := piece_NB ha keys (!isRoot && Node.truthy tail && !tla) tla h2
    rw [abbrNode_eq]
    refine ⟨?_, htl.2⟩
    show Node.Forall NodeNB ⟨tag, attrs, _, _, _, _, _⟩
    unfold Node.Forall
    exact ⟨⟨htx.1, htl.1, h3⟩, forallL_append htx.2 hkids⟩
theorem abbrKids_NB {abbrs : List (Str × Str)} (ha : ∀ kv ∈ abbrs, NB kv.2) (keys : List Str) :
    (l : List Node) → Node.ForallL NodeNB l → Node.ForallL NodeNB (abbrKids abbrs keys l)
  | [], _ => by simp only [abbrKids]; trivial
  | c :: r, h => by
    unfold Node.ForallL at h
    have hc := abbrNode_NB ha keys false c h.1
    have hr := abbrKids_NB ha keys r h.2
    simp only [abbrKids]
    show Node.ForallL NodeNB ((abbrNode abbrs keys false c).1 :: ((abbrNode abbrs keys false c).2 ++ abbrKids abbrs keys r))
    unfold Node.ForallL
    exact ⟨hc.1, forallL_append hc.2 hr⟩
end

/-- **`AbbrTreeprocessor.run` writes no bad token** -/
theorem abbrRun_NB {abbrs : List (Str × Str)} (ha : ∀ kv ∈ abbrs, NB kv.2) {t : Node} (h : t.Forall NodeNB) :
    (AbbrTree.run abbrs t).Forall NodeNB := by
  unfold AbbrTree.run
  split
  · exact h
  · exact (abbrNode_NB ha _ true t h).1

/-- … and keeps tag and attributes of the root -/
theorem abbrRun_shell (abbrs : List (Str × Str)) (t : Node) : C02BigSh.SameShell t (AbbrTree.run abbrs t) := by
  unfold AbbrTree.run
  split
  · exact C02BigSh.SameShell.refl _
  · obtain ⟨tag, attrs, text, ta, children, tail, tla⟩ := t
    rw [abbrNode_eq]
    exact ⟨rfl, rfl⟩

end MdVerif.C02BigNB

namespace MdVerif.C02BigX
open Py Pipeline PipelineX NoCtl C02BigSh C02BigNB

/-- the tree processors behind the inline stage when footnotes, attr_list and toc are off (abbr on or off) -/
theorem lateStageX_abbr {x : Exts} (hfn : x.footnotes = false) (hal : x.attrList = false) (htoc : x.toc = false)
    (cfg : Cfg) (log : Block.Refs) (t : Node) (xs : InlineX.XSt) :
    lateStageX x cfg log t xs =
      match TreeProc.unescapeTree (if x.abbr then AbbrTree.run (BlockExt.abbrsOf log) (TreeProc.prettify t cfg.blockLevel)
          else TreeProc.prettify t cfg.blockLevel) with
      | none => .err
      | some u => .ok u xs.st.html := by
  simp only [lateStageX, midStageX, tocStageX, hfn, hal, htoc, Bool.false_eq_true, if_false]
  cases TreeProc.unescapeTree (if x.abbr then AbbrTree.run (BlockExt.abbrsOf log) (TreeProc.prettify t cfg.blockLevel)
    else TreeProc.prettify t cfg.blockLevel) <;> rfl

/-- the titles of the abbreviations have no STX -/
theorem abbrsOf_NB {log : Block.Refs} (hlog : BlkX.LogC Blk.okc (Blk.AllC Blk.okc) log) :
    ∀ kv ∈ BlockExt.abbrsOf log, NB kv.2 := by
  intro kv hkv
  exact nb_of_noSTX (allC_okc (BlkX.abbrsOf_c hlog kv hkv).2).1

/-- behind the inline stage: no `err` from a tree with the STX-token invariant and a log without STX -/
theorem lateStageX_ne_err {x : Exts} (hfn : x.footnotes = false) (hal : x.attrList = false) (htoc : x.toc = false)
    (cfg : Cfg) {log : Block.Refs} (hlog : BlkX.LogC Blk.okc (Blk.AllC Blk.okc) log) {t : Node}
    (hS : t.Forall TokFull.NodeS) (xs : InlineX.XSt) : lateStageX x cfg log t xs ≠ .err := by
  rw [lateStageX_abbr hfn hal htoc]
  have hp : (TreeProc.prettify t cfg.blockLevel).Forall NodeNB := forallNB_of_S (TokFull.prettify_S hS cfg.blockLevel)
  have hu : TreeProc.unescapeTree (if x.abbr then AbbrTree.run (BlockExt.abbrsOf log)
      (TreeProc.prettify t cfg.blockLevel) else TreeProc.prettify t cfg.blockLevel) ≠ none := by
    apply unescapeTree_NB
    split
    · exact abbrRun_NB (abbrsOf_NB hlog) hp
    · exact hp
  cases hun : TreeProc.unescapeTree (if x.abbr then AbbrTree.run (BlockExt.abbrsOf log)
      (TreeProc.prettify t cfg.blockLevel) else TreeProc.prettify t cfg.blockLevel) with
  | none => exact absurd hun hu
  | some u => intro h; cases h

/-- … and the root stays the bare `div` -/
theorem lateStageX_shell {x : Exts} (hfn : x.footnotes = false) (hal : x.attrList = false) (htoc : x.toc = false)
    (cfg : Cfg) (log : Block.Refs) {t : Node} (ht : Shell t) (xs : InlineX.XSt) {u : Node} {html : List Str}
    (h : lateStageX x cfg log t xs = .ok u html) : Shell u := by
  rw [lateStageX_abbr hfn hal htoc] at h
  have hp : Shell (TreeProc.prettify t cfg.blockLevel) := shell_of_same (prettify_shell t cfg.blockLevel) ht
  have hq : Shell (if x.abbr then AbbrTree.run (BlockExt.abbrsOf log) (TreeProc.prettify t cfg.blockLevel)
      else TreeProc.prettify t cfg.blockLevel) := by
    split
    · exact shell_of_same (abbrRun_shell _ _) hp
    · exact hp
  cases hun : TreeProc.unescapeTree (if x.abbr then AbbrTree.run (BlockExt.abbrsOf log)
      (TreeProc.prettify t cfg.blockLevel) else TreeProc.prettify t cfg.blockLevel) with
  | none => rw [hun] at h; cases h
  | some u' =>
    rw [hun] at h
    simp only [TreeResult.ok.injEq] at h
    obtain ⟨rfl, _⟩ := h
    exact unescapeTree_shell hun hq

/-- **the tree handed to the serializer has the bare `div` as its root** (footnotes, attr_list, toc off; abbr on or off) -/
theorem treeXBig_rootDiv' {x : Exts} (hfn : x.footnotes = false) (hal : x.attrList = false)
    (htoc : x.toc = false) {cfg : Cfg} {src : Str} {u : Node} {html : List Str}
    (h : treeXBig x cfg src = .ok u html) : C14X.rootDiv u = true := by
  unfold treeXBig at h
  cases hb : blockStageX x cfg src with
  | oof => rw [hb] at h; cases h
  | ood => rw [hb] at h; cases h
  | ok r =>
    obtain ⟨root, log, stash⟩ := r
    rw [hb] at h
    simp only at h
    have h0 := blockStageX_shell hfn hb
    cases hr : runXBig (inlineCfgX x cfg log) root stash with
    | none => rw [hr] at h; cases h
    | some ts =>
      obtain ⟨t, xs⟩ := ts
      rw [hr] at h
      simp only at h
      have h1 : Shell t := by
        unfold runXBig at hr
        exact shell_of_same (runLoopX_shell _ _ _ _ _ _ _ _ hr) h0
      obtain ⟨e1, e2⟩ := lateStageX_shell hfn hal htoc cfg log h1 xs h
      simp [C14X.rootDiv, e1, e2]

/-- **`UnescapeTreeprocessor` does not raise** (footnotes, attr_list, toc off; abbr and fenced_code on or off;
    `tab_length ≥ 1` with fenced_code) -/
theorem treeXBig_ne_err' {x : Exts} (hfn : x.footnotes = false) (hal : x.attrList = false) (htoc : x.toc = false)
    (cfg : Cfg) (src : Str) (htab : x.fencedCode = true → 0 < cfg.tab) : treeXBig x cfg src ≠ .err := by
  unfold treeXBig
  cases hb : blockStageX x cfg src with
  | oof => intro h; cases h
  | ood => intro h; cases h
  | ok r =>
    obtain ⟨root, log, stash⟩ := r
    have hblock : root.Forall TokFull.NodeS ∧ BlkX.LogC Blk.okc (Blk.AllC Blk.okc) log := by
      cases hf : x.fencedCode with
      | true => exact blockStageX_tokF hf hfn (htab hf) hb
      | false =>
        obtain ⟨hno, hlog, _⟩ := blockStageX_noctl_log hf hfn hb
        exact ⟨TokFull.forallS_of_noCtl hno, hlog⟩
    obtain ⟨hS0, hlog⟩ := hblock
    simp only
    cases hr : runXBig (inlineCfgX x cfg log) root stash with
    | none => intro h; cases h
    | some ts =>
      obtain ⟨t, xs⟩ := ts
      simp only
      have hS : t.Forall TokFull.NodeS :=
        TokFull.runLoopX_S (xok_inlineCfgX x cfg hlog) _ _ _ _ _ _ _ hr hS0 TokFull.stashS_nil
      exact lateStageX_ne_err hfn hal htoc cfg hlog hS xs

/-- **`Markdown.convert` does not raise** (footnotes, attr_list, toc off; everything else on or off) -/
theorem convertXBig_ne_err' {x : Exts} (hfn : x.footnotes = false) (hal : x.attrList = false) (htoc : x.toc = false)
    (cfg : Cfg) (src : Str) (htab : x.fencedCode = true → 0 < cfg.tab) : convertXBig x cfg src ≠ .err := by
  intro h
  rcases convertXBig_err_cases h with ht | ⟨u, html, ht, hs⟩
  · exact treeXBig_ne_err' hfn hal htoc cfg src htab ht
  · rw [C14X.topLevelStrip_div _ u (treeXBig_rootDiv' hfn hal htoc ht)] at hs
    cases hs

theorem treeXBig_ne_ood' {x : Exts} (hfn : x.footnotes = false) (hal : x.attrList = false) (htoc : x.toc = false)
    {cfg : Cfg} {src : Str} (hadm : x.admonition = true → admNonAscii (Normalize.normalize cfg.tab src) = false) :
    treeXBig x cfg src ≠ .ood := by
  unfold treeXBig
  cases hb : blockStageX x cfg src with
  | oof => intro h; cases h
  | ood =>
    exfalso
    simp only [blockStageX] at hb
    split at hb
    · cases hb
    · next hp => exact prepareX_ne_ood hal hadm hp
    · split at hb
      · cases hb
      · simp only [fnStageX, hfn, Bool.false_eq_true, if_false] at hb
        cases hb
  | ok r =>
    obtain ⟨root, log, stash⟩ := r
    simp only
    cases hr : runXBig (inlineCfgX x cfg log) root stash with
    | none => intro h; cases h
    | some ts =>
      obtain ⟨t, xs⟩ := ts
      simp only
      rw [lateStageX_abbr hfn hal htoc]
      cases TreeProc.unescapeTree (if x.abbr then AbbrTree.run (BlockExt.abbrsOf log)
        (TreeProc.prettify t cfg.blockLevel) else TreeProc.prettify t cfg.blockLevel) <;> (intro h; cases h)

theorem convertXBig_ne_ood' {x : Exts} (hfn : x.footnotes = false) (hal : x.attrList = false) (htoc : x.toc = false)
    {cfg : Cfg} {src : Str} (hlt : '<' ∉ src)
    (hadm : x.admonition = true → admNonAscii (Normalize.normalize cfg.tab src) = false) :
    convertXBig x cfg src ≠ .ood := by
  unfold convertXBig
  split
  · next hc => exact absurd (by simpa using hc) hlt
  · split
    · next hc => cases hc
    · split
      · intro h; cases h
      · cases ht : treeXBig x cfg src with
        | oof => intro h; cases h
        | err => intro h; cases h
        | ood => exact absurd ht (treeXBig_ne_ood' hfn hal htoc hadm)
        | ok u html =>
          simp only [finishX]
          split
          · intro h; cases h
          · split <;> (intro h; cases h)

/-- **C02: `convertXBig` returns a string** — footnotes, attr_list, toc off; tables, admonition, def_list, ABBR,
    sane_lists, nl2br, wikilinks, fenced_code on or off; `tab_length ≥ 1` when admonition or fenced_code is on; every
    `<`-free source of the model's domain in whose normalised text, when wikilinks is on, no `[` is immediately followed
    by a blank -/
theorem convertXBig_ok' {x : Exts} (hfn : x.footnotes = false) (hal : x.attrList = false) (htoc : x.toc = false)
    (cfg : Cfg) (src : Str) (hlt : '<' ∉ src)
    (htab : x.admonition = true ∨ x.fencedCode = true → 0 < cfg.tab)
    (hadm : x.admonition = true → admNonAscii (Normalize.normalize cfg.tab src) = false)
    (hw : x.wikilinks = true → WikiSrc cfg src) : ∃ out, convertXBig x cfg src = .ok out := by
  have h1 : convertXBig x cfg src ≠ .oof := by
    cases hf : x.fencedCode with
    | true =>
      cases hwl : x.wikilinks with
      | true => exact convertXBig_ne_oof_fenced_wiki src (hw hwl) hf (htab (.inr hf))
      | false => exact convertXBig_ne_oof_fenced src hwl hf (htab (.inr hf))
    | false =>
      cases hwl : x.wikilinks with
      | true => exact convertXBig_ne_oof_wiki src (hw hwl) hf (fun h => htab (.inl h))
      | false => exact convertXBig_ne_oof_nowiki src hwl hf (fun h => htab (.inl h))
  have h2 := convertXBig_ne_err' hfn hal htoc cfg src (fun h => htab (.inr h))
  have h3 := convertXBig_ne_ood' hfn hal htoc hlt hadm
  cases hc : convertXBig x cfg src with
  | ok out => exact ⟨out, rfl⟩
  | oof => exact absurd hc h1
  | err => exact absurd hc h2
  | ood => exact absurd hc h3

end MdVerif.C02BigX
