/-
Helper lemmas for `Props/C16RenderX.lean` ("renders as documented" on `PipelineX.convertX`), part 1: the inline stage
over a pattern TABLE (`InlineX.runX`) on quiet text and on quiet trees.

* `QuietX s`: no character any core pattern, the footnote pattern or the wikilink pattern could start a match with,
  no hard break; `quietStr nl s`: the same as a Boolean, with "no line feed" when the `nl` pattern (nl2br) is in the
  table, and no inline placeholder prefix;
* `handleInlineTopX_quiet`: the pattern loop leaves such text alone;
* `visitChildX_quiet`, `visitLoopX_quiet`, `runLoopX_quiet`: the child loop and the stack loop on elements all of
  whose descendants are quiet come back with the tree unchanged (port of `CodeLaw.runLoop_calm` to the table engine,
  with a per-path hypothesis so that the root may contain non-quiet elements that are not on the stack).

Core Lean only.
-/
import MdVerif.Model.PipelineX
import MdVerif.Lemmas.PipelineX
import MdVerif.Lemmas.CodePipe
import MdVerif.Lemmas.InlineEsc

namespace MdVerif.RenderX
open Py Inline InlineX

/-! ### quiet text -/

/-- no backtick, no backslash, none of `[ ! & * _`, no hard break -/
def QuietX (s : Str) : Prop :=
  '`' ∉ s ∧ '\\' ∉ s ∧ Escape.Inert s ∧ find [' ', ' ', '\n'] s = none

theorem QuietX.noTickBs {s : Str} (h : QuietX s) : CodeLaw.noTickBs s :=
  fun c hc => ⟨fun e => h.1 (e ▸ hc), fun e => h.2.1 (e ▸ hc)⟩

theorem QuietX.noBracket {s : Str} (h : QuietX s) : '[' ∉ s := fun hm => (h.2.2.1 _ hm).1 rfl

/-- on quiet text none of the sixteen core patterns matches (line feeds allowed) -/
theorem findMatch_quietX (cfg : Inline.Cfg) (pi : Nat) (data : Str) (st : St) (h : QuietX data) :
    findMatch cfg pi data 0 st = some (none, st) := by
  obtain ⟨h1, h2, hD, hbr⟩ := h
  have hs : '*' ∉ data := fun h => (hD _ h).2.2.2.1 rfl
  have hu : '_' ∉ data := fun h => (hD _ h).2.2.2.2 rfl
  unfold findMatch
  simp only [show ¬ (0 > data.length) by omega, if_false, List.drop_zero]
  split
  · simp [btFind, CodeLaw.btScan_plain data (QuietX.noTickBs ⟨h1, h2, hD, hbr⟩)]
  · simp [Escape.escScan_noBs data h2]
  · simp [hbr]
  · simp [entityFind, Escape.entityScan_inert data hD]
  · simp [nsFind, Escape.nsScan_inert data hD]
  · simp [Escape.emScan_none data _ data hs]
  · simp [Escape.emScan_none data _ data hu]
  · rfl
  · rfl
  · rfl
  · simp [Escape.linkScan_inert cfg st.stash pi data data hD]

theorem fnRefAt_none_of_head {s : Str} (h : s.head? ≠ some '[') : fnRefAt s = none := by
  unfold fnRefAt
  split
  · simp at h
  · rfl

theorem fnRefScan_none (keys : List Str) (s : Str) (h : '[' ∉ s) : ∀ (k i : Nat), fnRefScan keys k s i = none := by
  induction s with
  | nil => intro k i; cases k <;> rfl
  | cons c r ih =>
    intro k i
    have hr : '[' ∉ r := fun hm => h (List.mem_cons_of_mem _ hm)
    cases k with
    | succ k => simp only [fnRefScan]; exact ih hr _ _
    | zero =>
      have hc : (c :: r).head? ≠ some '[' := by
        simp only [List.head?_cons, ne_eq, Option.some.injEq]
        intro e; exact h (e ▸ List.mem_cons_self)
      simp only [fnRefScan, fnRefAt_none_of_head hc]
      exact ih hr _ _

theorem wikiAt_none_of_head {s : Str} (h : s.head? ≠ some '[') : wikiAt s = none := by
  unfold wikiAt
  split
  · simp at h
  · rfl

theorem wikiScan_none (s : Str) (h : '[' ∉ s) : ∀ (i : Nat), wikiScan s i = none := by
  induction s with
  | nil => intro i; rfl
  | cons c r ih =>
    intro i
    have hr : '[' ∉ r := fun hm => h (List.mem_cons_of_mem _ hm)
    have hc : (c :: r).head? ≠ some '[' := by
      simp only [List.head?_cons, ne_eq, Option.some.injEq]
      intro e; exact h (e ▸ List.mem_cons_self)
    simp only [wikiScan, wikiAt_none_of_head hc]
    exact ih hr _

/-- no entry of the table matches quiet text (without line feed when the `nl` pattern is in the table) -/
theorem findX_quiet (xc : XCfg) (k : PatK) (data : Str) (x : XSt) (h : QuietX data)
    (hnl : k = PatK.nl → '\n' ∉ data) : findX xc k data 0 x = some (none, x) := by
  cases k with
  | core i => simp only [findX, findMatch_quietX xc.cfg i data x.st h]
  | footnote =>
    simp only [findX, show ¬ (0 > data.length) by omega, if_false, List.drop_zero,
      fnRefScan_none xc.fnKeys data h.noBracket]
  | wikilink =>
    simp only [findX, show ¬ (0 > data.length) by omega, if_false, List.drop_zero, wikiScan_none data h.noBracket]
  | nl =>
    simp only [findX, show ¬ (0 > data.length) by omega, if_false, List.drop_zero,
      Escape.find_none_of_head (hnl rfl)]

theorem applyPatternX_quiet (xc : XCfg) (hi : HIX) (pi : Nat) (data : Str) (x : XSt) (h : QuietX data)
    (hnl : PatK.nl ∈ xc.table → '\n' ∉ data) :
    applyPatternX xc hi pi data 0 x = some (data, false, 0, x) := by
  unfold applyPatternX
  cases hk : xc.table[pi]? with
  | none => rfl
  | some k =>
    simp only []
    rw [findX_quiet xc k data x h (fun e => hnl (e ▸ List.mem_of_getElem? hk))]

theorem hiLoopX_quiet (count : Nat) (ap : Nat → Str → Nat → XSt → Option (Str × Bool × Nat × XSt)) (data : Str)
    (x : XSt) (hq : ∀ pi, ap pi data 0 x = some (data, false, 0, x)) :
    ∀ (n pi g : Nat), pi + n = count → n + 1 ≤ g → hiLoopX count ap g data pi 0 x = some (data, x) := by
  intro n
  induction n with
  | zero =>
    intro pi g hpi hg
    obtain ⟨g', rfl⟩ : ∃ g', g = g' + 1 := ⟨g - 1, by omega⟩
    have : ¬ pi < count := by omega
    simp [hiLoopX, this]
  | succ n ih =>
    intro pi g hpi hg
    obtain ⟨g', rfl⟩ : ∃ g', g = g' + 1 := ⟨g - 1, by omega⟩
    have : pi < count := by omega
    simp only [hiLoopX, this, if_true, hq, Bool.false_eq_true, if_false]
    exact ih (pi + 1) g' (by omega) (by omega)

theorem loopFuelX_ge (count n : Nat) : count * 4 ≤ loopFuelX count n := by
  unfold loopFuelX
  rw [Nat.mul_assoc]
  apply Nat.mul_le_mul_left
  have : 2 ≤ n + 2 := by omega
  calc 4 = 2 * 2 := rfl
    _ ≤ (n + 2) * (n + 2) := Nat.mul_le_mul this this

/-- `__handleInline` from any pattern index on quiet text -/
theorem handleInlineX_quiet (xc : XCfg) (f : Nat) (data : Str) (pi : Nat) (x : XSt) (h : QuietX data)
    (hnl : PatK.nl ∈ xc.table → '\n' ∉ data) (hpi : pi ≤ xc.table.length) (hc : 1 ≤ xc.table.length) :
    handleInlineX xc (f + 1) data pi x = some (data, x) := by
  unfold handleInlineX
  have := loopFuelX_ge xc.table.length data.length
  exact hiLoopX_quiet _ _ _ _ (fun p => applyPatternX_quiet xc _ p data x h hnl) (xc.table.length - pi) pi _
    (by omega) (by omega)

theorem handleInlineTopX_quiet (xc : XCfg) (data : Str) (x : XSt) (h : QuietX data)
    (hnl : PatK.nl ∈ xc.table → '\n' ∉ data) (hc : 1 ≤ xc.table.length) :
    handleInlineTopX xc data x = some (data, x) := by
  unfold handleInlineTopX
  rw [show data.length + xc.table.length + 4 = (data.length + xc.table.length + 3) + 1 from rfl]
  exact handleInlineX_quiet xc _ data 0 x h hnl (by omega) hc

/-! ### the table -/

theorem table_length (fn wl nl : Bool) : 16 ≤ (InlineX.table fn wl nl).length := by
  cases fn <;> cases wl <;> cases nl <;> decide

theorem nl_mem_table (fn wl nl : Bool) (h : PatK.nl ∈ InlineX.table fn wl nl) : nl = true := by
  cases fn <;> cases wl <;> cases nl <;> first | rfl | (revert h; decide)

/-! ### `__processPlaceholders` on text without placeholder prefix -/

theorem ppTop_noPh (st : St) (data : Str) (parent : Node) (hne : data ≠ []) (hs : find phPrefix data = none)
    (hp1 : parent.text = none) (hp2 : parent.textAtomic = false) :
    ppTop st data false parent true = some ([], { parent with text := some data }) := by
  obtain ⟨c, r, rfl⟩ : ∃ c r, data = c :: r := by cases data <;> simp_all
  unfold ppTop
  rw [show st.stash.length + 2 = (st.stash.length + 1) + 1 from rfl]
  unfold processPlaceholders
  simp only [List.isEmpty_cons, Bool.false_eq_true, if_false, List.length_cons]
  rw [show r.length + 1 + 2 = (r.length + 2) + 1 from rfl]
  unfold ppLoop
  simp only [List.drop_zero, hs]
  cases parent
  simp_all [linkText, Node.truthy]

/-! ### quiet elements -/

def quietCh (c : Char) : Bool :=
  c != '`' && c != '\\' && c != '[' && c != '!' && c != '&' && c != '*' && c != '_'

/-- Boolean form: quiet characters, no hard break, no line feed when `nl`, no inline placeholder prefix -/
def quietStr (nl : Bool) (s : Str) : Bool :=
  s.all quietCh && (find [' ', ' ', '\n'] s).isNone && (!nl || !s.contains '\n') && (find phPrefix s).isNone

theorem quietStr_facts {nl : Bool} {s : Str} (h : quietStr nl s = true) :
    QuietX s ∧ (nl = true → '\n' ∉ s) ∧ find phPrefix s = none := by
  simp only [quietStr, Bool.and_eq_true, List.all_eq_true, Option.isNone_iff_eq_none, Bool.or_eq_true,
    Bool.not_eq_true'] at h
  obtain ⟨⟨⟨h1, h2⟩, h3⟩, h4⟩ := h
  have hq : ∀ c ∈ s, c ≠ '`' ∧ c ≠ '\\' ∧ c ≠ '[' ∧ c ≠ '!' ∧ c ≠ '&' ∧ c ≠ '*' ∧ c ≠ '_' := by
    intro c hc
    have := h1 c hc
    simp only [quietCh, Bool.and_eq_true, bne_iff_ne, ne_eq] at this
    obtain ⟨⟨⟨⟨⟨⟨a, b⟩, c'⟩, d⟩, e⟩, f⟩, g⟩ := this
    exact ⟨a, b, c', d, e, f, g⟩
  refine ⟨⟨fun hm => (hq _ hm).1 rfl, fun hm => (hq _ hm).2.1 rfl, ?_, h2⟩, ?_, h4⟩
  · intro c hc
    have := hq c hc
    exact ⟨this.2.2.1, this.2.2.2.1, this.2.2.2.2.1, this.2.2.2.2.2.1, this.2.2.2.2.2.2⟩
  · intro hn hm
    rcases h3 with h3 | h3
    · rw [hn] at h3; cases h3
    · have : s.contains '\n' = true := List.contains_iff_mem.2 hm
      rw [this] at h3; cases h3

/-- nothing for the inline processor to do on this element itself: text absent / atomic / quiet, no tail -/
def quietNode (nl : Bool) (n : Node) : Bool :=
  (match n.text with | none => true | some s => n.textAtomic || quietStr nl s) && !Node.truthy n.tail

mutual
/-- every element of the subtree is quiet -/
def quietTree (nl : Bool) : Node → Bool
  | ⟨_, _, text, ta, children, tail, _⟩ =>
    (match text with | none => true | some s => ta || quietStr nl s) && !Node.truthy tail && quietKids nl children
def quietKids (nl : Bool) : List Node → Bool
  | [] => true
  | c :: r => quietTree nl c && quietKids nl r
end

theorem quietTree_spec (nl : Bool) (n : Node) (h : quietTree nl n = true) :
    quietNode nl n = true ∧ quietKids nl n.children = true := by
  cases n
  simp only [quietTree, Bool.and_eq_true] at h
  simp only [quietNode, Bool.and_eq_true]
  exact ⟨⟨h.1.1, h.1.2⟩, h.2⟩

theorem quietKids_mem (nl : Bool) (kids : List Node) (h : quietKids nl kids = true) :
    ∀ c ∈ kids, quietTree nl c = true := by
  induction kids with
  | nil => simp
  | cons c r ih =>
    simp only [quietKids, Bool.and_eq_true] at h
    intro d hd
    rcases List.mem_cons.1 hd with rfl | hd
    · exact h.1
    · exact ih h.2 d hd

theorem visitChildX_quiet (xc : XCfg) (nl : Bool) (hnl : PatK.nl ∈ xc.table → nl = true) (hc : 1 ≤ xc.table.length)
    (child : Node) (v : VisitX) (h : quietNode nl child = true) :
    visitChildX xc child v =
      some (child, [], { v with pushes := if child.children.isEmpty then v.pushes else [v.done.length] :: v.pushes }) := by
  obtain ⟨tag, attrs, text, ta, children, tail, tla⟩ := child
  simp only [quietNode, Bool.and_eq_true, Bool.not_eq_true'] at h
  obtain ⟨h1, h2⟩ := h
  have t0 : Node.truthy none = false := rfl
  have tn : Node.truthy (some []) = false := rfl
  have htl : tail = none ∨ tail = some [] := by
    cases tail with
    | none => exact Or.inl rfl
    | some s =>
      cases s with
      | nil => exact Or.inr rfl
      | cons a b => simp [Node.truthy] at h2
  unfold visitChildX
  cases text with
  | none => rcases htl with rfl | rfl <;> simp [t0, tn]
  | some s =>
    by_cases hne : s = []
    · subst hne; rcases htl with rfl | rfl <;> simp [t0, tn]
    · cases ta with
      | true => rcases htl with rfl | rfl <;> simp [t0, tn]
      | false =>
        simp only [Bool.false_or] at h1
        obtain ⟨hq, hn, hp⟩ := quietStr_facts h1
        have g1 := handleInlineTopX_quiet xc s v.x hq (fun hm => hn (hnl hm)) hc
        have g2 := ppTop_noPh v.x.st s ⟨tag, attrs, none, false, children, tail, tla⟩ hne hp rfl rfl
        rcases htl with rfl | rfl <;> simp [(CodeLaw.truthy_some_iff s).2 hne, g1, g2, t0, tn]

/-! the child loop on quiet children -/

def vlStepX (c : Node) (i : Nat) (v : VisitX) : VisitX :=
  { v with done := c :: v.done, posmap := (i, i) :: v.posmap,
           pushes := if c.children.isEmpty then v.pushes else [i] :: v.pushes }

def vlX : List Node → Nat → VisitX → VisitX
  | [], _, v => v
  | c :: r, i, v => vlX r (i + 1) (vlStepX c i v)

theorem visitLoopX_quiet (xc : XCfg) (nl : Bool) (hnl : PatK.nl ∈ xc.table → nl = true) (hc : 1 ≤ xc.table.length)
    (kids : List Node) :
    ∀ (i : Nat) (v : VisitX) (g : Nat), (∀ c ∈ kids, quietNode nl c = true) → v.done.length = i → kids.length + 1 ≤ g →
      visitLoopX xc g (withIdx kids i) v = some (vlX kids i v) := by
  induction kids with
  | nil =>
    intro i v g _ _ hg
    obtain ⟨g', rfl⟩ : ∃ g', g = g' + 1 := ⟨g - 1, by simp at hg; omega⟩
    rfl
  | cons c r ih =>
    intro i v g hq hv hg
    obtain ⟨g', rfl⟩ : ∃ g', g = g' + 1 := ⟨g - 1, by simp at hg; omega⟩
    simp only [withIdx, visitLoopX, visitChildX_quiet xc nl hnl hc c v (hq c List.mem_cons_self), List.map_nil,
      List.nil_append]
    have := ih (i + 1) (vlStepX c i v) g' (fun d hd => hq d (List.mem_cons_of_mem _ hd))
      (by simp [vlStepX, hv]) (by simp at hg ⊢; omega)
    simp only [vlX]
    rw [← this]
    simp [vlStepX, hv]

theorem vlX_spec (kids : List Node) : ∀ (i : Nat) (v : VisitX),
    (vlX kids i v).done = kids.reverse ++ v.done ∧ (vlX kids i v).x = v.x ∧
    (vlX kids i v).pushes = CodeLaw.pushesRev kids i ++ v.pushes ∧
    ((∀ x ∈ v.posmap, x.1 = x.2) → ∀ x ∈ (vlX kids i v).posmap, x.1 = x.2) := by
  induction kids with
  | nil => intro i v; simp [vlX, CodeLaw.pushesRev]
  | cons c r ih =>
    intro i v
    obtain ⟨h1, h2, h3, h4⟩ := ih (i + 1) (vlStepX c i v)
    refine ⟨?_, ?_, ?_, ?_⟩
    · show (vlX r (i + 1) (vlStepX c i v)).done = _
      rw [h1]; simp [vlStepX]
    · show (vlX r (i + 1) (vlStepX c i v)).x = _
      rw [h2]; rfl
    · show (vlX r (i + 1) (vlStepX c i v)).pushes = _
      rw [h3]
      simp only [CodeLaw.pushesRev, vlStepX]
      split <;> simp
    · intro hv
      show ∀ x ∈ (vlX r (i + 1) (vlStepX c i v)).posmap, x.1 = x.2
      apply h4
      intro x hx
      simp only [vlStepX, List.mem_cons] at hx
      rcases hx with rfl | hx
      · rfl
      · exact hv x hx

theorem mem_pushesRev (kids : List Node) : ∀ (k : Nat) (rel : Path), rel ∈ CodeLaw.pushesRev kids k → ∃ i, rel = [i] := by
  induction kids with
  | nil => intro k rel h; simp [CodeLaw.pushesRev] at h
  | cons d r ih =>
    intro k rel h
    simp only [CodeLaw.pushesRev, List.mem_append] at h
    rcases h with h | h
    · exact ih _ _ h
    · split at h
      · simp at h
      · exact ⟨k, by simpa using h⟩

/-- what the stack loop needs of a stacked path: it leads to an element all of whose descendants are quiet, small
    enough for the fuel of the child loop -/
def PathOK (nl : Bool) (g2 : Nat) (root : Node) (q : Path) : Prop :=
  ∀ cur, getAt root q = some cur → quietKids nl cur.children = true ∧ Inline.size cur + 1 ≤ g2

/-- the stack loop when every stacked path leads to an element whose descendants are all quiet: the tree comes back
    unchanged (other parts of the root may be anything) -/
theorem runLoopX_quiet (xc : XCfg) (nl : Bool) (hnl : PatK.nl ∈ xc.table → nl = true) (hc : 1 ≤ xc.table.length)
    (g2 : Nat) (root : Node) (x : XSt) :
    ∀ (g : Nat) (stack : List Path), (∀ q ∈ stack, PathOK nl g2 root q) → CodeLaw.mStack root stack + 1 ≤ g →
      runLoopX xc g2 g root stack x = some (root, x) := by
  intro g
  induction g with
  | zero => intro stack _ h; omega
  | succ g ih =>
    intro stack hok h
    cases stack with
    | nil => rfl
    | cons p stack =>
      rw [CodeLaw.mStack_cons] at h
      have hok' : ∀ q ∈ stack, PathOK nl g2 root q := fun q hq => hok q (List.mem_cons_of_mem _ hq)
      cases hcur : getAt root p with
      | none =>
        simp only [runLoopX, hcur]
        apply ih _ hok'
        simp only [CodeLaw.wPath, hcur] at h
        omega
      | some cur =>
        obtain ⟨hkids, hsz⟩ := hok p List.mem_cons_self cur hcur
        have hlen : cur.children.length + 1 ≤ g2 := by
          have h2 := CodeLaw.length_le_sizeList cur.children
          have h3 := CodeLaw.sizeList_le_size cur
          omega
        have hvl := visitLoopX_quiet xc nl hnl hc cur.children 0 { x := x } g2
          (fun c hc => (quietTree_spec nl c (quietKids_mem nl _ hkids c hc)).1) rfl hlen
        obtain ⟨v1, v2, v3, v4⟩ := vlX_spec cur.children 0 { x := x }
        simp only [runLoopX, hcur, hvl, v1, v2, List.append_nil, List.reverse_reverse]
        have hroot : setAt root p cur = root := CodeLaw.setAt_getAt root p cur hcur
        have e : (⟨cur.tag, cur.attrs, cur.text, cur.textAtomic, cur.children, cur.tail, cur.tailAtomic⟩ : Node) = cur := by
          cases cur; rfl
        rw [e]
        rw [hroot, v3]
        have hmap : stack.map (remap p (vlX cur.children 0 { x := x }).posmap) = stack := by
          have hid := v4 (by simp)
          rw [show remap p (vlX cur.children 0 { x := x }).posmap = id from funext (CodeLaw.remap_id p _ hid)]
          simp
        rw [hmap]
        apply ih
        · intro q hq
          simp only [List.append_nil, List.mem_append, List.mem_map] at hq
          rcases hq with ⟨rel, hrel, rfl⟩ | hq
          · -- a pushed path `p ++ [i]` leads to a child of `cur`
            intro c hcq
            have : ∃ i, rel = [i] := mem_pushesRev _ _ _ hrel
            obtain ⟨i, rfl⟩ := this
            rw [CodeLaw.getAt_append root p cur i hcur] at hcq
            have hmem := List.mem_of_getElem? hcq
            have hq1 := (quietTree_spec nl c (quietKids_mem nl _ hkids c hmem)).2
            have hs1 := CodeLaw.size_mem_le _ c hmem
            have hs2 := CodeLaw.sizeList_le_size cur
            exact ⟨hq1, by omega⟩
          · exact hok' q hq
        · simp only [List.append_nil, CodeLaw.mStack_append]
          have := CodeLaw.mStack_pushes root p cur hcur cur.children 0 (fun j c hj => by simpa using hj)
          simp only [CodeLaw.wPath, hcur, CodeLaw.below_eq cur] at h
          omega

/-! ### the stack loop from the root -/

/-- `InlineProcessor.run` when the visit of the root's children is known and everything it pushes leads to elements
    whose descendants are quiet -/
theorem runX_root (xc : XCfg) (nl : Bool) (hnl : PatK.nl ∈ xc.table → nl = true) (hc : 1 ≤ xc.table.length)
    (root : Node) (html : List Str) (v : VisitX)
    (hv : visitLoopX xc (runFuel root) (withIdx root.children 0) { x := { st := { html := html } } } = some v)
    (hok : ∀ q ∈ v.pushes, PathOK nl (runFuel root) { root with children := v.done.reverse } q)
    (hm : CodeLaw.mStack { root with children := v.done.reverse } v.pushes + 2 ≤ runFuel root) :
    runX xc root html = some ({ root with children := v.done.reverse }, v.x) := by
  obtain ⟨g, hg⟩ : ∃ g, runFuel root = g + 1 := ⟨runFuel root - 1, by simp [runFuel]⟩
  unfold runX
  simp only []
  rw [show runLoopX xc (runFuel root) (runFuel root) root [[]] { st := { html := html } } =
      runLoopX xc (runFuel root) (g + 1) root [[]] { st := { html := html } } by rw [hg]]
  simp only [runLoopX, getAt, hv, setAt, List.map_nil, List.append_nil]
  have hmap : v.pushes.map (fun x => ([] : Path) ++ x) = v.pushes := by simp
  rw [hmap]
  exact runLoopX_quiet xc nl hnl hc (runFuel root) _ v.x g v.pushes hok (by omega)

/-- the pattern loop skips the patterns that find nothing -/
theorem hiLoopX_skip (count : Nat) (ap : Nat → Str → Nat → XSt → Option (Str × Bool × Nat × XSt)) (data : Str)
    (x : XSt) (m : Nat) (hm : m ≤ count) (hq : ∀ pi, pi < m → ap pi data 0 x = some (data, false, 0, x)) :
    ∀ (n pi g : Nat), pi + n = m →
      hiLoopX count ap (g + n) data pi 0 x = hiLoopX count ap g data m 0 x := by
  intro n
  induction n with
  | zero => intro pi g hpi; simp at hpi; subst hpi; rfl
  | succ n ih =>
    intro pi g hpi
    have h1 : pi < count := by omega
    rw [show g + (n + 1) = (g + n) + 1 by omega]
    simp only [hiLoopX, h1, if_true, hq pi (by omega), Bool.false_eq_true, if_false]
    exact ih (pi + 1) g (by omega)

theorem loopFuelX_ge2 (count n : Nat) (hc : 1 ≤ count) : count + n + 3 ≤ loopFuelX count n := by
  unfold loopFuelX
  have h1 : n + 4 ≤ (n + 2) * (n + 2) := by
    have : (n + 2) * (n + 2) = n * n + 4 * n + 4 := by
      simp only [Nat.add_mul, Nat.mul_add]; omega
    omega
  have h2 : count * (n + 4) ≤ count * ((n + 2) * (n + 2)) := Nat.mul_le_mul_left _ h1
  rw [Nat.mul_assoc]
  have h3 : count * (n + 4) = count * n + count * 4 := Nat.mul_add _ _ _
  have h4 : n ≤ count * n := Nat.le_mul_of_pos_left _ hc
  omega

/-- **the inline stage on a quiet tree**: when every element below the root is quiet (text absent, atomic or quiet
    for the table; no tail), `InlineProcessor.run` over any pattern table gives the tree back unchanged and stashes
    nothing (port of `CodeLaw.run_calm`) -/
theorem runX_quiet (xc : XCfg) (nl : Bool) (hnl : PatK.nl ∈ xc.table → nl = true) (hc : 1 ≤ xc.table.length)
    (root : Node) (html : List Str) (h : quietKids nl root.children = true) :
    runX xc root html = some (root, { st := { html := html } }) := by
  have hlen : root.children.length + 1 ≤ runFuel root := by
    have h2 := CodeLaw.length_le_sizeList root.children
    have h3 := CodeLaw.sizeList_le_size root
    simp only [runFuel]; omega
  have hvl := visitLoopX_quiet xc nl hnl hc root.children 0 { x := { st := { html := html } } } (runFuel root)
    (fun c hc => (quietTree_spec nl c (quietKids_mem nl _ h c hc)).1) rfl hlen
  obtain ⟨v1, v2, v3, _⟩ := vlX_spec root.children 0 { x := { st := { html := html } } }
  have hroot : ({ root with children := (vlX root.children 0 { x := { st := { html := html } } }).done.reverse } : Node) = root := by
    rw [v1]; cases root; simp
  have hrun := runX_root xc nl hnl hc root html _ hvl
    (by
      rw [hroot, v3]
      intro q hq cur hcur
      simp only [List.append_nil] at hq
      obtain ⟨i, rfl⟩ := mem_pushesRev _ _ _ hq
      have hc' : root.children[i]? = some cur := by
        simpa [getAt] using (by
          cases hci : root.children[i]? with
          | none => simp [getAt, hci] at hcur
          | some c => simp [getAt, hci] at hcur; rw [hcur])
      have hmem := List.mem_of_getElem? hc'
      have hq1 := (quietTree_spec nl cur (quietKids_mem nl _ h cur hmem)).2
      have hs1 := CodeLaw.size_mem_le _ cur hmem
      have hs2 := CodeLaw.sizeList_le_size root
      refine ⟨hq1, ?_⟩
      simp only [runFuel]; omega)
    (by
      rw [hroot, v3]
      simp only [List.append_nil]
      have h1 := CodeLaw.mStack_pushes root [] root rfl root.children 0 (fun j c hj => by simpa using hj)
      have h1' : CodeLaw.mStack root (CodeLaw.pushesRev root.children 0) ≤ CodeLaw.belowKids root.children := by
        simpa using h1
      have h2 := CodeLaw.belowKids_le_size root.children
      have h3 := CodeLaw.sizeList_le_size root
      simp only [runFuel]; omega)
  rw [hrun, hroot, v2]

end MdVerif.RenderX
