/-
Helper lemmas for C10 on the extension model (block stage), part 4: the admonition processor, the whole dispatcher, and
the statement `parseDocumentXT_strs` for every combination of block-level extensions.

* what `AdmonitionProcessor.RE` returns: the class group is made of word characters, `-` and blanks (`admSearch_groups`),
  the title group is an infix of the block;
* `get_class_and_title`: the class is `lower` of that, the implied title its first word capitalised — strings of
  literal characters (`litChar`, closed under `lowerChar`: a closed fact about the generated lower-case table);
* `parse_content`: the sibling found by following last children through lists has no atomic text (`admSibNode_na`).

Core Lean only.
-/
import MdVerif.Lemmas.PlaceholdersXBlock3

namespace MdVerif.NoCtl.BlkX
open Py Block Blk BlkB

/-! ### literal characters -/

theorem char_ascii (Q : Char → Prop) (h : ∀ n, n < 128 → Q (Char.ofNat n)) (c : Char) (hc : c.toNat < 128) : Q c := by
  have := h c.toNat hc
  rwa [Char.ofNat_toNat] at this

theorem lowerTable_lit :
    Generated.Chars.lowerNonAscii.all (fun e => e.2.all (fun n => litChar (Char.ofNat n))) = true := by
  decide +kernel

theorem lowerChar_lit_ascii : ∀ n, n < 128 → litChar (Char.ofNat n) = true →
    (lowerChar (Char.ofNat n)).all litChar = true := by
  decide +kernel

theorem litChar_of_ge {c : Char} (h : ¬ c.toNat < 128) : litChar c = true := by
  simp only [litChar, Bool.or_eq_true, decide_eq_true_eq]
  exact Or.inr (by omega)

/-- `str.lower()` of a literal character is made of literal characters -/
theorem lowerChar_lit (c : Char) (h : litChar c = true) : ∀ d ∈ lowerChar c, litChar d = true := by
  by_cases hc : c.toNat < 128
  · have := char_ascii (fun c => litChar c = true → (lowerChar c).all litChar = true) lowerChar_lit_ascii c hc h
    exact List.all_eq_true.1 this
  · simp only [lowerChar, hc, if_false]
    cases hf : Generated.Chars.lowerNonAscii.find? (fun e => e.1 = c.toNat) with
    | none =>
      intro d hd
      simp only [List.mem_singleton] at hd
      subst hd; exact h
    | some e =>
      have he := List.mem_of_find?_eq_some hf
      have := List.all_eq_true.mp lowerTable_lit e he
      intro d hd
      simp only [List.mem_map] at hd
      obtain ⟨n, hn, rfl⟩ := hd
      exact List.all_eq_true.mp this n hn

theorem lower_lit : ∀ {s : Str}, (∀ c ∈ s, litChar c = true) → ∀ d ∈ Py.lower s, litChar d = true
  | [], _, d, hd => by simp [Py.lower] at hd
  | c :: s, hs, d, hd => by
    have e : Py.lower (c :: s) = lowerChar c ++ Py.lower s := by simp [Py.lower]
    rw [e, List.mem_append] at hd
    rcases hd with hd | hd
    · exact lowerChar_lit c (hs c (by simp)) d hd
    · exact lower_lit (fun x hx => hs x (List.mem_cons_of_mem _ hx)) d hd

theorem collapseSp_subset : ∀ (s : Str), BlockExt.collapseSp s ⊆ s
  | [] => by simp [BlockExt.collapseSp]
  | [c] => by simp [BlockExt.collapseSp]
  | c :: d :: r => by
    have ih := collapseSp_subset (d :: r)
    simp only [BlockExt.collapseSp]
    split
    · exact fun x hx => List.mem_cons_of_mem _ (ih hx)
    · intro x hx
      rcases List.mem_cons.1 hx with rfl | hx
      · simp
      · exact List.mem_cons_of_mem _ (ih hx)

theorem upper_lit_ascii : ∀ n, n < 128 → isAsciiLower (Char.ofNat n) = true →
    litChar (Char.ofNat ((Char.ofNat n).toNat - 32)) = true := by
  decide +kernel

theorem capitalize_lit {s : Str} (hs : ∀ c ∈ s, litChar c = true) : ∀ d ∈ BlockExt.capitalize s, litChar d = true := by
  cases s with
  | nil => intro d hd; simp [BlockExt.capitalize] at hd
  | cons c r =>
    intro d hd
    simp only [BlockExt.capitalize, List.mem_cons] at hd
    rcases hd with rfl | hd
    · split
      · next hl =>
        have hc : c.toNat < 128 := by
          simp only [isAsciiLower, Bool.and_eq_true, decide_eq_true_eq] at hl
          have h2 := hl.2
          rw [Char.le_def, UInt32.le_iff_toNat_le] at h2
          have h3 : ('z' : Char).val.toNat = 122 := by decide
          show c.val.toNat < 128
          omega
        exact char_ascii (fun c => isAsciiLower c = true → litChar (Char.ofNat (c.toNat - 32)) = true)
          upper_lit_ascii c hc hl
      · exact hs _ (by simp)
    · exact lower_lit (fun x hx => hs x (List.mem_cons_of_mem _ hx)) d hd

theorem wordDash_lit {c : Char} (h : BlockExt.isWordDash c = true ∨ c = ' ') : litChar c = true := by
  by_cases hc : c.toNat < 128
  · rcases h with h | rfl
    · simp only [BlockExt.isWordDash, isWord, hc, if_true, Bool.or_eq_true, decide_eq_true_eq] at h
      simp only [litChar, Bool.or_eq_true, beq_iff_eq, decide_eq_true_eq]
      rcases h with (h | h) | h
      · exact Or.inl (Or.inl (Or.inl (Or.inl (Or.inl (Or.inl h)))))
      · exact Or.inl (Or.inl (Or.inl (Or.inl (Or.inl (Or.inr h)))))
      · exact Or.inl (Or.inl (Or.inl (Or.inl (Or.inr h))))
    · decide
  · exact litChar_of_ge hc

/-! ### `AdmonitionProcessor.RE` -/

theorem admClassAux_ok : ∀ (s : Str) (good pos i : Nat) (c : Char), good ≤ pos →
    pos + i < BlockExt.admClassAux good pos s → s[i]? = some c → BlockExt.isWordDash c = true ∨ c = ' '
  | [], good, pos, i, c, hg, hlt, hc => by simp at hc
  | d :: r, good, pos, i, c, hg, hlt, hc => by
    simp only [BlockExt.admClassAux] at hlt
    split at hlt
    · next hw =>
      cases i with
      | zero => simp only [List.getElem?_cons_zero, Option.some.injEq] at hc; subst hc; exact Or.inl hw
      | succ i =>
        simp only [List.getElem?_cons_succ] at hc
        exact admClassAux_ok r (pos + 1) (pos + 1) i c (Nat.le_refl _) (by omega) hc
    · split at hlt
      · next hsp =>
        cases i with
        | zero => simp only [List.getElem?_cons_zero, Option.some.injEq] at hc; subst hc; exact Or.inr hsp
        | succ i =>
          simp only [List.getElem?_cons_succ] at hc
          exact admClassAux_ok r good (pos + 1) i c (by omega) (by omega) hc
      · omega

theorem admClassLen_ok (s : Str) : ∀ c ∈ s.take (BlockExt.admClassLen s), BlockExt.isWordDash c = true ∨ c = ' ' := by
  intro c hc
  obtain ⟨i, hi⟩ := List.mem_iff_getElem?.1 hc
  rw [List.getElem?_take] at hi
  split at hi
  · next hlt =>
    unfold BlockExt.admClassLen at hlt
    split at hlt
    · split at hlt
      · exact admClassAux_ok _ 0 0 i c (Nat.le_refl _) (by omega) hi
      · omega
    · omega
  · cases hi

theorem admAt_groups {s g1 : Str} {g2 : Option Str} {n : Nat} (h : BlockExt.admAt s = some (g1, g2, n)) :
    (∀ c ∈ g1, BlockExt.isWordDash c = true ∨ c = ' ') ∧ ∀ t, g2 = some t → t <:+: s := by
  simp only [BlockExt.admAt] at h
  split at h
  · generalize (if startsWith (s.drop 3) [' '] = true then 1 else 0) = o at h
    split at h
    · cases h
    · split at h
      · cases h
        refine ⟨admClassLen_ok _, ?_⟩
        intro t ht
        cases ht
        exact (List.take_prefix _ _).isInfix.trans
          ((List.drop_suffix _ _).trans ((List.drop_suffix _ _).trans
            ((List.drop_suffix _ _).trans (List.drop_suffix _ _)))).isInfix
      · split at h
        · cases h
          exact ⟨admClassLen_ok _, fun t ht => by cases ht⟩
        · cases h
  · cases h

theorem admSearch_groups {b g1 : Str} {g2 : Option Str} {st en : Nat}
    (h : BlockExt.admSearch b = some (st, en, g1, g2)) :
    (∀ c ∈ g1, BlockExt.isWordDash c = true ∨ c = ' ') ∧ ∀ t, g2 = some t → t <:+: b := by
  simp only [BlockExt.admSearch] at h
  split at h
  · next st' o g1' g2' n hs =>
    cases h
    obtain ⟨t, ht, hf⟩ := nlSearch_some hs
    obtain ⟨a1, a2⟩ := admAt_groups hf
    exact ⟨a1, fun u hu => (a2 u hu).trans ht.isInfix⟩
  · cases h

/-! ### `parse_content`: the sibling has no atomic text -/

theorem admSibKids_eq (tab : Nat) (block : Str) (indent : Nat) : ∀ l : List Node,
    BlockExt.admSibKids tab block indent l =
      match l.getLast? with
      | none => some (0, block, indent)
      | some c =>
        if startsWith block (spaces (tab * 2)) && BlockExt.isAdmList c then
          BlockExt.admLstNode tab (block.drop tab) (indent + tab) c
        else some (0, block, indent)
  | [] => by simp [BlockExt.admSibKids]
  | [c] => by simp [BlockExt.admSibKids]
  | c :: d :: r => by
    have ih := admSibKids_eq tab block indent (d :: r)
    simp only [BlockExt.admSibKids] at ih ⊢
    rw [List.getLast?_cons_cons]
    exact ih

theorem admLstKids_eq (tab : Nat) (block : Str) (indent : Nat) : ∀ l : List Node,
    BlockExt.admLstKids tab block indent l =
      match l.getLast? with
      | none => none
      | some c =>
        match BlockExt.admSibNode tab block indent c with
        | some (k, bl, ind) => some (k + 2, bl, ind)
        | none => none
  | [] => by simp [BlockExt.admLstKids]
  | [c] => by simp only [BlockExt.admLstKids, List.getLast?_singleton]; rfl
  | c :: d :: r => by
    have ih := admLstKids_eq tab block indent (d :: r)
    simp only [BlockExt.admLstKids] at ih ⊢
    rw [List.getLast?_cons_cons]
    exact ih

theorem admSibNode_unfold {tab : Nat} {block : Str} {indent : Nat} {n : Node} {k : Nat} {bl : Str} {ind : Nat}
    (h : BlockExt.admSibNode tab block indent n = some (k, bl, ind)) :
    k = 0 ∨ ∃ c item k', n.last? = some c ∧ BlockExt.isAdmList c = true ∧ c.last? = some item ∧
      BlockExt.admSibNode tab (block.drop tab) (indent + tab) item = some (k', bl, ind) ∧ k = k' + 2 := by
  obtain ⟨tg, at', tx, ta, ch, tl, tla⟩ := n
  simp only [BlockExt.admSibNode, admSibKids_eq] at h
  split at h
  · cases h; exact .inl rfl
  · next c hl =>
    split at h
    · next hc =>
      right
      simp only [Bool.and_eq_true] at hc
      obtain ⟨tg2, at2, tx2, ta2, ch2, tl2, tla2⟩ := c
      simp only [BlockExt.admLstNode, admLstKids_eq] at h
      split at h
      · cases h
      · next item hl2 =>
        split at h
        · next k' bl' ind' hs =>
          cases h
          exact ⟨_, item, k', hl, hc.2, hl2, hs, rfl⟩
        · cases h
    · cases h; exact .inl rfl

theorem isAdmList_tags {c : Node} (h : BlockExt.isAdmList c = true) : c.tag ≠ preTag ∧ c.tag ≠ codeTag := by
  simp only [BlockExt.isAdmList, Bool.or_eq_true, isTag_iff] at h
  rcases h with (h | h) | h <;> rw [h] <;> exact ⟨by decide, by decide⟩

section adm
variable {p q : Char → Bool} {P : Str → Prop}

theorem admSibNode_na_aux {tab : Nat} : ∀ (f k : Nat), k ≤ f → ∀ (n : Node) (block : Str) (indent : Nat) (bl : Str)
    (ind : Nat), BlockExt.admSibNode tab block indent n = some (k, bl, ind) → TX p q P n → n.textAtomic = false →
    (nodeAt k n).textAtomic = false
  | 0, k, hk, n, block, indent, bl, ind, h, _, hA => by
    rcases admSibNode_unfold h with rfl | ⟨c, item, k', _, _, _, _, rfl⟩
    · exact hA
    · omega
  | f + 1, k, hk, n, block, indent, bl, ind, h, hT, hA => by
    rcases admSibNode_unfold h with rfl | ⟨c, item, k', hl, hc, hl2, hs, rfl⟩
    · exact hA
    · have hcT := (hT.last hl).1
      have hiT := (hcT.last hl2).1
      have hiA := hcT.lastNA hl2 (isAdmList_tags hc).1
      have e : nodeAt (k' + 2) n = nodeAt k' item := by
        simp only [nodeAt, hl, hl2]
      rw [e]
      exact admSibNode_na_aux f k' (by omega) item _ _ bl ind hs hiT hiA

/-- the element that `parse_content` reaches from an element without atomic text has no atomic text -/
theorem admSibNode_na {tab : Nat} (k : Nat) (n : Node) (block : Str) (indent : Nat) (bl : Str) (ind : Nat)
    (h : BlockExt.admSibNode tab block indent n = some (k, bl, ind)) (hT : TX p q P n) (hA : n.textAtomic = false) :
    (nodeAt k n).textAtomic = false :=
  admSibNode_na_aux k k (Nat.le_refl _) n block indent bl ind h hT hA

theorem isAdmDiv_tag {n : Node} (h : BlockExt.isAdmDiv n = true) : n.tag ≠ codeTag := by
  simp only [BlockExt.isAdmDiv, Bool.and_eq_true, isTag_iff] at h
  rw [h.1]; decide

theorem admContent_na {tab : Nat} {parent : Node} {b : Str} {k ind : Nat}
    (h : BlockExt.admContent tab parent b = some (k, ind)) (hT : TX p q P parent) :
    (nodeAt k parent).textAtomic = false := by
  simp only [BlockExt.admContent] at h
  split at h
  · cases h
  · next sib hl =>
    split at h
    · next hd =>
      split at h
      · next k' bl ind' hs =>
        split at h
        · cases h
          have hsT := (hT.last hl).1
          have e : nodeAt (k' + 1) parent = nodeAt k' sib := by simp only [nodeAt, hl]
          rw [e]
          exact admSibNode_na k' sib _ _ bl ind' hs hsT (hsT.nx.notAtomic (isAdmDiv_tag hd))
        · cases h
      · cases h
    · cases h

/-! ### `AdmonitionProcessor.run` -/

theorem lit_class : ∀ c ∈ BlockExt.strClass, litChar c = true := by decide
theorem lit_admonition : ∀ c ∈ BlockExt.strAdmonition, litChar c = true := by decide
theorem lit_admTitle : ∀ c ∈ "admonition-title".toList, litChar c = true := by decide

/-- class and title of an admonition -/
theorem admClassTitle_p (h : StrDomX p q P) {b g1 : Str} {g2 : Option Str} (hb : P b)
    (hg1 : ∀ c ∈ g1, BlockExt.isWordDash c = true ∨ c = ' ') (hg2 : ∀ t, g2 = some t → t <:+: b) :
    (∀ c ∈ (BlockExt.admClassTitle g1 g2).1, litChar c = true) ∧ P ((BlockExt.admClassTitle g1 g2).2.getD []) := by
  have hk : ∀ c ∈ BlockExt.collapseSp (Py.lower g1), litChar c = true :=
    fun c hc => lower_lit (fun x hx => wordDash_lit (hg1 x hx)) c (collapseSp_subset _ hc)
  unfold BlockExt.admClassTitle
  split
  · refine ⟨hk, ?_⟩
    exact h.lit _ (capitalize_lit (fun c hc => hk c (List.takeWhile_subset _ hc)))
  · exact ⟨hk, h.nil⟩
  · next t _ => exact ⟨hk, h.inf _ _ hb (hg2 t rfl)⟩

theorem admonitionP_x (h : StrDomX p q P) {tab : Nat} {pb : PB} (hpb : PresX p q P pb) {state : List BState}
    {refs : Refs} {parent : Node} {b : Str} {rest : List Str} {hit : BlockExt.AdmHit}
    (hP : TX p q P parent) (hA : parent.textAtomic = false) (hR : LogC p P refs) (hb : P b)
    (hrest : PL P rest) (ht : BlockExt.admTest tab parent b = some hit) {r : Node × Refs × List Str}
    (hr : BlockExt.admonitionP tab pb state refs parent b rest hit = some r) : ResX p q P r := by
  have hd := h.toStrDom
  cases hit with
  | re st en g1 g2 =>
    have hs : BlockExt.admSearch b = some (st, en, g1, g2) := by
      simp only [BlockExt.admTest] at ht
      split at ht
      · next st' en' g1' g2' hs' => cases ht; exact hs'
      · split at ht <;> cases ht
    obtain ⟨hg1, hg2⟩ := admSearch_groups hs
    obtain ⟨hk, htitle⟩ := admClassTitle_p h hb hg1 hg2
    simp only [BlockExt.admonitionP] at hr
    split at hr
    · cases hr
    · next parent' refs' hcall =>
      have hout : OutX p q P (parent', refs') := by
        split at hcall
        · exact hpb _ _ _ _ _ hP hA hR (pl_one (hd.take hb st)) hcall
        · cases hcall; exact ⟨hP, hA, hR⟩
      obtain ⟨h1, h2, h3⟩ := hout
      have hdt := hd.detab tab (hd.drop hb en)
      generalize detab tab (b.drop en) = dt at hr hdt
      obtain ⟨block, theRest⟩ := dt
      generalize BlockExt.admClassTitle g1 g2 = kt at hr hk htitle
      obtain ⟨klass, title⟩ := kt
      simp only [] at hr hk htitle hdt
      -- the `div`
      have hdiv0 : TX p q P { Node.el "div" with attrs := [(BlockExt.strClass, BlockExt.strAdmonition ++ ' ' :: klass)] } := by
        refine tx_fresh (txt := none) h.nil (tagNoCtl_el "div" (by decide)) (by decide) (attrsC_one (h.litC lit_class) ?_)
          h.nil
        refine h.litC ?_
        intro c hc
        rw [List.mem_append, List.mem_cons] at hc
        rcases hc with hc | rfl | hc
        · exact lit_admonition c hc
        · decide
        · exact hk c hc
      have hdiv : TX p q P (if Node.truthy title = true then
            ({ Node.el "div" with attrs := [(BlockExt.strClass, BlockExt.strAdmonition ++ ' ' :: klass)] } : Node).append
              { mkText "p" (title.getD []) with attrs := [(BlockExt.strClass, "admonition-title".toList)] }
          else { Node.el "div" with attrs := [(BlockExt.strClass, BlockExt.strAdmonition ++ ' ' :: klass)] }) ∧
          (if Node.truthy title = true then
            ({ Node.el "div" with attrs := [(BlockExt.strClass, BlockExt.strAdmonition ++ ' ' :: klass)] } : Node).append
              { mkText "p" (title.getD []) with attrs := [(BlockExt.strClass, "admonition-title".toList)] }
          else { Node.el "div" with attrs := [(BlockExt.strClass, BlockExt.strAdmonition ++ ' ' :: klass)] }).textAtomic
            = false := by
        split
        · refine ⟨hdiv0.append ?_ rfl, rfl⟩
          exact tx_fresh (txt := some (title.getD [])) h.nil (tagNoCtl_el "p" (by decide)) (by decide)
            (attrsC_one (h.litC lit_class) (h.litC lit_admTitle)) htitle
        · exact ⟨hdiv0, rfl⟩
      split at hr
      · next div' refs'' hq =>
        obtain ⟨o1, o2, o3⟩ := parseChunk_x hd hpb hdiv.1 hdiv.2 h3 hdt.1 hq
        cases hr
        exact ⟨h1.append o1 o2, h2, o3, pl_consIf _ hdt.2 hrest⟩
      · cases hr
  | sib steps indent =>
    have hc : BlockExt.admContent tab parent b = some (steps, indent) := by
      simp only [BlockExt.admTest] at ht
      split at ht
      · cases ht
      · split at ht
        · next k ind hc' => cases ht; exact hc'
        · cases ht
    have hna := admContent_na hc hP
    have hS := nodeAt_tx steps hP
    simp only [BlockExt.admonitionP] at hr
    have hdt := hd.detab indent hb
    generalize detab indent b = dt at hr hdt
    obtain ⟨block, theRest⟩ := dt
    simp only [] at hr hdt
    -- the sibling after `if sibling.tag in ('li', 'dd') and sibling.text`
    have hsib : ∀ s : Node, TX p q P s → s.textAtomic = false →
        TX p q P (if ((s.isTag "li" || s.isTag "dd") && Node.truthy s.text) = true then
          { s with text := some [], textAtomic := false,
                   children := s.children ++ [{ Node.el "p" with text := s.text, textAtomic := s.textAtomic }] }
          else s) ∧
        (if ((s.isTag "li" || s.isTag "dd") && Node.truthy s.text) = true then
          { s with text := some [], textAtomic := false,
                   children := s.children ++ [{ Node.el "p" with text := s.text, textAtomic := s.textAtomic }] }
          else s).textAtomic = false := by
      intro s hs hsa
      split
      · have hb' := hs.nx
        refine ⟨tx_iff.2 ⟨⟨hb'.tag, hb'.attrs, hb'.tailAt, hb'.tail, by simpa using h.nil, fun h' => (by cases h'),
          fun h' => by have := hb'.codeAtom h'; rw [hsa] at this; cases this⟩, ?_⟩, rfl⟩
        intro c hc
        simp only [List.mem_append, List.mem_singleton] at hc
        rcases hc with hc | rfl
        · exact hs.child hc
        · refine ⟨tx_leaf ⟨tagNoCtl_el "p" (by decide), attrsC_nil, rfl, h.nil, ?_, ?_,
            fun h' => absurd h' (show Tag.name "p".toList ≠ Tag.name "code".toList by decide)⟩ rfl, ?_⟩
          · simp only [hsa]; simpa using hb'.textP hsa
          · intro h'; simp only [hsa] at h'; cases h'
          · intro h'; simp only [hsa] at h'; cases h'
      · exact ⟨hs, hsa⟩
    obtain ⟨s1, s2⟩ := hsib _ hS hna
    split at hr
    · next div' refs' hq =>
      obtain ⟨o1, o2, o3⟩ := parseChunk_x hd hpb s1 s2 hR hdt.1 hq
      cases hr
      obtain ⟨u1, u2⟩ := updPath_tx (fun _ => div') steps hP ⟨o1, o2.trans hna.symm⟩
      exact ⟨u1, u2.trans hA, o3, pl_consIf _ hdt.2 hrest⟩
    · cases hr

/-! ### the statements -/

/-- **one turn of the loop of the extended block parser preserves the invariant** -/
theorem dispatchXT_x (h : StrDomX p q P) {tables : Bool} {cfg : BlockExt.XCfg} {tab : Nat} {pb : PB}
    (hpb : PresX p q P pb) {state : List BState} {refs : Refs} {parent : Node} {b : Str} {rest : List Str}
    (hP : TX p q P parent) (hA : parent.textAtomic = false) (hR : LogC p P refs) (hb : P b)
    (hrest : PL P rest) {r : Node × Refs × List Str}
    (hr : BlockExt.dispatchXT tables cfg tab pb state refs parent b rest = some r) : ResX p q P r :=
  dispatchXT_x_of h hpb (fun _ _ ht _ hr' => admonitionP_x h hpb hP hA hR hb hrest ht hr') hP hA hR hb hrest hr

theorem parseBlocksXT_pres (h : StrDomX p q P) (tables : Bool) (cfg : BlockExt.XCfg) (tab : Nat) (f : Nat) :
    PresX p q P (BlockExt.parseBlocksXT tables cfg tab f) :=
  parseBlocksXT_pres_of tables cfg tab
    (fun _ hpb _ _ _ _ _ _ hP hA hR hb hrest hd => dispatchXT_x h hpb hP hA hR hb hrest hd) f

/-- `parseBlocksXT` preserves the invariant, from any tree that satisfies it -/
theorem parseBlocksXT_strs (h : StrDomX p q P) (tables : Bool) (cfg : BlockExt.XCfg) (tab f : Nat) :
    ∀ state log parent blocks r, parent.Forall (XInv p q P) → parent.textAtomic = false → LogC p P log →
      (∀ b ∈ blocks, P b) → BlockExt.parseBlocksXT tables cfg tab f state log parent blocks = some r →
      r.1.Forall (XInv p q P) ∧ r.1.textAtomic = false ∧ LogC p P r.2 :=
  parseBlocksXT_pres h tables cfg tab f

/-- **the extended block stage** (core processors, admonition, sane lists, definition lists, footnote and abbreviation
    definitions, tables) **invents no STX/ETX and keeps every ordinary string inside a class of strings closed under
    infixes, newline-joins, `lower` and literal strings**: every element is a `BNodeXP` (literal tag; attribute names
    and values, tail and text made of characters of `p` — `q` for the atomic text of a `code`; tail and non-atomic text
    satisfy `P`), and every string of the log is `AllC p`, footnote bodies satisfy `P`. -/
theorem parseDocumentXT_strs (h : StrDomX p q P) (tables : Bool) (xc : BlockExt.XCfg) (tab : Nat) (text : Str)
    (hp : P text) {root : Node} {log : Block.Refs}
    (hr : BlockExt.parseDocumentXT tables xc tab text = some (root, log)) :
    root.Forall (BNodeXP p q P) ∧ LogC p P log :=
  parseDocumentXT_of h (parseBlocksXT_pres h tables xc tab) hp hr

/-- the same for a chunk parsed on an empty surrogate `div` with a given log (`PipelineX.parseChunkX`: the footnote
    tree processor parses footnote bodies this way) -/
theorem parseChunkXT_strs (h : StrDomX p q P) (tables : Bool) (xc : BlockExt.XCfg) (tab f : Nat) (log : Block.Refs)
    (hl : LogC p P log) (text : Str) (hp : P text) {root : Node} {log' : Block.Refs}
    (hr : Block.parseChunk (BlockExt.parseBlocksXT tables xc tab f) [] log (Node.el "div") text = some (root, log')) :
    root.Forall (BNodeXP p q P) ∧ LogC p P log' := by
  obtain ⟨o1, _, o3⟩ := parseChunk_x h.toStrDom (parseBlocksXT_pres h tables xc tab f) (tx_el h.nil "div" (by decide))
    rfl hl hp hr
  exact ⟨forall_mono (fun _ hn => hn.1.bnodeXP h.toStrDom) root o1, o3⟩

end adm

/-! ### the tables decoded from the log -/

section tablesOfLog
variable {p : Char → Bool} {P : Str → Prop}

/-- keys and values of a decoded table -/
def DictC (p : Char → Bool) (d : List (Str × Str)) : Prop := ∀ kv ∈ d, AllC p kv.1 ∧ AllC p kv.2

theorem dictSet_c {d : List (Str × Str)} {k v : Str} (hd : DictC p d) (hk : AllC p k) (hv : AllC p v) :
    DictC p (BlockExt.dictSet d k v) := by
  unfold BlockExt.dictSet
  split
  · intro kv hkv
    simp only [List.mem_map] at hkv
    obtain ⟨x, hx, rfl⟩ := hkv
    split
    · exact ⟨hk, hv⟩
    · exact hd x hx
  · intro kv hkv
    rcases List.mem_append.1 hkv with hkv | hkv
    · exact hd kv hkv
    · simp only [List.mem_singleton] at hkv
      subst hkv; exact ⟨hk, hv⟩

theorem dictPop_c {d : List (Str × Str)} {k : Str} (hd : DictC p d) : DictC p (BlockExt.dictPop d k) :=
  fun kv hkv => hd kv (List.mem_filter.1 hkv).1

theorem keyOf_ab_entry {e : Str × (Str × Option Str)} (h : BlockExt.isAbEntry e = true) : keyOf e = e.1.drop 2 := by
  simp [keyOf, h]

theorem keyOf_fn_entry {e : Str × (Str × Option Str)} (h : BlockExt.isFnEntry e = true) : keyOf e = e.1.drop 2 := by
  simp [keyOf, h]

/-- `AbbrExtension.abbrs`: abbreviations and titles -/
theorem abbrsOf_c {log : Refs} (h : LogC p P log) : DictC p (BlockExt.abbrsOf log) := by
  unfold BlockExt.abbrsOf
  have key : ∀ (l : Refs) (d : List (Str × Str)), (∀ e ∈ l, e ∈ log) → DictC p d →
      DictC p (l.foldl (fun d e =>
        if BlockExt.isAbEntry e then (if e.2.1.isEmpty then BlockExt.dictPop d (e.1.drop 2)
          else BlockExt.dictSet d (e.1.drop 2) e.2.1) else d) d) := by
    intro l
    induction l with
    | nil => intro d _ hd; exact hd
    | cons e l ih =>
      intro d hl hd
      simp only [List.foldl_cons]
      apply ih _ (fun x hx => hl x (List.mem_cons_of_mem _ hx))
      have he := h e (hl e (by simp))
      split
      · next hab =>
        split
        · exact dictPop_c hd
        · exact dictSet_c hd (keyOf_ab_entry hab ▸ he.1) he.2.1
      · exact hd
  exact key log [] (fun _ hx => hx) (fun kv hkv => by cases hkv)

/-- `FootnoteExtension.footnotes`: ids and bodies -/
theorem footnotesOf_c {log : Refs} (h : LogC p P log) :
    DictC p (BlockExt.footnotesOf log) := by
  unfold BlockExt.footnotesOf
  have key : ∀ (l : Refs) (d : List (Str × Str)), (∀ e ∈ l, e ∈ log) → DictC p d →
      DictC p (l.foldl (fun d e => if BlockExt.isFnEntry e then BlockExt.dictSet d (e.1.drop 2) e.2.1 else d) d) := by
    intro l
    induction l with
    | nil => intro d _ hd; exact hd
    | cons e l ih =>
      intro d hl hd
      simp only [List.foldl_cons]
      apply ih _ (fun x hx => hl x (List.mem_cons_of_mem _ hx))
      have he := h e (hl e (by simp))
      split
      · next hfn => exact dictSet_c hd (keyOf_fn_entry hfn ▸ he.1) he.2.1
      · exact hd
  exact key log [] (fun _ hx => hx) (fun kv hkv => by cases hkv)

/-- `md.references`: urls and titles -/
theorem refsOf_c {log : Refs} (h : LogC p P log) : RefsC p (BlockExt.refsOf log) :=
  fun r hr => ⟨(h r (List.mem_filter.1 hr).1).2.1, (h r (List.mem_filter.1 hr).1).2.2.1⟩

theorem LogC.refsC {log : Refs} (h : LogC p P log) : RefsC p log :=
  fun r hr => ⟨(h r hr).2.1, (h r hr).2.2.1⟩

end tablesOfLog

end MdVerif.NoCtl.BlkX
