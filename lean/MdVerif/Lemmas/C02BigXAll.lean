/-
Helper lemmas for `Props/C02Big.lean`, section 6: the EXTENSION pipeline on the provably sufficient fuel, for the pattern
tables with the footnote and the nl2br pattern (every flag set without wikilinks).

* `tableOK_nowiki`     — without wikilinks the inline pattern table has no wikilink pattern (and is not empty);
* `blockStageX_deep`   — the tree handed to the inline stage holds no inline placeholder, footnotes on or off: the
                         footnote tree processor writes `STX zz…qq ETX` / `STX qq…zz ETX`, which are no placeholders;
* `runXBig_total_nowiki` — `runXBig` answers on such a tree (`InlineN.runX_total_big`);
* `runXBig_of_runX_all`  — for EVERY table, where `runX` answers, `runXBig` gives the same answer (more fuel never changes
                         a result);
* `convertXBig_ne_oof_nowiki`, `convertXBig_of_convertX_ne_oof_all`.
Core Lean only.
-/
import MdVerif.Lemmas.C02BigX
import MdVerif.Lemmas.C02BigNRun

namespace MdVerif.C02BigX
open Py Pipeline PipelineX NoCtl

/-! ### the table -/

theorem tableOK_nowiki (x : Exts) (cfg : Cfg) (log : Block.Refs) (hw : x.wikilinks = false) :
    InlineN.TableOK (inlineCfgX x cfg log) ∧ 0 < (inlineCfgX x cfg log).table.length := by
  simp only [InlineN.TableOK, inlineCfgX, hw]
  cases x.footnotes <;> cases x.nl2br <;> exact ⟨by decide, by decide⟩

/-! ### the tree handed to the inline stage -/

/-- the invariant of an element: its text and its tail hold no inline placeholder -/
abbrev QD (n : Node) : Prop := Inline.TopQ (Inline.IdsLt 0) n

theorem idsLt0_of_noCtl {s : Str} (h : NoCtl s) : Inline.IdsLt 0 s := Inline.IdsLt.of_no_stx 0 h.1

theorem idsLt0_snoc_nbsp {t : Str} (h : Inline.IdsLt 0 t) : Inline.IdsLt 0 (t ++ FootnotesTree.nbspPlaceholder) := by
  intro id hid hc
  rcases Inline.idsOf_append_stx (a := t) (b := FootnotesTree.nbspPlaceholder) (Or.inr rfl) id hid with h1 | h1
  · exact h id h1 hc
  · have : Inline.idsOf FootnotesTree.nbspPlaceholder = [] := by decide
    rw [this] at h1; cases h1

theorem idsLt0_backlink : Inline.IdsLt 0 FootnotesTree.fnBacklinkText := by
  intro id hid _
  have : Inline.idsOf FootnotesTree.fnBacklinkText = [] := by decide
  rw [this] at hid; cases hid

theorem qd_of_nodeNoCtl {n : Node} (h : NodeNoCtl n) : QD n := by
  obtain ⟨_, _, h3, h4⟩ := h
  exact ⟨fun s hs => idsLt0_of_noCtl (by have := h3; simp only [NoCtlO, hs, Option.getD_some] at this; exact this),
    fun s hs => idsLt0_of_noCtl (by have := h4; simp only [NoCtlO, hs, Option.getD_some] at this; exact this)⟩

theorem forallQD_of_treeNoCtl {t : Node} (h : TreeNoCtl t) : t.Forall QD :=
  Node.Forall.mono (fun _ hn => qd_of_nodeNoCtl hn) t h

theorem qd_mk {n : Node} (h1 : ∀ s, n.text = some s → Inline.IdsLt 0 s) (h2 : ∀ s, n.tail = some s → Inline.IdsLt 0 s) :
    QD n := ⟨h1, h2⟩

theorem qd_none {n : Node} (h1 : n.text = none) (h2 : n.tail = none) : QD n :=
  qd_mk (fun s hs => by rw [h1] at hs; cases hs) (fun s hs => by rw [h2] at hs; cases hs)

theorem qd_kids (n : Node) (kids : List Node) (h : QD n) : QD { n with children := kids } := h

theorem qd_untail (n : Node) (h : QD n) : QD { n with tail := none, tailAtomic := false } :=
  qd_mk h.1 (fun _ hs => by cases hs)

theorem qd_plain (tag : String) : QD (FootnotesTree.el tag) := qd_none rfl rfl

mutual
theorem placeNode_forall {Q : Node → Prop} (hu : ∀ n, Q n → Q { n with tail := none, tailAtomic := false })
    (hk : ∀ n kids, Q n → Q { n with children := kids }) {div : Node} (hd : div.Forall Q) :
    ∀ (t : Node) {t' : Node}, t.Forall Q → FootnotesTree.placeNode div t = some t' → t'.Forall Q
  | ⟨tag, attrs, text, ta, children, tail, tla⟩, t', h, hr => by
    simp only [Node.Forall] at h
    unfold FootnotesTree.placeNode at hr
    split at hr
    · next ks hk' =>
      simp only [Option.some.injEq] at hr
      subst hr
      simp only [Node.Forall]
      exact ⟨hk _ ks h.1, placeKids_forall hu hk hd children h.2 hk'⟩
    · cases hr
theorem placeKids_forall {Q : Node → Prop} (hu : ∀ n, Q n → Q { n with tail := none, tailAtomic := false })
    (hk : ∀ n kids, Q n → Q { n with children := kids }) {div : Node} (hd : div.Forall Q) :
    ∀ (l : List Node) {l' : List Node}, Node.ForallL Q l → FootnotesTree.placeKids div l = some l' → Node.ForallL Q l'
  | [], _, _, hr => by simp [FootnotesTree.placeKids] at hr
  | c :: r, l', h, hr => by
    simp only [Node.ForallL] at h
    unfold FootnotesTree.placeKids at hr
    split at hr
    · simp only [Option.some.injEq] at hr
      subst hr
      simp only [Node.ForallL]
      exact ⟨hd, h.2⟩
    · split at hr
      · simp only [Option.some.injEq] at hr
        subst hr
        simp only [Node.ForallL]
        refine ⟨?_, hd, h.2⟩
        have hc := (Node.forall_def Q c).1 h.1
        exact (Node.forall_def Q _).2 ⟨hu c hc.1, hc.2⟩
      · split at hr
        · next c' hc' =>
          simp only [Option.some.injEq] at hr
          subst hr
          simp only [Node.ForallL]
          exact ⟨placeNode_forall hu hk hd c h.1 hc', h.2⟩
        · split at hr
          · next r' hr' =>
            simp only [Option.some.injEq] at hr
            subst hr
            simp only [Node.ForallL]
            exact ⟨h.1, placeKids_forall hu hk hd r h.2 hr'⟩
          · cases hr
end

theorem placeDiv_forall {Q : Node → Prop} (hu : ∀ n, Q n → Q { n with tail := none, tailAtomic := false })
    (hk : ∀ n kids, Q n → Q { n with children := kids })
    {root div : Node} (hr : root.Forall Q) (hd : div.Forall Q) : (FootnotesTree.placeDiv root div).Forall Q := by
  unfold FootnotesTree.placeDiv
  split
  · next r h => exact placeNode_forall hu hk hd root hr h
  · rw [Node.forall_iff] at hr ⊢
    refine ⟨hk root _ hr.1, ?_⟩
    intro c hc
    simp only [Node.append] at hc
    rcases List.mem_append.1 hc with hc | hc
    · exact hr.2 c hc
    · rw [List.mem_singleton.1 hc]; exact hd

theorem backlink_forall (id : Str) (index : Nat) : (FootnotesTree.backlink id index).Forall QD := by
  rw [Node.forall_iff]
  refine ⟨qd_mk ?_ ?_, ?_⟩
  · intro s hs
    simp only [FootnotesTree.backlink, Option.some.injEq] at hs
    subst hs; exact idsLt0_backlink
  · intro s hs; simp [FootnotesTree.backlink, FootnotesTree.el] at hs
  · intro c hc; simp [FootnotesTree.backlink, FootnotesTree.el] at hc

/-- the loop of `makeFootnotesDiv`: every `li` holds no inline placeholder, the log keeps its class -/
theorem makeLis_deep (x : Exts) (cfg : Cfg) :
    ∀ (l : List (Str × Str)) (index : Nat) (log : Block.Refs) {lis : List Node} {log' : Block.Refs},
      (∀ kv ∈ l, Blk.AllC Blk.okc kv.2) → BlkX.LogC Blk.okc (Blk.AllC Blk.okc) log →
      FootnotesTree.makeLis (parseChunkX x cfg) fnCount l index log = .ok (lis, log') →
      (∀ li ∈ lis, li.Forall QD) ∧ BlkX.LogC Blk.okc (Blk.AllC Blk.okc) log'
  | [], _, log, lis, log', _, hlog, h => by
    simp only [FootnotesTree.makeLis, FootnotesTree.R.ok.injEq, Prod.mk.injEq] at h
    obtain ⟨rfl, rfl⟩ := h
    exact ⟨(by intro li hli; cases hli), hlog⟩
  | (id, text) :: rest, index, log, lis, log', hl, hlog, h => by
    have hkv := hl (id, text) List.mem_cons_self
    unfold FootnotesTree.makeLis at h
    split at h
    · cases h
    · next sur log1 hparse =>
      split at h
      · cases h
      · dsimp only at h
        split at h
        · cases h
        · next li' hadd =>
          split at h
          · next lis2 log2 hrest =>
            simp only [FootnotesTree.R.ok.injEq, Prod.mk.injEq] at h
            obtain ⟨rfl, rfl⟩ := h
            obtain ⟨hsur, hlog1⟩ := BlkX.parseChunkXT_strs strDomX_okc x.tables x.blockCfg cfg.tab _ log hlog
              text hkv hparse
            obtain ⟨ih1, ih2⟩ := makeLis_deep x cfg rest (index + 1) log1
              (fun kv hkv => hl kv (List.mem_cons_of_mem _ hkv)) hlog1 hrest
            refine ⟨?_, ih2⟩
            intro li hli
            rcases List.mem_cons.1 hli with rfl | hli
            · refine NoCtlX.addBacklink_forall (Q := QD) ?_ (backlink_forall id index) qd_kids (qd_plain "p") ?_ hadd
              · rw [Node.forall_iff]
                refine ⟨qd_none rfl rfl, ?_⟩
                intro c hc
                have hsur' := (Node.forall_iff _ _).1 hsur
                exact Node.Forall.mono (fun _ hn => qd_of_nodeNoCtl (nodeNoCtl_of_bnodeXP hn)) c (hsur'.2 c hc)
              · intro node t hn _ ht
                exact qd_mk (fun s hs => by
                  simp only [Option.some.injEq] at hs
                  subst hs
                  exact idsLt0_snoc_nbsp (hn.1 t ht)) hn.2
            · exact ih1 li hli
          · cases h
          · cases h

/-- `makeFootnotesDiv` -/
theorem makeDiv_deep (x : Exts) (cfg : Cfg) {log : Block.Refs}
    (hlog : BlkX.LogC Blk.okc (Blk.AllC Blk.okc) log) {div : Option Node} {log' : Block.Refs}
    (h : FootnotesTree.makeDiv (parseChunkX x cfg) fnCount (BlockExt.footnotesOf log) log = .ok (div, log')) :
    ∀ d, div = some d → d.Forall QD := by
  unfold FootnotesTree.makeDiv at h
  split at h
  · simp only [FootnotesTree.R.ok.injEq, Prod.mk.injEq] at h
    obtain ⟨rfl, rfl⟩ := h
    intro d hd; cases hd
  · split at h
    · next lis log2 hl =>
      simp only [FootnotesTree.R.ok.injEq, Prod.mk.injEq] at h
      obtain ⟨rfl, rfl⟩ := h
      have hfn : ∀ kv ∈ BlockExt.footnotesOf log, Blk.AllC Blk.okc kv.2 :=
        fun kv hkv => (BlkX.footnotesOf_c hlog kv hkv).2
      obtain ⟨h1, _⟩ := makeLis_deep x cfg _ 1 log hfn hlog hl
      intro d hd
      simp only [Option.some.injEq] at hd
      subst hd
      rw [Node.forall_iff]
      refine ⟨qd_none rfl rfl, ?_⟩
      intro c hc
      simp only [List.mem_cons, List.not_mem_nil, or_false] at hc
      rcases hc with rfl | rfl
      · rw [Node.forall_iff]
        exact ⟨qd_plain "hr", by intro c hc; cases hc⟩
      · rw [Node.forall_iff]
        exact ⟨qd_none rfl rfl, h1⟩
    · cases h
    · cases h

/-- **the tree handed to the inline stage holds no inline placeholder** (footnotes on or off; no fenced_code) -/
theorem blockStageX_deep {x : Exts} {cfg : Cfg} {src : Str} (hf : x.fencedCode = false)
    {root : Node} {log : Block.Refs} {stash : List Str} (h : blockStageX x cfg src = .ok (root, log, stash)) :
    InlineN.Deep (Inline.IdsLt 0) root ∧ stash = [] := by
  simp only [blockStageX] at h
  split at h
  · cases h
  · cases h
  · next text stash' hp =>
    obtain ⟨e1, e2⟩ := prepareX_nofence hf hp
    subst e1
    split at h
    · cases h
    · next root0 log0 hpd =>
      have hok : Blk.AllC Blk.okc (Pipeline.prepare cfg src) := fun c hc => by
        have := noCtl_iff.1 (prepare_noctl cfg src) c hc
        simp [Blk.okc, this.1, this.2]
      obtain ⟨hroot0, hlog0⟩ := BlkX.parseDocumentXT_strs strDomX_okc x.tables x.blockCfg cfg.tab _ hok hpd
      have hr0 : root0.Forall QD :=
        Node.Forall.mono (fun _ hn => qd_of_nodeNoCtl (nodeNoCtl_of_bnodeXP hn)) root0 hroot0
      cases hfn : x.footnotes with
      | false =>
        simp only [fnStageX, hfn, Bool.false_eq_true, if_false, FootnotesTree.R.ok.injEq, Prod.mk.injEq] at h
        obtain ⟨rfl, rfl, rfl⟩ := h
        exact ⟨hr0, e2⟩
      | true =>
        simp only [fnStageX, hfn, if_true] at h
        cases hm : FootnotesTree.makeDiv (parseChunkX x cfg) fnCount (BlockExt.footnotesOf log0) log0 with
        | oof => rw [hm] at h; cases h
        | ood => rw [hm] at h; cases h
        | ok r =>
          obtain ⟨div, log1⟩ := r
          rw [hm] at h
          cases div with
          | none =>
            simp only [FootnotesTree.R.ok.injEq, Prod.mk.injEq] at h
            obtain ⟨rfl, rfl, rfl⟩ := h
            exact ⟨hr0, e2⟩
          | some d =>
            simp only [FootnotesTree.R.ok.injEq, Prod.mk.injEq] at h
            obtain ⟨rfl, rfl, rfl⟩ := h
            exact ⟨placeDiv_forall qd_untail qd_kids hr0 (makeDiv_deep x cfg hlog0 hm d rfl), e2⟩

/-! ### the inline stage on the big fuel -/

/-- without the wikilink pattern `runXBig` answers on every tree without inline placeholders -/
theorem runXBig_total_nowiki {x : Exts} (cfg : Cfg) (log : Block.Refs) (hw : x.wikilinks = false) {tree : Node}
    (html : List Str) (h : InlineN.Deep (Inline.IdsLt 0) tree) :
    ∃ r, runXBig (inlineCfgX x cfg log) tree html = some r := by
  obtain ⟨t1, t2⟩ := tableOK_nowiki x cfg log hw
  exact Option.isSome_iff_exists.1
    (InlineN.runX_total_big (inlineCfgX x cfg log) t1 t2 tree { st := { html := html } } rfl h (Inline.runFuel tree)
      (by unfold Inline.runFuel; omega) (C08Src.bigRunFuel tree) (by unfold C08Src.bigRunFuel; omega))

/-- every table: where `runX` answers, `runXBig` gives the same answer -/
theorem runXBig_of_runX_all (xc : InlineX.XCfg) {tree : Node} {html : List Str} {r : Node × InlineX.XSt}
    (h : InlineX.runX xc tree html = some r) : runXBig xc tree html = some r :=
  InlineN.runLoopX_mono xc (Nat.le_refl _) _ _ _ _ _ _ (by unfold C08Src.bigRunFuel; omega) h

theorem treeXBig_of_treeX_all {x : Exts} {cfg : Cfg} {src : Str}
    (h : ∀ root log stash, blockStageX x cfg src = .ok (root, log, stash) →
      InlineX.runX (inlineCfgX x cfg log) root stash ≠ none) :
    treeXBig x cfg src = treeX x cfg src := by
  rw [treeX_eq]
  unfold treeXBig
  cases hb : blockStageX x cfg src with
  | oof => rfl
  | ood => rfl
  | ok r =>
    obtain ⟨root, log, stash⟩ := r
    simp only
    cases hr : InlineX.runX (inlineCfgX x cfg log) root stash with
    | none => exact absurd hr (h root log stash hb)
    | some ts => rw [runXBig_of_runX_all _ hr]

/-- **where `convertX` answers anything but `oof`, `convertXBig` gives the same answer** — every flag set -/
theorem convertXBig_of_convertX_ne_oof_all {x : Exts} {cfg : Cfg} {src : Str} (h : convertX x cfg src ≠ .oof) :
    convertXBig x cfg src = convertX x cfg src := by
  unfold convertXBig convertX at *
  split
  · rfl
  · split
    · rfl
    · split
      · rfl
      · next h1 h2 h3 =>
        simp only [h1, h2, h3, Bool.false_eq_true, if_false] at h
        have : treeXBig x cfg src = treeX x cfg src := by
          apply treeXBig_of_treeX_all
          intro root log stash hb hr
          apply h
          rw [treeX_eq, hb]
          simp only [hr]
        rw [this]
        cases treeX x cfg src <;> rfl

/-- **`convertXBig` never answers `oof`** for the flag sets without wikilinks and fenced_code (`0 < tab_length` when
    admonition is on): footnotes and nl2br on or off -/
theorem convertXBig_ne_oof_nowiki {x : Exts} {cfg : Cfg} (src : Str) (hw : x.wikilinks = false)
    (hf : x.fencedCode = false) (htab : x.admonition = true → 0 < cfg.tab) : convertXBig x cfg src ≠ .oof := by
  unfold convertXBig
  split
  · intro h; cases h
  · split
    · intro h; cases h
    · split
      · intro h; cases h
      · unfold treeXBig
        cases hb : blockStageX x cfg src with
        | oof => exact absurd hb (blockStageX_ne_oof x cfg src htab)
        | ood => intro h; cases h
        | ok r =>
          obtain ⟨root, log, stash⟩ := r
          obtain ⟨hdeep, rfl⟩ := blockStageX_deep hf hb
          obtain ⟨⟨t, xs⟩, hr⟩ := runXBig_total_nowiki cfg log hw [] hdeep
          have hent := runXBig_html_nil hr
          simp only [hr]
          cases hl : lateStageX x cfg log t xs with
          | oof =>
            exfalso
            obtain ⟨-, t', -, -, s, hs⟩ := lateStageX_oof hl
            exact rawHtml_ne_none hent s hs
          | err => intro h; cases h
          | ood => intro h; cases h
          | ok u html =>
            have := lateStageX_ok hl
            subst this
            simp only [finishX]
            split
            · intro h; cases h
            · next s0 _ =>
              cases hp : postX x cfg xs.st.html s0 with
              | none => exact absurd hp (postX_ne_none x cfg hent s0)
              | some r => intro h; cases h

end MdVerif.C02BigX
