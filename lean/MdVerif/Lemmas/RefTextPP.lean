/-
Helper lemmas for `Props/C15Text.lean`, part 6: `__processPlaceholders` on the residue of a line with references —
chunk by chunk in context, the `<a>` elements rebuilt from the stash with their own children.  Core Lean only.
-/
import MdVerif.Lemmas.RefTextLoop

namespace MdVerif.RefText
open Py Inline Escape CodeLaw DocParse DocParse2

/-! ### the loop at a placeholder whose element `nested` changes -/

theorem ppLoop_stepNode' (S : List StashItem) (nested : Node → Option Node) (data : Str) (g start : Nat)
    (rp : List Node × Node) (off : Nat) (id : Str) (phEnd : Nat) (nd nd' : Node) (h1 : start ≤ data.length)
    (h2 : find phPrefix (data.drop start) = some off) (h3 : findPh data (start + off) = (some id, phEnd))
    (h4 : stashGet S id = some (.node nd)) (h5 : nested nd = some nd') :
    ppLoop S nested data false true (g + 1) start rp.1 rp.2 =
      ppLoop S nested data false true g phEnd (nd' :: (lt (Inline.slice data start (start + off)) rp).1)
        (lt (Inline.slice data start (start + off)) rp).2 := by
  have hle : ¬ start > data.length := by omega
  simp only [ppLoop, hle, if_false, h2, h3, Option.bind_some, h4, h5]
  by_cases hi : start + off > 0
  · simp [hi, lt]
  · have h0 : start = 0 ∧ off = 0 := by omega
    simp [h0.1, h0.2, Inline.slice, lt, linkText]

theorem nextOK_node' (S : List StashItem) (nested : Node → Option Node) (g m : Nat) (Z' : Str) (nd nd' : Node)
    (h1 : S[m]? = some (.node nd)) (h2 : nested nd = some nd') :
    NextOK S nested (placeholder m ++ Z') (g + 1)
      (fun pre st => ppLoop S nested (pre ++ placeholder m ++ Z') false true g (pre ++ placeholder m).length
        (nd' :: st.1) st.2) := by
  intro P' B' rp' hB
  have hdata : P' ++ B' ++ (placeholder m ++ Z') = (P' ++ B') ++ placeholder m ++ Z' := by simp [List.append_assoc]
  have hdrop : (P' ++ B' ++ placeholder m ++ Z').drop P'.length = B' ++ phPrefix ++ ((pad4 m ++ [ETX]) ++ Z') := by
    rw [placeholder_eq]; simp [List.append_assoc]
  have hfind : find phPrefix ((P' ++ B' ++ placeholder m ++ Z').drop P'.length) = some B'.length := by
    rw [hdrop]; exact find_prefix_after B' _ hB
  have hph := findPh_placeholder (P' ++ B') m Z'
  rw [List.length_append] at hph
  have hslice : Inline.slice (P' ++ B' ++ placeholder m ++ Z') P'.length (P'.length + B'.length) = B' := by
    have : (P' ++ B' ++ placeholder m ++ Z').take (P'.length + B'.length) = P' ++ B' := by
      rw [← List.length_append, List.append_assoc (P' ++ B')]; exact List.take_left' rfl
    rw [Inline.slice, this]; simp
  rw [hdata, ppLoop_stepNode' S nested _ g P'.length rp' B'.length (pad4 m) _ nd nd' (by simp) hfind hph
    (by rw [stashGet_pad4]; exact h1) h2, hslice]

/-! ### a chunk in context -/

/-- turns of the loop a chunk costs: one per escape, one per item -/
def costC (esc : List Char) : Str → List MSeg → Nat
  | t, [] => escCount esc t
  | t, s :: r => escCount esc t + 1 + costC esc s.t r

/-- **the loop over a chunk in context**: whatever follows (`Z`, continuation `K`), the items of the chunk become
    nodes and the texts their tails -/
theorem ppLoop_chunk_ctx (esc : List Char) (S : List StashItem) (nested : Node → Option Node) (Z : Str) (g : Nat)
    (K : Str → List Node × Node → Option (List Node × Node)) (hK : NextOK S nested Z g K) (segs : List MSeg) :
    ∀ (P t : Str) (m n0 n1 n2 : Nat) (rp : List Node × Node) (rest : List StashItem), STX ∉ t →
      (∀ s ∈ segs, STX ∉ s.t ∧ nested s.k.node = some s.k.node) →
      S.drop m = stashOf esc t ++ stashOfM esc segs ++ rest → MStash S n0 n1 n2 segs →
      ppLoop S nested (P ++ resid esc m t ++ stageM esc 3 true (m + escCount esc t) n0 n1 n2 segs ++ Z) false true
        (g + costC esc t segs) P.length rp.1 rp.2 =
        K (P ++ resid esc m t ++ stageM esc 3 true (m + escCount esc t) n0 n1 n2 segs)
          (foldM esc segs (lt (coded esc t) rp)) := by
  induction segs with
  | nil =>
    intro P t m n0 n1 n2 rp rest ht _ hS _
    have := ppLoop_seg esc S nested Z g K hK t P [] m rp (stashOfM esc [] ++ rest)
      (by simp) ht (by simpa [List.append_assoc] using hS)
    simp only [List.append_nil, List.nil_append] at this
    simp only [stageM, List.append_nil, costC, foldM]
    exact this
  | cons s r ih =>
    intro P t m n0 n1 n2 rp rest ht hsegs hS hst
    obtain ⟨hs1, hs2⟩ := hsegs s List.mem_cons_self
    have hS' : S.drop (m + escCount esc t) = stashOf esc s.t ++ stashOfM esc r ++ rest := by
      have : S.drop (m + escCount esc t) = (S.drop m).drop (escCount esc t) := by rw [List.drop_drop]
      rw [this, hS]
      simp [escCount, stashOfM, List.append_assoc]
    have hK' := nextOK_node S nested (g + costC esc s.t r) (idxM n0 n1 n2 s.k)
      (resid esc (m + escCount esc t) s.t ++ stageM esc 3 true (m + escCount esc t + escCount esc s.t)
        (bump 0 s.k n0) (bump 1 s.k n1) (bump 2 s.k n2) r ++ Z)
      s.k.node hst.1 hs2
    have := ppLoop_seg esc S nested _ _ _ hK' t P [] m rp (stashOfM esc (s :: r) ++ rest)
      (by simp) ht (by simpa [List.append_assoc] using hS)
    simp only [List.append_nil, List.nil_append] at this
    simp only [stageM, itemM3, costC, foldM, if_true]
    rw [show g + (escCount esc t + 1 + costC esc s.t r) = g + costC esc s.t r + 1 + escCount esc t by omega]
    have e1 : P ++ resid esc m t ++ (placeholder (idxM n0 n1 n2 s.k) ++ (resid esc (m + escCount esc t) s.t ++
        stageM esc 3 true (m + escCount esc t + escCount esc s.t) (bump 0 s.k n0) (bump 1 s.k n1) (bump 2 s.k n2) r)) ++ Z =
        P ++ resid esc m t ++ (placeholder (idxM n0 n1 n2 s.k) ++ (resid esc (m + escCount esc t) s.t ++
        stageM esc 3 true (m + escCount esc t + escCount esc s.t) (bump 0 s.k n0) (bump 1 s.k n1) (bump 2 s.k n2) r ++ Z)) := by
      simp [List.append_assoc]
    rw [e1, this]
    have := ih (P ++ resid esc m t ++ placeholder (idxM n0 n1 n2 s.k)) s.t (m + escCount esc t)
      (bump 0 s.k n0) (bump 1 s.k n1) (bump 2 s.k n2)
      (s.k.node :: (lt (coded esc t) rp).1, (lt (coded esc t) rp).2) rest hs1
      (fun x hx => hsegs x (List.mem_cons_of_mem _ hx)) hS' hst.2
    simp only [List.append_assoc] at this ⊢
    exact this

theorem costM_eq (esc : List Char) (segs : List MSeg) : ∀ t, costM esc t segs = costC esc t segs + 1 := by
  induction segs with
  | nil => intro t; rfl
  | cons s r ih => intro t; simp only [costM, costC, ih]; omega

/-! ### the `<a>` element rebuilt from the stash -/

/-- the `<a>` element of a use after `__processPlaceholders`: the items of the link text as children -/
def aNode (esc : List Char) (url : Str) (title : Option Str) (T : Chunk) : Node :=
  { tag := .name "a".toList,
    attrs := ("href".toList, url) :: (if Node.truthy title then [("title".toList, title.getD [])] else []),
    text := optStr (coded esc T.t0), children := T.segs.map (tailedM esc) }

/-- the `<a>` element without text -/
def aBase (url : Str) (title : Option Str) : Node :=
  { tag := .name "a".toList,
    attrs := ("href".toList, url) :: (if Node.truthy title then [("title".toList, title.getD [])] else []) }

/-- the stash holds the escapes and the items of the chunk where its placeholders say -/
def ChunkAt (esc : List Char) (S : List StashItem) (c : Chunk) (m n0 n1 n2 : Nat) : Prop :=
  (∃ rest, S.drop m = stashOf esc c.t0 ++ stashOfM esc c.segs ++ rest) ∧ MStash S n0 n1 n2 c.segs

/-- the link text shows something: a character that is not a space, or an item -/
def Chunk.Vis (c : Chunk) : Prop := (∃ ch ∈ c.t0, isSpace ch = false) ∨ c.segs ≠ []

theorem stx_space : isSpace Inline.STX = false := by decide

theorem isBlank_stage3 (esc : List Char) (c : Chunk) (m n0 n1 n2 : Nat) (hv : c.Vis) :
    isBlank (c.stage esc 3 true m n0 n1 n2) = false := by
  have key : ∀ (D : Str) (x : Char), x ∈ D → isSpace x = false → isBlank D = false := by
    intro D x hx hs
    cases hb : isBlank D with
    | false => rfl
    | true =>
      have := List.all_eq_true.mp hb x hx
      rw [hs] at this; exact Bool.noConfusion this
  have hstx : ∀ n, Inline.STX ∈ placeholder n := by intro n; simp [placeholder, phPrefix]
  rcases hv with ⟨ch, hch, hsp⟩ | hne
  · -- the character, or the placeholder that stands for it
    have : ∀ (t : Str) (m : Nat), ch ∈ t → ∃ x ∈ resid esc m t, isSpace x = false := by
      intro t
      induction t with
      | nil => intro m h; cases h
      | cons a r ih =>
        intro m h
        by_cases ha : a ∈ esc
        · exact ⟨Inline.STX, by simp [resid, ha, hstx], stx_space⟩
        · rcases List.mem_cons.1 h with e | e
          · exact ⟨ch, by simp [resid, ha, e], hsp⟩
          · obtain ⟨x, hx, hs⟩ := ih m e
            exact ⟨x, by simp [resid, ha, hx], hs⟩
    obtain ⟨x, hx, hs⟩ := this c.t0 m hch
    exact key _ x (by simp [Chunk.stage, hx]) hs
  · cases hs : c.segs with
    | nil => exact absurd hs hne
    | cons s r =>
      refine key _ Inline.STX ?_ stx_space
      simp [Chunk.stage, hs, stageM, itemM3, hstx]

/-- `__processPlaceholders` on the text of a link (a chunk that stands alone), for any parent without text -/
theorem pp_chunk (esc : List Char) (S : List StashItem) (f : Nat) (T : Chunk)
    (m n0 n1 n2 : Nat) (hv : T.Vis) (ht0 : Inline.STX ∉ T.t0) (hsegs : ∀ s ∈ T.segs, Inline.STX ∉ s.t ∧ s.k.clean)
    (hat : ChunkAt esc S T m n0 n1 n2) (par : Node) (hp1 : par.text = none) (hp2 : par.textAtomic = false) :
    processPlaceholders S (f + 2) (T.stage esc 3 true m n0 n1 n2) false par true =
      some (T.segs.map (tailedM esc), { par with text := optStr (coded esc T.t0) }) := by
  obtain ⟨⟨rest, hdrop⟩, hst⟩ := hat
  generalize hX : T.stage esc 3 true m n0 n1 n2 = X
  have hXeq : X = resid esc m T.t0 ++ stageM esc 3 true (m + escCount esc T.t0) n0 n1 n2 T.segs := by
    rw [← hX]; simp [Chunk.stage]
  have hblank : isBlank X = false := by rw [← hX]; exact isBlank_stage3 esc T m n0 n1 n2 hv
  have hXne : X.isEmpty = false := by
    cases X with
    | nil => simp [isBlank] at hblank
    | cons a b => rfl
  have hcost := costM_le esc T.segs T.t0 m n0 n1 n2
  rw [← hXeq, costM_eq] at hcost
  obtain ⟨g, hg⟩ : ∃ g, X.length + 2 = (g + 1) + costC esc T.t0 T.segs := ⟨X.length + 1 - costC esc T.t0 T.segs, by omega⟩
  have hpp := ppLoop_chunk_ctx esc S (procNode fun d a p i => processPlaceholders S (f + 1) d a p i) [] (g + 1)
    _ (nextOK_end S _ g) T.segs [] T.t0 m n0 n1 n2 ([], par) rest ht0
    (fun s hs => ⟨(hsegs s hs).1, procNode_knode S (f + 1) (by omega) s.k (hsegs s hs).2⟩) hdrop hst
  simp only [List.nil_append, List.append_nil, List.length_nil] at hpp
  rw [← hXeq] at hpp
  have hlt : lt (coded esc T.t0) ([], par) = ([], { par with text := optStr (coded esc T.t0) }) := by
    simp only [lt]; exact CodeLaw.linkText_text _ _ hp1 hp2
  rw [hlt, foldM_closed] at hpp
  rw [show f + 2 = (f + 1) + 1 from rfl]
  unfold processPlaceholders
  simp only [hXne, Bool.false_eq_true, if_false, hg, hpp]
  simp

theorem procNode_link (esc : List Char) (S : List StashItem) (f : Nat) (url : Str) (title : Option Str) (T : Chunk)
    (m n0 n1 n2 : Nat) (hv : T.Vis) (ht0 : Inline.STX ∉ T.t0) (hsegs : ∀ s ∈ T.segs, Inline.STX ∉ s.t ∧ s.k.clean)
    (hat : ChunkAt esc S T m n0 n1 n2) :
    procNode (fun d a p i => processPlaceholders S (f + 2) d a p i)
        (InlineRef.linkEl url title (T.stage esc 3 true m n0 n1 n2)) = some (aNode esc url title T) := by
  have hblank := isBlank_stage3 esc T m n0 n1 n2 hv
  have htr : Node.truthy (some (T.stage esc 3 true m n0 n1 n2)) = true := by
    cases hx : T.stage esc 3 true m n0 n1 n2 with
    | nil => rw [hx] at hblank; simp [isBlank] at hblank
    | cons a b => rfl
  rw [InlineRef.linkEl_eq]
  unfold procNode
  simp only [petTail, Node.truthy, Bool.false_eq_true, Bool.false_and, if_false]
  unfold petText
  simp only [htr, blankOpt, Option.getD_some, hblank, Bool.not_false, Bool.and_self, if_true]
  rw [pp_chunk esc S f T m n0 n1 n2 hv ht0 hsegs hat _ rfl rfl]
  simp [procKids, aNode, Node.truthy]

/-! ### the loop over the uses -/

/-- where the stash holds the pieces of the uses: the link text of each (escapes from `m`, code spans from `n0`, its
    emphases from `s`), its `<a>` element, the content after it (emphases from `n1`, `n2`) -/
def UsAt (esc : List Char) (S : List StashItem) : Nat → Nat → Nat → Nat → Nat → List RUse → Prop
  | _, _, _, _, _, [] => True
  | m, n0, s, n1, n2, u :: r =>
    ChunkAt esc S u.T m n0 s (s + u.T.cnt 1) ∧
    S[s + u.T.cnt 1 + u.T.cnt 2]? =
      some (.node (InlineRef.linkEl u.url u.title (u.T.stage esc 3 true m n0 s (s + u.T.cnt 1)))) ∧
    ChunkAt esc S u.C (m + u.T.escs esc) (n0 + u.T.cnt 0) n1 n2 ∧
    UsAt esc S (m + u.T.escs esc + u.C.escs esc) (n0 + u.T.cnt 0 + u.C.cnt 0) (s + u.T.cnt 1 + u.T.cnt 2 + 1)
      (n1 + u.C.cnt 1) (n2 + u.C.cnt 2) r

/-- the state of the loop after the uses -/
def foldU (esc : List Char) : List RUse → List Node × Node → List Node × Node
  | [], rp => rp
  | u :: r, rp => foldU esc r (foldM esc u.C.segs (lt (coded esc u.C.t0) (aNode esc u.url u.title u.T :: rp.1, rp.2)))

def costU (esc : List Char) : List RUse → Nat
  | [] => 1
  | u :: r => 1 + costC esc u.C.t0 u.C.segs + costU esc r

/-- what `__processPlaceholders` needs of the texts: no STX, clean items, a visible link text -/
structure UsePP (u : RUse) : Prop where
  vis : u.T.Vis
  t0 : Inline.STX ∉ u.T.t0
  segs : ∀ s ∈ u.T.segs, Inline.STX ∉ s.t ∧ s.k.clean
  c0 : Inline.STX ∉ u.C.t0
  csegs : ∀ s ∈ u.C.segs, Inline.STX ∉ s.t ∧ s.k.clean

theorem nextOK_uses (esc : List Char) (S : List StashItem) (f : Nat) (us : List RUse) :
    ∀ (m n0 s n1 n2 g : Nat), UsAt esc S m n0 s n1 n2 us → (∀ u ∈ us, UsePP u) →
      NextOK S (procNode fun d a p i => processPlaceholders S (f + 2) d a p i)
        (outStage esc 3 n1 n2 (usOuter esc m n0 s us)) (g + costU esc us)
        (fun _ st => some ((foldU esc us st).1.reverse, (foldU esc us st).2)) := by
  induction us with
  | nil =>
    intro m n0 s n1 n2 g _ _
    simpa [outStage, usOuter, costU, foldU] using nextOK_end S _ g
  | cons u r ih =>
    intro m n0 s n1 n2 g hat hpp
    obtain ⟨hT, hL, hC, hR⟩ := hat
    have hu := hpp u List.mem_cons_self
    have hKr := ih (m + u.T.escs esc + u.C.escs esc) (n0 + u.T.cnt 0 + u.C.cnt 0) (s + u.T.cnt 1 + u.T.cnt 2 + 1)
      (n1 + u.C.cnt 1) (n2 + u.C.cnt 2) g hR (fun x hx => hpp x (List.mem_cons_of_mem _ hx))
    have hlink := procNode_link esc S f u.url u.title u.T m n0 s (s + u.T.cnt 1) hu.vis hu.t0 hu.segs hT
    intro P' B' rp' hB
    have hnode := nextOK_node' S (procNode fun d a p i => processPlaceholders S (f + 2) d a p i)
      (g + costU esc r + costC esc u.C.t0 u.C.segs) (s + u.T.cnt 1 + u.T.cnt 2)
      (u.C.stage esc 3 true (m + u.T.escs esc) (n0 + u.T.cnt 0) n1 n2 ++
        outStage esc 3 (n1 + u.C.cnt 1) (n2 + u.C.cnt 2)
          (usOuter esc (m + u.T.escs esc + u.C.escs esc) (n0 + u.T.cnt 0 + u.C.cnt 0) (s + u.T.cnt 1 + u.T.cnt 2 + 1) r))
      _ _ hL hlink P' B' rp' hB
    obtain ⟨⟨rest, hdrop⟩, hst⟩ := hC
    have hchunk := ppLoop_chunk_ctx esc S (procNode fun d a p i => processPlaceholders S (f + 2) d a p i)
      (outStage esc 3 (n1 + u.C.cnt 1) (n2 + u.C.cnt 2)
        (usOuter esc (m + u.T.escs esc + u.C.escs esc) (n0 + u.T.cnt 0 + u.C.cnt 0) (s + u.T.cnt 1 + u.T.cnt 2 + 1) r))
      (g + costU esc r) _ hKr u.C.segs (P' ++ B' ++ placeholder (s + u.T.cnt 1 + u.T.cnt 2)) u.C.t0
      (m + u.T.escs esc) (n0 + u.T.cnt 0) n1 n2 (aNode esc u.url u.title u.T :: (lt B' rp').1, (lt B' rp').2) rest hu.c0
      (fun x hx => ⟨(hu.csegs x hx).1, procNode_knode S (f + 2) (by omega) x.k (hu.csegs x hx).2⟩) hdrop hst
    simp only [usOuter, outStage, costU, foldU]
    rw [show g + (1 + costC esc u.C.t0 u.C.segs + costU esc r) = (g + costU esc r + costC esc u.C.t0 u.C.segs) + 1
      by omega]
    simp only [Chunk.stage, if_true, List.append_assoc] at hnode hchunk ⊢
    rw [hnode, hchunk]

theorem lt_node (x : Str) (n : Node) (res : List Node) (par : Node) (h1 : n.tail = none) (h2 : n.tailAtomic = false) :
    lt x (n :: res, par) = ({ n with tail := optStr x } :: res, par) := by
  obtain ⟨tag, attrs, text, ta, ch, tl, tla⟩ := n
  simp only at h1 h2; subst h1 h2
  cases x with
  | nil => simp [lt, linkText, optStr]
  | cons c r => simp [lt, linkText, optStr, Node.truthy]

/-- the children the uses give: each `<a>` element with the text after it as tail, then the items of that content -/
def usKids (esc : List Char) : List RUse → List Node
  | [] => []
  | u :: r => { aNode esc u.url u.title u.T with tail := optStr (coded esc u.C.t0) } ::
      (u.C.segs.map (tailedM esc) ++ usKids esc r)

theorem foldU_closed (esc : List Char) (us : List RUse) :
    ∀ (res : List Node) (par : Node), foldU esc us (res, par) = ((usKids esc us).reverse ++ res, par) := by
  induction us with
  | nil => intro res par; rfl
  | cons u r ih =>
    intro res par
    simp only [foldU, lt_node _ (aNode esc u.url u.title u.T) res par rfl rfl, foldM_closed, ih, usKids,
      List.reverse_cons, List.reverse_append, List.append_assoc, List.singleton_append]

theorem costC_le (esc : List Char) (c : Chunk) (m n0 n1 n2 : Nat) :
    costC esc c.t0 c.segs ≤ (c.stage esc 3 true m n0 n1 n2).length := by
  have := costM_le esc c.segs c.t0 m n0 n1 n2
  rw [costM_eq] at this
  simp only [Chunk.stage, if_true]
  omega

theorem costU_le (esc : List Char) (us : List RUse) : ∀ (m n0 s n1 n2 : Nat),
    costU esc us ≤ (outStage esc 3 n1 n2 (usOuter esc m n0 s us)).length + 1 := by
  induction us with
  | nil => intro _ _ _ _ _; simp [costU]
  | cons u r ih =>
    intro m n0 s n1 n2
    have h1 := costC_le esc u.C (m + u.T.escs esc) (n0 + u.T.cnt 0) n1 n2
    have h2 := ih (m + u.T.escs esc + u.C.escs esc) (n0 + u.T.cnt 0 + u.C.cnt 0) (s + u.T.cnt 1 + u.T.cnt 2 + 1)
      (n1 + u.C.cnt 1) (n2 + u.C.cnt 2)
    have h3 := placeholder_length_pos (s + u.T.cnt 1 + u.T.cnt 2)
    simp only [costU, usOuter, outStage, List.length_append]
    omega

/-- **`__processPlaceholders` on the residue of the line**: the items of the first content, then for each use its
    `<a>` element (with the items of the link text as children) and the items of the content after it -/
theorem ppTop_line (esc : List Char) (st : St) (f : Nat) (hf : st.stash.length = f + 1) (C0 : Chunk) (us : List RUse)
    (hne : us ≠ []) (parent : Node) (hp1 : parent.text = none) (hp2 : parent.textAtomic = false)
    (m n0 s n1 n2 : Nat) (h0 : ChunkAt esc st.stash C0 m n0 n1 n2)
    (hus : UsAt esc st.stash (m + C0.escs esc) (n0 + C0.cnt 0) s (n1 + C0.cnt 1) (n2 + C0.cnt 2) us)
    (hc0 : Inline.STX ∉ C0.t0) (hcs : ∀ x ∈ C0.segs, Inline.STX ∉ x.t ∧ x.k.clean) (hpp : ∀ u ∈ us, UsePP u) :
    ppTop st (C0.stage esc 3 true m n0 n1 n2 ++
        outStage esc 3 (n1 + C0.cnt 1) (n2 + C0.cnt 2) (usOuter esc (m + C0.escs esc) (n0 + C0.cnt 0) s us))
      false parent true =
      some (C0.segs.map (tailedM esc) ++ usKids esc us, { parent with text := optStr (coded esc C0.t0) }) := by
  generalize hD : C0.stage esc 3 true m n0 n1 n2 ++
    outStage esc 3 (n1 + C0.cnt 1) (n2 + C0.cnt 2) (usOuter esc (m + C0.escs esc) (n0 + C0.cnt 0) s us) = D
  have hDne : D.isEmpty = false := by
    rw [← hD]
    cases us with
    | nil => exact absurd rfl hne
    | cons u r =>
      have := placeholder_length_pos (s + u.T.cnt 1 + u.T.cnt 2)
      cases hx : C0.stage esc 3 true m n0 n1 n2 with
      | nil =>
        simp only [usOuter, outStage, List.nil_append]
        cases hy : placeholder (s + u.T.cnt 1 + u.T.cnt 2) with
        | nil => rw [hy] at this; simp at this
        | cons a b => rfl
      | cons a b => rfl
  have hc1 := costC_le esc C0 m n0 n1 n2
  have hc2 := costU_le esc us (m + C0.escs esc) (n0 + C0.cnt 0) s (n1 + C0.cnt 1) (n2 + C0.cnt 2)
  have hlen : D.length = (C0.stage esc 3 true m n0 n1 n2).length +
      (outStage esc 3 (n1 + C0.cnt 1) (n2 + C0.cnt 2) (usOuter esc (m + C0.escs esc) (n0 + C0.cnt 0) s us)).length := by
    rw [← hD, List.length_append]
  obtain ⟨g, hg⟩ : ∃ g, D.length + 2 = (g + costU esc us) + costC esc C0.t0 C0.segs :=
    ⟨D.length + 2 - (costU esc us + costC esc C0.t0 C0.segs), by omega⟩
  obtain ⟨⟨rest, hdrop⟩, hst⟩ := h0
  have hK := nextOK_uses esc st.stash f us (m + C0.escs esc) (n0 + C0.cnt 0) s (n1 + C0.cnt 1) (n2 + C0.cnt 2) g hus hpp
  have hloop := ppLoop_chunk_ctx esc st.stash (procNode fun d a p i => processPlaceholders st.stash (f + 2) d a p i)
    _ _ _ hK C0.segs [] C0.t0 m n0 n1 n2 ([], parent) rest hc0
    (fun x hx => ⟨(hcs x hx).1, procNode_knode st.stash (f + 2) (by omega) x.k (hcs x hx).2⟩) hdrop hst
  have hlt : lt (coded esc C0.t0) ([], parent) = ([], { parent with text := optStr (coded esc C0.t0) }) := by
    simp only [lt]; exact CodeLaw.linkText_text _ _ hp1 hp2
  simp only [List.nil_append, List.length_nil, hlt, foldM_closed, foldU_closed] at hloop
  have hD' : resid esc m C0.t0 ++ stageM esc 3 true (m + escCount esc C0.t0) n0 n1 n2 C0.segs ++
      outStage esc 3 (n1 + C0.cnt 1) (n2 + C0.cnt 2) (usOuter esc (m + C0.escs esc) (n0 + C0.cnt 0) s us) = D := by
    rw [← hD]; simp [Chunk.stage]
  rw [hD'] at hloop
  unfold ppTop
  rw [hf, show f + 1 + 2 = (f + 2) + 1 from rfl]
  unfold processPlaceholders
  simp only [hDne, Bool.false_eq_true, if_false, hg, hloop]
  simp

end MdVerif.RefText
