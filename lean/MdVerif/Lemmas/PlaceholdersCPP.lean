/-
C10c: copy of `Lemmas/PlaceholdersBPP.lean` with the invariant `Adj3` (no `](`, no `![`) replaced by `AdjC true` (simple regions
behind `](` and `![`, `Spec/NoCtlC.lean`).  Declarations that do not depend on the invariant are imported from the
original file.  Core Lean only.
-/
import MdVerif.Lemmas.PlaceholdersBPP
import MdVerif.Lemmas.PlaceholdersCAdj

namespace MdVerif.NoCtl
open Py Inline

/-! ### `DomB`, `StrB`, `StrT` -/

theorem strC_none (k : Nat) : StrC k none := ⟨.nil, domB_nil, (adjC_nil true), btDone_nil⟩

theorem strT_noneC (k : Nat) : StrTC k none := ⟨.nil, domB_nil, (adjC_nil true), btDone_nil.safe⟩

theorem StrC.mono {k k' : Nat} (hk : k ≤ k') {t : Option Str} (h : StrC k t) : StrC k' t :=
  ⟨WF.mono hk id h.1, h.2.1, h.2.2.1, h.2.2.2⟩

theorem StrTC.mono {k k' : Nat} (hk : k ≤ k') {t : Option Str} (h : StrTC k t) : StrTC k' t :=
  ⟨WF.mono hk id h.1, h.2.1, h.2.2.1, h.2.2.2⟩

theorem StrC.toT {k : Nat} {t : Option Str} (h : StrC k t) : StrTC k t := ⟨h.1, h.2.1, h.2.2.1, h.2.2.2.safe⟩

theorem strT_of_noCtlC {k : Nat} {s : Str} (h : NoCtl s) (hd : DomB s) (ha : (AdjC true) s) : StrTC k (some s) :=
  ⟨WF.of_noCtl h, hd, ha, btSafe_of_no_stx h.1⟩

/-! ### `linkText`: the string that is being written -/

/-! ### the `while data` loop -/

/-- the output of `processPlaceholders`: an element of the tree whose own text and tail are clean -/
def OutC (k : Nat) (n : Node) : Prop := n.Forall (WNodeC k) ∧ CleanB n

/-- a produced element whose tail is still being written -/
def HeadOKC (k : Nat) (n : Node) : Prop :=
  ({ n with tail := none, tailAtomic := false } : Node).Forall (WNodeC k) ∧ WFO true 0 n.text ∧ n.tailAtomic = false

theorem WNodeC.set_tail {k : Nat} {n : Node} (h : WNodeC k n) {t : Option Str} (ht : StrTC k t) :
    WNodeC k { n with tail := t, tailAtomic := false } :=
  ⟨h.1, h.2.1, rfl, ht, h.2.2.2.2.1, h.2.2.2.2.2⟩

theorem HeadOKC.close {k : Nat} {n : Node} (h : HeadOKC k n) (ht : StrC 0 n.tail) : OutC k n := by
  obtain ⟨h1, h2, h3⟩ := h
  rw [Node.forall_iff] at h1
  have e : ({ ({ n with tail := none, tailAtomic := false } : Node) with tail := n.tail, tailAtomic := false } : Node) = n := by
    cases n; simp_all
  refine ⟨?_, h2, ht.1⟩
  rw [Node.forall_iff]
  refine ⟨?_, h1.2⟩
  have := h1.1.set_tail (t := n.tail) (ht.mono (Nat.zero_le _)).toT
  rw [e] at this
  exact this

theorem OutC.head {k : Nat} {n : Node} (h : OutC k n) : HeadOKC k n := by
  obtain ⟨h1, h2⟩ := h
  rw [Node.forall_iff] at h1
  refine ⟨?_, h2.1, h1.1.2.2.1⟩
  rw [Node.forall_iff]
  exact ⟨⟨h1.1.1, h1.1.2.1, rfl, strT_noneC k, h1.1.2.2.2.2.1, h1.1.2.2.2.2.2⟩, h1.2⟩

/-- state of the loop; `rest` is the part of the data that is still to be read -/
structure PPInvC (k : Nat) (isText : Bool) (parent0 : Node) (result : List Node) (parent : Node) (rest : Str) :
    Prop where
  frame : SameFrame parent0 parent
  other : OtherSame isText parent0 parent
  flag : (if isText then parent.textAtomic else parent.tailAtomic) = false
  heads : ∀ n ∈ result, HeadOKC k n
  tails : ∀ n ∈ result.tail, StrC 0 n.tail
  pslot : result ≠ [] → StrC 0 (slot isText parent)
  curWF : WF true 0 ((curOf isText result parent).getD []) ∧ DomB ((curOf isText result parent).getD [])
  joint : (AdjC true) ((curOf isText result parent).getD [] ++ rest) ∧ BtDone ((curOf isText result parent).getD [] ++ rest)

theorem linkTextC_spec {k : Nat} {isText : Bool} {parent0 parent : Node} {result : List Node} {text rest : Str}
    (inv : PPInvC k isText parent0 result parent (text ++ rest)) (hw : WF true 0 text) (hd : DomB text) :
    PPInvC k isText parent0 (linkText text false isText result parent).1
      (linkText text false isText result parent).2 rest := by
  have hcur := linkText_cur text false isText result parent
  obtain ⟨f1, f2, f3, f4⟩ := linkText_frame text isText result parent
  refine ⟨inv.frame.trans f1, inv.other.trans f2, ?_, ?_, ?_, ?_, ?_, ?_⟩
  · cases result with
    | nil => exact (f3 rfl).2 inv.flag
    | cons l r => rw [(f4 l r rfl).1]; exact inv.flag
  · cases result with
    | nil => rw [(f3 rfl).1]; intro n hn; cases hn
    | cons l r =>
      obtain ⟨-, l', e1, e2, e3⟩ := f4 l r rfl
      rw [e1]
      intro n hn
      rcases List.mem_cons.1 hn with rfl | hn
      · have hl := inv.heads l (by simp)
        have et : n.text = l.text := congrArg (·.text) e2
        refine ⟨by rw [e2]; exact hl.1, by rw [et]; exact hl.2.1, e3 hl.2.2⟩
      · exact inv.heads n (by simp [hn])
  · cases result with
    | nil => rw [(f3 rfl).1]; intro n hn; cases hn
    | cons l r =>
      obtain ⟨-, l', e1, -, -⟩ := f4 l r rfl
      rw [e1]; exact inv.tails
  · cases result with
    | nil => rw [(f3 rfl).1]; intro h; exact absurd rfl h
    | cons l r => intro _; rw [(f4 l r rfl).1]; exact inv.pslot (by simp)
  · rw [hcur]
    exact ⟨WF.append inv.curWF.1 hw, domB_append.2 ⟨inv.curWF.2, hd⟩⟩
  · rw [hcur, List.append_assoc]
    exact inv.joint

/-! ### `ppLoop` -/

/-- what `nested` must do with a stashed element -/
def NestedOKC (stash : List StashItem) (nested : Node → Option Node) : Prop :=
  ∀ (i : Nat) (n n' : Node), stash[i]? = some (StashItem.node n) → nested n = some n' →
    OutC stash.length n' ∧ n'.tail = none

/-- the final state of the loop -/
structure PPOutC (k : Nat) (isText : Bool) (parent parent' : Node) (res : List Node) : Prop where
  frame : SameFrame parent parent'
  other : OtherSame isText parent parent'
  flag : (if isText then parent'.textAtomic else parent'.tailAtomic) = false
  slotOK : StrC 0 (slot isText parent')
  res : ∀ n ∈ res, OutC k n

theorem PPInvC.finish {k : Nat} {isText : Bool} {parent0 parent : Node} {result : List Node}
    (inv : PPInvC k isText parent0 result parent []) : PPOutC k isText parent0 parent result.reverse := by
  have hcur : StrC 0 (curOf isText result parent) := by
    have := inv.joint
    simp only [List.append_nil] at this
    exact ⟨inv.curWF.1, inv.curWF.2, this.1, this.2⟩
  refine ⟨inv.frame, inv.other, inv.flag, ?_, ?_⟩
  · cases result with
    | nil => exact hcur
    | cons l r => exact inv.pslot (by simp)
  · intro n hn
    have hn' := List.mem_reverse.1 hn
    cases result with
    | nil => cases hn'
    | cons l r =>
      rcases List.mem_cons.1 hn' with rfl | hr
      · exact (inv.heads n (by simp)).close hcur
      · exact (inv.heads n hn').close (inv.tails n hr)

theorem ppLoopC_spec {stash : List StashItem} {nested : Node → Option Node} {data : Str} {isText : Bool}
    {parent0 : Node} (hst : StOKC stash) (hn : NestedOKC stash nested) :
    ∀ (g start : Nat) (result : List Node) (parent : Node) (out : List Node × Node),
      start ≤ data.length → WF true stash.length (data.drop start) → DomB (data.drop start) →
      PPInvC stash.length isText parent0 result parent (data.drop start) →
      ppLoop stash nested data false isText g start result parent = some out →
      PPOutC stash.length isText parent0 out.2 out.1 := by
  intro g
  induction g with
  | zero => intro start result parent out _ _ _ _ h; simp [ppLoop] at h
  | succ g ih =>
    intro start result parent out hle hwf hdom inv h
    have hgt : ¬ start > data.length := by omega
    rw [ppLoop] at h
    simp only [hgt, if_false] at h
    rcases find_ph_wf hwf with ⟨hnone, hw0⟩ | ⟨pre, i, rest, hsplit, hfind, hpre, hi, hrest⟩
    · rw [hnone] at h
      simp only [Option.some.injEq] at h
      subst h
      have inv' : PPInvC stash.length isText parent0 result parent (data.drop start ++ []) := by
        simpa using inv
      exact (linkTextC_spec inv' hw0 hdom).finish
    · rw [hfind] at h
      simp only [] at h
      have hdrop : data.drop (start + pre.length) = placeholder i ++ rest := by
        rw [← List.drop_drop, hsplit, List.drop_left]
      rw [findPh_placeholder hdrop] at h
      simp only [Option.bind_some, stashGet_pad4] at h
      obtain ⟨item, hitem⟩ : ∃ item, stash[i]? = some item := ⟨stash[i], by simp [hi]⟩
      rw [hitem] at h
      simp only [] at h
      have hslice : slice data start (start + pre.length) = pre := by
        simp only [slice]
        rw [List.drop_take]
        have : start + pre.length - start = pre.length := by omega
        rw [this, hsplit, List.take_left]
      have hdpre : DomB pre := hdom.subset (by rw [hsplit]; intro c hc; simp [hc])
      have hdrest : DomB rest := hdom.subset (by rw [hsplit]; intro c hc; simp [hc])
      -- the state after the text in front of the placeholder
      have inv0 : PPInvC stash.length isText parent0 result parent (pre ++ (placeholder i ++ rest)) := by
        rw [← hsplit]; exact inv
      have inv1 : PPInvC stash.length isText parent0
          (if start + pre.length > 0 then linkText (slice data start (start + pre.length)) false isText result parent
            else (result, parent)).1
          (if start + pre.length > 0 then linkText (slice data start (start + pre.length)) false isText result parent
            else (result, parent)).2 (placeholder i ++ rest) := by
        split
        · rw [hslice]; exact linkTextC_spec inv0 hpre hdpre
        · rename_i hz
          have : pre = [] := List.length_eq_zero_iff.1 (by omega)
          subst this
          simpa using inv0
      have hlen : start + pre.length + (placeholder i).length ≤ data.length := by
        have := congrArg List.length hsplit
        simp only [List.length_drop, List.length_append] at this
        omega
      have hrest' : data.drop (start + pre.length + (placeholder i).length) = rest := by
        rw [← List.drop_drop, hdrop, List.drop_left]
      have hitemOK := hst i item hitem
      revert h
      generalize (if start + pre.length > 0 then linkText (slice data start (start + pre.length)) false isText result parent
            else (result, parent)) = st1 at inv1
      obtain ⟨res1, par1⟩ := st1
      simp only at inv1
      intro h
      cases item with
      | node n =>
        simp only [] at h
        cases hnn : nested n with
        | none => simp [hnn] at h
        | some n' =>
          simp only [hnn] at h
          obtain ⟨hout, htail⟩ := hn i n n' hitem hnn
          -- close the current string, open the tail of the new element
          have hcurB : StrC 0 (curOf isText res1 par1) := by
            refine ⟨inv1.curWF.1, inv1.curWF.2, inv1.joint.1.infix ⟨[], placeholder i ++ rest, by simp⟩, ?_⟩
            have := btDone_cut (X := []) (S := (curOf isText res1 par1).getD []) (Y := placeholder i ++ rest)
              (by simpa using inv1.joint.1.1) (by simpa using inv1.joint.2) (by rw [placeholder_head]; decide)
            exact this
          have inv2 : PPInvC stash.length isText parent0 (n' :: res1) par1 rest := by
            refine ⟨inv1.frame, inv1.other, inv1.flag, ?_, ?_, ?_, ?_, ?_⟩
            · intro m hm
              rcases List.mem_cons.1 hm with rfl | hm
              · exact hout.head
              · exact inv1.heads m hm
            · intro m hm
              simp only [List.tail_cons] at hm
              cases res1 with
              | nil => cases hm
              | cons l r =>
                rcases List.mem_cons.1 hm with rfl | hr
                · exact hcurB
                · exact inv1.tails m hr
            · intro _
              cases res1 with
              | nil => exact hcurB
              | cons l r => exact inv1.pslot (by simp)
            · simp only [curOf, htail, Option.getD_none]
              exact ⟨.nil, domB_nil⟩
            · simp only [curOf, htail, Option.getD_none, List.nil_append]
              have hj := inv1.joint
              rw [← List.append_assoc] at hj
              refine ⟨hj.1.infix ⟨(curOf isText res1 par1).getD [] ++ placeholder i, [], by simp⟩, ?_⟩
              have := btDone_cut (X := (curOf isText res1 par1).getD [] ++ placeholder i) (S := rest) (Y := [])
                (by simpa using hj.1.1) (by simpa using hj.2) (by simp)
              exact this
          exact ih _ _ _ out hlen (by rw [hrest']; exact hrest) (by rw [hrest']; exact hdrest)
            (by rw [hrest']; exact inv2) h
      | str s =>
        simp only [] at h
        obtain ⟨s1, s2, s3⟩ := hitemOK
        -- the placeholder is replaced by the stashed string
        have inv2 : PPInvC stash.length isText parent0 res1 par1 (s ++ rest) := by
          refine ⟨inv1.frame, inv1.other, inv1.flag, inv1.heads, inv1.tails, inv1.pslot, inv1.curWF, ?_⟩
          have hj := inv1.joint
          rw [← List.append_assoc] at hj
          rw [← List.append_assoc]
          exact ⟨adjC_replace hj.1 (breaks_placeholder i) s3,
            btDone_replace hj.1.1 hj.2 (by simp [placeholder])
              (by have := placeholder_head i []; rw [List.append_nil] at this; rw [this]; decide)
              (by rw [placeholder_getLast]; decide) s3.1⟩
        exact ih _ _ _ out hlen (by rw [hrest']; exact hrest) (by rw [hrest']; exact hdrest)
          (by rw [hrest']; exact linkTextC_spec inv2 s1 s2) h

/-! ### `procNode`, `processPlaceholders` -/

theorem SNodeC.toW {i k : Nat} {n : Node} (h : SNodeC i n) (hik : i ≤ k) : WNodeC k n := by
  obtain ⟨h1, h2, h3, h4, h5⟩ := h
  refine ⟨h1, h2, h3, (h4.mono hik).toT, ?_, ?_⟩
  · by_cases hc : isCode n = true
    · rw [if_pos hc] at h5
      rw [if_pos h5.1]; exact h5.2.1
    · rw [if_neg hc] at h5
      rw [h5.1]; simp only [Bool.false_eq_true, if_false]
      exact (h5.2.mono hik).toT
  · intro hc
    rw [if_pos hc] at h5; exact h5.1

theorem forall_SNodeC_toW {i k : Nat} (hik : i ≤ k) {n : Node} (h : n.Forall (SNodeC i)) : n.Forall (WNodeC k) :=
  Node.Forall.mono (fun _ hm => hm.toW hik) n h

/-- the contract of `processPlaceholders` -/
structure PPSpecC (stash : List StashItem) (pp : PP) : Prop where
  plain : ∀ (data : Str) (parent : Node) (isText : Bool) (res : List Node) (parent' : Node),
    StrC stash.length (some data) → slot isText parent = none →
    (if isText then parent.textAtomic else parent.tailAtomic) = false →
    pp data false parent isText = some (res, parent') → PPOutC stash.length isText parent parent' res
  atomic : ∀ (data : Str) (parent : Node) (res : List Node) (parent' : Node), data ≠ [] → STX ∉ data →
    Node.truthy parent.text = false →
    pp data true parent true = some (res, parent') →
    res = [] ∧ parent' = { parent with text := some data, textAtomic := true }

theorem strC_zero_of_not_processed {k : Nat} {t : Option Str} (h : StrC k t)
    (hb : (Node.truthy t && !blankOpt t) = false) : StrC 0 t := by
  refine ⟨?_, h.2⟩
  cases t with
  | none => exact .nil
  | some s =>
    cases s with
    | nil => exact .nil
    | cons c r =>
      simp only [Node.truthy, blankOpt, Option.getD_some, Bool.true_and, Bool.not_eq_false'] at hb
      exact WF.of_noCtl (noCtl_of_isBlank hb)

theorem petTailC_spec {stash : List StashItem} {pp : PP} (hpp : PPSpecC stash pp) {c c1 : Node} {res : List Node}
    (ht : StrC stash.length c.tail) (hf : c.tailAtomic = false) (h : petTail pp c = some (c1, res)) :
    SameFrame c c1 ∧ c1.text = c.text ∧ c1.textAtomic = c.textAtomic ∧ StrC 0 c1.tail ∧ c1.tailAtomic = false ∧
      ∀ n ∈ res, OutC stash.length n := by
  unfold petTail at h
  split at h
  · cases hp : pp (c.tail.getD []) c.tailAtomic { c with tail := none, tailAtomic := false } false with
    | none => simp [hp] at h
    | some r =>
      obtain ⟨res', c'⟩ := r
      simp only [hp, Option.some.injEq, Prod.mk.injEq] at h
      obtain ⟨rfl, rfl⟩ := h
      rw [hf] at hp
      have := hpp.plain _ { c with tail := none, tailAtomic := false } false _ _ ht rfl rfl hp
      exact ⟨this.frame, this.other.1, this.other.2, this.slotOK, this.flag, this.res⟩
  · rename_i hb
    simp only [Option.some.injEq, Prod.mk.injEq] at h
    obtain ⟨rfl, rfl⟩ := h
    exact ⟨SameFrame.refl _, rfl, rfl, strC_zero_of_not_processed ht (by simpa using hb), hf, by simp⟩

theorem petTextC_spec {stash : List StashItem} {pp : PP} (hpp : PPSpecC stash pp) {c c2 : Node}
    (ht : StrC stash.length c.text) (hf : c.textAtomic = false) (h : petText pp c = some c2) :
    c2.tag = c.tag ∧ c2.attrs = c.attrs ∧ c2.tail = c.tail ∧ c2.tailAtomic = c.tailAtomic ∧ StrC 0 c2.text ∧
      c2.textAtomic = false ∧ ∃ res, c2.children = res ++ c.children ∧ ∀ n ∈ res, OutC stash.length n := by
  unfold petText at h
  split at h
  · cases hp : pp (c.text.getD []) c.textAtomic { c with text := none, textAtomic := false } true with
    | none => simp [hp] at h
    | some r =>
      obtain ⟨res', c'⟩ := r
      simp only [hp, Option.some.injEq] at h
      subst h
      rw [hf] at hp
      have := hpp.plain _ { c with text := none, textAtomic := false } true _ _ ht rfl rfl hp
      exact ⟨this.frame.1.symm, this.frame.2.1.symm, this.other.1, this.other.2, this.slotOK, this.flag, res',
        by simp [← this.frame.2.2], this.res⟩
  · rename_i hb
    simp only [Option.some.injEq] at h
    subst h
    exact ⟨rfl, rfl, rfl, rfl, strC_zero_of_not_processed ht (by simpa using hb), hf, [], by simp, by simp⟩

/-- `petText` leaves a code element as it is -/
theorem petText_codeC {stash : List StashItem} {pp : PP} (hpp : PPSpecC stash pp) {c c2 : Node}
    (hat : c.textAtomic = true) (hn : NoCtlO c.text) (h : petText pp c = some c2) : c2 = c := by
  unfold petText at h
  split at h
  · rename_i hcond
    cases hp : pp (c.text.getD []) c.textAtomic { c with text := none, textAtomic := false } true with
    | none => simp [hp] at h
    | some r =>
      obtain ⟨res', c'⟩ := r
      simp only [hp, Option.some.injEq] at h
      subst h
      rw [hat] at hp
      simp only [Bool.and_eq_true] at hcond
      obtain ⟨s, hs, hne⟩ : ∃ s, c.text = some s ∧ s ≠ [] := by
        cases hx : c.text with
        | none => rw [hx] at hcond; simp [Node.truthy] at hcond
        | some s =>
          cases s with
          | nil => rw [hx] at hcond; simp [Node.truthy] at hcond
          | cons a b => exact ⟨a :: b, rfl, by simp⟩
      have hd : c.text.getD [] = s := by rw [hs]; rfl
      rw [hd] at hp
      have hstx : STX ∉ s := by have := hn.1; unfold NoCtlO at hn; rw [hd] at hn; exact hn.1
      obtain ⟨r1, r2⟩ := hpp.atomic s { c with text := none, textAtomic := false } res' c' hne hstx rfl hp
      subst r1 r2
      cases c
      simp_all
  · simp only [Option.some.injEq] at h
    exact h.symm

/-! ### one stashed element: tail, text, children -/

/-- tail then text of one element made by a pattern: its own strings are clean afterwards -/
theorem pet_bothC {stash : List StashItem} {pp : PP} (hpp : PPSpecC stash pp) {i : Nat} (hi : i ≤ stash.length)
    {c c1 c2 : Node} {resT : List Node} (hc : SNodeC i c) (h1 : petTail pp c = some (c1, resT))
    (h2 : petText pp c1 = some c2) :
    WNodeC stash.length c2 ∧ CleanB c2 ∧ c2.tail = c1.tail ∧ (c.tail = none → c2.tail = none) ∧
      (∀ n ∈ resT, OutC stash.length n) ∧
      ∃ res, c2.children = res ++ c.children ∧ ∀ n ∈ res, OutC stash.length n := by
  obtain ⟨t1, t2, t3, t4, t5⟩ := hc
  obtain ⟨f1, e1, e2, s1, fl, r1⟩ := petTailC_spec hpp (t4.mono hi) t3 h1
  have htailnone : c.tail = none → c1.tail = none := by
    intro hn
    unfold petTail at h1
    rw [hn] at h1
    simp only [Node.truthy, Bool.false_and, Bool.false_eq_true, if_false, Option.some.injEq, Prod.mk.injEq] at h1
    rw [← h1.1]; exact hn
  by_cases hcode : isCode c = true
  · rw [if_pos hcode] at t5
    obtain ⟨a1, a2, a3, a4⟩ := t5
    have hc2 : c2 = c1 := petText_codeC hpp (by rw [e2]; exact a1) (by rw [e1]; exact a2) h2
    subst hc2
    refine ⟨⟨by rw [← f1.1]; exact t1, by rw [← f1.2.1]; exact t2, fl, (s1.mono (Nat.zero_le _)).toT, ?_, ?_⟩,
      ⟨?_, s1.1⟩, rfl, htailnone, r1, [], by simp [← f1.2.2], by simp⟩
    · rw [e2, if_pos a1, e1]; exact a2
    · intro _; rw [e2]; exact a1
    · unfold WFO; rw [e1]; exact WF.of_noCtl a2
  · rw [if_neg hcode] at t5
    obtain ⟨g1, g2, g3, g4, s2, fl2, res, hres, r2⟩ :=
      petTextC_spec hpp (c := c1) (by rw [e1]; exact t5.2.mono hi) (by rw [e2]; exact t5.1) h2
    have hcode2 : isCode c2 = isCode c := by simp only [isCode, g1, ← f1.1]
    refine ⟨⟨by rw [g1, ← f1.1]; exact t1, by rw [g2, ← f1.2.1]; exact t2, by rw [g4]; exact fl,
      by rw [g3]; exact (s1.mono (Nat.zero_le _)).toT, ?_, ?_⟩, ⟨s2.1, by rw [g3]; exact s1.1⟩, g3,
      fun hn => by rw [g3]; exact htailnone hn, r1, res, by rw [hres, f1.2.2], r2⟩
    · rw [fl2]; simp only [Bool.false_eq_true, if_false]
      exact (s2.mono (Nat.zero_le _)).toT
    · intro hcd; rw [hcode2] at hcd; exact absurd hcd hcode

theorem procKidsC_spec {stash : List StashItem} {pp : PP} (hpp : PPSpecC stash pp) {i : Nat}
    (hi : i ≤ stash.length) :
    ∀ (kids out : List Node), (∀ c ∈ kids, c.Forall (SNodeC i)) → procKids pp kids = some out →
      ∀ m ∈ out, m.Forall (WNodeC stash.length) := by
  intro kids
  induction kids with
  | nil => intro out _ h; simp [procKids] at h; subst h; simp
  | cons c r ih =>
    intro out hk h
    rw [procKids] at h
    cases h1 : petTail pp c with
    | none => simp [h1] at h
    | some p1 =>
      obtain ⟨c1, resT⟩ := p1
      simp only [h1] at h
      cases h2 : petText pp c1 with
      | none => simp [h2] at h
      | some c2 =>
        simp only [h2] at h
        cases h3 : procKids pp r with
        | none => simp [h3] at h
        | some r' =>
          simp only [h3, Option.some.injEq] at h
          subst h
          have hc := hk c (by simp)
          rw [Node.forall_iff] at hc
          obtain ⟨w, -, -, -, rT, res, hres, rX⟩ := pet_bothC hpp hi hc.1 h1 h2
          intro m hm
          simp only [List.mem_cons, List.mem_append] at hm
          rcases hm with (rfl | hm) | hm
          · rw [Node.forall_iff]
            refine ⟨w, ?_⟩
            intro g hg
            rw [hres] at hg
            rcases List.mem_append.1 hg with hg | hg
            · exact (rX g hg).1
            · exact forall_SNodeC_toW hi (hc.2 g hg)
          · exact (rT m hm).1
          · exact ih r' (fun d hd => hk d (by simp [hd])) h3 m hm

theorem procNodeC_spec {stash : List StashItem} {pp : PP} (hpp : PPSpecC stash pp) {i : Nat}
    (hi : i ≤ stash.length) {n n' : Node} (hn : ItemOKC i (.node n)) (h : procNode pp n = some n') :
    OutC stash.length n' ∧ n'.tail = none := by
  obtain ⟨hs, htl⟩ := hn
  rw [Node.forall_iff] at hs
  unfold procNode at h
  simp only [] at h
  cases h1 : petTail pp { n with children := [] } with
  | none => simp [h1] at h
  | some p1 =>
    obtain ⟨n1, tailRes⟩ := p1
    simp only [h1] at h
    cases h2 : petText pp n1 with
    | none => simp [h2] at h
    | some n2 =>
      simp only [h2] at h
      cases h3 : procKids pp n.children with
      | none => simp [h3] at h
      | some kids =>
        simp only [h3, Option.some.injEq] at h
        subst h
        have hs' : SNodeC i { n with children := [] } := by
          obtain ⟨a1, a2, a3, a4, a5⟩ := hs.1
          refine ⟨a1, a2, a3, a4, ?_⟩
          by_cases hc : isCode n = true
          · have hc' : isCode ({ n with children := [] } : Node) = true := hc
            rw [if_pos hc] at a5; rw [if_pos hc']
            exact ⟨a5.1, a5.2.1, rfl, a5.2.2.2⟩
          · have hc' : ¬ isCode ({ n with children := [] } : Node) = true := hc
            rw [if_neg hc] at a5; rw [if_neg hc']; exact a5
        obtain ⟨w, cl, -, tn, rT, res, hres, rX⟩ := pet_bothC hpp hi hs' h1 h2
        have hk := procKidsC_spec hpp hi n.children kids hs.2 h3
        refine ⟨⟨?_, cl⟩, tn htl⟩
        rw [Node.forall_iff]
        refine ⟨w, ?_⟩
        intro g hg
        simp only [List.mem_append] at hg
        rcases hg with (hg | hg) | hg
        · rw [hres] at hg
          simp only [List.append_nil] at hg
          exact (rX g hg).1
        · exact (rT g hg).1
        · exact hk g hg

theorem processPlaceholdersC_spec {stash : List StashItem} (hst : StOKC stash) :
    ∀ f, PPSpecC stash (fun d a p t => processPlaceholders stash f d a p t) := by
  intro f
  induction f with
  | zero =>
    exact ⟨fun _ _ _ _ _ _ _ _ h => by simp [processPlaceholders] at h,
      fun _ _ _ _ _ _ _ h => by simp [processPlaceholders] at h⟩
  | succ f ih =>
    have hnest : NestedOKC stash (procNode (fun d a p t => processPlaceholders stash f d a p t)) := by
      intro i n n' hi hp
      have hlt : i < stash.length := by
        rcases Nat.lt_or_ge i stash.length with h | h
        · exact h
        · rw [List.getElem?_eq_none h] at hi; cases hi
      exact procNodeC_spec ih (Nat.le_of_lt hlt) (hst i _ hi) hp
    constructor
    · intro data parent isText res parent' hs hslot hflag h
      simp only [processPlaceholders] at h
      split at h
      · rename_i he
        simp only [Option.some.injEq, Prod.mk.injEq] at h
        obtain ⟨rfl, rfl⟩ := h
        exact ⟨SameFrame.refl _, OtherSame.refl _ _, hflag, by rw [hslot]; exact strC_none 0, by simp⟩
      · have inv0 : PPInvC stash.length isText parent [] parent (data.drop 0) := by
          refine ⟨SameFrame.refl _, OtherSame.refl _ _, hflag, by simp, by simp, fun h => absurd rfl h, ?_, ?_⟩
          · simp only [curOf, hslot, Option.getD_none]; exact ⟨.nil, domB_nil⟩
          · simp only [curOf, hslot, Option.getD_none, List.nil_append, List.drop_zero]
            exact ⟨hs.2.2.1, hs.2.2.2⟩
        exact ppLoopC_spec hst hnest _ 0 [] parent (res, parent') (Nat.zero_le _) (by simpa using hs.1)
          (by simpa using hs.2.1) inv0 h
    · intro data parent res parent' hne hstx hpt h
      simp only [processPlaceholders] at h
      have he : data.isEmpty = false := by cases data <;> simp_all
      simp only [he, Bool.false_eq_true, if_false] at h
      rw [ppLoop] at h
      have hgt : ¬ (0 > data.length) := by omega
      simp only [hgt, if_false, List.drop_zero, find_ph_none_of_no_stx hstx, Option.some.injEq, Prod.mk.injEq] at h
      obtain ⟨rfl, rfl⟩ := h
      simp [linkText, he, hpt]

theorem ppTopC_spec {st : St} (hst : StOKC st.stash) {data : Str} {isText : Bool} {parent parent' : Node}
    {res : List Node} (hs : StrC st.stash.length (some data)) (hslot : slot isText parent = none)
    (hflag : (if isText then parent.textAtomic else parent.tailAtomic) = false)
    (h : ppTop st data false parent isText = some (res, parent')) :
    PPOutC st.stash.length isText parent parent' res :=
  (processPlaceholdersC_spec hst _).plain data parent isText res parent' hs hslot hflag h

end MdVerif.NoCtl
