/-
Helper lemmas for `Props/C07X.lean`: the stages of `PipelineX.convertX` composed on a fully escaped text without a
line feed under `nl2br` (`EscXNl.lean` adds the line feeds).  Core Lean only.
-/
import MdVerif.Lemmas.EscXDispatch
import MdVerif.Lemmas.EscXInline
import MdVerif.Lemmas.EscXTree

namespace MdVerif.EscX
open Py Escape PipelineX Pipeline

/-! ### the escapable characters with the extensions -/

theorem mem_escX {x : Exts} {cfg : Cfg} {c : Char} (h : c ∈ cfg.esc) : c ∈ escX x cfg := by
  unfold escX
  split
  · exact List.mem_append_left _ h
  · exact h

theorem not_mem_escX {x : Exts} {cfg : Cfg} {c : Char} (h : c ∉ cfg.esc) (hc : c ≠ '|') : c ∉ escX x cfg := by
  unfold escX
  split
  · intro hm
    rcases List.mem_append.1 hm with hm | hm
    · exact h hm
    · exact hc (by simpa using hm)
  · exact h

theorem pipe_mem_escX {x : Exts} {cfg : Cfg} (h : x.tables = true) : '|' ∈ escX x cfg := by
  by_cases hc : '|' ∈ cfg.esc
  · exact mem_escX hc
  · unfold escX; simp [h, hc]

/-! ### preprocessors -/

theorem guardedFrom_append_nl {esc : List Char} (hnl : '\n' ∉ esc) :
    ∀ (s : Str) (b : Bool), guardedFrom esc b s = true → guardedFrom esc b (s ++ ['\n', '\n']) = true := by
  intro s
  induction s with
  | nil => intro b _; simp [guardedFrom, hnl]
  | cons c r ih =>
    intro b h
    simp only [guardedFrom, Bool.and_eq_true, List.cons_append] at h ⊢
    exact ⟨h.1, ih _ h.2⟩

/-- the three preprocessors leave the escaped text as `NormalizeWhitespace` made it; nothing is stashed -/
theorem prepareX_escaped (x : Exts) (cfg : Cfg) (E : List Char) (hnl : '\n' ∉ E) (mt : '`' ∈ E) (m9 : '!' ∈ E)
    (t : Str) (hd : EscDomain t = true) (hamp : '&' ∉ t)
    (hf : x.fencedCode = true → noTildeFence t = true) :
    prepareX x cfg (escAll E t) = .ok (escAll E t ++ ['\n', '\n'], []) := by
  have hdom := hd
  simp only [EscDomain, Bool.and_eq_true] at hdom
  have hn : Normalize.normalize cfg.tab (escAll E t) = escAll E t ++ ['\n', '\n'] :=
    normalize_plain cfg.tab _ (plain_escAll (esc := E) t hdom.1.1.1) (ink_escAll hnl t hdom.1.1.2)
  have hadm : admNonAscii (escAll E t ++ ['\n', '\n']) = false :=
    admNonAscii_guarded m9 _ false (guardedFrom_append_nl hnl _ _ (guardedFrom_escAll E t false))
  have hext : Extract.extract (escAll E t ++ ['\n', '\n']) = escAll E t ++ ['\n', '\n'] := by
    apply extract_no_amp
    intro hm
    rcases List.mem_append.1 hm with hm | hm
    · rcases mem_escAll hm with e | hm
      · exact absurd e (by decide)
      · exact hamp hm
    · exact absurd hm (by decide)
  simp only [prepareX, hn, hadm, Bool.and_false, Bool.false_eq_true, if_false]
  split
  · rename_i hfc
    have h1 : Fenced.fenceFindFrom (escAll E t ++ ['\n', '\n']) 0 = none :=
      Fenced.fenceScan_none_of_lines true 0 _
        (by simpa [Fenced.noFenceLine] using noFenceLine_escAll hnl mt t (hf hfc))
    have h3 : Fenced.fencedRunA (escAll E t ++ ['\n', '\n']) = .ok (escAll E t ++ ['\n', '\n']) [] := by
      simp only [Fenced.fencedRunA, Fenced.fencedLoopA, h1]
    have hcfg : fencedHasConfig ((escAll E t ++ ['\n', '\n']).length + 1) (escAll E t ++ ['\n', '\n']) 0 0 = false := by
      simp only [fencedHasConfig]
      have : Fenced.fenceFindFrom (escAll E t ++ ['\n', '\n']) 0 = none := h1
      rw [this]
    simp only [hcfg, Bool.and_false, Bool.false_eq_true, if_false, h3, hext]
  · rw [hext]

/-! ### the stages up to the serializer -/

theorem treeX_escaped (x : Exts) (cfg : Cfg) (htab : cfg.tab > 0)
    (hbl : cfg.blockLevel = TreeProc.defaultBlockLevel) (hnl : '\n' ∉ escX x cfg) (hsp : ' ' ∉ escX x cfg)
    (m0 : '\\' ∈ escX x cfg) (mt : '`' ∈ escX x cfg) (m1 : '#' ∈ escX x cfg) (m2 : '-' ∈ escX x cfg)
    (m3 : '_' ∈ escX x cfg) (m4 : '*' ∈ escX x cfg) (m5 : '+' ∈ escX x cfg) (m6 : '.' ∈ escX x cfg)
    (m7 : '>' ∈ escX x cfg) (m8 : '[' ∈ escX x cfg) (m9 : '!' ∈ escX x cfg) (mb : '{' ∈ escX x cfg)
    (t : Str) (h : EscDomainFull t = true)
    (hf : x.fencedCode = true → noTildeFence t = true)
    (hdl : x.defList = true → defFreeNl t = true)
    (hnb : x.nl2br = true → '\n' ∉ t) :
    treeX x cfg (escAll (escX x cfg) t) = .ok (prettyDoc t) [] := by
  obtain ⟨hd, hne, hlt, hamp, hstx, hbr⟩ := domainFull_facts t h
  have h3 := prepareX_escaped x cfg (escX x cfg) hnl mt m9 t hd hamp hf
  have h4 := blockXT_single_paragraph hnl hsp m0 mt m1 m2 m3 m4 m5 m6 m7 m8 m9 x.tables
    (fun ht => pipe_mem_escX ht) x.blockCfg cfg.tab htab t (blockDomain_of_domain t hd) hdl
  have hrefs : (refsX x []).reverse = [] := by
    simp only [refsX, BlockExt.refsOf, List.filter_nil, ite_self, List.reverse_nil]
  have h5 := runX_paragraph x.footnotes x.wikilinks x.nl2br { esc := escX x cfg, refs := (refsX x []).reverse }
    ((BlockExt.footnotesOf []).map (·.1)) t hne m0 mt m8 m9 m4 m3 hamp hbr hstx hnb
  dsimp only at h5
  have hcoded : coded (escX x cfg) t ≠ [] := coded_ne_nil hne
  have h6 := unescapeTree_prettyDoc (coded (escX x cfg) t) t hcoded (unescapeText_coded t hstx)
  have hal := attrList_prettyDoc (coded (escX x cfg) t) (brace_not_mem_coded mb t)
  have htoc := fun env => toc_prettyDoc env TreeProc.defaultBlockLevel (coded (escX x cfg) t)
    (strip_coded_ne_marker m8 t)
  have hmk := makeDiv_nil (parseChunkX x cfg) fnCount
  have hdup := fun fn => duplicates_paragraph fn (coded (escX x cfg) t)
  have hab := fun n => abbr_nil n
  simp only [treeX, h3, h4]
  cases hfn : x.footnotes <;> cases hat : x.attrList <;> cases hb : x.abbr <;> cases htc : x.toc <;>
    rw [hfn] at h5 <;>
    simp only [if_true, if_false, Bool.false_eq_true, hmk, h5, hdup, hbl, prettify_paragraph,
      hal, hab, htoc, h6]

/-- **`Markdown.convert` with extensions** on a fully escaped text of the domain -/
theorem convertX_escaped (x : Exts) (cfg : Cfg) (htab : cfg.tab > 0)
    (hbl : cfg.blockLevel = TreeProc.defaultBlockLevel) (hnl : '\n' ∉ escX x cfg) (hsp : ' ' ∉ escX x cfg)
    (m0 : '\\' ∈ escX x cfg) (mt : '`' ∈ escX x cfg) (m1 : '#' ∈ escX x cfg) (m2 : '-' ∈ escX x cfg)
    (m3 : '_' ∈ escX x cfg) (m4 : '*' ∈ escX x cfg) (m5 : '+' ∈ escX x cfg) (m6 : '.' ∈ escX x cfg)
    (m7 : '>' ∈ escX x cfg) (m8 : '[' ∈ escX x cfg) (m9 : '!' ∈ escX x cfg) (mb : '{' ∈ escX x cfg)
    (t : Str) (h : EscDomainFull t = true)
    (hf : x.fencedCode = true → noTildeFence t = true)
    (hdl : x.defList = true → defFreeNl t = true)
    (hnb : x.nl2br = true → '\n' ∉ t) :
    convertX x cfg (escAll (escX x cfg) t) = .ok ("<p>".toList ++ Ser.escCdata t ++ "</p>".toList) := by
  obtain ⟨hd, hne, hlt, hamp, hstx, hbr⟩ := domainFull_facts t h
  have hdom := hd
  simp only [EscDomain, Bool.and_eq_true] at hdom
  have h1 : (escAll (escX x cfg) t).contains '<' = false := by
    cases hc : (escAll (escX x cfg) t).contains '<' with
    | false => rfl
    | true =>
      rcases mem_escAll (List.contains_iff_mem.1 hc) with e | hm
      · exact absurd e (by decide)
      · exact absurd hm hlt
  have hvis := startsVisible_escAll (esc := escX x cfg) t hdom.1.2
  have h2 : Normalize.isBlankDoc (escAll (escX x cfg) t) = false := by
    rw [Normalize.isBlankDoc_eq_all]
    exact isBlank_of_visible hvis
  have h3 := treeX_escaped x cfg htab hbl hnl hsp m0 mt m1 m2 m3 m4 m5 m6 m7 m8 m9 mb t h hf hdl hnb
  simp only [convertX, h1, h2, Exts.unsupported, Bool.false_eq_true, if_false, h3,
    serialize_prettyDoc cfg.fmt t hne]
  exact finishX_paragraph x cfg t hstx

end MdVerif.EscX
