/-
The block stage and a `Sep` predicate of strings (`Lemmas/InlineXInvP.lean`), part 1: `BSep Ok N` lists what the
block processors need beyond `Sep` (line feeds are neutral, and so are the characters of `None`, of the entity
spellings, of the footnote placeholders; lower-casing, `capitalize`, blank-collapsing keep `Ok`); the recognisers
return INFIXES of the block (headers, table cells); tree operations.  Generalises
`Lemmas/PipelineXInertTree.lean` (`Ok s := c ∉ s`).  Core Lean only.
-/
import MdVerif.Lemmas.PipelineXInertTree
import MdVerif.Lemmas.InlineXInvP

namespace MdVerif.BlockExt
open Py Block InlineX

structure BSep (Ok : Str → Prop) (N : Char → Prop) : Prop where
  sep : Sep Ok N
  nl : N '\n'
  none_ : ∀ c ∈ ['N', 'o', 'n', 'e'], N c
  fn1 : ∀ c ∈ FootnotesTree.fnBacklinkText, N c
  fn2 : ∀ c ∈ FootnotesTree.nbspPlaceholder, N c
  lowerOk : ∀ {s : Str}, Ok s → Ok (lower s)
  collapseOk : ∀ {s : Str}, Ok s → Ok (collapseSp s)
  capOk : ∀ {s : Str}, Ok s → Ok (capitalize s)

variable {Ok : Str → Prop} {N : Char → Prop}

theorem BSep.closed (hs : BSep Ok N) : Closed Ok where
  nil := hs.sep.nil
  sub := hs.sep.sub
  joinNl := by
    intro a b ha hb
    have := hs.sep.glue (m := ['\n']) ha hb (by simp) (by intro c hc; simp at hc; exact hc ▸ hs.nl)
    simpa using this

/-- an `Ok` string followed by neutral characters -/
theorem BSep.snoc (hs : BSep Ok N) {a m : Str} (ha : Ok a) (hm : ∀ c ∈ m, N c) : Ok (a ++ m) := by
  cases m with
  | nil => simpa using ha
  | cons x r =>
    have := hs.sep.glue (m := x :: r) (b := []) ha hs.sep.nil (by simp) hm
    simpa using this

theorem blockCodeEscape_ok (hs : BSep Ok N) {t : Str} (h : Ok t) : Ok (Block.codeEscape t) := by
  simp only [Block.codeEscape]
  have k1 : ∀ c ∈ "&amp;".toList, c ∈ ['&', 'a', 'm', 'p', ';', 'l', 't', 'g'] := by decide
  have k2 : ∀ c ∈ "&lt;".toList, c ∈ ['&', 'a', 'm', 'p', ';', 'l', 't', 'g'] := by decide
  have k3 : ∀ c ∈ "&gt;".toList, c ∈ ['&', 'a', 'm', 'p', ';', 'l', 't', 'g'] := by decide
  exact hs.sep.repl1 _ (hs.sep.repl1 _ (hs.sep.repl1 _ h (by decide) (fun c hc => hs.sep.ent c (k1 c hc))) (by decide)
    (fun c hc => hs.sep.ent c (k2 c hc))) (by decide) (fun c hc => hs.sep.ent c (k3 c hc))

theorem fmtOpt_ok (hs : BSep Ok N) {t : Option Str} (h : ∀ s, t = some s → Ok s) : Ok (fmtOpt t) := by
  cases t with
  | none =>
    have key : ∀ c ∈ "None".toList, c ∈ ['N', 'o', 'n', 'e'] := by decide
    exact hs.sep.neut ⟨by decide, fun c hc => hs.none_ c (key c hc)⟩
  | some s => exact h s rfl

/-! ### the recognisers return infixes -/

theorem hashHeader_prefix : ∀ (f : Nat) (s : Str) {hd : Str} {n : Nat}, hashHeader f s = some (hd, n) → hd <+: s := by
  intro f
  induction f with
  | zero => intro s hd n h; simp [hashHeader] at h
  | succ f ih =>
    intro s hd n h
    simp only [hashHeader] at h
    split at h
    · cases h; exact List.nil_prefix
    · split at h
      · cases h
      · rename_i a rr
        split at h
        · split at h
          · rename_i d r'
            split at h
            · cases h
            · split at h
              · rename_i h' n' hrec
                cases h
                obtain ⟨t, ht⟩ := ih _ hrec
                exact ⟨t, by simp [← ht]⟩
              · cases h
          · cases h
        · split at h
          · rename_i h' n' hrec
            cases h
            obtain ⟨t, ht⟩ := ih _ hrec
            exact ⟨t, by simp [← ht]⟩
          · cases h

theorem hashAt_infix {s hd : Str} {lv n : Nat} (h : hashAt s = some (lv, hd, n)) : hd <:+: s := by
  simp only [hashAt] at h
  obtain ⟨k, hk⟩ := firstDown_some h
  split at hk
  · rename_i hd' n' hrec
    cases hk
    exact (hashHeader_prefix _ _ hrec).isInfix.trans (List.drop_suffix _ s).isInfix
  · cases hk

theorem hashSearchNl_infix : ∀ (s : Str) (i : Nat) {st en lv : Nat} {hd : Str},
    hashSearchNl i s = some (st, en, lv, hd) → hd <:+: s := by
  intro s
  induction s with
  | nil => intro i st en lv hd h; simp [hashSearchNl] at h
  | cons a r ih =>
    intro i st en lv hd h
    simp only [hashSearchNl] at h
    split at h
    · split at h
      · rename_i lv' hd' n hat
        cases h
        exact List.infix_cons (hashAt_infix hat)
      · exact List.infix_cons (ih _ h)
    · exact List.infix_cons (ih _ h)

theorem hashSearch_infix {s hd : Str} {st en lv : Nat} (h : hashSearch s = some (st, en, lv, hd)) : hd <:+: s := by
  simp only [hashSearch] at h
  split at h
  · rename_i lv' hd' n hat
    cases h
    exact hashAt_infix hat
  · exact hashSearchNl_infix s 0 h

/-! ### table cells -/

theorem cut_infix : ∀ (ps : List Nat) (pos : Nat) (row : Str), ∀ cell ∈ Tables.cut pos row ps, cell <:+: row := by
  intro ps
  induction ps with
  | nil =>
    intro pos row cell hc
    simp only [Tables.cut, List.mem_singleton] at hc
    exact hc ▸ List.infix_refl _
  | cons p ps ih =>
    intro pos row cell hc
    simp only [Tables.cut, List.mem_cons] at hc
    rcases hc with hc | hc
    · exact hc ▸ (List.take_prefix _ _).isInfix
    · exact (ih _ _ cell hc).trans (List.drop_suffix _ _).isInfix

theorem reverse_tail_prefix (l : Str) : l.reverse.tail.reverse <+: l := by
  have := List.reverse_prefix.mpr (List.tail_suffix l.reverse)
  simpa using this

theorem endBorderSub_ok (hc : Closed Ok) {row r : Str} (hr : Ok row) (h : Tables.endBorderSub row = some r) : Ok r := by
  simp only [Tables.endBorderSub] at h
  by_cases hnl : row.reverse.head? = some '\n'
  · simp only [hnl, if_true] at h
    split at h
    · split at h
      · injection h with h
        rw [← h]
        have hp : row.reverse.tail.tail.reverse <+: row := by
          have h1 := List.reverse_prefix.mpr ((List.tail_suffix row.reverse.tail).trans (List.tail_suffix row.reverse))
          simpa using h1
        have := hc.joinNl (hc.sub hp.isInfix hr) hc.nil
        simpa using this
      · cases h
    · cases h
  · simp only [hnl, if_false] at h
    split at h
    · split at h
      · injection h with h
        rw [← h]
        simp only [List.append_nil]
        exact hc.sub (reverse_tail_prefix row).isInfix hr
      · cases h
    · cases h

theorem splitRow_ok (hc : Closed Ok) (border : Nat) {row : Str} (hr : Ok row) :
    ∀ cell ∈ Tables.splitRow border row, Ok cell := by
  intro cell hcell
  simp only [Tables.splitRow] at hcell
  split at hcell
  · exact hc.sub (cut_infix _ _ _ cell hcell) hr
  · have hrow1 : Ok (if startsWith row ['|'] = true then row.tail else row) := by
      split
      · exact hc.sub (List.tail_suffix row).isInfix hr
      · exact hr
    cases he : Tables.endBorderSub (if startsWith row ['|'] = true then row.tail else row) with
    | none => rw [he] at hcell; exact hc.sub (cut_infix _ _ _ cell hcell) hrow1
    | some r => rw [he] at hcell; exact hc.sub (cut_infix _ _ _ cell hcell) (endBorderSub_ok hc hrow1 he)

theorem buildRow_ok (hc : Closed Ok) (n : Nat) {row : Str} (border : Nat) (hr : Ok row) :
    ∀ cell ∈ Tables.buildRow n row border, Ok cell := by
  intro cell hcell
  simp only [Tables.buildRow, List.mem_map] at hcell
  obtain ⟨i, _, rfl⟩ := hcell
  simp only [Tables.cellAt]
  split
  · rename_i cl hcl
    exact hc.sub (stripP_infix _ _) (splitRow_ok hc border hr cl (List.mem_of_getElem? hcl))
  · exact hc.nil

theorem tableRun_ok (hc : Closed Ok) (border : Nat) (sep : List Str) {block : Str} (hb : Ok block) :
    (∀ cell ∈ (Tables.tableRun border sep block).head, Ok cell) ∧
    (∀ row ∈ (Tables.tableRun border sep block).body, ∀ cell ∈ row, ∀ t, cell = some t → Ok t) := by
  have hline : ∀ l ∈ splitC '\n' block, Ok (stripC ' ' l) :=
    fun l hl => hc.sub ((stripP_infix _ _).trans (mem_lines_infix hl)) hb
  simp only [Tables.tableRun]
  refine ⟨?_, ?_⟩
  · intro cell hcell
    apply buildRow_ok hc _ _ _ cell hcell
    cases hh : splitC '\n' block with
    | nil => exact hc.sub (stripP_infix _ _) hc.nil
    | cons l r => exact hline l (hh ▸ List.mem_cons_self)
  · intro row hrow cell hcell t ht
    split at hrow
    · simp only [List.mem_singleton] at hrow
      rw [hrow] at hcell
      rw [List.mem_replicate] at hcell
      rw [hcell.2] at ht; cases ht
    · obtain ⟨r, hr, rfl⟩ := List.mem_map.mp hrow
      obtain ⟨cl, hcl, rfl⟩ := List.mem_map.mp hcell
      injection ht with ht
      subst ht
      exact buildRow_ok hc _ _ (hline r (List.mem_of_mem_drop hr)) cl hcl

/-! ### tree operations -/

theorem DeepP_el (tag : String) : DeepP Ok (Node.el tag) := by
  rw [DeepP_iff]; refine ⟨?_, ?_, ?_⟩ <;> intro s h <;> cases h

theorem DeepP_leaf {n : Node} (hk : n.children = []) (ht : ∀ s, n.text = some s → Ok s) (htl : n.tail = none) :
    DeepP Ok n := by
  rw [DeepP_iff]
  refine ⟨ht, ?_, ?_⟩
  · intro s hs; rw [htl] at hs; cases hs
  · intro k hk'; rw [hk] at hk'; cases hk'

theorem DeepP_mkText (tag : String) {t : Str} (h : Ok t) : DeepP Ok (mkText tag t) :=
  DeepP_leaf rfl (by intro s hs; simp only [mkText] at hs; cases hs; exact h) rfl

theorem DeepP_last {p k : Node} (hp : DeepP Ok p) (h : p.last? = some k) : DeepP Ok k :=
  DeepP_kids hp k (List.mem_of_getLast? h)

theorem DeepP_nodeAt (k : Nat) : ∀ {p : Node}, DeepP Ok p → DeepP Ok (nodeAt k p) := by
  induction k with
  | zero => intro p hp; exact hp
  | succ k ih =>
    intro p hp
    simp only [nodeAt]
    split
    · rename_i k' hk'
      exact ih (DeepP_last hp hk')
    · exact hp

theorem DeepP_updPath (f : Node → Node) (hf : ∀ s, DeepP Ok s → DeepP Ok (f s)) (k : Nat) :
    ∀ {p : Node}, DeepP Ok p → DeepP Ok (updPath f k p) := by
  induction k with
  | zero => intro p hp; exact hf p hp
  | succ k ih =>
    intro p hp
    simp only [updPath]
    split
    · rename_i k' hk'
      exact DeepP_setLast hp (ih (DeepP_last hp hk'))
    · exact hp

theorem DeepP_textToP (hnil : Ok []) {li : Node} (h : DeepP Ok li) : DeepP Ok (textToP li) := by
  simp only [textToP]
  split
  · have h' := (DeepP_iff li).mp h
    rw [DeepP_iff]
    refine ⟨by intro s hs; cases hs; exact hnil, h'.2.1, ?_⟩
    intro k hk
    simp only [List.mem_cons] at hk
    rcases hk with hk | hk
    · rw [hk, DeepP_iff]
      exact ⟨h'.1, (by intro s hs; simp [Node.el] at hs), (by intro k' hk'; simp [Node.el] at hk')⟩
    · exact h'.2.2 k hk
  · exact h

theorem preCode_deepP {sib code : Node} (hs : DeepP Ok sib) (h : preCode sib = some code) : DeepP Ok code := by
  simp only [preCode] at h
  split at h
  · split at h
    · rename_i code' r hch
      split at h
      · injection h with h
        exact h ▸ DeepP_kids hs code' (by rw [hch]; exact List.mem_cons_self)
      · cases h
    · cases h
  · cases h

theorem DeepP_setCodeText {parent sib code : Node} {t : Str} (hp : DeepP Ok parent) (hs : parent.last? = some sib)
    (hcode : DeepP Ok code) (ht : Ok t) : DeepP Ok (setCodeText parent sib code t) := by
  have hsib := DeepP_last hp hs
  simp only [setCodeText]
  apply DeepP_setLast hp
  have hsib' := (DeepP_iff sib).mp hsib
  rw [DeepP_iff]
  refine ⟨hsib'.1, hsib'.2.1, ?_⟩
  intro k hk
  simp only [List.mem_cons] at hk
  rcases hk with hk | hk
  · rw [hk]
    have hc' := (DeepP_iff code).mp hcode
    rw [DeepP_iff]
    exact ⟨(by intro s hs'; cases hs'; exact ht), hc'.2.1, hc'.2.2⟩
  · exact hsibsub hsib'.2.2 k hk
where
  hsibsub {sib : Node} (h : ∀ k ∈ sib.children, DeepP Ok k) : ∀ k ∈ sib.children.drop 1, DeepP Ok k :=
    fun k hk => h k ((List.drop_suffix 1 _).subset hk)

end MdVerif.BlockExt
