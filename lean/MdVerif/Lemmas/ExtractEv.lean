/-
Helper definitions and lemmas for C04 (event-level model of the raw-HTML extractor, `Model/ExtractEv.lean`).

* `Content S evs S'`, `BalancedBlock tag evs`: the event lists of the content of a raw block / of a balanced block
  element, with the tag-stack discipline of `handle_starttag` / `handle_endtag`.
* `run_content`, `run_block`: what the state machine does on them.
* `natToDec` is injective (placeholders of different indices differ), `matchKey`/`substitute` on a placeholder,
  `subAux` over a placeholder-free prefix: the ingredients of `C04_restore_*`.
Core Lean only.
-/
import MdVerif.Model.ExtractEv

namespace MdVerif.Extract
open Py

/-! ### raw-mode states -/

/-- a state inside a raw block (`inraw`, not `intail`) -/
def rawSt (S : List Str) (C cd sh : List Str) : ExSt :=
  { inraw := true, intail := false, stack := S, cache := C, cleandoc := cd, stash := sh }

theorem runFrom_cons (st : ExSt) (e : Event) (es : List Event) : runFrom st (e :: es) = runFrom (step st e) es := rfl
theorem runFrom_nil (st : ExSt) : runFrom st [] = st := rfl
theorem runFrom_append (st : ExSt) (a b : List Event) : runFrom st (a ++ b) = runFrom (runFrom st a) b := by
  simp [runFrom, List.foldl_append]

theorem step_raw_data (S C cd sh t) : step (rawSt S C cd sh) (.data t) = rawSt S (C ++ [t]) cd sh := by
  simp [step, handleData, rawSt]

theorem step_raw_empty (S C cd sh t isb als bf) :
    step (rawSt S C cd sh) (.empty t isb als bf) = rawSt S (C ++ [t]) cd sh := by
  simp [step, handleEmpty, rawSt]

theorem step_raw_charref (S C cd sh n) :
    step (rawSt S C cd sh) (.charref n) = rawSt S (C ++ [charrefText n]) cd sh := by
  simp [step, handleEmpty, rawSt]

theorem step_raw_entityref (S C cd sh n) :
    step (rawSt S C cd sh) (.entityref n) = rawSt S (C ++ [entityrefText n]) cd sh := by
  simp [step, handleEmpty, rawSt]

theorem step_raw_void (S C cd sh tag text als isb bf) :
    step (rawSt S C cd sh) (.start tag text als isb true bf) = rawSt S (C ++ [text]) cd sh := by
  simp [step, handleStart, handleEmpty, rawSt]

theorem step_raw_open (S C cd sh tag text als isb bf) :
    step (rawSt S C cd sh) (.start tag text als isb false bf) = rawSt (tag :: S) (C ++ [text]) cd sh := by
  simp [step, handleStart, rawSt]

theorem step_raw_close (S C cd sh tag text bf) (hin : tag ∈ S) (hne : popTo tag S ≠ []) :
    step (rawSt S C cd sh) (.end_ tag text bf) = rawSt (popTo tag S) (C ++ [text]) cd sh := by
  simp [step, handleEnd, rawSt, hin, hne]

theorem step_raw_stray (S C cd sh tag text bf) (hin : tag ∉ S) (hne : S ≠ []) :
    step (rawSt S C cd sh) (.end_ tag text bf) = rawSt S (C ++ [text]) cd sh := by
  simp [step, handleEnd, rawSt, hin, hne]

/-- the end tag that empties the stack ends the raw block -/
theorem step_raw_finish (S C cd sh tag text bf) (hin : tag ∈ S) (hemp : popTo tag S = []) :
    step (rawSt S C cd sh) (.end_ tag text bf) =
      { inraw := false, intail := !bf, stack := [], cache := [],
        cleandoc := cd ++ [placeholder sh.length, ['\n', '\n']],
        stash := sh ++ [(C ++ [text] ++ (if bf then [['\n']] else [])).flatten] } := by
  cases bf <;> simp [step, handleEnd, rawSt, hin, hemp, storeAppend]

/-! ### content of a raw block, balanced block elements -/

/-- `Content S evs S'`: `evs` can occur inside a raw block whose tag stack (top first) is `S`; afterwards the stack
    is `S'`, and it never became empty on the way (so the block did not end).  This is the discipline of the code:
    every start tag (except the always-empty `hr`) is pushed whatever its kind; an end tag whose name is somewhere
    on the stack pops everything down to and including the nearest such entry (so unclosed `<br>`, `<img>`, `<li>`
    are popped by the enclosing end tag); an end tag whose name is not on the stack pops nothing. -/
inductive Content : List Str → List Event → List Str → Prop
  | nil (S) : Content S [] S
  | data {S evs S'} (t) : Content S evs S' → Content S (.data t :: evs) S'
  | empty {S evs S'} (t isb als bf) : Content S evs S' → Content S (.empty t isb als bf :: evs) S'
  | charref {S evs S'} (n) : Content S evs S' → Content S (.charref n :: evs) S'
  | entityref {S evs S'} (n) : Content S evs S' → Content S (.entityref n :: evs) S'
  /-- `<hr>` -/
  | void {S evs S'} (tag text als isb bf) : Content S evs S' → Content S (.start tag text als isb true bf :: evs) S'
  /-- any start tag, block or inline, at any column -/
  | open_ {S evs S'} (tag text als isb bf) :
      Content (tag :: S) evs S' → Content S (.start tag text als isb false bf :: evs) S'
  /-- an end tag that closes something but not the outermost element -/
  | close_ {S evs S'} (tag text bf) :
      tag ∈ S → popTo tag S ≠ [] → Content (popTo tag S) evs S' → Content S (.end_ tag text bf :: evs) S'
  /-- an end tag without a start tag -/
  | stray {S evs S'} (tag text bf) : tag ∉ S → Content S evs S' → Content S (.end_ tag text bf :: evs) S'

/-- the events of a block element that starts at a line start with a block-level tag and is closed by its own end
    tag: start tag, content, end tag.  `extra` are start tags left open inside (`<br>`, `<img>` …), none of them
    named `tag`. -/
inductive BalancedBlock (tag : Str) : List Event → Prop
  | mk (text etext : Str) (bf0 bf : Bool) (content : List Event) (extra : List Str) :
      Content [tag] content (extra ++ [tag]) → tag ∉ extra →
      BalancedBlock tag (.start tag text true true false bf0 :: (content ++ [.end_ tag etext bf]))

/-- `blankFollows` of the final end tag of an event list -/
def lastBlankFollows : List Event → Bool
  | [] => false
  | [.end_ _ _ bf] => bf
  | [_] => false
  | _ :: e :: es => lastBlankFollows (e :: es)

theorem lastBlankFollows_append_end (evs : List Event) (tag text bf) :
    lastBlankFollows (evs ++ [.end_ tag text bf]) = bf := by
  induction evs with
  | nil => rfl
  | cons e es ih =>
    cases es with
    | nil => simp [lastBlankFollows]
    | cons e' es' => simpa [lastBlankFollows] using ih

/-- a properly nested element inside a raw block leaves the stack as it found it -/
theorem Content.elem {S inner rest S'} (tag text als isb bf0 etext bf) (hS : S ≠ [])
    (hin : Content (tag :: S) inner (tag :: S)) (hrest : Content S rest S') :
    Content S (.start tag text als isb false bf0 :: (inner ++ .end_ tag etext bf :: rest)) S' := by
  refine Content.open_ tag text als isb bf0 ?_
  have key : ∀ {A evs B}, Content A evs B → B = tag :: S → Content A (evs ++ .end_ tag etext bf :: rest) S' := by
    intro A evs B h
    induction h with
    | nil A =>
      intro hB; subst hB
      exact Content.close_ tag etext bf (by simp) (by simpa [popTo] using hS) (by simpa [popTo] using hrest)
    | data t _ ih => intro hB; exact Content.data t (ih hB)
    | empty t isb als bf _ ih => intro hB; exact Content.empty t isb als bf (ih hB)
    | charref n _ ih => intro hB; exact Content.charref n (ih hB)
    | entityref n _ ih => intro hB; exact Content.entityref n (ih hB)
    | void tag' text' als' isb' bf' _ ih => intro hB; exact Content.void tag' text' als' isb' bf' (ih hB)
    | open_ tag' text' als' isb' bf' _ ih => intro hB; exact Content.open_ tag' text' als' isb' bf' (ih hB)
    | close_ tag' text' bf' h1 h2 _ ih => intro hB; exact Content.close_ tag' text' bf' h1 h2 (ih hB)
    | stray tag' text' bf' h1 _ ih => intro hB; exact Content.stray tag' text' bf' h1 (ih hB)
  exact key hin rfl

theorem Content.append {A a B b C} (h1 : Content A a B) (h2 : Content B b C) : Content A (a ++ b) C := by
  induction h1 with
  | nil A => simpa using h2
  | data t _ ih => exact Content.data t (ih h2)
  | empty t isb als bf _ ih => exact Content.empty t isb als bf (ih h2)
  | charref n _ ih => exact Content.charref n (ih h2)
  | entityref n _ ih => exact Content.entityref n (ih h2)
  | void tag' text' als' isb' bf' _ ih => exact Content.void tag' text' als' isb' bf' (ih h2)
  | open_ tag' text' als' isb' bf' _ ih => exact Content.open_ tag' text' als' isb' bf' (ih h2)
  | close_ tag' text' bf' h1 h2' _ ih => exact Content.close_ tag' text' bf' h1 h2' (ih h2)
  | stray tag' text' bf' h1 _ ih => exact Content.stray tag' text' bf' h1 (ih h2)

/-- inside a raw block, content events only extend `_cache` (by their source text) and move the stack -/
theorem run_content {S evs S'} (h : Content S evs S') :
    S ≠ [] → ∀ C cd sh, runFrom (rawSt S C cd sh) evs = rawSt S' (C ++ evs.map evText) cd sh ∧ S' ≠ [] := by
  induction h with
  | nil S => intro hS C cd sh; simp [runFrom_nil, hS]
  | data t _ ih =>
    intro hS C cd sh; rw [runFrom_cons, step_raw_data]; simpa [evText] using ih hS (C ++ [t]) cd sh
  | empty t isb als bf _ ih =>
    intro hS C cd sh; rw [runFrom_cons, step_raw_empty]; simpa [evText] using ih hS (C ++ [t]) cd sh
  | charref n _ ih =>
    intro hS C cd sh; rw [runFrom_cons, step_raw_charref]; simpa [evText] using ih hS (C ++ [charrefText n]) cd sh
  | entityref n _ ih =>
    intro hS C cd sh; rw [runFrom_cons, step_raw_entityref]; simpa [evText] using ih hS (C ++ [entityrefText n]) cd sh
  | void tag text als isb bf _ ih =>
    intro hS C cd sh; rw [runFrom_cons, step_raw_void]; simpa [evText] using ih hS (C ++ [text]) cd sh
  | open_ tag text als isb bf _ ih =>
    intro hS C cd sh; rw [runFrom_cons, step_raw_open]; simpa [evText] using ih (by simp) (C ++ [text]) cd sh
  | close_ tag text bf h1 h2 _ ih =>
    intro hS C cd sh; rw [runFrom_cons, step_raw_close _ _ _ _ _ _ _ h1 h2]; simpa [evText] using ih h2 (C ++ [text]) cd sh
  | stray tag text bf h1 _ ih =>
    intro hS C cd sh; rw [runFrom_cons, step_raw_stray _ _ _ _ _ _ _ h1 hS]; simpa [evText] using ih hS (C ++ [text]) cd sh

theorem popTo_extra (tag : Str) (extra : List Str) (h : tag ∉ extra) : popTo tag (extra ++ [tag]) = [] := by
  induction extra with
  | nil => simp [popTo]
  | cons t r ih =>
    have ht : t ≠ tag := fun e => h (by simp [e])
    have hr : tag ∉ r := fun e => h (by simp [e])
    simp [popTo, ht, ih hr]

/-- the start tag of a block at a line start, outside raw mode -/
theorem step_block_start (st : ExSt) (tag text bf) (hraw : st.inraw = false) (htail : st.intail = false)
    (hstack : st.stack = []) :
    step st (.start tag text true true false bf) =
      rawSt [tag] (st.cache ++ [text]) (st.cleandoc ++ [['\n']]) st.stash := by
  cases st; simp_all [step, handleStart, rawSt]

/-- the state machine on a balanced block (general form: whatever is left in `_cache` is glued in front) -/
theorem run_block {tag evs} (h : BalancedBlock tag evs) (st : ExSt) (hraw : st.inraw = false)
    (htail : st.intail = false) (hstack : st.stack = []) :
    runFrom st evs =
      { inraw := false, intail := !lastBlankFollows evs, stack := [], cache := [],
        cleandoc := st.cleandoc ++ [['\n'], placeholder st.stash.length, ['\n', '\n']],
        stash := st.stash ++ [st.cache.flatten ++ evsText evs ++ (if lastBlankFollows evs then ['\n'] else [])] } := by
  cases h with
  | mk text etext bf0 bf content extra hc hx =>
    rw [runFrom_cons, step_block_start st tag text bf0 hraw htail hstack, runFrom_append]
    obtain ⟨hrun, _⟩ := run_content hc (by simp) (st.cache ++ [text]) (st.cleandoc ++ [['\n']]) st.stash
    rw [hrun, runFrom_cons, runFrom_nil, step_raw_finish _ _ _ _ _ _ _ (by simp) (popTo_extra tag extra hx)]
    have hl : lastBlankFollows (Event.start tag text true true false bf0 :: (content ++ [Event.end_ tag etext bf])) = bf := by
      have := lastBlankFollows_append_end (Event.start tag text true true false bf0 :: content) tag etext bf
      simpa using this
    rw [hl]
    cases bf <;> simp [evsText, evText]

/-! ### inline events outside raw mode -/

/-- events that `C04_inline_data` speaks about: data, non-block start/end tags, character and entity references -/
def InlineEv : Event → Bool
  | .data _ => true
  | .start _ _ _ isb ise _ => !isb && !ise
  | .end_ _ _ _ => true
  | .charref _ => true
  | .entityref _ => true
  | _ => false

theorem step_inline (st : ExSt) (e : Event) (he : InlineEv e = true) (hraw : st.inraw = false)
    (htail : st.intail = false) : step st e = { st with cleandoc := st.cleandoc ++ [evText e] } := by
  cases st
  cases e <;> simp_all [InlineEv, step, handleData, handleStart, handleEnd, handleEmpty, evText]

theorem run_inline (evs : List Event) : ∀ (st : ExSt), (∀ e ∈ evs, InlineEv e = true) → st.inraw = false →
    st.intail = false → runFrom st evs = { st with cleandoc := st.cleandoc ++ evs.map evText } := by
  induction evs with
  | nil => intro st _ _ _; simp [runFrom_nil]
  | cons e es ih =>
    intro st h hraw htail
    rw [runFrom_cons, step_inline st e (h e (by simp)) hraw htail]
    rw [ih _ (fun x hx => h x (by simp [hx])) (by simpa using hraw) (by simpa using htail)]
    simp

/-! ### placeholders -/

/-- the model's placeholder is the generated `util.HTML_PLACEHOLDER` with `%s` replaced -/
example : Generated.htmlPlaceholder.toList = phPrefix ++ "%s".toList ++ phSuffix := by decide

theorem natToDecAux_acc (f : Nat) : ∀ n acc, natToDecAux f n acc = natToDecAux f n [] ++ acc := by
  induction f with
  | zero => intro n acc; simp [natToDecAux]
  | succ f ih =>
    intro n acc
    by_cases h : n < 10
    · simp [natToDecAux, h]
    · simp only [natToDecAux, h, if_false]
      rw [ih (n / 10) (digitChar n :: acc), ih (n / 10) [digitChar n]]; simp

theorem digitChar_props : ∀ d, d < 10 →
    isAsciiDigitC (Char.ofNat (48 + d)) = true ∧ decimalValue (Char.ofNat (48 + d)) = d := by decide

theorem digitChar_digit (n : Nat) : isAsciiDigitC (digitChar n) = true := by
  have h : n % 10 < 10 := by omega
  exact (digitChar_props (n % 10) h).1

theorem digitChar_value (n : Nat) : decimalValue (digitChar n) = n % 10 := by
  have h : n % 10 < 10 := by omega
  exact (digitChar_props (n % 10) h).2

theorem decToNat_snoc (a : Str) (c : Char) : decToNat (a ++ [c]) = decToNat a * 10 + decimalValue c := by
  simp [decToNat, List.foldl_append]

theorem decToNat_natToDecAux (f : Nat) : ∀ n, n < f → decToNat (natToDecAux f n []) = n := by
  induction f with
  | zero => intro n h; omega
  | succ f ih =>
    intro n hn
    by_cases h : n < 10
    · simp [natToDecAux, h, decToNat, digitChar_value]
    · simp only [natToDecAux, h, if_false]
      rw [natToDecAux_acc, decToNat_snoc, ih (n / 10) (by omega), digitChar_value]; omega

theorem decToNat_natToDec (n : Nat) : decToNat (natToDec n) = n := decToNat_natToDecAux (n + 1) n (by omega)

theorem natToDec_inj {i j : Nat} (h : natToDec i = natToDec j) : i = j := by
  have := congrArg decToNat h; simpa [decToNat_natToDec] using this

theorem natToDecAux_digits (f : Nat) : ∀ n, ∀ c ∈ natToDecAux f n [], isAsciiDigitC c = true := by
  induction f with
  | zero => intro n c hc; simp [natToDecAux] at hc
  | succ f ih =>
    intro n c hc
    by_cases h : n < 10
    · simp [natToDecAux, h] at hc; subst hc; exact digitChar_digit n
    · simp only [natToDecAux, h, if_false] at hc
      rw [natToDecAux_acc] at hc
      rcases List.mem_append.mp hc with hc | hc
      · exact ih _ c hc
      · simp at hc; subst hc; exact digitChar_digit n

theorem natToDec_digits (n : Nat) : ∀ c ∈ natToDec n, isAsciiDigitC c = true := natToDecAux_digits _ n

theorem natToDec_ne_nil (n : Nat) : natToDec n ≠ [] := by
  unfold natToDec
  by_cases h : n < 10
  · simp [natToDecAux, h]
  · simp only [natToDecAux, h, if_false]; rw [natToDecAux_acc]; simp

theorem placeholder_inj {i j : Nat} (h : placeholder i = placeholder j) : i = j := by
  unfold placeholder at h
  rw [List.append_assoc, List.append_assoc] at h
  exact natToDec_inj (List.append_cancel_right (List.append_cancel_left h))

/-! ### matching a placeholder -/

theorem startsWith_append (p r : Str) : startsWith (p ++ r) p = true := by
  induction p with
  | nil => cases r <;> simp [startsWith]
  | cons c p ih => simp [startsWith, ih]

theorem takeWhile_digits (ds r : Str) (hd : ∀ c ∈ ds, isAsciiDigitC c = true) :
    (ds ++ (phSuffix ++ r)).takeWhile isAsciiDigitC = ds := by
  induction ds with
  | nil => simp [phSuffix, isAsciiDigitC]
  | cons c ds ih =>
    have hc : isAsciiDigitC c = true := hd c (by simp)
    simp only [List.cons_append, List.takeWhile_cons, hc, if_true]
    rw [ih (fun x hx => hd x (by simp [hx]))]

theorem matchBare_core (ds r : Str) (hd : ∀ c ∈ ds, isAsciiDigitC c = true) (hne : ds ≠ []) :
    matchBare (phPrefix ++ (ds ++ (phSuffix ++ r))) = some (phPrefix ++ ds ++ phSuffix) := by
  have h5 : ds.isEmpty = false := by cases ds with | nil => exact absurd rfl hne | cons _ _ => rfl
  unfold matchBare
  rw [startsWith_append]
  simp only [if_true, List.drop_left, takeWhile_digits ds r hd, h5, startsWith_append, Bool.not_false, Bool.and_self]

theorem placeholder_assoc (i : Nat) (r : Str) :
    placeholder i ++ r = phPrefix ++ (natToDec i ++ (phSuffix ++ r)) := by
  simp [placeholder]

theorem matchBare_placeholder (i : Nat) (r : Str) : matchBare (placeholder i ++ r) = some (placeholder i) := by
  rw [placeholder_assoc, matchBare_core _ _ (natToDec_digits i) (natToDec_ne_nil i)]; rfl

theorem matchBare_none_of_head (s : Str) (h : s.head? ≠ some '\x02') : matchBare s = none := by
  unfold matchBare
  cases s with
  | nil => simp [startsWith, phPrefix]
  | cons c s =>
    have : c ≠ '\x02' := by simpa using h
    simp [phPrefix, startsWith, this]

theorem placeholder_head (i : Nat) : ∃ t, placeholder i = '\x02' :: t := ⟨_, rfl⟩

theorem matchKey_wrapped (i : Nat) (r : Str) :
    matchKey (pOpen ++ placeholder i ++ pClose ++ r) = some (pOpen ++ placeholder i ++ pClose) := by
  have h1 : startsWith (pOpen ++ placeholder i ++ pClose ++ r) pOpen = true := by
    rw [List.append_assoc, List.append_assoc]; exact startsWith_append _ _
  have h2 : (pOpen ++ placeholder i ++ pClose ++ r).drop 3 = placeholder i ++ (pClose ++ r) := by
    simp [pOpen]
  have h3 : (pOpen ++ placeholder i ++ pClose ++ r).drop (3 + (placeholder i).length) = pClose ++ r := by
    rw [← List.drop_drop, h2, List.drop_left]
  unfold matchKey
  simp only [h1, if_true, h2, matchBare_placeholder, h3, startsWith_append]

theorem matchKey_bare (i : Nat) (r : Str) : matchKey (placeholder i ++ r) = some (placeholder i) := by
  obtain ⟨t, ht⟩ := placeholder_head i
  have h1 : startsWith (placeholder i ++ r) pOpen = false := by
    rw [ht]; simp [pOpen, startsWith]
  unfold matchKey
  simp only [h1, matchBare_placeholder]
  simp

/-! ### the dictionary -/

theorem dictGet_append (a b : List (Str × Str)) (k : Str) :
    dictGet (a ++ b) k = (dictGet b k).or (dictGet a k) := by
  unfold dictGet
  rw [List.reverse_append, List.find?_append]
  cases h : List.find? (fun kv => decide (kv.1 = k)) b.reverse <;> simp

theorem wrapped_ne_bare (i j : Nat) : pOpen ++ placeholder i ++ pClose ≠ placeholder j := by
  obtain ⟨t, ht⟩ := placeholder_head j
  rw [ht]; simp [pOpen]

theorem wrapped_inj {i j : Nat} (h : pOpen ++ placeholder i ++ pClose = pOpen ++ placeholder j ++ pClose) : i = j := by
  rw [List.append_assoc, List.append_assoc] at h
  exact placeholder_inj (List.append_cancel_right (List.append_cancel_left h))

/-- the entries that iteration `m` of the loop in `run` adds -/
def entries (stash : List Str) (m : Nat) : List (Str × Str) :=
  match stash[m]? with
  | some html =>
    (if isBlockLevel html then [(pOpen ++ placeholder m ++ pClose, html)] else []) ++ [(placeholder m, html)]
  | none => []

theorem replacements_succ (stash : List Str) (m : Nat) :
    replacements stash (m + 1) = replacements stash m ++ entries stash m := rfl

theorem dictGet_entries_other (stash : List Str) (m i : Nat) (h : m ≠ i) :
    dictGet (entries stash m) (placeholder i) = none ∧
    dictGet (entries stash m) (pOpen ++ placeholder i ++ pClose) = none := by
  have hb : placeholder m ≠ placeholder i := fun e => h (placeholder_inj e)
  have hw : pOpen ++ placeholder m ++ pClose ≠ pOpen ++ placeholder i ++ pClose := fun e => h (wrapped_inj e)
  have hwb := wrapped_ne_bare m i
  have hbw : placeholder m ≠ pOpen ++ placeholder i ++ pClose := fun e => wrapped_ne_bare i m e.symm
  unfold entries
  cases stash[m]? with
  | none => simp [dictGet]
  | some html =>
    simp only [List.append_assoc] at hw hwb hbw ⊢
    by_cases hbl : isBlockLevel html <;> simp [dictGet, hbl, hb, hw, hwb, hbw]

theorem dictGet_entries_self (stash : List Str) (i : Nat) (raw : Str) (hi : stash[i]? = some raw) :
    dictGet (entries stash i) (placeholder i) = some raw ∧
    (isBlockLevel raw = true → dictGet (entries stash i) (pOpen ++ placeholder i ++ pClose) = some raw) ∧
    (isBlockLevel raw = false → dictGet (entries stash i) (pOpen ++ placeholder i ++ pClose) = none) := by
  have hbw : placeholder i ≠ pOpen ++ placeholder i ++ pClose := fun e => wrapped_ne_bare i i e.symm
  have hwb := wrapped_ne_bare i i
  unfold entries
  rw [hi]
  simp only [List.append_assoc] at hbw ⊢
  by_cases hbl : isBlockLevel raw <;> simp [dictGet, hbl, hbw]

theorem dictGet_wrapped_earlier (stash : List Str) (m : Nat) :
    ∀ k, k ≤ m → dictGet (replacements stash k) (pOpen ++ placeholder m ++ pClose) = none := by
  intro k
  induction k with
  | zero => intro _; simp [replacements, dictGet]
  | succ k ihk =>
    intro hk
    rw [replacements_succ, dictGet_append, (dictGet_entries_other stash k m (by omega)).2, ihk (by omega)]; rfl

theorem dictGet_replacements (stash : List Str) (i : Nat) (raw : Str) (hi : stash[i]? = some raw) :
    ∀ n, i < n →
      dictGet (replacements stash n) (placeholder i) = some raw ∧
      (isBlockLevel raw = true → dictGet (replacements stash n) (pOpen ++ placeholder i ++ pClose) = some raw) ∧
      (isBlockLevel raw = false → dictGet (replacements stash n) (pOpen ++ placeholder i ++ pClose) = none) := by
  intro n
  induction n with
  | zero => intro h; omega
  | succ m ih =>
    intro hlt
    rw [replacements_succ, dictGet_append, dictGet_append]
    by_cases hm : m = i
    · subst hm
      obtain ⟨h1, h2, h3⟩ := dictGet_entries_self stash m raw hi
      refine ⟨by simp [h1], fun hb => by rw [h2 hb]; rfl, fun hb => ?_⟩
      rw [h3 hb, dictGet_wrapped_earlier stash m m (Nat.le_refl m)]; rfl
    · obtain ⟨h1, h2⟩ := dictGet_entries_other stash m i hm
      rw [h1, h2]
      obtain ⟨g1, g2, g3⟩ := ih (by omega)
      exact ⟨by simpa using g1, fun hb => by simpa using g2 hb, fun hb => by simpa using g3 hb⟩

theorem replacements_ne_nil (stash : List Str) (i : Nat) (raw : Str) (hi : stash[i]? = some raw) :
    (replacements stash stash.length).isEmpty = false := by
  have hlt : i < stash.length := by
    rcases List.getElem?_eq_some_iff.mp hi with ⟨h, _⟩; exact h
  have := (dictGet_replacements stash i raw hi stash.length hlt).1
  cases h : replacements stash stash.length with
  | nil => rw [h] at this; simp [dictGet] at this
  | cons _ _ => rfl

/-! ### substitution over a text -/

theorem subAux_skip (d : List (Str × Str)) (a : Str) : ∀ b, subAux d a.length (a ++ b) = subAux d 0 b := by
  induction a with
  | nil => intro b; simp
  | cons c a ih => intro b; simp [subAux, ih]

/-- a prefix in which no match starts is copied -/
theorem subAux_prefix (d : List (Str × Str)) (rest : Str) : ∀ pre : Str,
    (∀ a b, pre = a ++ b → b ≠ [] → matchKey (b ++ rest) = none) →
    subAux d 0 (pre ++ rest) = pre ++ subAux d 0 rest := by
  intro pre
  induction pre with
  | nil => intro _; simp
  | cons c pre ih =>
    intro h
    have h0 : matchKey (c :: (pre ++ rest)) = none := by simpa using h [] (c :: pre) rfl (by simp)
    have : subAux d 0 (c :: (pre ++ rest)) = c :: subAux d 0 (pre ++ rest) := by
      simp [subAux, h0]
    rw [List.cons_append, this, ih (fun a b hab hb => h (c :: a) b (by simp [hab]) hb)]
    rfl

/-- a match at the head is replaced and scanning resumes after it -/
theorem subAux_match (d : List (Str × Str)) (key rest : Str) (hk : key ≠ [])
    (hm : matchKey (key ++ rest) = some key) : subAux d 0 (key ++ rest) = substitute d key ++ subAux d 0 rest := by
  cases key with
  | nil => exact absurd rfl hk
  | cons c k =>
    have hm' : matchKey (c :: (k ++ rest)) = some (c :: k) := by simpa using hm
    have : subAux d 0 (c :: (k ++ rest)) = substitute d (c :: k) ++ subAux d ((c :: k).length - 1) (k ++ rest) := by
      simp [subAux, hm']
    rw [List.cons_append, this]
    simp [subAux_skip]

/-- no match starts inside an `STX`-free prefix that is followed by `<p>` + `STX` -/
theorem noMatch_before_wrapped (b r : Str) (hb : b ≠ []) (hstx : '\x02' ∉ b) :
    matchKey (b ++ ('<' :: 'p' :: '>' :: '\x02' :: r)) = none := by
  have bare : matchBare (b ++ ('<' :: 'p' :: '>' :: '\x02' :: r)) = none := by
    apply matchBare_none_of_head
    cases b with
    | nil => exact absurd rfl hb
    | cons c b => simp at hstx ⊢; exact fun e => hstx.1 e.symm
  have wr : matchBare ((b ++ ('<' :: 'p' :: '>' :: '\x02' :: r)).drop 3) = none := by
    apply matchBare_none_of_head
    match b, hb, hstx with
    | [c], _, _ => simp
    | [c, c1], _, _ => simp
    | [c, c1, c2], _, _ => simp
    | c :: c1 :: c2 :: c3 :: t, _, hstx => simp at hstx ⊢; exact fun e => hstx.2.2.2.1 e.symm
  unfold matchKey
  simp only [wr, bare]
  by_cases hsw : startsWith (b ++ ('<' :: 'p' :: '>' :: '\x02' :: r)) pOpen = true <;> simp [hsw]

/-- no match starts inside an `STX`-free prefix that is followed by a placeholder, unless that prefix is `<p>`
    and `</p>` follows the placeholder -/
theorem noMatch_before_bare (b : Str) (i : Nat) (post : Str) (hb : b ≠ []) (hstx : '\x02' ∉ b)
    (hw : ¬ (b = pOpen ∧ startsWith post pClose = true)) :
    matchKey (b ++ (placeholder i ++ post)) = none := by
  obtain ⟨t, ht⟩ := placeholder_head i
  have bare : matchBare (b ++ (placeholder i ++ post)) = none := by
    apply matchBare_none_of_head
    cases b with
    | nil => exact absurd rfl hb
    | cons c b => simp at hstx ⊢; exact fun e => hstx.1 e.symm
  unfold matchKey
  simp only [bare]
  by_cases hsw : startsWith (b ++ (placeholder i ++ post)) pOpen = true
  · -- then `b` is `<p>` itself or longer
    match b, hb, hstx with
    | [c], _, _ => rw [ht] at hsw; simp [startsWith, pOpen] at hsw
    | [c, c1], _, _ => rw [ht] at hsw; simp [startsWith, pOpen] at hsw
    | [c, c1, c2], _, _ =>
      have hbp : [c, c1, c2] = pOpen := by
        simp [startsWith, pOpen] at hsw; simp [pOpen, hsw]
      have hpost : startsWith post pClose = false := by
        cases h : startsWith post pClose with
        | false => rfl
        | true => exact absurd ⟨hbp, h⟩ hw
      have hd : ([c, c1, c2] ++ (placeholder i ++ post)).drop 3 = placeholder i ++ post := by simp
      have hd2 : ([c, c1, c2] ++ (placeholder i ++ post)).drop (3 + (placeholder i).length) = post := by
        rw [← List.drop_drop, hd, List.drop_left]
      simp only [hsw, if_true, hd, matchBare_placeholder, hd2, hpost]
      simp
    | c :: c1 :: c2 :: c3 :: t', _, hstx =>
      have : matchBare ((c :: c1 :: c2 :: c3 :: t' ++ (placeholder i ++ post)).drop 3) = none := by
        apply matchBare_none_of_head
        simp at hstx ⊢; exact fun e => hstx.2.2.2.1 e.symm
      simp only [hsw, if_true, this]
  · simp [hsw]

/-! ### the restoration theorems -/

theorem substitute_of_get (d : List (Str × Str)) (key v : Str) (h : dictGet d key = some v) :
    substitute d key = v := by
  simp [substitute, h]

theorem not_mem_of_append_right {pre a b : Str} (h : pre = a ++ b) (hpre : '\x02' ∉ pre) : '\x02' ∉ b := by
  subst h; exact fun hb => hpre (List.mem_append.mpr (Or.inr hb))

theorem restore_block (stash : List Str) (i : Nat) (raw pre post : Str)
    (hi : stash[i]? = some raw) (hb : isBlockLevel raw = true) (hpre : '\x02' ∉ pre) :
    restorePass stash (pre ++ pOpen ++ placeholder i ++ pClose ++ post) = pre ++ raw ++ restorePass stash post := by
  have hne := replacements_ne_nil stash i raw hi
  have hlt : i < stash.length := (List.getElem?_eq_some_iff.mp hi).1
  obtain ⟨_, g2, _⟩ := dictGet_replacements stash i raw hi stash.length hlt
  obtain ⟨t, ht⟩ := placeholder_head i
  simp only [restorePass, hne, Bool.false_eq_true, if_false]
  have e1 : pre ++ pOpen ++ placeholder i ++ pClose ++ post = pre ++ ((pOpen ++ placeholder i ++ pClose) ++ post) := by
    simp
  have hr : (pOpen ++ placeholder i ++ pClose) ++ post = '<' :: 'p' :: '>' :: '\x02' :: (t ++ pClose ++ post) := by
    rw [ht]; simp [pOpen]
  rw [e1, subAux_prefix]
  · rw [subAux_match _ _ _ (by simp [pOpen]) (matchKey_wrapped i post), substitute_of_get _ _ _ (g2 hb)]
    simp
  · intro a b hab hbne
    rw [hr]
    exact noMatch_before_wrapped b _ hbne (not_mem_of_append_right hab hpre)

theorem restore_bare (stash : List Str) (i : Nat) (raw pre post : Str)
    (hi : stash[i]? = some raw) (hpre : '\x02' ∉ pre)
    (hw : (¬ ∃ pre1, pre = pre1 ++ pOpen) ∨ startsWith post pClose = false) :
    restorePass stash (pre ++ placeholder i ++ post) = pre ++ raw ++ restorePass stash post := by
  have hne := replacements_ne_nil stash i raw hi
  have hlt : i < stash.length := (List.getElem?_eq_some_iff.mp hi).1
  obtain ⟨g1, _, _⟩ := dictGet_replacements stash i raw hi stash.length hlt
  obtain ⟨t, ht⟩ := placeholder_head i
  simp only [restorePass, hne, Bool.false_eq_true, if_false]
  rw [List.append_assoc, subAux_prefix]
  · rw [subAux_match _ _ _ (by rw [ht]; simp) (matchKey_bare i post), substitute_of_get _ _ _ g1]
    simp
  · intro a b hab hbne
    refine noMatch_before_bare b i post hbne (not_mem_of_append_right hab hpre) ?_
    rintro ⟨hbp, hsw⟩
    rcases hw with hw | hw
    · exact hw ⟨a, by rw [hab, hbp]⟩
    · rw [hw] at hsw; exact Bool.noConfusion hsw

/-! ### `isblocklevel` on a start tag -/

theorem takeWhile_stop (p : Char → Bool) (l r : Str) (c : Char) (hl : ∀ x ∈ l, p x = true) (hc : p c = false) :
    (l ++ c :: r).takeWhile p = l := by
  induction l with
  | nil => simp [hc]
  | cons x l ih =>
    have hx : p x = true := hl x (by simp)
    simp only [List.cons_append, List.takeWhile_cons, hx, if_true]
    rw [ih (fun y hy => hl y (by simp [hy]))]

theorem isBlockLevel_of_tag (name rest : Str) (c : Char) (hc : c = ' ' ∨ c = '>')
    (hname : ∀ x ∈ name, notSpGt x = true) (h0 : ∀ x, name.head? = some x → x ∉ ['/', '!', '?', '@', '%'])
    (hne : name ≠ []) (hb : isBlockLevelTag name = true) :
    isBlockLevel ('<' :: (name ++ c :: rest)) = true := by
  have hcf : notSpGt c = false := by rcases hc with h | h <;> subst h <;> decide
  have htw := takeWhile_stop notSpGt name rest c hname hcf
  cases name with
  | nil => exact absurd rfl hne
  | cons x name' =>
    have hx := h0 x rfl
    simp only [List.mem_cons, List.not_mem_nil, or_false, not_or] at hx
    obtain ⟨hx1, hx2, hx3, hx4, hx5⟩ := hx
    have hg : blockLevelGroup ('<' :: x :: (name' ++ c :: rest)) = some (x :: name') := by
      simp only [blockLevelGroup]
      split
      · rename_i r' heq
        simp at heq; exact absurd heq.1 hx1
      · rw [← List.cons_append, htw]; rfl
    simp only [isBlockLevel, List.cons_append, hg]
    simp [hx2, hx3, hx4, hx5, hb]

/-! ### empty block-level constructs, the stack invariant -/

theorem step_empty_block (st : ExSt) (text : Str) (bf : Bool) (hraw : st.inraw = false) (htail : st.intail = false) :
    step st (.empty text true true bf) =
      { st with
        intail := !bf,
        cleandoc := st.cleandoc ++ (if needsNewline st.cleandoc then [['\n']] else []) ++
                      [placeholder st.stash.length, ['\n', '\n']],
        stash := st.stash ++ [text ++ (if bf then ['\n'] else [])] } := by
  rcases st with ⟨inraw, intail, stack, cache, cd, sh⟩
  simp only at hraw htail
  subst hraw htail
  cases bf <;> cases hn : needsNewline cd <;> simp [step, handleEmpty, storeAppend, hn]

/-- outside raw mode the tag stack is empty -/
def StackInv (st : ExSt) : Prop := st.inraw = false → st.stack = []

theorem handleEmpty_inraw_stack (st : ExSt) (d isb als bf) :
    (handleEmpty st d isb als bf).inraw = st.inraw ∧ (handleEmpty st d isb als bf).stack = st.stack := by
  rcases st with ⟨inraw, intail, stack, cache, cd, sh⟩
  by_cases h1 : (inraw || intail) = true
  · simp [handleEmpty, h1]
  · by_cases h2 : (als && isb) = true
    · cases hn : needsNewline cd <;> cases bf <;> simp [handleEmpty, storeAppend, hn, h1, h2]
    · simp [handleEmpty, h1, h2]

theorem handleData_inraw_stack (st : ExSt) (d) :
    (handleData st d).inraw = st.inraw ∧ (handleData st d).stack = st.stack := by
  rcases st with ⟨inraw, intail, stack, cache, cd, sh⟩
  simp only [handleData]
  generalize (intail && d.contains '\n') = b
  cases b <;> cases inraw <;> simp

theorem step_StackInv (st : ExSt) (e : Event) (h : StackInv st) : StackInv (step st e) := by
  unfold StackInv at *
  cases e with
  | start tag text als isb ise bf =>
    cases ise
    · rcases st with ⟨inraw, intail, stack, cache, cd, sh⟩
      cases inraw
      · have hs : stack = [] := h rfl
        subst hs
        simp only [step, handleStart, Bool.false_eq_true, if_false]
        generalize (isb && (intail || (als && !false))) = b
        cases b <;> simp
      · simp only [step, handleStart, Bool.false_eq_true, if_false]
        generalize (isb && (intail || (als && !true))) = b
        cases b <;> simp
    · simp only [step, handleStart, if_true]
      rw [(handleEmpty_inraw_stack st text isb als bf).1, (handleEmpty_inraw_stack st text isb als bf).2]; exact h
  | end_ tag text bf =>
    rcases st with ⟨inraw, intail, stack, cache, cd, sh⟩
    cases inraw
    · simpa [step, handleEnd] using h
    · by_cases hmem : tag ∈ stack
      · by_cases hp : popTo tag stack = [] <;> cases bf <;> simp [step, handleEnd, storeAppend, hmem, hp]
      · by_cases hp : stack = [] <;> cases bf <;> simp [step, handleEnd, storeAppend, hmem, hp]
  | data t => simp only [step]; rw [(handleData_inraw_stack st t).1, (handleData_inraw_stack st t).2]; exact h
  | empty t isb als bf =>
    simp only [step]; rw [(handleEmpty_inraw_stack st t isb als bf).1, (handleEmpty_inraw_stack st t isb als bf).2]; exact h
  | charref n =>
    simp only [step]; rw [(handleEmpty_inraw_stack st _ _ _ _).1, (handleEmpty_inraw_stack st _ _ _ _).2]; exact h
  | entityref n =>
    simp only [step]; rw [(handleEmpty_inraw_stack st _ _ _ _).1, (handleEmpty_inraw_stack st _ _ _ _).2]; exact h
  | close rest =>
    have hd := handleData_inraw_stack st rest
    by_cases hr : rest.isEmpty = true
    · by_cases hc : st.cache.isEmpty = true
      · simpa [step, handleClose, hr, hc] using h
      · simpa [step, handleClose, hr, hc, storeAppend] using h
    · by_cases hc : (handleData st rest).cache.isEmpty = true
      · simp only [step, handleClose, hr, hc, if_true, if_false, Bool.false_eq_true]
        rw [hd.1, hd.2]; exact h
      · simp only [step, handleClose, hr, hc, if_false, Bool.false_eq_true, storeAppend]
        rw [hd.1, hd.2]; exact h

theorem runFrom_StackInv (evs : List Event) : ∀ st, StackInv st → StackInv (runFrom st evs) := by
  induction evs with
  | nil => intro st h; exact h
  | cons e es ih => intro st h; rw [runFrom_cons]; exact ih _ (step_StackInv st e h)

theorem stack_invariant (evs : List Event) : (runEvents evs).inraw = false → (runEvents evs).stack = [] :=
  runFrom_StackInv evs init (fun _ => rfl)

end MdVerif.Extract
