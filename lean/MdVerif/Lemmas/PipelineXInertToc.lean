/-
toc: `TocTreeprocessor.run` leaves a tree without headings and without a `[TOC]` element as it is (`run_id`);
`convertX_toc`: toc is inert when the element tree of the run without toc (`treeX`) is such a tree.
Core Lean only.
-/
import MdVerif.Lemmas.PipelineXInertAttr3

namespace MdVerif.TocTree
open Py

/-- the element is what `replace_marker` looks for: its text, stripped, is the marker and it has no children -/
def isMark (text : Option Str) (children : List Node) : Bool :=
  Node.truthy text && strip (text.getD []) == marker && children.isEmpty

mutual
/-- no `h1`–`h6` and no element whose stripped text is `[TOC]` -/
def tocFree : Node → Bool
  | ⟨tag, _, text, _, children, _, _⟩ => !isHeaderTag tag && !isMark text children && tocFreeKids children
def tocFreeKids : List Node → Bool
  | [] => true
  | c :: r => tocFree c && tocFreeKids r
end

theorem tocFree_eq (n : Node) :
    tocFree n = (!isHeaderTag n.tag && !isMark n.text n.children && tocFreeKids n.children) := by
  cases n; simp [tocFree]

mutual
theorem walkNode_id (env : Env) : ∀ (n : Node) (st : St), tocFree n = true → walkNode env n st = .ok (n, st)
  | ⟨tag, attrs, text, ta, children, tail, tla⟩, st, h => by
    simp only [tocFree, Bool.and_eq_true, Bool.not_eq_true'] at h
    simp only [walkNode, h.1.1, Bool.false_eq_true, if_false]
    rw [walkKids_id env children st h.2]
theorem walkKids_id (env : Env) : ∀ (l : List Node) (st : St), tocFreeKids l = true → walkKids env l st = .ok (l, st)
  | [], st, _ => rfl
  | c :: r, st, h => by
    simp only [tocFreeKids, Bool.and_eq_true] at h
    simp only [walkKids]
    rw [walkNode_id env c st h.1]
    simp only []
    rw [walkKids_id env r st h.2]
end

mutual
theorem replNode_id (div : Node) : ∀ (n : Node), tocFreeKids n.children = true → replNode div n = n
  | ⟨tag, attrs, text, ta, children, tail, tla⟩, h => by
    simp only [replNode]
    rw [replKids_id div children h]
theorem replKids_id (div : Node) : ∀ (l : List Node), tocFreeKids l = true → replKids div l = l
  | [], _ => rfl
  | c :: r, h => by
    simp only [tocFreeKids, Bool.and_eq_true] at h
    have hc := h.1
    rw [tocFree_eq] at hc
    simp only [Bool.and_eq_true, Bool.not_eq_true'] at hc
    have hm : (Node.truthy c.text && strip (c.text.getD []) == marker && c.children.isEmpty) = false := hc.1.2
    simp only [replKids, hm, Bool.false_eq_true, if_false]
    rw [replKids_id div r h.2, replNode_id div c hc.2]
    split <;> rfl
end

/-- `TocTreeprocessor.run` on a tree without headings and without a `[TOC]` element (whose `id` attributes can be
    unescaped) -/
theorem run_id (env : Env) (bl : List Str) (t : Node) (h : tocFree t = true) {used : List Str}
    (hu : usedIds (idsOf t) = some used) : run env bl t = .ok t := by
  simp only [run, hu]
  rw [walkNode_id env t _ h]
  simp only []
  rw [tocFree_eq] at h
  simp only [Bool.and_eq_true] at h
  rw [replNode_id _ t h.2]

/-! ### through `UnescapeTreeprocessor` -/

theorem mem_lstripP (p : Char → Bool) {c : Char} : ∀ {s : Str}, c ∈ s → p c = true ∨ c ∈ lstripP p s := by
  intro s
  induction s with
  | nil => intro h; cases h
  | cons d r ih =>
    intro h
    simp only [lstripP]
    split
    · rename_i hd
      rcases List.mem_cons.mp h with h | h
      · left; rw [h]; exact hd
      · exact ih h
    · right; exact h

theorem mem_stripP (p : Char → Bool) {c : Char} {s : Str} (h : c ∈ s) : p c = true ∨ c ∈ stripP p s := by
  simp only [stripP, rstripP]
  rcases mem_lstripP p h with h1 | h1
  · exact Or.inl h1
  · rcases mem_lstripP p (List.mem_reverse.mpr h1) with h2 | h2
    · exact Or.inl h2
    · exact Or.inr (List.mem_reverse.mpr h2)

theorem unescapeText_id : ∀ (s : Str), TreeProc.STX ∉ s → TreeProc.unescapeText 0 s = some s := by
  intro s
  induction s with
  | nil => intro _; rfl
  | cons d r ih =>
    intro h
    have hd : d ≠ TreeProc.STX := fun e => h (e ▸ List.mem_cons_self)
    simp only [TreeProc.unescapeText, hd, if_false, ih (fun hm => h (List.mem_cons_of_mem _ hm)), Option.map_some]

theorem marker_noSTX {s : Str} (h : strip s = marker) : TreeProc.STX ∉ s := by
  intro hm
  rcases mem_stripP isSpace hm with h1 | h1
  · revert h1; decide
  · simp only [strip] at h
    rw [h] at h1
    revert h1; decide

theorem unescapeKids_nil {ks : List Node} (h : TreeProc.unescapeKids [] = some ks) : ks = [] := by
  simp only [TreeProc.unescapeKids] at h
  injection h with h
  exact h.symm

mutual
theorem tocFree_unescape : ∀ (t : Node) {u : Node}, TreeProc.unescapeTree t = some u → tocFree u = true →
    tocFree t = true
  | ⟨tag, attrs, text, ta, children, tail, tla⟩, u, he, hu => by
    simp only [TreeProc.unescapeTree] at he
    split at he
    · rename_i t' tl' a' ks ht' _ _ hks
      injection he with he
      subst he
      simp only [tocFree, Bool.and_eq_true, Bool.not_eq_true'] at hu ⊢
      refine ⟨⟨hu.1.1, ?_⟩, tocFreeKids_unescape children hks hu.2⟩
      -- a marker element stays one
      cases hmk : isMark text children with
      | false => rfl
      | true =>
        exfalso
        simp only [isMark, Bool.and_eq_true, beq_iff_eq] at hmk
        obtain ⟨⟨htr, hst⟩, hemp⟩ := hmk
        have hks' : ks = [] := by
          cases children with
          | nil => exact unescapeKids_nil hks
          | cons _ _ => simp at hemp
        have hte : t' = text := by
          split at ht'
          · cases text with
            | none => simp [Node.truthy] at htr
            | some s =>
              simp only [Option.getD_some] at ht' hst
              rw [unescapeText_id s (marker_noSTX hst)] at ht'
              injection ht' with ht'
              exact ht'.symm
          · injection ht' with ht'
            exact ht'.symm
        have : isMark t' ks = true := by
          rw [hte, hks']
          simp only [isMark, Bool.and_eq_true, beq_iff_eq]
          exact ⟨⟨htr, hst⟩, rfl⟩
        rw [this] at hu
        exact absurd hu.1.2 (by decide)
    · cases he
theorem tocFreeKids_unescape : ∀ (l : List Node) {ks : List Node}, TreeProc.unescapeKids l = some ks →
    tocFreeKids ks = true → tocFreeKids l = true
  | [], _, _, _ => rfl
  | c :: r, ks, he, hu => by
    simp only [TreeProc.unescapeKids] at he
    split at he
    · rename_i c' r' hc' hr'
      injection he with he
      subst he
      simp only [tocFreeKids, Bool.and_eq_true] at hu ⊢
      exact ⟨tocFree_unescape c hc' hu.1, tocFreeKids_unescape r hr' hu.2⟩
    · cases he
end

/-! ### the `id` attributes can be unescaped when the tree can -/

theorem usedIds_isSome : ∀ (l : List Str), (∀ s ∈ l, (TreeProc.unescapeText 0 s).isSome = true) →
    ∃ used, usedIds l = some used := by
  intro l
  induction l with
  | nil => intro _; exact ⟨[], rfl⟩
  | cons a r ih =>
    intro h
    obtain ⟨used, hr⟩ := ih (fun s hs => h s (List.mem_cons_of_mem _ hs))
    have ha := h a List.mem_cons_self
    cases hu : TreeProc.unescapeText 0 a with
    | none => rw [hu] at ha; cases ha
    | some u => exact ⟨u :: used, by simp only [usedIds, hu, hr]⟩

theorem unescAttrs_all : ∀ (attrs : List (Str × Str)) {a : List (Str × Str)}, TreeProc.unescAttrs attrs = some a →
    ∀ kv ∈ attrs, (TreeProc.unescapeText 0 kv.2).isSome = true := by
  intro attrs
  induction attrs with
  | nil => intro a _ kv hkv; cases hkv
  | cons x r ih =>
    intro a h kv hkv
    obtain ⟨k, v⟩ := x
    simp only [TreeProc.unescAttrs] at h
    split at h
    · rename_i v' r' hv hr
      rcases List.mem_cons.mp hkv with e | e
      · rw [e]; simp only [hv]; rfl
      · exact ih hr kv e
    · cases h

mutual
theorem idsOf_unescape : ∀ (t : Node) {u : Node}, TreeProc.unescapeTree t = some u →
    ∀ s ∈ idsOf t, (TreeProc.unescapeText 0 s).isSome = true
  | ⟨tag, attrs, text, ta, children, tail, tla⟩, u, he, s, hs => by
    simp only [TreeProc.unescapeTree] at he
    split at he
    · rename_i t' tl' a' ks _ _ ha hks
      simp only [idsOf, List.mem_append] at hs
      rcases hs with hs | hs
      · split at hs
        · rename_i kv hf
          simp only [List.mem_singleton] at hs
          rw [hs]
          exact unescAttrs_all attrs ha kv (List.mem_of_find?_eq_some hf)
        · cases hs
      · exact idsOfKids_unescape children hks s hs
    · cases he
theorem idsOfKids_unescape : ∀ (l : List Node) {ks : List Node}, TreeProc.unescapeKids l = some ks →
    ∀ s ∈ idsOfKids l, (TreeProc.unescapeText 0 s).isSome = true
  | [], _, _, s, hs => by simp [idsOfKids] at hs
  | c :: r, ks, he, s, hs => by
    simp only [TreeProc.unescapeKids] at he
    split at he
    · rename_i c' r' hc' hr'
      simp only [idsOfKids, List.mem_append] at hs
      rcases hs with hs | hs
      · exact idsOf_unescape c hc' s hs
      · exact idsOfKids_unescape r hr' s hs
    · cases he
end

end MdVerif.TocTree

namespace MdVerif.PipelineX
open Py Pipeline BlockExt InlineX

/-- the tree stage of the run does not raise, and the tree it hands to the serializer has no heading and no
    `[TOC]` element -/
def tocTriggerFree (x : Exts) (cfg : Cfg) (src : Str) : Bool :=
  match treeX x cfg src with
  | .ok u _ => TocTree.tocFree u
  | .err => false
  | _ => true

theorem afterInline_toc (x : Exts) (hx : x.toc = false) (cfg : Cfg) (log : Block.Refs) (t : Node) (xs : InlineX.XSt)
    (h : (match afterInline x cfg log t xs with
          | .ok u _ => TocTree.tocFree u
          | .err => false
          | _ => true) = true) :
    afterInline { x with toc := true } cfg log t xs = afterInline x cfg log t xs := by
  simp only [afterInline, hx, Bool.false_eq_true, if_false, if_true] at h ⊢
  cases hd : (if x.footnotes = true then FootnotesTree.duplicates xs.fn t else some t) with
  | none => rfl
  | some t2 =>
    rw [hd] at h
    simp only [] at h ⊢
    generalize ht3 : (if x.abbr = true then AbbrTree.run (abbrsOf log)
      (if x.attrList = true then AttrListTree.run cfg.blockLevel (TreeProc.prettify t2 cfg.blockLevel)
        else TreeProc.prettify t2 cfg.blockLevel)
      else (if x.attrList = true then AttrListTree.run cfg.blockLevel (TreeProc.prettify t2 cfg.blockLevel)
        else TreeProc.prettify t2 cfg.blockLevel)) = t3 at h ⊢
    cases hu : TreeProc.unescapeTree t3 with
    | none => rw [hu] at h; cases h
    | some u =>
      rw [hu] at h
      simp only [] at h
      have hfree := TocTree.tocFree_unescape t3 hu h
      obtain ⟨used, hused⟩ := TocTree.usedIds_isSome _ (TocTree.idsOf_unescape t3 hu)
      rw [TocTree.run_id _ _ t3 hfree hused]
      simp only [hu]

/-- toc is inert when the element tree of the run without it has no heading and no `[TOC]` element -/
theorem convertX_toc (x : Exts) (hx : x.toc = false) (cfg : Cfg) (src : Str)
    (h : tocTriggerFree x cfg src = true) :
    convertX { x with toc := true } cfg src = convertX x cfg src := by
  apply convertX_of_stages
  · rfl
  · intro _ _ _; rfl
  · intro text stash root log hprep hb
    have ht : treeX x cfg src = lateX x cfg stash root log := by
      rw [treeX_stages, hprep]
      simp only []
      rw [hb]
    simp only [tocTriggerFree, ht] at h
    rw [lateX_eq] at h
    rw [lateX_eq, lateX_eq]
    have hxc : xcOf { x with toc := true } cfg log = xcOf x cfg log := rfl
    rw [hxc]
    cases hrun : InlineX.runX (xcOf x cfg log) root stash with
    | none => rfl
    | some r =>
      obtain ⟨t, xs⟩ := r
      rw [hrun] at h
      exact afterInline_toc x hx cfg log t xs h
  · intro _ _; rfl

end MdVerif.PipelineX
