/-
Lemmas for C05 on the extension model, output level with fenced_code, part 0b: **the HTML stash of `treeX`** is
`fenced ++ ents` with `FEntry` entries (`FencedBlockPreprocessor`) followed by entity references (`entRef`), for every
source, configuration and flag set.  Core Lean only.
-/
import MdVerif.Lemmas.VocabXWFFenceStash

namespace MdVerif.VocabXFence
open Py PipelineX Vocab2
open MdVerif.NoCtl (NoCtl)

/-- the stash of the preprocessors holds `FEntry`s -/
theorem prepareX_fentry {x : Exts} {cfg : Pipeline.Cfg} {src text : Str} {stash : List Str}
    (h : prepareX x cfg src = .ok (text, stash)) : ∀ e ∈ stash, FEntry e := by
  unfold prepareX at h
  simp only at h
  split at h
  · cases h
  · split at h
    · split at h
      · cases h
      · split at h
        · next t' st hr =>
          simp only [FootnotesTree.R.ok.injEq, Prod.mk.injEq] at h
          obtain ⟨_, rfl⟩ := h
          exact fencedRunA_fentry hr (NoCtl.normalize_noctl cfg.tab src)
        · cases h
    · simp only [FootnotesTree.R.ok.injEq, Prod.mk.injEq] at h
      obtain ⟨_, rfl⟩ := h
      intro e he; cases he

/-- an entry of the preprocessor starts with `<`, an entity entry with `&` -/
theorem fentry_not_ent {e : Str} (h1 : FEntry e) (h2 : NoCtlX.EntEntry e) : False := by
  obtain ⟨⟨id, cl, lang, code, rfl⟩, _⟩ := h1
  have hh : (Fenced.blockHtmlA id cl lang code).head? = some '<' := by
    obtain ⟨r, hr⟩ := NoCtlX.blockHtmlA_pre id cl lang code
    rw [hr]; rfl
  unfold NoCtlX.EntEntry MdVerif.NoCtl.entityLike at h2
  generalize Fenced.blockHtmlA id cl lang code = E at hh h2
  simp only [Bool.and_eq_true] at h2
  have h3 := h2.1.1
  rw [hh] at h3
  exact absurd h3 (by decide)

/-- **the HTML stash that `convertX` hands to the postprocessors** -/
theorem treeX_html_fenced {x : Exts} {cfg : Pipeline.Cfg} {src : Str} {u : Node} {html : List Str}
    (h : treeX x cfg src = .ok u html) :
    ∃ text fenced ents, prepareX x cfg src = .ok (text, fenced) ∧ html = fenced ++ ents ∧
      (∀ e ∈ fenced, FEntry e) ∧ AllEnt ents := by
  unfold treeX at h
  split at h
  · cases h
  · cases h
  · next text stash hprep =>
    have hpre := prepareX_fentry hprep
    split at h
    · cases h
    · simp only at h
      split at h
      · cases h
      · cases h
      · split at h
        · cases h
        · next t xs hrun =>
          obtain ⟨ents, hx, hlike⟩ := NoCtlX.runX_html hrun
          have hmem := VocabXOut.Stash.runX_entRef _ hrun
          split at h
          · cases h
          · split at h
            · cases h
            · cases h
            · cases h
            · split at h
              · cases h
              · simp only [TreeResult.ok.injEq] at h
                obtain ⟨_, rfl⟩ := h
                refine ⟨text, stash, ents, hprep, hx, hpre, ?_⟩
                intro e he
                rcases hmem e (by rw [hx]; exact List.mem_append_right _ he) with h' | h'
                · exact (fentry_not_ent (hpre e h') (hlike _ he)).elim
                · exact h'

end MdVerif.VocabXFence
