/-
Helper lemmas for C10, part 4: `handleInline` / `applyPattern` keep the data well formed and the stash closed
(`ids_bounded`), given the contract `FMSpec` of the pattern matchers.  Core Lean only.
-/
import MdVerif.Lemmas.PlaceholdersRun

namespace MdVerif.NoCtl
open Py Inline

/-! ### contracts -/

/-- the contract of the matchers -/
def FMSpec (esc : Bool) (cfg : Cfg) : Prop :=
  ∀ (pi : Nat) (data : Str) (si : Nat) (st : St) (fo : Option Found) (st' : St), pi < patternCount →
    WF esc st.stash.length data → DomS esc data →
    findMatch cfg pi data si st = some (fo, st') →
    st' = st ∧ ∀ f, fo = some f → FoundOK esc st.stash.length data f

/-- the invariant carried through `handleInline` -/
structure HIOut (esc : Bool) (st : St) (d : Str) (st' : St) : Prop where
  wf : WF esc st'.stash.length d
  dom : DomS esc d
  stOK : StOK esc st'.stash
  le : st.stash.length ≤ st'.stash.length
  html : st'.html = st.html

/-- the contract of the nested `handleInline` -/
def HIok (esc : Bool) (hi : HI) : Prop :=
  ∀ (data : Str) (pi : Nat) (st : St) (d : Str) (st' : St), WF esc st.stash.length data → DomS esc data →
    StOK esc st.stash → hi data pi st = some (d, st') → HIOut esc st d st'

/-! ### `hiNode`, `hiNodes` -/

theorem pyDrop_subset (data : Str) (i : Int) : ∀ c ∈ pyDrop data i, c ∈ data :=
  fun _ hc => List.mem_of_mem_drop hc

theorem StOK.push {esc : Bool} {stash : List StashItem} (h : StOK esc stash) {it : StashItem}
    (hit : ItemOK esc stash.length it) : StOK esc (stash ++ [it]) := by
  intro i x hx
  rcases Nat.lt_or_ge i stash.length with hlt | hge
  · rw [List.getElem?_append_left hlt] at hx
    exact h i x hx
  · rw [List.getElem?_append_right hge] at hx
    rcases Nat.eq_zero_or_pos (i - stash.length) with h0 | hpos
    · rw [h0] at hx
      simp only [List.getElem?_cons_zero, Option.some.injEq] at hx
      subst hx
      have : i = stash.length := by omega
      rw [this]; exact hit
    · rw [List.getElem?_eq_none (by simp only [List.length_cons, List.length_nil]; omega)] at hx; cases hx

theorem SNode.mono {esc : Bool} {k k' : Nat} (hk : k ≤ k') {n : Node} (h : SNode esc k n) : SNode esc k' n :=
  ⟨h.1, h.2.1, h.2.2.1.mono hk, h.2.2.2.1.mono hk, h.2.2.2.2⟩

theorem DNode.mono {esc : Bool} {k k' : Nat} (hk : k ≤ k') {n : Node} (h : DNode esc k n) : DNode esc k' n :=
  ⟨h.1.mono hk, h.2⟩

theorem forall_DNode_mono {esc : Bool} {k k' : Nat} (hk : k ≤ k') {n : Node} (h : n.Forall (DNode esc k)) :
    n.Forall (DNode esc k') := Node.Forall.mono (fun _ hm => hm.mono hk) n h

theorem hiOpt_spec {esc : Bool} {hi : HI} (hhi : HIok esc hi) {t t' : Option Str} {atomic : Bool} {pi : Nat}
    {st st' : St} (ht : StrW esc st.stash.length t) (hst : StOK esc st.stash)
    (h : hiOpt hi t atomic pi st = some (t', st')) :
    StrW esc st'.stash.length t' ∧ StOK esc st'.stash ∧ st.stash.length ≤ st'.stash.length ∧ st'.html = st.html := by
  unfold hiOpt at h
  split at h
  · cases hh : hi (t.getD []) pi st with
    | none => simp [hh] at h
    | some r =>
      obtain ⟨d, s'⟩ := r
      simp only [hh, Option.some.injEq, Prod.mk.injEq] at h
      obtain ⟨rfl, rfl⟩ := h
      have := hhi _ _ _ _ _ ht.1 ht.2 hst hh
      exact ⟨⟨this.wf, this.dom⟩, this.stOK, this.le, this.html⟩
  · simp only [Option.some.injEq, Prod.mk.injEq] at h
    obtain ⟨rfl, rfl⟩ := h
    exact ⟨ht, hst, Nat.le_refl _, rfl⟩

theorem hiNode_spec {esc : Bool} {hi : HI} (hhi : HIok esc hi) {pi : Nat} {n n' : Node} {st st' : St}
    (hn : SNode esc st.stash.length n) (hst : StOK esc st.stash) (h : hiNode hi pi n st = some (n', st')) :
    SNode esc st'.stash.length n' ∧ n'.children = n.children ∧ n'.textAtomic = n.textAtomic ∧
    StOK esc st'.stash ∧ st.stash.length ≤ st'.stash.length ∧ st'.html = st.html := by
  unfold hiNode at h
  cases h1 : hiOpt hi n.text n.textAtomic (pi + 1) st with
  | none => simp [h1] at h
  | some r1 =>
    obtain ⟨t, st1⟩ := r1
    simp only [h1] at h
    cases h2 : hiOpt hi n.tail n.tailAtomic pi st1 with
    | none => simp [h2] at h
    | some r2 =>
      obtain ⟨tl, st2⟩ := r2
      simp only [h2, Option.some.injEq, Prod.mk.injEq] at h
      obtain ⟨rfl, rfl⟩ := h
      obtain ⟨a1, a2, a3, a4⟩ := hiOpt_spec hhi hn.2.2.1 hst h1
      obtain ⟨b1, b2, b3, b4⟩ := hiOpt_spec hhi (hn.2.2.2.1.mono a3) a2 h2
      exact ⟨⟨hn.1, hn.2.1, a1.mono b3, b1, hn.2.2.2.2⟩, rfl, rfl, b2, Nat.le_trans a3 b3, b4.trans a4⟩

theorem hiNodes_spec {esc : Bool} {hi : HI} (hhi : HIok esc hi) {pi : Nat} :
    ∀ (l l' : List Node) (st st' : St), (∀ c ∈ l, c.Forall (DNode esc st.stash.length)) → StOK esc st.stash →
      hiNodes hi pi l st = some (l', st') →
      (∀ c ∈ l', c.Forall (DNode esc st'.stash.length)) ∧ StOK esc st'.stash ∧
        st.stash.length ≤ st'.stash.length ∧ st'.html = st.html := by
  intro l
  induction l with
  | nil =>
    intro l' st st' _ hst h
    simp only [hiNodes, Option.some.injEq, Prod.mk.injEq] at h
    obtain ⟨rfl, rfl⟩ := h
    exact ⟨by simp, hst, Nat.le_refl _, rfl⟩
  | cons n r ih =>
    intro l' st st' hl hst h
    simp only [hiNodes] at h
    cases h1 : hiNode hi pi n st with
    | none => simp [h1] at h
    | some r1 =>
      obtain ⟨n', st1⟩ := r1
      simp only [h1] at h
      cases h2 : hiNodes hi pi r st1 with
      | none => simp [h2] at h
      | some r2 =>
        obtain ⟨r', st2⟩ := r2
        simp only [h2, Option.some.injEq, Prod.mk.injEq] at h
        obtain ⟨rfl, rfl⟩ := h
        have hn := hl n (by simp)
        rw [Node.forall_iff] at hn
        obtain ⟨a1, a2, a3, a4, a5, a6⟩ := hiNode_spec hhi hn.1.1 hst h1
        obtain ⟨b1, b2, b3, b4⟩ := ih r' st1 st2
          (fun c hc => forall_DNode_mono a5 (hl c (by simp [hc]))) a4 h2
        refine ⟨?_, b2, Nat.le_trans a5 b3, b4.trans a6⟩
        intro c hc
        rcases List.mem_cons.1 hc with rfl | hc
        · rw [Node.forall_iff]
          refine ⟨⟨a1.mono b3, by rw [a3]; exact hn.1.2⟩, ?_⟩
          intro g hg
          rw [a2] at hg
          exact forall_DNode_mono (Nat.le_trans a5 b3) (hn.2 g hg)
        · exact b1 c hc

/-! ### `applyPattern`, `hiLoop`, `handleInline` -/

/-- the nested `handleInline` calls on the element a pattern returned -/
def elStep (hi : HI) (pi : Nat) (n : Node) (st : St) : Option (Node × St) :=
  if n.text.isSome && n.textAtomic then some (n, st)
  else
    match hiNode hi pi { n with children := [] } st with
    | none => none
    | some (n1, st1) =>
      match hiNodes hi pi n.children st1 with
      | none => none
      | some (kids, st2) => some ({ n1 with children := kids }, st2)

theorem applyPattern_eq (cfg : Cfg) (hi : HI) (pi : Nat) (data : Str) (si : Nat) (st : St) :
    applyPattern cfg hi pi data si st =
      match findMatch cfg pi data si st with
      | none => none
      | some (none, st) => some (data, false, 0, st)
      | some (some f, st) =>
        match f.node with
        | .none => some (data, true, f.stop.toNat, st)
        | .str s => some (data.take f.start ++ (stashNode st (.str s)).1 ++ pyDrop data f.stop, true, 0,
            (stashNode st (.str s)).2)
        | .el n =>
          match elStep hi pi n st with
          | none => none
          | some (n', st1) =>
            some (data.take f.start ++ (stashNode st1 (.node n')).1 ++ pyDrop data f.stop, true, 0,
              (stashNode st1 (.node n')).2) := rfl

theorem elStep_spec {esc : Bool} {hi : HI} (hhi : HIok esc hi) {pi : Nat} {n n' : Node} {st st1 : St}
    (hraw : RawNode esc st.stash.length n) (hst : StOK esc st.stash) (h : elStep hi pi n st = some (n', st1)) :
    ItemOK esc st1.stash.length (.node n') ∧ StOK esc st1.stash ∧ st.stash.length ≤ st1.stash.length ∧
      st1.html = st.html := by
  unfold elStep at h
  split at h
  · simp only [Option.some.injEq, Prod.mk.injEq] at h
    obtain ⟨rfl, rfl⟩ := h
    exact ⟨hraw, hst, Nat.le_refl _, rfl⟩
  · cases h1 : hiNode hi pi { n with children := [] } st with
    | none => simp [h1] at h
    | some r1 =>
      obtain ⟨n1, sa⟩ := r1
      simp only [h1] at h
      cases h2 : hiNodes hi pi n.children sa with
      | none => simp [h2] at h
      | some r2 =>
        obtain ⟨kids, sb⟩ := r2
        simp only [h2, Option.some.injEq, Prod.mk.injEq] at h
        obtain ⟨rfl, rfl⟩ := h
        have hs' : SNode esc st.stash.length { n with children := [] } := hraw.1
        obtain ⟨a1, a2, a3, a4, a5, a6⟩ := hiNode_spec hhi hs' hst h1
        obtain ⟨b1, b2, b3, b4⟩ := hiNodes_spec hhi n.children kids sa sb
          (fun c hc => forall_DNode_mono a5 (hraw.2 c hc)) a4 h2
        exact ⟨⟨a1.mono b3, b1⟩, b2, Nat.le_trans a5 b3, b4.trans a6⟩

theorem splice_out {esc : Bool} {data : Str} {start : Nat} {stop : Int} {st st1 : St} {it : StashItem}
    (hd : DomS esc data) (hs : Splice esc st.stash.length data start stop) (hle : st.stash.length ≤ st1.stash.length)
    (hst : StOK esc st1.stash) (hit : ItemOK esc st1.stash.length it) (hh : st1.html = st.html) :
    HIOut esc st (data.take start ++ (stashNode st1 it).1 ++ pyDrop data stop) (stashNode st1 it).2 := by
  obtain ⟨s1, s2⟩ := hs
  refine ⟨?_, ?_, hst.push hit, by simp [stashNode]; omega, hh⟩
  · simp only [stashNode, List.length_append, List.length_cons, List.length_nil]
    exact WF.append (WF.append (s1.mono (by omega) id) (wf_placeholder (by omega))) (s2.mono (by omega) id)
  · exact domS_append.2 ⟨domS_append.2 ⟨hd.take _, domS_placeholder _ _⟩, hd.subset (pyDrop_subset _ _)⟩

theorem applyPattern_spec {esc : Bool} {cfg : Cfg} (hfm : FMSpec esc cfg) {hi : HI} (hhi : HIok esc hi) {pi : Nat}
    (hpi : pi < patternCount) {data : Str} {si : Nat} {st : St} {d : Str} {m : Bool} {si' : Nat} {st' : St}
    (hw : WF esc st.stash.length data) (hd : DomS esc data) (hst : StOK esc st.stash)
    (h : applyPattern cfg hi pi data si st = some (d, m, si', st')) : HIOut esc st d st' := by
  rw [applyPattern_eq] at h
  cases hf : findMatch cfg pi data si st with
  | none => simp [hf] at h
  | some r =>
    obtain ⟨fo, st0⟩ := r
    obtain ⟨e, hfo⟩ := hfm pi data si st fo st0 hpi hw hd hf
    subst e
    cases fo with
    | none =>
      simp only [hf, Option.some.injEq, Prod.mk.injEq] at h
      obtain ⟨rfl, -, -, rfl⟩ := h
      exact ⟨hw, hd, hst, Nat.le_refl _, rfl⟩
    | some f =>
      have hfo := hfo f rfl
      simp only [hf] at h
      unfold FoundOK at hfo
      cases hnode : f.node with
      | none =>
        simp only [hnode, Option.some.injEq, Prod.mk.injEq] at h
        obtain ⟨rfl, -, -, rfl⟩ := h
        exact ⟨hw, hd, hst, Nat.le_refl _, rfl⟩
      | str s =>
        simp only [hnode] at h hfo
        simp only [Option.some.injEq, Prod.mk.injEq] at h
        obtain ⟨rfl, -, -, rfl⟩ := h
        exact splice_out hd hfo.1 (Nat.le_refl _) hst hfo.2 rfl
      | el n =>
        simp only [hnode] at h hfo
        cases hel : elStep hi pi n st0 with
        | none => simp [hel] at h
        | some r =>
          obtain ⟨n', st1⟩ := r
          simp only [hel, Option.some.injEq, Prod.mk.injEq] at h
          obtain ⟨rfl, -, -, rfl⟩ := h
          obtain ⟨k1, k2, k3, k4⟩ := elStep_spec hhi hfo.2 hst hel
          exact splice_out hd hfo.1 k3 k2 k1 k4

theorem HIOut.trans {esc : Bool} {st st1 st2 : St} {d1 d2 : Str} (h1 : HIOut esc st d1 st1) (h2 : HIOut esc st1 d2 st2) :
    HIOut esc st d2 st2 :=
  ⟨h2.wf, h2.dom, h2.stOK, Nat.le_trans h1.le h2.le, h2.html.trans h1.html⟩

theorem hiLoop_spec {esc : Bool} {ap : Nat → Str → Nat → St → Option (Str × Bool × Nat × St)}
    (hap : ∀ pi data si st d m si' st', pi < patternCount → WF esc st.stash.length data → DomS esc data →
      StOK esc st.stash → ap pi data si st = some (d, m, si', st') → HIOut esc st d st') :
    ∀ (g : Nat) (data : Str) (pi si : Nat) (st : St) (d : Str) (st' : St), WF esc st.stash.length data →
      DomS esc data → StOK esc st.stash → hiLoop ap g data pi si st = some (d, st') → HIOut esc st d st' := by
  intro g
  induction g with
  | zero => intro data pi si st d st' _ _ _ h; simp [hiLoop] at h
  | succ g ih =>
    intro data pi si st d st' hw hd hst h
    simp only [hiLoop] at h
    split at h
    · rename_i hpi
      cases ha : ap pi data si st with
      | none => simp [ha] at h
      | some r =>
        obtain ⟨d1, m, si1, st1⟩ := r
        simp only [ha] at h
        have o1 := hap pi data si st d1 m si1 st1 hpi hw hd hst ha
        exact o1.trans (ih _ _ _ _ _ _ o1.wf o1.dom o1.stOK h)
    · simp only [Option.some.injEq, Prod.mk.injEq] at h
      obtain ⟨rfl, rfl⟩ := h
      exact ⟨hw, hd, hst, Nat.le_refl _, rfl⟩

theorem handleInline_spec {esc : Bool} {cfg : Cfg} (hfm : FMSpec esc cfg) :
    ∀ f, HIok esc (fun d p s => handleInline cfg f d p s) := by
  intro f
  induction f with
  | zero => intro data pi st d st' _ _ _ h; simp [handleInline] at h
  | succ f ih =>
    intro data pi st d st' hw hd hst h
    simp only [handleInline] at h
    exact hiLoop_spec (fun pi data si st d m si' st' hpi hw hd hst ha => applyPattern_spec hfm ih hpi hw hd hst ha)
      _ _ _ _ _ _ _ hw hd hst h

theorem hiSpec_of_fmSpec {esc : Bool} {cfg : Cfg} (hfm : FMSpec esc cfg) : HISpec esc cfg := by
  intro data st d st' hw hd hst h
  have := handleInline_spec hfm _ data 0 st d st' hw hd hst h
  exact ⟨this.wf, this.dom, this.stOK, this.le, this.html⟩

end MdVerif.NoCtl
