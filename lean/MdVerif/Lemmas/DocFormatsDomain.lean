/-
Helper lemma for `Props/C14DocDomain.lean`: on the source domain of `C10_partial_emph` the hypotheses of
`C14_doc_formats_agree_noctl` hold.  Core Lean only.  (Separate from `Lemmas/DocFormats.lean`: the two proof
libraries `Lemmas/Placeholders` and `Lemmas/InlineVocab` cannot be imported together, see there.)
-/
import MdVerif.Lemmas.Placeholders

namespace MdVerif.DocFormats
open Py

open NoCtl Inline in
/-- on the source domain of `C10_partial_emph` the stash stays empty and the tree holds no STX / ETX
    (the stages of `Pipeline.tree`, as in `NoCtl.convert_noctl_mode`) -/
theorem tree_domain {esc : Bool} {cfg : Pipeline.Cfg} (hcfg : esc = true → EscOK cfg.esc) {src : Str}
    (hd : DomS esc src) {u : Node} {html : List Str} (ht : Pipeline.tree cfg src = some (some (u, html))) :
    html = [] ∧ TreeNoCtl u := by
  unfold Pipeline.tree at ht
  cases hb : Block.parseDocument cfg.tab (Pipeline.prepare cfg src) with
  | none => simp [hb] at ht
  | some br =>
    obtain ⟨root, refs⟩ := br
    simp only [hb] at ht
    cases hr : Inline.run { esc := cfg.esc, refs := refs.reverse } root with
    | none => simp [hr] at ht
    | some ir =>
      obtain ⟨t, st⟩ := ir
      simp only [hr] at ht
      cases hu : TreeProc.unescapeTree (TreeProc.prettify t cfg.blockLevel) with
      | none => simp [hu] at ht
      | some u' =>
        simp only [hu, Option.some.injEq, Prod.mk.injEq] at ht
        obtain ⟨rfl, rfl⟩ := ht
        obtain ⟨hroot, -, -⟩ := Blk.parseDocument_chars (Blk.charDom_dom esc) cfg.tab _ (prepare_dom cfg hd) hb
        have htree : root.Forall (TNode esc) := Node.Forall.mono (fun _ hn => tnode_of_bnode hn) root hroot
        have hhi : HISpec esc { esc := cfg.esc, refs := refs.reverse } := by
          cases esc with
          | true => exact hiSpec_true (hcfg rfl)
          | false => exact hiSpec_false _
        obtain ⟨ht', hhtml⟩ := run_spec hhi htree hr
        have hfn : t.Forall FNode := Node.Forall.mono (fun _ hn => fnode_of_tnode hn) t ht'
        exact ⟨hhtml, unescapeTree_fnode (prettify_fnode hfn cfg.blockLevel) hu⟩

end MdVerif.DocFormats
