/-
Helper lemmas for `Props/C15Text.lean`, part 4: the pattern loop on a whole line
`C₀ [T₁][l₁] C₁ … [Tₘ][lₘ] Cₘ` — mixed content (`Chunk`) around and inside `m` reference-style links whose labels are
defined.  Core Lean only.
-/
import MdVerif.Lemmas.RefTextLink

namespace MdVerif.RefText
open Py Inline Escape CodeLaw DocParse DocParse2

/-- one use of a reference: the link text, the optional space, the label, what the label resolves to, and the
    content that follows the use -/
structure RUse where
  T : Chunk
  sp : Str
  label : Str
  url : Str
  title : Option Str
  C : Chunk

/-- what the stages need of a chunk of mixed content (as `MixTxtOK` of `Lemmas/DocParse2.lean`) -/
structure ChunkOK (esc : List Char) (c : Chunk) : Prop where
  ok : MSegsOK c.segs
  junctions : junctionsOK c.t0 false c.segs
  under : UnderOKM esc (lastW esc c.t0) c.segs
  plain : c.Plain
  clean : ∀ s ∈ c.segs, s.k.clean

/-- label characters that no inline pattern reacts to (the label is looked up, not rendered) -/
def labelCh (c : Char) : Bool := c != ']' && c != '`' && c != '\\' && c != '\n'

structure UseOK (cfg : Inline.Cfg) (u : RUse) : Prop where
  text : ChunkOK cfg.esc u.T
  textNe : u.T.t0 ≠ [] ∨ u.T.segs ≠ []
  after : ChunkOK cfg.esc u.C
  sp : u.sp = [] ∨ u.sp = [' ']
  label : u.label.all labelCh = true
  labelNe : u.label ≠ []
  find : ∃ k, cfg.refs.find? (fun x => x.1 = RefDef.normUse u.label) = some (k, u.url, u.title)

/-- the uses with the content after each, after the classes below `lv` (0: source, 1: code spans out) have been
    taken out; `pe`: the escapes are placeholders.  `m`, `n0`: the running numbers of the escapes and the code spans -/
def usStage (esc : List Char) (lv : Nat) (pe : Bool) : Nat → Nat → List RUse → Str
  | _, _, [] => []
  | m, n0, u :: r =>
    '[' :: (u.T.stage esc lv pe m n0 0 0 ++ (']' :: (u.sp ++ ('[' :: (u.label ++ (']' ::
      (u.C.stage esc lv pe (m + u.T.escs esc) (n0 + u.T.cnt 0) 0 0 ++
        usStage esc lv pe (m + u.T.escs esc + u.C.escs esc) (n0 + u.T.cnt 0 + u.C.cnt 0) r)))))))

def usCnt0 : List RUse → Nat
  | [] => 0
  | u :: r => u.T.cnt 0 + u.C.cnt 0 + usCnt0 r

def usNodes0 : List RUse → List StashItem
  | [] => []
  | u :: r => nodesOf 0 u.T.segs ++ (nodesOf 0 u.C.segs ++ usNodes0 r)

def usEscs (esc : List Char) : List RUse → Nat
  | [] => 0
  | u :: r => u.T.escs esc + u.C.escs esc + usEscs esc r

def usEscStash (esc : List Char) : List RUse → List StashItem
  | [] => []
  | u :: r => u.T.escStash esc ++ (u.C.escStash esc ++ usEscStash esc r)

/-! ### independence of the counters that a level does not use -/

theorem stageM_false_indep (esc : List Char) (lv : Nat) (segs : List MSeg) :
    ∀ (m m' n0 n1 n2 : Nat), stageM esc lv false m n0 n1 n2 segs = stageM esc lv false m' n0 n1 n2 segs := by
  induction segs with
  | nil => intro _ _ _ _ _; rfl
  | cons s r ih => intro m m' n0 n1 n2; simp only [stageM, Bool.false_eq_true, if_false]; rw [ih]

theorem stage_false_indep (esc : List Char) (lv : Nat) (c : Chunk) (m m' n0 n1 n2 : Nat) :
    c.stage esc lv false m n0 n1 n2 = c.stage esc lv false m' n0 n1 n2 := by
  simp only [Chunk.stage, Bool.false_eq_true, if_false]
  rw [stageM_false_indep]

theorem stage0_indep (esc : List Char) (c : Chunk) (m n0 n1 n2 m' n0' n1' n2' : Nat) :
    c.stage esc 0 false m n0 n1 n2 = c.stage esc 0 false m' n0' n1' n2' := by
  rw [Chunk.stage_raw, Chunk.stage_raw]

theorem usStage0_indep (esc : List Char) (us : List RUse) :
    ∀ (m n0 m' n0' : Nat), usStage esc 0 false m n0 us = usStage esc 0 false m' n0' us := by
  induction us with
  | nil => intro _ _ _ _; rfl
  | cons u r ih =>
    intro m n0 m' n0'
    simp only [usStage]
    rw [stage0_indep esc u.T m n0 0 0 m' n0' 0 0,
      stage0_indep esc u.C (m + u.T.escs esc) (n0 + u.T.cnt 0) 0 0 (m' + u.T.escs esc) (n0' + u.T.cnt 0) 0 0,
      ih (m + u.T.escs esc + u.C.escs esc) (n0 + u.T.cnt 0 + u.C.cnt 0) (m' + u.T.escs esc + u.C.escs esc)
        (n0' + u.T.cnt 0 + u.C.cnt 0)]

theorem usStage_false_indep (esc : List Char) (lv : Nat) (us : List RUse) :
    ∀ (m m' n0 : Nat), usStage esc lv false m n0 us = usStage esc lv false m' n0 us := by
  induction us with
  | nil => intro _ _ _; rfl
  | cons u r ih =>
    intro m m' n0
    simp only [usStage]
    rw [stage_false_indep esc lv u.T m m', stage_false_indep esc lv u.C (m + u.T.escs esc) (m' + u.T.escs esc),
      ih (m + u.T.escs esc + u.C.escs esc) (m' + u.T.escs esc + u.C.escs esc)]

/-! ### pattern 0 on the line -/

theorem noTickBs_label {l : Str} (h : l.all labelCh = true) : noTickBs l := by
  intro c hc
  have := List.all_eq_true.mp h c hc
  simp only [labelCh, Bool.and_eq_true, bne_iff_ne, ne_eq] at this
  exact ⟨this.1.1.2, this.1.2⟩

theorem noTickBs_sp {sp : Str} (h : sp = [] ∨ sp = [' ']) : noTickBs sp := by
  rcases h with rfl | rfl
  · intro c hc; cases hc
  · intro c hc; simp at hc; subst hc; exact ⟨by decide, by decide⟩

/-- the closing bracket of the text, the optional space and the bracketed label -/
def closer (u : RUse) : Str := ']' :: (u.sp ++ ('[' :: (u.label ++ [']'])))

theorem noTickBs_closer {cfg : Inline.Cfg} {u : RUse} (h : UseOK cfg u) : noTickBs (closer u) := by
  intro c hc
  simp only [closer, List.mem_cons, List.mem_append, List.not_mem_nil, or_false] at hc
  rcases hc with rfl | hc | rfl | hc | rfl
  · exact ⟨by decide, by decide⟩
  · exact noTickBs_sp h.sp c hc
  · exact ⟨by decide, by decide⟩
  · exact noTickBs_label h.label c hc
  · exact ⟨by decide, by decide⟩

theorem usStage_cons (esc : List Char) (lv : Nat) (pe : Bool) (m n0 : Nat) (u : RUse) (r : List RUse) :
    usStage esc lv pe m n0 (u :: r) =
      ['['] ++ (u.T.stage esc lv pe m n0 0 0 ++ (closer u ++
        (u.C.stage esc lv pe (m + u.T.escs esc) (n0 + u.T.cnt 0) 0 0 ++
          usStage esc lv pe (m + u.T.escs esc + u.C.escs esc) (n0 + u.T.cnt 0 + u.C.cnt 0) r))) := by
  simp [usStage, closer, List.append_assoc]

theorem usStage_head (esc : List Char) (lv : Nat) (pe : Bool) (m n0 : Nat) (us : List RUse) :
    (usStage esc lv pe m n0 us).head? ≠ some '`' := by
  cases us with
  | nil => simp [usStage]
  | cons u r => simp [usStage]

/-- **the backtick pass on the uses**: the code spans of all the chunks, left to right -/
theorem code_pass_uses (cfg : Inline.Cfg) (hi : HI) (hb : '\\' ∈ cfg.esc) (ht : '`' ∈ cfg.esc) (us : List RUse) :
    ∀ (A : Str) (m n0 : Nat) (st : St) (g : Nat), BtOK A → (∀ u ∈ us, UseOK cfg u) →
      hiLoop (applyPattern cfg hi) (g + usCnt0 us) (A ++ usStage cfg.esc 0 false m n0 us) 0 0 st =
        hiLoop (applyPattern cfg hi) g (A ++ usStage cfg.esc 1 false m st.stash.length us) 0 0
          { st with stash := st.stash ++ usNodes0 us } ∧
      BtOK (A ++ usStage cfg.esc 1 false m st.stash.length us) := by
  induction us with
  | nil => intro A m n0 st g hA _; simp [usStage, usCnt0, usNodes0, hA]
  | cons u r ih =>
    intro A m n0 st g hA hus
    have hu := hus u List.mem_cons_self
    have hur : ∀ x ∈ r, UseOK cfg x := fun x hx => hus x (List.mem_cons_of_mem _ hx)
    -- the opening bracket
    have hA1 := btOK_item hA (show noTickBs ['['] from fun c hc => by simp at hc; subst hc; exact ⟨by decide, by decide⟩)
    have hA1l := hA1.2 (by simp)
    -- the text
    have e1 := code_pass_chunk cfg hi hb ht
      (closer u ++ (u.C.stage cfg.esc 0 false (m + u.T.escs cfg.esc) (n0 + u.T.cnt 0) 0 0 ++
        usStage cfg.esc 0 false (m + u.T.escs cfg.esc + u.C.escs cfg.esc) (n0 + u.T.cnt 0 + u.C.cnt 0) r))
      (by simp [closer]) u.T (A ++ ['[']) m n0 0 0 st (g + usCnt0 r + u.C.cnt 0) hA1.1 hA1l hu.text.ok hu.text.junctions
    have hA2 := btOK_chunk1 hb ht u.T.segs (A ++ ['[']) u.T.t0 (m + escCount cfg.esc u.T.t0) st.stash.length 0 0
      hA1.1 hA1l hu.text.ok
    have hA3 := btOK_item hA2 (noTickBs_closer hu)
    have hA3l := hA3.2 (by simp [closer])
    -- the content after the use
    generalize hst1 : ({ st with stash := st.stash ++ nodesOf 0 u.T.segs } : St) = st1 at e1
    have hst1l : st1.stash.length = st.stash.length + u.T.cnt 0 := by rw [← hst1]; simp [Chunk.cnt]
    have e2 := code_pass_chunk cfg hi hb ht
      (usStage cfg.esc 0 false (m + u.T.escs cfg.esc + u.C.escs cfg.esc) (n0 + u.T.cnt 0 + u.C.cnt 0) r)
      (usStage_head _ _ _ _ _ _) u.C
      (A ++ ['['] ++ (escAll cfg.esc u.T.t0 ++ stageM cfg.esc 1 false (m + escCount cfg.esc u.T.t0) st.stash.length 0 0
        u.T.segs) ++ closer u) (m + u.T.escs cfg.esc) (n0 + u.T.cnt 0) 0 0 st1 (g + usCnt0 r) hA3.1 hA3l
      hu.after.ok hu.after.junctions
    have hA4 := btOK_chunk1 hb ht u.C.segs _ u.C.t0 (m + u.T.escs cfg.esc + escCount cfg.esc u.C.t0) st1.stash.length 0 0
      hA3.1 hA3l hu.after.ok
    generalize hst2 : ({ st1 with stash := st1.stash ++ nodesOf 0 u.C.segs } : St) = st2 at e2
    have hst2l : st2.stash.length = st.stash.length + u.T.cnt 0 + u.C.cnt 0 := by
      rw [← hst2]; simp [Chunk.cnt, hst1l]
    obtain ⟨e3, hA5⟩ := ih (A ++ ['['] ++ (escAll cfg.esc u.T.t0 ++ stageM cfg.esc 1 false (m + escCount cfg.esc u.T.t0)
        st.stash.length 0 0 u.T.segs) ++ closer u ++ (escAll cfg.esc u.C.t0 ++ stageM cfg.esc 1 false
        (m + u.T.escs cfg.esc + escCount cfg.esc u.C.t0) st1.stash.length 0 0 u.C.segs))
      (m + u.T.escs cfg.esc + u.C.escs cfg.esc) (n0 + u.T.cnt 0 + u.C.cnt 0) st2 g hA4 hur
    have hstage1T : u.T.stage cfg.esc 1 false m st.stash.length 0 0 =
        escAll cfg.esc u.T.t0 ++ stageM cfg.esc 1 false (m + escCount cfg.esc u.T.t0) st.stash.length 0 0 u.T.segs := by
      simp [Chunk.stage]
    have hstage1C : u.C.stage cfg.esc 1 false (m + u.T.escs cfg.esc) st1.stash.length 0 0 =
        escAll cfg.esc u.C.t0 ++ stageM cfg.esc 1 false (m + u.T.escs cfg.esc + escCount cfg.esc u.C.t0)
          st1.stash.length 0 0 u.C.segs := by
      simp [Chunk.stage]
    refine ⟨?_, ?_⟩
    · rw [usStage_cons, usStage_cons]
      rw [show g + usCnt0 (u :: r) = g + usCnt0 r + u.C.cnt 0 + u.T.cnt 0 by simp [usCnt0]; omega]
      simp only [List.append_assoc] at e1 e2 e3 ⊢
      rw [e1]
      rw [hstage1T]
      simp only [List.append_assoc]
      rw [e2, hstage1C]
      simp only [List.append_assoc]
      rw [e3, ← hst2, ← hst1]
      simp [usNodes0, List.append_assoc, Chunk.cnt, Chunk.stage, Nat.add_assoc]
    · rw [usStage_cons, hstage1T]
      rw [hst1l] at hstage1C
      rw [hstage1C]
      rw [hst2l] at hA5
      rw [hst1l] at hA5
      simpa only [List.append_assoc] using hA5

/-! ### pattern 1 on the line -/

theorem bs_not_mem_closer {cfg : Inline.Cfg} {u : RUse} (h : UseOK cfg u) : '\\' ∉ closer u :=
  fun hc => ((noTickBs_closer h) _ hc).2 rfl

theorem bs_not_mem_stage {esc : List Char} (hE : EscOK esc) (hrb : ']' ∈ esc) (lv : Nat) (hlv : 1 ≤ lv) (c : Chunk)
    (hok : MSegsOK c.segs) (hpl : c.Plain) (m n0 n1 n2 : Nat) : '\\' ∉ c.stage esc lv true m n0 n1 n2 :=
  fun h => (charOK_stage hE hrb lv hlv c hok hpl m n0 n1 n2 _ h).1 rfl

/-- **the escape pass on the uses** -/
theorem esc_pass_uses (cfg : Inline.Cfg) (hi : HI) (hE : EscOK cfg.esc) (hrb : ']' ∈ cfg.esc) (us : List RUse) :
    ∀ (A : Str) (m n0 : Nat) (st : St) (g : Nat), '\\' ∉ A → (∀ u ∈ us, UseOK cfg u) →
      hiLoop (applyPattern cfg hi) (g + usEscs cfg.esc us) (A ++ usStage cfg.esc 1 false m n0 us) 1 0 st =
        hiLoop (applyPattern cfg hi) g (A ++ usStage cfg.esc 1 true st.stash.length n0 us) 1 0
          { st with stash := st.stash ++ usEscStash cfg.esc us } := by
  induction us with
  | nil => intro A m n0 st g _ _; simp [usStage, usEscs, usEscStash]
  | cons u r ih =>
    intro A m n0 st g hA hus
    have hu := hus u List.mem_cons_self
    have hur : ∀ x ∈ r, UseOK cfg x := fun x hx => hus x (List.mem_cons_of_mem _ hx)
    have hA1 : '\\' ∉ A ++ ['['] := by
      intro h; rcases List.mem_append.1 h with h | h
      · exact hA h
      · simp at h
    have e1 := esc_pass_chunk cfg hi hE.bs 1 (by omega)
      (closer u ++ (u.C.stage cfg.esc 1 false (m + u.T.escs cfg.esc) (n0 + u.T.cnt 0) 0 0 ++
        usStage cfg.esc 1 false (m + u.T.escs cfg.esc + u.C.escs cfg.esc) (n0 + u.T.cnt 0 + u.C.cnt 0) r))
      u.T (A ++ ['[']) m n0 0 0 st (g + usEscs cfg.esc r + u.C.escs cfg.esc) hA1 hu.text.ok
    generalize hst1 : ({ st with stash := st.stash ++ u.T.escStash cfg.esc } : St) = st1 at e1
    have hst1l : st1.stash.length = st.stash.length + u.T.escs cfg.esc := by
      rw [← hst1]; simp [Chunk.escStash_length]
    have hA2 : '\\' ∉ A ++ ['['] ++ u.T.stage cfg.esc 1 true st.stash.length n0 0 0 ++ closer u := by
      intro h
      rcases List.mem_append.1 h with h | h
      · rcases List.mem_append.1 h with h | h
        · exact hA1 h
        · exact bs_not_mem_stage hE hrb 1 (by omega) u.T hu.text.ok hu.text.plain _ _ _ _ h
      · exact bs_not_mem_closer hu h
    have e2 := esc_pass_chunk cfg hi hE.bs 1 (by omega)
      (usStage cfg.esc 1 false (m + u.T.escs cfg.esc + u.C.escs cfg.esc) (n0 + u.T.cnt 0 + u.C.cnt 0) r)
      u.C (A ++ ['['] ++ u.T.stage cfg.esc 1 true st.stash.length n0 0 0 ++ closer u) (m + u.T.escs cfg.esc)
      (n0 + u.T.cnt 0) 0 0 st1 (g + usEscs cfg.esc r) hA2 hu.after.ok
    generalize hst2 : ({ st1 with stash := st1.stash ++ u.C.escStash cfg.esc } : St) = st2 at e2
    have hst2l : st2.stash.length = st.stash.length + u.T.escs cfg.esc + u.C.escs cfg.esc := by
      rw [← hst2]; simp [Chunk.escStash_length, hst1l]
    have hA3 : '\\' ∉ A ++ ['['] ++ u.T.stage cfg.esc 1 true st.stash.length n0 0 0 ++ closer u ++
        u.C.stage cfg.esc 1 true st1.stash.length (n0 + u.T.cnt 0) 0 0 := by
      intro h
      rcases List.mem_append.1 h with h | h
      · exact hA2 h
      · exact bs_not_mem_stage hE hrb 1 (by omega) u.C hu.after.ok hu.after.plain _ _ _ _ h
    have e3 := ih _ (m + u.T.escs cfg.esc + u.C.escs cfg.esc) (n0 + u.T.cnt 0 + u.C.cnt 0) st2 g hA3 hur
    rw [usStage_cons, usStage_cons]
    rw [show g + usEscs cfg.esc (u :: r) = g + usEscs cfg.esc r + u.C.escs cfg.esc + u.T.escs cfg.esc by
      simp [usEscs]; omega]
    simp only [List.append_assoc] at e1 e2 e3 ⊢
    rw [e1, e2, e3, ← hst2, ← hst1]
    simp [usEscStash, List.append_assoc, Chunk.escStash_length, Nat.add_assoc]

/-! ### pattern 2 on the line: the references, left to right -/

/-- what is left of a use in the line once pattern 2 has run: the placeholder (number `k`) of its `<a>` element, then
    the content after the use with the numbers `m`, `n0` of its first escape and first code span -/
structure OItem where
  k : Nat
  c : Chunk
  m : Nat
  n0 : Nat

/-- `s`: the size of the stash before pattern 2 -/
def usOuter (esc : List Char) : Nat → Nat → Nat → List RUse → List OItem
  | _, _, _, [] => []
  | m, n0, s, u :: r =>
    ⟨s + u.T.cnt 1 + u.T.cnt 2, u.C, m + u.T.escs esc, n0 + u.T.cnt 0⟩ ::
      usOuter esc (m + u.T.escs esc + u.C.escs esc) (n0 + u.T.cnt 0 + u.C.cnt 0) (s + u.T.cnt 1 + u.T.cnt 2 + 1) r

/-- the line after the first content: link placeholders and the contents after them at level `lv`; `n1`, `n2`: the
    running numbers of the `*` and `_` emphases -/
def outStage (esc : List Char) (lv : Nat) : Nat → Nat → List OItem → Str
  | _, _, [] => []
  | n1, n2, o :: r =>
    placeholder o.k ++ (o.c.stage esc lv true o.m o.n0 n1 n2 ++ outStage esc lv (n1 + o.c.cnt 1) (n2 + o.c.cnt 2) r)

/-- what pattern 2 adds to the stash: for each use the emphases of its text (found by the nested call), then its
    `<a>` element, whose text is the link text with every item a placeholder -/
def usLinkStash (esc : List Char) : Nat → Nat → Nat → List RUse → List StashItem
  | _, _, _, [] => []
  | m, n0, s, u :: r =>
    nodesOf 1 u.T.segs ++ (nodesOf 2 u.T.segs ++
      (.node (InlineRef.linkEl u.url u.title (u.T.stage esc 3 true m n0 s (s + u.T.cnt 1))) ::
        usLinkStash esc (m + u.T.escs esc + u.C.escs esc) (n0 + u.T.cnt 0 + u.C.cnt 0) (s + u.T.cnt 1 + u.T.cnt 2 + 1) r))

theorem stageM1_indep (esc : List Char) (pe : Bool) (segs : List MSeg) :
    ∀ (m n0 n1 n2 n1' n2' : Nat), stageM esc 1 pe m n0 n1 n2 segs = stageM esc 1 pe m n0 n1' n2' segs := by
  induction segs with
  | nil => intro _ _ _ _ _ _; rfl
  | cons s r ih =>
    intro m n0 n1 n2 n1' n2'
    simp only [stageM]
    rw [ih (m + escCount esc s.t) (bump 0 s.k n0) (bump 1 s.k n1) (bump 2 s.k n2) (bump 1 s.k n1') (bump 2 s.k n2')]
    congr 1
    unfold itemM
    by_cases h : s.k.cls < 1
    · have : s.k.cls = 0 := by omega
      simp [h, this]
    · simp [h]

theorem stage1_indep (esc : List Char) (pe : Bool) (c : Chunk) (m n0 n1 n2 n1' n2' : Nat) :
    c.stage esc 1 pe m n0 n1 n2 = c.stage esc 1 pe m n0 n1' n2' := by
  simp only [Chunk.stage]; rw [stageM1_indep]

theorem outStage1_indep (esc : List Char) (os : List OItem) :
    ∀ (n1 n2 n1' n2' : Nat), outStage esc 1 n1 n2 os = outStage esc 1 n1' n2' os := by
  induction os with
  | nil => intro _ _ _ _; rfl
  | cons o r ih =>
    intro n1 n2 n1' n2'
    simp only [outStage]
    rw [stage1_indep esc true o.c o.m o.n0 n1 n2 n1' n2', ih (n1 + o.c.cnt 1) (n2 + o.c.cnt 2) (n1' + o.c.cnt 1)
      (n2' + o.c.cnt 2)]

theorem stage_ne_nil (esc : List Char) (lv : Nat) (c : Chunk) (m n0 n1 n2 : Nat) (hok : MSegsOK c.segs) (hlv : 1 ≤ lv)
    (hne : c.t0 ≠ [] ∨ c.segs ≠ []) : c.stage esc lv true m n0 n1 n2 ≠ [] := by
  intro e
  simp only [Chunk.stage, if_true, List.append_eq_nil_iff] at e
  rcases hne with h | h
  · cases ht : c.t0 with
    | nil => exact h ht
    | cons a b =>
      rw [ht] at e
      have := e.1
      by_cases ha : a ∈ esc
      · simp only [resid, List.contains_eq_mem, ha, decide_true, if_true, List.append_eq_nil_iff] at this
        exact placeholder_ne_nil _ this.1
      · simp [resid, ha] at this
  · cases hs : c.segs with
    | nil => exact h hs
    | cons s r =>
      rw [hs] at e hok
      have := e.2
      simp only [stageM, List.append_eq_nil_iff] at this
      exact (itemM_plain lv n0 n1 n2 s.k hlv (hok s List.mem_cons_self)).2 this.1

theorem not_mem_of_charOK {lv : Nat} {D : Str} (h : ∀ ch ∈ D, CharOK lv ch) :
    '[' ∉ D ∧ ']' ∉ D ∧ '!' ∉ D ∧ '\\' ∉ D :=
  ⟨fun hm => (h _ hm).2.2.1 rfl, fun hm => (h _ hm).2.2.2.1 rfl, fun hm => (h _ hm).2.2.2.2.1 rfl,
    fun hm => (h _ hm).1 rfl⟩

theorem rbr_not_mem_label {l : Str} (h : l.all labelCh = true) : ']' ∉ l := by
  intro hc
  have := List.all_eq_true.mp h _ hc
  revert this; decide

/-- **the reference pass**: one turn of the pattern loop per use; the nested call on the link text takes its
    emphases out; the `<a>` element is stashed and a placeholder takes the place of the use -/
theorem link_pass_uses (cfg : Inline.Cfg) (hE : EscOK cfg.esc) (hrb : ']' ∈ cfg.esc) (f : Nat) (us : List RUse) :
    ∀ (A : Str) (m n0 : Nat) (st : St) (g : Nat), '[' ∉ A → '!' ∉ A → (∀ u ∈ us, UseOK cfg u) →
      hiLoop (applyPattern cfg (fun d p s => handleInline cfg (f + 2) d p s)) (g + us.length)
        (A ++ usStage cfg.esc 1 true m n0 us) 2 0 st =
      hiLoop (applyPattern cfg (fun d p s => handleInline cfg (f + 2) d p s)) g
        (A ++ outStage cfg.esc 1 0 0 (usOuter cfg.esc m n0 st.stash.length us)) 2 0
        { st with stash := st.stash ++ usLinkStash cfg.esc m n0 st.stash.length us } := by
  induction us with
  | nil => intro A m n0 st g _ _ _; simp [usStage, usOuter, outStage, usLinkStash]
  | cons u r ih =>
    intro A m n0 st g hA1 hA2 hus
    have hu := hus u List.mem_cons_self
    have hur : ∀ x ∈ r, UseOK cfg x := fun x hx => hus x (List.mem_cons_of_mem _ hx)
    have hT := not_mem_of_charOK (charOK_stage hE hrb 1 (by omega) u.T hu.text.ok hu.text.plain m n0 0 0)
    have hC := not_mem_of_charOK (charOK_stage hE hrb 1 (by omega) u.C hu.after.ok hu.after.plain
      (m + u.T.escs cfg.esc) (n0 + u.T.cnt 0) 0 0)
    obtain ⟨k, hfind⟩ := hu.find
    have hkey : InlineRef.useKey (u.T.stage cfg.esc 1 true m n0 0 0) u.label = RefDef.normUse u.label := by
      unfold InlineRef.useKey
      cases hl : u.label with
      | nil => exact absurd hl hu.labelNe
      | cons a b => rfl
    have hnest := handleInline_tail cfg hE hrb f u.T m n0 0 0 st 3 (by omega) hu.text.ok hu.text.plain hu.text.under
    have hsp : u.sp = [] ∨ ∃ c, u.sp = [c] ∧ isSpace c = true := by
      rcases hu.sp with e | e
      · exact Or.inl e
      · exact Or.inr ⟨' ', e, by decide⟩
    have hstep := applyPattern_refAt cfg (fun d p s => handleInline cfg (f + 2) d p s) st
      { st with stash := st.stash ++ (nodesOf 1 u.T.segs ++ nodesOf 2 u.T.segs) } A
      (u.T.stage cfg.esc 1 true m n0 0 0)
      (u.T.stage cfg.esc 3 true m n0 st.stash.length (st.stash.length + u.T.cnt 1)) u.sp u.label
      (u.C.stage cfg.esc 1 true (m + u.T.escs cfg.esc) (n0 + u.T.cnt 0) 0 0 ++
        usStage cfg.esc 1 true (m + u.T.escs cfg.esc + u.C.escs cfg.esc) (n0 + u.T.cnt 0 + u.C.cnt 0) r)
      hA1 hA2 hT.1 hT.2.1 hsp (rbr_not_mem_label hu.label) k u.url u.title (by rw [hkey]; exact hfind)
      (stage_ne_nil cfg.esc 1 u.T m n0 0 0 hu.text.ok (by omega) hu.textNe) hnest
    have hA1' : '[' ∉ A ++ (placeholder (st.stash.length + u.T.cnt 1 + u.T.cnt 2) ++
        u.C.stage cfg.esc 1 true (m + u.T.escs cfg.esc) (n0 + u.T.cnt 0) 0 0) := by
      intro h
      rcases List.mem_append.1 h with h | h
      · exact hA1 h
      · rcases List.mem_append.1 h with h | h
        · exact InlineRef.not_mem_placeholder (by decide) h
        · exact hC.1 h
    have hA2' : '!' ∉ A ++ (placeholder (st.stash.length + u.T.cnt 1 + u.T.cnt 2) ++
        u.C.stage cfg.esc 1 true (m + u.T.escs cfg.esc) (n0 + u.T.cnt 0) 0 0) := by
      intro h
      rcases List.mem_append.1 h with h | h
      · exact hA2 h
      · rcases List.mem_append.1 h with h | h
        · exact InlineRef.not_mem_placeholder (by decide) h
        · exact hC.2.2.1 h
    have e3 := ih _ (m + u.T.escs cfg.esc + u.C.escs cfg.esc) (n0 + u.T.cnt 0 + u.C.cnt 0)
      { st with stash := st.stash ++ (nodesOf 1 u.T.segs ++ nodesOf 2 u.T.segs) ++
        [.node (InlineRef.linkEl u.url u.title (u.T.stage cfg.esc 3 true m n0 st.stash.length
          (st.stash.length + u.T.cnt 1)))] } g hA1' hA2' hur
    have hlen2 : (st.stash ++ (nodesOf 1 u.T.segs ++ nodesOf 2 u.T.segs)).length =
        st.stash.length + u.T.cnt 1 + u.T.cnt 2 := by simp [Chunk.cnt]; omega
    have hlen3 : (st.stash ++ (nodesOf 1 u.T.segs ++ nodesOf 2 u.T.segs) ++
        [StashItem.node (InlineRef.linkEl u.url u.title (u.T.stage cfg.esc 3 true m n0 st.stash.length
          (st.stash.length + u.T.cnt 1)))]).length = st.stash.length + u.T.cnt 1 + u.T.cnt 2 + 1 := by
      rw [List.length_append, hlen2]; rfl
    simp only [hlen3] at e3
    simp only [hlen2] at hstep
    rw [show g + (u :: r).length = (g + r.length) + 1 by simp; omega]
    simp only [usStage, usOuter, outStage, usLinkStash]
    simp only [List.append_assoc, List.cons_append, List.nil_append] at hstep e3 ⊢
    rw [hiLoop_step _ _ _ 2 0 st (by omega) _ _ _ _ hstep]
    simp only [if_true]
    rw [e3, outStage1_indep cfg.esc _ (0 + u.C.cnt 1) (0 + u.C.cnt 2) 0 0]

/-! ### patterns 3–15 on the line once the references are placeholders -/

def outCnt (k : Nat) : List OItem → Nat
  | [] => 0
  | o :: r => o.c.cnt k + outCnt k r

def outNodes (k : Nat) : List OItem → List StashItem
  | [] => []
  | o :: r => nodesOf k o.c.segs ++ outNodes k r

/-- what the passes need of the contents after the uses -/
def OutOK (esc : List Char) (os : List OItem) : Prop := ∀ o ∈ os, ChunkOK esc o.c

theorem charOK_outStage {esc : List Char} (hE : EscOK esc) (hrb : ']' ∈ esc) (lv : Nat) (hlv : 1 ≤ lv)
    (os : List OItem) (hos : OutOK esc os) : ∀ (n1 n2 : Nat), ∀ ch ∈ outStage esc lv n1 n2 os, CharOK lv ch := by
  induction os with
  | nil => intro _ _ ch h; simp [outStage] at h
  | cons o r ih =>
    intro n1 n2 ch h
    have ho := hos o List.mem_cons_self
    simp only [outStage, List.mem_append] at h
    rcases h with h | h | h
    · exact charOK_placeholder lv o.k ch h
    · exact charOK_stage hE hrb lv hlv o.c ho.ok ho.plain _ _ _ _ ch h
    · exact ih (fun x hx => hos x (List.mem_cons_of_mem _ hx)) _ _ ch h

theorem nsSkip_outStage {esc : List Char} (h1 : '*' ∈ esc) (h2 : '_' ∈ esc) (lv : Nat) (hlv : 1 ≤ lv)
    (os : List OItem) (hos : OutOK esc os) : ∀ (n1 n2 : Nat), NsSkip (outStage esc lv n1 n2 os) := by
  induction os with
  | nil => intro _ _; exact nsSkip_nil
  | cons o r ih =>
    intro n1 n2
    simp only [outStage]
    exact nsSkip_append (nsSkip_placeholder _) (nsSkip_append
      (nsSkip_stage h1 h2 lv hlv o.c (hos o List.mem_cons_self).ok _ _ _ _)
      (ih (fun x hx => hos x (List.mem_cons_of_mem _ hx)) _ _))

/-- **the `*` pass on the contents after the uses** -/
theorem star_pass_outer (cfg : Inline.Cfg) (f : Nat) (hE : EscOK cfg.esc) (hrb : ']' ∈ cfg.esc) (os : List OItem) :
    ∀ (A : Str) (n1 n2 : Nat) (st : St) (g : Nat), '*' ∉ A → OutOK cfg.esc os →
      hiLoop (applyPattern cfg (fun d p s => handleInline cfg (f + 1) d p s)) (g + outCnt 1 os)
        (A ++ outStage cfg.esc 1 n1 n2 os) 14 0 st =
      hiLoop (applyPattern cfg (fun d p s => handleInline cfg (f + 1) d p s)) g
        (A ++ outStage cfg.esc 2 st.stash.length n2 os) 14 0
        { st with stash := st.stash ++ outNodes 1 os } := by
  induction os with
  | nil => intro A n1 n2 st g _ _; simp [outStage, outCnt, outNodes]
  | cons o r ih =>
    intro A n1 n2 st g hA hos
    have ho := hos o List.mem_cons_self
    have hA1 : '*' ∉ A ++ placeholder o.k := by
      intro h; rcases List.mem_append.1 h with h | h
      · exact hA h
      · exact InlineRef.not_mem_placeholder (by decide) h
    have e1 := star_pass_chunk cfg f hE.star hE.under (outStage cfg.esc 1 (n1 + o.c.cnt 1) (n2 + o.c.cnt 2) r) o.c
      (A ++ placeholder o.k) o.m o.n0 n1 n2 st (g + outCnt 1 r) hA1 ho.ok
    have hA2 : '*' ∉ A ++ placeholder o.k ++ o.c.stage cfg.esc 2 true o.m o.n0 st.stash.length n2 := by
      intro h; rcases List.mem_append.1 h with h | h
      · exact hA1 h
      · exact star_not_mem_stage2 hE hrb o.c ho.ok ho.plain _ _ _ _ h
    have e2 := ih _ (n1 + o.c.cnt 1) (n2 + o.c.cnt 2) { st with stash := st.stash ++ nodesOf 1 o.c.segs } g hA2
      (fun x hx => hos x (List.mem_cons_of_mem _ hx))
    rw [show g + outCnt 1 (o :: r) = g + outCnt 1 r + o.c.cnt 1 by simp [outCnt]; omega]
    simp only [outStage, outNodes]
    simp only [List.append_assoc] at e1 e2 ⊢
    rw [e1, e2]
    simp [Chunk.cnt, List.append_assoc]

theorem outStage_head (esc : List Char) (lv n1 n2 : Nat) (os : List OItem) :
    isW (outStage esc lv n1 n2 os).head? = false := by
  cases os with
  | nil => simp [outStage, isW]
  | cons o r => simp only [outStage]; rw [head_placeholder]; decide

theorem noTriple_outStage2 {esc : List Char} (h1 : '*' ∈ esc) (h2 : '_' ∈ esc) (os : List OItem)
    (hos : OutOK esc os) : ∀ (n1 n2 : Nat), NoTriple '_' (outStage esc 2 n1 n2 os) := by
  induction os with
  | nil => intro _ _; exact noTriple_nil _
  | cons o r ih =>
    intro n1 n2
    have ho := hos o List.mem_cons_self
    simp only [outStage, Chunk.stage, if_true, List.append_assoc]
    refine noTriple_of_no_c '_' _ _ (InlineRef.not_mem_placeholder (by decide)) ?_
    refine noTriple_of_no_c '_' _ _ (fun h => (resid_no_delim h1 h2 o.c.t0 o.m _ h).2 rfl) ?_
    exact noTriple_stage2M_ctx h1 h2 _ (outStage_head esc 2 _ _ r)
      (ih (fun x hx => hos x (List.mem_cons_of_mem _ hx)) _ _) o.c.segs _ _ _ _ _ ho.ok ho.under

theorem lastW_nil' (esc : List Char) : lastW esc [] = false := rfl

/-- **the `_` pass on the contents after the uses** -/
theorem under_pass_outer (cfg : Inline.Cfg) (f : Nat) (hE : EscOK cfg.esc) (hrb : ']' ∈ cfg.esc) (os : List OItem) :
    ∀ (A : Str) (n1 n2 : Nat) (st : St) (g : Nat), '_' ∉ A → OutOK cfg.esc os →
      hiLoop (applyPattern cfg (fun d p s => handleInline cfg (f + 1) d p s)) (g + outCnt 2 os)
        (A ++ outStage cfg.esc 2 n1 n2 os) 15 0 st =
      hiLoop (applyPattern cfg (fun d p s => handleInline cfg (f + 1) d p s)) g
        (A ++ outStage cfg.esc 3 n1 st.stash.length os) 15 0
        { st with stash := st.stash ++ outNodes 2 os } := by
  induction os with
  | nil => intro A n1 n2 st g _ _; simp [outStage, outCnt, outNodes]
  | cons o r ih =>
    intro A n1 n2 st g hA hos
    have ho := hos o List.mem_cons_self
    have hor : OutOK cfg.esc r := fun x hx => hos x (List.mem_cons_of_mem _ hx)
    have hA1 : '_' ∉ A ++ placeholder o.k := by
      intro h; rcases List.mem_append.1 h with h | h
      · exact hA h
      · exact InlineRef.not_mem_placeholder (by decide) h
    have hlast : isW (lastOr none (A ++ placeholder o.k)) = false := by
      rw [lastOr_append, lastOr_placeholder]; decide
    have e1 := under_pass_chunk cfg f hE.star hE.under (outStage cfg.esc 2 (n1 + o.c.cnt 1) (n2 + o.c.cnt 2) r)
      (outStage_head _ _ _ _ _) (noTriple_outStage2 hE.star hE.under r hor _ _) o.c
      (A ++ placeholder o.k) o.m o.n0 n1 n2 st (g + outCnt 2 r) hA1 ho.ok (by
        by_cases ht : o.c.t0 = []
        · simp only [ht, if_true, hlast]; have := ho.under; rw [ht] at this; exact this
        · simp only [ht, if_false]; exact ho.under)
    have hA2 : '_' ∉ A ++ placeholder o.k ++ o.c.stage cfg.esc 3 true o.m o.n0 n1 st.stash.length := by
      intro h; rcases List.mem_append.1 h with h | h
      · exact hA1 h
      · exact under_not_mem_stage3 hE hrb o.c ho.ok ho.plain _ _ _ _ h
    have e2 := ih _ (n1 + o.c.cnt 1) (n2 + o.c.cnt 2) { st with stash := st.stash ++ nodesOf 2 o.c.segs } g hA2 hor
    rw [show g + outCnt 2 (o :: r) = g + outCnt 2 r + o.c.cnt 2 by simp [outCnt]; omega]
    simp only [outStage, outNodes]
    simp only [List.append_assoc] at e1 e2 ⊢
    rw [e1, e2]
    simp [Chunk.cnt, List.append_assoc]

end MdVerif.RefText
