/-
The block stage on a paragraph of several lines whose lines start like paragraph text (`LineStart`) or with an
inline link `[text](…` whose text has no bracket (`DocLink.LinkLineStart`): the common generalisation of
`DocParse2.produces_para_multi` and `DocLink.produces_para_bracket`.  The reference processor searches every line
start of the block; at a line that starts with `[text](` the character after `]` is `(`, not `:`.  Core Lean only.
-/
import MdVerif.Lemmas.DocParse5

namespace MdVerif.DocMixB
open Py Inline Escape DocSpec CodeLaw DocParse Block DocParse2 RefText DocLink

/-! ### 1. the reference processor at a line start -/

/-- at a position where the text goes on with up to three spaces, `[`, a text without brackets, `](`: not a
    reference definition (`refMatchAt_link` at any position) -/
theorem refMatchAt_link_at (s : Str) (p i : Nat) (hi : i ≤ 3) (T R : Str) (hT : ∀ ch ∈ T, ch ≠ '[' ∧ ch ≠ ']')
    (hs : s.drop p = spaces i ++ '[' :: (T ++ ']' :: '(' :: R)) : refMatchAt s p = none := by
  have h0 : countPrefix ' ' (some 3) (s.drop p) = i := by
    rw [hs]; exact countPrefix_spaces i 3 '[' _ hi (by decide)
  have hlen : (spaces i).length = i := by simp [spaces]
  have hi0 : s[p + i]? = some '[' := by
    rw [← List.getElem?_drop, hs, List.getElem?_append_right (by omega), hlen]; simp
  have hdrop : s.drop (p + i + 1) = T ++ ']' :: '(' :: R := by
    have e : s.drop (p + i + 1) = (s.drop p).drop (i + 1) := by rw [List.drop_drop, Nat.add_assoc]
    have : spaces i ++ '[' :: (T ++ ']' :: '(' :: R) = (spaces i ++ ['[']) ++ (T ++ ']' :: '(' :: R) := by simp
    rw [e, hs, this, List.drop_left' (by simp [hlen])]
  have hall : T.all (fun c => c != '[' && c != ']') = true := by
    rw [List.all_eq_true]; intro x hx
    have := hT x hx; simp [this.1, this.2]
  have hspan : spanLen (fun c => c != '[' && c != ']') (T ++ ']' :: '(' :: R) = T.length := by
    rw [spanLen_append_of_all hall]; simp [spanLen_cons]
  have hj : s[p + i + 1 + T.length]? = some ']' := by
    have e : p + i + 1 + T.length = p + (i + 1 + T.length) := by omega
    have : spaces i ++ '[' :: (T ++ ']' :: '(' :: R) = (spaces i ++ '[' :: T) ++ ']' :: '(' :: R := by simp
    rw [e, ← List.getElem?_drop, hs, this]
    exact getElem?_mid _ _ _ _ (by simp [spaces]; omega)
  have hj1 : s[p + i + 1 + T.length + 1]? = some '(' := by
    have e : p + i + 1 + T.length + 1 = p + (i + 1 + T.length + 1) := by omega
    have : spaces i ++ '[' :: (T ++ ']' :: '(' :: R) = (spaces i ++ '[' :: T ++ [']']) ++ '(' :: R := by simp
    rw [e, ← List.getElem?_drop, hs, this]
    exact getElem?_mid _ _ _ _ (by simp [spaces]; omega)
  simp only [refMatchAt, h0, hi0, hdrop, hspan, hj, hj1]
  simp

/-- at a position where a line of the paragraph starts, indented by up to three spaces: not a reference
    definition -/
theorem refMatchAt_lls (s : Str) (p i : Nat) (hi : i ≤ 3) (l Z : Str) (hl : LinkLineStart l)
    (hs : s.drop p = spaces i ++ (l ++ Z)) : refMatchAt s p = none := by
  rcases hl with hl | ⟨T, R, rfl, hT⟩
  · apply refMatchAt_eq_none (esc := ['#', '>', '[']) (by decide)
    rw [hs, startOk_spaces]
    exact startOk_lineStart hl Z
  · apply refMatchAt_link_at s p i hi T (R ++ Z) hT
    rw [hs]; simp

theorem lineStartsFrom_append_noNl (A B : Str) (hA : '\n' ∉ A) (k : Nat) :
    lineStartsFrom k (A ++ B) = lineStartsFrom (k + A.length) B := by
  induction A generalizing k with
  | nil => rfl
  | cons c r ih =>
    have hc : c ≠ '\n' := fun e => hA (e ▸ List.mem_cons_self)
    simp only [List.cons_append, lineStartsFrom, hc, if_false, List.length_cons]
    rw [ih (fun hm => hA (List.mem_cons_of_mem _ hm))]
    congr 1; omega

/-- every line start after the first is the start of one of the lines -/
theorem lineStarts_joinLines (Ls : List Str) (hnl : ∀ l ∈ Ls, '\n' ∉ l) (P : Str) :
    ∀ p ∈ lineStartsFrom P.length (joinLines Ls), ∃ l ∈ Ls, ∃ Z, (P ++ joinLines Ls).drop p = l ++ Z := by
  induction Ls generalizing P with
  | nil => intro p hp; simp [joinLines, join, lineStartsFrom] at hp
  | cons a r ih =>
    cases r with
    | nil =>
      intro p hp
      rw [joinLines_single, lineStartsFrom_noNl _ (hnl a List.mem_cons_self)] at hp
      cases hp
    | cons b r' =>
      intro p hp
      rw [joinLines_cons_cons, lineStartsFrom_append_noNl _ _ (hnl a List.mem_cons_self)] at hp
      simp only [lineStartsFrom, if_true, List.mem_cons] at hp
      have e : P ++ joinLines (a :: b :: r') = (P ++ a ++ ['\n']) ++ joinLines (b :: r') := by
        rw [joinLines_cons_cons]; simp
      have hlen : (P ++ a ++ ['\n']).length = P.length + a.length + 1 := by simp; omega
      rcases hp with rfl | hp
      · refine ⟨b, by simp, ?_⟩
        rw [e, ← hlen, List.drop_left]
        cases r' with
        | nil => exact ⟨[], by simp [joinLines_single]⟩
        | cons c r'' => exact ⟨'\n' :: joinLines (c :: r''), by rw [joinLines_cons_cons]⟩
      · rw [← hlen] at hp
        obtain ⟨l, hl, Z, hZ⟩ := ih (fun x hx => hnl x (List.mem_cons_of_mem _ hx)) _ p hp
        exact ⟨l, List.mem_cons_of_mem _ hl, Z, by rw [e]; exact hZ⟩

/-- no line of the paragraph is a reference definition -/
theorem refSearch_lls (i : Nat) (hi3 : i ≤ 3) (Ls : List Str) (hne : Ls ≠ [])
    (hL : ∀ l ∈ Ls, LinkLineStart l ∧ '\n' ∉ l) : refSearch (spaces i ++ joinLines Ls) = none := by
  unfold refSearch
  rw [List.findSome?_eq_none_iff]
  intro p hp
  have hnone : refMatchAt (spaces i ++ joinLines Ls) p = none := by
    rcases List.mem_cons.1 hp with rfl | hp
    · obtain ⟨a, r, rfl⟩ : ∃ a r, Ls = a :: r := by
        cases Ls with
        | nil => exact absurd rfl hne
        | cons a r => exact ⟨a, r, rfl⟩
      obtain ⟨Z, hZ⟩ : ∃ Z, joinLines (a :: r) = a ++ Z := by
        cases r with
        | nil => exact ⟨[], by simp [joinLines_single]⟩
        | cons b r' => exact ⟨'\n' :: joinLines (b :: r'), by rw [joinLines_cons_cons]⟩
      exact refMatchAt_lls _ 0 i hi3 a Z (hL a List.mem_cons_self).1 (by rw [List.drop_zero, hZ])
    · rw [lineStartsFrom_append_noNl (spaces i) _ (fun hm => absurd (List.eq_of_mem_replicate hm) (by decide)),
        Nat.zero_add] at hp
      obtain ⟨l, hl, Z, hZ⟩ := lineStarts_joinLines Ls (fun x hx => (hL x hx).2) (spaces i) p hp
      exact refMatchAt_lls _ p 0 (by omega) l Z (hL l hl).1 (by rw [hZ]; simp [spaces])
  rw [hnone]

/-! ### 2. the other processors: `[` at a line start is harmless -/

/-- the characters that start a block construct, but for `[` -/
def lineEscB : List Char := ['#', '-', '_', '*', '+', '>']

/-- `LineStart` with `[` allowed: what the processors other than the reference processor need -/
def LineStartB (l : Str) : Prop :=
  ∃ c tail, l = c :: tail ∧ isSpace c = false ∧ c ≠ '=' ∧ (c ∉ lineEscB ∨ EmStart l)

theorem lineStartB_of {l : Str} (h : LinkLineStart l) : LineStartB l := by
  rcases h with ⟨c, tail, hl, hcs, hceq, hce⟩ | ⟨T, R, rfl, _⟩
  · refine ⟨c, tail, hl, hcs, hceq, ?_⟩
    rcases hce with hce | hce
    · left
      intro hm
      apply hce
      simp only [lineEscB, lineEsc, List.mem_cons, List.not_mem_nil, or_false] at hm ⊢
      rcases hm with h | h | h | h | h | h <;> simp [h]
    · exact Or.inr hce
  · exact ⟨'[', _, rfl, by decide, by decide, Or.inl (by decide)⟩

theorem startOk_lineStartB {l : Str} (h : LineStartB l) (Z : Str) : startOk ['#', '>'] (l ++ Z) = true := by
  obtain ⟨c, tail, rfl, hcs, _, hce⟩ := h
  have hcsp : (c == ' ') = false := by
    have : c ≠ ' ' := by intro e; subst e; exact absurd hcs (by decide)
    simpa using this
  simp only [List.cons_append, startOk, List.dropWhile_cons, hcsp, Bool.false_eq_true, if_false]
  rcases hce with hce | ⟨d, m, x, tl, he, hd, hm1, _, _, _⟩
  · have h1 : c ≠ '#' := fun e => hce (by rw [e]; decide)
    have h2 : c ≠ '>' := fun e => hce (by rw [e]; decide)
    simp [h1, h2]
  · obtain ⟨m', rfl⟩ : ∃ m', m = m' + 1 := ⟨m - 1, by omega⟩
    simp only [List.replicate_succ, List.cons_append, List.cons.injEq] at he
    rw [he.1]
    rcases hd with e | e <;> rw [e] <;> decide

theorem hrLine_lineStartB (i : Nat) (hi3 : i ≤ 3) {l : Str} (h : LineStartB l) : hrLine (spaces i ++ l) = false := by
  obtain ⟨c, tail, rfl, hcs, _, hce⟩ := h
  have hcsp : c ≠ ' ' := by intro e; subst e; exact absurd hcs (by decide)
  have h0 : countPrefix ' ' (some 3) (spaces i ++ c :: tail) = i := countPrefix_spaces i 3 c tail hi3 hcsp
  have hdrop : (spaces i ++ c :: tail).drop i = c :: tail := by rw [List.drop_left' (by simp [spaces])]
  rcases hce with hce | ⟨d, m, x, tl, he, hd, hm1, hm2, hxd, hxsp⟩
  · have h1 : c ≠ '-' := fun e => hce (by rw [e]; decide)
    have h2 : c ≠ '_' := fun e => hce (by rw [e]; decide)
    have h3 : c ≠ '*' := fun e => hce (by rw [e]; decide)
    simp [hrLine, h0, hdrop, h1, h2, h3]
  · obtain ⟨m', rfl⟩ : ∃ m', m = m' + 1 := ⟨m - 1, by omega⟩
    have hX : List.replicate (m' + 1) d ++ x :: tl = d :: (List.replicate m' d ++ x :: tl) := by
      simp [List.replicate_succ]
    have hcd : c = d := by rw [hX] at he; simpa using (List.cons.inj he).1
    subst hcd
    simp only [hrLine, h0, hdrop]
    have hsc := hrScan_delims c x tl hxd hxsp (m' + 1) 0 0
    rw [← he] at hsc
    have hdd : (c = '-' || c = '_' || c = '*') = true := by rcases hd with e | e <;> rw [e] <;> decide
    simp only [hdd, if_true, hsc]
    have : decide (0 + (m' + 1) ≥ 3) = false := by simp; omega
    simp only [this, Bool.false_and]

theorem startsOkNl_linesB (Ls : List Str) (h : ∀ l ∈ Ls, LineStartB l ∧ '\n' ∉ l) :
    startsOkNl ['#', '>'] (joinLines Ls) = true := by
  induction Ls with
  | nil => rfl
  | cons a r ih =>
    cases r with
    | nil => exact startsOkNl_of_no_nl _ _ (h a List.mem_cons_self).2
    | cons b r' =>
      rw [joinLines_cons_cons, startsOkNl_append_noNl _ _ _ (h a List.mem_cons_self).2]
      have ihr := ih (fun x hx => h x (List.mem_cons_of_mem _ hx))
      have hb := h b (by simp)
      have hso : startOk ['#', '>'] (joinLines (b :: r')) = true := by
        cases r' with
        | nil => simpa [joinLines_single] using startOk_lineStartB hb.1 []
        | cons c r'' => rw [joinLines_cons_cons]; exact startOk_lineStartB hb.1 _
      simp only [startsOkNl, bne_self_eq_false, Bool.false_or, hso, ihr, Bool.and_self]

/-! ### 3. the paragraph -/

/-- **A paragraph of several lines, each starting like paragraph text or with an inline link**, indented by up to
    three spaces, becomes a `p` whose text is the lines -/
theorem produces_para_multiL (i : Nat) (hi3 : i ≤ 3) (Ls : List Str) (hne : Ls ≠ [])
    (hL : ∀ l ∈ Ls, LinkLineStart l ∧ '\n' ∉ l) (hol : olMarker (joinLines Ls) = none) :
    Produces 4 (spaces i ++ joinLines Ls) { tag := .name "p".toList, text := some (joinLines Ls) } := by
  intro pb refs parent rest
  have e5 := refSearch_lls i hi3 Ls hne hL
  replace hL : ∀ l ∈ Ls, LineStartB l ∧ '\n' ∉ l := fun l hl => ⟨lineStartB_of (hL l hl).1, (hL l hl).2⟩
  obtain ⟨a, r, rfl⟩ : ∃ a r, Ls = a :: r := by
    cases Ls with
    | nil => exact absurd rfl hne
    | cons a r => exact ⟨a, r, rfl⟩
  obtain ⟨ha, hanl⟩ := hL a List.mem_cons_self
  obtain ⟨c, tail0, hac, hcs, hceq, hce⟩ := ha
  have hcsp : c ≠ ' ' := by intro e; subst e; exact absurd hcs (by decide)
  have hcnl : c ≠ '\n' := by intro e; subst e; exact absurd hcs (by decide)
  -- the block starts with `c`
  obtain ⟨tail, hX⟩ : ∃ tail, joinLines (a :: r) = c :: tail := by
    cases r with
    | nil => exact ⟨tail0, by rw [joinLines_single, hac]⟩
    | cons b r' => exact ⟨tail0 ++ '\n' :: joinLines (b :: r'), by rw [joinLines_cons_cons, hac]; rfl⟩
  have hl : LineStartsOk ['#', '>'] (spaces i ++ joinLines (a :: r)) = true := by
    have h0 : startOk ['#', '>'] (joinLines (a :: r)) = true := by
      cases r with
      | nil => simpa [joinLines_single] using startOk_lineStartB (hL a List.mem_cons_self).1 []
      | cons b r' => rw [joinLines_cons_cons]; exact startOk_lineStartB (hL a List.mem_cons_self).1 _
    have h1 : startsOkNl ['#', '>'] (spaces i ++ joinLines (a :: r)) = true := by
      rw [startsOkNl_append_noNl _ (spaces i) _ (fun hm => absurd (List.eq_of_mem_replicate hm) (by decide))]
      exact startsOkNl_linesB _ hL
    simp only [LineStartsOk, startOk_spaces, h0, h1, Bool.and_self]
  have e1 := hashSearch_eq_none (esc := ['#', '>']) (by decide) _ hl
  have e3 := quoteSearch_eq_none (esc := ['#', '>']) (by decide) _ hl
  have e2 : hrSearch (spaces i ++ joinLines (a :: r)) = none := by
    apply hrSearchLines_eq_none
    intro l hl'
    obtain ⟨j, l', hj, hl'm, rfl⟩ := lines_indent i (a :: r) (by simp) (fun x hx => (hL x hx).2) l hl'
    exact hrLine_lineStartB j (by omega) (hL l' hl'm).1
  have e4 : ∀ ol ul, listItemMatch 4 ol ul (spaces i ++ joinLines (a :: r)) = none := by
    intro ol ul
    rw [hX]
    have h0 : countPrefix ' ' (some (4 - 1)) (spaces i ++ c :: tail) = i :=
      countPrefix_spaces i _ c tail (by omega) hcsp
    have hd : (spaces i ++ c :: tail).drop i = c :: tail := by rw [List.drop_left' (by simp [spaces])]
    have hol' : olMarker (c :: tail) = none := by rw [← hX]; exact hol
    rcases hce with hce | ⟨d, m, x, tl, he, hd', hm1, hm2, hxd, hxsp⟩
    · have hmem : ∀ d ∈ lineEscB, c ≠ d := fun d hd e => hce (e ▸ hd)
      have hu : ulMarker (c :: tail) = none := by
        simp [ulMarker, hmem '*' (by decide), hmem '+' (by decide), hmem '-' (by decide)]
      simp only [listItemMatch, h0, hd, hol', hu]
      cases ol <;> cases ul <;> rfl
    · obtain ⟨m', rfl⟩ : ∃ m', m = m' + 1 := ⟨m - 1, by omega⟩
      have hXa : a = c :: (List.replicate m' c ++ x :: tl) ∧ d = c := by
        rw [hac] at he
        simp only [List.replicate_succ, List.cons_append, List.cons.injEq] at he
        exact ⟨by rw [hac, he.2, he.1], he.1.symm⟩
      obtain ⟨_, hdc⟩ := hXa
      subst hdc
      have htl : tail0 = List.replicate m' d ++ x :: tl := by
        rw [hac] at he
        simp only [List.replicate_succ, List.cons_append, List.cons.injEq] at he
        exact he.2
      have hsp : countSp tail = 0 := by
        unfold countSp
        apply countPrefix_zero_of_head
        have hdsp : d ≠ ' ' := hcsp
        have htail : ∃ Z, tail = List.replicate m' d ++ x :: (tl ++ Z) := by
          cases r with
          | nil =>
            rw [joinLines_single, hac] at hX
            exact ⟨[], by rw [← (List.cons.inj hX).2, htl]; simp⟩
          | cons b r' =>
            rw [joinLines_cons_cons, hac] at hX
            exact ⟨'\n' :: joinLines (b :: r'), by
              rw [← (List.cons.inj hX).2, htl]; simp [List.append_assoc]⟩
        obtain ⟨Z, hZ⟩ := htail
        rw [hZ]
        cases m' with
        | zero => simpa using hxsp
        | succ k => simpa [List.replicate_succ] using hdsp
      simp only [listItemMatch, h0, hd, hol']
      rcases hd' with e | e <;> subst e <;> cases ol <;> cases ul <;> simp [ulMarker, hsp]
  have e6 : setextMatch (spaces i ++ joinLines (a :: r)) = false := by
    cases r with
    | nil =>
      apply setextMatch_line
      intro hm
      rcases List.mem_append.1 hm with hm | hm
      · exact absurd (List.eq_of_mem_replicate hm) (by decide)
      · rw [joinLines_single] at hm; exact hanl hm
    | cons b r' =>
      obtain ⟨hb, hbnl⟩ := hL b (by simp)
      obtain ⟨cb, tb, hbc, _, hbeq, hbce⟩ := hb
      have hnla : '\n' ∉ spaces i ++ a := by
        intro hm
        rcases List.mem_append.1 hm with hm | hm
        · exact absurd (List.eq_of_mem_replicate hm) (by decide)
        · exact hanl hm
      have hfind : find ['\n'] (spaces i ++ joinLines (a :: b :: r')) = some (spaces i ++ a).length := by
        rw [joinLines_cons_cons, ← List.append_assoc]; exact find_nl_app hnla _
      have hdrop : (spaces i ++ joinLines (a :: b :: r')).drop ((spaces i ++ a).length + 1) = joinLines (b :: r') := by
        rw [joinLines_cons_cons, ← List.append_assoc, List.drop_append]
        simp
      have hcb : cb ≠ '-' := by
        rcases hbce with h | ⟨d, m, x, tl, he, hd, hm1, _, _, _⟩
        · exact fun e => h (by rw [e]; decide)
        · obtain ⟨m', rfl⟩ : ∃ m', m = m' + 1 := ⟨m - 1, by omega⟩
          rw [hbc] at he
          simp only [List.replicate_succ, List.cons_append, List.cons.injEq] at he
          rw [he.1]; rcases hd with e | e <;> rw [e] <;> decide
      have hfl : ∃ Y, firstLine (joinLines (b :: r')) = cb :: Y := by
        cases r' with
        | nil => exact ⟨tb, by rw [joinLines_single, firstLine_noNl hbnl, hbc]⟩
        | cons c2 r'' => exact ⟨tb, by rw [joinLines_cons_cons, firstLine_app_nl hbnl, hbc]⟩
      obtain ⟨Y, hY⟩ := hfl
      simp only [setextMatch, hfind, hdrop, hY]
      simp [spanLen, hbeq, hcb]
  have hlstrip := lstrip_indent i _ c tail hX hcs
  have hblank : isBlank (spaces i ++ joinLines (a :: r)) = false := by
    cases hb : isBlank (spaces i ++ joinLines (a :: r)) with
    | false => rfl
    | true =>
      rw [isBlank_iff] at hb
      have := hb c (by rw [hX]; simp)
      rw [hcs] at this; cases this
  generalize hb : spaces i ++ joinLines (a :: r) = b at *
  have h1 : b.isEmpty = false := by rw [← hb, hX]; cases i <;> simp [spaces, List.replicate_succ]
  have h2 : startsWith b ['\n'] = false := by
    rw [← hb, hX]; cases i <;> simp [spaces, List.replicate_succ, hcnl]
  have h3 : startsWith b (spaces 4) = false := by
    rw [← hb, hX]; exact startsWith_spaces_false _ 4 c _ (by omega) hcsp
  unfold dispatch
  simp only [h1, h2, h3, Bool.or_self, Bool.false_eq_true, if_false, Bool.false_and, e4, Option.isSome_none,
    e1, e6, e2, e3, e5]
  simp [paraP, hblank, hlstrip, isstate, mkText, Node.el]

/-- the same for a text `s` given as a whole: its lines are `splitC '\n' s` -/
theorem produces_para_linesL (i : Nat) (hi3 : i ≤ 3) (s : Str) (hL : ∀ l ∈ splitC '\n' s, LinkLineStart l)
    (hol : olMarker s = none) :
    Produces 4 (spaces i ++ s) { tag := .name "p".toList, text := some s } := by
  have hj : joinLines (splitC '\n' s) = s := splitC_join '\n' s
  have h := produces_para_multiL i hi3 (splitC '\n' s) (Py.splitC_ne_nil _ _)
    (fun l hl => ⟨hL l hl, not_mem_of_mem_splitC hl⟩) (by rw [hj]; exact hol)
  rw [hj] at h
  exact h

end MdVerif.DocMixB
