/-
Helper lemmas for C17 (toc part).  Core Lean only.
-/
import MdVerif.Spec.Toc

namespace MdVerif.Toc
open MdVerif.Py MdVerif.Toc.Spec

/-! ### decimal rendering -/

theorem digitChar_isAsciiDigit (n : Nat) : isAsciiDigit (digitChar n) = true := by
  have h : ∀ k, k < 10 → isAsciiDigit (Char.ofNat (48 + k)) = true := by decide
  exact h (n % 10) (Nat.mod_lt _ (by omega))

theorem decimalValue_digitChar (n : Nat) : decimalValue (digitChar n) = n % 10 := by
  have h : ∀ k, k < 10 → decimalValue (Char.ofNat (48 + k)) = k := by decide
  exact h (n % 10) (Nat.mod_lt _ (by omega))

theorem natToDecAux_append (f n : Nat) (acc : Str) :
    natToDecAux f n acc = natToDecAux f n [] ++ acc := by
  induction f generalizing n acc with
  | zero => simp [natToDecAux]
  | succ f ih =>
    simp only [natToDecAux]
    split
    · simp
    · rw [ih (n / 10) (digitChar n :: acc), ih (n / 10) [digitChar n]]; simp

theorem decToNat_append_single (a : Str) (c : Char) :
    decToNat (a ++ [c]) = decToNat a * 10 + decimalValue c := by
  simp [decToNat, List.foldl_append]

theorem decToNat_natToDecAux (f n : Nat) (h : n < f) : decToNat (natToDecAux f n []) = n := by
  induction f generalizing n with
  | zero => omega
  | succ f ih =>
    simp only [natToDecAux]
    split
    · rename_i h10
      simp [decToNat, decimalValue_digitChar]; omega
    · rename_i h10
      rw [natToDecAux_append, decToNat_append_single, ih (n / 10) (by omega), decimalValue_digitChar]
      omega

theorem decToNat_natToDec (n : Nat) : decToNat (natToDec n) = n :=
  decToNat_natToDecAux (n + 1) n (by omega)

theorem natToDec_injective {a b : Nat} (h : natToDec a = natToDec b) : a = b := by
  have := congrArg decToNat h
  simpa [decToNat_natToDec] using this

theorem natToDecAux_digits (f n : Nat) : ∀ c ∈ natToDecAux f n [], isAsciiDigit c = true := by
  induction f generalizing n with
  | zero => simp [natToDecAux]
  | succ f ih =>
    simp only [natToDecAux]
    split
    · simp [digitChar_isAsciiDigit]
    · rw [natToDecAux_append]
      intro c hc
      rcases List.mem_append.mp hc with hc | hc
      · exact ih _ c hc
      · simp at hc; subst hc; exact digitChar_isAsciiDigit n

theorem natToDec_digits (n : Nat) : ∀ c ∈ natToDec n, isAsciiDigit c = true := natToDecAux_digits _ _

theorem natToDec_ne_nil (n : Nat) : natToDec n ≠ [] := by
  unfold natToDec
  simp only [natToDecAux]
  split
  · simp
  · rw [natToDecAux_append]; simp

theorem natToDec_one : natToDec 1 = ['1'] := by decide
theorem natToDec_two : natToDec 2 = ['2'] := by decide

theorem not_mem_natToDec {c : Char} (hc : isAsciiDigit c = false) (n : Nat) : c ∉ natToDec n := by
  intro h
  have := natToDec_digits n c h
  simp [this] at hc


/-! ### `IDCOUNT_RE` -/

theorem takeWhile_append_stop {α} (p : α → Bool) (l : List α) (x : α) (r : List α)
    (hl : ∀ c ∈ l, p c = true) (hx : p x = false) :
    (l ++ x :: r).takeWhile p = l ∧ (l ++ x :: r).dropWhile p = x :: r := by
  induction l with
  | nil => simp [hx]
  | cons a l ih =>
    have ha : p a = true := hl a (by simp)
    have := ih (fun c hc => hl c (by simp [hc]))
    simp [ha, this]

theorem stripFinalNl_of_head {c : Char} {r : Str} (h : c ≠ '\n') : stripFinalNl (c :: r) = c :: r := by
  unfold stripFinalNl
  split
  · rename_i heq; cases heq; exact absurd rfl h
  · rfl

theorem idcountRev_canonical (dr ar : Str) (hs : '\n' ∉ ar) (hd : dr ≠ [])
    (hdig : ∀ c ∈ dr, isAsciiDigit c = true) : idcountRev (dr ++ '_' :: ar) = some (ar.reverse, dr.reverse) := by
  unfold idcountRev
  have htd := takeWhile_append_stop isAsciiDigit dr '_' ar hdig (by decide)
  rw [htd.1, htd.2]
  cases dr with
  | nil => exact absurd rfl hd
  | cons c r => simp [hs]

/-- the regex finds the decomposition `stem _ digits` whenever there is one with a line-feed-free stem -/
theorem idcountSplit_canonical (stem d : Str) (hs : '\n' ∉ stem) (hd : d ≠ [])
    (hdig : ∀ c ∈ d, isAsciiDigit c = true) : idcountSplit (stem ++ '_' :: d) = some (stem, d) := by
  unfold idcountSplit
  have hrev : (stem ++ '_' :: d).reverse = d.reverse ++ '_' :: stem.reverse := by simp
  rw [hrev]
  obtain ⟨c, r, hcr⟩ : ∃ c r, d.reverse = c :: r := by
    cases h : d.reverse with
    | nil => simp at h; exact absurd h hd
    | cons c r => exact ⟨c, r, rfl⟩
  have hc : isAsciiDigit c = true := hdig c (by
    have : c ∈ d.reverse := by rw [hcr]; simp
    simpa using this)
  have hne : c ≠ '\n' := by intro h; subst h; simp [isAsciiDigit] at hc
  have hstrip : stripFinalNl (d.reverse ++ '_' :: stem.reverse) = d.reverse ++ '_' :: stem.reverse := by
    rw [hcr]; exact stripFinalNl_of_head hne
  rw [hstrip, idcountRev_canonical d.reverse stem.reverse (by simpa using hs) (by simpa using hd)
    (fun c hc => hdig c (by simpa using hc))]
  simp

theorem idcountSplit_stem {s stem d : Str} (h : idcountSplit s = some (stem, d)) : '\n' ∉ stem := by
  unfold idcountSplit idcountRev at h
  split at h
  · split at h
    · cases h
    · rename_i hn
      simp only [Option.some.injEq, Prod.mk.injEq] at h
      rw [← h.1]; simpa using hn
  · cases h

/-- `s_1` is not of the form `stem _ digits` when `s` holds a line feed (the stem could only be `s`) -/
theorem idcountSplit_append_nl {s : Str} (h : '\n' ∈ s) : idcountSplit (s ++ ['_', '1']) = none := by
  unfold idcountSplit
  have hrev : (s ++ ['_', '1']).reverse = '1' :: '_' :: s.reverse := by simp
  rw [hrev, stripFinalNl_of_head (by decide)]
  have h1 : isAsciiDigit '1' = true := by decide
  have h2 : isAsciiDigit '_' = false := by decide
  have : '\n' ∈ s.reverse := by simpa using h
  simp [idcountRev, List.takeWhile, List.dropWhile, h1, h2, this]


/-! ### the candidates of `unique` -/

theorem candidate_succ (id : Str) (k : Nat) : candidate id (k + 1) = uniqueStep (candidate id k) := by
  induction k generalizing id with
  | zero => rfl
  | succ k ih => show candidate (uniqueStep id) (k + 1) = _; rw [ih]; rfl

theorem uniqueStep_ne_nil (id : Str) : uniqueStep id ≠ [] := by
  unfold uniqueStep
  split <;> simp

theorem candidate_succ_ne_nil (id : Str) (k : Nat) : candidate id (k + 1) ≠ [] := by
  rw [candidate_succ]; exact uniqueStep_ne_nil _

/-- counter mode: `stem_K ↦ stem_(K+1)` -/
theorem uniqueStep_counter (stem : Str) (K : Nat) (hs : '\n' ∉ stem) :
    uniqueStep (stem ++ '_' :: natToDec K) = stem ++ '_' :: natToDec (K + 1) := by
  unfold uniqueStep
  rw [idcountSplit_canonical stem (natToDec K) hs (natToDec_ne_nil K) (natToDec_digits K)]
  simp [decToNat_natToDec]

theorem candidate_counter (stem : Str) (K : Nat) (hs : '\n' ∉ stem) (j : Nat) :
    candidate (stem ++ '_' :: natToDec K) j = stem ++ '_' :: natToDec (K + j) := by
  induction j with
  | zero => rfl
  | succ j ih => rw [candidate_succ, ih, uniqueStep_counter _ _ hs]; rfl

/-- append mode: a candidate holding a line feed in a non-matching position only grows -/
theorem candidate_append_mode (id : Str) (hnl : '\n' ∈ id) (hno : idcountSplit id = none) (j : Nat) :
    '\n' ∈ candidate id j ∧ idcountSplit (candidate id j) = none ∧ (candidate id j).length = id.length + 2 * j := by
  induction j with
  | zero => exact ⟨hnl, hno, rfl⟩
  | succ j ih =>
    obtain ⟨h1, h2, h3⟩ := ih
    have hstep : candidate id (j + 1) = candidate id j ++ ['_', '1'] := by
      rw [candidate_succ]; unfold uniqueStep; rw [h2]
    rw [hstep]
    refine ⟨by simp [h1], idcountSplit_append_nl h1, ?_⟩
    simp [h3]; omega

/-- candidates with index ≥ 1 are pairwise distinct -/
theorem candidate_succ_injective (id : Str) {i j : Nat} (h : candidate id (i + 1) = candidate id (j + 1)) :
    i = j := by
  cases hsp : idcountSplit id with
  | some p =>
    obtain ⟨stem, d⟩ := p
    have hs := idcountSplit_stem hsp
    have h1 : candidate id 1 = stem ++ '_' :: natToDec (decToNat d + 1) := by
      show uniqueStep id = _; unfold uniqueStep; rw [hsp]
    have hc : ∀ k, candidate id (k + 1) = stem ++ '_' :: natToDec (decToNat d + 1 + k) := by
      intro k
      have : candidate id (k + 1) = candidate (candidate id 1) k := rfl
      rw [this, h1, candidate_counter _ _ hs]
    rw [hc, hc] at h
    have := natToDec_injective (List.cons.inj (List.append_cancel_left h)).2
    omega
  | none =>
    by_cases hnl : '\n' ∈ id
    · have hi := (candidate_append_mode id hnl hsp (i + 1)).2.2
      have hj := (candidate_append_mode id hnl hsp (j + 1)).2.2
      rw [h] at hi; omega
    · have h1 : candidate id 1 = id ++ '_' :: natToDec 1 := by
        show uniqueStep id = _; unfold uniqueStep; rw [hsp, natToDec_one]
      have hc : ∀ k, candidate id (k + 1) = id ++ '_' :: natToDec (1 + k) := by
        intro k
        have : candidate id (k + 1) = candidate (candidate id 1) k := rfl
        rw [this, h1, candidate_counter _ _ hnl]
      rw [hc, hc] at h
      have := natToDec_injective (List.cons.inj (List.append_cancel_left h)).2
      omega

/-- all candidates are pairwise distinct -/
theorem candidate_injective (id : Str) {i j : Nat} (h : candidate id i = candidate id j) : i = j := by
  have h' : candidate id (i + 1) = candidate id (j + 1) := by rw [candidate_succ, candidate_succ, h]
  exact candidate_succ_injective id h'

/-! ### pigeonhole -/

theorem nodup_subset_length {α} [DecidableEq α] (l ids : List α) (hn : l.Nodup) (hs : ∀ x ∈ l, x ∈ ids) :
    l.length ≤ ids.length := by
  induction l generalizing ids with
  | nil => simp
  | cons a l ih =>
    have ha : a ∈ ids := hs a (by simp)
    have hnd := List.nodup_cons.mp hn
    have := ih (ids.erase a) hnd.2 (fun x hx => by
      have hne : x ≠ a := fun e => hnd.1 (e ▸ hx)
      exact (List.mem_erase_of_ne hne).mpr (hs x (by simp [hx])))
    rw [List.length_erase_of_mem ha] at this
    have : 0 < ids.length := List.length_pos_of_mem ha
    simp; omega

/-- among the candidates `0 … |ids|+1` one passes the loop condition -/
theorem exists_fresh_candidate (id : Str) (ids : List Str) :
    ∃ k, k ≤ ids.length + 1 ∧ Fresh ids (candidate id k) := by
  apply Classical.byContradiction
  intro hno
  have hbad : ∀ k, k ≤ ids.length + 1 → candidate id k ∈ ids ∨ candidate id k = [] := by
    intro k hk
    apply Classical.byContradiction
    intro hb
    exact hno ⟨k, hk, fun h => hb (Or.inl h), fun h => hb (Or.inr h)⟩
  let l := (List.range (ids.length + 1)).map (fun j => candidate id (j + 1))
  have hn : l.Nodup := by
    show List.Pairwise (· ≠ ·) _
    rw [List.pairwise_map]
    exact List.Pairwise.imp (fun hab h => hab (candidate_succ_injective id h)) List.nodup_range
  have hs : ∀ x ∈ l, x ∈ ids := by
    intro x hx
    obtain ⟨j, hj, rfl⟩ := List.mem_map.mp hx
    have hj' : j < ids.length + 1 := List.mem_range.mp hj
    rcases hbad (j + 1) (by omega) with h | h
    · exact h
    · exact absurd h (candidate_succ_ne_nil id j)
  have := nodup_subset_length l ids hn hs
  simp [l] at this
  omega

/-! ### the loop -/

/-- if some candidate within the fuel is fresh, the loop stops at the first fresh one -/
theorem uniqueLoop_spec (fuel : Nat) (id : Str) (ids : List Str)
    (h : ∃ k, k ≤ fuel ∧ Fresh ids (candidate id k)) :
    ∃ k, k ≤ fuel ∧ uniqueLoop fuel id ids = candidate id k ∧ Fresh ids (candidate id k) ∧
      ∀ j, j < k → ¬ Fresh ids (candidate id j) := by
  induction fuel generalizing id with
  | zero =>
    obtain ⟨k, hk, hf⟩ := h
    have : k = 0 := by omega
    subst this
    exact ⟨0, Nat.le_refl _, rfl, hf, fun j hj => by omega⟩
  | succ fuel ih =>
    by_cases hb : id ∈ ids ∨ id = []
    · obtain ⟨k, hk, hf⟩ := h
      cases k with
      | zero => exact absurd hb (by rcases hf with ⟨h1, h2⟩; intro h; rcases h with h | h; exact h1 h; exact h2 h)
      | succ k =>
        obtain ⟨k', hk', he, hf', hmin⟩ := ih (uniqueStep id) ⟨k, by omega, hf⟩
        refine ⟨k' + 1, by omega, ?_, hf', ?_⟩
        · simp only [uniqueLoop, if_pos hb]; exact he
        · intro j hj
          cases j with
          | zero => intro hfr; rcases hb with h | h; exact hfr.1 h; exact hfr.2 h
          | succ j => exact hmin j (by omega)
    · refine ⟨0, by omega, ?_, ?_, fun j hj => by omega⟩
      · simp only [uniqueLoop, if_neg hb]; rfl
      · exact ⟨fun h => hb (Or.inl h), fun h => hb (Or.inr h)⟩


theorem unique_spec (id : Str) (ids : List Str) :
    ∃ k, k ≤ ids.length + 1 ∧ (unique id ids).1 = candidate id k ∧ Fresh ids (candidate id k) ∧
      ∀ j, j < k → ¬ Fresh ids (candidate id j) :=
  uniqueLoop_spec (ids.length + 1) id ids (exists_fresh_candidate id ids)

theorem unique_fresh (id : Str) (ids : List Str) : Fresh ids (unique id ids).1 := by
  obtain ⟨k, _, he, hf, _⟩ := unique_spec id ids
  rw [he]; exact hf

theorem unique_snd (id : Str) (ids : List Str) : (unique id ids).2 = (unique id ids).1 :: ids := rfl

/-! ### `assignIds` -/

theorem assignIds_generated (slug : Str → Str) (hs : List Heading) (used : List Str) :
    (generatedIds hs (assignIds slug used hs)).Nodup ∧
    ∀ i ∈ generatedIds hs (assignIds slug used hs), i ∉ used ∧ i ≠ [] := by
  induction hs generalizing used with
  | nil => simp [generatedIds]
  | cons h hs ih =>
    obtain ⟨lvl, oid, name⟩ := h
    cases oid with
    | some i => simpa [assignIds, generatedIds] using ih used
    | none =>
      have hf := unique_fresh (slug name) used
      obtain ⟨hn, hd⟩ := ih (unique (slug name) used).2
      simp only [assignIds, generatedIds]
      refine ⟨List.nodup_cons.mpr ⟨?_, hn⟩, ?_⟩
      · intro hm
        have := (hd _ hm).1
        rw [unique_snd] at this
        exact this (by simp)
      · intro i hi
        rcases List.mem_cons.mp hi with rfl | hi
        · exact hf
        · have := hd i hi
          rw [unique_snd] at this
          exact ⟨fun h => this.1 (by simp [h]), this.2⟩

theorem assignIds_shape (slug : Str → Str) (hs : List Heading) (used : List Str) :
    (assignIds slug used hs).map (fun t => (t.level, t.name)) = hs.map (fun h => (h.1, h.2.2)) := by
  induction hs generalizing used with
  | nil => rfl
  | cons h hs ih =>
    obtain ⟨lvl, oid, name⟩ := h
    cases oid <;> simp [assignIds, ih]

/-- every token id is either the preset id of its heading or a generated one -/
theorem assignIds_ids (slug : Str → Str) (hs : List Heading) (used : List Str) :
    ∀ i ∈ (assignIds slug used hs).map (·.id),
      i ∈ presetIds hs ∨ i ∈ generatedIds hs (assignIds slug used hs) := by
  induction hs generalizing used with
  | nil => simp [assignIds]
  | cons h hs ih =>
    obtain ⟨lvl, oid, name⟩ := h
    cases oid with
    | some j =>
      intro i hi
      simp only [assignIds, List.map_cons, List.mem_cons] at hi
      rcases hi with rfl | hi
      · left; simp [presetIds]
      · rcases ih used i hi with h | h
        · left; simp [presetIds, h]
        · right; simpa [generatedIds, assignIds] using h
    | none =>
      intro i hi
      simp only [assignIds, List.map_cons, List.mem_cons] at hi
      rcases hi with rfl | hi
      · right; simp [generatedIds, assignIds]
      · rcases ih _ i hi with h | h
        · left; simpa [presetIds] using h
        · right; simp only [generatedIds, assignIds]; exact List.mem_cons_of_mem _ h

/-! ### `nest_toc_tokens`: preorder -/

theorem flattenList_append (a b : List TokTree) : flattenList (a ++ b) = flattenList a ++ flattenList b := by
  induction a with
  | nil => rfl
  | cons c cs ih => simp [flattenList, ih]

theorem flattenList_single (c : TokTree) : flattenList [c] = c.flatten := by simp [flattenList]

/-- preorder of the open chain: outermost parent first (the stack head is the innermost) -/
def framesFlat : List Frame → List Tok
  | [] => []
  | f :: ps => framesFlat ps ++ f.tok :: flattenList f.kids

def openFlat (ps : List Frame) (top : List TokTree) : List Tok := flattenList top ++ framesFlat ps

def stateFlat (st : NestState) : List Tok := openFlat st.parents st.top ++ [st.last]

theorem attach_flat (c : TokTree) (ps : List Frame) (top : List TokTree) :
    openFlat (attach c ps top).1 (attach c ps top).2 = openFlat ps top ++ c.flatten := by
  cases ps with
  | nil => simp [attach, openFlat, framesFlat, flattenList_append, flattenList_single]
  | cons f ps => simp [attach, openFlat, framesFlat, flattenList_append, flattenList_single]

theorem attach_length (c : TokTree) (ps : List Frame) (top : List TokTree) :
    (attach c ps top).1.length = ps.length := by
  cases ps <;> simp [attach]

theorem closeFrames_flat (k : Nat) (ps : List Frame) (top : List TokTree) :
    openFlat (closeFrames k ps top).1 (closeFrames k ps top).2 = openFlat ps top := by
  induction k generalizing ps top with
  | zero => rfl
  | succ k ih =>
    cases ps with
    | nil => rfl
    | cons f ps =>
      simp only [closeFrames]
      rw [ih, attach_flat]
      simp [openFlat, framesFlat, TokTree.flatten]

theorem closeFrames_all (ps : List Frame) (top : List TokTree) :
    (closeFrames ps.length ps top).1 = [] := by
  induction h : ps.length generalizing ps top with
  | zero => simp [closeFrames, List.length_eq_zero_iff.mp h]
  | succ k ih =>
    cases ps with
    | nil => simp at h
    | cons f ps =>
      simp only [closeFrames]
      apply ih
      rw [attach_length]; simpa using h

theorem nestStep_flat (st : NestState) (t : Tok) : stateFlat (nestStep st t) = stateFlat st ++ [t] := by
  unfold nestStep
  simp only
  by_cases h : t.level = (nestReduce st t.level).2.headD 0
  · rw [if_pos h]
    simp only [stateFlat]
    rw [closeFrames_flat, attach_flat]
    simp [TokTree.flatten, flattenList]
  · rw [if_neg h]
    simp [stateFlat, openFlat, framesFlat, flattenList]

theorem foldl_nestStep_flat (ts : List Tok) (st : NestState) :
    stateFlat (ts.foldl nestStep st) = stateFlat st ++ ts := by
  induction ts generalizing st with
  | nil => simp
  | cons t ts ih => simp [ih, nestStep_flat]

theorem nestFinish_flat (st : NestState) : flattenList (nestFinish st) = stateFlat st := by
  unfold nestFinish
  simp only
  have h1 := closeFrames_flat (attach (.mk st.last []) st.parents st.top).1.length
    (attach (.mk st.last []) st.parents st.top).1 (attach (.mk st.last []) st.parents st.top).2
  rw [closeFrames_all, attach_flat] at h1
  simpa [openFlat, framesFlat, stateFlat, TokTree.flatten, flattenList] using h1

theorem nestToc_flatten (ts : List Tok) : flattenList (nestToc ts) = ts := by
  cases ts with
  | nil => rfl
  | cons t ts =>
    simp only [nestToc]
    rw [nestFinish_flat, foldl_nestStep_flat]
    simp [stateFlat, nestInit, openFlat, framesFlat, flattenList]

mutual
theorem TokTree.links_eq_flatten : ∀ t : TokTree, t.links = t.flatten.map (fun t => '#' :: t.id)
  | .mk t cs => by simp [TokTree.links, TokTree.flatten, tocLinks_eq_flatten cs]
/-- `build_toc_div` walks the nested list in preorder -/
theorem tocLinks_eq_flatten : ∀ f : List TokTree, tocLinks f = (flattenList f).map (fun t => '#' :: t.id)
  | [] => rfl
  | c :: cs => by simp [tocLinks, flattenList, TokTree.links_eq_flatten c, tocLinks_eq_flatten cs]
end

/-! ### `nest_toc_tokens`: parents -/

theorem edgesList_append (par : Option Tok) (a b : List TokTree) :
    edgesList par (a ++ b) = edgesList par a ++ edgesList par b := by
  induction a with
  | nil => rfl
  | cons c cs ih => simp [edgesList, ih]

/-- the parent of whatever is attached to the stack `ps` next -/
def parentOf (ps : List Frame) : Option Tok := ps.head?.map (·.tok)

/-- `(entry, parent)` pairs of the open chain, outermost parent first -/
def framesEdges : List Frame → List (Tok × Option Tok)
  | [] => []
  | f :: ps => framesEdges ps ++ (f.tok, parentOf ps) :: edgesList (some f.tok) f.kids

def openEdges (ps : List Frame) (top : List TokTree) : List (Tok × Option Tok) :=
  edgesList none top ++ framesEdges ps

def stateEdges (st : NestState) : List (Tok × Option Tok) :=
  openEdges st.parents st.top ++ [(st.last, parentOf st.parents)]

theorem attach_edges (c : TokTree) (ps : List Frame) (top : List TokTree) :
    openEdges (attach c ps top).1 (attach c ps top).2 = openEdges ps top ++ c.edges (parentOf ps) := by
  cases ps with
  | nil => simp [attach, openEdges, framesEdges, edgesList_append, edgesList, parentOf]
  | cons f ps => simp [attach, openEdges, framesEdges, edgesList_append, edgesList, parentOf]

theorem attach_toks (c : TokTree) (ps : List Frame) (top : List TokTree) :
    (attach c ps top).1.map (·.tok) = ps.map (·.tok) := by
  cases ps <;> simp [attach]

theorem closeFrames_edges (k : Nat) (ps : List Frame) (top : List TokTree) :
    openEdges (closeFrames k ps top).1 (closeFrames k ps top).2 = openEdges ps top := by
  induction k generalizing ps top with
  | zero => rfl
  | succ k ih =>
    cases ps with
    | nil => rfl
    | cons f ps =>
      simp only [closeFrames]
      rw [ih, attach_edges]
      simp [openEdges, framesEdges, TokTree.edges]

theorem closeFrames_toks (k : Nat) (ps : List Frame) (top : List TokTree) :
    (closeFrames k ps top).1.map (·.tok) = (ps.map (·.tok)).drop k := by
  induction k generalizing ps top with
  | zero => rfl
  | succ k ih =>
    cases ps with
    | nil => rfl
    | cons f ps =>
      simp only [closeFrames]
      rw [ih, attach_toks]
      simp

theorem countPop_drop (cur : Nat) (ps : List Frame) :
    (ps.map (·.tok)).drop (countPop cur ps) = (ps.map (·.tok)).dropWhile (fun p => decide (cur ≤ p.level)) := by
  induction ps with
  | nil => rfl
  | cons f ps ih =>
    by_cases h : cur ≤ f.tok.level
    · simp [countPop, h, ih]
    · simp [countPop, h]

theorem parentOf_eq (ps : List Frame) : parentOf ps = (ps.map (·.tok)).head? := by
  cases ps <;> rfl

/-- the open chain, innermost first: `last`, `parents[-1]`, `parents[-2]`, … -/
def chain (st : NestState) : List Tok := st.last :: st.parents.map (·.tok)

/-- levels strictly decrease from `last` outwards -/
def ChainSorted (c : List Tok) : Prop := c.Pairwise (fun a b => b.level < a.level)

theorem nestStep_edges (st : NestState) (t : Tok) :
    stateEdges (nestStep st t) = stateEdges st ++ [(t, parentOf (nestStep st t).parents)] := by
  unfold nestStep
  simp only
  by_cases h : t.level = (nestReduce st t.level).2.headD 0
  · rw [if_pos h]
    simp only [stateEdges]
    rw [closeFrames_edges, attach_edges]
    simp [TokTree.edges, edgesList]
  · rw [if_neg h]
    simp [stateEdges, openEdges, framesEdges, edgesList]

theorem nestStep_chain (st : NestState) (t : Tok) (h1 : st.levels.headD 0 = st.last.level)
    (h2 : ChainSorted (chain st)) :
    (nestStep st t).parents.map (·.tok) = (chain st).dropWhile (fun p => decide (t.level ≤ p.level)) ∧
    (nestStep st t).levels.headD 0 = t.level ∧ (nestStep st t).last = t := by
  by_cases hlt : t.level < st.last.level
  · have hs : nestStep st t =
        { top := (closeFrames (countPop t.level st.parents) (attach (.mk st.last []) st.parents st.top).1
                    (attach (.mk st.last []) st.parents st.top).2).2,
          parents := (closeFrames (countPop t.level st.parents) (attach (.mk st.last []) st.parents st.top).1
                    (attach (.mk st.last []) st.parents st.top).2).1,
          levels := t.level :: st.levels.tail.drop (countPop t.level st.parents), last := t } := by
      unfold nestStep nestReduce
      simp only [h1, if_pos hlt, List.headD_cons, if_true]
    rw [hs]
    refine ⟨?_, rfl, rfl⟩
    show (closeFrames _ _ _).1.map (·.tok) = _
    rw [closeFrames_toks, attach_toks, countPop_drop]
    have : decide (t.level ≤ st.last.level) = true := by simp; omega
    simp [chain, this]
  · by_cases heq : t.level = st.last.level
    · have hs : nestStep st t =
          { top := (attach (.mk st.last []) st.parents st.top).2,
            parents := (attach (.mk st.last []) st.parents st.top).1,
            levels := st.levels, last := t } := by
        unfold nestStep nestReduce
        simp only [h1, if_neg hlt, if_pos heq, closeFrames]
      rw [hs]
      refine ⟨?_, by show st.levels.headD 0 = _; rw [h1, heq], rfl⟩
      show (attach _ _ _).1.map (·.tok) = _
      rw [attach_toks]
      have : decide (t.level ≤ st.last.level) = true := by simp; omega
      simp only [chain, List.dropWhile, this]
      cases hps : st.parents.map (·.tok) with
      | nil => rfl
      | cons a l =>
        have : a.level < st.last.level := by
          have := h2
          simp only [ChainSorted, chain, hps, List.pairwise_cons] at this
          exact this.1 a (by simp)
        have : decide (t.level ≤ a.level) = false := by simp; omega
        simp [List.dropWhile, this]
    · have hs : nestStep st t =
          { top := st.top, parents := ⟨st.last, []⟩ :: st.parents,
            levels := t.level :: st.levels, last := t } := by
        unfold nestStep nestReduce
        simp only [h1, if_neg hlt, if_neg heq]
      rw [hs]
      refine ⟨?_, rfl, rfl⟩
      have : decide (t.level ≤ st.last.level) = false := by simp; omega
      simp [chain, this]

theorem find?_eq_dropWhile_head? (cur : Nat) (l : List Tok) :
    l.find? (fun p => decide (p.level < cur)) = (l.dropWhile (fun p => decide (cur ≤ p.level))).head? := by
  induction l with
  | nil => rfl
  | cons a l ih =>
    by_cases h : a.level < cur
    · have : decide (cur ≤ a.level) = false := by simp; omega
      simp [List.find?, List.dropWhile, h, this]
    · have : decide (cur ≤ a.level) = true := by simp; omega
      simp [List.find?, List.dropWhile, h, this, ih]

theorem find?_dropWhile (cur x : Nat) (hx : x ≤ cur) (l : List Tok) :
    (l.dropWhile (fun p => decide (cur ≤ p.level))).find? (fun p => decide (p.level < x)) =
    l.find? (fun p => decide (p.level < x)) := by
  induction l with
  | nil => rfl
  | cons a l ih =>
    by_cases h : cur ≤ a.level
    · have : ¬ a.level < x := by omega
      simp [List.dropWhile, h, List.find?, this, ih]
    · simp [List.dropWhile, h]

theorem dropWhile_bound (cur : Nat) (c : List Tok) (hc : ChainSorted c) :
    ∀ p ∈ c.dropWhile (fun p => decide (cur ≤ p.level)), p.level < cur := by
  induction c with
  | nil => simp
  | cons a c ih =>
    have hp := List.pairwise_cons.mp hc
    by_cases h : cur ≤ a.level
    · simpa [List.dropWhile, h] using ih hp.2
    · intro p hp'
      simp [List.dropWhile, h] at hp'
      rcases hp' with rfl | hp'
      · omega
      · have := hp.1 p hp'; omega

/-- invariant of the walk: `pre` = the entries consumed so far -/
structure NestInv (st : NestState) (pre : List Tok) : Prop where
  lvl : st.levels.headD 0 = st.last.level
  sorted : ChainSorted (chain st)
  summary : ∀ x, pre.reverse.find? (fun p => decide (p.level < x)) = (chain st).find? (fun p => decide (p.level < x))

theorem nestStep_inv (st : NestState) (pre : List Tok) (t : Tok) (hI : NestInv st pre) :
    NestInv (nestStep st t) (pre ++ [t]) ∧ parentOf (nestStep st t).parents = outlineParent pre t := by
  obtain ⟨hp, hl, hlast⟩ := nestStep_chain st t hI.lvl hI.sorted
  refine ⟨⟨by rw [hl, hlast], ?_, ?_⟩, ?_⟩
  · simp only [ChainSorted, chain, hlast, hp, List.pairwise_cons]
    refine ⟨dropWhile_bound t.level _ hI.sorted, ?_⟩
    exact List.Pairwise.sublist (List.dropWhile_sublist _) hI.sorted
  · intro x
    simp only [chain, hlast, hp, List.reverse_append, List.reverse_cons, List.reverse_nil, List.nil_append,
      List.cons_append, List.find?]
    by_cases hx : t.level < x
    · simp [hx]
    · simp only [hx, decide_false]
      rw [hI.summary x, find?_dropWhile _ _ (by omega)]
      rfl
  · rw [parentOf_eq, hp, ← find?_eq_dropWhile_head?, ← hI.summary]
    rfl

theorem nestInit_inv (t : Tok) : NestInv (nestInit t) [t] :=
  ⟨rfl, by simp [ChainSorted, chain, nestInit], fun _ => rfl⟩

theorem foldl_nestStep_edges (ts : List Tok) (st : NestState) (pre : List Tok) (hI : NestInv st pre) :
    stateEdges (ts.foldl nestStep st) = stateEdges st ++ outlinePairsFrom pre ts := by
  induction ts generalizing st pre with
  | nil => simp [outlinePairsFrom]
  | cons t ts ih =>
    obtain ⟨hI', hpar⟩ := nestStep_inv st pre t hI
    simp only [List.foldl_cons, outlinePairsFrom]
    rw [ih _ _ hI', nestStep_edges, hpar]
    simp

theorem nestFinish_edges (st : NestState) : edgesList none (nestFinish st) = stateEdges st := by
  unfold nestFinish
  simp only
  have h1 := closeFrames_edges (attach (.mk st.last []) st.parents st.top).1.length
    (attach (.mk st.last []) st.parents st.top).1 (attach (.mk st.last []) st.parents st.top).2
  rw [closeFrames_all, attach_edges] at h1
  simpa [openEdges, framesEdges, stateEdges, TokTree.edges, edgesList] using h1

theorem nestToc_edges (ts : List Tok) : edgesList none (nestToc ts) = outlinePairs ts := by
  cases ts with
  | nil => rfl
  | cons t ts =>
    simp only [nestToc]
    rw [nestFinish_edges, foldl_nestStep_edges ts _ [t] (nestInit_inv t)]
    simp [stateEdges, nestInit, openEdges, framesEdges, edgesList, parentOf, outlinePairs, outlinePairsFrom,
      outlineParent]

theorem nestStep_levels_ne_nil (st : NestState) (t : Tok) (h : st.levels ≠ []) : (nestStep st t).levels ≠ [] := by
  unfold nestStep nestReduce
  simp only
  split <;> split <;> simp [h]

/-- `levels[-1]` is always defined during the walk -/
theorem foldl_nestStep_levels_ne_nil (ts : List Tok) (st : NestState) (h : st.levels ≠ []) :
    (ts.foldl nestStep st).levels ≠ [] := by
  induction ts generalizing st with
  | nil => exact h
  | cons t ts ih => exact ih _ (nestStep_levels_ne_nil st t h)

/-! ### `nest_toc_tokens` looks at levels only -/

theorem mapForest_append (f : Tok → Tok) (a b : List TokTree) :
    mapForest f (a ++ b) = mapForest f a ++ mapForest f b := by
  induction a with
  | nil => rfl
  | cons c cs ih => simp [mapForest, ih]

def mapFrame (f : Tok → Tok) (fr : Frame) : Frame := ⟨f fr.tok, mapForest f fr.kids⟩

def mapState (f : Tok → Tok) (st : NestState) : NestState :=
  { top := mapForest f st.top, parents := st.parents.map (mapFrame f), levels := st.levels, last := f st.last }

theorem attach_map (f : Tok → Tok) (c : TokTree) (ps : List Frame) (top : List TokTree) :
    attach (mapTree f c) (ps.map (mapFrame f)) (mapForest f top) =
      ((attach c ps top).1.map (mapFrame f), mapForest f (attach c ps top).2) := by
  cases ps with
  | nil => simp [attach, mapForest_append, mapForest]
  | cons fr ps => simp [attach, mapFrame, mapForest_append, mapForest]

theorem closeFrames_map (f : Tok → Tok) (k : Nat) (ps : List Frame) (top : List TokTree) :
    closeFrames k (ps.map (mapFrame f)) (mapForest f top) =
      ((closeFrames k ps top).1.map (mapFrame f), mapForest f (closeFrames k ps top).2) := by
  induction k generalizing ps top with
  | zero => rfl
  | succ k ih =>
    cases ps with
    | nil => rfl
    | cons fr ps =>
      simp only [closeFrames, List.map_cons]
      have h := attach_map f (.mk fr.tok fr.kids) ps top
      simp only [mapTree] at h
      show closeFrames k (attach (.mk (f fr.tok) (mapForest f fr.kids)) _ _).1
        (attach (.mk (f fr.tok) (mapForest f fr.kids)) _ _).2 = _
      rw [h]
      exact ih _ _

theorem countPop_map (f : Tok → Tok) (hf : ∀ t, (f t).level = t.level) (cur : Nat) (ps : List Frame) :
    countPop cur (ps.map (mapFrame f)) = countPop cur ps := by
  induction ps with
  | nil => rfl
  | cons fr ps ih => simp [countPop, mapFrame, hf, ih]

theorem nestStep_map (f : Tok → Tok) (hf : ∀ t, (f t).level = t.level) (st : NestState) (t : Tok) :
    nestStep (mapState f st) (f t) = mapState f (nestStep st t) := by
  have hr : nestReduce (mapState f st) t.level = nestReduce st t.level := by
    simp [nestReduce, mapState, countPop_map f hf]
  unfold nestStep
  simp only [hf, hr]
  by_cases h : t.level = (nestReduce st t.level).2.headD 0
  · rw [if_pos h, if_pos h]
    have ha := attach_map f (.mk st.last []) st.parents st.top
    simp only [mapTree, mapForest] at ha
    simp only [mapState]
    rw [ha, closeFrames_map]
  · rw [if_neg h, if_neg h]
    simp [mapState, mapFrame, mapForest]

theorem foldl_nestStep_map (f : Tok → Tok) (hf : ∀ t, (f t).level = t.level) (ts : List Tok) (st : NestState) :
    (ts.map f).foldl nestStep (mapState f st) = mapState f (ts.foldl nestStep st) := by
  induction ts generalizing st with
  | nil => rfl
  | cons t ts ih => simp only [List.map_cons, List.foldl_cons, nestStep_map f hf, ih]

theorem nestFinish_map (f : Tok → Tok) (st : NestState) :
    nestFinish (mapState f st) = mapForest f (nestFinish st) := by
  unfold nestFinish
  have ha := attach_map f (.mk st.last []) st.parents st.top
  simp only [mapTree, mapForest] at ha
  simp only [mapState]
  rw [ha]
  simp only [List.length_map]
  rw [closeFrames_map]

/-- relabelling the entries by a level-preserving map commutes with nesting -/
theorem nestToc_map (f : Tok → Tok) (hf : ∀ t, (f t).level = t.level) (ts : List Tok) :
    nestToc (ts.map f) = mapForest f (nestToc ts) := by
  cases ts with
  | nil => rfl
  | cons t ts =>
    simp only [List.map_cons, nestToc]
    have : nestInit (f t) = mapState f (nestInit t) := by simp [nestInit, mapState, mapForest, hf]
    rw [this, foldl_nestStep_map f hf, nestFinish_map]

theorem restore_level (ts : List Tok) (t : Tok) : (restore ts t).level = t.level := by
  unfold restore
  split <;> rfl

theorem indexedFrom_restore (ts pre suf : List Tok) (h : ts = pre ++ suf) :
    (indexedFrom pre.length suf).map (restore ts) = suf := by
  induction suf generalizing pre with
  | nil => rfl
  | cons t suf ih =>
    have hget : ts[pre.length]? = some t := by rw [h]; simp
    have := ih (pre ++ [t]) (by simp [h])
    simp only [List.length_append, List.length_cons, List.length_nil] at this
    simp only [indexedFrom, List.map_cons, this]
    simp [restore, decToNat_natToDec, hget]

theorem indexed_restore (ts : List Tok) : (indexed ts).map (restore ts) = ts :=
  indexedFrom_restore ts [] ts rfl

theorem indexedFrom_ids (n : Nat) (ts : List Tok) :
    (indexedFrom n ts).map (·.id) = (List.range' n ts.length).map natToDec := by
  induction ts generalizing n with
  | nil => rfl
  | cons t ts ih => simp [indexedFrom, ih, List.range'_succ]

theorem indexed_ids_nodup (ts : List Tok) : ((indexed ts).map (·.id)).Nodup := by
  unfold indexed
  rw [indexedFrom_ids]
  show List.Pairwise (· ≠ ·) _
  rw [List.pairwise_map]
  exact List.Pairwise.imp (fun hab h => hab (natToDec_injective h)) List.nodup_range'

theorem indexedFrom_levels (n : Nat) (ts : List Tok) :
    (indexedFrom n ts).map (fun t => (t.level, t.name)) = ts.map (fun t => (t.level, t.name)) := by
  induction ts generalizing n with
  | nil => rfl
  | cons t ts ih => simp [indexedFrom, ih]

end MdVerif.Toc
