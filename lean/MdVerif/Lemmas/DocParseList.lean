/-
Helper lemmas for C01 on documents with lists (`Props/C01d.lean`), part 2: the block parser on tight lists nested to
any depth (`OListProcessor`/`UListProcessor.run`, `get_items`, `ListIndentProcessor` with `get_level`), and the
composition with the later stages (`Lemmas/DocParseListTree.lean`).  Core Lean only.
-/
import MdVerif.Lemmas.DocParseListTree
import MdVerif.Lemmas.BlockFuel

namespace MdVerif.DocParse
open Py Inline Escape Block

/-! ### markers -/

/-- the marker of an item as `print` writes it: `*`, `+` or `-` and a space (`o = false`), or decimal digits, `.` and a
    space (`o = true`) -/
def IsMarker (o : Bool) (m : Str) : Prop :=
  if o then ∃ n, m = natToDec n ++ ['.', ' '] else ∃ c, (c = '*' ∨ c = '+' ∨ c = '-') ∧ m = [c, ' ']

theorem natToDec_decimal (n : Nat) : (natToDec n).all isDecimal = true := by
  rw [List.all_eq_true]
  intro c hc
  exact isDecimal_of_isAsciiDigit (natToDec_digits n c hc)

theorem olMarker_ordered (n : Nat) (X : Str) :
    olMarker (natToDec n ++ '.' :: X) = some (natToDec n ++ ['.'], X) := by
  have hsp : spanLen isDecimal (natToDec n ++ '.' :: X) = (natToDec n).length := by
    rw [spanLen_append_of_all (natToDec_decimal n)]
    simp [spanLen_cons, show isDecimal '.' = false by decide]
  have hpos := natToDec_length_pos n
  have htake : (natToDec n ++ '.' :: X).take ((natToDec n).length + 1) = natToDec n ++ ['.'] := by
    rw [show natToDec n ++ '.' :: X = (natToDec n ++ ['.']) ++ X by simp]
    exact List.take_left' (by simp)
  have hdrop : (natToDec n ++ '.' :: X).drop ((natToDec n).length + 1) = X := by
    rw [show natToDec n ++ '.' :: X = (natToDec n ++ ['.']) ++ X by simp]
    exact List.drop_left' (by simp)
  simp [olMarker, hsp, hpos, htake, hdrop]

theorem olMarker_bullet (c : Char) (hc : c = '*' ∨ c = '+' ∨ c = '-') (X : Str) : olMarker (c :: X) = none := by
  have : isDecimal c = false := by rcases hc with h | h | h <;> rw [h] <;> decide
  simp [olMarker, spanLen, this]

theorem ulMarker_digit (n : Nat) (X : Str) : ulMarker (natToDec n ++ X) = none := by
  have hne := natToDec_ne_nil n
  cases hd : natToDec n with
  | nil => exact absurd hd hne
  | cons d r =>
    have hdig : isAsciiDigit d = true := natToDec_digits n d (by rw [hd]; simp)
    have h1 : d ≠ '*' := by intro e; subst e; exact absurd hdig (by decide)
    have h2 : d ≠ '+' := by intro e; subst e; exact absurd hdig (by decide)
    have h3 : d ≠ '-' := by intro e; subst e; exact absurd hdig (by decide)
    simp [ulMarker, h1, h2, h3]

/-- the head of a marker is not a space, not `#`, not a line feed -/
theorem marker_head {o : Bool} {m : Str} (h : IsMarker o m) :
    ∃ c r, m = c :: r ∧ c ≠ ' ' ∧ c ≠ '#' ∧ c ≠ '\n' ∧ c ≠ '=' ∧ (c = '-' → r = [' ']) := by
  unfold IsMarker at h
  cases o with
  | true =>
    simp only [if_true] at h
    obtain ⟨n, rfl⟩ := h
    have hne := natToDec_ne_nil n
    cases hd : natToDec n with
    | nil => exact absurd hd hne
    | cons d r =>
      have hdig : isAsciiDigit d = true := natToDec_digits n d (by rw [hd]; simp)
      refine ⟨d, r ++ ['.', ' '], rfl, ?_, ?_, ?_, ?_, ?_⟩ <;>
        (intro e; subst e; exact absurd hdig (by decide))
  | false =>
    simp only [Bool.false_eq_true, if_false] at h
    obtain ⟨c, hc, rfl⟩ := h
    refine ⟨c, [' '], rfl, ?_, ?_, ?_, ?_, fun _ => rfl⟩ <;>
      (rcases hc with h | h | h <;> rw [h] <;> decide)

/-- `CHILD_RE` / `RE` on a line that starts with a marker: the content is the rest of the line -/
theorem listItemMatch_marker {o : Bool} {m : Str} (hm : IsMarker o m) (x : Str) (hx : x.head? ≠ some ' ')
    (ol ul : Bool) :
    listItemMatch 4 ol ul (m ++ x) =
      if (o && ol) || (!o && ul) then some (m.dropLast, x.takeWhile notNl) else none := by
  obtain ⟨c, r, hmr, hsp, _⟩ := marker_head hm
  have hcp : ∀ Y : Str, countPrefix ' ' (some 3) (c :: Y) = 0 := by intro Y; simp [countPrefix, hsp]
  have hsp1 : countSp (' ' :: x) = 1 := by
    unfold countSp
    cases x with
    | nil => simp [countPrefix]
    | cons a b =>
      have : a ≠ ' ' := by simpa using hx
      simp [countPrefix, this]
  unfold IsMarker at hm
  cases o with
  | true =>
    simp only [if_true] at hm
    obtain ⟨n, rfl⟩ := hm
    have h1 := olMarker_ordered n (' ' :: x)
    have h2 := ulMarker_digit n (['.', ' '] ++ x)
    simp only [List.cons_append, List.nil_append] at h1 h2
    have hshape : natToDec n ++ ['.', ' '] ++ x = c :: (r ++ x) := by rw [hmr]; rfl
    have hshape' : natToDec n ++ '.' :: ' ' :: x = c :: (r ++ x) := by rw [← hshape]; simp
    unfold listItemMatch
    simp only [show (4 : Nat) - 1 = 3 from rfl, hshape, hcp, List.drop_zero]
    rw [← hshape', h1, h2]
    cases ol <;> cases ul <;> simp [hsp1, List.dropLast]
  | false =>
    simp only [Bool.false_eq_true, if_false] at hm
    obtain ⟨c', hc', rfl⟩ := hm
    have hcc : c' = c := by simpa using (List.cons.inj hmr).1
    have h1 := olMarker_bullet c' hc' (' ' :: x)
    have h2 : ulMarker (c' :: ' ' :: x) = some ([c'], ' ' :: x) := by
      rcases hc' with h | h | h <;> simp [ulMarker, h]
    unfold listItemMatch
    simp only [show (4 : Nat) - 1 = 3 from rfl, List.cons_append, List.nil_append, hcc ▸ hcp (' ' :: x),
      List.drop_zero, h1, h2]
    cases ol <;> cases ul <;> simp [hsp1, List.dropLast]

theorem listItemMatch_indented (ol ul : Bool) (l : Str) : listItemMatch 4 ol ul (spaces 4 ++ l) = none := by
  have hcp : countPrefix ' ' (some 3) (spaces 4 ++ l) = 3 := countPrefix_some_ge 4 3 l (by omega)
  have hdrop : (spaces 4 ++ l).drop 3 = ' ' :: l := by simp [spaces, List.replicate_succ]
  have hol : olMarker (' ' :: l) = none := by
    have : isDecimal ' ' = false := by decide
    simp [olMarker, spanLen, this]
  have hul : ulMarker (' ' :: l) = none := by simp [ulMarker]
  unfold listItemMatch
  simp only [show (4 : Nat) - 1 = 3 from rfl, hcp, hdrop, hol, hul]
  cases ol <;> cases ul <;> simp

theorem indentItemMatch_marker {o : Bool} {m : Str} (hm : IsMarker o m) (x : Str) :
    indentItemMatch 4 (spaces 4 ++ (m ++ x)) = true := by
  obtain ⟨c, r, hmr, hsp, _⟩ := marker_head hm
  have hcs : countSp (spaces 4 ++ (m ++ x)) = 4 := by
    rw [hmr]; exact countSp_spaces 4 _ (by simp [hsp])
  have hdrop : (spaces 4 ++ (m ++ x)).drop 4 = m ++ x := List.drop_left' (by simp [spaces])
  have hpos : ∀ y : Str, countSp (' ' :: y) > 0 := by
    intro y; unfold countSp; simp [countPrefix]
  unfold IsMarker at hm
  unfold indentItemMatch
  simp only [hcs, hdrop]
  cases o with
  | true =>
    simp only [if_true] at hm
    obtain ⟨n, rfl⟩ := hm
    have h1 := olMarker_ordered n (' ' :: x)
    have : natToDec n ++ ['.', ' '] ++ x = natToDec n ++ '.' :: ' ' :: x := by simp
    rw [this, h1]
    simpa using hpos x
  | false =>
    simp only [Bool.false_eq_true, if_false] at hm
    obtain ⟨c', hc', rfl⟩ := hm
    have h1 := olMarker_bullet c' hc' (' ' :: x)
    have h2 : ulMarker (c' :: ' ' :: x) = some ([c'], ' ' :: x) := by
      rcases hc' with h | h | h <;> simp [ulMarker, h]
    simp only [List.cons_append, List.nil_append, h1, h2]
    simpa using hpos x

/-! ### the items of a list, as `print` writes them -/

/-- one item of a tight list: marker, text (unescaped), the lines of the nested list (not yet indented; `[]` when
    there is none) and its tree (`[]` or one list) -/
structure LItem where
  m : Str
  t : Str
  sub : List Str
  subT : List GT

/-- the lines of the item: marker and escaped text, then the nested list indented by four spaces -/
def LItem.lines (esc : List Char) (it : LItem) : List Str :=
  (it.m ++ escAll esc it.t) :: it.sub.map (spaces 4 ++ ·)

def listLines (esc : List Char) (items : List LItem) : List Str := items.flatMap (LItem.lines esc)

/-- what `get_items` makes of the item: its text, and — when there is a nested list — one more entry with its
    indented lines -/
def LItem.entries (esc : List Char) (it : LItem) : List Str :=
  escAll esc it.t :: (if it.sub.isEmpty then [] else [joinLines (it.sub.map (spaces 4 ++ ·))])

def LItem.tree (it : LItem) : GT := .el "li".toList (some it.t) it.subT

def listTree (o : Bool) (items : List LItem) : GT :=
  .el (if o then "ol".toList else "ul".toList) none (items.map LItem.tree)

/-- the first line starts with a marker -/
def MarkerStart (ls : List Str) : Prop :=
  ∃ o m x r, ls = (m ++ x) :: r ∧ IsMarker o m ∧ x.head? ≠ some ' '

theorem getItemsStep_marker {o : Bool} {m : Str} (hm : IsMarker o m) (x : Str) (hx : x.head? ≠ some ' ')
    (hnl : '\n' ∉ x) (items : List Str) : getItemsStep 4 items (m ++ x) = items ++ [x] := by
  have := listItemMatch_marker hm x hx true true
  simp only [Bool.and_true] at this
  have htw : x.takeWhile notNl = x := takeWhile_all x (notNl_of_not_mem hnl)
  cases o <;> simp_all [getItemsStep]

theorem getItemsStep_indented_first {o : Bool} {m : Str} (hm : IsMarker o m) (x : Str) (items : List Str)
    (e : Str) (he : startsWith e (spaces 4) = false) :
    getItemsStep 4 (items ++ [e]) (spaces 4 ++ (m ++ x)) = items ++ [e] ++ [spaces 4 ++ (m ++ x)] := by
  simp [getItemsStep, listItemMatch_indented, indentItemMatch_marker hm x, he]

theorem getItemsStep_indented_next (l : Str) (items : List Str) (e : Str) (he : startsWith e (spaces 4) = true) :
    getItemsStep 4 (items ++ [e]) (spaces 4 ++ l) = items ++ [e ++ '\n' :: (spaces 4 ++ l)] := by
  by_cases hi : indentItemMatch 4 (spaces 4 ++ l) = true
  · simp [getItemsStep, listItemMatch_indented, hi, he, modifyLast]
  · simp [getItemsStep, listItemMatch_indented, hi, modifyLast]

theorem startsWith_spaces4 (l : Str) : startsWith (spaces 4 ++ l) (spaces 4) = true := by
  simp [spaces]

theorem fold_indented_rest (rest : List Str) (items : List Str) (B : Str) (hB : startsWith B (spaces 4) = true) :
    (rest.map (spaces 4 ++ ·)).foldl (getItemsStep 4) (items ++ [B]) =
      items ++ [joinLines (B :: rest.map (spaces 4 ++ ·))] := by
  induction rest generalizing B with
  | nil => rfl
  | cons l r ih =>
    simp only [List.map_cons, List.foldl_cons]
    rw [getItemsStep_indented_next l items B hB]
    have hB' : startsWith (B ++ '\n' :: (spaces 4 ++ l)) (spaces 4) = true := by
      obtain ⟨tl, htl⟩ := startsWith_iff_prefix.1 hB
      rw [htl, List.append_assoc]; exact startsWith_append _ _
    rw [ih _ hB']
    cases r with
    | nil => simp [joinLines, join]
    | cons l' r' => simp [joinLines, join, List.append_assoc]

/-- what is required of an item and of the lines of its nested list -/
structure LItemShape (esc : List Char) (o : Bool) (it : LItem) : Prop where
  marker : IsMarker o it.m
  text : lineText it.t = true
  sub : it.sub = [] ∨ MarkerStart it.sub
  subNl : ∀ l ∈ it.sub, '\n' ∉ l

theorem escText_facts {esc : List Char} (hE : EscOK esc) {t : Str} (ht : lineText t = true) :
    (escAll esc t).head? ≠ some ' ' ∧ '\n' ∉ escAll esc t ∧ startsWith (escAll esc t) (spaces 4) = false := by
  obtain ⟨c, tail, he, hcs, _, hnl, _⟩ := escLine_facts hE ht
  have hcsp : c ≠ ' ' := by intro e; subst e; exact absurd hcs (by decide)
  refine ⟨by rw [he]; simpa using hcsp, hnl, ?_⟩
  rw [he]; simp [spaces, List.replicate_succ, hcsp]

theorem fold_item {esc : List Char} (hE : EscOK esc) {o : Bool} (it : LItem) (h : LItemShape esc o it)
    (acc : List Str) :
    (it.lines esc).foldl (getItemsStep 4) acc = acc ++ it.entries esc := by
  obtain ⟨hx, hnl, hsw⟩ := escText_facts hE h.text
  simp only [LItem.lines, List.foldl_cons, getItemsStep_marker h.marker _ hx hnl]
  rcases h.sub with hs | ⟨o', m', x', r, hs, hm', _⟩
  · simp [LItem.entries, hs]
  · rw [hs]
    simp only [List.map_cons, List.foldl_cons]
    rw [getItemsStep_indented_first hm' x' acc _ hsw, List.append_assoc]
    have := fold_indented_rest r (acc ++ [escAll esc it.t]) (spaces 4 ++ (m' ++ x')) (startsWith_spaces4 _)
    simp only [List.append_assoc, List.singleton_append] at this ⊢
    rw [this]
    simp [LItem.entries, hs]

theorem fold_items {esc : List Char} (hE : EscOK esc) {o : Bool} (items : List LItem)
    (h : ∀ it ∈ items, LItemShape esc o it) (acc : List Str) :
    (listLines esc items).foldl (getItemsStep 4) acc = acc ++ items.flatMap (LItem.entries esc) := by
  induction items generalizing acc with
  | nil => simp [listLines]
  | cons it r ih =>
    simp only [listLines, List.flatMap_cons, List.foldl_append]
    rw [fold_item hE it (h it List.mem_cons_self)]
    have := ih (fun x hx => h x (List.mem_cons_of_mem _ hx)) (acc ++ it.entries esc)
    simp only [listLines] at this
    rw [this, List.append_assoc]

theorem listLines_noNl {esc : List Char} (hE : EscOK esc) {o : Bool} (items : List LItem)
    (h : ∀ it ∈ items, LItemShape esc o it) : ∀ l ∈ listLines esc items, '\n' ∉ l := by
  intro l hl
  obtain ⟨it, hit, hli⟩ := List.mem_flatMap.1 hl
  have hs := h it hit
  simp only [LItem.lines, List.mem_cons, List.mem_map] at hli
  rcases hli with rfl | ⟨x, hx, rfl⟩
  · obtain ⟨c, r, hmr, _, _, hcnl, _⟩ := marker_head hs.marker
    intro hm
    rcases List.mem_append.1 hm with hm | hm
    · -- markers have no line feed
      have hmk := hs.marker
      unfold IsMarker at hmk
      cases o with
      | true =>
        simp only [if_true] at hmk
        obtain ⟨n, hn⟩ := hmk
        rw [hn] at hm
        rcases List.mem_append.1 hm with hm | hm
        · exact absurd (natToDec_digits n _ hm) (by decide)
        · exact absurd hm (by decide)
      | false =>
        simp only [Bool.false_eq_true, if_false] at hmk
        obtain ⟨c', hc', hn⟩ := hmk
        rw [hn] at hm
        simp only [List.mem_cons, List.mem_nil_iff, or_false] at hm
        rcases hm with e | e
        · rcases hc' with h' | h' | h' <;> rw [h'] at e <;> exact absurd e (by decide)
        · exact absurd e (by decide)
    · exact (escText_facts hE hs.text).2.1 hm
  · intro hm
    rcases List.mem_append.1 hm with hm | hm
    · exact absurd (List.eq_of_mem_replicate hm) (by decide)
    · exact hs.subNl x hx hm

/-- **`get_items`** on the lines of a tight list -/
theorem getItems_list {esc : List Char} (hE : EscOK esc) {o : Bool} (items : List LItem) (hne : items ≠ [])
    (h : ∀ it ∈ items, LItemShape esc o it) :
    getItems 4 (joinLines (listLines esc items)) = items.flatMap (LItem.entries esc) := by
  have hlne : listLines esc items ≠ [] := by
    cases items with
    | nil => exact absurd rfl hne
    | cons it r => simp [listLines, LItem.lines]
  unfold getItems
  rw [lines_joinLines _ hlne (fun l hl => notNl_of_not_mem (listLines_noNl hE items h l hl))]
  simpa using fold_items hE items h []

/-! ### effects without a fuel bound (totality gives the bound at the end) -/

/-- the loop of `parseBlocks` succeeds with the result `res` for some fuel -/
def RunsE (st : List BState) (refs : Refs) (parent : Node) (blocks : List Str) (res : Node × Refs) : Prop :=
  ∃ f, parseBlocks 4 f st refs parent blocks = some res

theorem RunsE.ev {st refs parent blocks res} (h : RunsE st refs parent blocks res) :
    ∃ f0, ∀ f, f0 ≤ f → parseBlocks 4 f st refs parent blocks = some res := by
  obtain ⟨f0, h0⟩ := h
  exact ⟨f0, fun f hf => parseBlocks_le 4 hf _ _ _ _ _ h0⟩

theorem runsE_nil (st : List BState) (refs : Refs) (parent : Node) : RunsE st refs parent [] (parent, refs) :=
  ⟨0, rfl⟩

theorem runsE_step {f : Nat} {st : List BState} {refs refs' : Refs} {parent p' : Node} {b : Str}
    {rest rest' : List Str} {res : Node × Refs}
    (hd : dispatch 4 (parseBlocks 4 f) st refs parent b rest = some (p', refs', rest'))
    (hr : RunsE st refs' p' rest' res) : RunsE st refs parent (b :: rest) res := by
  obtain ⟨f1, h1⟩ := hr
  refine ⟨max f1 f + 1, ?_⟩
  have hd' := dispatch_mono_ref (parseBlocks_le 4 (Nat.le_max_right f1 f)) 4 st refs parent b rest _ hd
  simp only [parseBlocks, hd']
  exact parseBlocks_le 4 (Nat.le_max_left f1 f) _ _ _ _ _ h1

/-- what the parent must be for the element `n` to be appended to it: not a list itself; its last child not a code
    block, not a `blockquote` when `n` is one, not a list when `n` is one -/
def POK (parent n : Node) : Prop :=
  isListTag parent = false ∧ ∀ sib, parent.last? = some sib →
    preCode sib = none ∧ (n.isTag "blockquote" = true → sib.isTag "blockquote" = false) ∧
      (isListTag n = true → isListTag sib = false)

/-- the chunks append the element `n` -/
def EffX (chunks : List Str) (n : Node) : Prop :=
  ∀ (st : List BState) (refs : Refs) (parent : Node) (rest : List Str) (res : Node × Refs),
    isstate st .list = false → POK parent n →
    RunsE st refs (parent.append n) rest res → RunsE st refs parent (chunks ++ rest) res

/-! ### recognisers on the lines of a list -/

theorem hashSearch_heads (ls : List Str) (hne : ls ≠ []) (h : ∀ l ∈ ls, '\n' ∉ l ∧ l.head? ≠ some '#') :
    hashSearch (joinLines ls) = none := by
  have nl : ∀ (ls : List Str) (i : Nat), (∀ l ∈ ls, '\n' ∉ l ∧ l.head? ≠ some '#') →
      hashSearchNl i (joinLines ls) = none := by
    intro ls
    induction ls with
    | nil => intro i _; rfl
    | cons a r ih =>
      intro i h
      have ha := h a List.mem_cons_self
      cases r with
      | nil =>
        have := hashSearchNl_skip a [] i (notNl_of_not_mem ha.1)
        simp only [List.append_nil] at this
        rw [joinLines_single, this]; rfl
      | cons b r =>
        rw [joinLines_cons_cons, hashSearchNl_skip _ _ _ (notNl_of_not_mem ha.1)]
        have hb := h b (by simp)
        have hhead : (joinLines (b :: r)).head? ≠ some '#' := by
          cases r with
          | nil => simpa [joinLines_single] using hb.2
          | cons c r' =>
            rw [joinLines_cons_cons]
            cases b with
            | nil => simp
            | cons x y => simpa using hb.2
        simp only [hashSearchNl, if_true, hashAt_none _ hhead]
        exact ih _ (fun l hl => h l (List.mem_cons_of_mem _ hl))
  cases ls with
  | nil => exact absurd rfl hne
  | cons a r =>
    have ha := h a List.mem_cons_self
    have hhead : (joinLines (a :: r)).head? ≠ some '#' := by
      cases r with
      | nil => simpa [joinLines_single] using ha.2
      | cons c r' =>
        rw [joinLines_cons_cons]
        cases a with
        | nil => simp
        | cons x y => simpa using ha.2
    unfold hashSearch
    rw [hashAt_none _ hhead]
    exact nl _ 0 h

theorem hrLine_indented (l : Str) : hrLine (spaces 4 ++ l) = false := by
  have hcp : countPrefix ' ' (some 3) (spaces 4 ++ l) = 3 := countPrefix_some_ge 4 3 l (by omega)
  have hdrop : (spaces 4 ++ l).drop 3 = ' ' :: l := by simp [spaces, List.replicate_succ]
  simp [hrLine, hcp, hdrop]

theorem hrLine_marker {esc : List Char} (hE : EscOK esc) {o : Bool} {m : Str} (hm : IsMarker o m) (t : Str)
    (ht : lineText t = true) : hrLine (m ++ escAll esc t) = false := by
  obtain ⟨c, tail, he, hcs, _, _, _⟩ := escLine_facts hE ht
  have hcsp : c ≠ ' ' := by intro e; subst e; exact absurd hcs (by decide)
  -- the first character of the escaped text is a backslash or not escapable: not `*` or `-`
  have hc2 : c ≠ '*' ∧ c ≠ '-' := by
    cases t with
    | nil => simp [escAll] at he
    | cons a r =>
      by_cases ha : a ∈ esc
      · rw [escAll_cons_mem ha] at he
        have : c = '\\' := (List.cons.inj he).1.symm
        rw [this]; exact ⟨by decide, by decide⟩
      · rw [escAll_cons_not_mem ha] at he
        have : c = a := (List.cons.inj he).1.symm
        rw [this]
        exact ⟨fun e => ha (e ▸ hE.star), fun e => ha (e ▸ hE.dash)⟩
  unfold IsMarker at hm
  cases o with
  | true =>
    simp only [if_true] at hm
    obtain ⟨n, rfl⟩ := hm
    have hne := natToDec_ne_nil n
    cases hd : natToDec n with
    | nil => exact absurd hd hne
    | cons d r =>
      have hdig : isAsciiDigit d = true := natToDec_digits n d (by rw [hd]; simp)
      have h0 : d ≠ ' ' := by intro e; subst e; exact absurd hdig (by decide)
      have h1 : d ≠ '-' := by intro e; subst e; exact absurd hdig (by decide)
      have h2 : d ≠ '_' := by intro e; subst e; exact absurd hdig (by decide)
      have h3 : d ≠ '*' := by intro e; subst e; exact absurd hdig (by decide)
      simp [hrLine, countPrefix, h0, h1, h2, h3]
  | false =>
    simp only [Bool.false_eq_true, if_false] at hm
    obtain ⟨c', hc', rfl⟩ := hm
    rw [he]
    rcases hc' with h | h | h <;> subst h
    · simp [hrLine, countPrefix, hrScan, hc2.1, hcsp]
    · simp [hrLine, countPrefix]
    · simp [hrLine, countPrefix, hrScan, hc2.2, hcsp]

theorem setextLine2_indented (l : Str) : setextLine2 (spaces 4 ++ l) = false := by
  have : spanLen (fun c => decide (c = '=') || decide (c = '-')) (spaces 4 ++ l) = 0 := by
    simp [spaces, List.replicate_succ, spanLen]
  simp [setextLine2, this]

theorem setextLine2_marker {esc : List Char} (hE : EscOK esc) {o : Bool} {m : Str} (hm : IsMarker o m) (t : Str)
    (ht : lineText t = true) : setextLine2 (m ++ escAll esc t) = false := by
  obtain ⟨c, tail, he, hcs, _, _, _⟩ := escLine_facts hE ht
  have hcsp : c ≠ ' ' := by intro e; subst e; exact absurd hcs (by decide)
  obtain ⟨d, r, hmr, _, _, _, hdeq, hdash⟩ := marker_head hm
  by_cases hd : d = '-'
  · have hr := hdash hd
    subst hd
    rw [hmr, hr, he]
    simp [setextLine2, spanLen, hcsp]
  · have : spanLen (fun c => decide (c = '=') || decide (c = '-')) (m ++ escAll esc t) = 0 := by
      rw [hmr]; simp [spanLen, hdeq, hd]
    simp [setextLine2, this]

/-- the lines of a list: marker lines and indented lines -/
def ListLine (esc : List Char) (l : Str) : Prop :=
  (∃ o m t, IsMarker o m ∧ lineText t = true ∧ l = m ++ escAll esc t) ∨ (∃ x, '\n' ∉ x ∧ l = spaces 4 ++ x)

theorem listLine_facts {esc : List Char} (hE : EscOK esc) {l : Str} (h : ListLine esc l) :
    '\n' ∉ l ∧ l.head? ≠ some '#' ∧ hrLine l = false ∧ setextLine2 l = false := by
  rcases h with ⟨o, m, t, hm, ht, rfl⟩ | ⟨x, hx, rfl⟩
  · obtain ⟨d, r, hmr, _, hdh, hdnl, _⟩ := marker_head hm
    refine ⟨?_, by rw [hmr]; simpa using hdh, hrLine_marker hE hm t ht, setextLine2_marker hE hm t ht⟩
    intro hmem
    rcases List.mem_append.1 hmem with hmem | hmem
    · unfold IsMarker at hm
      cases o with
      | true =>
        simp only [if_true] at hm
        obtain ⟨n, hn⟩ := hm
        rw [hn] at hmem
        rcases List.mem_append.1 hmem with hmem | hmem
        · exact absurd (natToDec_digits n _ hmem) (by decide)
        · exact absurd hmem (by decide)
      | false =>
        simp only [Bool.false_eq_true, if_false] at hm
        obtain ⟨c', hc', hn⟩ := hm
        rw [hn] at hmem
        simp only [List.mem_cons, List.mem_nil_iff, or_false] at hmem
        rcases hmem with e | e
        · rcases hc' with h' | h' | h' <;> rw [h'] at e <;> exact absurd e (by decide)
        · exact absurd e (by decide)
    · exact (escText_facts hE ht).2.1 hmem
  · refine ⟨?_, by simp [spaces, List.replicate_succ], hrLine_indented x, setextLine2_indented x⟩
    intro hmem
    rcases List.mem_append.1 hmem with hmem | hmem
    · exact absurd (List.eq_of_mem_replicate hmem) (by decide)
    · exact hx hmem

theorem listLines_are {esc : List Char} {o : Bool} (items : List LItem) (h : ∀ it ∈ items, LItemShape esc o it) :
    ∀ l ∈ listLines esc items, ListLine esc l := by
  intro l hl
  obtain ⟨it, hit, hli⟩ := List.mem_flatMap.1 hl
  have hs := h it hit
  simp only [LItem.lines, List.mem_cons, List.mem_map] at hli
  rcases hli with rfl | ⟨x, hx, rfl⟩
  · exact Or.inl ⟨o, it.m, it.t, hs.marker, hs.text, rfl⟩
  · exact Or.inr ⟨x, hs.subNl x hx, rfl⟩

/-- **a list chunk reaches the list processor**: `OListProcessor` when the markers are ordered, `UListProcessor`
    otherwise -/
theorem dispatch_list {esc : List Char} (hE : EscOK esc) (o : Bool) (items : List LItem) (hne : items ≠ [])
    (h : ∀ it ∈ items, LItemShape esc o it) (pb : PB) (state : List BState) (refs : Refs) (parent : Node)
    (rest : List Str) :
    dispatch 4 pb state refs parent (joinLines (listLines esc items)) rest =
      listP 4 pb state refs parent (joinLines (listLines esc items)) rest (if o then "ol" else "ul") := by
  obtain ⟨it, r, rfl⟩ : ∃ it r, items = it :: r := by
    cases items with
    | nil => exact absurd rfl hne
    | cons it r => exact ⟨it, r, rfl⟩
  have hls := listLines_are (it :: r) h
  have hfacts := fun l hl => listLine_facts hE (hls l hl)
  have hlne : listLines esc (it :: r) ≠ [] := by simp [listLines, LItem.lines]
  have hlines := lines_joinLines _ hlne (fun l hl => notNl_of_not_mem (hfacts l hl).1)
  have hit := h it List.mem_cons_self
  obtain ⟨d, dr, hmr, hdsp, _, hdnl, _⟩ := marker_head hit.marker
  obtain ⟨hx, _, _⟩ := escText_facts hE hit.text
  -- the shape of the block: marker, text, rest
  obtain ⟨tail, hshape⟩ : ∃ tail, joinLines (listLines esc (it :: r)) = it.m ++ (escAll esc it.t ++ tail) := by
    have : listLines esc (it :: r) = (it.m ++ escAll esc it.t) :: (it.sub.map (spaces 4 ++ ·) ++ listLines esc r) := by
      simp [listLines, LItem.lines]
    rw [this]
    cases hrest : it.sub.map (spaces 4 ++ ·) ++ listLines esc r with
    | nil => exact ⟨[], by simp [joinLines_single]⟩
    | cons a b => exact ⟨'\n' :: joinLines (a :: b), by rw [joinLines_cons_cons]; simp⟩
  have hxt : (escAll esc it.t ++ tail).head? ≠ some ' ' := by
    cases he : escAll esc it.t with
    | nil => exact absurd he (escAll_ne_nil (lineText_facts hit.text).1)
    | cons a b => rw [he] at hx; simpa using hx
  have h4 := hashSearch_heads _ hlne (fun l hl => ⟨(hfacts l hl).1, (hfacts l hl).2.1⟩)
  have h5 : setextMatch (joinLines (listLines esc (it :: r))) = false := by
    rw [setextMatch_eq]
    simp only [secondLine, hlines]
    cases hsl : (listLines esc (it :: r))[1]? with
    | none => rfl
    | some l => exact (hfacts l (List.mem_of_getElem? hsl)).2.2.2
  have h6 : hrSearch (joinLines (listLines esc (it :: r))) = none := by
    unfold hrSearch
    rw [hlines]
    exact hrSearchLines_none _ 0 (fun l hl => (hfacts l hl).2.2.1)
  have hol := listItemMatch_marker hit.marker (escAll esc it.t ++ tail) hxt true false
  have hul := listItemMatch_marker hit.marker (escAll esc it.t ++ tail) hxt false true
  generalize hb : joinLines (listLines esc (it :: r)) = b at *
  have hb' : b = d :: (dr ++ (escAll esc it.t ++ tail)) := by rw [hshape, hmr]; rfl
  have h1 : b.isEmpty = false := by rw [hb']; rfl
  have h2 : startsWith b ['\n'] = false := by rw [hb']; simp [hdnl]
  have h3 : startsWith b (spaces 4) = false := by rw [hb']; simp [spaces, List.replicate_succ, hdsp]
  rw [← hshape] at hol hul
  unfold dispatch
  simp only [h1, h2, h3, h4, h5, h6, Bool.or_self, Bool.false_eq_true, if_false, Bool.false_and, hol, hul]
  cases o <;> simp

/-! ### the items -/

/-- the `li` element with the escaped text of the item -/
def liText (esc : List Char) (t : Str) : Node := { tag := .name "li".toList, text := some (escAll esc t) }

/-- the text of an item, parsed in a list state into a fresh `li` -/
theorem parse_item_text {esc : List Char} (hE : EscOK esc) (t : Str) (ht : lineText t = true) (f : Nat)
    (st : List BState) (refs : Refs) :
    parseBlocks 4 (f + 1) (st ++ [.list]) refs (Node.el "li") [escAll esc t] = some (liText esc t, refs) := by
  obtain ⟨hne, _, _, _, hnl, _, hv, _⟩ := lineText_facts ht
  have hve := startsVisible_escAll (esc := esc) t hv
  obtain ⟨_, _, _, _, _, hnle, _⟩ := escLine_facts hE ht
  have hsec : (match secondLine (escAll esc t) with | some l => isEqUnderline l | none => false) = false := by
    have : secondLine (escAll esc t) = none := by
      simp [secondLine, lines, splitC_noNl _ (notNl_of_not_mem hnle)]
    rw [this]
  have hd := dispatch_paragraph hE.hash hE.dash hE.under hE.star hE.plus hE.dot hE.gt hE.lbr 4 (by omega)
    (parseBlocks 4 f) (st ++ [.list]) refs (Node.el "li") (escAll esc t) []
    (guardedFrom_escAll esc t false) (lineStartsOk_escAll esc hE.nl t) hve hsec
  have hlist : isstate (st ++ [.list]) .list = true := by simp [isstate]
  have hpara : paraP (st ++ [.list]) refs (Node.el "li") (escAll esc t) [] = (liText esc t, refs, []) := by
    simp [paraP, isBlank_of_visible hve, hlist, Node.last?, Node.el, Node.truthy, lstrip_of_visible hve, liText]
  simp only [parseBlocks, hd, hpara]

theorem looseDetab_indented (ls : List Str) (hne : ls ≠ []) (hnl : ∀ l ∈ ls, '\n' ∉ l) :
    looseDetab 4 (joinLines (ls.map (spaces 4 ++ ·))) 1 = joinLines ls := by
  unfold looseDetab
  rw [lines_joinLines _ (by simpa using hne)
    (by intro l hl; obtain ⟨x, hx, rfl⟩ := List.mem_map.1 hl
        apply notNl_of_not_mem
        intro hm; rcases List.mem_append.1 hm with hm | hm
        · exact absurd (List.eq_of_mem_replicate hm) (by decide)
        · exact hnl x hx hm)]
  rw [List.map_map]
  congr 1
  rw [List.map_congr_left (g := id)]
  · simp
  · intro l _
    simp [spaces]

/-- the nested list of an item: `ListIndentProcessor` removes one level of indentation and parses the rest, in the
    `detabbed` state, into the `li` -/
theorem parse_item_sub {esc : List Char} (t : Str) (sub : List Str) (hms : MarkerStart sub)
    (hnl : ∀ l ∈ sub, '\n' ∉ l) (n : Node) (heff : EffX [joinLines sub] n)
    (st : List BState) (refs : Refs) :
    ∃ f0, ∀ f, f0 ≤ f →
      parseBlocks 4 f (st ++ [.list]) refs (liText esc t) [joinLines (sub.map (spaces 4 ++ ·))] =
        some ((liText esc t).append n, refs) := by
  have hsne : sub ≠ [] := by obtain ⟨_, _, _, _, hs, _⟩ := hms; rw [hs]; simp
  -- the inner parse
  have hin := heff (st ++ [.list] ++ [.detabbed]) refs (liText esc t) [] ((liText esc t).append n, refs)
    (by simp [isstate])
    ⟨by simp [liText, isListTag, Node.isTag], by intro sib hs; simp [liText, Node.last?] at hs⟩
    (runsE_nil _ _ _)
  obtain ⟨f1, hf1⟩ := hin.ev
  refine ⟨f1 + 2, fun f hf => ?_⟩
  obtain ⟨g, rfl⟩ : ∃ g, f = g + 1 := ⟨f - 1, by omega⟩
  have hg : f1 ≤ g := by omega
  -- the shape of the indented block
  obtain ⟨o, m, x, r, hs, hm, _⟩ := hms
  obtain ⟨d, dr, hmr, hdsp, _, _, _⟩ := marker_head hm
  obtain ⟨tail, hshape⟩ : ∃ tail, joinLines (sub.map (spaces 4 ++ ·)) = spaces 4 ++ (d :: tail) := by
    rw [hs, List.map_cons, hmr]
    cases hr : r.map (spaces 4 ++ ·) with
    | nil => exact ⟨dr ++ x, by simp [joinLines_single]⟩
    | cons a b => exact ⟨dr ++ x ++ '\n' :: joinLines (a :: b), by rw [joinLines_cons_cons]; simp⟩
  have hdetab := looseDetab_indented sub hsne hnl
  generalize hB : joinLines (sub.map (spaces 4 ++ ·)) = B at *
  have h1 : B.isEmpty = false := by rw [hshape]; simp [spaces, List.replicate_succ]
  have h2 : startsWith B ['\n'] = false := by rw [hshape]; simp [spaces, List.replicate_succ]
  have h3 : startsWith B (spaces 4) = true := by rw [hshape]; exact startsWith_spaces4 _
  have hcs : countSp B = 4 := by rw [hshape]; exact countSp_spaces 4 _ (by simpa using hdsp)
  have hnd : isstate (st ++ [.list]) .detabbed = false := by simp [isstate]
  have hli : isItemTag (liText esc t) = true := by simp [liText, isItemTag, Node.isTag]
  have hlevel : getLevel 4 (st ++ [.list]) (liText esc t) B = (1, 0) := by
    simp [getLevel, hcs, isstate, liText, getLevelNode, getLevelKids]
  have hinner := hf1 g hg
  simp only [List.append_nil] at hinner
  have hd : dispatch 4 (parseBlocks 4 g) (st ++ [.list]) refs (liText esc t) B [] =
      some ((liText esc t).append n, refs, []) := by
    unfold dispatch
    simp only [h1, h2, h3, hnd, hli, Bool.or_self, Bool.false_eq_true, if_false, Bool.not_false, Bool.and_self,
      Bool.true_or, if_true]
    have hlast : (liText esc t).last? = none := by simp [liText, Node.last?]
    simp only [indentP, hlevel, hdetab, nodeAt, hli, if_true, hlast, hinner]
  simp only [parseBlocks, hd]

/-- an item with its nested list, if any, already understood -/
structure LItemOK (esc : List Char) (o : Bool) (it : LItem) : Prop where
  shape : LItemShape esc o it
  sub : (it.sub = [] ∧ it.subT = []) ∨
    (∃ tr, it.subT = [tr] ∧ MarkerStart it.sub ∧ EffX [joinLines it.sub] (tr.src esc))

theorem item_src_nil {esc : List Char} (it : LItem) (h : it.subT = []) : it.tree.src esc = liText esc it.t := by
  simp [LItem.tree, GT.src, h, GT.srcs, liText]

theorem item_src_one {esc : List Char} (it : LItem) (tr : GT) (h : it.subT = [tr]) :
    it.tree.src esc = (liText esc it.t).append (tr.src esc) := by
  simp [LItem.tree, GT.src, h, GT.srcs, liText, Node.append]

/-- **the loop over the items** of `OListProcessor.run` -/
theorem listItems_entries {esc : List Char} (hE : EscOK esc) {o : Bool} (st : List BState) (items : List LItem)
    (h : ∀ it ∈ items, LItemOK esc o it) (refs : Refs) :
    ∃ f0, ∀ f, f0 ≤ f → ∀ (lst : Node),
      listItems 4 (parseBlocks 4 f) (st ++ [.list]) refs lst (items.flatMap (LItem.entries esc)) =
        some ({ lst with children := lst.children ++ items.map (fun it => it.tree.src esc) }, refs) := by
  induction items with
  | nil => exact ⟨0, fun f _ lst => by cases lst; simp [listItems]⟩
  | cons it r ih =>
    obtain ⟨f1, hf1⟩ := ih (fun x hx => h x (List.mem_cons_of_mem _ hx))
    have hit := h it List.mem_cons_self
    obtain ⟨_, _, hsw⟩ := escText_facts hE hit.shape.text
    rcases hit.sub with ⟨hs, hsT⟩ | ⟨tr, hsT, hms, heff⟩
    · refine ⟨max f1 1, fun f hf lst => ?_⟩
      obtain ⟨g, rfl⟩ : ∃ g, f = g + 1 := ⟨f - 1, by omega⟩
      have hrest := hf1 (g + 1) (by omega) (lst.append (liText esc it.t))
      simp only [List.flatMap_cons, LItem.entries, hs, List.isEmpty_nil, if_true, List.cons_append,
        List.nil_append, listItems, hsw, Bool.false_eq_true, if_false,
        parse_item_text hE it.t hit.shape.text g st refs, hrest]
      simp [Node.append, item_src_nil it hsT, List.append_assoc]
    · obtain ⟨f2, hf2⟩ := parse_item_sub (esc := esc) it.t it.sub hms hit.shape.subNl (tr.src esc) heff st refs
      have hsne : it.sub.isEmpty = false := by
        obtain ⟨_, _, _, _, hs, _⟩ := hms
        rw [hs]; rfl
      refine ⟨max (max f1 f2) 1, fun f hf lst => ?_⟩
      obtain ⟨g, rfl⟩ : ∃ g, f = g + 1 := ⟨f - 1, by omega⟩
      have hrest := hf1 (g + 1) (by omega) (lst.append ((liText esc it.t).append (tr.src esc)))
      have hsub := hf2 (g + 1) (by omega)
      have hB : startsWith (joinLines (it.sub.map (spaces 4 ++ ·))) (spaces 4) = true := by
        obtain ⟨_, m, x, r', hs, _⟩ := hms
        rw [hs, List.map_cons]
        cases hr : r'.map (spaces 4 ++ ·) with
        | nil => rw [joinLines_single]; exact startsWith_spaces4 _
        | cons a b => rw [joinLines_cons_cons, List.append_assoc]; exact startsWith_spaces4 _
      simp only [List.flatMap_cons, LItem.entries, hsne, Bool.false_eq_true, if_false, List.cons_append,
        List.nil_append, listItems, hsw, parse_item_text hE it.t hit.shape.text g st refs, hB, if_true,
        last_append, hsub, setLast_append, hrest]
      simp [Node.append, item_src_one it tr hsT, List.append_assoc]

theorem listTree_src {esc : List Char} (o : Bool) (items : List LItem) :
    (listTree o items).src esc =
      { Node.el (if o then "ol" else "ul") with children := items.map (fun it => it.tree.src esc) } := by
  cases o <;> simp [listTree, GT.src, gsrcs_eq_map, List.map_map, Node.el, Function.comp_def]

theorem isListTag_listTree {esc : List Char} (o : Bool) (items : List LItem) :
    isListTag ((listTree o items).src esc) = true := by
  cases o <;> simp [listTree, GT.src, isListTag, Node.isTag]

/-- **a tight list**, nested to any depth: the chunk of its lines appends the `ul`/`ol` element with its items -/
theorem effX_list {esc : List Char} (hE : EscOK esc) (o : Bool) (items : List LItem) (hne : items ≠ [])
    (h : ∀ it ∈ items, LItemOK esc o it) :
    EffX [joinLines (listLines esc items)] ((listTree o items).src esc) := by
  intro st refs parent rest res hst hpok hr
  obtain ⟨f0, hf0⟩ := listItems_entries hE st items h refs
  have hshape : ∀ it ∈ items, LItemShape esc o it := fun it hit => (h it hit).shape
  have hd : dispatch 4 (parseBlocks 4 f0) st refs parent (joinLines (listLines esc items)) rest =
      some (parent.append ((listTree o items).src esc), refs, rest) := by
    rw [dispatch_list hE o items hne hshape, listP, getItems_list hE items hne hshape]
    have hres := hf0 f0 (Nat.le_refl _) (Node.el (if o then "ol" else "ul"))
    rw [listTree_src]
    cases hl : parent.last? with
    | none => simp only [hpok.1, Bool.false_eq_true, if_false, hres]; simp [Node.el]
    | some sib =>
      have hns := (hpok.2 sib hl).2.2 (isListTag_listTree o items)
      simp only [hns, hpok.1, Bool.false_eq_true, if_false, hres]; simp [Node.el]
  exact runsE_step hd hr

/-! ### the marker line is a good line -/

/-- characters of a marker -/
theorem marker_chars {o : Bool} {m : Str} (h : IsMarker o m) :
    ∀ x ∈ m, isPlainChar x = true ∧ x ≠ '\n' := by
  intro x hx
  unfold IsMarker at h
  cases o with
  | true =>
    simp only [if_true] at h
    obtain ⟨n, rfl⟩ := h
    rcases List.mem_append.1 hx with hx | hx
    · have hd := natToDec_digits n x hx
      refine ⟨?_, by intro e; subst e; exact absurd hd (by decide)⟩
      simp only [isPlainChar, Bool.and_eq_true, bne_iff_ne, ne_eq]
      refine ⟨⟨⟨⟨⟨?_, ?_⟩, ?_⟩, ?_⟩, ?_⟩, ?_⟩ <;> (intro e; subst e; exact absurd hd (by decide))
    · simp only [List.mem_cons, List.mem_nil_iff, or_false] at hx
      rcases hx with rfl | rfl <;> exact ⟨by decide, by decide⟩
  | false =>
    simp only [Bool.false_eq_true, if_false] at h
    obtain ⟨c, hc, rfl⟩ := h
    simp only [List.mem_cons, List.mem_nil_iff, or_false] at hx
    rcases hx with rfl | rfl
    · rcases hc with h | h | h <;> rw [h] <;> exact ⟨by decide, by decide⟩
    · exact ⟨by decide, by decide⟩

theorem goodLine_marker {esc : List Char} (hE : EscOK esc) {o : Bool} {m : Str} (hm : IsMarker o m) (t : Str)
    (ht : lineText t = true) : GoodLine (m ++ escAll esc t) := by
  obtain ⟨c, tail, he, hcs, _, _, _⟩ := escLine_facts hE ht
  have hcsp : c ≠ ' ' := by intro e; subst e; exact absurd hcs (by decide)
  have hmem : c ∈ m ++ escAll esc t := by rw [he]; simp
  have hs := safe_of_plain (m ++ escAll esc t)
    (by intro x hx; rcases List.mem_append.1 hx with hx | hx
        · exact marker_chars hm x hx
        · exact plain_escAll_chars ht x hx) ⟨c, hmem, hcsp⟩
  exact goodLine_of_safe hs ⟨c, hmem, hcs⟩

/-! ### tags of the trees -/

def GT.tag : GT → Str
  | .el tag _ _ => tag

def GT.isBqG (t : GT) : Bool := t.tag == "blockquote".toList
def GT.isListG (t : GT) : Bool := t.tag == "ul".toList || t.tag == "ol".toList

theorem tagName_beq (a b : Str) : (Tag.name a == Tag.name b) = (a == b) := by
  by_cases h : a = b
  · subst h; simp
  · have h1 : Tag.name a ≠ Tag.name b := fun e => h (Tag.name.inj e)
    have e1 : (Tag.name a == Tag.name b) = false := by
      cases hx : Tag.name a == Tag.name b with
      | false => rfl
      | true => exact absurd (of_decide_eq_true hx) h1
    have e2 : (a == b) = false := by
      cases hx : a == b with
      | false => rfl
      | true => exact absurd (by simpa using hx) h
    rw [e1, e2]

theorem isTag_bq_gsrc (esc : List Char) (t : GT) : (t.src esc).isTag "blockquote" = t.isBqG := by
  cases t; simp [GT.src, Node.isTag, GT.isBqG, GT.tag, tagName_beq]

theorem isListTag_gsrc (esc : List Char) (t : GT) : isListTag (t.src esc) = t.isListG := by
  cases t; simp [GT.src, isListTag, Node.isTag, GT.isListG, GT.tag, tagName_beq]

theorem preCode_gsrc (esc : List Char) (t : GT) (h : t.ok = true) : preCode (t.src esc) = none := by
  cases t with
  | el tag tx ks =>
    have hf := gtTagFacts _ (gt_tag_mem h)
    have : (GT.src esc (.el tag tx ks)).isTag "pre" = false := by simp [GT.src, Node.isTag, hf.2.2.1]
    simp [preCode, this]

end MdVerif.DocParse
