/-
Helper lemmas for `Props/C15Text.lean`, part 7: where the stash that the pattern loop leaves (`lineStash`) holds the
pieces of the line — the facts `__processPlaceholders` needs (`ChunkAt`, `UsAt`).  Core Lean only.
-/
import MdVerif.Lemmas.RefTextPP

namespace MdVerif.RefText
open Py Inline Escape CodeLaw DocParse DocParse2

theorem mStash_append (S E : List StashItem) (segs : List MSeg) :
    ∀ (n0 n1 n2 : Nat), MStash S n0 n1 n2 segs → MStash (S ++ E) n0 n1 n2 segs := by
  induction segs with
  | nil => intro _ _ _ _; trivial
  | cons s r ih =>
    intro n0 n1 n2 h
    refine ⟨?_, ih _ _ _ h.2⟩
    have h1 := h.1
    have hlt : idxM n0 n1 n2 s.k < S.length := by
      rcases Nat.lt_or_ge (idxM n0 n1 n2 s.k) S.length with h' | h'
      · exact h'
      · rw [List.getElem?_eq_none h'] at h1; cases h1
    rw [List.getElem?_append_left hlt]; exact h1

/-- the items of a chunk in a stash of the shape `B, code spans, C, * emphases, D, _ emphases, E` -/
theorem mStash_at (segs : List MSeg) (B C D E : List StashItem) (n0 n1 n2 : Nat) (h0 : n0 = B.length)
    (h1 : n1 = B.length + (nodesOf 0 segs).length + C.length)
    (h2 : n2 = B.length + (nodesOf 0 segs).length + C.length + (nodesOf 1 segs).length + D.length) :
    MStash (B ++ nodesOf 0 segs ++ C ++ nodesOf 1 segs ++ D ++ nodesOf 2 segs ++ E) n0 n1 n2 segs := by
  subst h0 h1 h2
  exact mStash_append _ E segs _ _ _ (mStash_nodes segs B C D)

/-- the escapes of a chunk after a prefix of the right length -/
theorem escs_at (esc : List Char) (c : Chunk) (A R : List StashItem) (m : Nat) (hm : m = A.length) :
    ∃ rest, (A ++ c.escStash esc ++ R).drop m = stashOf esc c.t0 ++ stashOfM esc c.segs ++ rest := by
  subst hm
  exact ⟨R, by simp [Chunk.escStash, List.append_assoc]⟩

theorem cnt_len (k : Nat) (c : Chunk) : (nodesOf k c.segs).length = c.cnt k := rfl

theorem outNodes_usOuter_cons (esc : List Char) (k : Nat) (u : RUse) (r : List RUse) (m n0 s : Nat) :
    outNodes k (usOuter esc m n0 s (u :: r)) = nodesOf k u.C.segs ++
      outNodes k (usOuter esc (m + u.T.escs esc + u.C.escs esc) (n0 + u.T.cnt 0 + u.C.cnt 0)
        (s + u.T.cnt 1 + u.T.cnt 2 + 1) r) := rfl

theorem outNodes_usOuter_length (esc : List Char) (k : Nat) (us : List RUse) (m n0 s : Nat) :
    (outNodes k (usOuter esc m n0 s us)).length = usOutCnt k us := by
  rw [outNodes_length, outCnt_usOuter]

/-- **where the pieces of the uses are** in a stash of the shape
    `P0, code spans, P1, escapes, P2, link entries, P3, * emphases outside, P4, _ emphases outside, E` -/
theorem usAt_layout (esc : List Char) (us : List RUse) :
    ∀ (P0 P1 P2 P3 P4 E : List StashItem) (m n0 s n1 n2 : Nat), n0 = P0.length →
      m = P0.length + usCnt0 us + P1.length → s = m + usEscs esc us + P2.length →
      n1 = s + usLinkLen us + P3.length → n2 = n1 + usOutCnt 1 us + P4.length →
      UsAt esc (P0 ++ usNodes0 us ++ P1 ++ usEscStash esc us ++ P2 ++ usLinkStash esc m n0 s us ++ P3 ++
        outNodes 1 (usOuter esc m n0 s us) ++ P4 ++ outNodes 2 (usOuter esc m n0 s us) ++ E) m n0 s n1 n2 us := by
  induction us with
  | nil => intro _ _ _ _ _ _ _ _ _ _ _ _ _ _ _ _; trivial
  | cons u r ih =>
    intro P0 P1 P2 P3 P4 E m n0 s n1 n2 h0 hm hs h1 h2
    generalize hS : P0 ++ usNodes0 (u :: r) ++ P1 ++ usEscStash esc (u :: r) ++ P2 ++ usLinkStash esc m n0 s (u :: r) ++
      P3 ++ outNodes 1 (usOuter esc m n0 s (u :: r)) ++ P4 ++ outNodes 2 (usOuter esc m n0 s (u :: r)) ++ E = S
    -- abbreviations for the rest
    generalize hm' : m + u.T.escs esc + u.C.escs esc = m' at *
    generalize hn0' : n0 + u.T.cnt 0 + u.C.cnt 0 = n0' at *
    generalize hs' : s + u.T.cnt 1 + u.T.cnt 2 + 1 = s' at *
    have hLr := usLinkStash_length esc r m' n0' s'
    have hO1 := outNodes_usOuter_length esc 1 r m' n0' s'
    have hO2 := outNodes_usOuter_length esc 2 r m' n0' s'
    have hN0 := usNodes0_length r
    have hEr := usEscStash_length esc r
    have hET := Chunk.escStash_length esc u.T
    have hEC := Chunk.escStash_length esc u.C
    simp only [usCnt0, usEscs, usLinkLen, usOutCnt] at hm hs h1 h2
    refine ⟨⟨?_, ?_⟩, ?_, ⟨?_, ?_⟩, ?_⟩
    · -- escapes of the link text
      have := escs_at esc u.T (P0 ++ usNodes0 (u :: r) ++ P1)
        (u.C.escStash esc ++ usEscStash esc r ++ P2 ++ usLinkStash esc m n0 s (u :: r) ++ P3 ++
          outNodes 1 (usOuter esc m n0 s (u :: r)) ++ P4 ++ outNodes 2 (usOuter esc m n0 s (u :: r)) ++ E) m
        (by simp only [List.length_append, List.length_cons, List.length_nil, usNodes0_length, usEscStash_length, usLinkStash_length, outNodes_usOuter_length, Chunk.escStash_length, cnt_len, usCnt0, usEscs, usLinkLen, usOutCnt]; omega)
      rw [← hS]
      simpa [usEscStash, List.append_assoc] using this
    · -- items of the link text
      have := mStash_at u.T.segs P0 (nodesOf 0 u.C.segs ++ usNodes0 r ++ P1 ++ usEscStash esc (u :: r) ++ P2) []
        (.node (InlineRef.linkEl u.url u.title (u.T.stage esc 3 true m n0 s (s + u.T.cnt 1))) ::
          usLinkStash esc m' n0' s' r ++ P3 ++ outNodes 1 (usOuter esc m n0 s (u :: r)) ++ P4 ++
          outNodes 2 (usOuter esc m n0 s (u :: r)) ++ E) n0 s (s + u.T.cnt 1) h0
        (by simp only [List.length_append, List.length_cons, List.length_nil, usNodes0_length, usEscStash_length, usLinkStash_length, outNodes_usOuter_length, Chunk.escStash_length, cnt_len, usCnt0, usEscs, usLinkLen, usOutCnt]; omega)
        (by simp only [List.length_append, List.length_cons, List.length_nil, usNodes0_length, usEscStash_length, usLinkStash_length, outNodes_usOuter_length, Chunk.escStash_length, cnt_len, usCnt0, usEscs, usLinkLen, usOutCnt]; omega)
      rw [← hS]
      simpa [usNodes0, usLinkStash, List.append_assoc, hm', hn0', hs'] using this
    · -- the `<a>` element
      rw [← hS]
      have hpre : (P0 ++ usNodes0 (u :: r) ++ P1 ++ usEscStash esc (u :: r) ++ P2 ++ nodesOf 1 u.T.segs ++
          nodesOf 2 u.T.segs).length = s + u.T.cnt 1 + u.T.cnt 2 := by
        simp only [List.length_append, List.length_cons, List.length_nil, usNodes0_length, usEscStash_length, usLinkStash_length, outNodes_usOuter_length, Chunk.escStash_length, cnt_len, usCnt0, usEscs, usLinkLen, usOutCnt]; omega
      have hform : P0 ++ usNodes0 (u :: r) ++ P1 ++ usEscStash esc (u :: r) ++ P2 ++ usLinkStash esc m n0 s (u :: r) ++
          P3 ++ outNodes 1 (usOuter esc m n0 s (u :: r)) ++ P4 ++ outNodes 2 (usOuter esc m n0 s (u :: r)) ++ E =
          (P0 ++ usNodes0 (u :: r) ++ P1 ++ usEscStash esc (u :: r) ++ P2 ++ nodesOf 1 u.T.segs ++ nodesOf 2 u.T.segs) ++
          (.node (InlineRef.linkEl u.url u.title (u.T.stage esc 3 true m n0 s (s + u.T.cnt 1))) ::
            (usLinkStash esc m' n0' s' r ++ P3 ++ outNodes 1 (usOuter esc m n0 s (u :: r)) ++ P4 ++
            outNodes 2 (usOuter esc m n0 s (u :: r)) ++ E)) := by
        simp [usLinkStash, List.append_assoc, hm', hn0', hs']
      rw [hform, ← hpre, List.getElem?_append_right (Nat.le_refl _)]
      simp
    · -- escapes of the content after the use
      have := escs_at esc u.C (P0 ++ usNodes0 (u :: r) ++ P1 ++ u.T.escStash esc)
        (usEscStash esc r ++ P2 ++ usLinkStash esc m n0 s (u :: r) ++ P3 ++
          outNodes 1 (usOuter esc m n0 s (u :: r)) ++ P4 ++ outNodes 2 (usOuter esc m n0 s (u :: r)) ++ E)
        (m + u.T.escs esc)
        (by simp only [List.length_append, List.length_cons, List.length_nil, usNodes0_length, usEscStash_length, usLinkStash_length, outNodes_usOuter_length, Chunk.escStash_length, cnt_len, usCnt0, usEscs, usLinkLen, usOutCnt]; omega)
      rw [← hS]
      simpa [usEscStash, List.append_assoc] using this
    · -- items of the content after the use
      have := mStash_at u.C.segs (P0 ++ nodesOf 0 u.T.segs)
        (usNodes0 r ++ P1 ++ usEscStash esc (u :: r) ++ P2 ++ usLinkStash esc m n0 s (u :: r) ++ P3)
        (outNodes 1 (usOuter esc m' n0' s' r) ++ P4)
        (outNodes 2 (usOuter esc m' n0' s' r) ++ E) (n0 + u.T.cnt 0) n1 n2
        (by simp only [List.length_append, cnt_len, h0])
        (by simp only [List.length_append, List.length_cons, List.length_nil, usNodes0_length, usEscStash_length, usLinkStash_length, outNodes_usOuter_length, Chunk.escStash_length, cnt_len, usCnt0, usEscs, usLinkLen, usOutCnt]; omega)
        (by simp only [List.length_append, List.length_cons, List.length_nil, usNodes0_length, usEscStash_length, usLinkStash_length, outNodes_usOuter_length, Chunk.escStash_length, cnt_len, usCnt0, usEscs, usLinkLen, usOutCnt]; omega)
      rw [← hS]
      simpa [usNodes0, outNodes_usOuter_cons, List.append_assoc, hm', hn0', hs'] using this
    · -- the other uses
      have := ih (P0 ++ nodesOf 0 u.T.segs ++ nodesOf 0 u.C.segs) (P1 ++ u.T.escStash esc ++ u.C.escStash esc)
        (P2 ++ nodesOf 1 u.T.segs ++ nodesOf 2 u.T.segs ++
          [.node (InlineRef.linkEl u.url u.title (u.T.stage esc 3 true m n0 s (s + u.T.cnt 1)))])
        (P3 ++ nodesOf 1 u.C.segs) (P4 ++ nodesOf 2 u.C.segs) E m' n0' s' (n1 + u.C.cnt 1) (n2 + u.C.cnt 2)
        (by simp only [List.length_append, List.length_cons, List.length_nil, usNodes0_length, usEscStash_length, usLinkStash_length, outNodes_usOuter_length, Chunk.escStash_length, cnt_len, usCnt0, usEscs, usLinkLen, usOutCnt]; omega)
        (by simp only [List.length_append, List.length_cons, List.length_nil, usNodes0_length, usEscStash_length, usLinkStash_length, outNodes_usOuter_length, Chunk.escStash_length, cnt_len, usCnt0, usEscs, usLinkLen, usOutCnt]; omega)
        (by simp only [List.length_append, List.length_cons, List.length_nil, usNodes0_length, usEscStash_length, usLinkStash_length, outNodes_usOuter_length, Chunk.escStash_length, cnt_len, usCnt0, usEscs, usLinkLen, usOutCnt]; omega)
        (by simp only [List.length_append, List.length_cons, List.length_nil, usNodes0_length, usEscStash_length, usLinkStash_length, outNodes_usOuter_length, Chunk.escStash_length, cnt_len, usCnt0, usEscs, usLinkLen, usOutCnt]; omega)
        (by simp only [List.length_append, List.length_cons, List.length_nil, usNodes0_length, usEscStash_length, usLinkStash_length, outNodes_usOuter_length, Chunk.escStash_length, cnt_len, usCnt0, usEscs, usLinkLen, usOutCnt]; omega)
      rw [← hS]
      simpa [usNodes0, usEscStash, usLinkStash, outNodes_usOuter_cons, List.append_assoc, hm', hn0', hs'] using this

/-- **where the pieces of the line are** in the stash the pattern loop leaves -/
theorem line_at (esc : List Char) (S0 : List StashItem) (C0 : Chunk) (us : List RUse) :
    ChunkAt esc (S0 ++ lineStash esc S0.length C0 us) C0 (mStart S0.length C0 us) S0.length
        (o1Start esc S0.length C0 us) (o2Start esc S0.length C0 us) ∧
    UsAt esc (S0 ++ lineStash esc S0.length C0 us) (mStart S0.length C0 us + C0.escs esc) (S0.length + C0.cnt 0)
        (lStart esc S0.length C0 us) (o1Start esc S0.length C0 us + C0.cnt 1) (o2Start esc S0.length C0 us + C0.cnt 2)
        us := by
  refine ⟨⟨?_, ?_⟩, ?_⟩
  · have := escs_at esc C0 (S0 ++ nodesOf 0 C0.segs ++ usNodes0 us)
      (usEscStash esc us ++ lineLinks esc S0.length C0 us ++ (nodesOf 1 C0.segs ++ outNodes 1 (lineOuter esc S0.length C0 us)) ++
        (nodesOf 2 C0.segs ++ outNodes 2 (lineOuter esc S0.length C0 us))) (mStart S0.length C0 us)
      (by simp only [List.length_append, usNodes0_length, cnt_len, mStart])
    simpa [lineStash, List.append_assoc] using this
  · have := mStash_at C0.segs S0 (usNodes0 us ++ C0.escStash esc ++ usEscStash esc us ++ lineLinks esc S0.length C0 us)
      (outNodes 1 (lineOuter esc S0.length C0 us)) (outNodes 2 (lineOuter esc S0.length C0 us)) S0.length
      (o1Start esc S0.length C0 us) (o2Start esc S0.length C0 us) rfl
      (by simp only [List.length_append, usNodes0_length, usEscStash_length, Chunk.escStash_length, cnt_len, lineLinks,
            usLinkStash_length, o1Start, lStart, mStart]; try omega)
      (by simp only [List.length_append, usNodes0_length, usEscStash_length, Chunk.escStash_length, cnt_len, lineLinks,
            lineOuter, usLinkStash_length, outNodes_usOuter_length, o2Start, o1Start, lStart, mStart]; try omega)
    simpa [lineStash, List.append_assoc] using this
  · have := usAt_layout esc us (S0 ++ nodesOf 0 C0.segs) (C0.escStash esc) [] (nodesOf 1 C0.segs) (nodesOf 2 C0.segs) []
      (mStart S0.length C0 us + C0.escs esc) (S0.length + C0.cnt 0) (lStart esc S0.length C0 us)
      (o1Start esc S0.length C0 us + C0.cnt 1) (o2Start esc S0.length C0 us + C0.cnt 2)
      (by simp only [List.length_append, cnt_len])
      (by simp only [List.length_append, Chunk.escStash_length, cnt_len, mStart]; try omega)
      (by simp only [List.length_nil, lStart]; try omega)
      (by simp only [cnt_len, o1Start]; try omega)
      (by simp only [cnt_len, o2Start]; try omega)
    simpa [lineStash, lineLinks, lineOuter, List.append_assoc] using this

end MdVerif.RefText
