/-
Helper lemmas for `Props/C16RenderG.lean`, part 10: footnotes end to end — `convertX` on a paragraph with any number
of footnote references (anywhere in the line, repeated or not) followed by any number of footnote definitions.

Core Lean only.
-/
import MdVerif.Lemmas.RenderGPost

namespace MdVerif.RenderG
open Py Block BlockExt MdVerif.RenderX Inline InlineX
open MdVerif.Footnotes.Spec (refName)

theorem safeLine_nil : SafeLine [] := ⟨by decide, by simp⟩

theorem slash_not_mem_para (L : Str) (h : ParaLine L) : '/' ∉ L :=
  fun hm => (paraCh_facts (h.chars _ hm)).2.2.2.2.1 rfl

theorem refCount_fun (keys : List Str) (segs : List (Str × Str)) :
    (fun id => Footnotes.lookup (Footnotes.fnref ++ ':' :: id) (refItems keys segs Footnotes.State.empty).2.foundRefs) =
      refCount segs :=
  funext (refItems_empty keys segs).2

/-- the rendering: the paragraph with the references, then the footnote list -/
def fnRender (fmt : Ser.Fmt) (t : Str) (segs defs : List (Str × Str)) : Str :=
  fnOutG fmt t (refsHtml (defs.map (·.1)) segs []) (lisHtml (refCount segs) entNb entBl defs 1)

theorem convertX_fnG (x : PipelineX.Exts) (hfo : x.footnotes = true)
    (hf : x.fencedCode = false) (htb : x.tables = false) (hal : x.attrList = false) (htoc : x.toc = false)
    (cfg : Pipeline.Cfg) (hbl : cfg.blockLevel = TreeProc.defaultBlockLevel) (htab : 0 < cfg.tab)
    (t : Str) (segs defs : List (Str × Str)) (ht : PlainFacts t) (hs : SegsOK segs) (hd : DefsOK defs)
    (hne : defs ≠ []) (hnd : (defs.map (·.1)).Nodup) (hk : ∀ s ∈ segs, s.1 ∈ defs.map (·.1)) :
    PipelineX.convertX x cfg (fnSrcG t segs defs) = .ok (fnRender cfg.fmt t segs defs) := by
  have hL := paraLine_fnPara t segs ht hs
  -- the front
  obtain ⟨s1, s2, s3, s4, s5⟩ := front_lines cfg.tab (srcLines (fnPara t segs) (defBlocks defs))
    (by cases defBlocks defs <;> simp [srcLines])
    (by
      intro l hl
      rcases mem_srcLines _ _ l hl with rfl | rfl | hm
      · exact safeLine_nil
      · exact safeLine_para _ hL
      · obtain ⟨d, hdm, rfl⟩ := List.mem_map.1 hm
        exact safeLine_fnLine2 d.1 d.2 (hd.ids d hdm) (hd.notes d hdm))
    (by
      obtain ⟨a, b, hab, ha, hasp⟩ := hL.head
      refine ⟨a, ?_, DocParse.alnum_visible a ha hasp⟩
      rw [← joinChunks_lines]
      cases defBlocks defs with
      | nil => simp [DocParse.joinChunks, hab]
      | cons y ys => simp [DocParse.joinChunks, hab])
  rw [← joinChunks_lines] at s1 s2 s3 s4 s5
  rw [show DocParse.joinChunks (fnPara t segs :: defBlocks defs) = fnSrcG t segs defs from rfl] at s1 s2 s3 s4 s5
  -- the block stage and the footnote `div`
  have hblk := parseDocumentXT_fnG x.blockCfg (by simpa [PipelineX.Exts.blockCfg] using hfo) cfg.tab htab t segs defs ht hs hd
  have hfoot := footnotesOf_entries defs hnd
  have hmk := makeDiv_defs x htb cfg htab defs hne (defEntries defs) hd
  have hplace := placeDiv_one (fnPara t segs) (fnDivG (lisFrom defs 1)) (slash_not_mem_para _ hL)
  -- the inline stage
  have hkc : ∀ s ∈ segs, (defs.map (·.1)).contains s.1 = true := fun s hs' => List.contains_iff_mem.2 (hk s hs')
  have hrun := fun (ic : Inline.Cfg) => runX_fnG ic (InlineX.table true x.wikilinks x.nl2br) x.nl2br
    (fnTab_table x.wikilinks x.nl2br) (defs.map (·.1)) t segs defs ht hs hkc hd (by simp)
  -- the tree stages
  have hI := itemsOK_refItems (defs.map (·.1)) segs Footnotes.State.empty hs
  have hdup := duplicates_fnG (refItems (defs.map (·.1)) segs Footnotes.State.empty).2 t
    (refItems (defs.map (·.1)) segs Footnotes.State.empty).1 defs hI
  rw [refCount_fun] at hdup
  have hpre := prettify_fnG t (refItems (defs.map (·.1)) segs Footnotes.State.empty).1 (refCount segs) defs hI hne
  have hE := (refItems_empty (defs.map (·.1)) segs).1
  have hIP : ItemsPlain (refItems (defs.map (·.1)) segs Footnotes.State.empty).1 := by
    rw [hE]; exact itemsPlain_refItemsE _ segs [] hs
  have hun := unescapeTree_fnG t (refItems (defs.map (·.1)) segs Footnotes.State.empty).1 (refCount segs) defs ht hIP hd
  have hser := serialize_fnG cfg.fmt t (supKids (refItems (defs.map (·.1)) segs Footnotes.State.empty).1)
    (lisFin (refCount segs) defs 1) ht
  rw [hE, serializeList_sups cfg.fmt _ segs [] hs, serializeList_lis cfg.fmt _ defs 1 hd, ← hE] at hser
  have hfin := finishX_fnG x hfo cfg t (refsHtml (defs.map (·.1)) segs []) (refCount segs) defs ht.noStx
    (stx_refsHtml _ segs [] hs) hd
  have habbr : ∀ u, AbbrTree.run [] u = u := fun _ => rfl
  simp only [PipelineX.convertX, s1, s2, PipelineX.Exts.unsupported, Bool.false_eq_true, if_false,
    PipelineX.treeX, PipelineX.prepareX, s3, s4, s5, Bool.and_false, hf, htb, hblk, hfo, if_true, hfoot, hmk,
    hal, htoc]
  simp only [hplace, PipelineX.refsX, Bool.true_or, if_true, refsOf_entries, abbrsOf_entries]
  rw [show ({ Node.el "div" with children := [mkText "p" (fnPara t segs), fnDivG (lisFrom defs 1)] } : Node) =
    fnDocG (fnPara t segs) (lisFrom defs 1) from rfl]
  have hxc : ∀ ic : Inline.Cfg, (InlineX.XCfg.mk ic (InlineX.table true x.wikilinks x.nl2br) (defs.map (·.1))) =
      fnXcG ic (InlineX.table true x.wikilinks x.nl2br) (defs.map (·.1)) := fun _ => rfl
  rw [hxc, hrun]
  cases hab : x.abbr <;>
    simp only [hdup, hbl, hpre, habbr, Bool.false_eq_true, if_false, if_true, hun, hser] <;> exact hfin

end MdVerif.RenderG
