/-
Helper lemmas for C03 with extensions enabled (`Props/C03X.lean`), continued: `PipelineX.convertX x` on ANY document
of one-line paragraphs and indented code blocks, for every flag set `x` (`convertX_codeDoc`).  Core Lean only.
-/
import MdVerif.Lemmas.CodeXDocTree

namespace MdVerif.CodeX
open Py Block BlockExt CodeLaw Pipeline PipelineX

/-- some item of the document is not all white space: a paragraph, or a code block with a visible character -/
def hasInk (items : List CItem) : Bool :=
  items.any (fun it => match it with
    | .para _ => true
    | .code f m => (allLines f m).any (fun l => !isBlank l))

theorem mem_join_of_mem (sep : Str) (l : List Str) (s : Str) (hs : s ∈ l) (c : Char) (hc : c ∈ s) : c ∈ join sep l := by
  induction l with
  | nil => simp at hs
  | cons a r ih =>
    cases r with
    | nil =>
      have : s = a := by simpa using hs
      subst this; simpa [join] using hc
    | cons b r =>
      rw [Py.join_cons_cons]
      rcases List.mem_cons.1 hs with rfl | hs
      · simp [hc]
      · exact List.mem_append_right _ (ih hs)

theorem join_nl_eq (x : Str) (xs : List Str) : join ['\n'] (x :: xs) = x ++ xs.flatMap (fun y => '\n' :: y) := by
  induction xs generalizing x with
  | nil => simp [join]
  | cons y r ih => rw [Py.join_cons_cons, ih y]; simp

theorem flatMap_nl_shift (x : Str) (xs : List Str) :
    '\n' :: (x :: xs).flatMap (fun y => y ++ ['\n']) = ['\n'] ++ (x ++ xs.flatMap (fun y => '\n' :: y)) ++ ['\n'] := by
  induction xs generalizing x with
  | nil => simp
  | cons y r ih =>
    have := ih y
    simp only [List.flatMap_cons, List.cons_append, List.nil_append, List.append_assoc, List.cons.injEq, true_and] at this ⊢
    rw [this]

theorem html_shape (it : CItem) : ∃ r2, it.html = '<' :: r2 ++ ['>'] := by
  cases it with
  | para p =>
    refine ⟨"p>".toList ++ p ++ "</p".toList, ?_⟩
    show "<p>".toList ++ p ++ "</p>".toList = _
    have e1 : "<p>".toList = '<' :: "p>".toList := rfl
    have e2 : "</p>".toList = "</p".toList ++ ['>'] := rfl
    rw [e1, e2]; simp
  | code f m =>
    refine ⟨"pre><code>".toList ++ Code.codeEscape (trimSpec f m) ++ "\n</code></pre".toList, ?_⟩
    show "<pre><code>".toList ++ Code.codeEscape (trimSpec f m) ++ "\n</code></pre>".toList = _
    have e1 : "<pre><code>".toList = '<' :: "pre><code>".toList := rfl
    have e2 : "\n</code></pre>".toList = "\n</code></pre".toList ++ ['>'] := rfl
    rw [e1, e2]; simp

theorem html_para (p : Str) : (CItem.para p).html = "<p>".toList ++ p ++ "</p>".toList := rfl
theorem html_code (f : List Str) (m : List (Nat × List Str)) :
    (CItem.code f m).html = "<pre><code>".toList ++ Code.codeEscape (trimSpec f m) ++ "\n</code></pre>".toList := rfl

open FencedPipe in
theorem stx_not_mem_html (it : CItem) (h : it.ok = true) : Post.STX ∉ it.html := by
  have hf := CItem.facts h
  cases it with
  | para p =>
    have pf := paraFacts (hf.para p rfl)
    rw [html_para]
    intro hm
    simp only [List.mem_append] at hm
    rcases hm with (hm | hm) | hm
    · revert hm; decide
    · exact pf.stx hm
    · revert hm; decide
  | code f m =>
    obtain ⟨⟨_, _, c1⟩, hm'⟩ := hf.code f m rfl
    rw [html_code]
    intro hm
    simp only [List.mem_append] at hm
    rcases hm with (hm | hm) | hm
    · revert hm; decide
    · rcases mem_codeEscape hm with hm | hm
      · rcases mem_trimSpec hm with e | ⟨l, hl, hcl⟩ | ⟨er, her, l, hl, hcl⟩
        · revert e; decide
        · exact (isCodeChar_spec (c1 l hl _ hcl)).2.2.2.2.1 rfl
        · exact (isCodeChar_spec ((hm' er her).2.2 l hl _ hcl)).2.2.2.2.1 rfl
      · revert hm; decide
    · revert hm; decide

/-- the tree processors between the inline stage and the serializer, extensions included, on the document -/
theorem treeStages_docTree (x : Exts) (tab : Nat) (fmt : Ser.Fmt) (items : List CItem) (hne : items ≠ [])
    (h : ∀ it ∈ items, it.ok = true) (post : Str → Option Str) :
    (let u := TreeProc.prettify (appendKids (Node.el "div") (docKids items))
        ({ tab := tab, fmt := fmt } : Pipeline.Cfg).blockLevel
     let u := if x.attrList then AttrListTree.run ({ tab := tab, fmt := fmt } : Pipeline.Cfg).blockLevel u else u
     let u := if x.abbr then AbbrTree.run (BlockExt.abbrsOf []) u else u
     let tocStage : TocTree.R Node :=
       if x.toc then
         TocTree.run { fmt := ({ tab := tab, fmt := fmt } : Pipeline.Cfg).fmt, post := post }
           ({ tab := tab, fmt := fmt } : Pipeline.Cfg).blockLevel u
       else .ok u
     tocStage) = .ok (docTreeP items) := by
  have h1 : TreeProc.prettify (appendKids (Node.el "div") (docKids items))
      ({ tab := tab, fmt := fmt } : Pipeline.Cfg).blockLevel = docTreeP items := prettify_docTree items hne h
  have h2 : AttrListTree.run ({ tab := tab, fmt := fmt } : Pipeline.Cfg).blockLevel (docTreeP items) = docTreeP items :=
    attrList_docTreeP items hne h
  have h3 : AbbrTree.run (BlockExt.abbrsOf []) (docTreeP items) = docTreeP items := rfl
  have h4 : ∀ env, TocTree.run env ({ tab := tab, fmt := fmt } : Pipeline.Cfg).blockLevel (docTreeP items) =
      .ok (docTreeP items) := fun env => toc_docTreeP env items h
  simp only [h1]
  cases x.attrList <;> cases x.abbr <;> cases x.toc <;>
    simp only [Bool.false_eq_true, if_false, if_true, h2, h3, h4]

open FencedPipe in
/-- **`Markdown.convert` with ANY set of the eleven modelled extensions on ANY document of one-line paragraphs and
    indented code blocks**: a `<p>` per paragraph, the code block of `C03X_block_top` per code block, one per line -/
theorem convertX_codeDoc (x : Exts) (tab : Nat) (htab : 0 < tab) (fmt : Ser.Fmt) (items : List CItem)
    (hne : items ≠ []) (h : ∀ it ∈ items, it.ok = true) (halt : alternating items = true) (hink : hasInk items = true)
    (hadm : (x.admonition && admNonAscii (codeDocSource tab items ++ ['\n', '\n'])) = false) :
    convertX x { tab := tab, fmt := fmt } (codeDocSource tab items) = .ok (codeDocHtml items) := by
  have hchars := mem_codeDocSource tab items h
  have hlt : (codeDocSource tab items).contains '<' = false := by
    rw [Bool.eq_false_iff]; intro hc
    exact (hchars '<' (by simpa using hc)).1 rfl
  have hblank : Normalize.isBlankDoc (codeDocSource tab items) = false := by
    rw [Normalize.isBlankDoc_eq_all, Bool.eq_false_iff]; intro ha
    obtain ⟨it, hit, hi⟩ := List.any_eq_true.1 hink
    have hsrc : it.src tab ∈ items.map (CItem.src tab) := List.mem_map.2 ⟨it, hit, rfl⟩
    have hf := CItem.facts (h it hit)
    cases it with
    | para p =>
      obtain ⟨c0, r0, rfl, hc0, hw⟩ := isParaLine_spec (hf.para p rfl)
      have := List.all_eq_true.1 ha c0 (mem_join_of_mem _ _ _ hsrc c0 (by simp [CItem.src]))
      rw [alpha_not_space hc0] at this; cases this
    | code f m =>
      obtain ⟨l, hl, hb⟩ := List.any_eq_true.1 hi
      have hb' : isBlank l = false := by simpa using hb
      have : ¬ (∀ c ∈ l, isSpace c = true) := fun hall => by
        rw [(isBlank_iff l).2 hall] at hb'; cases hb'
      apply this
      intro c hc
      exact List.all_eq_true.1 ha c (mem_join_of_mem _ _ _ hsrc c (mem_codeSource_of_line (tab := tab) hl hc))
  have hnorm : Normalize.normalize tab (codeDocSource tab items) = codeDocSource tab items ++ ['\n', '\n'] :=
    normalize_of_clean tab _ (fun c hc => by
      obtain ⟨_, a2, a3, a4, a5⟩ := hchars c hc; exact ⟨a4, a5, a2, a3⟩)
      (by rw [codeDocSource_nl2 tab items hne]; exact ws_docText tab items h)
  have hprep : prepareX x { tab := tab, fmt := fmt } (codeDocSource tab items) = .ok (docText tab items, []) := by
    rw [← codeDocSource_nl2 tab items hne]
    refine prepareX_plain x tab fmt _ _ hnorm hadm ?_ ?_
    · apply fenceFindFrom_noFence
      apply noFenceLine_of_heads
      rw [codeDocSource_nl2 tab items hne]
      exact lineHeads_docText isFenceCh (by decide) (by decide)
        (fun c hc => by
          have h1 : c ≠ '`' := alpha_ne hc (by decide)
          have h2 : c ≠ '~' := alpha_ne hc (by decide)
          simp [isFenceCh, h1, h2]) tab htab items h
    · rw [codeDocSource_nl2 tab items hne]; exact refsClosed_docText tab items h
  have hmk : ∀ pc : Block.Refs → Str → Option (Node × Block.Refs),
      FootnotesTree.makeDiv pc fnCount (BlockExt.footnotesOf []) [] = .ok (none, []) := fun _ => rfl
  have htree : treeX x { tab := tab, fmt := fmt } (codeDocSource tab items) = .ok (docTreeP items) [] := by
    unfold treeX
    rw [hprep]
    simp only
    rw [parseDocumentXT_items x.tables x.blockCfg tab htab items h halt]
    simp only [hmk, ite_self]
    rw [runX_docTree _ _ _ _ _ items h]
    simp only
    have hdup : (if x.footnotes then FootnotesTree.duplicates Footnotes.State.empty
          (appendKids (Node.el "div") (docKids items))
        else some (appendKids (Node.el "div") (docKids items))) =
        some (appendKids (Node.el "div") (docKids items)) := by
      split
      · exact duplicates_docTree _ _
      · rfl
    rw [hdup]
    simp only
    have hstages := treeStages_docTree x tab fmt items hne h (postX x { tab := tab, fmt := fmt } [])
    simp only at hstages
    rw [hstages]
    simp only
    rw [unescape_docTreeP items h]
  obtain ⟨it, r, rfl⟩ : ∃ it r, items = it :: r := by
    cases items with
    | nil => exact absurd rfl hne
    | cons it r => exact ⟨it, r, rfl⟩
  unfold convertX
  rw [hlt, hblank, htree]
  simp only [Exts.unsupported, Bool.false_eq_true, if_false]
  rw [serialize_docTreeP fmt _ h]
  have hflat : (it :: r).flatMap (fun i => i.html ++ ['\n']) = ((it :: r).map CItem.html).flatMap (fun y => y ++ ['\n']) := by
    simp [List.flatMap_map]
  have hbody : '\n' :: (it :: r).flatMap (fun i => i.html ++ ['\n']) =
      ['\n'] ++ (it.html ++ (r.map CItem.html).flatMap (fun y => '\n' :: y)) ++ ['\n'] := by
    rw [hflat, List.map_cons, flatMap_nl_shift]
  have hstx : Post.STX ∉ '\n' :: (it :: r).flatMap (fun i => i.html ++ ['\n']) := by
    intro hm
    rcases List.mem_cons.1 hm with e | hm
    · revert e; decide
    · obtain ⟨i, hi, hmi⟩ := List.mem_flatMap.1 hm
      rcases List.mem_append.1 hmi with hmi | hmi
      · exact stx_not_mem_html i (h i hi) hmi
      · revert hmi; decide
  rw [finishX_div _ _ _ hstx, hbody, strip_append_of_blank (by decide) (by decide),
    strip_lines _ _ (fun y hy => by
      rcases List.mem_cons.1 hy with rfl | hy
      · exact html_shape it
      · obtain ⟨i, _, rfl⟩ := List.mem_map.1 hy
        exact html_shape i),
    strip_lines _ _ (fun y hy => by
      rcases List.mem_cons.1 hy with rfl | hy
      · exact html_shape it
      · obtain ⟨i, _, rfl⟩ := List.mem_map.1 hy
        exact html_shape i)]
  rw [codeDocHtml, List.map_cons, join_nl_eq]

/-! ### the instance: a code block between two paragraphs -/

theorem codeDocSource_between (tab : Nat) (p q : Str) (first : List Str) (more : List (Nat × List Str)) (S : Str)
    (hS : ['\n', '\n'] = S) :
    codeDocSource tab [.para p, .code first more, .para q] = p ++ S ++ codeSource tab first more ++ S ++ q := by
  subst hS
  show join ['\n', '\n'] [p, codeSource tab first more, q] = _
  rw [Py.join_cons_cons, Py.join_cons_cons]
  simp [join]

theorem codeDocHtml_between (p q : Str) (first : List Str) (more : List (Nat × List Str)) (O A B C : Str)
    (hO : "<p>".toList = O) (hA : "</p>".toList ++ ('\n' :: "<pre><code>".toList) = A)
    (hB : "\n</code></pre>".toList ++ ('\n' :: "<p>".toList) = B) (hC : "</p>".toList = C) :
    codeDocHtml [.para p, .code first more, .para q] =
      O ++ p ++ A ++ Code.codeEscape (trimSpec first more) ++ B ++ q ++ C := by
  subst hO; subst hA; subst hB; subst hC
  show join ['\n'] [(CItem.para p).html, (CItem.code first more).html, (CItem.para q).html] = _
  rw [Py.join_cons_cons, Py.join_cons_cons, html_para, html_para, html_code]
  simp only [join, List.append_assoc, List.cons_append, List.nil_append]

end MdVerif.CodeX
