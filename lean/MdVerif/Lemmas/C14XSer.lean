/-
Helper lemmas for C14 on the extension pipeline (`Props/C14X.lean`), part 4: the marked string of a tree.
For a well-formed tree (`Ser.WFTree`) the html and the xhtml serialisation are the two renderings of `mTree n`
(`Lemmas/C14XMark.lean`), and the invariant holds: a `void` mark stands behind the name of a void element (which does
not end in `p`), a closing quote or a `bool` mark; a `bool` mark behind a tag name, a closing quote or a `bool` mark.
Core Lean only.
-/
import MdVerif.Lemmas.C14XMark
import MdVerif.Lemmas.SerializerTree

namespace MdVerif.C14X
open Py Ser

@[simp] theorem rH_ch (c : Char) (r : M) : rH (Sym.ch c :: r) = c :: rH r := rfl
@[simp] theorem rX_ch (c : Char) (r : M) : rX (Sym.ch c :: r) = c :: rX r := rfl

def mAttrs : List (Str × Str) → M
  | [] => []
  | (k, v) :: r =>
    (if k = escAttrHtml v then [Sym.bool k]
     else lit (' ' :: (k ++ "=\"".toList ++ escAttrHtml v ++ ['"']))) ++ mAttrs r

def tailS (t : Option Str) : Str := if Node.truthy t then escCdata (t.getD []) else []

mutual
def mTree : Node → M
  | ⟨tag, attrs, text, _, children, tail, _⟩ =>
    (match tag with
     | .comment => lit ("<!--".toList ++ escCdata (text.getD []) ++ "-->".toList)
     | .pi => lit ("<?".toList ++ escCdata (text.getD []) ++ "?>".toList)
     | .none => lit (tailS text) ++ mList children
     | .qname _ => []
     | .name t =>
       lit ('<' :: t) ++ mAttrs (sortAttrs attrs) ++
         (if isEmptyTag t then [Sym.void]
          else lit ('>' :: (if Node.truthy text then (if isRawTextTag t then text.getD [] else escCdata (text.getD []))
                            else [])) ++ mList children ++ lit ("</".toList ++ t ++ ['>'])))
    ++ lit (tailS tail)
def mList : List Node → M
  | [] => []
  | n :: r => mTree n ++ mList r
end

theorem rH_mAttrs : ∀ (as : List (Str × Str)), rH (mAttrs as) = writeAttrs .html as
  | [] => rfl
  | (k, v) :: r => by
    simp only [mAttrs, writeAttrs, rH_append, rH_mAttrs r]
    by_cases e : k = escAttrHtml v
    · simp [e, rH]
    · simp [e]

theorem rX_mAttrs : ∀ (as : List (Str × Str)), rX (mAttrs as) = writeAttrs .xhtml as
  | [] => rfl
  | (k, v) :: r => by
    simp only [mAttrs, writeAttrs, rX_append, rX_mAttrs r]
    by_cases e : k = escAttrHtml v
    · simp [← e, rX]
    · simp [e]

mutual
theorem rH_mTree : (n : Node) → WFTree n = true → rH (mTree n) = serialize .html n
  | ⟨tag, attrs, text, ta, children, tail, tla⟩, hwf => by
    simp only [WFTree, Bool.and_eq_true] at hwf
    obtain ⟨htag, hch⟩ := hwf
    have hk := rH_mList children hch
    cases tag with
    | comment => simp [mTree, serialize, tailS]
    | pi => simp [mTree, serialize, tailS]
    | none => simp [mTree, serialize, tailS, hk]
    | qname q => simp at htag
    | name t =>
      simp only [Bool.and_eq_true] at htag
      simp only [mTree, serialize, element_none, rH_append, rH_lit, rH_mAttrs, tailS]
      by_cases hv : isEmptyTag t = true
      · simp only [hv, if_true, Bool.and_eq_true, Bool.not_eq_true', List.isEmpty_iff] at htag
        obtain ⟨_, htx, hc⟩ := htag
        subst hc
        simp [hv, htx, serializeList, rH]
      · simp [hv, hk]
theorem rH_mList : (l : List Node) → WFList l = true → rH (mList l) = serializeList .html l
  | [], _ => rfl
  | n :: r, h => by
    simp only [WFList, Bool.and_eq_true] at h
    simp only [mList, serializeList, rH_append, rH_mTree n h.1, rH_mList r h.2]
end

mutual
theorem rX_mTree : (n : Node) → WFTree n = true → rX (mTree n) = serialize .xhtml n
  | ⟨tag, attrs, text, ta, children, tail, tla⟩, hwf => by
    simp only [WFTree, Bool.and_eq_true] at hwf
    obtain ⟨htag, hch⟩ := hwf
    have hk := rX_mList children hch
    cases tag with
    | comment => simp [mTree, serialize, tailS]
    | pi => simp [mTree, serialize, tailS]
    | none => simp [mTree, serialize, tailS, hk]
    | qname q => simp at htag
    | name t =>
      simp only [Bool.and_eq_true] at htag
      simp only [mTree, serialize, element_none, rX_append, rX_lit, rX_mAttrs, tailS]
      by_cases hv : isEmptyTag t = true
      · simp [hv, rX]
      · simp [hv, hk]
theorem rX_mList : (l : List Node) → WFList l = true → rX (mList l) = serializeList .xhtml l
  | [], _ => rfl
  | n :: r, h => by
    simp only [WFList, Bool.and_eq_true] at h
    simp only [mList, serializeList, rX_append, rX_mTree n h.1, rX_mList r h.2]
end


/-! ### the invariant -/

theorem lower_snoc_p (init : Str) : lower (init ++ ['p']) = lower init ++ ['p'] := by
  simp [lower, lowerChar, isAsciiUpper]

/-- the name of a void element does not end in `p` -/
theorem emptyTag_not_p (init : Str) : isEmptyTag (init ++ ['p']) = false := by
  cases h : isEmptyTag (init ++ ['p']) with
  | false => rfl
  | true =>
    exfalso
    simp only [isEmptyTag, lower_snoc_p, List.any_eq_true, decide_eq_true_eq] at h
    obtain ⟨e, he, heq⟩ := h
    have hl : e.toList.getLast? = some 'p' := by rw [heq]; simp
    have : ∀ e ∈ Generated.htmlEmpty, e.toList.getLast? ≠ some 'p' := by decide
    exact this e he hl

theorem name_snoc {t : Str} (ht : isName t = true) : ∃ init c, t = init ++ [c] ∧ isNameChar c = true := by
  rcases List.eq_nil_or_concat t with rfl | ⟨init, c, rfl⟩
  · simp [isName] at ht
  · rw [List.concat_eq_append] at ht ⊢
    exact ⟨init, c, rfl, isName_chars ht c (by simp)⟩

theorem okB_quote : okB (some (.ch '"')) = true := by decide
theorem okV_quote : okV (some (.ch '"')) = true := by decide

theorem invA_mAttrs : ∀ (as : List (Str × Str)), (∀ kv ∈ as, isName kv.1 = true) → ∀ (p : Option Sym),
    okB p = true →
    InvA p (mAttrs as) = true ∧ okB (lastP p (mAttrs as)) = true ∧
      ((okV p = true ∨ as ≠ []) → okV (lastP p (mAttrs as)) = true)
  | [], _, p, hp => ⟨rfl, hp, fun h => by rcases h with h | h; exact h; exact absurd rfl h⟩
  | (k, v) :: r, hk, p, hp => by
    have hkn : isName k = true := hk (k, v) (by simp)
    have hr : ∀ kv ∈ r, isName kv.1 = true := fun kv h => hk kv (by simp [h])
    simp only [mAttrs]
    by_cases e : k = escAttrHtml v
    · simp only [e, if_true]
      rw [← e]
      obtain ⟨a, b, c⟩ := invA_mAttrs r hr (some (.bool k)) rfl
      refine ⟨?_, ?_, fun _ => ?_⟩
      · simp only [List.singleton_append, InvA, hp, hkn, a]; rfl
      · rw [List.singleton_append, lastP_cons]; exact b
      · rw [List.singleton_append, lastP_cons]; exact c (Or.inl rfl)
    · simp only [e, if_false]
      have hl : lastP p (lit (' ' :: (k ++ "=\"".toList ++ escAttrHtml v ++ ['"']))) = some (.ch '"') := by
        have : (' ' :: (k ++ "=\"".toList ++ escAttrHtml v ++ ['"'])) = (' ' :: (k ++ "=\"".toList ++ escAttrHtml v)) ++ ['"'] := by
          simp
        rw [this]; exact lastP_lit_snoc _ _ _
      obtain ⟨a, b, c⟩ := invA_mAttrs r hr (some (.ch '"')) okB_quote
      have hlast : lastP p (lit (' ' :: (k ++ "=\"".toList ++ escAttrHtml v ++ ['"'])) ++ mAttrs r) =
          lastP (some (.ch '"')) (mAttrs r) := by
        cases hm : (mAttrs r).getLast? with
        | none =>
          have : mAttrs r = [] := List.getLast?_eq_none_iff.1 hm
          rw [this, List.append_nil, hl]; rfl
        | some u =>
          simp only [lastP, List.getLast?_append, hm]; rfl
      refine ⟨?_, ?_, fun _ => ?_⟩
      · rw [invA_append, invA_lit, hl, a]; rfl
      · rw [hlast]; exact b
      · rw [hlast]; exact c (Or.inl okV_quote)

theorem lastP_append (p : Option Sym) (a b : M) : lastP p (a ++ b) = lastP (lastP p a) b := by
  cases hm : b.getLast? with
  | none =>
    have : b = [] := List.getLast?_eq_none_iff.1 hm
    rw [this, List.append_nil]; rfl
  | some u => simp only [lastP, List.getLast?_append, hm]; rfl

mutual
theorem invA_mTree : (n : Node) → WFTree n = true → InvA bad (mTree n) = true
  | ⟨tag, attrs, text, ta, children, tail, tla⟩, hwf => by
    simp only [WFTree, Bool.and_eq_true] at hwf
    obtain ⟨htag, hch⟩ := hwf
    have hk := invA_mList children hch
    cases tag with
    | comment => simp only [mTree, ← lit_append]; exact invA_lit _ _
    | pi => simp only [mTree, ← lit_append]; exact invA_lit _ _
    | none =>
      simp only [mTree]
      rw [List.append_assoc]
      exact invA_lit_append _ (invA_bad_append hk (invA_lit _ _))
    | qname q => simp at htag
    | name t =>
      simp only [Bool.and_eq_true, List.all_eq_true] at htag
      obtain ⟨⟨⟨ht, hkeys⟩, _⟩, hshape⟩ := htag
      obtain ⟨init, c, et, hc⟩ := name_snoc ht
      have hks : ∀ kv ∈ sortAttrs attrs, isName kv.1 = true := fun kv hkv => hkeys kv (mem_sortAttrs attrs kv hkv)
      have hp0 : lastP bad (lit ('<' :: t)) = some (.ch c) := by
        rw [et]; exact lastP_lit_snoc bad ('<' :: init) c
      have hB : okB (some (.ch c)) = true := by simp [okB, solidB, hc]
      obtain ⟨a1, a2, a3⟩ := invA_mAttrs (sortAttrs attrs) hks (some (.ch c)) hB
      simp only [mTree, List.append_assoc]
      rw [invA_append, invA_lit, hp0, Bool.true_and, invA_append, a1, Bool.true_and]
      by_cases hv : isEmptyTag t = true
      · simp only [hv, if_true]
        have hcp : c ≠ 'p' := by
          rintro rfl
          rw [et, emptyTag_not_p] at hv; cases hv
        have hV : okV (some (.ch c)) = true := by simp [okV, solidV, hc, hcp]
        have := a3 (Or.inl hV)
        simp only [List.singleton_append, InvA, this, Bool.true_and]
        exact invA_lit _ _
      · simp only [hv, Bool.false_eq_true, if_false, List.append_assoc]
        exact invA_lit_append _ (invA_bad_append hk (invA_lit_append _ (invA_lit _ _)))
theorem invA_mList : (l : List Node) → WFList l = true → InvA bad (mList l) = true
  | [], _ => rfl
  | n :: r, h => by
    simp only [WFList, Bool.and_eq_true] at h
    simp only [mList]
    exact invA_bad_append (invA_mTree n h.1) (invA_mList r h.2)
end

end MdVerif.C14X
