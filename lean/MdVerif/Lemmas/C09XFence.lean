/-
Helper lemmas for C09 on the extension pipeline (`Props/C09X.lean`), part 4: the fenced-code preprocessor does not
read the line feeds behind the end of the text.  For a text that ends in a line feed, `FENCED_BLOCK_RE.search` finds
the same match when more line feeds are appended: every repeat of the pattern (`[ ]*`, the lang class, `[^\n]*`) stops
at a line feed of the text, the lazy `hl_lines` value ends at a quote of the text, and the added lines are empty and
close no fence.  Core Lean only.
-/
import MdVerif.Lemmas.C09XTrail
import MdVerif.Lemmas.FencedCodeAttrs

namespace MdVerif.C09X
open Py Fenced

/-- the text ends in a line feed -/
def EndsNL (s : Str) : Prop := ∃ s0, s = s0 ++ ['\n']

/-- line feeds only -/
def nls (j : Nat) : Str := List.replicate j '\n'

theorem endsNL_mem {s : Str} (h : EndsNL s) : '\n' ∈ s := by
  obtain ⟨s0, rfl⟩ := h; simp

theorem endsNL_ne_nil {s : Str} (h : EndsNL s) : s ≠ [] := by
  obtain ⟨s0, rfl⟩ := h; simp

/-- dropping characters other than line feeds keeps the final line feed -/
theorem endsNL_drop {s : Str} (h : EndsNL s) (k : Nat) (hk : ∀ c ∈ s.take k, c ≠ '\n') : EndsNL (s.drop k) := by
  obtain ⟨s0, rfl⟩ := h
  by_cases hle : k ≤ s0.length
  · exact ⟨s0.drop k, by rw [List.drop_append_of_le_length hle]⟩
  · exfalso
    have : '\n' ∈ (s0 ++ ['\n']).take k := by
      rw [List.take_of_length_le (by simp; omega)]; simp
    exact hk _ this rfl

theorem endsNL_tail {c : Char} {r : Str} (h : EndsNL (c :: r)) : r = [] ∨ EndsNL r := by
  obtain ⟨s0, e⟩ := h
  cases s0 with
  | nil => simp at e; exact Or.inl e.2
  | cons d s0' => simp at e; exact Or.inr ⟨s0', e.2⟩

theorem endsNL_cons_ne {c : Char} {r : Str} (h : EndsNL (c :: r)) (hc : c ≠ '\n') : EndsNL r := by
  rcases endsNL_tail h with rfl | h'
  · obtain ⟨s0, e⟩ := h
    cases s0 with
    | nil => simp at e; exact absurd e hc
    | cons d s0' => simp at e
  · exact h'

/-- a repeat over a character class that does not hold of `\n` stops inside the text -/
theorem spanLen_append_stop (p : Char → Bool) {a : Str} (h : ∃ c ∈ a, p c = false) (w : Str) :
    spanLen p (a ++ w) = spanLen p a := by
  induction a with
  | nil => obtain ⟨c, hc, _⟩ := h; cases hc
  | cons d r ih =>
    simp only [List.cons_append, spanLen]
    by_cases hd : p d = true
    · simp only [hd, if_true]
      obtain ⟨c, hc, hpc⟩ := h
      rcases List.mem_cons.1 hc with rfl | hc'
      · rw [hd] at hpc; cases hpc
      · rw [ih ⟨c, hc', hpc⟩]
    · simp [hd]

theorem spanLen_endsNL (p : Char → Bool) (hp : p '\n' = false) {a : Str} (h : EndsNL a) (w : Str) :
    spanLen p (a ++ w) = spanLen p a :=
  spanLen_append_stop p ⟨'\n', endsNL_mem h, hp⟩ w

theorem spanLen_take_ne_nl (p : Char → Bool) (hp : p '\n' = false) (a : Str) : ∀ k, k ≤ spanLen p a →
    ∀ c ∈ a.take k, c ≠ '\n' := by
  intro k hk c hc
  have : c ∈ a.take (spanLen p a) := by
    have e : a.take k = (a.take (spanLen p a)).take k := by rw [List.take_take]; congr 1; omega
    rw [e] at hc
    exact List.mem_of_mem_take hc
  intro e
  have := spanLen_prefix_all p a c this
  rw [e, hp] at this; cases this

theorem mem_descTo {k n : Nat} : k ∈ descTo n ↔ k ≤ n := by
  induction n with
  | zero => simp [descTo]
  | succ n ih => simp only [descTo, List.mem_cons, ih]; omega

theorem flatMap_congr' {α β : Type} {l : List α} {f g : α → List β} (h : ∀ a ∈ l, f a = g a) :
    l.flatMap f = l.flatMap g := by
  induction l with
  | nil => rfl
  | cons a r ih =>
    simp only [List.flatMap_cons]
    rw [h a (by simp), ih (fun b hb => h b (by simp [hb]))]

theorem findSome_congr' {α β : Type} {l : List α} {f g : α → Option β} (h : ∀ a ∈ l, f a = g a) :
    l.findSome? f = l.findSome? g := by
  induction l with
  | nil => rfl
  | cons a r ih =>
    simp only [List.findSome?_cons]
    rw [h a (by simp), ih (fun b hb => h b (by simp [hb]))]

theorem drop_append_le (a w : Str) {k : Nat} (hk : k ≤ a.length) : (a ++ w).drop k = a.drop k ++ w :=
  List.drop_append_of_le_length hk

theorem take_append_le (a w : Str) {k : Nat} (hk : k ≤ a.length) : (a ++ w).take k = a.take k :=
  List.take_append_of_le_length hk


/-! ### the closing line is not among the added lines -/

theorem lines_cons_nl (r : Str) : lines ('\n' :: r) = [] :: lines r := by
  simp only [lines, splitC]
  cases h : splitC '\n' r with
  | nil => exact absurd h (Py.splitC_ne_nil _ _)
  | cons p ps => simp

theorem lines_nls (j : Nat) : lines (nls j) = List.replicate (j + 1) [] := by
  induction j with
  | zero => rfl
  | succ j ih =>
    rw [show nls (j + 1) = '\n' :: nls j from List.replicate_succ, lines_cons_nl, ih]
    rfl

theorem isClose_nil {fence : Str} (hf : fence ≠ []) : isClose fence [] = false := by
  cases fence with
  | nil => exact absurd rfl hf
  | cons c r => simp [isClose, startsWith]

theorem closeLines_empties {fence : Str} (hf : fence ≠ []) (off : Nat) (E : List Str) (hE : ∀ l ∈ E, l = []) :
    closeLines fence off E = none := by
  induction E generalizing off with
  | nil => rfl
  | cons l r ih =>
    have hl : l = [] := hE l (by simp)
    subst hl
    simp only [closeLines, isClose_nil hf, Bool.false_eq_true, if_false]
    exact ih _ (fun x hx => hE x (by simp [hx]))

theorem closeLines_append_empties {fence : Str} (hf : fence ≠ []) (off : Nat) (L E : List Str)
    (hE : ∀ l ∈ E, l = []) : closeLines fence off (L ++ E) = closeLines fence off L := by
  induction L generalizing off with
  | nil => simp only [List.nil_append, closeLines_empties hf off E hE]; rfl
  | cons l r ih =>
    simp only [List.cons_append, closeLines]
    split
    · rfl
    · exact ih _

theorem closeLines_lines_append {fence : Str} (hf : fence ≠ []) {body : Str} (hb : body = [] ∨ EndsNL body) (j : Nat) :
    closeLines fence 0 (lines (body ++ nls j)) = closeLines fence 0 (lines body) := by
  rcases hb with rfl | ⟨B, rfl⟩
  · rw [List.nil_append, lines_nls, closeLines_empties hf _ _ (fun l hl => List.eq_of_mem_replicate hl)]
    simp [lines, splitC, closeLines, isClose_nil hf]
  · have e1 : B ++ ['\n'] ++ nls j = B ++ '\n' :: nls j := by simp
    have e2 : B ++ ['\n'] = B ++ '\n' :: [] := rfl
    rw [e1, e2]
    simp only [lines, splitC_append]
    have h1 := lines_nls j
    simp only [lines] at h1
    rw [h1, closeLines_append_empties hf _ _ _ (fun l hl => List.eq_of_mem_replicate hl)]
    have h2 : splitC '\n' [] = [[]] := rfl
    rw [h2, closeLines_append_empties hf _ _ _ (fun l hl => by simpa using hl)]

theorem endsNL_drop_any {s : Str} (h : s = [] ∨ EndsNL s) (k : Nat) : s.drop k = [] ∨ EndsNL (s.drop k) := by
  rcases h with rfl | ⟨s0, rfl⟩
  · simp
  · by_cases hle : k ≤ s0.length
    · exact Or.inr ⟨s0.drop k, by rw [List.drop_append_of_le_length hle]⟩
    · left; apply List.drop_eq_nil_of_le; simp; omega

theorem nls_drop (j k : Nat) : (nls j).drop k = nls (j - k) := by
  simp [nls]

/-- **the rest of the pattern after one way of matching the opening line**: the same with more line feeds behind a
    text that is empty or ends in a line feed -/
theorem tryCand_suffix (n : Nat) {fence : Str} (hf : fence ≠ []) {a : Str} (ha : a = [] ∨ EndsNL a) (c : Cand)
    (j : Nat) : tryCand n fence (a ++ nls j) c = tryCand n fence a c := by
  unfold tryCand
  by_cases hp : c.p < a.length
  · rw [drop_append_le a _ (Nat.le_of_lt hp)]
    have hsuf := endsNL_drop_any ha (c.p + 1)
    cases hd : a.drop c.p with
    | nil =>
      have := congrArg List.length hd
      simp at this; omega
    | cons x rest =>
      have hrest : rest = a.drop (c.p + 1) := by
        rw [← List.drop_drop, hd]; rfl
      rw [← hrest] at hsuf
      simp only [List.cons_append]
      by_cases hx : x = '\n'
      · subst hx
        simp only
        rw [closeLines_lines_append hf hsuf]
        cases hc : closeLines fence 0 (lines rest) with
        | none => rfl
        | some v =>
          obtain ⟨cl, ll⟩ := v
          have hb := closeLines_bound _ _ _ _ _ hc
          rw [lines, total_splitC] at hb
          simp only
          rw [take_append_le rest _ (by omega)]
      · cases x <;> simp_all
  · have hp' : a.length ≤ c.p := by omega
    rw [List.drop_eq_nil_of_le hp', List.drop_append, List.drop_eq_nil_of_le hp', List.nil_append, nls_drop]
    cases hk : j - (c.p - a.length) with
    | zero => rfl
    | succ k =>
      rw [show nls (k + 1) = '\n' :: nls k from List.replicate_succ]
      simp only
      rw [lines_nls, closeLines_empties hf _ _ (fun l hl => List.eq_of_mem_replicate hl)]


/-! ### the opening line is matched inside the text -/

theorem startsWith_append_endsNL : ∀ (pat : Str), (∀ c ∈ pat, c ≠ '\n') → ∀ {f : Str}, EndsNL f → ∀ (w : Str),
    startsWith (f ++ w) pat = startsWith f pat
  | [], _, f, _, w => by cases f <;> cases w <;> rfl
  | p :: ps, hp, f, hf, w => by
    cases f with
    | nil => exact absurd rfl (endsNL_ne_nil hf)
    | cons c f' =>
      simp only [List.cons_append, startsWith]
      by_cases hc : c = p
      · have hcn : c ≠ '\n' := by rw [hc]; exact hp p (by simp)
        rw [startsWith_append_endsNL ps (fun d hd => hp d (by simp [hd])) (endsNL_cons_ne hf hcn) w]
      · simp [hc]

theorem startsWith_take {f pat : Str} (h : startsWith f pat = true) : f.take pat.length = pat := by
  have := startsWith_drop h
  conv => lhs; rw [this]
  simp

theorem endsNL_drop_pat {f pat : Str} (hp : ∀ c ∈ pat, c ≠ '\n') (hf : EndsNL f) (h : startsWith f pat = true) :
    EndsNL (f.drop pat.length) :=
  endsNL_drop hf _ (by rw [startsWith_take h]; exact hp)

theorem occs_nls (q : Char) (hq : q ≠ '\n') (off j : Nat) : occs q off (nls j) = [] := by
  induction j generalizing off with
  | zero => rfl
  | succ j ih =>
    rw [show nls (j + 1) = '\n' :: nls j from List.replicate_succ]
    simp only [occs, Ne.symm hq, if_false]
    exact ih _

theorem occs_append_nls (q : Char) (hq : q ≠ '\n') (off : Nat) (g : Str) (j : Nat) :
    occs q off (g ++ nls j) = occs q off g := by
  induction g generalizing off with
  | nil => simp [occs_nls q hq, occs]
  | cons c r ih =>
    simp only [List.cons_append, occs]
    split <;> rw [ih]

theorem mem_occs {q : Char} {g : Str} {off i : Nat} (h : i ∈ occs q off g) : off ≤ i ∧ g[i - off]? = some q := by
  induction g generalizing off with
  | nil => simp [occs] at h
  | cons c r ih =>
    simp only [occs] at h
    split at h
    · rename_i hc
      rcases List.mem_cons.1 h with rfl | h'
      · simp [hc]
      · obtain ⟨a, b⟩ := ih h'
        refine ⟨by omega, ?_⟩
        have : i - off = (i - (off + 1)) + 1 := by omega
        rw [this]; simpa using b
    · obtain ⟨a, b⟩ := ih h
      refine ⟨by omega, ?_⟩
      have : i - off = (i - (off + 1)) + 1 := by omega
      rw [this]; simpa using b

theorem isSp_nl : isSp '\n' = false := by decide

/-- behind an occurrence of a quote, the text still ends in its line feed -/
theorem endsNL_after_occ {q : Char} (hq : q ≠ '\n') {g : Str} (hg : EndsNL g) {i : Nat} (hi : g[i]? = some q) :
    i + 1 ≤ g.length ∧ EndsNL (g.drop (i + 1)) := by
  obtain ⟨g0, rfl⟩ := hg
  have hlt : i < g0.length := by
    by_cases h : i < g0.length
    · exact h
    · exfalso
      have hi' := hi
      rw [List.getElem?_append_right (by omega)] at hi'
      cases hk : i - g0.length with
      | zero => rw [hk] at hi'; simp at hi'; exact hq hi'.symm
      | succ k => rw [hk] at hi'; simp at hi'
  refine ⟨by simp; omega, g0.drop (i + 1), ?_⟩
  rw [List.drop_append_of_le_length (by omega)]

theorem hlCands_suffix {f : Str} (hf : EndsNL f) (base j : Nat) : hlCands (f ++ nls j) base = hlCands f base := by
  unfold hlCands
  have hpat : ∀ c ∈ "hl_lines=".toList, c ≠ '\n' := by decide
  rw [startsWith_append_endsNL _ hpat hf]
  by_cases hs : startsWith f "hl_lines=".toList = true
  · simp only [hs, if_true]
    have hlen : 9 ≤ f.length := startsWith_length_le hs
    have hd : EndsNL (f.drop 9) := endsNL_drop_pat hpat hf hs
    rw [drop_append_le f _ hlen]
    cases hfd : f.drop 9 with
    | nil => rw [hfd] at hd; exact absurd rfl (endsNL_ne_nil hd)
    | cons q g =>
      rw [hfd] at hd
      simp only [List.cons_append]
      by_cases hq : (q = '"' || q = '\'') = true
      · simp only [hq, if_true]
        have hqn : q ≠ '\n' := by
          simp only [Bool.or_eq_true, decide_eq_true_eq] at hq
          rcases hq with rfl | rfl <;> decide
        have hg : EndsNL g := endsNL_cons_ne hd hqn
        rw [occs_append_nls q hqn]
        congr 1
        apply flatMap_congr'
        intro i hi
        obtain ⟨_, hgi⟩ := mem_occs hi
        simp only [Nat.sub_zero] at hgi
        obtain ⟨hle, hend⟩ := endsNL_after_occ hqn hg hgi
        rw [drop_append_le g _ hle, spanLen_endsNL isSp isSp_nl hend, take_append_le g _ (by omega)]
      · simp only [hq, Bool.false_eq_true, if_false]
  · simp only [hs, Bool.false_eq_true, if_false]


theorem endsNL_drop_span (p : Char → Bool) (hp : p '\n' = false) {a : Str} (ha : EndsNL a) {k : Nat}
    (hk : k ≤ spanLen p a) : k ≤ a.length ∧ EndsNL (a.drop k) :=
  ⟨Nat.le_trans hk (Py.spanLen_le p a), endsNL_drop ha k (spanLen_take_ne_nl p hp a k hk)⟩

theorem langCands_suffix {b : Str} (hb : EndsNL b) (base j : Nat) :
    langCands (b ++ nls j) base = langCands b base := by
  unfold langCands
  rw [startsWith_append_endsNL ['.'] (by decide) hb, hlCands_suffix hb]
  congr 1
  apply flatMap_congr'
  intro d hd
  -- `b.drop d` still ends in the line feed
  have hd' : d ≤ b.length ∧ EndsNL (b.drop d) := by
    by_cases hs : startsWith b ['.'] = true
    · simp only [hs, if_true, List.mem_cons, List.not_mem_nil, or_false] at hd
      rcases hd with rfl | rfl
      · cases b with
        | nil => exact absurd rfl (endsNL_ne_nil hb)
        | cons c r =>
          have hc : c = '.' := by simpa [startsWith] using hs
          subst hc
          exact ⟨by simp, endsNL_cons_ne hb (by decide)⟩
      · exact ⟨Nat.zero_le _, hb⟩
    · simp only [hs, Bool.false_eq_true, if_false, List.mem_cons, List.not_mem_nil, or_false] at hd
      subst hd
      exact ⟨Nat.zero_le _, hb⟩
  obtain ⟨hdl, hbd⟩ := hd'
  rw [drop_append_le b _ hdl, spanLen_endsNL isLangChar isLangChar_nl hbd]
  apply flatMap_congr'
  intro l hl
  obtain ⟨hll, hbl⟩ := endsNL_drop_span isLangChar isLangChar_nl hbd (mem_descTo.1 hl)
  have e1 : (b ++ nls j).drop (d + l) = (b.drop d).drop l ++ nls j := by
    rw [← List.drop_drop, drop_append_le b _ hdl, drop_append_le _ _ hll]
  have e2 : b.drop (d + l) = (b.drop d).drop l := by rw [List.drop_drop]
  rw [e1, e2, spanLen_endsNL isSp isSp_nl hbl]
  apply flatMap_congr'
  intro s2 hs2
  obtain ⟨hsl, hbs⟩ := endsNL_drop_span isSp isSp_nl hbl (mem_descTo.1 hs2)
  have e3 : (b ++ nls j).drop (d + l + s2) = ((b.drop d).drop l).drop s2 ++ nls j := by
    rw [← List.drop_drop, e1, drop_append_le _ _ hsl]
  have e4 : b.drop (d + l + s2) = ((b.drop d).drop l).drop s2 := by rw [← List.drop_drop, e2]
  rw [e3, e4, hlCands_suffix hbs, take_append_le _ _ hll]

theorem takeWhile_append_stop (p : Char → Bool) {a : Str} (h : ∃ c ∈ a, p c = false) (w : Str) :
    (a ++ w).takeWhile p = a.takeWhile p := by
  induction a with
  | nil => obtain ⟨c, hc, _⟩ := h; cases hc
  | cons d r ih =>
    simp only [List.cons_append, List.takeWhile_cons]
    by_cases hd : p d = true
    · simp only [hd, if_true]
      obtain ⟨c, hc, hpc⟩ := h
      rcases List.mem_cons.1 hc with rfl | hc'
      · rw [hd] at hpc; cases hpc
      · rw [ih ⟨c, hc', hpc⟩]
    · simp [hd]

theorem attrCands_suffix {b : Str} (hb : EndsNL b) (base j : Nat) :
    attrCands (b ++ nls j) base = attrCands b base := by
  cases b with
  | nil => exact absurd rfl (endsNL_ne_nil hb)
  | cons c r =>
    by_cases hc : c = '{'
    · subst hc
      have hr : EndsNL r := endsNL_cons_ne hb (by decide)
      simp only [List.cons_append, attrCands]
      rw [takeWhile_append_stop _ ⟨'\n', endsNL_mem hr, by simp⟩]
    · simp only [List.cons_append]
      unfold attrCands
      split
      · rename_i h; simp at h; exact absurd h.1 hc
      · split
        · rename_i h; simp at h; exact absurd h.1 hc
        · rfl

theorem openCands_suffix {a : Str} (ha : EndsNL a) (j : Nat) : openCands (a ++ nls j) = openCands a := by
  unfold openCands
  rw [spanLen_endsNL isSp isSp_nl ha]
  apply flatMap_congr'
  intro k hk
  obtain ⟨hkl, hak⟩ := endsNL_drop_span isSp isSp_nl ha (mem_descTo.1 hk)
  rw [drop_append_le a _ hkl, attrCands_suffix hak, langCands_suffix hak]

/-! ### the match attempt at a line start -/

theorem fenceRun_suffix {s : Str} (hs : EndsNL s) (w : Str) : fenceRun (s ++ w) = fenceRun s := by
  cases s with
  | nil => exact absurd rfl (endsNL_ne_nil hs)
  | cons c r =>
    simp only [List.cons_append]
    unfold fenceRun
    have hm : '\n' ∈ c :: r := endsNL_mem hs
    split
    · rename_i h; simp only [List.cons.injEq] at h; obtain ⟨rfl, rfl⟩ := h
      have := spanLen_append_stop (· = '~') (a := '~' :: r) ⟨'\n', hm, by simp⟩ w
      simpa using this
    · rename_i h; simp only [List.cons.injEq] at h; obtain ⟨rfl, rfl⟩ := h
      have := spanLen_append_stop (· = '`') (a := '`' :: r) ⟨'\n', hm, by simp⟩ w
      simpa using this
    · rename_i h1 h2
      split
      · rename_i h; simp only [List.cons.injEq] at h; exact (h1 (r ++ w) (by rw [h.1])).elim
      · rename_i h; simp only [List.cons.injEq] at h; exact (h2 (r ++ w) (by rw [h.1])).elim
      · rfl

theorem fenceRun_take_ne_nl (s : Str) : ∀ c ∈ s.take (fenceRun s), c ≠ '\n' := by
  unfold fenceRun
  split
  · exact spanLen_take_ne_nl (· = '~') (by simp) _ _ (Nat.le_refl _)
  · exact spanLen_take_ne_nl (· = '`') (by simp) _ _ (Nat.le_refl _)
  · intro c hc; simp at hc

theorem fenceAt_suffix {s : Str} (hs : EndsNL s) (j : Nat) : fenceAt (s ++ nls j) = fenceAt s := by
  unfold fenceAt
  simp only [fenceRun_suffix hs]
  by_cases hn : fenceRun s < 3
  · simp [hn]
  · simp only [hn, if_false]
    have hle : fenceRun s ≤ s.length := Fenced.fenceRun_le s
    have ha : EndsNL (s.drop (fenceRun s)) := endsNL_drop hs _ (fenceRun_take_ne_nl s)
    rw [drop_append_le s _ hle, take_append_le s _ hle, openCands_suffix ha]
    have hf : s.take (fenceRun s) ≠ [] := by
      intro e
      have := congrArg List.length e
      simp at this
      have hne := endsNL_ne_nil hs
      cases s with
      | nil => exact hne rfl
      | cons c r => simp at this; omega
    apply findSome_congr'
    intro c _
    exact tryCand_suffix _ hf (Or.inr ha) c j


/-! ### the search -/

theorem fenceAt_cons_nl (r : Str) : fenceAt ('\n' :: r) = none := by
  simp [fenceAt, fenceRun]

theorem fenceScan_nls (bol : Bool) (off j : Nat) : fenceScan bol off (nls j) = none := by
  induction j generalizing bol off with
  | zero => rfl
  | succ j ih =>
    rw [show nls (j + 1) = '\n' :: nls j from List.replicate_succ]
    simp only [fenceScan, fenceAt_cons_nl]
    cases bol <;> simp [ih]

theorem fenceScan_suffix : ∀ (s : Str), (s = [] ∨ EndsNL s) → ∀ (bol : Bool) (off j : Nat),
    fenceScan bol off (s ++ nls j) = fenceScan bol off s
  | [], _, bol, off, j => by rw [List.nil_append, fenceScan_nls]; rfl
  | c :: r, hs, bol, off, j => by
    have hs' : EndsNL (c :: r) := by
      rcases hs with h | h
      · cases h
      · exact h
    have ih := fenceScan_suffix r (endsNL_tail hs') (c = '\n') (off + 1) j
    have ha := fenceAt_suffix hs' j
    simp only [List.cons_append] at ha ⊢
    simp only [fenceScan, ha, ih]

theorem fenceFindFrom_suffix {t : Str} (ht : EndsNL t) (i j : Nat) :
    fenceFindFrom (t ++ nls j) i = fenceFindFrom t i := by
  unfold fenceFindFrom
  by_cases hi : i ≤ t.length
  · rw [drop_append_le t _ hi, fenceScan_suffix _ (endsNL_drop_any (Or.inr ht) i)]
    by_cases h0 : i = 0
    · subst h0; simp
    · have : (t ++ nls j)[i - 1]? = t[i - 1]? := List.getElem?_append_left (by omega)
      rw [this]
  · have hi' : t.length ≤ i := by omega
    rw [List.drop_append, List.drop_eq_nil_of_le hi', List.nil_append, nls_drop, fenceScan_nls]
    rfl

/-! ### the loop of the preprocessor -/

/-- the result with `w` put behind the text -/
def appendTo (w : Str) : RunResult → RunResult
  | .ok t s => .ok (t ++ w) s
  | r => r

/-- a block replaced by its placeholder: the new text, cut behind the block, with the line feeds behind it -/
theorem replaced_suffix (t w : Str) (m : FenceMatch) (hstop : m.stop ≤ t.length) (hstart : m.start ≤ t.length)
    (ph : Str) :
    (t ++ w).take m.start ++ '\n' :: (ph ++ '\n' :: (t ++ w).drop m.stop) =
      (t.take m.start ++ '\n' :: (ph ++ '\n' :: t.drop m.stop)) ++ w := by
  rw [take_append_le t _ hstart, drop_append_le t _ hstop]
  simp

theorem replaced_endsNL {t : Str} (ht : EndsNL t) (a b : Nat) (ph : Str) :
    EndsNL (t.take a ++ '\n' :: (ph ++ '\n' :: t.drop b)) := by
  rcases endsNL_drop_any (Or.inr ht) b with h | ⟨s0, h⟩
  · rw [h]; exact ⟨t.take a ++ '\n' :: ph, by simp⟩
  · rw [h]; exact ⟨t.take a ++ '\n' :: (ph ++ '\n' :: s0), by simp⟩


/-! ### the fence of a match lies before its end -/

theorem tryCand_fence (n : Nat) (fence a : Str) (c : Cand) (m : FenceMatch)
    (h : tryCand n fence a c = some m) : m.fence = fence ∧ n + 1 ≤ m.stop := by
  unfold tryCand at h
  split at h
  · split at h
    · simp only [Option.some.injEq] at h
      subst h
      exact ⟨rfl, by dsimp only; omega⟩
    · simp at h
  · simp at h

theorem fenceAt_fence (s : Str) (m : FenceMatch) (h : fenceAt s = some m) : m.fence.length + 1 ≤ m.stop := by
  unfold fenceAt at h
  simp only at h
  split at h
  · simp at h
  · obtain ⟨c, _, hc⟩ := List.exists_of_findSome?_eq_some h
    obtain ⟨hf, hs⟩ := tryCand_fence _ _ _ _ _ hc
    rw [hf, List.length_take]
    omega

theorem fenceScan_fence (bol : Bool) (off : Nat) (s : Str) (m : FenceMatch)
    (h : fenceScan bol off s = some m) : m.start + m.fence.length + 1 ≤ m.stop := by
  induction s generalizing bol off with
  | nil => simp [fenceScan] at h
  | cons c r ih =>
    simp only [fenceScan] at h
    split at h
    · rename_i m0 hm0
      simp only [Option.some.injEq] at h
      subst h
      have : fenceAt (c :: r) = some m0 := by
        split at hm0
        · exact hm0
        · simp at hm0
      have hb := fenceAt_fence _ _ this
      dsimp only
      omega
    · exact ih _ _ h

theorem fenceFindFrom_fence (text : Str) (index : Nat) (m : FenceMatch)
    (h : fenceFindFrom text index = some m) : m.start + m.fence.length + 1 ≤ m.stop :=
  fenceScan_fence _ _ _ _ h

theorem attrsEnd_suffix {t : Str} (ht : EndsNL t) (w : Str) (m : FenceMatch) (a : Str)
    (hlt : m.start + m.fence.length < t.length) : attrsEnd (t ++ w) m a = attrsEnd t m a := by
  unfold attrsEnd
  rw [drop_append_le t _ (Nat.le_of_lt hlt)]
  have hd : EndsNL (t.drop (m.start + m.fence.length)) := by
    rcases endsNL_drop_any (Or.inr ht) (m.start + m.fence.length) with h | h
    · have := congrArg List.length h
      simp at this; omega
    · exact h
  rw [spanLen_endsNL isSp isSp_nl hd]

theorem fencedLoopA_suffix (fuel : Nat) : ∀ {t : Str}, EndsNL t → ∀ (i : Nat) (st : List Str) (j : Nat),
    fencedLoopA fuel (t ++ nls j) i st = appendTo (nls j) (fencedLoopA fuel t i st) := by
  induction fuel with
  | zero => intro t _ i st j; rfl
  | succ f ih =>
    intro t ht i st j
    simp only [fencedLoopA, fenceFindFrom_suffix ht]
    cases hm : fenceFindFrom t i with
    | none => rfl
    | some m =>
      have hb := fenceFindFrom_bounds _ _ _ hm
      have hfe := fenceFindFrom_fence _ _ _ hm
      simp only
      rw [replaced_suffix t (nls j) m hb.2.2 (by omega),
        attrsEnd_suffix ht (nls j) m _ (by omega)]
      have hnext := ih (replaced_endsNL ht m.start m.stop (placeholder st.length))
      split
      · exact hnext _ _ _
      · split
        · exact ih ht _ _ _
        · exact hnext _ _ _

theorem fencedHasConfig_suffix (fuel : Nat) : ∀ {t : Str}, EndsNL t → ∀ (i k j : Nat),
    PipelineX.fencedHasConfig fuel (t ++ nls j) i k = PipelineX.fencedHasConfig fuel t i k := by
  induction fuel with
  | zero => intro t _ i k j; rfl
  | succ f ih =>
    intro t ht i k j
    simp only [PipelineX.fencedHasConfig, fenceFindFrom_suffix ht]
    cases hm : fenceFindFrom t i with
    | none => rfl
    | some m =>
      have hb := fenceFindFrom_bounds _ _ _ hm
      have hfe := fenceFindFrom_fence _ _ _ hm
      simp only
      rw [replaced_suffix t (nls j) m hb.2.2 (by omega),
        attrsEnd_suffix ht (nls j) m _ (by omega)]
      rw [ih (replaced_endsNL ht m.start m.stop (placeholder k)), ih ht]

/-- **the fenced-code preprocessor on a text with more line feeds behind its final line feed** -/
theorem fencedRunA_suffix {t : Str} (ht : EndsNL t) (j : Nat) :
    fencedRunA (t ++ nls j) = appendTo (nls j) (fencedRunA t) := by
  unfold fencedRunA
  rw [fencedLoopA_suffix _ ht]
  rw [(fencedLoopA_stable ((t ++ nls j).length + 1) (t.length + 1) t 0 [] (by simp; omega) (by omega)).1]

theorem fencedHasConfig_suffix0 {t : Str} (ht : EndsNL t) (j : Nat) :
    PipelineX.fencedHasConfig ((t ++ nls j).length + 1) (t ++ nls j) 0 0 =
      PipelineX.fencedHasConfig (t.length + 1) t 0 0 := by
  rw [fencedHasConfig_suffix _ ht]
  exact fencedHasConfig_stable _ _ _ _ _ (by simp; omega) (by omega)


/-! ### the output of the preprocessor ends as its input does -/

theorem fencedLoopA_endsNL (fuel : Nat) : ∀ {t : Str}, EndsNL t → ∀ (i : Nat) (st : List Str) (t' : Str)
    (s : List Str), fencedLoopA fuel t i st = .ok t' s → EndsNL t' := by
  induction fuel with
  | zero => intro t _ i st t' s h; simp [fencedLoopA] at h
  | succ f ih =>
    intro t ht i st t' s h
    simp only [fencedLoopA] at h
    split at h
    · simp only [RunResult.ok.injEq] at h; rw [← h.1]; exact ht
    · rename_i m _
      have hnext := ih (replaced_endsNL ht m.start m.stop (placeholder st.length))
      split at h
      · exact hnext _ _ _ _ h
      · split at h
        · exact ih ht _ _ _ _ h
        · exact hnext _ _ _ _ h

theorem fencedRunA_ok (t : Str) : ∃ t' s, fencedRunA t = .ok t' s := by
  have h := fencedLoopA_stable (t.length + 1) (t.length + 1) t 0 [] (by omega) (by omega)
  unfold fencedRunA
  cases hr : fencedLoopA (t.length + 1) t 0 [] with
  | ok t' s => exact ⟨t', s, rfl⟩
  | ood => exact absurd hr h.2.2
  | fuel => exact absurd hr h.2.1

/-- a text that ends in a blank line: so does the output, and more line feeds behind the input are more line feeds
    behind the output -/
theorem fencedRunA_trailing (T0 : Str) (j : Nat) :
    ∃ O s, fencedRunA (T0 ++ NormDoc.nn) = .ok (O ++ NormDoc.nn) s ∧
      fencedRunA (T0 ++ NormDoc.nn ++ nls j) = .ok (O ++ NormDoc.nn ++ nls j) s := by
  have h1 : EndsNL (T0 ++ ['\n']) := ⟨T0, rfl⟩
  obtain ⟨t1, s, hr⟩ := fencedRunA_ok (T0 ++ ['\n'])
  have he : EndsNL t1 := by
    unfold fencedRunA at hr
    exact fencedLoopA_endsNL _ h1 _ _ _ _ hr
  obtain ⟨O, rfl⟩ := he
  have e1 : T0 ++ NormDoc.nn = (T0 ++ ['\n']) ++ nls 1 := by simp [NormDoc.nn, nls]
  have e3 : nls (j + 1) = '\n' :: nls j := List.replicate_succ
  have e2 : T0 ++ NormDoc.nn ++ nls j = (T0 ++ ['\n']) ++ nls (j + 1) := by
    rw [e3]; simp [NormDoc.nn]
  refine ⟨O, s, ?_, ?_⟩
  · rw [e1, fencedRunA_suffix h1, hr]; simp [appendTo, NormDoc.nn, nls]
  · rw [e2, fencedRunA_suffix h1, hr, e3]; simp [appendTo, NormDoc.nn]


/-! ### the preprocessors and the conversion, fenced_code included -/

open PipelineX NormDoc

theorem nn_eq : nn = ['\n', '\n'] := rfl

/-- **the text handed to the block parser**, without and with `m` more line feeds behind the source: either both runs
    of the preprocessors give a common part `O` followed by the blank line, resp. by the blank line and `j` more line
    feeds, with the same stash — or both give the same answer other than `ok` -/
theorem prepareX_trailing (x : Exts) (cfg : Pipeline.Cfg) (s : Str) (m : Nat) :
    (∃ O j stash, prepareX x cfg s = .ok (O ++ nn, stash) ∧
      prepareX x cfg (s ++ List.replicate m '\n') = .ok (O ++ nn ++ List.replicate j '\n', stash)) ∨
    ((∀ ts, prepareX x cfg s ≠ .ok ts) ∧ prepareX x cfg (s ++ List.replicate m '\n') = prepareX x cfg s) := by
  obtain ⟨j, hj⟩ := normalize_trailing_any cfg.tab s m
  obtain ⟨X, hX⟩ := normalize_ends_nn cfg.tab s
  have hend : EndsNL (X ++ nn) := ⟨X ++ ['\n'], by simp [nn_eq]⟩
  -- the raw-HTML preprocessor behind a text `O ++ blank line (++ line feeds)`
  have hext : ∀ O : Str, ∃ Oe, Extract.extract (O ++ nn) = Oe ++ nn ∧
      Extract.extract (O ++ nn ++ List.replicate j '\n') = Oe ++ nn ++ List.replicate j '\n' := by
    intro O
    obtain ⟨Oe, hOe⟩ := extract_nl O
    refine ⟨Oe, ?_, ?_⟩
    · have := hOe ['\n'] (goodTail_replicate_nl 1)
      simpa [nn_eq] using this
    · have := hOe (List.replicate (j + 1) '\n') (goodTail_replicate_nl _)
      have e : O ++ nn ++ List.replicate j '\n' = O ++ '\n' :: List.replicate (j + 1) '\n' := by
        simp [nn_eq, List.replicate_succ]
      rw [e, this]
      simp [nn_eq, List.replicate_succ]
  unfold prepareX
  simp only [hj, admNonAscii_append_nl, hX]
  by_cases hadm : (x.admonition && admNonAscii (X ++ nn)) = true
  · right
    simp only [hadm, if_true]
    exact ⟨fun ts h => (by cases h), trivial⟩
  · simp only [hadm, Bool.false_eq_true, if_false]
    by_cases hf : x.fencedCode = true
    · simp only [hf, if_true]
      have hc := fencedHasConfig_suffix0 hend j
      simp only [nls] at hc
      rw [hc]
      by_cases hcfg : (x.attrList && fencedHasConfig ((X ++ nn).length + 1) (X ++ nn) 0 0) = true
      · right
        simp only [hcfg, if_true]
        exact ⟨fun ts h => (by cases h), trivial⟩
      · simp only [hcfg, Bool.false_eq_true, if_false]
        obtain ⟨O, st, h1, h2⟩ := fencedRunA_trailing X j
        simp only [nls] at h2
        rw [h1, h2]
        obtain ⟨Oe, e1, e2⟩ := hext O
        left
        exact ⟨Oe, j, st, by simp only [e1], by simp only [e2]⟩
    · simp only [hf, Bool.false_eq_true, if_false]
      obtain ⟨Oe, e1, e2⟩ := hext X
      left
      exact ⟨Oe, j, [], by rw [e1], by rw [e2]⟩

/-- **blank lines behind a document that does not end in a code block**: the same tree, for every flag set -/
theorem treeX_trailing_noCode' (x : Exts) (cfg : Pipeline.Cfg) (htab : x.admonition = true → 0 < cfg.tab) (s : Str)
    (m : Nat)
    (h : ∀ text stash root log, prepareX x cfg s = .ok (text, stash) →
      BlockExt.parseDocumentXT x.tables x.blockCfg cfg.tab text = some (root, log) → noCodeLast root) :
    treeX x cfg (s ++ List.replicate m '\n') = treeX x cfg s := by
  rcases prepareX_trailing x cfg s m with ⟨O, j, stash, h1, h2⟩ | ⟨_, h2⟩
  · have ht := parseDocumentXT_trailing_noCode x.tables x.blockCfg cfg.tab htab O j
      (fun root log hp => h _ _ root log h1 hp)
    unfold treeX
    rw [h1, h2]
    simp only [ht]
  · unfold treeX
    rw [h2]

theorem convertX_trailing_noCode' (x : Exts) (cfg : Pipeline.Cfg) (htab : x.admonition = true → 0 < cfg.tab)
    (s : Str) (m : Nat)
    (h : ∀ text stash root log, prepareX x cfg s = .ok (text, stash) →
      BlockExt.parseDocumentXT x.tables x.blockCfg cfg.tab text = some (root, log) → noCodeLast root) :
    convertX x cfg (s ++ List.replicate m '\n') = convertX x cfg s := by
  simp only [convertX, trailing_contains, trailing_isBlankDoc, treeX_trailing_noCode' x cfg htab s m h]

end MdVerif.C09X
