/-
Helper lemmas for `Props/C16Render.lean`, part 3: the table tree through the inline processor (every node is settled:
`Lemmas/TableRender2.lean`), the tree processors, the serializer and the end of `convert`.  Core Lean only.
-/
import MdVerif.Model.PipelineX
import MdVerif.Lemmas.TableRender1
import MdVerif.Lemmas.TableRender2
import MdVerif.Lemmas.TableRender4
import MdVerif.Lemmas.InlineRef
import MdVerif.Lemmas.InlineRefForms
import MdVerif.Lemmas.PipelineX

namespace MdVerif.TableDoc
open Py Tables Inline Settled InlineRef

/-! ### plain cell texts and the inline processor -/

theorem plainText_of_cellCh {t : Str} (h : t.all cellCh = true) : PlainText t = true := h

/-- `__handleInline` on plain text: no pattern matches -/
theorem handleInlineTop_plain (cfg : Inline.Cfg) (t : Str) (st : St) (h : PlainText t = true) :
    handleInlineTop cfg t st = some (t, st) := by
  obtain ⟨q1, q2⟩ := plain_quiet01 h
  obtain ⟨g, hg⟩ : ∃ g, loopFuel t.length = g + 2 := ⟨loopFuel t.length - 2, by have := loopFuel_ge t.length; omega⟩
  have hg' : 15 ≤ g := by have := loopFuel_ge t.length; omega
  unfold handleInlineTop depthFuel
  rw [show handleInline cfg (t.length + 20) t 0 st =
    hiLoop (applyPattern cfg fun d p s => handleInline cfg (t.length + 19) d p s) (loopFuel t.length) t 0 0 st from rfl,
    hg, hiLoop_none_step cfg _ _ _ 0 0 st (by omega) (findMatch0_none cfg _ st q1),
    hiLoop_none_step cfg _ _ _ 1 0 st (by omega) (findMatch1_none cfg _ st q2)]
  exact hiLoop_quiet cfg _ _ st (plain_quiet h) 14 2 g rfl (by omega) (by omega)

/-- an element without text and tail: nothing to do -/
theorem visitId_inert (cfg : Inline.Cfg) (st : St) (n : Node) (h1 : Node.truthy n.text = false)
    (h2 : Node.truthy n.tail = false) : VisitId cfg st n := by
  intro v _
  simp only [visitChild, h1, h2, Bool.false_and, Bool.false_eq_true, if_false, List.length_nil, List.range_zero,
    List.map_nil, List.reverse_nil, List.nil_append]
  cases n
  simp

/-- a leaf element with a plain text and no tail: the text goes through the patterns and comes back -/
theorem visitId_textLeaf (cfg : Inline.Cfg) (st : St) (n : Node) (t : Str) (ht : n.text = some t)
    (hp : PlainText t = true) (hta : n.textAtomic = false) (htl : n.tail = none) (hc : n.children = []) :
    VisitId cfg st n := by
  obtain ⟨tag, attrs, text, ta, children, tail, tla⟩ := n
  simp only at ht hta htl hc
  subst ht hta htl hc
  cases t with
  | nil => exact visitId_inert cfg st _ rfl rfl
  | cons x y =>
    intro v hv
    subst hv
    have h1 := handleInlineTop_plain cfg (x :: y) v.st hp
    have h2 := processPlaceholders_plain v.st.stash (v.st.stash.length + 1) (x :: y)
      ⟨tag, attrs, none, false, [], none, tla⟩ (plain_no_stx hp) (by simp) rfl
    simp only [visitChild, Node.truthy, Bool.not_false, Bool.and_self, if_true, Option.getD_some, h1, ppTop, h2]
    simp []


/-! ### the table tree is settled -/

open BlockExt in
theorem settled_cell (cfg : Inline.Cfg) (st : St) (tag : String) (t : Str) (a : Al) (h : PlainText t = true) :
    Settled cfg st (cellNode tag t a) :=
  .mk _ (visitId_textLeaf cfg st _ t rfl h rfl rfl rfl) (by intro c hc; simp [cellNode, Node.el] at hc)

open BlockExt in
theorem settled_zipCells (cfg : Inline.Cfg) (st : St) (tag : String) :
    ∀ (ts : List Str) (as : List Al), (∀ t ∈ ts, PlainText t = true) → ∀ c ∈ zipCells tag ts as, Settled cfg st c
  | [], _, _ => by intro c hc; simp [zipCells] at hc
  | _ :: _, [], _ => by intro c hc; simp [zipCells] at hc
  | t :: ts, a :: as, h => by
    intro c hc
    simp only [zipCells, List.mem_cons] at hc
    rcases hc with rfl | hc
    · exact settled_cell cfg st tag t a (h t (by simp))
    · exact settled_zipCells cfg st tag ts as (fun x hx => h x (by simp [hx])) c hc

theorem settled_container (cfg : Inline.Cfg) (st : St) (tag : String) (kids : List Node)
    (h : ∀ c ∈ kids, Settled cfg st c) : Settled cfg st { Node.el tag with children := kids } :=
  .mk _ (visitId_inert cfg st _ rfl rfl) h

theorem fit_plain (n : Nat) (r : List Str) (h : ∀ t ∈ r, PlainText t = true) : ∀ t ∈ fit n r, PlainText t = true := by
  intro t ht
  simp only [fit, List.mem_map, List.mem_range] at ht
  obtain ⟨i, _, rfl⟩ := ht
  rw [List.getD_eq_getElem?_getD]
  cases hi : r[i]? with
  | none => rfl
  | some c => exact h c (List.mem_of_getElem? hi)

theorem cellOK_plainText {c : Str} (h : CellOK c = true) : PlainText c = true := (cellOK_facts h).1

theorem rowOK_cells {border : Bool} {r : List Str} (h : RowOK border r = true) : ∀ c ∈ r, CellOK c = true := by
  simp only [RowOK, Bool.and_eq_true, List.all_eq_true] at h
  exact h.1.2

open BlockExt in
/-- every element of the tree the block parser builds for a printed table is settled -/
theorem settled_tableTree (cfg : Inline.Cfg) (st : St) {header : List Str} {aligns : List Al}
    {rows : List (List Str)} {border : Bool} (h : TableOK header aligns rows border = true) :
    KidsSettled cfg st ((Node.el "div").append (tableNode (tableOf header aligns rows))) := by
  obtain ⟨_, hh, _, hr⟩ := tableOK_facts h
  intro c hc
  simp only [Node.append, Node.el, List.nil_append, List.mem_singleton] at hc
  subst hc
  unfold tableNode
  apply settled_container
  intro c hc
  simp only [List.mem_cons, List.not_mem_nil, or_false] at hc
  rcases hc with rfl | rfl
  · apply settled_container
    intro c hc
    simp only [List.mem_singleton] at hc; subst hc
    apply settled_container
    exact settled_zipCells cfg st "th" _ _ (fun t ht => cellOK_plainText (rowOK_cells hh t ht))
  · apply settled_container
    intro c hc
    simp only [tableOf, List.mem_map] at hc
    obtain ⟨cells, hcells, rfl⟩ := hc
    unfold bodyRow
    split
    · apply settled_container
      apply settled_zipCells
      intro t ht
      -- the cells of a body row are cells of the printed row or empty
      split at hcells
      · simp only [List.mem_singleton] at hcells; subst hcells
        simp only [List.map_replicate, List.mem_replicate] at ht
        rw [ht.2]; rfl
      · simp only [List.mem_map] at hcells
        obtain ⟨r, hrm, rfl⟩ := hcells
        simp only [List.map_map, List.mem_map, Function.comp, Option.getD_some] at ht
        obtain ⟨x, hx, rfl⟩ := ht
        exact fit_plain _ r (fun t ht => cellOK_plainText (rowOK_cells (hr r hrm) t ht)) x hx
    · apply settled_container
      intro c hc
      simp only [List.mem_map] at hc
      obtain ⟨_, _, rfl⟩ := hc
      exact .mk _ (visitId_inert cfg st _ rfl rfl) (by intro c hc; simp [Node.el] at hc)


/-! ### front end: preprocessors, block splitter, block parser -/

/-- the lines of the printed table -/
def tableLines (header : List Str) (aligns : List Al) (rows : List (List Str)) (border : Bool) : List Str :=
  printRow border header :: printRow border (aligns.map sepCell) :: rows.map (printRow border)

theorem tableLines_rows {header : List Str} {aligns : List Al} {rows : List (List Str)} {border : Bool}
    (h : TableOK header aligns rows border = true) :
    ∀ l ∈ tableLines header aligns rows border, ∃ r, LineRow border r ∧ l = printRow border r ∧
      (∀ c ∈ r, c.all docCh = true) := by
  obtain ⟨hlen, hh, _, hr⟩ := tableOK_facts h
  have hhl := lineRow_of_rowOK hh
  have hane : aligns ≠ [] := by
    intro e; have := hhl.ne; rw [e] at hlen; exact this (List.length_eq_zero_iff.mp hlen)
  have hcell : ∀ c, CellOK c = true → c.all docCh = true := fun c hc => plain_docCh (cellOK_plainText hc)
  intro l hl
  simp only [tableLines, List.mem_cons, List.mem_map] at hl
  rcases hl with rfl | rfl | ⟨r, hrm, rfl⟩
  · exact ⟨header, hhl, rfl, fun c hc => hcell c (rowOK_cells hh c hc)⟩
  · refine ⟨_, lineRow_sep border hane, rfl, ?_⟩
    intro c hc
    simp only [List.mem_map] at hc
    obtain ⟨a, _, rfl⟩ := hc
    rcases a with _ | _ | _ | _ <;> decide
  · exact ⟨r, lineRow_of_rowOK (hr r hrm), rfl, fun c hc => hcell c (rowOK_cells (hr r hrm) c hc)⟩

theorem docCh_line {border : Bool} {r : List Str} (hc : ∀ c ∈ r, c.all docCh = true) :
    (printRow border r).all docCh = true := by
  have hp : ∀ p ∈ pieces border r, p.all docCh = true := by
    have key : ∀ (ps cs : List Str), All₂ Padded ps cs → (∀ c ∈ cs, c.all docCh = true) →
        ∀ p ∈ ps, p.all docCh = true := by
      intro ps cs hpc
      induction hpc with
      | nil => intro _ p hp; simp at hp
      | cons h0 _ ih =>
        intro hc p hp
        simp only [List.mem_cons] at hp
        rcases hp with rfl | hp
        · obtain ⟨i, j, rfl⟩ := h0
          have hs : ∀ k, (spaces k).all docCh = true := by
            intro k; simp only [spaces, List.all_eq_true]; intro x hx
            rw [(List.mem_replicate.mp hx).2]; decide
          simp only [List.all_append, hs, hc _ List.mem_cons_self, Bool.and_self]
        · exact ih (fun c hm => hc c (by simp [hm])) p hp
    exact key _ _ (padded_pieces border r) hc
  have hj : (joinPipe (pieces border r)).all docCh = true := by
    simp only [List.all_eq_true]
    intro x hx
    rcases mem_joinPipe hx with e | ⟨p, hp', hxp⟩
    · rw [e]; decide
    · exact List.all_eq_true.mp (hp p hp') x hxp
  cases border with
  | true => simp only [printRow, if_true, List.all_cons, List.all_append, hj, List.all_nil, Bool.and_true]; decide
  | false => simpa [printRow] using hj

theorem docCh_joinLines (ls : List Str) (h : ∀ l ∈ ls, l.all docCh = true) : (joinLines ls).all docCh = true := by
  induction ls with
  | nil => rfl
  | cons a r ih =>
    cases r with
    | nil => simpa [Block.joinLines_single] using h a (by simp)
    | cons b r =>
      rw [Block.joinLines_cons_cons]
      simp only [List.all_append, List.all_cons, h a (by simp), ih (fun l hl => h l (by simp [hl])), Bool.true_and,
        Bool.and_true]
      decide

theorem noNN_lines (ls : List Str) (h : ∀ l ∈ ls, l ≠ [] ∧ l.all Block.notNl = true) :
    Block.noNN (joinLines ls) = true := by
  induction ls with
  | nil => rfl
  | cons a r ih =>
    cases r with
    | nil => exact Block.noNN_line a (h a (by simp)).2
    | cons b r =>
      rw [Block.joinLines_cons_cons]
      apply Block.noNN_line_nl _ _ (h a (by simp)).2 (ih (fun l hl => h l (by simp [hl])))
      obtain ⟨hb, hbn⟩ := h b (by simp)
      cases b with
      | nil => exact absurd rfl hb
      | cons x y =>
        have : x ≠ '\n' := by
          simp only [List.all_cons, Bool.and_eq_true] at hbn
          simpa [Block.notNl] using hbn.1
        cases r with
        | nil => simpa [Block.joinLines_single] using this
        | cons c r => rw [Block.joinLines_cons_cons]; simpa using this

theorem getLast_joinLines (ls : List Str) (hne : ls ≠ []) (h : ∀ l ∈ ls, l ≠ [] ∧ l.all Block.notNl = true) :
    (joinLines ls).getLast? ≠ some '\n' := by
  induction ls with
  | nil => exact absurd rfl hne
  | cons a r ih =>
    cases r with
    | nil =>
      rw [Block.joinLines_single]
      intro e
      have := List.all_eq_true.mp (h a (by simp)).2 _ (List.mem_of_getLast? e)
      simp [Block.notNl] at this
    | cons b r =>
      rw [Block.joinLines_cons_cons]
      have hne' : joinLines (b :: r) ≠ [] := joinLines_ne_nil b r (h b (by simp)).1
      rw [show a ++ '\n' :: joinLines (b :: r) = (a ++ ['\n']) ++ joinLines (b :: r) by simp,
        getLast?_append_of_ne_nil hne']
      exact ih (by simp) (fun l hl => h l (by simp [hl]))

theorem line_nonempty_nonl {border : Bool} {r : List Str} (h : LineRow border r) :
    printRow border r ≠ [] ∧ (printRow border r).all Block.notNl = true := by
  obtain ⟨⟨x, hx, _⟩, _⟩ := line_ends h
  refine ⟨(by intro e; rw [e] at hx; cases hx), ?_⟩
  have := nonl_line h
  simp only [List.all_eq_true, Block.notNl, bne_iff_ne, ne_eq]
  intro c hc e; subst e; exact this hc

/-- the printed table as a source text: facts for the preprocessors and the block splitter -/
theorem printTable_front {header : List Str} {aligns : List Al} {rows : List (List Str)} {border : Bool}
    (h : TableOK header aligns rows border = true) (cfg : Pipeline.Cfg) :
    (printTable header aligns rows border).all docCh = true ∧
    Pipeline.prepare cfg (printTable header aligns rows border) = printTable header aligns rows border ++ ['\n', '\n'] ∧
    splitS ['\n', '\n'] (printTable header aligns rows border ++ ['\n', '\n']) =
      [printTable header aligns rows border, []] ∧
    (∃ x t, printTable header aligns rows border = x :: t ∧ x ≠ ' ' ∧ x ≠ '\n') := by
  have hl := tableLines_rows h
  have hdoc : (printTable header aligns rows border).all docCh = true := by
    apply docCh_joinLines
    intro l hlm
    obtain ⟨r, _, rfl, hc⟩ := hl l hlm
    exact docCh_line hc
  have hnn : ∀ l ∈ tableLines header aligns rows border, l ≠ [] ∧ l.all Block.notNl = true := by
    intro l hlm
    obtain ⟨r, hr, rfl, _⟩ := hl l hlm
    exact line_nonempty_nonl hr
  have hink : inkE false false (printTable header aligns rows border) = true := by
    apply inkE_joinLines
    intro l hlm
    obtain ⟨r, hr, rfl, _⟩ := hl l hlm
    refine ⟨(line_nonempty_nonl hr).2, Or.inr ?_⟩
    obtain ⟨⟨x, hx, hx1, _⟩, _⟩ := line_ends hr
    cases hL : printRow border r with
    | nil => rw [hL] at hx; cases hx
    | cons a t =>
      rw [hL] at hx
      have : a = x := by simpa using hx
      subst this
      simp [hx1]
  refine ⟨hdoc, prepare_doc cfg _ hdoc hink, ?_, ?_⟩
  · have hsnoc := noNN_snoc _ (noNN_lines _ hnn) (getLast_joinLines _ (by simp [tableLines]) hnn)
    have := splitAux_sep (printTable header aligns rows border) [] hsnoc
    simpa [splitS, splitAux] using this
  · obtain ⟨r, hr, hL, _⟩ := hl (printRow border header) (by simp [tableLines])
    obtain ⟨⟨x, hx, hx1, _⟩, _⟩ := line_ends hr
    rw [← hL] at hx
    cases hL0 : printRow border header with
    | nil => rw [hL0] at hx; cases hx
    | cons a t =>
      rw [hL0] at hx
      have hax : a = x := by simpa using hx
      subst hax
      have hnl : a ≠ '\n' := by
        intro e; subst e
        have := (hnn _ (by simp [tableLines] : printRow border header ∈ tableLines header aligns rows border)).2
        rw [hL0] at this
        simp [Block.notNl] at this
      refine ⟨a, t ++ (match (printRow border (aligns.map sepCell) :: rows.map (printRow border)) with
        | [] => [] | b :: r => '\n' :: joinLines (b :: r)), ?_, hx1, hnl⟩
      unfold printTable
      rw [Block.joinLines_cons_cons, hL0]
      simp


/-! ### the block parser with the table processor -/

open BlockExt in
/-- `TableProcessor` takes the block -/
theorem dispatchXT_table (cfg : BlockExt.XCfg) (hadm : cfg.admonition = false) (hdl : cfg.defList = false)
    (tab : Nat) (htab : 0 < tab) (pb : Block.PB) (refs : Block.Refs) (parent : Node) (rest : List Str)
    {header : List Str} {aligns : List Al} {rows : List (List Str)} {border : Bool}
    (h : TableOK header aligns rows border = true) :
    dispatchXT true cfg tab pb [] refs parent (printTable header aligns rows border) rest =
      some (parent.append (tableNode (tableOf header aligns rows)), refs, rest) := by
  obtain ⟨_, _, _, ⟨x, t, hxt, hx1, hx2⟩⟩ := printTable_front h {}
  have hrun : tableRun (if border then 3 else 0) (pieces border (aligns.map sepCell))
      (printTable header aligns rows border) = tableOf header aligns rows := by
    have := table_print h
    unfold Tables.table at this
    rw [tableTest_print h] at this
    simpa using this
  obtain ⟨n, rfl⟩ : ∃ n, tab = n + 1 := ⟨tab - 1, by omega⟩
  have e1 : ((x :: t).isEmpty || startsWith (x :: t) ['\n']) = false := by simp [startsWith, hx2]
  have e2 : startsWith (x :: t) (Block.spaces (n + 1)) = false := by
    simp [Block.spaces, List.replicate_succ, hx1]
  unfold dispatchXT tailEmptyT
  simp only [hadm, hdl, Bool.false_eq_true, if_false, Bool.false_and]
  rw [hxt] at hrun ⊢
  simp only [e1, e2, Bool.false_eq_true, if_false, Bool.false_and, if_true]
  rw [← hxt, tableTest_print h]
  simp only [tableP]
  rw [hxt, hrun]

open BlockExt in
theorem dispatchXT_empty_after_table (tables : Bool) (cfg : BlockExt.XCfg) (hadm : cfg.admonition = false) (tab : Nat)
    (pb : Block.PB) (refs : Block.Refs) (parent : Node) (t : Tables.Table) :
    dispatchXT tables cfg tab pb [] refs (parent.append (tableNode t)) [] [] =
      some (parent.append (tableNode t), refs, []) := by
  have hp : Block.preCode (tableNode t) = none := by
    have : (tableNode t).isTag "pre" = false := by
      simp only [tableNode, Node.isTag, Node.el]; decide
    simp [Block.preCode, this]
  simp [dispatchXT, tailEmptyT, hadm, Block.emptyP, Node.last?, Node.append, hp]

open BlockExt in
/-- **The block parser on the printed table**: `<div><table>…</table></div>`, no references -/
theorem parseDocumentXT_table (cfg : BlockExt.XCfg) (hadm : cfg.admonition = false) (hdl : cfg.defList = false)
    (tab : Nat) (htab : 0 < tab) {header : List Str} {aligns : List Al} {rows : List (List Str)} {border : Bool}
    (h : TableOK header aligns rows border = true) :
    parseDocumentXT true cfg tab (printTable header aligns rows border ++ ['\n', '\n']) =
      some ((Node.el "div").append (tableNode (tableOf header aligns rows)), []) := by
  obtain ⟨_, _, hsplit, _⟩ := printTable_front h {}
  unfold parseDocumentXT Block.parseChunk
  rw [hsplit]
  obtain ⟨f, hf⟩ : ∃ f, fuelForX (printTable header aligns rows border ++ ['\n', '\n']).length = f + 2 :=
    ⟨fuelForX (printTable header aligns rows border ++ ['\n', '\n']).length - 2, by unfold fuelForX; omega⟩
  rw [hf]
  simp only [parseBlocksXT, dispatchXT_table cfg hadm hdl tab htab _ [] _ _ h,
    dispatchXT_empty_after_table true cfg hadm tab]


/-! ### back end: `prettify`, serializer -/

open TreeProc in
/-- the facts about a tag that the container lemma needs -/
structure BlockTag (t : Str) : Prop where
  bl : isBlockLevel defaultBlockLevel (.name t) = true
  ncode : (Tag.name t == Tag.name "code".toList) = false
  npre : (Tag.name t == Tag.name "pre".toList) = false
  nempty : Ser.isEmptyTag t = false
  nraw : Ser.isRawTextTag t = false

theorem blockTag_list : BlockTag "table".toList ∧ BlockTag "thead".toList ∧ BlockTag "tbody".toList ∧
    BlockTag "tr".toList ∧ BlockTag "th".toList ∧ BlockTag "td".toList ∧ BlockTag "div".toList := by
  refine ⟨⟨?_, ?_, ?_, ?_, ?_⟩, ⟨?_, ?_, ?_, ?_, ?_⟩, ⟨?_, ?_, ?_, ?_, ?_⟩, ⟨?_, ?_, ?_, ?_, ?_⟩, ⟨?_, ?_, ?_, ?_, ?_⟩,
    ⟨?_, ?_, ?_, ?_, ?_⟩, ⟨?_, ?_, ?_, ?_, ?_⟩⟩ <;> decide

open TreeProc in
/-- `_prettifyETree` and the serializer on an element without text and tail whose first child is block-level -/
theorem serialize_container (fmt : Ser.Fmt) (t : Str) (ht : BlockTag t) (c : Node) (r : List Node)
    (hc : isBlockLevel defaultBlockLevel c.tag = true) :
    Ser.serialize fmt (prettifyETree defaultBlockLevel ⟨.name t, [], none, false, c :: r, none, false⟩) =
      '<' :: t ++ ">\n".toList ++ Ser.serializeList fmt (prettifyKids defaultBlockLevel (c :: r)) ++
        "</".toList ++ t ++ ">\n".toList := by
  have h5 : Ser.escCdata ['\n'] = ['\n'] := by decide
  simp only [prettifyETree, ht.bl, ht.ncode, ht.npre, hc, blankOrNone, Node.truthy, Bool.not_false, Bool.and_self,
    if_true, Bool.true_or]
  rw [serialize_name, element_nonempty _ _ _ _ _ ht.nempty ht.nraw]
  simp [Ser.sortAttrs, Ser.writeAttrs, Node.truthy, h5, List.append_assoc]

theorem alignName_eq (al : Tables.Align) : BlockExt.alignName al = alName al := by cases al <;> rfl

theorem styleVal_plain (al : Tables.Align) :
    Ser.escAttrHtml ("text-align: ".toList ++ alName al ++ [';']) = "text-align: ".toList ++ alName al ++ [';'] ∧
    "style".toList ≠ "text-align: ".toList ++ alName al ++ [';'] := by
  cases al <;> decide

open TreeProc BlockExt in
/-- a cell: `<th style="…">text</th>⏎` -/
theorem serialize_cell (fmt : Ser.Fmt) (tag : String) (htag : BlockTag tag.toList) (t : Str) (a : Al)
    (hp : PlainText t = true) :
    Ser.serialize fmt (prettifyETree defaultBlockLevel (cellNode tag t a)) = cellHtml tag.toList t a := by
  have h5 : Ser.escCdata ['\n'] = ['\n'] := by decide
  have hesc := escCdata_plain t hp
  unfold cellNode
  simp only [Node.el, prettifyETree, prettifyKids, htag.bl, htag.ncode, htag.npre, blankOrNone, Node.truthy,
    Bool.not_false, Bool.and_self, Bool.true_and, Bool.and_false, if_true, Bool.false_eq_true, if_false]
  rw [serialize_name, element_nonempty _ _ _ _ _ htag.nempty htag.nraw, serializeList_nil]
  unfold cellHtml
  cases a with
  | none =>
    cases t with
    | nil => simp [Ser.sortAttrs, Ser.writeAttrs, Node.truthy, h5, List.append_assoc]
    | cons x y => simp [Ser.sortAttrs, Ser.writeAttrs, Node.truthy, h5, hesc, List.append_assoc]
  | some al =>
    obtain ⟨e1, e2⟩ := styleVal_plain al
    have hw : Ser.writeAttrs fmt (Ser.sortAttrs [("style".toList, "text-align: ".toList ++ alignName al ++ [';'])]) =
        " style=\"text-align: ".toList ++ alName al ++ ";\"".toList := by
      rw [alignName_eq]
      simp only [Ser.sortAttrs, List.foldr, Ser.insAttr, Ser.writeAttrs, e1, e2, decide_false, Bool.false_and,
        Bool.false_eq_true, if_false, List.append_nil]
      simp [List.append_assoc]
    rw [hw]
    cases t with
    | nil => simp [Node.truthy, h5, List.append_assoc]
    | cons x y => simp [Node.truthy, h5, hesc, List.append_assoc]

open TreeProc in
theorem serialize_bare (fmt : Ser.Fmt) :
    Ser.serialize fmt (prettifyETree defaultBlockLevel (Node.el "td")) = "<td></td>\n".toList := by
  have htd := blockTag_list.2.2.2.2.2.1
  have h5 : Ser.escCdata ['\n'] = ['\n'] := by decide
  simp only [Node.el, prettifyETree, prettifyKids, htd.bl, htd.ncode, htd.npre, blankOrNone, Node.truthy,
    Bool.not_false, Bool.and_self, Bool.true_and, Bool.and_false, if_true, Bool.false_eq_true, if_false]
  rw [serialize_name, element_nonempty _ _ _ _ _ htd.nempty htd.nraw, serializeList_nil]
  simp [Ser.sortAttrs, Ser.writeAttrs, Node.truthy, h5]


/-! ### lists of cells and rows -/

open TreeProc in
theorem prettifyKids_block (kids : List Node) (h : ∀ k ∈ kids, isBlockLevel defaultBlockLevel k.tag = true) :
    prettifyKids defaultBlockLevel kids = kids.map (prettifyETree defaultBlockLevel) := by
  induction kids with
  | nil => rfl
  | cons k r ih =>
    simp only [prettifyKids, h k (by simp), if_true, List.map_cons, ih (fun x hx => h x (by simp [hx]))]

theorem serializeList_cons (fmt : Ser.Fmt) (n : Node) (r : List Node) :
    Ser.serializeList fmt (n :: r) = Ser.serialize fmt n ++ Ser.serializeList fmt r := by
  rw [Ser.serializeList]

theorem serializeList_map (fmt : Ser.Fmt) (f : Node → Node) (kids : List Node) :
    Ser.serializeList fmt (kids.map f) = (kids.map (fun k => Ser.serialize fmt (f k))).flatten := by
  induction kids with
  | nil => simp [serializeList_nil]
  | cons k r ih => simp only [List.map_cons, serializeList_cons, ih, List.flatten_cons]

open BlockExt TreeProc in
theorem zipCells_block (tag : String) (htag : BlockTag tag.toList) (ts : List Str) (as : List Al) :
    ∀ k ∈ zipCells tag ts as, isBlockLevel defaultBlockLevel k.tag = true := by
  induction ts generalizing as with
  | nil => intro k hk; simp [zipCells] at hk
  | cons t ts ih =>
    cases as with
    | nil => intro k hk; simp [zipCells] at hk
    | cons a as =>
      intro k hk
      simp only [zipCells, List.mem_cons] at hk
      rcases hk with rfl | hk
      · exact htag.bl
      · exact ih as k hk

open BlockExt TreeProc in
/-- the cells of a row -/
theorem serialize_cells (fmt : Ser.Fmt) (tag : String) (htag : BlockTag tag.toList) :
    ∀ (ts : List Str) (as : List Al), (∀ t ∈ ts, PlainText t = true) →
      Ser.serializeList fmt (prettifyKids defaultBlockLevel (zipCells tag ts as)) = cellsHtml tag.toList ts as
  | [], _, _ => by simp [zipCells, prettifyKids, serializeList_nil, cellsHtml]
  | _ :: _, [], _ => by simp [zipCells, prettifyKids, serializeList_nil, cellsHtml]
  | t :: ts, a :: as, h => by
    have hb : isBlockLevel defaultBlockLevel (cellNode tag t a).tag = true := htag.bl
    simp only [zipCells, prettifyKids, hb, if_true, serializeList_cons, cellsHtml,
      serialize_cell fmt tag htag t a (h t (by simp)),
      serialize_cells fmt tag htag ts as (fun x hx => h x (by simp [hx]))]

open BlockExt TreeProc in
/-- a row of cells: `<tr>⏎ cells </tr>⏎` -/
theorem serialize_row (fmt : Ser.Fmt) (tag : String) (htag : BlockTag tag.toList) (ts : List Str) (as : List Al)
    (hne : zipCells tag ts as ≠ []) (hp : ∀ t ∈ ts, PlainText t = true) :
    Ser.serialize fmt (prettifyETree defaultBlockLevel { Node.el "tr" with children := zipCells tag ts as }) =
      rowHtml tag.toList ts as := by
  have hb := zipCells_block tag htag ts as
  cases hz : zipCells tag ts as with
  | nil => exact absurd hz hne
  | cons c r =>
    have := serialize_container fmt "tr".toList blockTag_list.2.2.2.1 c r (hb c (by rw [hz]; simp))
    simp only [Node.el] at this ⊢
    rw [this, ← hz, serialize_cells fmt tag htag ts as hp]
    simp [rowHtml, List.append_assoc]

theorem zipCells_ne_nil (tag : String) (ts : List Str) (as : List Al) (h1 : ts ≠ []) (h2 : as ≠ []) :
    BlockExt.zipCells tag ts as ≠ [] := by
  cases ts with
  | nil => exact absurd rfl h1
  | cons t ts =>
    cases as with
    | nil => exact absurd rfl h2
    | cons a as => simp [BlockExt.zipCells]

open BlockExt TreeProc in
/-- the row of a table without body -/
theorem serialize_emptyRow (fmt : Ser.Fmt) (n : Nat) (hn : 0 < n) :
    Ser.serialize fmt (prettifyETree defaultBlockLevel
      { Node.el "tr" with children := (List.replicate n (none : Option Str)).map (fun _ => Node.el "td") }) =
      emptyRowHtml n := by
  obtain ⟨m, rfl⟩ : ∃ m, n = m + 1 := ⟨n - 1, by omega⟩
  have htd := blockTag_list.2.2.2.2.2.1
  have hkids : ∀ k ∈ (List.replicate (m + 1) (none : Option Str)).map (fun _ => Node.el "td"),
      isBlockLevel defaultBlockLevel k.tag = true := by
    intro k hk
    simp only [List.map_replicate, List.mem_replicate] at hk
    rw [hk.2]; exact htd.bl
  have hform : (List.replicate (m + 1) (none : Option Str)).map (fun _ => Node.el "td") =
      Node.el "td" :: (List.replicate m (none : Option Str)).map (fun _ => Node.el "td") := by
    simp [List.replicate_succ]
  have := serialize_container fmt "tr".toList blockTag_list.2.2.2.1 (Node.el "td")
    ((List.replicate m (none : Option Str)).map (fun _ => Node.el "td")) htd.bl
  rw [← hform] at this
  simp only [Node.el] at this ⊢
  rw [this, prettifyKids_block _ (by simpa [Node.el] using hkids), serializeList_map]
  simp only [List.map_map]
  have hb := serialize_bare fmt
  simp only [Node.el] at hb
  have hb' : Ser.serialize fmt (prettifyETree defaultBlockLevel { tag := Tag.name ['t', 'd'] }) =
      "<td></td>\n".toList := hb
  simp only [emptyRowHtml, List.map_replicate]
  simp [List.append_assoc, hb']


/-! ### the whole table -/

open BlockExt TreeProc in
/-- a body row -/
theorem serialize_bodyRow (fmt : Ser.Fmt) (aligns : List Al) (hne : aligns ≠ []) (r : List Str)
    (hp : ∀ t ∈ r, PlainText t = true) :
    Ser.serialize fmt (prettifyETree defaultBlockLevel (bodyRow aligns ((fit aligns.length r).map some))) =
      rowHtml "td".toList (fit aligns.length r) aligns := by
  have hall : ((fit aligns.length r).map some).all Option.isSome = true := by simp
  have hmap : ((fit aligns.length r).map some).map (fun c => c.getD []) = fit aligns.length r := by
    simp [List.map_map, Function.comp_def]
  have hfit : fit aligns.length r ≠ [] := by
    intro e
    have := fit_length aligns.length r
    rw [e] at this
    exact hne (List.length_eq_zero_iff.mp this.symm)
  unfold bodyRow
  rw [if_pos hall, hmap]
  exact serialize_row fmt "td" blockTag_list.2.2.2.2.2.1 _ _ (zipCells_ne_nil "td" _ _ hfit hne)
    (fit_plain _ r hp)

open BlockExt TreeProc in
theorem serialize_emptyBodyRow (fmt : Ser.Fmt) (aligns : List Al) (hne : aligns ≠ []) :
    Ser.serialize fmt (prettifyETree defaultBlockLevel (bodyRow aligns (List.replicate aligns.length none))) =
      emptyRowHtml aligns.length := by
  have hpos : 0 < aligns.length := List.length_pos_iff.mpr hne
  have hall : (List.replicate aligns.length (none : Option Str)).all Option.isSome = false := by
    obtain ⟨m, hm⟩ : ∃ m, aligns.length = m + 1 := ⟨aligns.length - 1, by omega⟩
    rw [hm]; simp [List.replicate_succ]
  unfold bodyRow
  rw [if_neg (by simp [hall])]
  exact serialize_emptyRow fmt aligns.length hpos

open BlockExt TreeProc in
theorem bodyRow_block (aligns : List Al) (cells : List (Option Str)) :
    isBlockLevel defaultBlockLevel (bodyRow aligns cells).tag = true := by
  unfold bodyRow
  split <;> exact blockTag_list.2.2.2.1.bl

open BlockExt TreeProc in
theorem serialize_tableNode (fmt : Ser.Fmt) (t : Tables.Table) (H B : Str)
    (hhead : Ser.serialize fmt (prettifyETree defaultBlockLevel
      { Node.el "thead" with children := [{ Node.el "tr" with children := zipCells "th" t.head t.align }] }) = H)
    (hbody : Ser.serialize fmt (prettifyETree defaultBlockLevel
      { Node.el "tbody" with children := t.body.map (bodyRow t.align) }) = B) :
    Ser.serialize fmt (prettifyETree defaultBlockLevel (tableNode t)) =
      "<table>\n".toList ++ H ++ B ++ "</table>\n".toList := by
  obtain ⟨bT, bH, bB, _⟩ := blockTag_list
  unfold tableNode
  have := serialize_container fmt "table".toList bT
    { Node.el "thead" with children := [{ Node.el "tr" with children := zipCells "th" t.head t.align }] }
    [{ Node.el "tbody" with children := t.body.map (bodyRow t.align) }] bH.bl
  simp only [Node.el] at this hhead hbody ⊢
  rw [this]
  simp only [prettifyKids, bH.bl, bB.bl, if_true, serializeList_cons, serializeList_nil, hhead, hbody,
    List.append_nil, List.append_assoc]
  rfl

open BlockExt TreeProc in
/-- **Serialisation of the prettified table tree** -/
theorem serialize_tableTree (fmt : Ser.Fmt) {header : List Str} {aligns : List Al} {rows : List (List Str)}
    {border : Bool} (h : TableOK header aligns rows border = true) :
    Ser.serialize fmt (prettifyETree defaultBlockLevel
      ((Node.el "div").append (tableNode (tableOf header aligns rows)))) =
      "<div>".toList ++ ('\n' :: specTable header aligns rows ++ ['\n']) ++ "</div>\n".toList := by
  obtain ⟨hlen, hh, _, hr⟩ := tableOK_facts h
  have hhl := lineRow_of_rowOK hh
  have hane : aligns ≠ [] := by
    intro e; have := hhl.ne; rw [e] at hlen; exact this (List.length_eq_zero_iff.mp hlen)
  obtain ⟨bT, bH, bB, bR, bTh, bTd, bD⟩ := blockTag_list
  -- thead
  have hhead : Ser.serialize fmt (prettifyETree defaultBlockLevel
      { Node.el "thead" with children := [{ Node.el "tr" with children := zipCells "th" header aligns }] }) =
      "<thead>\n".toList ++ rowHtml "th".toList header aligns ++ "</thead>\n".toList := by
    have := serialize_container fmt "thead".toList bH
      { Node.el "tr" with children := zipCells "th" header aligns } [] bR.bl
    simp only [Node.el] at this ⊢
    rw [this]
    have hr' := serialize_row fmt "th" bTh header aligns (zipCells_ne_nil "th" _ _ hhl.ne hane)
      (fun t ht => cellOK_plainText (rowOK_cells hh t ht))
    simp only [Node.el] at hr'
    simp only [prettifyKids, bR.bl, if_true, serializeList_cons, serializeList_nil, hr']
    simp [List.append_assoc]
  -- tbody
  have hbody : Ser.serialize fmt (prettifyETree defaultBlockLevel
      { Node.el "tbody" with children := (tableOf header aligns rows).body.map (bodyRow aligns) }) =
      "<tbody>\n".toList ++ bodyHtml header.length aligns rows ++ "</tbody>\n".toList := by
    have hkids : ∀ k ∈ (tableOf header aligns rows).body.map (bodyRow aligns),
        isBlockLevel defaultBlockLevel k.tag = true := by
      intro k hk
      simp only [List.mem_map] at hk
      obtain ⟨c, _, rfl⟩ := hk
      exact bodyRow_block aligns c
    have hsl : Ser.serializeList fmt (prettifyKids defaultBlockLevel
        ((tableOf header aligns rows).body.map (bodyRow aligns))) = bodyHtml header.length aligns rows := by
      rw [prettifyKids_block _ hkids, serializeList_map]
      simp only [tableOf, bodyHtml, hlen]
      cases rows with
      | nil =>
        simp only [List.isEmpty_nil, if_true, List.map_cons, List.map_nil, List.flatten_cons, List.flatten_nil,
          List.append_nil, serialize_emptyBodyRow fmt aligns hane]
      | cons r0 rs =>
        simp only [List.isEmpty_cons, Bool.false_eq_true, if_false, List.map_map]
        congr 1
        apply List.map_congr_left
        intro r hrm
        simp only [Function.comp]
        exact serialize_bodyRow fmt aligns hane r (fun t ht => cellOK_plainText (rowOK_cells (hr r hrm) t ht))
    cases hb : (tableOf header aligns rows).body.map (bodyRow aligns) with
    | nil =>
      exfalso
      simp only [tableOf] at hb
      cases rows <;> simp at hb
    | cons c r =>
      have := serialize_container fmt "tbody".toList bB c r (hkids c (by rw [hb]; simp))
      simp only [Node.el] at this ⊢
      rw [this, ← hb, hsl]
      simp [List.append_assoc]
  -- table
  have htable : Ser.serialize fmt (prettifyETree defaultBlockLevel (tableNode (tableOf header aligns rows))) =
      specTable header aligns rows ++ ['\n'] := by
    rw [serialize_tableNode fmt (tableOf header aligns rows) _ _ hhead hbody]
    unfold specTable
    simp only [List.append_assoc]
    rfl
  have := serialize_container fmt "div".toList bD (tableNode (tableOf header aligns rows)) [] bT.bl
  simp only [Node.append, Node.el, List.nil_append] at this ⊢
  rw [this]
  simp only [prettifyKids, show isBlockLevel defaultBlockLevel (tableNode (tableOf header aligns rows)).tag = true from bT.bl,
    if_true, serializeList_cons, serializeList_nil, htable, List.append_nil, List.append_assoc]
  rfl


/-! ### the table tree is clean and has no `br`/`pre` -/

open TreeFacts BlockExt

theorem okOpt_plain {t : Str} (h : PlainText t = true) : okOpt (some t) = true := by
  have : TreeProc.STX ∉ t := plain_no_stx h
  simp only [okOpt, Bool.not_eq_true']
  cases hc : t.contains TreeProc.STX with
  | false => rfl
  | true => exact absurd (List.contains_iff_mem.1 hc) this

theorem clean_cell (tag : String) (t : Str) (a : Al) (h : PlainText t = true) : clean (cellNode tag t a) = true := by
  have ho := okOpt_plain h
  have hn : okOpt none = true := rfl
  cases a with
  | none =>
    simp only [cellNode, Node.el, clean, cleanL, ho, hn, List.all_nil, Bool.not_false, Bool.and_self]
  | some al =>
    have : (("text-align: ".toList ++ alignName al ++ [';']).contains TreeProc.STX) = false := by
      cases al <;> decide
    simp only [cellNode, Node.el, clean, cleanL, ho, hn, List.all_cons, List.all_nil, this, Bool.not_false,
      Bool.and_self]

theorem noBrPre_tags : noBrPre (.name "div".toList) = true ∧ noBrPre (.name "table".toList) = true ∧
    noBrPre (.name "thead".toList) = true ∧ noBrPre (.name "tbody".toList) = true ∧ noBrPre (.name "tr".toList) = true ∧
    noBrPre (.name "th".toList) = true ∧ noBrPre (.name "td".toList) = true := by decide

theorem good_zipCells (tag : String) (htag : noBrPre (.name tag.toList) = true) :
    ∀ (ts : List Str) (as : List Al), (∀ t ∈ ts, PlainText t = true) →
      cleanL (zipCells tag ts as) = true ∧ allTagL noBrPre (zipCells tag ts as) = true
  | [], _, _ => by simp [zipCells, cleanL, allTagL]
  | _ :: _, [], _ => by simp [zipCells, cleanL, allTagL]
  | t :: ts, a :: as, h => by
    obtain ⟨h1, h2⟩ := good_zipCells tag htag ts as (fun x hx => h x (by simp [hx]))
    have hc := clean_cell tag t a (h t (by simp))
    have ht : allTag noBrPre (cellNode tag t a) = true := by
      simp [cellNode, Node.el, allTag, allTagL, htag]
    simp only [zipCells, cleanL, allTagL, hc, ht, h1, h2, Bool.and_self, and_self]

theorem good_container (tag : String) (htag : noBrPre (.name tag.toList) = true) (kids : List Node)
    (h : cleanL kids = true ∧ allTagL noBrPre kids = true) :
    clean { Node.el tag with children := kids } = true ∧ allTag noBrPre { Node.el tag with children := kids } = true := by
  simp [Node.el, clean, allTag, okOpt, htag, h.1, h.2]

theorem good_map {α : Type} (f : α → Node) (l : List α)
    (h : ∀ x ∈ l, clean (f x) = true ∧ allTag noBrPre (f x) = true) :
    cleanL (l.map f) = true ∧ allTagL noBrPre (l.map f) = true := by
  induction l with
  | nil => simp [cleanL, allTagL]
  | cons a r ih =>
    obtain ⟨h1, h2⟩ := ih (fun x hx => h x (by simp [hx]))
    obtain ⟨h3, h4⟩ := h a (by simp)
    simp only [List.map_cons, cleanL, allTagL, h1, h2, h3, h4, Bool.and_self, and_self]

theorem good_tableTree {header : List Str} {aligns : List Al} {rows : List (List Str)} {border : Bool}
    (h : TableOK header aligns rows border = true) :
    clean ((Node.el "div").append (tableNode (tableOf header aligns rows))) = true ∧
    allTag noBrPre ((Node.el "div").append (tableNode (tableOf header aligns rows))) = true := by
  obtain ⟨_, hh, _, hr⟩ := tableOK_facts h
  obtain ⟨tD, tT, tH, tB, tR, tTh, tTd⟩ := noBrPre_tags
  have hhead := good_zipCells "th" tTh header aligns (fun t ht => cellOK_plainText (rowOK_cells hh t ht))
  have hrow : ∀ cells ∈ (tableOf header aligns rows).body,
      clean (bodyRow aligns cells) = true ∧ allTag noBrPre (bodyRow aligns cells) = true := by
    intro cells hcells
    unfold bodyRow
    split
    · apply good_container "tr" tR
      apply good_zipCells "td" tTd
      intro t ht
      simp only [tableOf] at hcells
      split at hcells
      · simp only [List.mem_singleton] at hcells; subst hcells
        simp only [List.map_replicate, List.mem_replicate] at ht
        rw [ht.2]; rfl
      · simp only [List.mem_map] at hcells
        obtain ⟨r, hrm, rfl⟩ := hcells
        simp only [List.map_map, List.mem_map, Function.comp, Option.getD_some] at ht
        obtain ⟨x, hx, rfl⟩ := ht
        exact fit_plain _ r (fun t ht => cellOK_plainText (rowOK_cells (hr r hrm) t ht)) x hx
    · apply good_container "tr" tR
      apply good_map
      intro _ _
      have hn : okOpt none = true := rfl
      simp only [Node.el, clean, cleanL, allTag, allTagL, hn, tTd, List.all_nil, Bool.not_false, Bool.and_self,
        and_self]
  have hbody := good_map (bodyRow aligns) (tableOf header aligns rows).body hrow
  have htr := good_container "tr" tR _ hhead
  have hthead := good_container "thead" tH [{ Node.el "tr" with children := zipCells "th" header aligns }]
    (by simp only [cleanL, allTagL, htr.1, htr.2, Bool.and_self, and_self])
  have htbody := good_container "tbody" tB _ hbody
  have htable : clean (tableNode (tableOf header aligns rows)) = true ∧
      allTag noBrPre (tableNode (tableOf header aligns rows)) = true := by
    unfold tableNode
    apply good_container "table" tT
    simp only [cleanL, allTagL]
    exact ⟨by rw [show (tableOf header aligns rows).head = header from rfl,
                  show (tableOf header aligns rows).align = aligns from rfl, hthead.1, htbody.1]; rfl,
           by rw [show (tableOf header aligns rows).head = header from rfl,
                  show (tableOf header aligns rows).align = aligns from rfl, hthead.2, htbody.2]; rfl⟩
  have := good_container "div" tD [tableNode (tableOf header aligns rows)]
    (by simp only [cleanL, allTagL, htable.1, htable.2, Bool.and_self, and_self])
  simpa [Node.append, Node.el] using this


/-! ### the specified HTML: no `STX`, begins with `<`, ends with `>` -/

/-- no `STX` -/
def okS (s : Str) : Bool := s.all (fun c => c != Post.STX)

theorem okS_append (a b : Str) : okS (a ++ b) = (okS a && okS b) := by simp [okS, List.all_append]

theorem okS_plain {t : Str} (h : PlainText t = true) : okS t = true := by
  simp only [okS, List.all_eq_true, bne_iff_ne, ne_eq]
  intro c hc e; subst e; exact plain_no_stx h hc

theorem okS_cellHtml (tag : Str) (htag : okS tag = true) (t : Str) (ht : okS t = true) (a : Al) :
    okS (cellHtml tag t a) = true := by
  have hal : ∀ al, okS (alName al) = true := by intro al; cases al <;> decide
  unfold cellHtml
  rcases a with _ | al
  · simp only [List.append_nil, okS_append, htag, ht, Bool.and_true]
    simp only [okS, List.all_cons, List.all_nil]
    simp only [okS] at htag ht
    simp [htag]; decide
  · have h1 : okS " style=\"text-align: ".toList = true := by decide
    have h2 : okS ";\"".toList = true := by decide
    have h3 : okS ['>'] = true := by decide
    have h4 : okS "</".toList = true := by decide
    have h5 : okS ">\n".toList = true := by decide
    have h0 : okS ('<' :: tag) = true := by
      simp only [okS, List.all_cons] at htag ⊢; simp [htag]; decide
    simp only [okS_append, h0, h1, h2, h3, h4, h5, hal, htag, ht, Bool.and_self]

theorem okS_cellsHtml (tag : Str) (htag : okS tag = true) :
    ∀ (ts : List Str) (as : List Al), (∀ t ∈ ts, okS t = true) → okS (cellsHtml tag ts as) = true
  | [], _, _ => by simp [cellsHtml, okS]
  | _ :: _, [], _ => by simp [cellsHtml, okS]
  | t :: ts, a :: as, h => by
    simp only [cellsHtml, okS_append, okS_cellHtml tag htag t (h t (by simp)) a,
      okS_cellsHtml tag htag ts as (fun x hx => h x (by simp [hx])), Bool.and_self]

theorem okS_rowHtml (tag : Str) (htag : okS tag = true) (ts : List Str) (as : List Al)
    (h : ∀ t ∈ ts, okS t = true) : okS (rowHtml tag ts as) = true := by
  have h1 : okS "<tr>\n".toList = true := by decide
  have h2 : okS "</tr>\n".toList = true := by decide
  unfold rowHtml
  simp only [okS_append, h1, h2, okS_cellsHtml tag htag ts as h, Bool.and_self]

theorem okS_flatten (l : List Str) (h : ∀ s ∈ l, okS s = true) : okS l.flatten = true := by
  induction l with
  | nil => rfl
  | cons a r ih =>
    simp only [List.flatten_cons, okS_append, h a (by simp), ih (fun s hs => h s (by simp [hs])), Bool.and_self]

theorem okS_specTable {header : List Str} {aligns : List Al} {rows : List (List Str)} {border : Bool}
    (h : TableOK header aligns rows border = true) : okS (specTable header aligns rows) = true := by
  obtain ⟨_, hh, _, hr⟩ := tableOK_facts h
  have h1 : okS "<table>\n<thead>\n".toList = true := by decide
  have h2 : okS "</thead>\n<tbody>\n".toList = true := by decide
  have h3 : okS "</tbody>\n</table>".toList = true := by decide
  have hth : okS "th".toList = true := by decide
  have htd : okS "td".toList = true := by decide
  have hhead := okS_rowHtml "th".toList hth header aligns
    (fun t ht => okS_plain (cellOK_plainText (rowOK_cells hh t ht)))
  have hbody : okS (bodyHtml header.length aligns rows) = true := by
    unfold bodyHtml
    split
    · have e1 : okS "<tr>\n".toList = true := by decide
      have e2 : okS "</tr>\n".toList = true := by decide
      unfold emptyRowHtml
      simp only [okS_append, e1, e2, Bool.and_true, Bool.true_and]
      apply okS_flatten
      intro s hs
      rw [(List.mem_replicate.mp hs).2]; decide
    · apply okS_flatten
      intro s hs
      simp only [List.mem_map] at hs
      obtain ⟨r, hrm, rfl⟩ := hs
      exact okS_rowHtml "td".toList htd _ aligns
        (fun t ht => okS_plain (fit_plain _ r (fun t ht => cellOK_plainText (rowOK_cells (hr r hrm) t ht)) t ht))
  unfold specTable
  simp only [okS_append, h1, h2, h3, hhead, hbody, Bool.and_self]

theorem specTable_stx {header : List Str} {aligns : List Al} {rows : List (List Str)} {border : Bool}
    (h : TableOK header aligns rows border = true) : Post.STX ∉ specTable header aligns rows := by
  intro hm
  have := List.all_eq_true.mp (okS_specTable h) _ hm
  simp at this

theorem strip_specTable (header : List Str) (aligns : List Al) (rows : List (List Str)) :
    strip (specTable header aligns rows) = specTable header aligns rows := by
  apply strip_eq_self
  · intro c hc
    have : (specTable header aligns rows).head? = some '<' := by unfold specTable; rfl
    rw [this] at hc; cases hc; decide
  · intro c hc
    have : (specTable header aligns rows).getLast? = some '>' := by
      unfold specTable
      rw [getLast?_append_of_ne_nil (by decide)]; decide
    rw [this] at hc; cases hc; decide

/-- the end of `convert` on the serialised table document -/
theorem finishX_table (x : PipelineX.Exts) (hfn : x.footnotes = false) (cfg : Pipeline.Cfg) {header : List Str}
    {aligns : List Al} {rows : List (List Str)} {border : Bool} (h : TableOK header aligns rows border = true) :
    PipelineX.finishX x cfg []
      ("<div>".toList ++ ('\n' :: specTable header aligns rows ++ ['\n']) ++ "</div>\n".toList) =
      .ok (specTable header aligns rows) := by
  have hs : strip ('\n' :: specTable header aligns rows ++ ['\n']) = specTable header aligns rows := by
    have := strip_append_of_blank (a := ['\n']) (b := ['\n']) (by decide) (by decide) (specTable header aligns rows)
    have e : '\n' :: specTable header aligns rows ++ ['\n'] = ['\n'] ++ specTable header aligns rows ++ ['\n'] := by simp
    rw [e, this, strip_specTable]
  simp only [PipelineX.finishX, topLevelStrip_div, hs, PipelineX.postX, Post.rawHtmlFuel, List.length_nil, Post.rawHtml,
    List.isEmpty_nil, if_true, Option.map_some, hfn, Bool.false_eq_true, if_false,
    ampSub_id _ (specTable_stx h), strip_specTable]


/-! ### the whole pipeline -/

theorem pipe_mem_printTable {header : List Str} {aligns : List Al} {rows : List (List Str)} {border : Bool}
    (h : TableOK header aligns rows border = true) : '|' ∈ printTable header aligns rows border := by
  obtain ⟨_, hh, hcols, _⟩ := tableOK_facts h
  have hline : '|' ∈ printRow border header := by
    cases border with
    | true => simp [printRow]
    | false =>
      have h2 : 2 ≤ header.length := by
        rcases hcols with e | e
        · cases e
        · exact e
      match header, h2 with
      | c :: d :: r, _ =>
        obtain ⟨x, y, hxy⟩ : ∃ x y, piecesRest (d :: r) = x :: y := by cases r <;> simp [piecesRest]
        simp only [printRow, Bool.false_eq_true, if_false, pieces]
        rw [hxy, joinPipe_cons_cons]
        simp
  unfold printTable
  rw [Block.joinLines_cons_cons]
  exact List.mem_append_left _ hline

/-- **`Markdown(extensions=['tables']).convert`** on a printed table -/
theorem convertX_table (cfg : Pipeline.Cfg) (hbl : cfg.blockLevel = TreeProc.defaultBlockLevel) (htab : 0 < cfg.tab)
    {header : List Str} {aligns : List Al} {rows : List (List Str)} {border : Bool}
    (h : TableOK header aligns rows border = true) :
    PipelineX.convertX { tables := true } cfg (printTable header aligns rows border) =
      .ok (specTable header aligns rows) := by
  obtain ⟨hdoc, hprep, _, _⟩ := printTable_front h cfg
  have h1 : (printTable header aligns rows border).contains '<' = false := by
    cases hc : (printTable header aligns rows border).contains '<' with
    | false => rfl
    | true => exact absurd (List.all_eq_true.mp hdoc _ (List.contains_iff_mem.1 hc)) (by decide)
  have h2 : Normalize.isBlankDoc (printTable header aligns rows border) = false := by
    rw [Normalize.isBlankDoc_eq_all]
    cases hb : (printTable header aligns rows border).all isSpace with
    | false => rfl
    | true => exact absurd (List.all_eq_true.mp hb _ (pipe_mem_printTable h)) (by decide)
  have hprepX : PipelineX.prepareX { tables := true } cfg (printTable header aligns rows border) =
      .ok (printTable header aligns rows border ++ ['\n', '\n'], []) := by
    unfold Pipeline.prepare at hprep
    simp only [PipelineX.prepareX, Bool.false_and, Bool.false_eq_true, if_false, hprep]
  have hparse := parseDocumentXT_table (PipelineX.Exts.blockCfg { tables := true }) rfl rfl cfg.tab htab h
  have hset := settled_tableTree
    { esc := PipelineX.escX { tables := true } cfg, refs := (PipelineX.refsX { tables := true } []).reverse }
    { html := [] } h
  have hrun := run_settled _ _ [] hset
  have hrunX := InlineX.runX_core
    { esc := PipelineX.escX { tables := true } cfg, refs := (PipelineX.refsX { tables := true } []).reverse }
    ((BlockExt.footnotesOf []).map (·.1))
    ((Node.el "div").append (BlockExt.tableNode (tableOf header aligns rows))) []
  rw [hrun] at hrunX
  obtain ⟨hclean, htags⟩ := good_tableTree h
  have hun := TreeFacts.unescape_prettify TreeProc.defaultBlockLevel _ htags hclean
  have hser := serialize_tableTree cfg.fmt h
  have hfin := finishX_table { tables := true } rfl cfg h
  simp only [PipelineX.convertX, h1, h2, PipelineX.Exts.unsupported, Bool.false_eq_true, if_false, PipelineX.treeX,
    hprepX, hparse, PipelineX.table_core]
  simp only [InlineX.xcCore] at hrunX
  rw [hrunX]
  simp only [Option.map_some, InlineX.lift, hbl, hun, hser, hfin]

end MdVerif.TableDoc
