/-
Helper lemmas for `Props/C15Text.lean`, part 5: documents in the vocabulary of `Spec/Doc.lean` whose top-level items
are reference definitions, paragraphs with reference-style links (`printLine`) and the blocks of `MixDoc` (rules,
indented code blocks, paragraphs and headings with mixed inline content), in any order.  Core Lean only.
-/
import MdVerif.Lemmas.RefTextElem

namespace MdVerif.RefText
open Py Inline Escape CodeLaw DocParse DocParse2 DocSpec

/-- a top-level item: a reference definition, a paragraph `c₀ [t₁][l₁] c₁ …` with uses (printed under the spelling
    state `st`), or a block of the `MixDoc` kind (printed under `st`) -/
inductive SItem where
  | defn (d : InlineRef.DefSpec)
  | links (c0 : List DocSpec.Inline) (us : List MUse) (st : PSt)
  | block (b : DocSpec.Block) (st : PSt)

/-- the source lines of an item -/
def SItem.lines : SItem → List Str
  | .defn d => defLinesOf d
  | .links c0 us st => [printLine c0 us st]
  | .block b st => (printBlock true b st).1

/-- the definitions of the document, in order -/
def sDefs : List SItem → List InlineRef.DefSpec
  | [] => []
  | .defn d :: r => d :: sDefs r
  | _ :: r => sDefs r

/-- the expected output of each item that is not a definition -/
def sOuts : List SItem → List Str
  | [] => []
  | .defn _ :: r => sOuts r
  | .links c0 us _ :: r => ("<p>".toList ++ (specInlines c0 ++ specUses us) ++ "</p>".toList) :: sOuts r
  | .block b _ :: r => specBlock b :: sOuts r

/-- which of the items that are not definitions are indented code blocks -/
def sCodes : List SItem → List Bool
  | [] => []
  | .defn _ :: r => sCodes r
  | .links _ _ _ :: r => false :: sCodes r
  | .block b _ :: r => DocSpec.isCode b :: sCodes r

/-- the conditions on an item, `defs` being the definitions of the whole document -/
def SItem.ok (defs : List InlineRef.DefSpec) : SItem → Prop
  | .defn d => d.ok 4 = true
  | .links c0 us st => us ≠ [] ∧ mixOK c0 = true ∧ (∀ u ∈ us, u.ok = true) ∧
      (∀ u ∈ us, Block.lookupRef (defs.map InlineRef.DefSpec.entry) (RefDef.normUse u.label) = some (u.url, u.title)) ∧
      startPlain (printLine c0 us st) = true ∧ (printLine c0 us st).all lineCh = true ∧
      Block.refMatchAt (printLine c0 us st) 0 = none
  | .block b _ => isMixBlock b = true ∧ wfBlock none b = true

/-- no code block directly after a code block (definitions between them do not count: they leave no element) -/
def noCodeCode : List Bool → Prop
  | a :: b :: r => (b = true → a = false) ∧ noCodeCode (b :: r)
  | _ => True

theorem noCodeAfterCode_of_codes : ∀ (bs : List BPiece), noCodeCode (bs.map (·.isCode)) → noCodeAfterCode bs
  | [], _ => trivial
  | [_], _ => trivial
  | a :: b :: r, h => ⟨h.1, noCodeAfterCode_of_codes (b :: r) h.2⟩

/-- **the items as pieces and definitions** -/
theorem items_bridge (defs : List InlineRef.DefSpec) (hd : ∀ d ∈ defs, d.ok 4 = true) :
    ∀ (ss : List SItem), (∀ s ∈ ss, s.ok defs) →
      ∃ is : List DItem, is.map DItem.lines = ss.map SItem.lines ∧ dfnsOf is = sDefs ss ∧
        (∀ p ∈ blksOf is, Piece2At {} ((defs.map InlineRef.DefSpec.entry).reverse) p) ∧
        (blksOf is).map (·.elem.out) = sOuts ss ∧ (blksOf is).map (·.b.isCode) = sCodes ss
  | [], _ => ⟨[], rfl, rfl, fun p hp => (by cases hp), rfl, rfl⟩
  | .defn d :: r, hok => by
    obtain ⟨is, h1, h2, h3, h4, h5⟩ := items_bridge defs hd r (fun s hs => hok s (List.mem_cons_of_mem _ hs))
    exact ⟨.dfn d :: is, by simp [DItem.lines, SItem.lines, h1], by simp [dfnsOf, sDefs, h2],
      fun p hp => h3 p (by simpa [blksOf] using hp), by simpa [blksOf, sOuts] using h4,
      by simpa [blksOf, sCodes] using h5⟩
  | .links c0 us st :: r, hok => by
    obtain ⟨is, h1, h2, h3, h4, h5⟩ := items_bridge defs hd r (fun s hs => hok s (List.mem_cons_of_mem _ hs))
    obtain ⟨hne, h0, hus, hlook, hstart, hchars, hnoref⟩ := hok (.links c0 us st) List.mem_cons_self
    obtain ⟨C0, rs, hrne, hline, hok0, hrs, hout, _⟩ := mixLine_chunks defs c0 us st hne h0 hus hlook
    rw [hline] at hstart hchars hnoref
    have hat := linePiece_at {} (by decide) escOK_ESC rbr_ESC defs hd C0 rs hrne hok0 hrs hstart hchars hnoref
    refine ⟨.blk (linePiece ESC C0 rs) :: is, ?_, by simp [dfnsOf, sDefs, h2], ?_, ?_, ?_⟩
    · simp only [List.map_cons, DItem.lines, SItem.lines, h1, linePiece, hline]
    · intro p hp
      simp only [blksOf, List.mem_cons] at hp
      rcases hp with rfl | hp
      · exact hat
      · exact h3 p hp
    · have := hout .xhtml
      rw [usOutF_xhtml, specUsesF_xhtml] at this
      simp only [blksOf, List.map_cons, sOuts, h4, linePiece, lineElem, this]
    · simp only [blksOf, List.map_cons, sCodes, h5, linePiece]
  | .block b st :: r, hok => by
    obtain ⟨is, h1, h2, h3, h4, h5⟩ := items_bridge defs hd r (fun s hs => hok s (List.mem_cons_of_mem _ hs))
    obtain ⟨hf, hw⟩ := hok (.block b st) List.mem_cons_self
    obtain ⟨p, st', hp, _, hpok, hpout, hpcode⟩ := printBlock_mix b hf hw st
    refine ⟨.blk p :: is, ?_, by simp [dfnsOf, sDefs, h2], ?_, ?_, ?_⟩
    · simp only [List.map_cons, DItem.lines, SItem.lines, h1, hp]
    · intro q hq
      simp only [blksOf, List.mem_cons] at hq
      rcases hq with rfl | hq
      · exact Piece2OK.at hpok _
      · exact h3 q hq
    · simp only [blksOf, List.map_cons, sOuts, h4, hpout]
    · simp only [blksOf, List.map_cons, sCodes, h5, hpcode]

/-- **`Markdown.convert` on a document of definitions, paragraphs with uses, and other blocks, in any order** -/
theorem convert_sitems (ss : List SItem) (hne : sOuts ss ≠ []) (hok : ∀ s ∈ ss, s.ok (sDefs ss))
    (hadj : noCodeCode (sCodes ss)) :
    Pipeline.convert {} (joinLines (flatLines (ss.map SItem.lines))) = .ok (joinOutS (sOuts ss)) := by
  have hd : ∀ d ∈ sDefs ss, d.ok 4 = true := by
    intro d hdm
    have : ∀ (l : List SItem), d ∈ sDefs l → SItem.defn d ∈ l := by
      intro l
      induction l with
      | nil => intro h; cases h
      | cons x r ih =>
        intro h
        cases x with
        | defn d' =>
          simp only [sDefs, List.mem_cons] at h
          rcases h with rfl | h
          · exact List.mem_cons_self
          · exact List.mem_cons_of_mem _ (ih h)
        | links _ _ _ => exact List.mem_cons_of_mem _ (ih h)
        | block _ _ => exact List.mem_cons_of_mem _ (ih h)
    exact hok _ (this ss hdm)
  obtain ⟨is, h1, h2, h3, h4, h5⟩ := items_bridge (sDefs ss) hd ss hok
  have hbne : blksOf is ≠ [] := by
    intro e; rw [e] at h4; exact hne h4.symm
  have := convert_items {} rfl rfl is hbne (by rw [h2]; exact hd) (by rw [h2]; exact h3)
    (noCodeAfterCode_of_codes _ (by rw [List.map_map]; exact (show (blksOf is).map (·.b.isCode) = sCodes ss from h5) ▸ hadj))
  rw [h1, h4] at this
  exact this

end MdVerif.RefText
