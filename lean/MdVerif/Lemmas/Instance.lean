/-
Helper lemmas for C11 (`Props/C11.lean`).  Core Lean only.
-/
import MdVerif.Model.Instance

namespace MdVerif.Instance

variable {Cfg F L Doc O : Type} (M : Machine Cfg F L Doc O)

/-! ### `reset` gives the fresh instance -/

/-- by definition: `reset` keeps nothing but the configuration -/
theorem reset_eq_fresh (x : Inst Cfg F L) : reset M x = fresh M x.cfg := rfl

theorem cfg_applyEv (x : Inst Cfg F L) (e : Ev Doc) : (applyEv M x e).cfg = x.cfg := by
  cases e <;> rfl

/-- the configuration never changes -/
theorem cfg_runHistory (h : List (Ev Doc)) (x : Inst Cfg F L) : (runHistory M x h).cfg = x.cfg := by
  induction h generalizing x with
  | nil => rfl
  | cons e h ih => simp only [runHistory, ih, cfg_applyEv]

/-! ### the leak is balanced (used for conversions without `reset()`, and for the pre-repair `resetOld`) -/

/-- configuration `c`, empty nesting state -/
def Clean (c : Cfg) (x : Inst Cfg F L) : Prop := x.cfg = c ∧ x.leak = M.leak0

theorem clean_fresh (c : Cfg) : Clean M c (fresh M c) := ⟨rfl, rfl⟩

theorem clean_reset {c : Cfg} {x : Inst Cfg F L} (h : Clean M c x) : Clean M c (reset M x) := ⟨h.1, rfl⟩

theorem clean_conv (hb : Balanced M) {c : Cfg} {x : Inst Cfg F L} (h : Clean M c x) (d : Doc)
    (hok : (conv M x d).2.isOk = true) : Clean M c (conv M x d).1 := by
  refine ⟨h.1, ?_⟩
  simp only [conv] at hok ⊢
  cases hr : (M.convert x.cfg (x.fields, x.leak) d).2 with
  | raised => rw [hr] at hok; cases hok
  | ok o =>
    have := hb x.cfg (x.fields, x.leak) d (M.convert x.cfg (x.fields, x.leak) d).1 o
      (by rw [← hr])
    rw [this]; exact h.2

/-- a history without a raising conversion keeps the nesting state empty -/
theorem clean_runHistory (hb : Balanced M) {c : Cfg} (h : List (Ev Doc)) (x : Inst Cfg F L) (hx : Clean M c x)
    (hn : NoRaise M x h) : Clean M c (runHistory M x h) := by
  induction h generalizing x with
  | nil => exact hx
  | cons e h ih =>
    cases e with
    | convert d => exact ih _ (clean_conv M hb hx d hn.1) hn.2
    | reset => exact ih _ (clean_reset M hx) hn

/-- on an instance with an empty nesting state the old `reset` did what the new one does -/
theorem resetOld_of_clean {c : Cfg} {x : Inst Cfg F L} (hx : Clean M c x) : resetOld M x = reset M x := by
  obtain ⟨cfg, fields, leak⟩ := x
  obtain ⟨_, h2⟩ := hx
  simp only at h2
  subst h2
  rfl

/-! ### several instances -/

theorem applySEv_getElem? (st : Store Cfg F L) (e : SEv Cfg Doc) (j : Nat) (hj : j < st.length) :
    (applySEv M st e)[j]? = (st[j]?).map (fun x => runHistory M x (eventsOf j [e])) := by
  cases e with
  | create c =>
    simp only [applySEv, eventsOf, runHistory]
    rw [List.getElem?_append_left hj]; simp
  | on i e =>
    simp only [applySEv, eventsOf]
    cases hi : st[i]? with
    | none =>
      have : i ≠ j := by
        intro h; subst h
        rw [List.getElem?_eq_getElem hj] at hi; cases hi
      simp [this, runHistory]
    | some x =>
      simp only [List.getElem?_set]
      by_cases h : i = j
      · subst h
        obtain ⟨_, rfl⟩ := List.getElem?_eq_some_iff.mp hi
        simp [hj, runHistory]
      · simp [h, runHistory]

theorem applySEv_length_le (st : Store Cfg F L) (e : SEv Cfg Doc) : st.length ≤ (applySEv M st e).length := by
  cases e with
  | create c => simp [applySEv]
  | on i e =>
    simp only [applySEv]
    cases st[i]? <;> simp

theorem runHistory_append (x : Inst Cfg F L) (h1 h2 : List (Ev Doc)) :
    runHistory M x (h1 ++ h2) = runHistory M (runHistory M x h1) h2 := by
  induction h1 generalizing x with
  | nil => rfl
  | cons e h ih => simp only [List.cons_append, runHistory, ih]

theorem eventsOf_cons (j : Nat) (e : SEv Cfg Doc) (h : List (SEv Cfg Doc)) :
    eventsOf j (e :: h) = eventsOf j [e] ++ eventsOf j h := by
  cases e with
  | create c => simp [eventsOf]
  | on i e =>
    simp only [eventsOf]
    split <;> simp

/-- in a store of instances, instance `j` is after any history where it is after its own events -/
theorem runStore_getElem? (h : List (SEv Cfg Doc)) (st : Store Cfg F L) (j : Nat) (hj : j < st.length) :
    (runStore M st h)[j]? = (st[j]?).map (fun x => runHistory M x (eventsOf j h)) := by
  induction h generalizing st with
  | nil => simp [runStore, eventsOf, runHistory]
  | cons e h ih =>
    simp only [runStore]
    rw [ih _ (Nat.lt_of_lt_of_le hj (applySEv_length_le M st e)), applySEv_getElem? M st e j hj,
      eventsOf_cons j e h]
    simp [runHistory_append, Function.comp_def]

end MdVerif.Instance
