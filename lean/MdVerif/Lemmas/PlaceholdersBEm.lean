/-
Helper lemmas for C10b, part 5: the emphasis patterns on the widened domain: the texts and tails of the built
elements are cut out of the data before delimiter characters, so that the backtick pattern still matches nowhere in
them and no backslash–backtick adjacency arises.  Core Lean only.
-/
import MdVerif.Lemmas.PlaceholdersBHI
import MdVerif.Lemmas.PlaceholdersEm

namespace MdVerif.NoCtl
open Py Inline

/-! ### more about the shape of a match -/

/-- the consumed text ends with a literal run (`acc`: the text before does) -/
def endsWithC : List Step → Bool → Bool
  | [], acc => acc
  | .lit _ :: st, _ => endsWithC st true
  | .notnext :: st, acc => endsWithC st acc
  | .nbW :: st, acc => endsWithC st acc
  | .nbC :: st, acc => endsWithC st acc
  | .naW :: st, acc => endsWithC st acc
  | .lazy _ _ :: st, _ => endsWithC st false
  | .greedy _ :: st, _ => endsWithC st false

theorem seqDecomp_last {c : Char} : ∀ {st : List Step} {suf : Str} {gs : List Str} {rest : Str} {acc : Bool},
    SeqDecomp c st suf gs rest → endsWithC st acc = true →
    ∃ p, suf = p ++ rest ∧ (p = [] → acc = true) ∧ (p ≠ [] → p.getLast? = some c) := by
  intro st
  induction st with
  | nil =>
    intro suf gs rest acc hd h
    obtain ⟨-, rfl⟩ := hd
    exact ⟨[], rfl, fun _ => h, fun hne => absurd rfl hne⟩
  | cons s st ih =>
    intro suf gs rest acc hd h
    cases s with
    | lit m =>
      obtain ⟨hm, suf', rfl, hd'⟩ := hd
      obtain ⟨p, rfl, h1, h2⟩ := ih hd' (by simpa [endsWithC] using h)
      refine ⟨List.replicate m c ++ p, by simp, ?_, ?_⟩
      · intro hp
        have := congrArg List.length hp
        simp at this; omega
      · intro _
        by_cases hp : p = []
        · subst hp
          have : m = (m - 1) + 1 := by omega
          rw [List.append_nil, this, List.replicate_succ', List.getLast?_concat]
        · rw [List.getLast?_append, h2 hp]; rfl
    | notnext => exact ih hd (by simpa [endsWithC] using h)
    | nbW => exact ih hd (by simpa [endsWithC] using h)
    | nbC => exact ih hd (by simpa [endsWithC] using h)
    | naW => exact ih hd (by simpa [endsWithC] using h)
    | lazy a b =>
      obtain ⟨g, gs', suf', rfl, rfl, hd'⟩ := hd
      obtain ⟨p, rfl, h1, h2⟩ := ih hd' (by simpa [endsWithC] using h)
      have hp : p ≠ [] := fun e => by have := h1 e; cases this
      refine ⟨g ++ p, by simp, fun e => absurd (List.append_eq_nil_iff.1 e).2 hp, fun _ => ?_⟩
      rw [List.getLast?_append, h2 hp]; rfl
    | greedy a =>
      obtain ⟨g, gs', suf', rfl, rfl, hd'⟩ := hd
      obtain ⟨p, rfl, h1, h2⟩ := ih hd' (by simpa [endsWithC] using h)
      have hp : p ≠ [] := fun e => by have := h1 e; cases this
      refine ⟨g ++ p, by simp, fun e => absurd (List.append_eq_nil_iff.1 e).2 hp, fun _ => ?_⟩
      rw [List.getLast?_append, h2 hp]; rfl

/-- every group is followed by the delimiter -/
theorem seqDecomp_cut {c : Char} : ∀ {st : List Step} {suf : Str} {gs : List Str} {rest : Str},
    SeqDecomp c st suf gs rest → GoodSteps st = true → ∀ g ∈ gs, ∃ X t, suf = X ++ g ++ c :: t := by
  intro st
  induction st with
  | nil => intro suf gs rest hd _ g hg; obtain ⟨rfl, -⟩ := hd; cases hg
  | cons s st ih =>
    intro suf gs rest hd hg g hgm
    cases s with
    | lit m =>
      obtain ⟨hm, suf', rfl, hd'⟩ := hd
      obtain ⟨X, t, rfl⟩ := ih hd' (by simpa [GoodSteps] using hg) g hgm
      exact ⟨List.replicate m c ++ X, t, by simp⟩
    | notnext => exact ih hd (by simpa [GoodSteps] using hg) g hgm
    | nbW => exact ih hd (by simpa [GoodSteps] using hg) g hgm
    | nbC => exact ih hd (by simpa [GoodSteps] using hg) g hgm
    | naW => exact ih hd (by simpa [GoodSteps] using hg) g hgm
    | lazy a b =>
      obtain ⟨g0, gs', suf', rfl, rfl, hd'⟩ := hd
      simp only [GoodSteps, Bool.and_eq_true] at hg
      rcases List.mem_cons.1 hgm with rfl | hgm
      · obtain ⟨t, rfl⟩ := seqDecomp_head hd' hg.1
        exact ⟨[], t, by simp⟩
      · obtain ⟨X, t, rfl⟩ := ih hd' hg.2 g hgm
        exact ⟨g0 ++ X, t, by simp⟩
    | greedy a =>
      obtain ⟨g0, gs', suf', rfl, rfl, hd'⟩ := hd
      simp only [GoodSteps, Bool.and_eq_true] at hg
      rcases List.mem_cons.1 hgm with rfl | hgm
      · obtain ⟨t, rfl⟩ := seqDecomp_head hd' hg.1
        exact ⟨[], t, by simp⟩
      · obtain ⟨X, t, rfl⟩ := ih hd' hg.2 g hgm
        exact ⟨g0 ++ X, t, by simp⟩

/-- a delimiter of the emphasis patterns: not part of a token, not a backtick, not a backslash -/
def DelimB (c : Char) : Prop := Delim c ∧ c ≠ '`' ∧ c ≠ '\\'

theorem delimB_star : DelimB '*' := ⟨delim_star, by decide, by decide⟩
theorem delimB_under : DelimB '_' := ⟨delim_under, by decide, by decide⟩

/-- a text in which the backtick pattern is done -/
def GrpOK (k : Nat) (g : Str) : Prop := WF true k g ∧ DomB g ∧ Adj3 g ∧ BtDone g

theorem grpOK_nil (k : Nat) : GrpOK k [] := ⟨.nil, domB_nil, adj3_nil, btDone_nil⟩

/-- a piece of a good text that ends before a non-backtick (or at the end) -/
theorem GrpOK.cut {k : Nat} {X S Y : Str} (h : GrpOK k (X ++ S ++ Y)) (hw : WF true k S)
    (hY : Y.head? ≠ some '`') : GrpOK k S :=
  ⟨hw, h.2.1.subset (fun c hc => by simp [hc]), h.2.2.1.infix ⟨X, Y, rfl⟩, btDone_cut h.2.2.1.1 h.2.2.2 hY⟩

/-- what a successful `pattern.match(data, pos)` gives on a good text -/
theorem seqMatch_specB {k : Nat} {c : Char} (hc : DelimB c) {steps : List Step}
    (hs1 : nextIsLit steps = true) (hs2 : GoodSteps steps = true) (hs3 : endsWithC steps false = true)
    {data : Str} {pos e : Nat} {groups : List Str} (h : seqMatch data pos c steps = some (e, groups)) :
    pos ≤ e ∧ e ≤ data.length ∧ (∃ t, data.drop pos = c :: t) ∧
    (∃ M, M ≠ [] ∧ data.drop pos = M ++ data.drop e ∧ M.head? = some c ∧ M.getLast? = some c ∧
      M.length = e - pos) ∧
    (GrpOK k data → WF true k (data.drop pos) → (∀ g ∈ groups, GrpOK k g) ∧ WF true k (data.drop e)) := by
  obtain ⟨m1, m2, m3, m4, m5⟩ := seqMatch_spec (esc := true) (k := k) hc.1 hs1 hs2 h
  unfold seqMatch at h
  split at h
  · cases h
  · rename_i hpos
    obtain ⟨gs', rest, h1, h2, h3⟩ := seqGo_spec c _ _ _ _ _ _ _ h
    simp only [List.reverse_nil, List.nil_append] at h1
    subst h1
    obtain ⟨p, hp, hp1, hp2⟩ := seqDecomp_last (acc := false) h2 hs3
    have hpne : p ≠ [] := fun e => Bool.noConfusion (hp1 e)
    have hlen := congrArg List.length hp
    simp only [List.length_drop, List.length_append] at hlen h3
    have he : e = pos + p.length := by omega
    have hrest : data.drop e = rest := by rw [he, ← List.drop_drop, hp, List.drop_left]
    obtain ⟨t, ht⟩ := m3
    refine ⟨m1, m2, ⟨t, ht⟩, ⟨p, hpne, by rw [hrest]; exact hp, ?_, hp2 hpne, by omega⟩, ?_⟩
    · rw [ht] at hp
      cases p with
      | nil => exact absurd rfl hpne
      | cons x r => simp only [List.cons_append, List.cons.injEq] at hp; simp [hp.1]
    · intro hg hw
      obtain ⟨g1, g2⟩ := m4 hw
      refine ⟨?_, g2⟩
      intro g hgm
      obtain ⟨X, t', hX⟩ := seqDecomp_cut h2 hs2 g hgm
      have hdata : data = (data.take pos ++ X) ++ g ++ (c :: t') := by
        rw [List.append_assoc, List.append_assoc, ← List.append_assoc X, ← hX, List.take_append_drop]
      rw [hdata] at hg
      exact hg.cut (g1 g hgm) (by simp [hc.2.1])

/-! ### `build`, `parseSub` on good texts -/

/-- an element built by the emphasis processors: not a `code`, nothing atomic -/
def ENode (k : Nat) (n : Node) : Prop :=
  tagNoCtl n.tag ∧ attrsNoCtl n.attrs ∧ n.tailAtomic = false ∧ StrB k n.tail ∧ isCode n = false ∧
  n.textAtomic = false ∧ StrB k n.text

theorem ENode.toS {k : Nat} {n : Node} (h : ENode k n) : SNodeB k n := by
  obtain ⟨h1, h2, h3, h4, h5, h6, h7⟩ := h
  refine ⟨h1, h2, h3, h4, ?_⟩
  rw [if_neg (by rw [h5]; decide)]
  exact ⟨h6, h7⟩

theorem grpOK_strB {k : Nat} {g : Str} (h : GrpOK k g) : StrB k (some g) := h

def ItemGoodB (item : EmItem) : Prop := ItemGood item ∧ endsWithC item.steps false = true

instance (item : EmItem) : Decidable (ItemGoodB item) := by unfold ItemGoodB; infer_instance

theorem emPatterns_goodB (c : Char) : ∀ item ∈ emPatterns c, ItemGoodB item := by
  unfold emPatterns
  split
  · decide
  · decide

theorem enode_mkEl (k : Nat) {tag : String} (h1 : NoCtl tag.toList) (h2 : tag.toList ≠ "code".toList) :
    (mkEl tag).Forall (ENode k) ∧ (mkEl tag).tail = none := by
  refine ⟨?_, rfl⟩
  rw [Node.forall_iff]
  refine ⟨⟨h1, by intro kv hkv; simp [mkEl] at hkv, rfl, strB_none k, ?_, rfl, strB_none k⟩, by simp [mkEl]⟩
  cases hc : isCode (mkEl tag) with
  | false => rfl
  | true =>
    simp only [isCode, mkEl, beq_iff_eq, Tag.name.injEq] at hc
    exact absurd hc h2

theorem enode_append {k : Nat} {p el : Node} (hp : p.Forall (ENode k)) (he : el.Forall (ENode k)) :
    (p.append el).Forall (ENode k) := by
  rw [Node.forall_iff] at hp ⊢
  refine ⟨hp.1, ?_⟩
  intro c hc
  simp only [Node.append, List.mem_append, List.mem_singleton] at hc
  rcases hc with hc | rfl
  · exact hp.2 c hc
  · exact he

theorem enode_setTextOrTail {k : Nat} {p : Node} (hp : p.Forall (ENode k)) (hasLast : Bool)
    {text : Str} (ht : GrpOK k text) :
    (setTextOrTail p hasLast text).Forall (ENode k) ∧ (setTextOrTail p hasLast text).tail = p.tail := by
  unfold setTextOrTail
  split
  · exact ⟨hp, rfl⟩
  · split
    · split
      · rename_i l hl
        refine ⟨?_, rfl⟩
        rw [Node.forall_iff] at hp ⊢
        refine ⟨hp.1, ?_⟩
        intro c hc
        simp only [Node.setLast, List.mem_append, List.mem_singleton] at hc
        rcases hc with hc | rfl
        · exact hp.2 c (List.dropLast_subset _ hc)
        · have hlm := hp.2 l (List.mem_of_mem_getLast? hl)
          rw [Node.forall_iff] at hlm ⊢
          obtain ⟨s1, s2, s3, s4, s5, s6, s7⟩ := hlm.1
          exact ⟨⟨s1, s2, rfl, grpOK_strB ht, s5, s6, s7⟩, hlm.2⟩
      · exact ⟨hp, rfl⟩
    · refine ⟨?_, rfl⟩
      rw [Node.forall_iff] at hp ⊢
      obtain ⟨s1, s2, s3, s4, s5, s6, s7⟩ := hp.1
      exact ⟨⟨s1, s2, s3, s4, s5, rfl, grpOK_strB ht⟩, hp.2⟩

/-- the contract of the nested `build_element` -/
def BuildOKB (k : Nat) (b : List Str → EmItem → Nat → Option Node) : Prop :=
  ∀ (groups : List Str) (item : EmItem) (idx : Nat) (el : Node), (∀ g ∈ groups, GrpOK k g) → ItemGoodB item →
    b groups item idx = some el → el.Forall (ENode k) ∧ el.tail = none

structure SubOKB (k : Nat) (data : Str) (s : SubSt) : Prop where
  le : s.offset ≤ s.pos
  wf : WF true k (data.drop s.offset)
  par : s.parent.Forall (ENode k)
  ptail : s.parent.tail = none

theorem subTryB_spec {k : Nat} {c : Char} (hc : DelimB c) {b : List Str → EmItem → Nat → Option Node}
    (hb : BuildOKB k b) {data : Str} (hd : GrpOK k data) (idx : Nat) :
    ∀ (items : List EmItem) (index : Nat) (s s' : SubSt), (∀ item ∈ items, ItemGoodB item) → SubOKB k data s →
      subTry b data c idx items index s = some s' → SubOKB k data s' := by
  intro items
  induction items with
  | nil =>
    intro index s s' _ hs h
    simp only [subTry, Option.some.injEq] at h
    subst h; exact hs
  | cons item rest ih =>
    intro index s s' hgood hs h
    have hrest : ∀ it ∈ rest, ItemGoodB it := fun it hit => hgood it (by simp [hit])
    simp only [subTry] at h
    split at h
    · exact ih _ _ _ hrest hs h
    · cases hm : seqMatch data s.pos c item.steps with
      | none => simp only [hm] at h; exact ih _ _ _ hrest hs h
      | some r =>
        obtain ⟨e, groups⟩ := r
        simp only [hm] at h
        cases hbd : b groups item index with
        | none => simp [hbd] at h
        | some el =>
          simp only [hbd] at h
          have hig := hgood item (by simp)
          obtain ⟨m1, m2, ⟨t, m3⟩, -, m4⟩ := seqMatch_specB (k := k) hc hig.1.1 hig.1.2.1 hig.2 hm
          have hsplit : data.drop s.offset = (data.drop s.offset).take (s.pos - s.offset) ++ data.drop s.pos := by
            have : data.drop s.pos = (data.drop s.offset).drop (s.pos - s.offset) := by
              rw [List.drop_drop]; congr 1; have := hs.le; omega
            rw [this, List.take_append_drop]
          have hw := hs.wf
          rw [hsplit, m3] at hw
          obtain ⟨w1, w2⟩ := hw.split (bnd_cons_right _ t hc.1.1 hc.1.2.2)
          rw [← m3] at w2
          obtain ⟨g1, g2⟩ := m4 hd w2
          have hslice : slice data s.offset s.pos = (data.drop s.offset).take (s.pos - s.offset) := by
            simp only [slice]; rw [List.drop_take]
          obtain ⟨hel, -⟩ := hb groups item index el g1 hig hbd
          have hpiece : GrpOK k ((data.drop s.offset).take (s.pos - s.offset)) := by
            have hdata : data = data.take s.offset ++ (data.drop s.offset).take (s.pos - s.offset) ++ (c :: t) := by
              rw [List.append_assoc, ← m3, ← hsplit, List.take_append_drop]
            have hd' := hd
            rw [hdata] at hd'
            exact hd'.cut w1 (by simp [hc.2.1])
          obtain ⟨q1, q2⟩ := enode_setTextOrTail hs.par s.hasLast (text := slice data s.offset s.pos)
            (by rw [hslice]; exact hpiece)
          refine ih _ _ _ hrest ⟨Nat.le_refl _, g2, enode_append q1 hel, ?_⟩ h
          show (Node.append _ el).tail = none
          simp only [Node.append]
          rw [q2]; exact hs.ptail

theorem subLoopB_spec {k : Nat} {c : Char} (hc : DelimB c) {b : List Str → EmItem → Nat → Option Node}
    (hb : BuildOKB k b) {data : Str} (hd : GrpOK k data) (idx : Nat) :
    ∀ (g : Nat) (s s' : SubSt), SubOKB k data s → subLoop b data c idx g s = some s' → SubOKB k data s' := by
  intro g
  induction g with
  | zero => intro s s' _ h; simp [subLoop] at h
  | succ g ih =>
    intro s s' hs h
    simp only [subLoop] at h
    split at h
    · split at h
      · cases ht : subTry b data c idx (emPatterns c) 0 { s with matched := false } with
        | none => simp [ht] at h
        | some s1 =>
          simp only [ht] at h
          have hs0 : SubOKB k data { s with matched := false } := ⟨hs.le, hs.wf, hs.par, hs.ptail⟩
          have hs1 := subTryB_spec hc hb hd idx (emPatterns c) 0 _ s1 (emPatterns_goodB c) hs0 ht
          refine ih _ _ ?_ h
          split
          · exact hs1
          · exact ⟨Nat.le_succ_of_le hs1.le, hs1.wf, hs1.par, hs1.ptail⟩
      · exact ih { s with pos := s.pos + 1 } _ ⟨Nat.le_succ_of_le hs.le, hs.wf, hs.par, hs.ptail⟩ h
    · simp only [Option.some.injEq] at h
      subst h; exact hs

theorem parseSubB_spec {k : Nat} {c : Char} (hc : DelimB c) {b : List Str → EmItem → Nat → Option Node}
    (hb : BuildOKB k b) {data : Str} (hs : GrpOK k data) {parent : Node} (hp : parent.Forall (ENode k))
    (hpt : parent.tail = none) (hasLast : Bool) (idx : Nat) {el : Node}
    (h : parseSub b data parent hasLast idx c = some el) : el.Forall (ENode k) ∧ el.tail = none := by
  unfold parseSub at h
  cases hl : subLoop b data c idx (data.length + 1) ⟨0, 0, parent, hasLast, false⟩ with
  | none => simp [hl] at h
  | some s =>
    simp only [hl, Option.some.injEq] at h
    subst h
    have := subLoopB_spec hc hb hs idx _ _ _ ⟨Nat.le_refl _, by simpa using hs.1, hp, hpt⟩ hl
    have hpiece : GrpOK k (data.drop s.offset) := by
      have hdata : data = data.take s.offset ++ data.drop s.offset ++ [] := by simp
      have hs' := hs
      rw [hdata] at hs'
      exact hs'.cut this.wf (by simp)
    obtain ⟨q1, q2⟩ := enode_setTextOrTail this.par s.hasLast hpiece
    exact ⟨q1, by rw [q2]; exact this.ptail⟩

theorem buildB_spec {k : Nat} {c : Char} (hc : DelimB c) : ∀ f, BuildOKB k (build c f) := by
  intro f
  induction f with
  | zero => intro groups item idx el _ _ h; simp [build] at h
  | succ f ih =>
    intro groups item idx el hg hig h
    have hg0 : GrpOK k (groups.headD []) := by
      cases groups with
      | nil => exact grpOK_nil k
      | cons g r => exact hg g (by simp)
    have hsub : ∀ (d : Str) (p : Node) (hl : Bool) (r : Node), GrpOK k d → p.Forall (ENode k) → p.tail = none →
        parseSub (fun g i j => build c f g i j) d p hl idx c = some r → r.Forall (ENode k) ∧ r.tail = none :=
      fun d p hl r hd hp hpt hr => parseSubB_spec hc ih hd hp hpt hl idx hr
    obtain ⟨t1, t1'⟩ := enode_mkEl k hig.1.2.2.1 hig.1.2.2.2.2.1
    obtain ⟨t2, t2'⟩ := enode_mkEl k hig.1.2.2.2.1 hig.1.2.2.2.2.2
    simp only [build] at h
    split at h
    · exact hsub _ _ _ _ hg0 t1 t1' h
    · split at h
      · cases h
      · rename_i el2 h2
        obtain ⟨hel2, -⟩ := hsub _ _ _ _ hg0 t2 t2' h2
        have hel1 := enode_append t1 hel2
        have hel1t : ((mkEl item.tag1).append el2).tail = none := rfl
        split at h
        · rename_i x g1
          exact hsub _ _ _ _ (hg g1 (by simp)) hel1 hel1t h
        · simp only [Option.some.injEq] at h
          subst h; exact ⟨hel1, hel1t⟩
    · split at h
      · rename_i el1 el2 h1 h2
        simp only [Option.some.injEq] at h
        subst h
        have hg1 : GrpOK k (groups.getD 1 []) := by
          cases hx : groups[1]? with
          | none => simp [List.getD, hx]; exact grpOK_nil k
          | some g => simp [List.getD, hx]; exact hg g (List.mem_of_getElem? hx)
        obtain ⟨a1, a2⟩ := hsub _ _ _ _ hg0 t1 t1' h1
        obtain ⟨b1, -⟩ := hsub _ _ _ _ hg1 t2 t2' h2
        exact ⟨enode_append a1 b1, by simp only [Node.append]; exact a2⟩
      · cases h


/-! ### splicing at a match, after the backtick pattern -/

theorem btInv_succ {pi : Nat} (hpi : 1 ≤ pi) {s : Str} : BtInv pi s ↔ BtDone s := by
  unfold BtInv; rw [if_neg (by omega)]

/-- the data around a match `M` that starts and ends with characters that are neither inside a token nor backticks -/
theorem spliceB_of_span {pi k : Nat} (hpi : 1 ≤ pi) {data pre M post : Str} {si : Nat} (hd : DataB pi k data)
    (hsuf : data.drop si = pre ++ M ++ post) (hM : M ≠ [])
    (hh : ∀ c, M.head? = some c → inner c = false ∧ c ≠ ETX ∧ c ≠ '`')
    (hl : ∀ c, M.getLast? = some c → inner c = false ∧ c ≠ STX ∧ c ≠ '`') :
    SpliceB k pi data (si + pre.length) ((si + pre.length + M.length : Nat) : Int) := by
  obtain ⟨sp, -⟩ := splice_of_span hd.wf hsuf hM (fun c hc => ⟨(hh c hc).1, (hh c hc).2.1⟩)
    (fun c hc => ⟨(hl c hc).1, (hl c hc).2.1⟩)
  obtain ⟨h1, h2, -, h4⟩ := span_of_suffix hsuf hM
  refine ⟨sp.1, sp.2, ?_⟩
  intro T hT
  rw [pyDrop_natCast, h1, h2]
  have hadj := hd.adj
  have hbt := (btInv_succ hpi).1 hd.bt
  rw [h4] at hadj hbt
  refine ⟨adj3_replace hadj hT, (btInv_succ hpi).2 (btDone_replace hadj.1 hbt hM ?_ ?_ hT.1)⟩
  · intro hc; exact (hh _ hc).2.2 rfl
  · intro hc; exact (hl _ hc).2.2 rfl

/-! ### `emHandle`, `emScan` -/

theorem emHandleB_spec {pi k : Nat} (hpi : 1 ≤ pi) {c : Char} (hc : DelimB c) {data : Str} (hd : DataB pi k data)
    (i : Nat) :
    ∀ (items : List EmItem) (idx : Nat) (el : Node) (e : Nat), (∀ item ∈ items, ItemGoodB item) →
      emHandle data i c items idx = some (some (el, e)) →
      el.Forall (ENode k) ∧ el.tail = none ∧ SpliceB k pi data i (e : Int) := by
  intro items
  induction items with
  | nil => intro idx el e _ h; simp [emHandle] at h
  | cons item rest ih =>
    intro idx el e hgood h
    simp only [emHandle] at h
    cases hm : seqMatch data i c item.steps with
    | none => simp only [hm] at h; exact ih _ _ _ (fun it hit => hgood it (by simp [hit])) h
    | some r =>
      obtain ⟨e', groups⟩ := r
      simp only [hm] at h
      cases hb : build c (data.length + 2) groups item idx with
      | none => simp [hb] at h
      | some el' =>
        simp only [hb, Option.some.injEq, Prod.mk.injEq] at h
        obtain ⟨rfl, rfl⟩ := h
        have hig := hgood item (by simp)
        obtain ⟨m1, m2, ⟨t, m3⟩, ⟨M, hM, hMe, hMh, hMl, hMlen⟩, m4⟩ :=
          seqMatch_specB (k := k) hc hig.1.1 hig.1.2.1 hig.2 hm
        have hgrp : GrpOK k data := ⟨hd.wf, hd.dom, hd.adj, (btInv_succ hpi).1 hd.bt⟩
        have hw' := hd.wf
        rw [← List.take_append_drop i data, m3] at hw'
        obtain ⟨w1, w2⟩ := hw'.split (bnd_cons_right _ t hc.1.1 hc.1.2.2)
        rw [← m3] at w2
        obtain ⟨g1, g2⟩ := m4 hgrp w2
        obtain ⟨b1, b2⟩ := buildB_spec hc _ groups item idx el' g1 hig hb
        refine ⟨b1, b2, ?_⟩
        have hsuf : data.drop i = [] ++ M ++ data.drop e' := by simpa using hMe
        have := spliceB_of_span (pi := pi) (k := k) hpi hd hsuf hM
          (by intro x hx; rw [hMh] at hx; cases hx; exact ⟨hc.1.1, hc.1.2.2, hc.2.1⟩)
          (by intro x hx; rw [hMl] at hx; cases hx; exact ⟨hc.1.1, hc.1.2.1, hc.2.1⟩)
        simp only [List.length_nil, Nat.add_zero] at this
        have he : i + M.length = e' := by omega
        rw [he] at this
        exact this

theorem emScanB_spec {pi k : Nat} (hpi : 1 ≤ pi) {c : Char} (hc : DelimB c) {data : Str} (hd : DataB pi k data) :
    ∀ (suf : Str) (i : Nat) (el : Node) (s e : Nat), emScan data c suf i = some (some (el, s, e)) →
      el.Forall (ENode k) ∧ el.tail = none ∧ SpliceB k pi data s (e : Int) := by
  intro suf
  induction suf with
  | nil => intro i el s e h; simp [emScan] at h
  | cons ch r ih =>
    intro i el s e h
    simp only [emScan] at h
    split at h
    · cases hh : emHandle data i c (emPatterns c) 0 with
      | none => simp [hh] at h
      | some x =>
        cases x with
        | none => simp only [hh] at h; exact ih _ _ _ _ h
        | some p =>
          obtain ⟨el', e'⟩ := p
          simp only [hh, Option.some.injEq, Prod.mk.injEq] at h
          obtain ⟨rfl, rfl, rfl⟩ := h
          exact emHandleB_spec hpi hc hd i _ _ _ _ (emPatterns_goodB c) hh
    · exact ih _ _ _ _ h

theorem em_stash_okB {pi k : Nat} (hpi : 1 ≤ pi) {c : Char} (hc : DelimB c) {data : Str} (hd : DataB pi k data)
    {suf : Str} {i : Nat} {el : Node} {s e : Nat} (h : emScan data c suf i = some (some (el, s, e))) :
    FoundOKB k pi data ⟨.el el, s, e⟩ := by
  obtain ⟨h1, h2, h3⟩ := emScanB_spec hpi hc hd _ _ _ _ _ h
  exact ⟨h3, Node.Forall.mono (fun _ hn => hn.toS) el h1, h2, fun h0 => by omega⟩

/-! ### escape, line break, not_strong -/

theorem sepOK3_escToken (v : Nat) : SepOK3 (escToken v) := by
  have hin : ∀ c ∈ escToken v, c ≠ '`' ∧ c ≠ '\\' ∧ c ≠ '!' ∧ c ≠ '[' ∧ c ≠ ']' ∧ c ≠ '(' := by
    intro c hm
    simp only [escToken, List.cons_append, List.mem_cons, List.mem_append, List.not_mem_nil, or_false] at hm
    rcases hm with h | h | h
    · subst h; decide
    · have hd := natToDec_digits v _ h
      refine ⟨?_, ?_, ?_, ?_, ?_, ?_⟩ <;> (rintro rfl; exact absurd hd (by decide))
    · subst h; decide
  exact ⟨⟨by simp [escToken], fun h => (hin _ h).1 rfl, fun h => (hin _ h).2.1 rfl⟩, fun h => (hin _ h).2.2.1 rfl,
    fun h => (hin _ h).2.2.2.1 rfl, fun h => (hin _ h).2.2.2.2.1 rfl, fun h => (hin _ h).2.2.2.2.2 rfl⟩

theorem sepOK_escToken (v : Nat) : SepOK (escToken v) := by
  refine ⟨by simp [escToken], ?_, ?_⟩ <;>
  · intro hm
    simp only [escToken, List.cons_append, List.mem_cons, List.mem_append, List.not_mem_nil, or_false] at hm
    rcases hm with h | h | h
    · exact absurd h (by decide)
    · exact absurd (natToDec_digits v _ h) (by decide)
    · exact absurd h (by decide)

theorem escape_stash_okB {cfg : Cfg} (hcfg : EscOK cfg.esc) {pi k : Nat} (hpi : 1 ≤ pi) {data : Str} {si j : Nat}
    {ch : Char} (hd : DataB pi k data) (h : escScan (data.drop si) si = some (j, ch)) :
    FoundOKB k pi data ⟨if cfg.esc.contains ch then .str (STX :: natToDec ch.toNat ++ [ETX]) else .none, j, j + 2⟩ := by
  obtain ⟨pre, post, h1, rfl⟩ := escScan_spec _ _ _ _ h
  unfold FoundOKB
  simp only
  split
  · exact hpi
  · rename_i s hn
    split at hn
    · rename_i hmem
      simp only [PNode.str.injEq] at hn
      subst hn
      have hch := hcfg ch (by simpa using hmem)
      have hbt : ch ≠ '`' := by
        rintro rfl
        have := hd.adj.1
        rw [noAdj_iff] at this
        have hdata : data = (data.take si ++ pre) ++ '\\' :: '`' :: post := by
          have := List.take_append_drop si data
          rw [h1] at this
          exact this.symm.trans (by simp)
        exact this _ _ hdata
      have hsp := spliceB_of_span (M := ['\\', ch]) hpi hd h1 (by simp)
        (by intro c hc; simp at hc; subst hc; decide)
        (by intro c hc; simp at hc; subst hc; exact ⟨hch.2.2, hch.1, hbt⟩)
      have e : ((si + pre.length : Nat) : Int) + 2 = ((si + pre.length + ['\\', ch].length : Nat) : Int) := by simp
      refine ⟨by rw [e]; exact hsp, ?_, ?_, ?_⟩
      · exact wf_escToken (okCode_toNat hch.1 hch.2.1)
      · exact domB_escToken _
      · exact sepOK3_escToken _
    · cases hn
  · rename_i n hn
    split at hn <;> cases hn

theorem brNode_snodeB (k : Nat) : (mkEl "br").Forall (SNodeB k) ∧ (mkEl "br").tail = none := by
  obtain ⟨h1, h2⟩ := enode_mkEl k (tag := "br") (by decide) (by decide)
  exact ⟨Node.Forall.mono (fun _ hn => hn.toS) _ h1, h2⟩

theorem linebreak_stash_okB {pi k : Nat} (hpi : 1 ≤ pi) {data : Str} {si off : Nat} (hd : DataB pi k data)
    (h : find [' ', ' ', '\n'] (data.drop si) = some off) :
    FoundOKB k pi data ⟨.el (mkEl "br"), si + off, si + off + 3⟩ := by
  obtain ⟨pre, post, hsuf, rfl, -⟩ := find_some_iff.1 h
  have := spliceB_of_span (M := [' ', ' ', '\n']) hpi hd hsuf (by simp)
    (by intro c hc; simp at hc; subst hc; decide) (by intro c hc; simp at hc; subst hc; decide)
  have e : ((si + pre.length : Nat) : Int) + 3 = ((si + pre.length + [' ', ' ', '\n'].length : Nat) : Int) := by
    simp
  refine ⟨?_, (brNode_snodeB k).1, (brNode_snodeB k).2, fun h0 => by omega⟩
  show SpliceB k pi data (si + pre.length) (((si + pre.length : Nat) : Int) + 3)
  rw [e]; exact this

theorem not_strong_stash_okB {pi k : Nat} (hpi : 1 ≤ pi) {data : Str} {si s e : Nat} (hd : DataB pi k data)
    (h : nsFind data si = some (s, e)) : FoundOKB k pi data ⟨.str (slice data s e), s, e⟩ := by
  unfold nsFind at h
  split at h
  · cases h
  · obtain ⟨pre, M, post, h1, rfl, rfl, h4, h5⟩ := nsScan_spec _ _ _ _ _ h
    have hin : ∀ x ∈ M, inner x = false ∧ x ≠ ETX ∧ x ≠ STX ∧ x ≠ '`' ∧ x ≠ '\\' ∧ x ≠ '!' ∧ x ≠ '[' ∧ x ≠ ']' ∧
        x ≠ '(' := by
      intro x hx
      rcases h5 x hx with rfl | rfl <;> decide
    have hsp := spliceB_of_span hpi hd h1 h4
      (by intro c hc; have := hin c (List.mem_of_mem_head? hc); exact ⟨this.1, this.2.1, this.2.2.2.1⟩)
      (by intro c hc; have := hin c (List.mem_of_mem_getLast? hc); exact ⟨this.1, this.2.2.1, this.2.2.2.1⟩)
    obtain ⟨-, -, hsl, hdata⟩ := span_of_suffix h1 h4
    refine ⟨hsp, ?_, ?_, ?_⟩
    · show WF true 0 (slice data (si + pre.length) (si + pre.length + M.length))
      rw [hsl]
      exact WF.of_noCtl (noCtl_iff.2 fun x hx => ⟨(hin x hx).2.2.1, (hin x hx).2.1⟩)
    · show DomB (slice data (si + pre.length) (si + pre.length + M.length))
      rw [hsl]
      exact hd.dom.subset (fun c hc => by rw [hdata]; simp [hc])
    · show SepOK3 (slice data (si + pre.length) (si + pre.length + M.length))
      rw [hsl]
      exact ⟨⟨h4, fun hm => (hin _ hm).2.2.2.1 rfl, fun hm => (hin _ hm).2.2.2.2.1 rfl⟩,
        fun hm => (hin _ hm).2.2.2.2.2.1 rfl, fun hm => (hin _ hm).2.2.2.2.2.2.1 rfl,
        fun hm => (hin _ hm).2.2.2.2.2.2.2.1 rfl, fun hm => (hin _ hm).2.2.2.2.2.2.2.2 rfl⟩


end MdVerif.NoCtl
