/-
Helper lemmas for C03 with extensions enabled (`Props/C03X.lean`), continued: a paragraph with one CODE SPAN through
`PipelineX.convertX x` for every flag set `x`.  Core Lean only.

H. `fenced_code` on a one-line document (`fenceFindFrom_oneLine`)
I. the extended dispatcher and block parser on a one-line block that starts with a letter or a backtick
   (`dispatchXT_head`, `parseDocumentXT_line1`)
J. the inline processor over the extended pattern table on the paragraph (`applyPatternX_span`,
   `handleInlineTopX_span`, `visitChildX_span`, `runX_spanTree`)
K. the tree processors of the extensions on the paragraph (`attrList_spanTreeP`, `toc_spanTreeP`, `treeStages_spanTree`)
L. `convertX_span`
-/
import MdVerif.Lemmas.CodeXTree
import MdVerif.Lemmas.RenderXBlock

namespace MdVerif.CodeX
open Py Block BlockExt CodeLaw Pipeline PipelineX

/-! ### H. `fenced_code` on a one-line document -/

theorem closeLines_nil (fence : Str) (hf : fence ≠ []) (ls : List Str) (h : ∀ l ∈ ls, l = []) :
    ∀ off, Fenced.closeLines fence off ls = none := by
  induction ls with
  | nil => intro off; rfl
  | cons l r ih =>
    intro off
    have hl : l = [] := h l List.mem_cons_self
    subst hl
    have : Fenced.isClose fence [] = false := by
      cases fence with
      | nil => exact absurd rfl hf
      | cons c f => simp [Fenced.isClose, startsWith]
    simp only [Fenced.closeLines, this, Bool.false_eq_true, if_false]
    exact ih (fun l hl => h l (List.mem_cons_of_mem _ hl)) _

/-- a suffix of `l ++ "\n\n"` (no line feed in `l`) that starts with a line feed is `"\n\n"` or `"\n"` -/
theorem nl_suffix_oneLine (l body : Str) (hnl : '\n' ∉ l) (h : '\n' :: body <:+ l ++ ['\n', '\n']) :
    body = ['\n'] ∨ body = [] := by
  have h2 : ['\n', '\n'] <:+ l ++ ['\n', '\n'] := List.suffix_append _ _
  rcases List.suffix_or_suffix_of_suffix h h2 with h3 | h3
  · rw [List.suffix_cons_iff] at h3
    rcases h3 with h3 | h3
    · left; simpa using h3
    · rw [List.suffix_cons_iff] at h3
      rcases h3 with h3 | h3
      · right; simpa using h3
      · simp at h3
  · obtain ⟨q, hq⟩ := h3
    obtain ⟨pre, hpre⟩ := h
    rw [← hq, ← List.append_assoc] at hpre
    have hl : pre ++ q = l := List.append_cancel_right hpre
    cases q with
    | nil => left; simpa using hq.symm
    | cons d q' =>
      have hd : d = '\n' := by simpa using (List.cons.inj hq).1
      exact absurd (by rw [← hl, hd]; simp) hnl

theorem tryCand_oneLine (n : Nat) (fence a : Str) (c : Fenced.Cand) (hf : fence ≠ [])
    (ha : ∀ body, '\n' :: body <:+ a → body = ['\n'] ∨ body = []) : Fenced.tryCand n fence a c = none := by
  unfold Fenced.tryCand
  split
  · rename_i body heq
    have hs : '\n' :: body <:+ a := heq ▸ List.drop_suffix _ _
    have hl : ∀ l ∈ lines body, l = [] := by
      rcases ha body hs with rfl | rfl
      · intro l hl; simp [lines, splitC] at hl; rcases hl with rfl | rfl <;> rfl
      · intro l hl; simp [lines, splitC] at hl; exact hl
    rw [closeLines_nil fence hf _ hl]
  · rfl

/-- the fence pattern needs a second line: at the start of a one-line document it does not match -/
theorem fenceAt_oneLine (l : Str) (hnl : '\n' ∉ l) : Fenced.fenceAt (l ++ ['\n', '\n']) = none := by
  unfold Fenced.fenceAt
  simp only
  split
  · rfl
  · rename_i hn
    have hn3 : 3 ≤ Fenced.fenceRun (l ++ ['\n', '\n']) := by omega
    apply List.findSome?_eq_none_iff.2
    intro c _
    apply tryCand_oneLine
    · intro e
      have := congrArg List.length e
      simp only [List.length_take, List.length_nil] at this
      have hlen : (l ++ ['\n', '\n']).length ≥ 2 := by simp
      omega
    · intro body hb
      exact nl_suffix_oneLine l body hnl (hb.trans (List.drop_suffix _ _))

/-- `FENCED_BLOCK_RE.search` finds nothing in a one-line document, even when the line starts with a fence -/
theorem fenceFindFrom_oneLine (c : Char) (r : Str) (hnl : '\n' ∉ c :: r) :
    Fenced.fenceFindFrom (c :: r ++ ['\n', '\n']) 0 = none := by
  have hc : c ≠ '\n' := fun e => hnl (by simp [e])
  have hr : '\n' ∉ r := fun e => hnl (List.mem_cons_of_mem _ e)
  unfold Fenced.fenceFindFrom
  simp only [decide_true, Bool.true_or, List.drop_zero]
  have hat := fenceAt_oneLine (c :: r) hnl
  simp only [List.cons_append] at hat ⊢
  simp only [Fenced.fenceScan, if_true, hat]
  rw [show (decide (c = '\n')) = false from by simpa using hc]
  apply Fenced.fenceScan_none_of_lines
  have hl : lines (r ++ ['\n', '\n']) = [r, [], []] := by
    simp only [lines]
    rw [show r ++ ['\n', '\n'] = r ++ '\n' :: ['\n'] from rfl, splitC_append_sep_of_no_sep hr]
    rfl
  rw [hl]
  simp [Fenced.plainLine, startsWith]

/-! ### I. a one-line block that starts with a letter or a backtick -/

/-- what the lemmas need of the first character: a letter or a backtick is none of these -/
structure HeadOk (c : Char) : Prop where
  sp : isSpace c = false
  esc : c ∉ lineEsc
  dec : isDecimal c = false
  bang : c ≠ '!'
  colon : c ≠ ':'

theorem headOk_of (c : Char) (h : isAsciiAlpha c = true ∨ c = '`') : HeadOk c := by
  rcases h with h | rfl
  · refine ⟨alpha_not_space h, ?_, alpha_not_decimal h, alpha_ne h (by decide), alpha_ne h (by decide)⟩
    intro hm
    simp only [lineEsc, List.mem_cons, List.not_mem_nil, or_false] at hm
    rcases hm with rfl | rfl | rfl | rfl | rfl | rfl | rfl <;> exact absurd h (by decide)
  · exact ⟨by decide, by decide, by decide, by decide, by decide⟩

open FencedPipe RenderX Escape in
/-- **a one-line block that starts with a letter or a backtick is a paragraph, whatever extensions are enabled and
    whatever else the line contains** (`!!!`, `[^1]:`, `*[A]:`, `:`, `|` …): every block-level extension needs its
    syntax at the start of a line, or a second line -/
theorem dispatchXT_head (tables : Bool) (cfg : XCfg) (tab : Nat) (htab : 0 < tab) (pb : PB) (refs : Refs) (parent : Node)
    (c : Char) (r : Str) (rest : List Str) (hnl : '\n' ∉ c :: r) (hc : HeadOk c)
    (hadm : ∀ sib, parent.last? = some sib → isAdmDiv sib = false) :
    dispatchXT tables cfg tab pb [] refs parent (c :: r) rest = some (paraP [] refs parent (c :: r) rest) := by
  have hc1 : c ≠ ' ' := by intro e; have := hc.sp; subst e; revert this; decide
  have hc2 := hc.esc
  have hc3 := hc.dec
  have hl : LineStartsOk lineEsc (c :: r) = true := by
    simp only [LineStartsOk, startOk_of_head c r hc1 hc2, startsOkNl_of_no_nl _ _ hnl, Bool.and_self]
  have hcn : c ≠ '\n' := fun e => hnl (by simp [e])
  obtain ⟨n, rfl⟩ : ∃ n, tab = n + 1 := ⟨tab - 1, by omega⟩
  have e1 : ((c :: r).isEmpty || startsWith (c :: r) ['\n']) = false := by simp [startsWith, hcn]
  have e2 : startsWith (c :: r) (spaces (n + 1)) = false := by
    simp [spaces, List.replicate_succ, hc1]
  have e3 : setextMatch (c :: r) = false := by
    have : find ['\n'] (c :: r) = none := by
      rw [find_none_iff]; intro pre post e; apply hnl; rw [e]; simp
    simp [setextMatch, this]
  have hmem : ∀ d ∈ lineEsc, c ≠ d := fun d hd e => hc2 (e ▸ hd)
  have e4 : ∀ ol ul, listItemMatch (n + 1) ol ul (c :: r) = none := by
    intro ol ul
    have h0 : countPrefix ' ' (some (n + 1 - 1)) (c :: r) = 0 := countPrefix_eq_zero (by simpa using hc1) _
    have ho : olMarker (c :: r) = none := by simp [olMarker, spanLen, hc3]
    have hu : ulMarker (c :: r) = none := by
      simp [ulMarker, hmem '*' (by decide), hmem '+' (by decide), hmem '-' (by decide)]
    simp only [listItemMatch, h0, List.drop_zero, ho, hu]
    cases ol <;> cases ul <;> rfl
  have hA : (if cfg.admonition then admTest (n + 1) parent (c :: r) else none) = none := by
    split
    · refine admTest_noBang (lineHeads_line _ (c :: r) hnl (fun d hd => ?_)) hadm
      simp only [List.head?_cons, Option.some.injEq] at hd
      subst hd
      simpa using hc.bang
    · rfl
  have hT : (if tables then Tables.tableTest (c :: r) else none) = none := by
    split
    · exact tableTest_line _ hnl
    · rfl
  have hdef : defSearch (c :: r) = none := by
    apply defSearch_line_none _ hnl
    have h0 : countPrefix ' ' (some 3) (c :: r) = 0 := countPrefix_eq_zero (by simpa using hc1) _
    simp only [defAt, h0, List.drop_zero, hc.colon, if_false]
  have hfn : footnoteP refs (c :: r) rest = none := by
    have : fnSearch (c :: r) = none := by
      apply lineSearch_line_none _ _ hnl _ (by simp)
      have h0 : countPrefix ' ' (some 3) (c :: r) = 0 := countPrefix_eq_zero (by simpa using hc1) _
      simp [fnAt, h0, hmem '[' (by decide)]
    simp only [footnoteP, this]
  have hab : abbrP refs (c :: r) rest = .declined := by
    have : abbrSearch (c :: r) = none := by
      apply lineSearch_line_none _ _ hnl _ (by simp)
      simp [abbrAt, startsWith, hmem '*' (by decide)]
    simp only [abbrP, this]
  unfold dispatchXT
  rw [hA]
  simp only [tailEmptyT, e1, e2, indentTestX, hT, e3, tailList, e4, tailDef, hdef, tailQuote,
    tailFootnote, hfn, tailAbbr, hab, tailRef, Bool.false_eq_true, if_false, Bool.false_and,
    Bool.and_false, Option.isSome_none, ite_self,
    hashSearch_eq_none (esc := lineEsc) (by decide) _ hl,
    hrSearch_eq_none (esc := lineEsc) (by decide) (by decide) (by decide) _ hl,
    quoteSearch_eq_none (esc := lineEsc) (by decide) _ hl, refSearch_eq_none (esc := lineEsc) (by decide) _ hl]

open FencedPipe Escape in
/-- the extended block parser on a one-line document that starts with a letter or a backtick: one paragraph -/
theorem parseDocumentXT_line1 (tables : Bool) (cfg : XCfg) (tab : Nat) (htab : 0 < tab) (c : Char) (r : Str)
    (hnl : '\n' ∉ c :: r) (hc : HeadOk c) :
    parseDocumentXT tables cfg tab (c :: r ++ ['\n', '\n']) = some ((Node.el "div").append (mkText "p" (c :: r)), []) := by
  have hsplit : splitS ['\n', '\n'] (c :: r ++ ['\n', '\n']) = [c :: r, []] := by
    have := splitAux_tight true (c :: r) (noEmptyLine_of_no_nl c r hnl) []
    simpa [splitS, splitAux] using this
  obtain ⟨f, hf⟩ : ∃ f, fuelForX (c :: r ++ ['\n', '\n']).length = f + 2 :=
    ⟨fuelForX (c :: r ++ ['\n', '\n']).length - 2, by unfold fuelForX; omega⟩
  have hv : startsVisible (c :: r) = true := by simpa [startsVisible] using hc.sp
  unfold parseDocumentXT parseChunk
  rw [hsplit, hf, parseBlocksXT_step,
    dispatchXT_head tables cfg tab htab _ [] _ c r _ hnl hc (fun sib hs => by simp [Node.last?, Node.el] at hs),
    paraP_visible _ _ _ _ hv]
  simp only
  rw [parseBlocksXT_step,
    dispatchXT_nop _ _ _ _ _ _ _ _ (Or.inl rfl) (by decide)
      (fun sib hs => by rw [last_append] at hs; cases hs; exact isAdmDiv_p _),
    emptyP_plain _ _ _ _ (fun sib hs => by rw [last_append] at hs; cases hs; exact preCode_p _)]
  simp [parseBlocksXT]

/-! ### J. the inline processor over the extended pattern table on a paragraph with one code span -/

theorem table_zero (fn wl nl : Bool) : (InlineX.table fn wl nl)[0]? = some (.core 0) := by
  cases fn <;> cases wl <;> cases nl <;> rfl

open InlineX Inline in
/-- the first entry of the table is the backtick pattern, whatever extensions are enabled: it finds the span -/
theorem findX_span (xc : InlineX.XCfg) (k : Nat) (a body b : Str) (x : InlineX.XSt) (ha : noTickBs a)
    (hb : spanBodyOk (k + 1) body = true) (hbh : b.head? ≠ some '`') :
    findX xc (.core 0) (spanData k a body b) 0 x =
      some (some ⟨.el (codeSpan (Code.codeEscape (strip body))), a.length,
        ((a.length + (k + 1) + body.length + (k + 1) : Nat) : Int)⟩, x) := by
  simp only [findX, findMatch_span xc.cfg k a body b x.st ha hb hbh]

open InlineX Inline in
/-- `__applyPattern` for the backtick pattern: the span is replaced by the next placeholder, `<code>` with the
    atomic text `code_escape(body.strip())` goes into the stash — no other pattern, core or extension, is run on it -/
theorem applyPatternX_span (xc : InlineX.XCfg) (hi : HIX) (h0 : xc.table[0]? = some (.core 0)) (k : Nat)
    (a body b : Str) (x : InlineX.XSt) (ha : noTickBs a) (hb : spanBodyOk (k + 1) body = true) (hbh : b.head? ≠ some '`') :
    applyPatternX xc hi 0 (spanData k a body b) 0 x =
      some (a ++ placeholder x.st.stash.length ++ b, true, 0,
        { x with st := { x.st with stash := x.st.stash ++ [.node (codeSpan (Code.codeEscape (strip body)))] } }) := by
  unfold applyPatternX
  rw [h0]
  simp only [findX_span xc k a body b x ha hb hbh]
  have h1 : (spanData k a body b).take a.length = a := by simp [spanData]
  have h2 : pyDrop (spanData k a body b) ((a.length + (k + 1) + body.length + (k + 1) : Nat) : Int) = b := by
    unfold pyDrop pyIdx
    rw [spanData_length]
    have : ¬ (((a.length + (k + 1) + body.length + (k + 1) : Nat) : Int) < 0) := by omega
    simp only [this, if_false, Int.toNat_natCast]
    rw [Nat.min_eq_left (by omega)]
    unfold spanData
    rw [← List.append_assoc, ← List.append_assoc, ← List.append_assoc, List.drop_left' (by simp [ticks]; omega)]
  simp only [codeSpan, Option.isSome_some, Bool.and_self, if_true, stashX, stashNode, h1, h2]

open InlineX Inline FencedPipe in
/-- `__handleInline` on the paragraph text: the span is stashed, and on what is left — words and a placeholder — no
    pattern of the table matches: not the footnote pattern, not the wikilink pattern, not nl2br -/
theorem handleInlineTopX_span (xc : InlineX.XCfg) (h0 : xc.table[0]? = some (.core 0)) (k : Nat) (a body b : Str)
    (x : InlineX.XSt) (ha : noTickBs a) (hb : spanBodyOk (k + 1) body = true) (hbh : b.head? ≠ some '`')
    (hq : Quiet (a ++ placeholder x.st.stash.length ++ b)) :
    handleInlineTopX xc (spanData k a body b) x =
      some (a ++ placeholder x.st.stash.length ++ b,
        { x with st := { x.st with stash := x.st.stash ++ [.node (codeSpan (Code.codeEscape (strip body)))] } }) := by
  have hcount : 1 ≤ xc.table.length := by
    cases ht : xc.table with
    | nil => rw [ht] at h0; simp at h0
    | cons _ _ => simp
  unfold handleInlineTopX
  rw [show (spanData k a body b).length + xc.table.length + 4 = ((spanData k a body b).length + xc.table.length + 3) + 1
    from rfl]
  unfold handleInlineX
  obtain ⟨g, hg, hg2⟩ : ∃ g, loopFuelX xc.table.length (spanData k a body b).length = g + 1 ∧ xc.table.length + 1 ≤ g := by
    have h1 : xc.table.length * 4 ≤ loopFuelX xc.table.length (spanData k a body b).length := by
      unfold loopFuelX
      have : 4 ≤ ((spanData k a body b).length + 2) * ((spanData k a body b).length + 2) := by
        have : 2 ≤ (spanData k a body b).length + 2 := by omega
        calc 4 = 2 * 2 := rfl
          _ ≤ _ := Nat.mul_le_mul this this
      rw [Nat.mul_assoc]
      exact Nat.mul_le_mul_left _ this
    exact ⟨loopFuelX xc.table.length (spanData k a body b).length - 1, by omega, by omega⟩
  rw [hg]
  simp only [hiLoopX, show (0 : Nat) < xc.table.length by omega, if_true,
    applyPatternX_span xc _ h0 k a body b x ha hb hbh]
  exact hiLoopX_quiet _ _ _ _ (fun pi => applyPatternX_quiet xc _ pi _ _ hq) xc.table.length 0 g (by omega) hg2

open InlineX Inline in
theorem visitChildX_span (xc : InlineX.XCfg) (h0 : xc.table[0]? = some (.core 0)) (k : Nat) (a body b : Str)
    (html : List Str) (ha : noTickBs a) (hb : spanBodyOk (k + 1) body = true) (hbh : b.head? ≠ some '`')
    (hq : Quiet (a ++ placeholder 0 ++ b)) (hsa : STX ∉ a) (hsb : STX ∉ b) (hst : STX ∉ Code.codeEscape (strip body)) :
    visitChildX xc (Block.mkText "p" (spanData k a body b)) { x := { st := { html := html } } } =
      some (spanP a (Code.codeEscape (strip body)) b, [],
        { x := { st := { stash := [.node (codeSpan (Code.codeEscape (strip body)))], html := html } },
          pushes := [[0, 0]] }) := by
  have hne : Node.truthy (Block.mkText "p" (spanData k a body b)).text = true := by
    obtain ⟨c, r, hcr⟩ : ∃ c r, spanData k a body b = c :: r := by
      cases h : spanData k a body b with
      | nil => have := congrArg List.length h; rw [spanData_length] at this; simp at this
      | cons c r => exact ⟨c, r, rfl⟩
    simp [Block.mkText, hcr, Node.truthy]
  unfold visitChildX
  simp only [hne, show (Block.mkText "p" (spanData k a body b)).textAtomic = false from rfl, Bool.not_false,
    Bool.and_self, if_true]
  have h1 := handleInlineTopX_span xc h0 k a body b { st := { html := html } } ha hb hbh hq
  simp only [List.length_nil, List.nil_append] at h1
  rw [show (Block.mkText "p" (spanData k a body b)).text.getD [] = spanData k a body b from rfl, h1]
  simp only
  rw [ppTop_span html a b _ _ rfl rfl hsa hsb hst]
  simp [Block.mkText, Node.el, Node.truthy, spanP, List.range_succ]

open InlineX Inline in
/-- **the inline processor with the extension patterns on a paragraph with one code span**: the tree of the core
    processor — text, `<code>` with the atomic escaped body, tail —, one stash entry -/
theorem runX_spanTree (xc : InlineX.XCfg) (h0 : xc.table[0]? = some (.core 0)) (k : Nat) (a body b : Str)
    (ha : noTickBs a) (hb : spanBodyOk (k + 1) body = true) (hbh : b.head? ≠ some '`')
    (hq : Quiet (a ++ placeholder 0 ++ b)) (hsa : STX ∉ a) (hsb : STX ∉ b) (hst : STX ∉ Code.codeEscape (strip body)) :
    runX xc ((Node.el "div").append (Block.mkText "p" (spanData k a body b))) [] =
      some ((Node.el "div").append (spanP a (Code.codeEscape (strip body)) b),
        { st := { stash := [.node (codeSpan (Code.codeEscape (strip body)))], html := [] } }) := by
  unfold runX
  generalize hf : Inline.runFuel ((Node.el "div").append (Block.mkText "p" (spanData k a body b))) = f
  obtain ⟨g, rfl⟩ : ∃ g, f = g + 3 := ⟨f - 3, by simp [Inline.runFuel] at hf; omega⟩
  have hv := visitChildX_span xc h0 k a body b [] ha hb hbh hq hsa hsb hst
  simp [runLoopX, Inline.getAt, visitLoopX, Inline.withIdx, Node.append, Node.el, hv,
    Inline.setAt, spanP, codeSpan]

/-! ### K. the tree processors of the extensions on the paragraph -/

theorem duplicates_spanTree (fn : Footnotes.State) (a t b : Str) :
    FootnotesTree.duplicates fn ((Node.el "div").append (spanP a t b)) = some ((Node.el "div").append (spanP a t b)) := by
  simp [FootnotesTree.duplicates, FootnotesTree.duplicatesKids, Node.append, Node.el, spanP, codeSpan]

theorem spanTreeP_eq (a t b : Str) :
    spanTreeP a t b = ⟨.name ['d', 'i', 'v'], [], some ['\n'], false,
      [⟨.name ['p'], [], optStr a, false,
        [⟨.name ['c', 'o', 'd', 'e'], [], some t, true, [], optStr b, false⟩], some ['\n'], false⟩],
      some ['\n'], false⟩ := rfl

theorem baseAt_none_head (ok : Str → Bool) (s : Str) (h : s.head? ≠ some '{') : AttrList.baseAt ok s = none := by
  cases s with
  | nil => rfl
  | cons c r =>
    have hc : c ≠ '{' := fun e => h (by simp [e])
    unfold AttrList.baseAt
    split
    · rename_i heq; exact absurd (List.cons.inj heq).1 hc
    · rename_i heq; exact absurd (List.cons.inj heq).1 hc
    · rfl

open FencedPipe in
/-- `attr_list` on the paragraph: the strings it reads are the `"\n"` tails, the tail of `<code>` (block rule of `p`
    and inline rule of `code`) or — when that is empty — the text of `p`; never the text of `code` -/
theorem attrList_spanTreeP (a t b : Str) (ha : '\n' ∉ a) (hb : '\n' ∉ b) (hbh : b.head? ≠ some '{') :
    AttrListTree.run TreeProc.defaultBlockLevel (spanTreeP a t b) = spanTreeP a t b := by
  have hbs : AttrList.blockSearch ['\n'] = none := by decide
  have hba := blockApply_none [] ['\n'] hbs
  have hbaA := blockApply_none [] a (blockSearch_none a ha)
  have hbaB := blockApply_none [] b (blockSearch_none b hb)
  have him : AttrList.inlineMatch b = none := baseAt_none_head _ b hbh
  have hbl : TreeProc.isBlockLevel TreeProc.defaultBlockLevel (.name ['d', 'i', 'v']) = true := CodeLaw.bl_div
  have hbl2 : TreeProc.isBlockLevel TreeProc.defaultBlockLevel (.name ['p']) = true := CodeLaw.bl_p
  have hbl3 : TreeProc.isBlockLevel TreeProc.defaultBlockLevel (.name ['c', 'o', 'd', 'e']) = false := CodeLaw.bl_code
  have hh : AttrListTree.isCellTag (.name ['d', 'i', 'v']) = false := by decide
  have hh2 : AttrListTree.isHeaderTag (.name ['d', 'i', 'v']) = false := by decide
  have hli : (Tag.name ['d', 'i', 'v'] == Tag.name "li".toList) = false := by decide
  have hh' : AttrListTree.isCellTag (.name ['p']) = false := by decide
  have hh2' : AttrListTree.isHeaderTag (.name ['p']) = false := by decide
  have hli' : (Tag.name ['p'] == Tag.name "li".toList) = false := by decide
  rw [spanTreeP_eq]
  unfold AttrListTree.run
  cases a with
  | nil =>
    cases b with
    | nil =>
      simp only [AttrListTree.attrNode, AttrListTree.attrKids, hbl, hbl2, hbl3, if_true, AttrListTree.blockRule,
        List.isEmpty_cons, Bool.not_false, Bool.true_and, Node.truthy, hh, hh2, hli, hh', hh2', hli', Bool.or_self, hba,
        Bool.false_eq_true, if_false, Option.getD_some, List.getLast?_singleton, Option.bind_some, optStr,
        List.isEmpty_nil, List.length_cons, List.length_nil, Bool.and_false]
    | cons d b' =>
      simp only [AttrListTree.attrNode, AttrListTree.attrKids, hbl, hbl2, hbl3, if_true, AttrListTree.blockRule,
        List.isEmpty_cons, Bool.not_false, Bool.true_and, Node.truthy, hh, hh2, hli, hh', hh2', hli', Bool.or_self, hba,
        hbaB, him, Bool.false_eq_true, if_false, Option.getD_some, List.getLast?_singleton, Option.bind_some, optStr,
        List.isEmpty_nil, List.length_cons, List.length_nil, Bool.and_false]
  | cons c a' =>
    cases b with
    | nil =>
      simp only [AttrListTree.attrNode, AttrListTree.attrKids, hbl, hbl2, hbl3, if_true, AttrListTree.blockRule,
        List.isEmpty_cons, Bool.not_false, Bool.true_and, Node.truthy, hh, hh2, hli, hh', hh2', hli', Bool.or_self, hba,
        hbaA, Bool.false_eq_true, if_false, Option.getD_some, List.getLast?_singleton, Option.bind_some, optStr,
        List.isEmpty_nil, List.length_cons, List.length_nil, Bool.and_false]
    | cons d b' =>
      simp only [AttrListTree.attrNode, AttrListTree.attrKids, hbl, hbl2, hbl3, if_true, AttrListTree.blockRule,
        List.isEmpty_cons, Bool.not_false, Bool.true_and, Node.truthy, hh, hh2, hli, hh', hh2', hli', Bool.or_self, hba,
        hbaB, him, Bool.false_eq_true, if_false, Option.getD_some, List.getLast?_singleton, Option.bind_some, optStr,
        List.isEmpty_nil, List.length_cons, List.length_nil, Bool.and_false]

/-- `toc` finds no heading, and the paragraph is not the marker: it has a child -/
theorem toc_spanTreeP (env : TocTree.Env) (a t b : Str) :
    TocTree.run env TreeProc.defaultBlockLevel (spanTreeP a t b) = .ok (spanTreeP a t b) := by
  unfold TocTree.run
  have hids : TocTree.usedIds (TocTree.idsOf (spanTreeP a t b)) = some [] := by
    rw [spanTreeP_eq]
    simp [TocTree.idsOf, TocTree.idsOfKids, TocTree.usedIds]
  have h1 : ∀ st, TocTree.walkNode env (spanTreeP a t b) st = .ok (spanTreeP a t b, st) := by
    intro st
    rw [spanTreeP_eq]
    simp [TocTree.walkNode, TocTree.walkKids, TocTree.isHeaderTag]
  rw [hids]
  simp only
  rw [h1]
  simp only
  rw [spanTreeP_eq]
  simp [TocTree.replNode, TocTree.replKids, TocTree.isHeaderTag]

/-- the tree processors between the inline stage and the serializer, extensions included, on the paragraph -/
theorem treeStages_spanTree (x : Exts) (tab : Nat) (fmt : Ser.Fmt) (a t b : Str) (post : Str → Option Str)
    (ha : '\n' ∉ a) (hb : '\n' ∉ b) (hbh : b.head? ≠ some '{') :
    (let u := TreeProc.prettify ((Node.el "div").append (spanP a t b)) ({ tab := tab, fmt := fmt } : Pipeline.Cfg).blockLevel
     let u := if x.attrList then AttrListTree.run ({ tab := tab, fmt := fmt } : Pipeline.Cfg).blockLevel u else u
     let u := if x.abbr then AbbrTree.run (BlockExt.abbrsOf []) u else u
     let tocStage : TocTree.R Node :=
       if x.toc then
         TocTree.run { fmt := ({ tab := tab, fmt := fmt } : Pipeline.Cfg).fmt, post := post }
           ({ tab := tab, fmt := fmt } : Pipeline.Cfg).blockLevel u
       else .ok u
     tocStage) = .ok (spanTreeP a t b) := by
  have h1 : TreeProc.prettify ((Node.el "div").append (spanP a t b)) ({ tab := tab, fmt := fmt } : Pipeline.Cfg).blockLevel =
      spanTreeP a t b := prettify_spanTree a t b
  have h2 : AttrListTree.run ({ tab := tab, fmt := fmt } : Pipeline.Cfg).blockLevel (spanTreeP a t b) =
      spanTreeP a t b := attrList_spanTreeP a t b ha hb hbh
  have h3 : AbbrTree.run (BlockExt.abbrsOf []) (spanTreeP a t b) = spanTreeP a t b := rfl
  have h4 : ∀ env, TocTree.run env ({ tab := tab, fmt := fmt } : Pipeline.Cfg).blockLevel (spanTreeP a t b) =
      .ok (spanTreeP a t b) := fun env => toc_spanTreeP env a t b
  simp only [h1]
  cases x.attrList <;> cases x.abbr <;> cases x.toc <;>
    simp only [Bool.false_eq_true, if_false, if_true, h2, h3, h4]

/-! ### L. `Markdown.convert` with extensions on a paragraph with one code span -/

/-- **`Markdown.convert` with ANY set of the eleven modelled extensions on a paragraph with one code span**: the
    answer of the core pipeline.  `hadm`: see `convertX_codeBlock`. -/
theorem convertX_span (x : Exts) (tab : Nat) (htab : 0 < tab) (fmt : Ser.Fmt) (k : Nat) (a body b : Str)
    (h : SpanDoc k a body b)
    (hadm : (x.admonition && admNonAscii (spanSource (k + 1) a body b ++ ['\n', '\n'])) = false) :
    convertX x { tab := tab, fmt := fmt } (spanSource (k + 1) a body b) =
      .ok ("<p>".toList ++ a ++ "<code>".toList ++ Code.codeEscape (strip body) ++ "</code>".toList ++ b ++
        "</p>".toList) := by
  obtain ⟨ha, hb, hchars, hrefs, hbody⟩ := h
  simp only [isSpanContext, Bool.and_eq_true, bne_iff_ne, ne_eq] at ha
  obtain ⟨haw, hah⟩ := ha
  have hbw := hb
  rw [spanSource_eq] at hadm ⊢
  have hw : ∀ s : Str, s.all isWordSp = true → ∀ c ∈ s, isWordSp c = true := fun s hs c hc => List.all_eq_true.1 hs c hc
  have hcc : ∀ c ∈ body, isCodeChar c = true := fun c hc => List.all_eq_true.1 hchars c hc
  -- characters of the source
  have hsrc : ∀ c ∈ spanData k a body b,
      c ≠ '<' ∧ c ≠ '\n' ∧ c ≠ '\r' ∧ c ≠ '\t' ∧ c ≠ Char.ofNat 2 ∧ c ≠ Char.ofNat 3 := by
    intro c hc
    rcases mem_spanData hc with h | rfl | h | h
    · have := hw a haw c h
      exact ⟨wordSp_ne this (by decide), wordSp_ne this (by decide), wordSp_ne this (by decide),
        wordSp_ne this (by decide), wordSp_ne this (by decide), wordSp_ne this (by decide)⟩
    · decide
    · exact isCodeChar_spec (hcc c h)
    · have := hw b hbw c h
      exact ⟨wordSp_ne this (by decide), wordSp_ne this (by decide), wordSp_ne this (by decide),
        wordSp_ne this (by decide), wordSp_ne this (by decide), wordSp_ne this (by decide)⟩
  have hnl : '\n' ∉ spanData k a body b := fun hm => (hsrc _ hm).2.1 rfl
  -- the first character
  obtain ⟨c0, r0, hcr, hc0⟩ : ∃ c0 r0, spanData k a body b = c0 :: r0 ∧ (isAsciiAlpha c0 = true ∨ c0 = '`') := by
    cases a with
    | nil => exact ⟨'`', _, rfl, Or.inr rfl⟩
    | cons d a' =>
      refine ⟨d, _, rfl, ?_⟩
      rcases wordSp_cases (hw _ haw d List.mem_cons_self) with h | h
      · exact Or.inl h
      · exact absurd (by simp [h]) hah
  have hhead := headOk_of c0 hc0
  have hc0s : isSpace c0 = false := hhead.sp
  -- the stages
  have hlt : (spanData k a body b).contains '<' = false := by
    rw [Bool.eq_false_iff]; intro hc
    exact (hsrc '<' (by simpa using hc)).1 rfl
  have hblank : Normalize.isBlankDoc (spanData k a body b) = false := by
    rw [Normalize.isBlankDoc_eq_all, hcr]; simp [hc0s]
  have hnorm : Normalize.normalize tab (spanData k a body b) = spanData k a body b ++ ['\n', '\n'] := by
    apply normalize_of_clean
    · intro c hc
      obtain ⟨_, _, a3, a4, a5, a6⟩ := hsrc c hc
      exact ⟨a5, a6, a3, a4⟩
    · have := ws_some_line_of_head c0 r0 ['\n'] (hcr ▸ hnl) hc0s
      rw [hcr]
      simpa [Normalize.wsLinesAux] using this
  have hrc : refsClosed (spanData k a body b ++ ['\n', '\n']) = true := by
    have hna : '&' ∉ a := fun hm => wordSp_ne (hw a haw _ hm) (by decide) rfl
    have hnb : '&' ∉ b ++ ['\n', '\n'] := by
      intro hm
      rcases List.mem_append.1 hm with hm | hm
      · exact wordSp_ne (hw b hbw _ hm) (by decide) rfl
      · revert hm; decide
    have e : spanData k a body b ++ ['\n', '\n'] =
        a ++ '`' :: (ticks k ++ (body ++ '`' :: (ticks k ++ (b ++ ['\n', '\n'])))) := by
      simp [spanData, ticks, List.replicate_succ]
    rw [e]
    apply refsClosed_append a '`' _ (by decide) (refsClosed_of_no_amp a hna)
    apply refsClosed_cons_of_ne (by decide)
    apply refsClosed_ticks
    apply refsClosed_append body '`' _ (by decide) hrefs
    apply refsClosed_cons_of_ne (by decide)
    apply refsClosed_ticks
    exact refsClosed_of_no_amp _ hnb
  have hprep : prepareX x { tab := tab, fmt := fmt } (spanData k a body b) =
      .ok (spanData k a body b ++ ['\n', '\n'], []) :=
    prepareX_plain x tab fmt _ _ hnorm hadm
      (by rw [hcr]; exact fenceFindFrom_oneLine c0 r0 (hcr ▸ hnl)) hrc
  -- what the inline lemmas need
  have hstx : ∀ s : Str, s.all isWordSp = true → Char.ofNat 2 ∉ s := fun s hs hm => wordSp_ne (hw s hs _ hm) (by decide) rfl
  have hnoNl : ∀ s : Str, s.all isWordSp = true → '\n' ∉ s := fun s hs hm => wordSp_ne (hw s hs _ hm) (by decide) rfl
  have hta : noTickBs a := fun c hc => ⟨wordSp_ne (hw a haw c hc) (by decide), wordSp_ne (hw a haw c hc) (by decide)⟩
  have hbh : b.head? ≠ some '`' := by
    cases b with
    | nil => simp
    | cons d b' =>
      have := hw _ hbw d List.mem_cons_self
      simpa using wordSp_ne this (by decide)
  have hbh2 : b.head? ≠ some '{' := by
    cases b with
    | nil => simp
    | cons d b' =>
      have := hw _ hbw d List.mem_cons_self
      simpa using wordSp_ne this (by decide)
  have hq : Quiet (a ++ Inline.placeholder 0 ++ b) :=
    ((quiet_wordSp a haw).append quiet_placeholder0).append (quiet_wordSp b hbw)
  have hsc : Char.ofNat 2 ∉ Code.codeEscape (strip body) := by
    intro hm
    rcases mem_codeEscape hm with hm | hm
    · exact (isCodeChar_spec (hcc _ ((strip_infix body).subset hm))).2.2.2.2.1 rfl
    · revert hm; decide
  have hmk : ∀ pc : Block.Refs → Str → Option (Node × Block.Refs),
      FootnotesTree.makeDiv pc fnCount (BlockExt.footnotesOf []) [] = .ok (none, []) := fun _ => rfl
  have htree : treeX x { tab := tab, fmt := fmt } (spanData k a body b) =
      .ok (spanTreeP a (Code.codeEscape (strip body)) b) [] := by
    unfold treeX
    rw [hprep]
    simp only
    rw [hcr, parseDocumentXT_line1 x.tables x.blockCfg tab htab c0 r0 (hcr ▸ hnl) hhead, ← hcr]
    simp only [hmk, ite_self]
    rw [runX_spanTree _ (table_zero _ _ _) k a body b hta hbody hbh hq (hstx a haw) (hstx b hbw) hsc]
    simp only
    have hdup : (if x.footnotes then FootnotesTree.duplicates Footnotes.State.empty
          ((Node.el "div").append (spanP a (Code.codeEscape (strip body)) b))
        else some ((Node.el "div").append (spanP a (Code.codeEscape (strip body)) b))) =
        some ((Node.el "div").append (spanP a (Code.codeEscape (strip body)) b)) := by
      split
      · exact duplicates_spanTree _ _ _ _
      · rfl
    rw [hdup]
    simp only
    have hstages := treeStages_spanTree x tab fmt a (Code.codeEscape (strip body)) b
      (postX x { tab := tab, fmt := fmt } []) (hnoNl a haw) (hnoNl b hbw) hbh2
    simp only at hstages
    rw [hstages]
    simp only
    rw [unescape_spanTree _ _ _ (hstx a haw) (hstx b hbw)]
  unfold convertX
  rw [hlt, hblank, htree]
  simp only [Exts.unsupported, Bool.false_eq_true, if_false]
  rw [serialize_spanTree]
  have hpl : ∀ s : Str, s.all isWordSp = true → ∀ c ∈ s, c ≠ '&' ∧ c ≠ '<' ∧ c ≠ '>' := fun s hs c hc =>
    ⟨wordSp_ne (hw s hs c hc) (by decide), wordSp_ne (hw s hs c hc) (by decide), wordSp_ne (hw s hs c hc) (by decide)⟩
  rw [escCdata_plain a (hpl a haw), escCdata_plain b (hpl b hbw), Code.codeEscape_onepass, Code.escCdata_codeEscape1,
    ← Code.codeEscape_onepass]
  have hs2 : Post.STX ∉ "\n<p>".toList ++ a ++ "<code>".toList ++ Code.codeEscape (strip body) ++ "</code>".toList ++ b ++
      "</p>\n".toList := by
    intro hmem
    simp only [List.mem_append] at hmem
    rcases hmem with (((((hmem | hmem) | hmem) | hmem) | hmem) | hmem) | hmem
    · revert hmem; decide
    · exact hstx a haw hmem
    · revert hmem; decide
    · exact hsc hmem
    · revert hmem; decide
    · exact hstx b hbw hmem
    · revert hmem; decide
  rw [finishX_div _ _ _ hs2]
  have e : "\n<p>".toList ++ a ++ "<code>".toList ++ Code.codeEscape (strip body) ++ "</code>".toList ++ b ++
      "</p>\n".toList = '\n' :: '<' :: ("p>".toList ++ a ++ "<code>".toList ++ Code.codeEscape (strip body) ++
        "</code>".toList ++ b ++ "</p".toList) ++ ['>', '\n'] := by simp
  rw [e, strip_tagged]
  have e2 : strip ('<' :: ("p>".toList ++ a ++ "<code>".toList ++ Code.codeEscape (strip body) ++
        "</code>".toList ++ b ++ "</p".toList) ++ ['>']) =
      '<' :: ("p>".toList ++ a ++ "<code>".toList ++ Code.codeEscape (strip body) ++
        "</code>".toList ++ b ++ "</p".toList) ++ ['>'] := by
    apply strip_eq_self
    · intro c hc
      simp at hc; subst hc; decide
    · intro c hc
      rw [List.getLast?_append] at hc
      simp at hc; subst hc; decide
  rw [e2]
  simp

end MdVerif.CodeX
