/-
Helper lemmas for C10 on the extension model, part 3: the contract `FMSpecXB` of the table entries for the tables
`InlineX.table …`.

* `.core i`: from `fmSpecB` (`Lemmas/PlaceholdersBFM.lean`); the table index and the core index agree on "is it 0"
  (`TableOK`), which is all that `DataB` / `FoundOKB` look at;
* `.nl` (nl2br): the match is the single newline, the node a `br` element.

Core Lean only.
-/
import MdVerif.Lemmas.PlaceholdersXRun
import MdVerif.Lemmas.PlaceholdersBFM

namespace MdVerif.NoCtlX
open MdVerif.NoCtl Py Inline InlineX

/-! ### the contract, entry by entry -/

/-- the contract of the entry `k` standing at table index `pi` -/
def EntrySpecXB (xc : XCfg) (pi : Nat) (k : PatK) : Prop :=
  ∀ (data : Str) (si : Nat) (x : XSt) (fo : Option Found) (x' : XSt),
    (pi = 0 → si = 0) → DataB pi x.st.stash.length data → findX xc k data si x = some (fo, x') →
    x'.st.html = x.st.html ∧ x'.st.stash = x.st.stash ∧
      (∀ f, fo = some f → FoundOKB x.st.stash.length pi data f) ∧ (fo = none → BtDone data)

theorem fmSpecXB_of_entries {xc : XCfg} (h : ∀ pi k, xc.table[pi]? = some k → EntrySpecXB xc pi k) : FMSpecXB xc :=
  fun pi k data si x fo x' hk hsi hd hf => h pi k hk data si x fo x' hsi hd hf

/-! ### transfer between the table index and the core index -/

theorem btInv_congr {pi i : Nat} (h : pi = 0 ↔ i = 0) : BtInv pi = BtInv i := by
  funext s
  unfold BtInv
  by_cases hp : pi = 0
  · rw [if_pos hp, if_pos (h.1 hp)]
  · rw [if_neg hp, if_neg (fun hi => hp (h.2 hi))]

theorem dataB_congr {pi i k : Nat} (h : pi = 0 ↔ i = 0) {d : Str} (hd : DataB pi k d) : DataB i k d :=
  ⟨hd.wf, hd.dom, hd.adj, by rw [← btInv_congr h]; exact hd.bt⟩

theorem spliceB_congr {pi i k : Nat} (h : pi = 0 ↔ i = 0) {data : Str} {start : Nat} {stop : Int}
    (hs : SpliceB k i data start stop) : SpliceB k pi data start stop := by
  unfold SpliceB at hs ⊢
  rw [btInv_congr h]; exact hs

theorem foundOKB_congr {pi i k : Nat} (h : pi = 0 ↔ i = 0) {data : Str} {f : Found}
    (hf : FoundOKB k i data f) : FoundOKB k pi data f := by
  unfold FoundOKB at hf ⊢
  cases hn : f.node with
  | none =>
    simp only [hn] at hf ⊢
    rcases Nat.eq_zero_or_pos pi with h0 | h0
    · have := h.1 h0; omega
    · exact h0
  | str s =>
    simp only [hn] at hf ⊢
    exact ⟨spliceB_congr h hf.1, hf.2⟩
  | el n =>
    simp only [hn] at hf ⊢
    exact ⟨spliceB_congr h hf.1, hf.2.1, hf.2.2.1, fun h0 => hf.2.2.2 (h.1 h0)⟩

/-! ### core entries -/

theorem entry_core {xc : XCfg} (hcfg : EscOK xc.cfg.esc) (hrefs : RefsOK xc.cfg) {pi i : Nat}
    (hi : i < patternCount) (hz : pi = 0 ↔ i = 0) : EntrySpecXB xc pi (.core i) := by
  intro data si x fo x' hsi hd h
  simp only [findX] at h
  cases hf : findMatch xc.cfg i data si x.st with
  | none => simp [hf] at h
  | some r =>
    obtain ⟨fo', st'⟩ := r
    simp only [hf, Option.some.injEq, Prod.mk.injEq] at h
    obtain ⟨rfl, rfl⟩ := h
    obtain ⟨e, h1, h2⟩ := fmSpecB hcfg hrefs i data si x.st fo' st' hi (fun h0 => hsi (hz.2 h0))
      (dataB_congr hz hd) hf
    subst e
    exact ⟨rfl, rfl, fun f hfo => foundOKB_congr hz (h1 f hfo), h2⟩

/-! ### nl2br -/

theorem entry_nl {xc : XCfg} {pi : Nat} (hpi : 1 ≤ pi) : EntrySpecXB xc pi .nl := by
  intro data si x fo x' _ hd h
  have hdone : BtDone data := (btInv_succ hpi).1 hd.bt
  simp only [findX] at h
  split at h
  · simp only [Option.some.injEq, Prod.mk.injEq] at h
    obtain ⟨rfl, rfl⟩ := h
    exact ⟨rfl, rfl, fun f hf => (by cases hf), fun _ => hdone⟩
  · cases hf : find ['\n'] (data.drop si) with
    | none =>
      simp only [hf, Option.some.injEq, Prod.mk.injEq] at h
      obtain ⟨rfl, rfl⟩ := h
      exact ⟨rfl, rfl, fun f hf => (by cases hf), fun _ => hdone⟩
    | some off =>
      simp only [hf, Option.some.injEq, Prod.mk.injEq] at h
      obtain ⟨rfl, rfl⟩ := h
      refine ⟨rfl, rfl, ?_, fun h0 => by cases h0⟩
      intro f hfo
      cases hfo
      obtain ⟨pre, post, hsuf, rfl, -⟩ := find_some_iff.1 hf
      have := spliceB_of_span (M := ['\n']) hpi hd hsuf (by simp)
        (by intro c hc; simp at hc; subst hc; decide) (by intro c hc; simp at hc; subst hc; decide)
      have e : ((si + pre.length + 1 : Nat) : Int) = ((si + pre.length + ['\n'].length : Nat) : Int) := by
        simp
      refine ⟨?_, (brNode_snodeB x.st.stash.length).1, (brNode_snodeB x.st.stash.length).2, fun h0 => by omega⟩
      show SpliceB _ pi data (si + pre.length) ((si + pre.length + 1 : Nat) : Int)
      rw [e]; exact this

/-! ### tables -/

/-- the first entry is the backtick pattern, the other core entries are core patterns 1 … 15 -/
def tableOK : List PatK → Bool
  | [] => false
  | k :: r => k == .core 0 && r.all (fun k => match k with | .core i => 1 ≤ i && i < 16 | _ => true)

theorem tableOK_get {t : List PatK} (h : tableOK t = true) {pi : Nat} {k : PatK} (hk : t[pi]? = some k) :
    match k with
    | .core i => i < patternCount ∧ (pi = 0 ↔ i = 0)
    | _ => 1 ≤ pi := by
  cases t with
  | nil => simp [tableOK] at h
  | cons k0 r =>
    simp only [tableOK, Bool.and_eq_true, beq_iff_eq, List.all_eq_true] at h
    obtain ⟨rfl, hr⟩ := h
    cases pi with
    | zero =>
      simp only [List.getElem?_cons_zero, Option.some.injEq] at hk
      subst hk
      exact ⟨by decide, by simp⟩
    | succ p =>
      simp only [List.getElem?_cons_succ] at hk
      have := hr k (List.mem_of_getElem? hk)
      cases k with
      | core i =>
        simp only [Bool.and_eq_true, decide_eq_true_eq] at this
        exact ⟨by unfold patternCount; omega, by constructor <;> intro h0 <;> omega⟩
      | footnote => exact Nat.succ_le_succ (Nat.zero_le _)
      | wikilink => exact Nat.succ_le_succ (Nat.zero_le _)
      | nl => exact Nat.succ_le_succ (Nat.zero_le _)

theorem tableOK_table (fn wl nl : Bool) : tableOK (table fn wl nl) = true := by
  cases fn <;> cases wl <;> cases nl <;> decide

theorem table_length_pos (fn wl nl : Bool) : 1 ≤ (table fn wl nl).length := by
  cases fn <;> cases wl <;> cases nl <;> decide

/-- the contract of the matchers for a table of core patterns and the nl2br pattern -/
theorem fmSpecXB_nl {xc : XCfg} (hcfg : EscOK xc.cfg.esc) (hrefs : RefsOK xc.cfg) (ht : tableOK xc.table = true)
    (hk : ∀ k ∈ xc.table, k ≠ .footnote ∧ k ≠ .wikilink) : FMSpecXB xc := by
  apply fmSpecXB_of_entries
  intro pi k hpk
  have hg := tableOK_get ht hpk
  have hm := hk k (List.mem_of_getElem? hpk)
  cases k with
  | core i => exact entry_core hcfg hrefs hg.1 hg.2
  | footnote => exact absurd rfl hm.1
  | wikilink => exact absurd rfl hm.2
  | nl => exact entry_nl hg

theorem table_nl_mem (nl : Bool) : ∀ k ∈ table false false nl, k ≠ .footnote ∧ k ≠ .wikilink := by
  cases nl <;> decide

/-- `HISpecXB` for the tables with nl2br on or off (no footnote, no wikilink pattern) -/
theorem hiSpecXB_nl {xc : XCfg} (hcfg : EscOK xc.cfg.esc) (hrefs : RefsOK xc.cfg) {nl : Bool}
    (ht : xc.table = table false false nl) : HISpecXB xc :=
  hiSpecXB_of_fmSpecXB
    (fmSpecXB_nl hcfg hrefs (by rw [ht]; exact tableOK_table _ _ _) (by rw [ht]; exact table_nl_mem nl))
    (by rw [ht]; exact table_length_pos _ _ _)

end MdVerif.NoCtlX
