/-
Helper lemmas for `Props/C15Text.lean`, part 2: the passes of the inline pattern loop (`Lemmas/DocParse2.lean`,
section 25: code spans, escapes, `*` emphases, `_` emphases) on a *chunk* of mixed content that stands IN CONTEXT:
after an arbitrary prefix `A` and before an arbitrary suffix `Z` of the line.  (The lemmas of `DocParse2` are about a
whole line: nothing follows the chunk there.)  Core Lean only.
-/
import MdVerif.Lemmas.DocParse2

namespace MdVerif.RefText
open Py Inline Escape CodeLaw DocParse DocParse2

/-! ### chunks of mixed content -/

/-- escaped text, then items (code spans, emphasised words) each followed by escaped text -/
structure Chunk where
  t0 : Str
  segs : List MSeg

/-- the chunk after the classes below `lv` have been taken out; `pe`: the escapes are placeholders (from `m` on) -/
def Chunk.stage (esc : List Char) (lv : Nat) (pe : Bool) (m n0 n1 n2 : Nat) (c : Chunk) : Str :=
  (if pe then resid esc m c.t0 else escAll esc c.t0) ++ stageM esc lv pe (m + escCount esc c.t0) n0 n1 n2 c.segs

/-- the source of the chunk -/
def Chunk.raw (esc : List Char) (c : Chunk) : Str := escAll esc c.t0 ++ rawM esc c.segs

/-- number of escapes -/
def Chunk.escs (esc : List Char) (c : Chunk) : Nat := escCount esc c.t0 + escCountM esc c.segs

/-- number of items of class `k` (0 code spans, 1 `*` emphases, 2 `_` emphases) -/
def Chunk.cnt (k : Nat) (c : Chunk) : Nat := (nodesOf k c.segs).length

def Chunk.escStash (esc : List Char) (c : Chunk) : List StashItem := stashOf esc c.t0 ++ stashOfM esc c.segs

theorem Chunk.stage_raw (esc : List Char) (m n0 n1 n2 : Nat) (c : Chunk) :
    c.stage esc 0 false m n0 n1 n2 = c.raw esc := by
  simp [Chunk.stage, Chunk.raw, stageM_raw]

theorem Chunk.escStash_length (esc : List Char) (c : Chunk) : (c.escStash esc).length = c.escs esc := by
  simp [Chunk.escStash, Chunk.escs, stashOfM_length, escCount]

/-! ### pattern 0 in context -/

/-- the head of what follows a code span is not a backtick -/
theorem head_stage_raw_ctx (esc : List Char) (ht : '`' ∈ esc) (t : Str) (r : List MSeg) (Z : Str) (hok : MSegsOK r)
    (hj : junctionsOK t true r) (hZ : Z.head? ≠ some '`') (m n0 n1 n2 : Nat) :
    (escAll esc t ++ (stageM esc 0 false m n0 n1 n2 r ++ Z)).head? ≠ some '`' := by
  by_cases htn : t = []
  · subst htn
    simp only [escAll, List.nil_append]
    cases r with
    | nil => simpa [stageM] using hZ
    | cons s r' =>
      cases hk : s.k with
      | code n b =>
        have := (hj.1 (by rw [hk]; rfl)).2 rfl
        exact absurd rfl this
      | em st d w =>
        have hs := hok s List.mem_cons_self
        rw [hk] at hs
        obtain ⟨q, hq⟩ := delim_cons ⟨st, d, w, []⟩
        have : ¬ ((MKind.em st d w).cls < 0) := by omega
        simp only [stageM, itemM, hk, this, if_false, MKind.src, emSrc, hq, List.cons_append, List.head?_cons]
        rcases hs.1 with e | e <;> simp [e]
  · have := head_escAll_ne_tick (esc := esc) ht t
    have hne := escAll_ne_nil (esc := esc) htn
    cases hx : escAll esc t with
    | nil => exact absurd hx hne
    | cons a b => rw [hx] at this; simpa using this

/-- **the backtick pass in context**: one turn of the pattern loop per code span of the chunk; what follows the chunk
    does not start with a backtick -/
theorem code_pass_ctx (cfg : Inline.Cfg) (hi : HI) (hb : '\\' ∈ cfg.esc) (ht : '`' ∈ cfg.esc) (Z : Str)
    (hZ : Z.head? ≠ some '`') (segs : List MSeg) :
    ∀ (A t : Str) (pc : Bool) (m n0 n1 n2 : Nat) (st : St) (g : Nat), BtOK A → A.getLast? ≠ some '\\' →
      MSegsOK segs → junctionsOK t pc segs →
      hiLoop (applyPattern cfg hi) (g + (nodesOf 0 segs).length)
        (A ++ (escAll cfg.esc t ++ (stageM cfg.esc 0 false m n0 n1 n2 segs ++ Z))) 0 0 st =
      hiLoop (applyPattern cfg hi) g
        (A ++ (escAll cfg.esc t ++ (stageM cfg.esc 1 false m st.stash.length n1 n2 segs ++ Z))) 0 0
        { st with stash := st.stash ++ nodesOf 0 segs } := by
  induction segs with
  | nil => intro A t pc m n0 n1 n2 st g _ _ _ _; simp [stageM, nodesOf]
  | cons s r ih =>
    intro A t pc m n0 n1 n2 st g hA hAl hok hj
    have hokr : MSegsOK r := fun x hx => hok x (List.mem_cons_of_mem _ hx)
    have hs := hok s List.mem_cons_self
    have hP := btOK_text hb ht hA hAl t
    cases hk : s.k with
    | code n b =>
      rw [hk] at hs
      obtain ⟨⟨k, hkn⟩, hbody, hstrip⟩ := hs
      have hjs := hj.1 (by rw [hk]; rfl)
      have hPl : (A ++ escAll cfg.esc t).getLast? ≠ some '\\' := by
        by_cases htn : t = []
        · subst htn; simpa [escAll] using hAl
        · rw [getLast_append_ne (escAll_ne_nil htn), getLast_escAll _ _ htn]; exact hjs.1
      have hX := head_stage_raw_ctx cfg.esc ht s.t r Z hokr (by have := hj.2; rw [hk] at this; exact this) hZ
        (m + escCount cfg.esc s.t) (n0 + 1) n1 n2
      have hstep := applyPattern_codeAt cfg hi _ hP hPl k (padded b) _ (hkn ▸ hbody) hX st
      have hA' := btOK_item hP (noTickBs_placeholder st.stash.length)
      have hne : placeholder st.stash.length ≠ [] := placeholder_ne_nil _
      have := ih ((A ++ escAll cfg.esc t) ++ placeholder st.stash.length) s.t true (m + escCount cfg.esc s.t)
        (n0 + 1) n1 n2 { st with stash := st.stash ++ [.node (codeSpan (Code.codeEscape (strip (padded b))))] } g
        hA'.1 (hA'.2 hne) hokr (by have := hj.2; rw [hk] at this; exact this)
      simp only [stageM, itemM, bump, nodesOf, hk, cls_code, Nat.lt_irrefl, if_false, if_true, Nat.lt_one_iff,
        List.length_cons, MKind.src, MKind.node, spanSrc, hkn, List.append_assoc, Bool.false_eq_true,
        show ¬ ((0 : Nat) = 1) by omega, show ¬ ((0 : Nat) = 2) by omega] at this ⊢
      rw [show g + ((nodesOf 0 r).length + 1) = (g + (nodesOf 0 r).length) + 1 by omega]
      have hstep' := hstep
      simp only [List.append_assoc] at hstep'
      rw [hiLoop_step _ _ _ 0 0 st (by omega) _ _ _ _ hstep']
      simp only [if_true]
      rw [this, hstrip]
      simp only [List.length_append, List.length_cons, List.length_nil, List.append_assoc, List.singleton_append,
        List.cons_append, List.nil_append, Nat.zero_add]
    | em st' d w =>
      rw [hk] at hs
      obtain ⟨hsrc, hsne⟩ := emK_src_facts st' d w hs
      have hA' := btOK_item hP hsrc
      have hpos := cls_em_pos st' d w
      have := ih ((A ++ escAll cfg.esc t) ++ MKind.src (.em st' d w)) s.t false (m + escCount cfg.esc s.t)
        n0 (if (MKind.em st' d w).cls = 1 then n1 + 1 else n1) (if (MKind.em st' d w).cls = 2 then n2 + 1 else n2)
        st g hA'.1 (hA'.2 hsne) hokr (by have := hj.2; rw [hk] at this; exact this)
      have h0 : ¬ ((MKind.em st' d w).cls < 0) := by omega
      have h1 : ¬ ((MKind.em st' d w).cls < 1) := by omega
      have h2 : ¬ ((MKind.em st' d w).cls = 0) := by omega
      simp only [stageM, itemM, bump, nodesOf, hk, h0, h1, h2, if_false, List.append_assoc, Bool.false_eq_true] at this ⊢
      exact this

/-- the backtick pattern walks over a chunk from which the code spans have been taken out -/
theorem btOK_chunk1 {esc : List Char} (hb : '\\' ∈ esc) (ht : '`' ∈ esc) (segs : List MSeg) :
    ∀ (A t : Str) (m n0 n1 n2 : Nat), BtOK A → A.getLast? ≠ some '\\' → MSegsOK segs →
      BtOK (A ++ (escAll esc t ++ stageM esc 1 false m n0 n1 n2 segs)) := by
  induction segs with
  | nil =>
    intro A t m n0 n1 n2 hA hAl _
    simpa [stageM] using btOK_text hb ht hA hAl t
  | cons s r ih =>
    intro A t m n0 n1 n2 hA hAl hok
    have hP := btOK_text hb ht hA hAl t
    obtain ⟨hpl, hne⟩ := itemM_plain 1 n0 n1 n2 s.k (by omega) (hok s List.mem_cons_self)
    have hA' := btOK_item hP hpl
    have := ih ((A ++ escAll esc t) ++ itemM 1 n0 n1 n2 s.k) s.t (m + escCount esc s.t) (bump 0 s.k n0)
      (bump 1 s.k n1) (bump 2 s.k n2) hA'.1 (hA'.2 hne) (fun x hx => hok x (List.mem_cons_of_mem _ hx))
    simp only [stageM, List.append_assoc, Bool.false_eq_true, if_false] at this ⊢
    exact this

/-- a string the backtick pattern walks over has no match of it -/
theorem btFind_of_btOK (D : Str) (h : BtOK D) : btFind D 0 = none := by
  simp only [btFind, show ¬ (0 > D.length) by omega, if_false, if_true, List.drop_zero]
  have := h none [] 0 (Or.inr (by simp))
  simp only [List.append_nil] at this
  rw [this]; simp [btScan, btAt_nil]

/-! ### pattern 1 in context -/

/-- **the escape pass in context**, text by text -/
theorem esc_pass_ctx (cfg : Inline.Cfg) (hi : HI) (hb : '\\' ∈ cfg.esc) (lv : Nat) (hlv : 1 ≤ lv) (Z : Str)
    (segs : List MSeg) :
    ∀ (A : Str) (m n0 n1 n2 : Nat) (st : St) (g : Nat), '\\' ∉ A → MSegsOK segs →
      hiLoop (applyPattern cfg hi) (g + escCountM cfg.esc segs)
        (A ++ (stageM cfg.esc lv false m n0 n1 n2 segs ++ Z)) 1 0 st =
      hiLoop (applyPattern cfg hi) g (A ++ (stageM cfg.esc lv true st.stash.length n0 n1 n2 segs ++ Z)) 1 0
        { st with stash := st.stash ++ stashOfM cfg.esc segs } := by
  induction segs with
  | nil => intro A m n0 n1 n2 st g _ _; simp [stageM, escCountM, stashOfM]
  | cons s r ih =>
    intro A m n0 n1 n2 st g hA hok
    have hokr : MSegsOK r := fun x hx => hok x (List.mem_cons_of_mem _ hx)
    have hA1 : '\\' ∉ A ++ itemM lv n0 n1 n2 s.k := by
      intro hh; rcases List.mem_append.1 hh with hh | hh
      · exact hA hh
      · exact bs_not_mem_item lv n0 n1 n2 s.k hlv (hok s List.mem_cons_self) hh
    have h1 := escape_chunk cfg hi hb
      (stageM cfg.esc lv false (m + escCount cfg.esc s.t) (bump 0 s.k n0) (bump 1 s.k n1) (bump 2 s.k n2) r ++ Z) s.t
      (A ++ itemM lv n0 n1 n2 s.k) st (g + escCountM cfg.esc r) hA1
    have hA2 : '\\' ∉ A ++ itemM lv n0 n1 n2 s.k ++ resid cfg.esc st.stash.length s.t := by
      intro hh; rcases List.mem_append.1 hh with hh | hh
      · exact hA1 hh
      · exact bs_not_mem_resid hb _ _ hh
    have h2 := ih (A ++ itemM lv n0 n1 n2 s.k ++ resid cfg.esc st.stash.length s.t) (m + escCount cfg.esc s.t)
      (bump 0 s.k n0) (bump 1 s.k n1) (bump 2 s.k n2) { st with stash := st.stash ++ stashOf cfg.esc s.t } g hA2 hokr
    simp only [stageM, escCountM, stashOfM, List.append_assoc, Bool.false_eq_true, if_false, if_true] at h1 h2 ⊢
    rw [show g + (escCount cfg.esc s.t + escCountM cfg.esc r) = g + escCountM cfg.esc r + escCount cfg.esc s.t by omega,
      h1, h2]
    simp [escCount]

/-- the escape pass on a whole chunk in context -/
theorem esc_pass_chunk (cfg : Inline.Cfg) (hi : HI) (hb : '\\' ∈ cfg.esc) (lv : Nat) (hlv : 1 ≤ lv) (Z : Str)
    (c : Chunk) (A : Str) (m n0 n1 n2 : Nat) (st : St) (g : Nat) (hA : '\\' ∉ A) (hok : MSegsOK c.segs) :
    hiLoop (applyPattern cfg hi) (g + c.escs cfg.esc) (A ++ (c.stage cfg.esc lv false m n0 n1 n2 ++ Z)) 1 0 st =
      hiLoop (applyPattern cfg hi) g (A ++ (c.stage cfg.esc lv true st.stash.length n0 n1 n2 ++ Z)) 1 0
        { st with stash := st.stash ++ c.escStash cfg.esc } := by
  have h1 := escape_chunk cfg hi hb (stageM cfg.esc lv false (m + escCount cfg.esc c.t0) n0 n1 n2 c.segs ++ Z) c.t0 A st
    (g + escCountM cfg.esc c.segs) hA
  have hA2 : '\\' ∉ A ++ resid cfg.esc st.stash.length c.t0 := by
    intro hh; rcases List.mem_append.1 hh with hh | hh
    · exact hA hh
    · exact bs_not_mem_resid hb _ _ hh
  have h2 := esc_pass_ctx cfg hi hb lv hlv Z c.segs (A ++ resid cfg.esc st.stash.length c.t0)
    (m + escCount cfg.esc c.t0) n0 n1 n2 { st with stash := st.stash ++ stashOf cfg.esc c.t0 } g hA2 hok
  simp only [Chunk.stage, Chunk.escs, Chunk.escStash, List.append_assoc, Bool.false_eq_true, if_false, if_true] at h1 h2 ⊢
  rw [show g + (escCount cfg.esc c.t0 + escCountM cfg.esc c.segs) = g + escCountM cfg.esc c.segs + escCount cfg.esc c.t0
    by omega, h1, h2]
  simp [escCount]

/-! ### the characters of a chunk once the code spans and the escapes are out -/

/-- none of the characters the patterns 2–13 react to; `*` only below level 2, `_` only below level 3 -/
def CharOK (lv : Nat) (ch : Char) : Prop :=
  ch ≠ '\\' ∧ ch ≠ '`' ∧ ch ≠ '[' ∧ ch ≠ ']' ∧ ch ≠ '!' ∧ ch ≠ '&' ∧ ch ≠ '\n' ∧ (ch = '*' → lv ≤ 1) ∧ (ch = '_' → lv ≤ 2)

theorem charOK_ph {lv : Nat} {ch : Char} (h : phChar ch = true) : CharOK lv ch := by
  have := phChar_facts h
  refine ⟨this.2.2.2.2.2.1, ?_, this.1, ?_, this.2.1, this.2.2.1, this.2.2.2.2.2.2.2, fun e => absurd e this.2.2.2.1,
    fun e => absurd e this.2.2.2.2.1⟩
  · intro e; subst e; exact absurd h (by decide)
  · intro e; subst e; exact absurd h (by decide)

theorem charOK_placeholder (lv n : Nat) : ∀ ch ∈ placeholder n, CharOK lv ch :=
  fun _ h => charOK_ph (phChar_of_mem_placeholder h)

/-- the plain texts of a chunk: no `&`, no line break, no STX -/
def Chunk.Plain (c : Chunk) : Prop := ∀ ch, (ch ∈ c.t0 ∨ ∃ s ∈ c.segs, ch ∈ s.t) → ch ≠ '&' ∧ ch ≠ '\n' ∧ ch ≠ Inline.STX

theorem charOK_text {esc : List Char} (hE : EscOK esc) (hrb : ']' ∈ esc) {lv : Nat} {ch : Char} (hn : ch ∉ esc)
    (h1 : ch ≠ '&') (h2 : ch ≠ '\n') : CharOK lv ch :=
  ⟨fun e => hn (e ▸ hE.bs), fun e => hn (e ▸ hE.tick), fun e => hn (e ▸ hE.lbr), fun e => hn (e ▸ hrb),
    fun e => hn (e ▸ hE.bang), h1, h2, fun e => absurd (e ▸ hE.star) hn, fun e => absurd (e ▸ hE.under) hn⟩

theorem charOK_resid {esc : List Char} (hE : EscOK esc) (hrb : ']' ∈ esc) (lv m : Nat) (t : Str)
    (ht : ∀ ch ∈ t, ch ≠ '&' ∧ ch ≠ '\n') : ∀ ch ∈ resid esc m t, CharOK lv ch := by
  intro ch hc
  rcases mem_resid hc with ⟨h, hn⟩ | h
  · exact charOK_text hE hrb hn (ht ch h).1 (ht ch h).2
  · exact charOK_ph h

theorem charOK_stageM {esc : List Char} (hE : EscOK esc) (hrb : ']' ∈ esc) (lv : Nat) (hlv : 1 ≤ lv)
    (segs : List MSeg) (hok : MSegsOK segs) (hpl : ∀ s ∈ segs, ∀ ch ∈ s.t, ch ≠ '&' ∧ ch ≠ '\n') (m n0 n1 n2 : Nat) :
    ∀ ch ∈ stageM esc lv true m n0 n1 n2 segs, CharOK lv ch := by
  intro ch hc
  rcases mem_stageM lv hlv segs m n0 n1 n2 hok hc with h | ⟨s, hs, h, hn⟩ | ⟨s, hs, hcl, st', d, w, hk, hd, hw, h⟩
  · exact charOK_ph h
  · exact charOK_text hE hrb hn (hpl s hs ch h).1 (hpl s hs ch h).2
  · rcases h with h | h
    · subst h
      have hcls : s.k.cls = if ch = '*' then 1 else 2 := by rw [hk]; rfl
      rcases hd with e | e <;> subst e
      · refine ⟨by decide, by decide, by decide, by decide, by decide, by decide, by decide, fun _ => ?_,
          fun e => absurd e (by decide)⟩
        simp at hcls; omega
      · refine ⟨by decide, by decide, by decide, by decide, by decide, by decide, by decide,
          fun e => absurd e (by decide), fun _ => ?_⟩
        simp at hcls; omega
    · have := wordCh_facts (hw.2 _ h)
      refine ⟨this.2.2.2.1, this.2.2.1, this.2.2.2.2.1, ?_, this.2.2.2.2.2.1, this.2.2.2.2.2.2.1,
        this.2.2.2.2.2.2.2.1, fun e => absurd e this.1, fun e => absurd e this.2.1⟩
      intro e; subst e; exact absurd (hw.2 _ h) (by decide)

theorem charOK_stage {esc : List Char} (hE : EscOK esc) (hrb : ']' ∈ esc) (lv : Nat) (hlv : 1 ≤ lv) (c : Chunk)
    (hok : MSegsOK c.segs) (hpl : c.Plain) (m n0 n1 n2 : Nat) :
    ∀ ch ∈ c.stage esc lv true m n0 n1 n2, CharOK lv ch := by
  intro ch hc
  simp only [Chunk.stage, if_true, List.mem_append] at hc
  rcases hc with h | h
  · exact charOK_resid hE hrb lv m c.t0 (fun x hx => ⟨(hpl x (Or.inl hx)).1, (hpl x (Or.inl hx)).2.1⟩) ch h
  · exact charOK_stageM hE hrb lv hlv c.segs hok
      (fun s hs x hx => ⟨(hpl x (Or.inr ⟨s, hs, hx⟩)).1, (hpl x (Or.inr ⟨s, hs, hx⟩)).2.1⟩) _ _ _ _ ch h

theorem CharOK.mono {lv lv' : Nat} {ch : Char} (h : CharOK lv ch) (hle : lv' ≤ lv) : CharOK lv' ch :=
  ⟨h.1, h.2.1, h.2.2.1, h.2.2.2.1, h.2.2.2.2.1, h.2.2.2.2.2.1, h.2.2.2.2.2.2.1,
    fun e => Nat.le_trans hle (h.2.2.2.2.2.2.2.1 e), fun e => Nat.le_trans hle (h.2.2.2.2.2.2.2.2 e)⟩

/-- a string of such characters has nothing for the patterns 2–12 -/
theorem mid_of_charOK {lv : Nat} {D : Str} (h : ∀ ch ∈ D, CharOK lv ch) : Mid D :=
  fun c hc => ⟨(h c hc).2.2.1, (h c hc).2.2.2.2.1, (h c hc).2.2.2.2.2.1, (h c hc).2.2.2.2.2.2.1⟩

/-! ### patterns 14 and 15 in context -/

/-- **the `*` pass in context** -/
theorem star_pass_ctx (cfg : Inline.Cfg) (f : Nat) (h1 : '*' ∈ cfg.esc) (h2 : '_' ∈ cfg.esc) (Z : Str)
    (segs : List MSeg) :
    ∀ (A : Str) (m n0 n1 n2 : Nat) (st : St) (g : Nat), '*' ∉ A → MSegsOK segs →
      hiLoop (applyPattern cfg (fun d p s => handleInline cfg (f + 1) d p s)) (g + (nodesOf 1 segs).length)
        (A ++ (stageM cfg.esc 1 true m n0 n1 n2 segs ++ Z)) 14 0 st =
      hiLoop (applyPattern cfg (fun d p s => handleInline cfg (f + 1) d p s)) g
        (A ++ (stageM cfg.esc 2 true m n0 st.stash.length n2 segs ++ Z)) 14 0
        { st with stash := st.stash ++ nodesOf 1 segs } := by
  induction segs with
  | nil => intro A m n0 n1 n2 st g _ _; simp [stageM, nodesOf]
  | cons s r ih =>
    intro A m n0 n1 n2 st g hA hok
    have hokr : MSegsOK r := fun x hx => hok x (List.mem_cons_of_mem _ hx)
    have hs := hok s List.mem_cons_self
    have hres : '*' ∉ resid cfg.esc m s.t := fun h => (resid_no_delim h1 h2 s.t m _ h).1 rfl
    cases hk : s.k with
    | code n b =>
      have := ih (A ++ (placeholder n0 ++ resid cfg.esc m s.t)) (m + escCount cfg.esc s.t) (n0 + 1) n1 n2 st g
        (not_mem_of_append3 hA (not_mem_placeholder (by decide) _) hres) hokr
      simp only [stageM, itemM, bump, nodesOf, hk, cls_code, if_true, List.append_assoc,
        show (0 : Nat) < 1 by omega, show (0 : Nat) < 2 by omega, show ¬ ((0 : Nat) = 1) by omega,
        show ¬ ((0 : Nat) = 2) by omega, if_false] at this ⊢
      exact this
    | em st' d w =>
      rw [hk] at hs
      obtain ⟨hd, hw, hh⟩ := hs
      by_cases hds : d = '*'
      · subst hds
        have hc := cls_star st' w
        obtain ⟨q, hq⟩ := delim_cons ⟨st', '*', w, []⟩
        have hE : emSrc ⟨st', '*', w, []⟩ = '*' :: (q ++ (w ++ EmSeg.delim ⟨st', '*', w, []⟩)) := by
          rw [emSrc, hq]; rfl
        have hhm := emHandle_seg ⟨st', '*', w, []⟩ (Or.inl rfl) hw A
          (resid cfg.esc m s.t ++ (stageM cfg.esc 1 true (m + escCount cfg.esc s.t) n0 (n1 + 1) n2 r ++ Z))
          (fun e => absurd (show ('*' : Char) = '_' from e) (by decide))
        have hstep := applyPattern_em cfg f 14 (Or.inl rfl) '*' rfl A (emSrc ⟨st', '*', w, []⟩)
          (resid cfg.esc m s.t ++ (stageM cfg.esc 1 true (m + escCount cfg.esc s.t) n0 (n1 + 1) n2 r ++ Z)) hA _ hE st' w
          hw st hhm
        have := ih (A ++ (placeholder st.stash.length ++ resid cfg.esc m s.t)) (m + escCount cfg.esc s.t) n0
          (n1 + 1) n2 { st with stash := st.stash ++ [.node (emEl st' w)] } g
          (not_mem_of_append3 hA (not_mem_placeholder (by decide) _) hres) hokr
        simp only [stageM, itemM, bump, nodesOf, hk, hc, if_true, List.append_assoc, Nat.lt_irrefl,
          show (1 : Nat) < 2 by omega, show ¬ ((1 : Nat) = 0) by omega,
          show ¬ ((1 : Nat) = 2) by omega, if_false, List.length_cons, MKind.src, MKind.node] at this ⊢
        rw [show g + ((nodesOf 1 r).length + 1) = (g + (nodesOf 1 r).length) + 1 by omega,
          hiLoop_step _ _ _ 14 0 st (by omega) _ _ _ _ hstep]
        simp only [if_true]
        rw [this]
        simp
      · have hdu : d = '_' := by rcases hd with e | e; exact absurd e hds; exact e
        have hc := cls_under st' d w hds
        have hsrc : '*' ∉ emSrc ⟨st', d, w, []⟩ := by
          intro hx
          rcases mem_emSrc hx with e | e
          · exact hds e.symm
          · exact (wordCh_facts (hw.2 _ e)).1 rfl
        have := ih (A ++ (emSrc ⟨st', d, w, []⟩ ++ resid cfg.esc m s.t)) (m + escCount cfg.esc s.t) n0 n1 (n2 + 1)
          st g (not_mem_of_append3 hA hsrc hres) hokr
        simp only [stageM, itemM, bump, nodesOf, hk, hc, if_true, List.append_assoc, Nat.lt_irrefl,
          show ¬ ((2 : Nat) < 1) by omega, show ¬ ((2 : Nat) = 0) by omega,
          show ¬ ((2 : Nat) = 1) by omega, if_false, MKind.src] at this ⊢
        exact this

/-- the character after an item in context: as `nextNWM`, the end of the chunk being followed by `Z` -/
theorem isW_head_nextM_ctx (esc : List Char) (t : Str) (m n0 n1 n2 : Nat) (r : List MSeg) (Z : Str)
    (h : nextNWM esc t r) (hZ : isW Z.head? = false) :
    isW (resid esc m t ++ (stageM esc 2 true (m + escCount esc t) n0 n1 n2 r ++ Z)).head? = false := by
  cases t with
  | cons c t' =>
    by_cases hc : c ∈ esc
    · simp only [resid, List.contains_eq_mem, hc, decide_true, if_true, List.append_assoc]
      rw [head_placeholder]; decide
    · have : isWord c = false := by
        rcases h with h | h
        · exact absurd h hc
        · exact h
      simp [resid, hc, isW, this]
  | nil =>
    cases r with
    | nil => simpa [resid, stageM] using hZ
    | cons s' r' =>
      have hs : s'.k.cls ≠ 2 := h
      have hlt : s'.k.cls < 2 := by have := cls_lt3 s'.k; omega
      simp only [resid, List.nil_append, stageM, itemM, hlt, if_true, List.append_assoc]
      rw [head_placeholder]; decide

theorem noTriple_stage2M_ctx {esc : List Char} (h1 : '*' ∈ esc) (h2 : '_' ∈ esc) (Z : Str) (hZw : isW Z.head? = false)
    (hZ : NoTriple '_' Z) (segs : List MSeg) :
    ∀ (m n0 n1 n2 : Nat) (pw : Bool), MSegsOK segs → UnderOKM esc pw segs →
      NoTriple '_' (stageM esc 2 true m n0 n1 n2 segs ++ Z) := by
  induction segs with
  | nil => intro _ _ _ _ _ _ _; simpa [stageM] using hZ
  | cons s r ih =>
    intro m n0 n1 n2 pw hok hu
    have hokr : MSegsOK r := fun x hx => hok x (List.mem_cons_of_mem _ hx)
    have hrest := ih (m + escCount esc s.t) (bump 0 s.k n0) (bump 1 s.k n1) (bump 2 s.k n2) _ hokr hu.2
    have hres : '_' ∉ resid esc m s.t := fun h => (resid_no_delim h1 h2 s.t m _ h).2 rfl
    have hZ' := noTriple_of_no_c '_' _ _ hres hrest
    simp only [stageM, if_true, List.append_assoc]
    by_cases hc : s.k.cls < 2
    · simp only [itemM, hc, if_true]
      exact noTriple_of_no_c '_' _ _ (not_mem_placeholder (by decide) _) hZ'
    · cases hk : s.k with
      | code n b => rw [hk, cls_code] at hc; omega
      | em st d w =>
        have hs := hok s List.mem_cons_self
        rw [hk] at hs hc
        obtain ⟨hd, hw, hh⟩ := hs
        have hdu : d = '_' := by
          rcases hd with e | e
          · rw [e, cls_star] at hc; omega
          · exact e
        subst hdu
        have hc2 : s.k.cls = 2 := by rw [hk]; exact cls_under st '_' w (by decide)
        have hnext := (hu.1 hc2).2
        have hhead := isW_under_head (isW_head_nextM_ctx esc s.t m (bump 0 s.k n0) (bump 1 s.k n1) (bump 2 s.k n2) r Z
          hnext hZw)
        simp only [itemM, hc, if_false, MKind.src, emSrc, EmSeg.delim, List.append_assoc]
        have hm : (if st then 2 else 1) ≤ 2 := by cases st <;> simp
        rw [hk] at hhead hZ'
        refine noTriple_delim '_' _ ?_ (noTriple_of_no_c '_' _ _ (fun h => (wordCh_facts (hw.2 _ h)).2.1 rfl)
          (noTriple_delim '_' _ hhead hZ' _ hm)) _ hm
        cases hwc : w with
        | nil => exact absurd hwc hw.1
        | cons x w' =>
          have := (wordCh_facts (hw.2 x (by rw [hwc]; simp))).2.1
          simpa using this

/-- **the `_` pass in context**: what follows the chunk starts with no word character and has no `___` -/
theorem under_pass_ctx (cfg : Inline.Cfg) (f : Nat) (h1 : '*' ∈ cfg.esc) (h2 : '_' ∈ cfg.esc) (Z : Str)
    (hZw : isW Z.head? = false) (hZ : NoTriple '_' Z) (segs : List MSeg) :
    ∀ (A : Str) (m n0 n1 n2 : Nat) (st : St) (g : Nat), '_' ∉ A → MSegsOK segs →
      UnderOKM cfg.esc (isW (lastOr none A)) segs →
      hiLoop (applyPattern cfg (fun d p s => handleInline cfg (f + 1) d p s)) (g + (nodesOf 2 segs).length)
        (A ++ (stageM cfg.esc 2 true m n0 n1 n2 segs ++ Z)) 15 0 st =
      hiLoop (applyPattern cfg (fun d p s => handleInline cfg (f + 1) d p s)) g
        (A ++ (stageM cfg.esc 3 true m n0 n1 st.stash.length segs ++ Z)) 15 0
        { st with stash := st.stash ++ nodesOf 2 segs } := by
  induction segs with
  | nil => intro A m n0 n1 n2 st g _ _ _; simp [stageM, nodesOf]
  | cons s r ih =>
    intro A m n0 n1 n2 st g hA hok hu
    have hokr : MSegsOK r := fun x hx => hok x (List.mem_cons_of_mem _ hx)
    have hs := hok s List.mem_cons_self
    have hres : '_' ∉ resid cfg.esc m s.t := fun h => (resid_no_delim h1 h2 s.t m _ h).2 rfl
    by_cases hc : s.k.cls < 2
    · -- a placeholder already
      have hc3 : s.k.cls < 3 := by omega
      have hne2 : ¬ s.k.cls = 2 := by omega
      generalize hn : (if s.k.cls = 0 then n0 else if s.k.cls = 1 then n1 else n2) = n
      have hn' : (if s.k.cls = 0 then n0 else if s.k.cls = 1 then n1 else st.stash.length) = n := by
        rw [← hn]; by_cases h0 : s.k.cls = 0
        · simp [h0]
        · have : s.k.cls = 1 := by omega
          simp [this]
      have hu' : UnderOKM cfg.esc (isW (lastOr none (A ++ (placeholder n ++ resid cfg.esc m s.t)))) r := by
        rw [isW_lastOr_seg]; exact hu.2
      have := ih (A ++ (placeholder n ++ resid cfg.esc m s.t)) (m + escCount cfg.esc s.t) (bump 0 s.k n0)
        (bump 1 s.k n1) n2 st g (not_mem_of_append3 hA (not_mem_placeholder (by decide) _) hres) hokr hu'
      simp only [stageM, itemM, nodesOf, hc, hc3, hne2, hn, hn', if_true, if_false, List.append_assoc,
        show bump 2 s.k n2 = n2 by simp [bump, hne2],
        show bump 2 s.k st.stash.length = st.stash.length by simp [bump, hne2]] at this ⊢
      exact this
    · cases hk : s.k with
      | code n b => rw [hk, cls_code] at hc; omega
      | em st' d w =>
        rw [hk] at hs hc
        obtain ⟨hd, hw, hh⟩ := hs
        have hdu : d = '_' := by
          rcases hd with e | e
          · rw [e, cls_star] at hc; omega
          · exact e
        subst hdu
        have hcl := cls_under st' '_' w (by decide)
        have hc2 : s.k.cls = 2 := by rw [hk]; exact hcl
        obtain ⟨hpw, hnext⟩ := hu.1 hc2
        obtain ⟨q, hq⟩ := delim_cons ⟨st', '_', w, []⟩
        have hE : emSrc ⟨st', '_', w, []⟩ = '_' :: (q ++ (w ++ EmSeg.delim ⟨st', '_', w, []⟩)) := by
          rw [emSrc, hq]; rfl
        have hhm := emHandle_seg ⟨st', '_', w, []⟩ (Or.inr rfl) hw A
          (resid cfg.esc m s.t ++ (stageM cfg.esc 2 true (m + escCount cfg.esc s.t) n0 n1 (n2 + 1) r ++ Z))
          (fun _ => ⟨hpw, isW_head_nextM_ctx cfg.esc s.t m n0 n1 (n2 + 1) r Z hnext hZw,
            noTriple_of_no_c '_' _ _ hres (noTriple_stage2M_ctx h1 h2 Z hZw hZ r _ _ _ _ _ hokr hu.2)⟩)
        have hstep := applyPattern_em cfg f 15 (Or.inr rfl) '_' rfl A (emSrc ⟨st', '_', w, []⟩)
          (resid cfg.esc m s.t ++ (stageM cfg.esc 2 true (m + escCount cfg.esc s.t) n0 n1 (n2 + 1) r ++ Z)) hA _ hE st' w
          hw st hhm
        have hu' : UnderOKM cfg.esc (isW (lastOr none (A ++ (placeholder st.stash.length ++ resid cfg.esc m s.t)))) r := by
          rw [isW_lastOr_seg]; exact hu.2
        have := ih (A ++ (placeholder st.stash.length ++ resid cfg.esc m s.t)) (m + escCount cfg.esc s.t) n0 n1
          (n2 + 1) { st with stash := st.stash ++ [.node (emEl st' w)] } g
          (not_mem_of_append3 hA (not_mem_placeholder (by decide) _) hres) hokr hu'
        simp only [stageM, itemM, bump, nodesOf, hk, hcl, if_true, List.append_assoc, Nat.lt_irrefl,
          show (2 : Nat) < 3 by omega, show ¬ ((2 : Nat) = 0) by omega,
          show ¬ ((2 : Nat) = 1) by omega, if_false, List.length_cons, MKind.src, MKind.node] at this ⊢
        rw [show g + ((nodesOf 2 r).length + 1) = (g + (nodesOf 2 r).length) + 1 by omega,
          hiLoop_step _ _ _ 15 0 st (by omega) _ _ _ _ hstep]
        simp only [if_true]
        rw [this]
        simp

/-! ### pattern 13 in context -/

/-- `NOT_STRONG_RE` finds nothing inside `X`, whatever stands before and after -/
def NsSkip (X : Str) : Prop :=
  ∀ (prev : Option Char) (Z : Str) (i : Nat), ∃ p', nsScan prev (X ++ Z) i = nsScan p' Z (i + X.length)

theorem nsSkip_nil : NsSkip [] := fun prev Z i => ⟨prev, by simp⟩

theorem nsSkip_append {A B : Str} (hA : NsSkip A) (hB : NsSkip B) : NsSkip (A ++ B) := by
  intro prev Z i
  obtain ⟨p1, h1⟩ := hA prev (B ++ Z) i
  obtain ⟨p2, h2⟩ := hB p1 Z (i + A.length)
  exact ⟨p2, by rw [List.append_assoc, h1, h2, List.length_append, Nat.add_assoc]⟩

theorem nsSkip_text (A : Str) (hA : ∀ c ∈ A, c ≠ '*' ∧ c ≠ '_') : NsSkip A :=
  fun prev Z i => ⟨_, nsScan_text A hA Z prev i⟩

theorem nsSkip_placeholder (n : Nat) : NsSkip (placeholder n) :=
  nsSkip_text _ (fun c hc => ⟨(phChar_facts (phChar_of_mem_placeholder hc)).2.2.2.1,
    (phChar_facts (phChar_of_mem_placeholder hc)).2.2.2.2.1⟩)

theorem nsSkip_stageM {esc : List Char} (h1 : '*' ∈ esc) (h2 : '_' ∈ esc) (lv : Nat) (hlv : 1 ≤ lv) (segs : List MSeg) :
    ∀ (m n0 n1 n2 : Nat), MSegsOK segs → NsSkip (stageM esc lv true m n0 n1 n2 segs) := by
  induction segs with
  | nil => intro _ _ _ _ _; exact nsSkip_nil
  | cons s r ih =>
    intro m n0 n1 n2 hok
    have hokr : MSegsOK r := fun x hx => hok x (List.mem_cons_of_mem _ hx)
    simp only [stageM, if_true]
    refine nsSkip_append ?_ (nsSkip_append (nsSkip_text _ (resid_no_delim h1 h2 s.t m)) (ih _ _ _ _ hokr))
    rcases itemM_cases lv n0 n1 n2 s.k hlv (hok s List.mem_cons_self) with ⟨n, h⟩ | ⟨st, d, w, _, h, hd, hw, hh⟩
    · rw [h]; exact nsSkip_placeholder n
    · rw [h]; exact fun prev Z i => ⟨_, nsScan_em ⟨st, d, w, []⟩ hd hw hh Z prev i⟩

theorem nsSkip_stage {esc : List Char} (h1 : '*' ∈ esc) (h2 : '_' ∈ esc) (lv : Nat) (hlv : 1 ≤ lv) (c : Chunk)
    (hok : MSegsOK c.segs) (m n0 n1 n2 : Nat) : NsSkip (c.stage esc lv true m n0 n1 n2) := by
  simp only [Chunk.stage, if_true]
  exact nsSkip_append (nsSkip_text _ (resid_no_delim h1 h2 c.t0 m)) (nsSkip_stageM h1 h2 lv hlv c.segs _ _ _ _ hok)

theorem nsFind_of_nsSkip (D : Str) (h : NsSkip D) : nsFind D 0 = none := by
  obtain ⟨p', hp⟩ := h none [] 0
  simp only [List.append_nil] at hp
  simp only [nsFind, show ¬ (0 > D.length) by omega, if_false, if_true, List.drop_zero]
  rw [hp]; rfl

/-! ### the passes on a whole chunk in context -/

theorem code_pass_chunk (cfg : Inline.Cfg) (hi : HI) (hb : '\\' ∈ cfg.esc) (ht : '`' ∈ cfg.esc) (Z : Str)
    (hZ : Z.head? ≠ some '`') (c : Chunk) (A : Str) (m n0 n1 n2 : Nat) (st : St) (g : Nat) (hA : BtOK A)
    (hAl : A.getLast? ≠ some '\\') (hok : MSegsOK c.segs) (hj : junctionsOK c.t0 false c.segs) :
    hiLoop (applyPattern cfg hi) (g + c.cnt 0) (A ++ (c.stage cfg.esc 0 false m n0 n1 n2 ++ Z)) 0 0 st =
      hiLoop (applyPattern cfg hi) g (A ++ (c.stage cfg.esc 1 false m st.stash.length n1 n2 ++ Z)) 0 0
        { st with stash := st.stash ++ nodesOf 0 c.segs } := by
  have := code_pass_ctx cfg hi hb ht Z hZ c.segs A c.t0 false (m + escCount cfg.esc c.t0) n0 n1 n2 st g hA hAl hok hj
  simpa only [Chunk.stage, Chunk.cnt, List.append_assoc, Bool.false_eq_true, if_false] using this

theorem star_pass_chunk (cfg : Inline.Cfg) (f : Nat) (h1 : '*' ∈ cfg.esc) (h2 : '_' ∈ cfg.esc) (Z : Str) (c : Chunk)
    (A : Str) (m n0 n1 n2 : Nat) (st : St) (g : Nat) (hA : '*' ∉ A) (hok : MSegsOK c.segs) :
    hiLoop (applyPattern cfg (fun d p s => handleInline cfg (f + 1) d p s)) (g + c.cnt 1)
        (A ++ (c.stage cfg.esc 1 true m n0 n1 n2 ++ Z)) 14 0 st =
      hiLoop (applyPattern cfg (fun d p s => handleInline cfg (f + 1) d p s)) g
        (A ++ (c.stage cfg.esc 2 true m n0 st.stash.length n2 ++ Z)) 14 0
        { st with stash := st.stash ++ nodesOf 1 c.segs } := by
  have hs0 : '*' ∉ A ++ resid cfg.esc m c.t0 := by
    intro h; rcases List.mem_append.1 h with h | h
    · exact hA h
    · exact (resid_no_delim h1 h2 c.t0 m _ h).1 rfl
  have := star_pass_ctx cfg f h1 h2 Z c.segs (A ++ resid cfg.esc m c.t0) (m + escCount cfg.esc c.t0) n0 n1 n2 st g hs0 hok
  simpa only [Chunk.stage, Chunk.cnt, List.append_assoc, if_true] using this

theorem under_pass_chunk (cfg : Inline.Cfg) (f : Nat) (h1 : '*' ∈ cfg.esc) (h2 : '_' ∈ cfg.esc) (Z : Str)
    (hZw : isW Z.head? = false) (hZ : NoTriple '_' Z) (c : Chunk)
    (A : Str) (m n0 n1 n2 : Nat) (st : St) (g : Nat) (hA : '_' ∉ A) (hok : MSegsOK c.segs)
    (hu : UnderOKM cfg.esc (if c.t0 = [] then isW (lastOr none A) else lastW cfg.esc c.t0) c.segs) :
    hiLoop (applyPattern cfg (fun d p s => handleInline cfg (f + 1) d p s)) (g + c.cnt 2)
        (A ++ (c.stage cfg.esc 2 true m n0 n1 n2 ++ Z)) 15 0 st =
      hiLoop (applyPattern cfg (fun d p s => handleInline cfg (f + 1) d p s)) g
        (A ++ (c.stage cfg.esc 3 true m n0 n1 st.stash.length ++ Z)) 15 0
        { st with stash := st.stash ++ nodesOf 2 c.segs } := by
  have hs0 : '_' ∉ A ++ resid cfg.esc m c.t0 := by
    intro h; rcases List.mem_append.1 h with h | h
    · exact hA h
    · exact (resid_no_delim h1 h2 c.t0 m _ h).2 rfl
  have hpw : isW (lastOr none (A ++ resid cfg.esc m c.t0)) =
      if c.t0 = [] then isW (lastOr none A) else lastW cfg.esc c.t0 := by
    rw [lastOr_append, isW_lastOr_resid]
  have := under_pass_ctx cfg f h1 h2 Z hZw hZ c.segs (A ++ resid cfg.esc m c.t0) (m + escCount cfg.esc c.t0) n0 n1 n2
    st g hs0 hok (by rw [hpw]; exact hu)
  simpa only [Chunk.stage, Chunk.cnt, List.append_assoc, if_true] using this

/-! ### the patterns after the escapes on a chunk that stands alone (the text of a link) -/

theorem stageM_length_ge (esc : List Char) (lv : Nat) (hlv : 1 ≤ lv) (segs : List MSeg) (hok : MSegsOK segs) :
    ∀ (m n0 n1 n2 : Nat), segs.length ≤ (stageM esc lv true m n0 n1 n2 segs).length := by
  induction segs with
  | nil => intro _ _ _ _; simp
  | cons s r ih =>
    intro m n0 n1 n2
    have h1 := (itemM_plain lv n0 n1 n2 s.k hlv (hok s List.mem_cons_self)).2
    have h2 := ih (fun x hx => hok x (List.mem_cons_of_mem _ hx)) (m + escCount esc s.t) (bump 0 s.k n0)
      (bump 1 s.k n1) (bump 2 s.k n2)
    have h3 : 1 ≤ (itemM lv n0 n1 n2 s.k).length := by
      cases hx : itemM lv n0 n1 n2 s.k with
      | nil => exact absurd hx h1
      | cons a b => simp
    simp only [stageM, List.length_append, List.length_cons] at h2 ⊢
    omega

theorem star_not_mem_stage2 {esc : List Char} (hE : EscOK esc) (hrb : ']' ∈ esc) (c : Chunk) (hok : MSegsOK c.segs)
    (hpl : c.Plain) (m n0 n1 n2 : Nat) : '*' ∉ c.stage esc 2 true m n0 n1 n2 := by
  intro h
  have := (charOK_stage hE hrb 2 (by omega) c hok hpl m n0 n1 n2 _ h).2.2.2.2.2.2.2.1 rfl
  omega

theorem under_not_mem_stage3 {esc : List Char} (hE : EscOK esc) (hrb : ']' ∈ esc) (c : Chunk) (hok : MSegsOK c.segs)
    (hpl : c.Plain) (m n0 n1 n2 : Nat) : '_' ∉ c.stage esc 3 true m n0 n1 n2 := by
  intro h
  have := (charOK_stage hE hrb 3 (by omega) c hok hpl m n0 n1 n2 _ h).2.2.2.2.2.2.2.2 rfl
  omega

/-- **the nested call on the text of a link**: `__handleInline(text, patternIndex + 1)` on a chunk whose code spans
    and escapes are placeholders already — the `*` emphases, then the `_` emphases are taken out -/
theorem handleInline_tail (cfg : Inline.Cfg) (hE : EscOK cfg.esc) (hrb : ']' ∈ cfg.esc) (f : Nat) (c : Chunk)
    (m n0 a b : Nat) (st : St) (pi : Nat) (hpi : 2 ≤ pi ∧ pi ≤ 13) (hok : MSegsOK c.segs) (hpl : c.Plain)
    (hu : UnderOKM cfg.esc (lastW cfg.esc c.t0) c.segs) :
    handleInline cfg (f + 2) (c.stage cfg.esc 1 true m n0 a b) pi st =
      some (c.stage cfg.esc 3 true m n0 st.stash.length (st.stash.length + c.cnt 1),
        { st with stash := st.stash ++ (nodesOf 1 c.segs ++ nodesOf 2 c.segs) }) := by
  generalize hD : c.stage cfg.esc 1 true m n0 a b = D
  have hlen : c.segs.length ≤ D.length := by
    rw [← hD]
    have := stageM_length_ge cfg.esc 1 (by omega) c.segs hok (m + escCount cfg.esc c.t0) n0 a b
    simp only [Chunk.stage, List.length_append]; omega
  have hsu := nodes_length c.segs hok
  obtain ⟨x, hx⟩ : ∃ x, loopFuel D.length =
      ((((((x + 1) + 1) + c.cnt 2) + 1) + c.cnt 1) + 1) + (13 - pi) :=
    ⟨loopFuel D.length - (c.cnt 2 + c.cnt 1 + 4 + (13 - pi)), by
      have := CodeLaw.loopFuel_ge D.length
      simp only [Chunk.cnt]; omega⟩
  show hiLoop (applyPattern cfg (fun d p s => handleInline cfg (f + 1) d p s)) (loopFuel D.length) D pi 0 st = _
  rw [hx]
  have hmid : Mid D := by
    rw [← hD]; exact mid_of_charOK (charOK_stage hE hrb 1 (by omega) c hok hpl m n0 a b)
  rw [hiLoop_mid cfg _ D st hmid _ (13 - pi) pi (by omega) hpi.1]
  -- pattern 13
  have hns : nsFind D 0 = none := by
    rw [← hD]; exact nsFind_of_nsSkip _ (nsSkip_stage hE.star hE.under 1 (by omega) c hok m n0 a b)
  rw [hiLoop_step _ _ _ 13 0 _ (by omega) _ _ _ _ (applyPattern_13 cfg _ D _ hns)]
  simp only [Bool.false_eq_true, if_false]
  -- pattern 14
  have e14 := star_pass_chunk cfg f hE.star hE.under [] c [] m n0 a b st (((x + 1) + 1) + c.cnt 2 + 1) (by simp) hok
  simp only [List.nil_append, List.append_nil] at e14
  rw [show 13 + 1 = 14 from rfl, ← hD, e14]
  rw [hiLoop_step _ _ _ 14 0 _ (by omega) _ _ _ _
    (applyPattern_em_none cfg _ 14 (Or.inl rfl) _ _ (by simpa using star_not_mem_stage2 hE hrb c hok hpl _ _ _ _))]
  simp only [Bool.false_eq_true, if_false]
  -- pattern 15
  have e15 := under_pass_chunk cfg f hE.star hE.under [] (by simp [isW]) (noTriple_nil _) c [] m n0
    st.stash.length b { st with stash := st.stash ++ nodesOf 1 c.segs } ((x + 1) + 1) (by simp) hok
    (by
      by_cases ht : c.t0 = []
      · simp only [ht, if_true]; rw [ht] at hu; simpa [lastOr, isW, lastW] using hu
      · simp only [ht, if_false]; exact hu)
  simp only [List.nil_append, List.append_nil] at e15
  rw [show 14 + 1 = 15 from rfl, e15]
  rw [hiLoop_step _ _ _ 15 0 _ (by omega) _ _ _ _
    (applyPattern_em_none cfg _ 15 (Or.inr rfl) _ _ (by simpa using under_not_mem_stage3 hE hrb c hok hpl _ _ _ _))]
  simp only [Bool.false_eq_true, if_false]
  simp only [hiLoop, patternCount, show ¬ (15 + 1 < 16) by omega, if_false]
  simp [Chunk.cnt, List.append_assoc]

end MdVerif.RefText
