/-
Helper lemmas for C10, part 6: the emphasis patterns (`seqGo`, `build`, `parseSub`, `emScan`) return elements whose
texts and tails are cut out of the data at delimiter characters, so that no placeholder is cut in two
(`em_stash_ok`).  Core Lean only.
-/
import MdVerif.Lemmas.PlaceholdersPat

namespace MdVerif.NoCtl
open Py Inline

/-! ### the backtracking matcher: shape of a successful match -/

/-- how a successful run of `seqGo` cuts the text: literal runs of the delimiter, captured groups, the unread rest -/
def SeqDecomp (c : Char) : List Step → Str → List Str → Str → Prop
  | [], suf, gs, rest => gs = [] ∧ suf = rest
  | .lit m :: st, suf, gs, rest => 0 < m ∧ ∃ suf', suf = List.replicate m c ++ suf' ∧ SeqDecomp c st suf' gs rest
  | .notnext :: st, suf, gs, rest => SeqDecomp c st suf gs rest
  | .nbW :: st, suf, gs, rest => SeqDecomp c st suf gs rest
  | .nbC :: st, suf, gs, rest => SeqDecomp c st suf gs rest
  | .naW :: st, suf, gs, rest => SeqDecomp c st suf gs rest
  | .lazy _ _ :: st, suf, gs, rest => ∃ g gs' suf', gs = g :: gs' ∧ suf = g ++ suf' ∧ SeqDecomp c st suf' gs' rest
  | .greedy _ :: st, suf, gs, rest => ∃ g gs' suf', gs = g :: gs' ∧ suf = g ++ suf' ∧ SeqDecomp c st suf' gs' rest

theorem lazyLoop_spec (c : Char) (notc : Bool) (k : K) (gs : List Str) :
    ∀ (suf : Str) (need : Nat) (prev : Option Char) (pos : Nat) (acc : Str) (r : Nat × List Str),
      lazyLoop c notc k gs need prev suf pos acc = some r →
      ∃ g suf' prev', suf = g ++ suf' ∧ k prev' suf' (pos + g.length) ((acc.reverse ++ g) :: gs) = some r := by
  intro suf
  induction suf with
  | nil =>
    intro need prev pos acc r h
    cases need with
    | zero =>
      simp only [lazyLoop] at h
      exact ⟨[], [], prev, rfl, by simpa using h⟩
    | succ n => simp [lazyLoop] at h
  | cons ch s ih =>
    intro need prev pos acc r h
    cases need with
    | zero =>
      simp only [lazyLoop] at h
      cases hk : k prev (ch :: s) pos (acc.reverse :: gs) with
      | some x =>
        simp only [hk, Option.some.injEq] at h
        subst h
        exact ⟨[], ch :: s, prev, rfl, by simpa using hk⟩
      | none =>
        simp only [hk] at h
        split at h
        · obtain ⟨g, suf', prev', h1, h2⟩ := ih _ _ _ _ _ h
          refine ⟨ch :: g, suf', prev', by simp [h1], ?_⟩
          simp only [List.reverse_cons, List.append_assoc, List.singleton_append, List.length_cons] at h2 ⊢
          rw [show pos + (g.length + 1) = pos + 1 + g.length by omega]; exact h2
        · cases h
    | succ n =>
      simp only [lazyLoop] at h
      split at h
      · obtain ⟨g, suf', prev', h1, h2⟩ := ih _ _ _ _ _ h
        refine ⟨ch :: g, suf', prev', by simp [h1], ?_⟩
        simp only [List.reverse_cons, List.append_assoc, List.singleton_append, List.length_cons] at h2 ⊢
        rw [show pos + (g.length + 1) = pos + 1 + g.length by omega]; exact h2
      · cases h

theorem greedyLoop_spec (c : Char) (mn : Nat) (k : K) (gs : List Str) :
    ∀ (suf : Str) (prev : Option Char) (pos L : Nat) (acc : Str) (r : Nat × List Str),
      greedyLoop c mn k gs prev suf pos L acc = some r →
      ∃ g suf' prev', suf = g ++ suf' ∧ k prev' suf' (pos + g.length) ((acc.reverse ++ g) :: gs) = some r := by
  intro suf
  induction suf with
  | nil =>
    intro prev pos L acc r h
    simp only [greedyLoop] at h
    split at h
    · exact ⟨[], [], prev, rfl, by simpa using h⟩
    · cases h
  | cons ch s ih =>
    intro prev pos L acc r h
    simp only [greedyLoop] at h
    have here : (if L ≥ mn then k prev (ch :: s) pos (acc.reverse :: gs) else none) = some r →
        ∃ g suf' prev', ch :: s = g ++ suf' ∧ k prev' suf' (pos + g.length) ((acc.reverse ++ g) :: gs) = some r := by
      intro hh
      split at hh
      · exact ⟨[], ch :: s, prev, rfl, by simpa using hh⟩
      · cases hh
    split at h
    · cases hg : greedyLoop c mn k gs (some ch) s (pos + 1) (L + 1) (ch :: acc) with
      | some x =>
        simp only [hg, Option.some.injEq] at h
        subst h
        obtain ⟨g, suf', prev', h1, h2⟩ := ih _ _ _ _ _ hg
        refine ⟨ch :: g, suf', prev', by simp [h1], ?_⟩
        simp only [List.reverse_cons, List.append_assoc, List.singleton_append, List.length_cons] at h2 ⊢
        rw [show pos + (g.length + 1) = pos + 1 + g.length by omega]; exact h2
      | none =>
        simp only [hg] at h
        exact here h
    · exact here h

theorem seqGo_spec (c : Char) : ∀ (steps : List Step) (prev : Option Char) (suf : Str) (pos : Nat) (gs : List Str)
    (e : Nat) (out : List Str), seqGo c steps prev suf pos gs = some (e, out) →
    ∃ gs' rest, out = gs.reverse ++ gs' ∧ SeqDecomp c steps suf gs' rest ∧ e + rest.length = pos + suf.length := by
  intro steps
  induction steps with
  | nil =>
    intro prev suf pos gs e out h
    simp only [seqGo, Option.some.injEq, Prod.mk.injEq] at h
    obtain ⟨rfl, rfl⟩ := h
    exact ⟨[], suf, by simp, ⟨rfl, rfl⟩, rfl⟩
  | cons st rest ih =>
    intro prev suf pos gs e out h
    cases st with
    | lit m =>
      simp only [seqGo] at h
      split at h
      · rename_i hc
        simp only [Bool.and_eq_true, decide_eq_true_eq, beq_iff_eq] at hc
        obtain ⟨gs', r, h1, h2, h3⟩ := ih _ _ _ _ _ _ h
        have hpre := countPrefix_prefix c (some m) suf
        rw [hc.2] at hpre
        have hlen : m ≤ suf.length := by
          have := countPrefix_le_length c (some m) suf; omega
        refine ⟨gs', r, h1, ⟨hc.1, suf.drop m, by rw [← hpre, List.take_append_drop], h2⟩, ?_⟩
        simp only [List.length_drop] at h3; omega
      · cases h
    | notnext =>
      simp only [seqGo] at h
      split at h
      · cases h
      · obtain ⟨gs', r, h1, h2, h3⟩ := ih _ _ _ _ _ _ h
        exact ⟨gs', r, h1, h2, h3⟩
    | nbW =>
      simp only [seqGo] at h
      split at h
      · cases h
      · obtain ⟨gs', r, h1, h2, h3⟩ := ih _ _ _ _ _ _ h
        exact ⟨gs', r, h1, h2, h3⟩
    | nbC =>
      simp only [seqGo] at h
      split at h
      · cases h
      · obtain ⟨gs', r, h1, h2, h3⟩ := ih _ _ _ _ _ _ h
        exact ⟨gs', r, h1, h2, h3⟩
    | naW =>
      simp only [seqGo] at h
      split at h
      · cases h
      · obtain ⟨gs', r, h1, h2, h3⟩ := ih _ _ _ _ _ _ h
        exact ⟨gs', r, h1, h2, h3⟩
    | lazy mn notc =>
      simp only [seqGo] at h
      obtain ⟨g, suf', prev', h1, h2⟩ := lazyLoop_spec c notc _ gs suf mn prev pos [] (e, out) h
      obtain ⟨gs', r, k1, k2, k3⟩ := ih _ _ _ _ _ _ h2
      refine ⟨g :: gs', r, by simp [k1], ⟨g, gs', suf', rfl, h1, k2⟩, ?_⟩
      rw [h1]; simp only [List.length_append]; omega
    | greedy mn =>
      simp only [seqGo] at h
      obtain ⟨g, suf', prev', h1, h2⟩ := greedyLoop_spec c mn _ gs suf prev pos 0 [] (e, out) h
      obtain ⟨gs', r, k1, k2, k3⟩ := ih _ _ _ _ _ _ h2
      refine ⟨g :: gs', r, by simp [k1], ⟨g, gs', suf', rfl, h1, k2⟩, ?_⟩
      rw [h1]; simp only [List.length_append]; omega

/-! ### groups are cut at delimiters -/

/-- after look-arounds, a literal run follows -/
def nextIsLit : List Step → Bool
  | .lit _ :: _ => true
  | .notnext :: st => nextIsLit st
  | .nbW :: st => nextIsLit st
  | .nbC :: st => nextIsLit st
  | .naW :: st => nextIsLit st
  | _ => false

/-- every captured group is followed by a literal run -/
def GoodSteps : List Step → Bool
  | [] => true
  | .lazy _ _ :: st => nextIsLit st && GoodSteps st
  | .greedy _ :: st => nextIsLit st && GoodSteps st
  | _ :: st => GoodSteps st

/-- a delimiter character: not part of any token -/
def Delim (c : Char) : Prop := inner c = false ∧ c ≠ STX ∧ c ≠ ETX

theorem seqDecomp_head {c : Char} : ∀ {st : List Step} {suf : Str} {gs : List Str} {rest : Str},
    SeqDecomp c st suf gs rest → nextIsLit st = true → ∃ t, suf = c :: t := by
  intro st
  induction st with
  | nil => intro suf gs rest _ h; simp [nextIsLit] at h
  | cons s st ih =>
    intro suf gs rest hd h
    cases s with
    | lit m =>
      obtain ⟨hm, suf', rfl, _⟩ := hd
      refine ⟨List.replicate (m - 1) c ++ suf', ?_⟩
      have : m = (m - 1) + 1 := by omega
      conv => lhs; rw [this, List.replicate_succ]
      rfl
    | notnext => exact ih hd (by simpa [nextIsLit] using h)
    | nbW => exact ih hd (by simpa [nextIsLit] using h)
    | nbC => exact ih hd (by simpa [nextIsLit] using h)
    | naW => exact ih hd (by simpa [nextIsLit] using h)
    | lazy a b => simp [nextIsLit] at h
    | greedy a => simp [nextIsLit] at h

theorem seqDecomp_wf {esc : Bool} {k : Nat} {c : Char} (hc : Delim c) : ∀ {st : List Step} {suf : Str}
    {gs : List Str} {rest : Str}, WF esc k suf → SeqDecomp c st suf gs rest → GoodSteps st = true →
    (∀ g ∈ gs, WF esc k g) ∧ WF esc k rest := by
  intro st
  induction st with
  | nil =>
    intro suf gs rest hw hd _
    obtain ⟨rfl, rfl⟩ := hd
    exact ⟨by simp, hw⟩
  | cons s st ih =>
    intro suf gs rest hw hd hg
    cases s with
    | lit m =>
      obtain ⟨hm, suf', rfl, hd'⟩ := hd
      have hb : Bnd (List.replicate m c) suf' := by
        right
        intro x hx
        have : x = c := by
          have hmem := List.mem_of_mem_getLast? hx
          exact (List.mem_replicate.1 hmem).2
        subst this
        exact ⟨hc.1, hc.2.1⟩
      exact ih (hw.split hb).2 hd' (by simpa [GoodSteps] using hg)
    | notnext => exact ih hw hd (by simpa [GoodSteps] using hg)
    | nbW => exact ih hw hd (by simpa [GoodSteps] using hg)
    | nbC => exact ih hw hd (by simpa [GoodSteps] using hg)
    | naW => exact ih hw hd (by simpa [GoodSteps] using hg)
    | lazy a b =>
      obtain ⟨g, gs', suf', rfl, rfl, hd'⟩ := hd
      simp only [GoodSteps, Bool.and_eq_true] at hg
      obtain ⟨t, rfl⟩ := seqDecomp_head hd' hg.1
      have hb : Bnd g (c :: t) := bnd_cons_right g t hc.1 hc.2.2
      obtain ⟨w1, w2⟩ := hw.split hb
      obtain ⟨r1, r2⟩ := ih w2 hd' hg.2
      refine ⟨?_, r2⟩
      intro x hx
      rcases List.mem_cons.1 hx with rfl | hx
      · exact w1
      · exact r1 x hx
    | greedy a =>
      obtain ⟨g, gs', suf', rfl, rfl, hd'⟩ := hd
      simp only [GoodSteps, Bool.and_eq_true] at hg
      obtain ⟨t, rfl⟩ := seqDecomp_head hd' hg.1
      have hb : Bnd g (c :: t) := bnd_cons_right g t hc.1 hc.2.2
      obtain ⟨w1, w2⟩ := hw.split hb
      obtain ⟨r1, r2⟩ := ih w2 hd' hg.2
      refine ⟨?_, r2⟩
      intro x hx
      rcases List.mem_cons.1 hx with rfl | hx
      · exact w1
      · exact r1 x hx

theorem seqDecomp_subset {c : Char} : ∀ {st : List Step} {suf : Str} {gs : List Str} {rest : Str},
    SeqDecomp c st suf gs rest → (∀ g ∈ gs, ∀ x ∈ g, x ∈ suf) ∧ ∀ x ∈ rest, x ∈ suf := by
  intro st
  induction st with
  | nil =>
    intro suf gs rest hd
    obtain ⟨rfl, rfl⟩ := hd
    exact ⟨by simp, fun x hx => hx⟩
  | cons s st ih =>
    intro suf gs rest hd
    cases s with
    | lit m =>
      obtain ⟨hm, suf', rfl, hd'⟩ := hd
      obtain ⟨r1, r2⟩ := ih hd'
      exact ⟨fun g hg x hx => List.mem_append_right _ (r1 g hg x hx), fun x hx => List.mem_append_right _ (r2 x hx)⟩
    | notnext => exact ih hd
    | nbW => exact ih hd
    | nbC => exact ih hd
    | naW => exact ih hd
    | lazy a b =>
      obtain ⟨g, gs', suf', rfl, rfl, hd'⟩ := hd
      obtain ⟨r1, r2⟩ := ih hd'
      refine ⟨?_, fun x hx => List.mem_append_right _ (r2 x hx)⟩
      intro y hy x hx
      rcases List.mem_cons.1 hy with rfl | hy
      · exact List.mem_append_left _ hx
      · exact List.mem_append_right _ (r1 y hy x hx)
    | greedy a =>
      obtain ⟨g, gs', suf', rfl, rfl, hd'⟩ := hd
      obtain ⟨r1, r2⟩ := ih hd'
      refine ⟨?_, fun x hx => List.mem_append_right _ (r2 x hx)⟩
      intro y hy x hx
      rcases List.mem_cons.1 hy with rfl | hy
      · exact List.mem_append_left _ hx
      · exact List.mem_append_right _ (r1 y hy x hx)

theorem seqDecomp_suffix {c : Char} : ∀ {st : List Step} {suf : Str} {gs : List Str} {rest : Str},
    SeqDecomp c st suf gs rest → ∃ pre, suf = pre ++ rest := by
  intro st
  induction st with
  | nil => intro suf gs rest hd; exact ⟨[], by simpa using hd.2⟩
  | cons s st ih =>
    intro suf gs rest hd
    cases s with
    | lit m =>
      obtain ⟨_, suf', rfl, hd'⟩ := hd
      obtain ⟨p, rfl⟩ := ih hd'
      exact ⟨List.replicate m c ++ p, by simp⟩
    | notnext => exact ih hd
    | nbW => exact ih hd
    | nbC => exact ih hd
    | naW => exact ih hd
    | lazy a b =>
      obtain ⟨g, gs', suf', rfl, rfl, hd'⟩ := hd
      obtain ⟨p, rfl⟩ := ih hd'
      exact ⟨g ++ p, by simp⟩
    | greedy a =>
      obtain ⟨g, gs', suf', rfl, rfl, hd'⟩ := hd
      obtain ⟨p, rfl⟩ := ih hd'
      exact ⟨g ++ p, by simp⟩

/-- what a successful `pattern.match(data, pos)` gives, for a pattern that starts with a literal run and whose groups
    are followed by literal runs: the match starts at a delimiter, the groups and the unread rest are well formed -/
theorem seqMatch_spec {esc : Bool} {k : Nat} {c : Char} (hc : Delim c) {steps : List Step}
    (hs1 : nextIsLit steps = true) (hs2 : GoodSteps steps = true) {data : Str} {pos e : Nat} {groups : List Str}
    (h : seqMatch data pos c steps = some (e, groups)) :
    pos ≤ e ∧ e ≤ data.length ∧ (∃ t, data.drop pos = c :: t) ∧
    (WF esc k (data.drop pos) → (∀ g ∈ groups, WF esc k g) ∧ WF esc k (data.drop e)) ∧
    (∀ g ∈ groups, ∀ x ∈ g, x ∈ data) := by
  unfold seqMatch at h
  split at h
  · cases h
  · rename_i hpos
    obtain ⟨gs', rest, h1, h2, h3⟩ := seqGo_spec c _ _ _ _ _ _ _ h
    simp only [List.reverse_nil, List.nil_append] at h1
    subst h1
    simp only [List.length_drop] at h3
    have hsub := seqDecomp_subset h2
    have hrl : rest.length ≤ (data.drop pos).length := by
      -- `rest` is a suffix of the text: compare lengths through the decomposition
      obtain ⟨p, hp⟩ := seqDecomp_suffix h2
      rw [hp]; simp
    simp only [List.length_drop] at hrl
    have hdrop : data.drop e = rest := by
      obtain ⟨p, hp⟩ := seqDecomp_suffix h2
      have hlen := congrArg List.length hp
      simp only [List.length_drop, List.length_append] at hlen
      have : e = pos + p.length := by omega
      rw [this, ← List.drop_drop, hp, List.drop_left]
    refine ⟨by omega, by omega, seqDecomp_head h2 hs1, ?_, ?_⟩
    · intro hw
      have := seqDecomp_wf hc hw h2 hs2
      exact ⟨this.1, by rw [hdrop]; exact this.2⟩
    · intro g hg x hx
      exact List.mem_of_mem_drop (hsub.1 g hg x hx)


/-! ### `build`, `parseSub` -/

/-- a string that may become a text or a tail -/
def StrS (esc : Bool) (k : Nat) (s : Str) : Prop := WF esc k s ∧ DomS esc s

theorem strS_nil (esc : Bool) (k : Nat) : StrS esc k [] := ⟨.nil, domS_nil esc⟩

/-- the emphasis patterns: start with a literal run, groups are followed by literal runs, tags are harmless -/
def ItemGood (item : EmItem) : Prop :=
  nextIsLit item.steps = true ∧ GoodSteps item.steps = true ∧ NoCtl item.tag1.toList ∧ NoCtl item.tag2.toList ∧
  item.tag1.toList ≠ "code".toList ∧ item.tag2.toList ≠ "code".toList

instance (item : EmItem) : Decidable (ItemGood item) := by unfold ItemGood; infer_instance

theorem emPatterns_good (c : Char) : ∀ item ∈ emPatterns c, ItemGood item := by
  unfold emPatterns
  split
  · decide
  · decide

theorem dnode_mkEl (esc : Bool) (k : Nat) {tag : String} (h1 : NoCtl tag.toList) (h2 : tag.toList ≠ "code".toList) :
    (mkEl tag).Forall (DNode esc k) := by
  rw [Node.forall_iff]
  refine ⟨⟨⟨h1, by intro kv hkv; simp [mkEl] at hkv, strW_none esc k, strW_none esc k, ?_⟩, rfl⟩, by simp [mkEl]⟩
  intro hc
  simp only [isCode, mkEl, beq_iff_eq, Tag.name.injEq] at hc
  exact absurd hc h2

theorem dnode_append {esc : Bool} {k : Nat} {p el : Node} (hp : p.Forall (DNode esc k)) (he : el.Forall (DNode esc k)) :
    (p.append el).Forall (DNode esc k) := by
  rw [Node.forall_iff] at hp ⊢
  refine ⟨hp.1, ?_⟩
  intro c hc
  simp only [Node.append, List.mem_append, List.mem_singleton] at hc
  rcases hc with hc | rfl
  · exact hp.2 c hc
  · exact he

theorem dnode_setTextOrTail {esc : Bool} {k : Nat} {p : Node} (hp : p.Forall (DNode esc k)) (hasLast : Bool)
    {text : Str} (ht : StrS esc k text) : (setTextOrTail p hasLast text).Forall (DNode esc k) := by
  unfold setTextOrTail
  split
  · exact hp
  · split
    · split
      · rename_i l hl
        rw [Node.forall_iff] at hp ⊢
        refine ⟨hp.1, ?_⟩
        intro c hc
        simp only [Node.setLast, List.mem_append, List.mem_singleton] at hc
        rcases hc with hc | rfl
        · exact hp.2 c (List.dropLast_subset _ hc)
        · have hlm := hp.2 l (List.mem_of_mem_getLast? hl)
          rw [Node.forall_iff] at hlm ⊢
          obtain ⟨⟨s1, s2, s3, s4, s5⟩, hat⟩ := hlm.1
          exact ⟨⟨⟨s1, s2, s3, ht, s5⟩, hat⟩, hlm.2⟩
      · exact hp
    · rw [Node.forall_iff] at hp ⊢
      obtain ⟨⟨s1, s2, s3, s4, s5⟩, hat⟩ := hp.1
      exact ⟨⟨⟨s1, s2, ht, s4, s5⟩, rfl⟩, hp.2⟩

/-- the contract of the nested `build_element` -/
def BuildOK (esc : Bool) (k : Nat) (b : List Str → EmItem → Nat → Option Node) : Prop :=
  ∀ (groups : List Str) (item : EmItem) (idx : Nat) (el : Node), (∀ g ∈ groups, StrS esc k g) → ItemGood item →
    b groups item idx = some el → el.Forall (DNode esc k)

/-- state of `parse_sub_patterns`: the text from `offset` on is well formed -/
structure SubOK (esc : Bool) (k : Nat) (data : Str) (s : SubSt) : Prop where
  le : s.offset ≤ s.pos
  wf : WF esc k (data.drop s.offset)
  par : s.parent.Forall (DNode esc k)

theorem subTry_spec {esc : Bool} {k : Nat} {c : Char} (hc : Delim c) {b : List Str → EmItem → Nat → Option Node}
    (hb : BuildOK esc k b) {data : Str} (hd : DomS esc data) (idx : Nat) :
    ∀ (items : List EmItem) (index : Nat) (s s' : SubSt), (∀ item ∈ items, ItemGood item) → SubOK esc k data s →
      subTry b data c idx items index s = some s' → SubOK esc k data s' := by
  intro items
  induction items with
  | nil =>
    intro index s s' _ hs h
    simp only [subTry, Option.some.injEq] at h
    subst h; exact hs
  | cons item rest ih =>
    intro index s s' hgood hs h
    have hrest : ∀ it ∈ rest, ItemGood it := fun it hit => hgood it (by simp [hit])
    simp only [subTry] at h
    split at h
    · exact ih _ _ _ hrest hs h
    · cases hm : seqMatch data s.pos c item.steps with
      | none => simp only [hm] at h; exact ih _ _ _ hrest hs h
      | some r =>
        obtain ⟨e, groups⟩ := r
        simp only [hm] at h
        cases hbd : b groups item index with
        | none => simp [hbd] at h
        | some el =>
          simp only [hbd] at h
          have hig := hgood item (by simp)
          obtain ⟨m1, m2, ⟨t, m3⟩, m4, m5⟩ := seqMatch_spec (esc := esc) (k := k) hc hig.1 hig.2.1 hm
          -- the text between the last match and this one
          have hsplit : data.drop s.offset = (data.drop s.offset).take (s.pos - s.offset) ++ data.drop s.pos := by
            have : data.drop s.pos = (data.drop s.offset).drop (s.pos - s.offset) := by
              rw [List.drop_drop]; congr 1; have := hs.le; omega
            rw [this, List.take_append_drop]
          have hw := hs.wf
          rw [hsplit, m3] at hw
          obtain ⟨w1, w2⟩ := hw.split (bnd_cons_right _ t hc.1 hc.2.2)
          rw [← m3] at w2
          obtain ⟨g1, g2⟩ := m4 w2
          have hslice : slice data s.offset s.pos = (data.drop s.offset).take (s.pos - s.offset) := by
            simp only [slice]; rw [List.drop_take]
          have hel := hb groups item index el
            (fun g hg => ⟨g1 g hg, hd.subset (m5 g hg)⟩) hig hbd
          refine ih _ _ _ hrest ⟨Nat.le_refl _, g2, ?_⟩ h
          refine dnode_append (dnode_setTextOrTail hs.par _ ?_) hel
          rw [hslice]
          exact ⟨w1, hd.subset (fun x hx => List.mem_of_mem_drop (List.mem_of_mem_take hx))⟩

theorem subLoop_spec {esc : Bool} {k : Nat} {c : Char} (hc : Delim c) {b : List Str → EmItem → Nat → Option Node}
    (hb : BuildOK esc k b) {data : Str} (hd : DomS esc data) (idx : Nat) :
    ∀ (g : Nat) (s s' : SubSt), SubOK esc k data s → subLoop b data c idx g s = some s' → SubOK esc k data s' := by
  intro g
  induction g with
  | zero => intro s s' _ h; simp [subLoop] at h
  | succ g ih =>
    intro s s' hs h
    simp only [subLoop] at h
    split at h
    · split at h
      · cases ht : subTry b data c idx (emPatterns c) 0 { s with matched := false } with
        | none => simp [ht] at h
        | some s1 =>
          simp only [ht] at h
          have hs0 : SubOK esc k data { s with matched := false } := ⟨hs.le, hs.wf, hs.par⟩
          have hs1 := subTry_spec hc hb hd idx (emPatterns c) 0 _ s1 (emPatterns_good c) hs0 ht
          refine ih _ _ ?_ h
          split
          · exact hs1
          · exact ⟨Nat.le_succ_of_le hs1.le, hs1.wf, hs1.par⟩
      · exact ih { s with pos := s.pos + 1 } _ ⟨Nat.le_succ_of_le hs.le, hs.wf, hs.par⟩ h
    · simp only [Option.some.injEq] at h
      subst h; exact hs

theorem parseSub_spec {esc : Bool} {k : Nat} {c : Char} (hc : Delim c) {b : List Str → EmItem → Nat → Option Node}
    (hb : BuildOK esc k b) {data : Str} (hs : StrS esc k data) {parent : Node} (hp : parent.Forall (DNode esc k))
    (hasLast : Bool) (idx : Nat) {el : Node} (h : parseSub b data parent hasLast idx c = some el) :
    el.Forall (DNode esc k) := by
  unfold parseSub at h
  cases hl : subLoop b data c idx (data.length + 1) ⟨0, 0, parent, hasLast, false⟩ with
  | none => simp [hl] at h
  | some s =>
    simp only [hl, Option.some.injEq] at h
    subst h
    have := subLoop_spec hc hb hs.2 idx _ _ _ ⟨Nat.le_refl _, by simpa using hs.1, hp⟩ hl
    exact dnode_setTextOrTail this.par _ ⟨this.wf, hs.2.subset (fun x hx => List.mem_of_mem_drop hx)⟩

theorem build_spec {esc : Bool} {k : Nat} {c : Char} (hc : Delim c) : ∀ f, BuildOK esc k (build c f) := by
  intro f
  induction f with
  | zero => intro groups item idx el _ _ h; simp [build] at h
  | succ f ih =>
    intro groups item idx el hg hig h
    have hg0 : StrS esc k (groups.headD []) := by
      cases groups with
      | nil => exact strS_nil esc k
      | cons g r => exact hg g (by simp)
    have hsub : ∀ (d : Str) (p : Node) (hl : Bool) (r : Node), StrS esc k d → p.Forall (DNode esc k) →
        parseSub (fun g i j => build c f g i j) d p hl idx c = some r → r.Forall (DNode esc k) :=
      fun d p hl r hd hp hr => parseSub_spec hc ih hd hp hl idx hr
    have t1 := dnode_mkEl esc k hig.2.2.1 hig.2.2.2.2.1
    have t2 := dnode_mkEl esc k hig.2.2.2.1 hig.2.2.2.2.2
    simp only [build] at h
    split at h
    · exact hsub _ _ _ _ hg0 t1 h
    · split at h
      · cases h
      · rename_i el2 h2
        have hel2 := hsub _ _ _ _ hg0 t2 h2
        have hel1 := dnode_append t1 hel2
        split at h
        · rename_i x g1
          exact hsub _ _ _ _ (hg g1 (by simp)) hel1 h
        · simp only [Option.some.injEq] at h
          subst h; exact hel1
    · split at h
      · rename_i el1 el2 h1 h2
        simp only [Option.some.injEq] at h
        subst h
        have hg1 : StrS esc k (groups.getD 1 []) := by
          cases hx : groups[1]? with
          | none => simp [List.getD, hx]; exact strS_nil esc k
          | some g => simp [List.getD, hx]; exact hg g (List.mem_of_getElem? hx)
        exact dnode_append (hsub _ _ _ _ hg0 t1 h1) (hsub _ _ _ _ hg1 t2 h2)
      · cases h


/-! ### `emHandle`, `emScan`: the stashed emphasis element -/

theorem emHandle_spec {esc : Bool} {k : Nat} {c : Char} (hc : Delim c) {data : Str} (hw : WF esc k data)
    (hd : DomS esc data) (i : Nat) :
    ∀ (items : List EmItem) (idx : Nat) (el : Node) (e : Nat), (∀ item ∈ items, ItemGood item) →
      emHandle data i c items idx = some (some (el, e)) →
      el.Forall (DNode esc k) ∧ Splice esc k data i (e : Int) := by
  intro items
  induction items with
  | nil => intro idx el e _ h; simp [emHandle] at h
  | cons item rest ih =>
    intro idx el e hgood h
    simp only [emHandle] at h
    cases hm : seqMatch data i c item.steps with
    | none => simp only [hm] at h; exact ih _ _ _ (fun it hit => hgood it (by simp [hit])) h
    | some r =>
      obtain ⟨e', groups⟩ := r
      simp only [hm] at h
      cases hb : build c (data.length + 2) groups item idx with
      | none => simp [hb] at h
      | some el' =>
        simp only [hb, Option.some.injEq, Prod.mk.injEq] at h
        obtain ⟨rfl, rfl⟩ := h
        have hig := hgood item (by simp)
        obtain ⟨m1, m2, ⟨t, m3⟩, m4, m5⟩ := seqMatch_spec (esc := esc) (k := k) hc hig.1 hig.2.1 hm
        have hw' := hw
        rw [← List.take_append_drop i data, m3] at hw'
        obtain ⟨w1, w2⟩ := hw'.split (bnd_cons_right _ t hc.1 hc.2.2)
        rw [← m3] at w2
        obtain ⟨g1, g2⟩ := m4 w2
        refine ⟨build_spec hc _ groups item idx el' (fun g hg => ⟨g1 g hg, hd.subset (m5 g hg)⟩) hig hb, w1, ?_⟩
        rw [pyDrop_natCast]; exact g2

theorem emScan_spec {esc : Bool} {k : Nat} {c : Char} (hc : Delim c) {data : Str} (hw : WF esc k data)
    (hd : DomS esc data) :
    ∀ (suf : Str) (i : Nat) (el : Node) (s e : Nat), emScan data c suf i = some (some (el, s, e)) →
      el.Forall (DNode esc k) ∧ Splice esc k data s (e : Int) := by
  intro suf
  induction suf with
  | nil => intro i el s e h; simp [emScan] at h
  | cons ch r ih =>
    intro i el s e h
    simp only [emScan] at h
    split at h
    · cases hh : emHandle data i c (emPatterns c) 0 with
      | none => simp [hh] at h
      | some x =>
        cases x with
        | none => simp only [hh] at h; exact ih _ _ _ _ h
        | some p =>
          obtain ⟨el', e'⟩ := p
          simp only [hh, Option.some.injEq, Prod.mk.injEq] at h
          obtain ⟨rfl, rfl, rfl⟩ := h
          exact emHandle_spec hc hw hd i _ _ _ _ (emPatterns_good c) hh
    · exact ih _ _ _ _ h

theorem delim_star : Delim '*' := by unfold Delim; decide
theorem delim_under : Delim '_' := by unfold Delim; decide

theorem rawNode_of_dnode {esc : Bool} {k : Nat} {n : Node} (h : n.Forall (DNode esc k)) : RawNode esc k n := by
  rw [Node.forall_iff] at h
  exact ⟨h.1.1, h.2⟩

/-- `C10_em_stash_ok`: the element returned by the asterisk / underscore processor can be stashed -/
theorem em_stash_ok {esc : Bool} {k : Nat} {c : Char} (hc : Delim c) {data : Str} (hw : WF esc k data)
    (hd : DomS esc data) {suf : Str} {i : Nat} {el : Node} {s e : Nat}
    (h : emScan data c suf i = some (some (el, s, e))) : FoundOK esc k data ⟨.el el, s, e⟩ := by
  obtain ⟨h1, h2⟩ := emScan_spec hc hw hd _ _ _ _ _ h
  exact ⟨h2, rawNode_of_dnode h1⟩


/-! ### the contract of `findMatch` in the two modes -/

/-- what the two mode-dependent patterns (backtick, escape) have to provide -/
structure ModeOK (esc : Bool) (cfg : Cfg) : Prop where
  backtick : ∀ (k : Nat) (data : Str) (si : Nat) (m : BtMatch), WF esc k data → DomS esc data →
    btFind data si = some m → m.kind = .code ∧
      FoundOK esc k data
        ⟨.el { mkEl "code" with text := some (Inline.codeEscape (strip m.group)), textAtomic := true }, m.start, m.stop⟩
  escape : ∀ (k : Nat) (data : Str) (si j : Nat) (ch : Char), WF esc k data → DomS esc data →
    escScan (data.drop si) si = some (j, ch) →
      FoundOK esc k data
        ⟨if cfg.esc.contains ch then .str (STX :: natToDec ch.toNat ++ [ETX]) else .none, j, j + 2⟩

theorem fmSpec_of_modeOK {esc : Bool} {cfg : Cfg} (hm : ModeOK esc cfg) : FMSpec esc cfg := by
  intro pi data si st fo st' hpi hw hd h
  have hnone : some ((none : Option Found), st) = some (fo, st') →
      st' = st ∧ ∀ f, fo = some f → FoundOK esc st.stash.length data f := by
    intro hx
    simp only [Option.some.injEq, Prod.mk.injEq] at hx
    obtain ⟨rfl, rfl⟩ := hx
    exact ⟨rfl, fun f hf => by cases hf⟩
  unfold findMatch at h
  simp only at h
  split at h
  · exact hnone h
  · have hpi' : pi = 0 ∨ pi = 1 ∨ pi = 2 ∨ pi = 3 ∨ pi = 4 ∨ pi = 5 ∨ pi = 6 ∨ pi = 7 ∨ pi = 8 ∨ pi = 9 ∨ pi = 10 ∨
        pi = 11 ∨ pi = 12 ∨ pi = 13 ∨ pi = 14 ∨ pi = 15 := by
      unfold patternCount at hpi; omega
    have hlink : ∀ p, linkScan cfg st.stash p data (if si = 0 then none else data[si - 1]?) (data.drop si) si = none :=
      fun p => linkScan_none _ _ _ _ _ _ _ (fun hmem => dom_no_bracket hd (List.mem_of_mem_drop hmem))
    rcases hpi' with rfl | rfl | rfl | rfl | rfl | rfl | rfl | rfl | rfl | rfl | rfl | rfl | rfl | rfl | rfl | rfl
    · -- backtick
      simp only at h
      cases hb : btFind data si with
      | none => simp only [hb] at h; exact hnone h
      | some m =>
        simp only [hb] at h
        obtain ⟨hk, hf⟩ := hm.backtick st.stash.length data si m hw hd hb
        simp only [hk, Option.some.injEq, Prod.mk.injEq] at h
        obtain ⟨rfl, rfl⟩ := h
        exact ⟨rfl, fun f hf' => by cases hf'; exact hf⟩
    · -- escape
      simp only at h
      cases he : escScan (data.drop si) si with
      | none => simp only [he] at h; exact hnone h
      | some r =>
        obtain ⟨j, ch⟩ := r
        simp only [he, Option.some.injEq, Prod.mk.injEq] at h
        obtain ⟨rfl, rfl⟩ := h
        exact ⟨rfl, fun f hf' => by cases hf'; exact hm.escape _ _ _ _ _ hw hd he⟩
    · simp only [hlink] at h; exact hnone h
    · simp only [hlink] at h; exact hnone h
    · simp only [hlink] at h; exact hnone h
    · simp only [hlink] at h; exact hnone h
    · simp only [hlink] at h; exact hnone h
    · simp only [hlink] at h; exact hnone h
    · exact hnone h
    · exact hnone h
    · -- linebreak
      simp only at h
      cases hf : find [' ', ' ', '\n'] (data.drop si) with
      | none => simp only [hf] at h; exact hnone h
      | some off =>
        simp only [hf, Option.some.injEq, Prod.mk.injEq] at h
        obtain ⟨rfl, rfl⟩ := h
        exact ⟨rfl, fun f hf' => by cases hf'; exact linebreak_stash_ok hw hf⟩
    · exact hnone h
    · -- entity: needs `&`
      simp only [entityFind_none (dom_no_amp hd)] at h
      exact hnone h
    · -- not_strong
      simp only at h
      cases hf : nsFind data si with
      | none => simp only [hf] at h; exact hnone h
      | some r =>
        obtain ⟨s, e⟩ := r
        simp only [hf, Option.some.injEq, Prod.mk.injEq] at h
        obtain ⟨rfl, rfl⟩ := h
        exact ⟨rfl, fun f hf' => by cases hf'; exact not_strong_stash_ok hw hd hf⟩
    · -- em_strong
      simp only at h
      rw [if_pos True.intro] at h
      cases hf : emScan data '*' (data.drop si) si with
      | none => simp [hf] at h
      | some r =>
        cases r with
        | none => simp only [hf] at h; exact hnone h
        | some p =>
          obtain ⟨el, s, e⟩ := p
          simp only [hf, Option.some.injEq, Prod.mk.injEq] at h
          obtain ⟨rfl, rfl⟩ := h
          exact ⟨rfl, fun f hf' => by cases hf'; exact em_stash_ok delim_star hw hd hf⟩
    · -- em_strong2
      simp only at h
      have e15 : (if (15 : Nat) = 14 then '*' else '_') = '_' := by decide
      rw [e15] at h
      cases hf : emScan data '_' (data.drop si) si with
      | none => simp [hf] at h
      | some r =>
        cases r with
        | none => simp only [hf] at h; exact hnone h
        | some p =>
          obtain ⟨el, s, e⟩ := p
          simp only [hf, Option.some.injEq, Prod.mk.injEq] at h
          obtain ⟨rfl, rfl⟩ := h
          exact ⟨rfl, fun f hf' => by cases hf'; exact em_stash_ok delim_under hw hd hf⟩

theorem modeOK_true {cfg : Cfg} (hcfg : EscOK cfg.esc) : ModeOK true cfg where
  backtick := by
    intro k data si m _ hd hb
    rw [btFind_none (dom_no_backtick hd)] at hb; cases hb
  escape := by
    intro k data si j ch hw _ he
    exact escape_stash_ok hcfg hw he

theorem modeOK_false (cfg : Cfg) : ModeOK false cfg where
  backtick := by
    intro k data si m hw hd hb
    exact backtick_stash_ok hw hd hb
  escape := by
    intro k data si j ch _ hd he
    rw [escScan_none _ _ (fun hmem => dom_no_backslash hd (List.mem_of_mem_drop hmem))] at he; cases he

/-- the contract of `handleInline` on the two domains -/
theorem hiSpec_true {cfg : Cfg} (hcfg : EscOK cfg.esc) : HISpec true cfg :=
  hiSpec_of_fmSpec (fmSpec_of_modeOK (modeOK_true hcfg))

theorem hiSpec_false (cfg : Cfg) : HISpec false cfg :=
  hiSpec_of_fmSpec (fmSpec_of_modeOK (modeOK_false cfg))


end MdVerif.NoCtl
