/-
Helper lemmas for C09 (`Props/C09.lean`).  Core Lean only.
-/
import MdVerif.Model.Normalize
import MdVerif.Spec.Normalize

namespace MdVerif.Normalize
open Py

/-! ### `str.replace` with a one-character pattern -/

theorem startsWith_nil (s : Str) : startsWith s [] = true := by
  cases s <;> rfl

theorem replaceAux_single_nil (a : Char) (s : Str) :
    replaceAux [a] [] 0 s = s.filter (fun c => c != a) := by
  induction s with
  | nil => rfl
  | cons c s ih =>
    by_cases h : c = a
    · simp [replaceAux, startsWith, startsWith_nil, h, ih]
    · simp [replaceAux, startsWith, startsWith_nil, h, ih]

/-- removing the two delimiters is a filter -/
def notCtl (c : Char) : Bool := c != STX && c != ETX

theorem stripCtl_eq_filter (s : Str) : stripCtl s = s.filter notCtl := by
  simp only [stripCtl, stripStx, stripEtx, replace, replaceAux_single_nil, List.filter_filter, List.isEmpty_cons,
    Bool.false_eq_true, if_false]
  congr 1; funext c; simp only [notCtl, Bool.and_comm]

theorem stripCtl_append (x y : Str) : stripCtl (x ++ y) = stripCtl x ++ stripCtl y := by
  simp only [stripCtl_eq_filter, List.filter_append]

theorem stripCtl_idem (s : Str) : stripCtl (stripCtl s) = stripCtl s := by
  simp only [stripCtl_eq_filter, List.filter_filter, Bool.and_self]

theorem stripCtl_cons (c : Char) (s : Str) :
    stripCtl (c :: s) = if notCtl c then c :: stripCtl s else stripCtl s := by
  simp only [stripCtl_eq_filter, List.filter_cons]

theorem mem_stripCtl {c : Char} {s : Str} : c ∈ stripCtl s ↔ c ∈ s ∧ c ≠ STX ∧ c ≠ ETX := by
  simp [stripCtl_eq_filter, notCtl]

/-! ### CRLF and CR to LF: the two replacements are one scanner

`nlAux b s`: `b` tells whether the previous character was a `\r` (already turned into `\n`). -/

def nlAux : Bool → Str → Str
  | _, [] => []
  | b, c :: s =>
    if c = '\r' then '\n' :: nlAux true s
    else if c = '\n' then (if b then nlAux false s else '\n' :: nlAux false s)
    else c :: nlAux false s

/-- is the last character a `\r` (`b` for the empty string) -/
def endCR : Bool → Str → Bool
  | b, [] => b
  | _, c :: s => endCR (c = '\r') s

theorem cr_nil : cr [] = [] := rfl

theorem cr_cons (c : Char) (s : Str) : cr (c :: s) = (if c = '\r' then '\n' else c) :: cr s := by
  by_cases h : c = '\r'
  · simp [cr, replace, replaceAux, startsWith, startsWith_nil, h]
  · simp [cr, replace, replaceAux, startsWith, startsWith_nil, h]

theorem nlAux_true_eq_false (s : Str) (h : s.head? ≠ some '\n') : nlAux true s = nlAux false s := by
  cases s with
  | nil => rfl
  | cons c s =>
    have : c ≠ '\n' := by simpa using h
    simp [nlAux, this]

theorem crlfAux_nil (k : Nat) : replaceAux ['\r', '\n'] ['\n'] k [] = [] := by
  cases k <;> rfl

theorem cr_crlf_aux (s : Str) :
    cr (replaceAux ['\r', '\n'] ['\n'] 0 s) = nlAux false s ∧
    (s.head? = some '\n' → cr (replaceAux ['\r', '\n'] ['\n'] 1 s) = nlAux true s) := by
  induction s with
  | nil => simp [replaceAux, nlAux, cr_nil]
  | cons c t ih =>
    constructor
    · by_cases hc : c = '\r'
      · subst hc
        by_cases ht : t.head? = some '\n'
        · obtain ⟨d, t', rfl⟩ : ∃ d t', t = d :: t' := by
            cases t with
            | nil => simp at ht
            | cons d t' => exact ⟨d, t', rfl⟩
          have hd : d = '\n' := by simpa using ht
          subst hd
          have := ih.2 rfl
          simp [replaceAux, startsWith, startsWith_nil, nlAux, cr_cons] at this ⊢
          exact this
        · have hs : startsWith ('\r' :: t) ['\r', '\n'] = false := by
            cases t with
            | nil => rfl
            | cons d t' =>
              have : d ≠ '\n' := by simpa using ht
              simp [startsWith, this]
          simp [replaceAux, hs, cr_cons, nlAux, ih.1, nlAux_true_eq_false t ht]
      · have hs : startsWith (c :: t) ['\r', '\n'] = false := by simp [startsWith, hc]
        by_cases hn : c = '\n'
        · subst hn
          simp [replaceAux, hs, cr_cons, nlAux, ih.1]
        · simp [replaceAux, hs, cr_cons, nlAux, ih.1, hc, hn]
    · intro h
      have hc : c = '\n' := by simpa using h
      subst hc
      simp [replaceAux, nlAux, ih.1]

/-- the two `replace` calls together -/
theorem cr_crlf (s : Str) : cr (crlf s) = nlAux false s := by
  simp [crlf, replace, (cr_crlf_aux s).1]

/-- `normalize` in terms of the scanners -/
theorem normalize_eq (tab : Nat) (s : Str) :
    normalize tab s = wsLinesAux (some 0) (expandtabsAux tab 0 (nlAux false (stripCtl s) ++ ['\n', '\n'])) := by
  simp only [normalize, wsLines, expandtabs, append2nl, cr_crlf]

theorem nlAux_append (b : Bool) (x y : Str) : nlAux b (x ++ y) = nlAux b x ++ nlAux (endCR b x) y := by
  induction x generalizing b with
  | nil => rfl
  | cons c x ih =>
    by_cases h1 : c = '\r'
    · simp [nlAux, endCR, h1, ih]
    · by_cases h2 : c = '\n'
      · cases b <;> simp [nlAux, endCR, h2, ih]
      · simp [nlAux, endCR, h1, h2, ih]

theorem endCR_append_singleton (b : Bool) (x : Str) (c : Char) : endCR b (x ++ [c]) = decide (c = '\r') := by
  induction x generalizing b with
  | nil => rfl
  | cons d x ih => simp [endCR, ih]

theorem endCR_eq_getLast (b : Bool) (x : Str) :
    endCR b x = match x.getLast? with | none => b | some c => decide (c = '\r') := by
  induction x generalizing b with
  | nil => rfl
  | cons d x ih =>
    cases x with
    | nil => simp [endCR]
    | cons e x =>
      rw [endCR, ih]
      cases hgl : (e :: x).getLast? with
      | none => simp at hgl
      | some c => simp [List.getLast?_cons_cons, hgl]

/-- a piece of text without line-break characters goes through unchanged … -/
theorem nlAux_line (b : Bool) (x : Str) (h : isLine x = true) : nlAux b x = x := by
  induction x generalizing b with
  | nil => rfl
  | cons c x ih =>
    simp only [isLine, List.all_cons, Bool.and_eq_true, bne_iff_ne, ne_eq] at h
    have hx : isLine x = true := by simpa [isLine] using h.2
    simp [nlAux, h.1.1, h.1.2, ih false hx]

/-- … and does not leave the scanner in the "after CR" state -/
theorem endCR_line (b : Bool) (x : Str) (h : isLine x = true) : endCR b x = (x.isEmpty && b) := by
  induction x generalizing b with
  | nil => simp [endCR]
  | cons c x ih =>
    simp only [isLine, List.all_cons, Bool.and_eq_true, bne_iff_ne, ne_eq] at h
    have hx : isLine x = true := by simpa [isLine] using h.2
    rw [endCR, ih _ hx]; simp [h.1.2]

theorem nlAux_replicate_nl (k : Nat) : nlAux false (List.replicate k '\n') = List.replicate k '\n' := by
  induction k with
  | zero => rfl
  | succ k ih => simp [List.replicate_succ, nlAux, ih]

/-! ### `expandtabs` -/

/-- the column `expandtabsAux` has reached after `s`, started at column `n` -/
def colAfter (tab : Nat) : Nat → Str → Nat
  | n, [] => n
  | n, c :: s =>
    if c = '\t' then colAfter tab (n + (tab - n % tab)) s
    else if c = '\n' || c = '\r' then colAfter tab 0 s
    else colAfter tab (n + 1) s

theorem expandtabsAux_append (tab n : Nat) (x y : Str) :
    expandtabsAux tab n (x ++ y) = expandtabsAux tab n x ++ expandtabsAux tab (colAfter tab n x) y := by
  induction x generalizing n with
  | nil => rfl
  | cons c x ih =>
    by_cases h1 : c = '\t'
    · by_cases ht : tab > 0
      · simp [expandtabsAux, colAfter, h1, ht, ih]
      · have : tab = 0 := by omega
        subst this
        simp [expandtabsAux, colAfter, h1, ih]
    · by_cases h2 : c = '\n' ∨ c = '\r'
      · simp [expandtabsAux, colAfter, h1, h2, ih]
      · simp [expandtabsAux, colAfter, h1, h2, ih]

theorem colAfter_append_nl (tab n : Nat) (x : Str) : colAfter tab n (x ++ ['\n']) = 0 := by
  induction x generalizing n with
  | nil => simp [colAfter]
  | cons c x ih => simp only [List.cons_append, colAfter, ih]; simp

theorem expandtabsAux_replicate_space (tab n k : Nat) (y : Str) :
    expandtabsAux tab n (List.replicate k ' ' ++ y) = List.replicate k ' ' ++ expandtabsAux tab (n + k) y := by
  induction k generalizing n with
  | zero => rfl
  | succ k ih =>
    simp only [List.replicate_succ, List.cons_append, expandtabsAux]
    simp [ih, Nat.add_assoc, Nat.add_comm 1 k]

theorem expandtabsAux_replicate_nl (tab n k : Nat) :
    expandtabsAux tab n (List.replicate k '\n') = List.replicate k '\n' := by
  induction k generalizing n with
  | zero => rfl
  | succ k ih => simp [List.replicate_succ, expandtabsAux, ih]

/-- a tab is the spaces to the next tab stop -/
theorem expandtabsAux_tab (tab n : Nat) (ht : tab > 0) (y : Str) :
    expandtabsAux tab n ('\t' :: y) = expandtabsAux tab n (List.replicate (tab - n % tab) ' ' ++ y) := by
  rw [expandtabsAux_replicate_space]
  simp [expandtabsAux, ht]

/-- spaces and tabs at column `n` followed by a line feed expand to spaces followed by the line feed -/
theorem expandtabsAux_blank_nl (tab : Nat) (w : Str) (hw : ∀ c ∈ w, c = ' ' ∨ c = '\t') (n : Nat) :
    ∃ m, ∀ y, expandtabsAux tab n (w ++ '\n' :: y) = List.replicate m ' ' ++ '\n' :: expandtabsAux tab 0 y := by
  induction w generalizing n with
  | nil => exact ⟨0, fun y => by simp [expandtabsAux]⟩
  | cons c w ih =>
    have hw' : ∀ c ∈ w, c = ' ' ∨ c = '\t' := fun d hd => hw d (List.mem_cons_of_mem _ hd)
    rcases hw c (List.mem_cons_self) with h | h
    · subst h
      obtain ⟨m, hm⟩ := ih hw' (n + 1)
      exact ⟨m + 1, fun y => by simp [expandtabsAux, hm, List.replicate_succ]⟩
    · subst h
      by_cases ht : tab > 0
      · obtain ⟨m, hm⟩ := ih hw' (n + (tab - n % tab))
        exact ⟨(tab - n % tab) + m, fun y => by
          simp only [List.cons_append, expandtabsAux, ht, if_true, hm]
          rw [← List.append_assoc, List.replicate_append_replicate]⟩
      · obtain ⟨m, hm⟩ := ih hw' n
        exact ⟨m, fun y => by simp [expandtabsAux, ht, hm]⟩

/-! ### the whitespace-line substitution -/

theorem wsLinesAux_nl (st : Option Nat) (y : Str) :
    wsLinesAux st ('\n' :: y) = '\n' :: wsLinesAux (some 0) y := by
  cases st <;> simp [wsLinesAux]

/-- the scanner restarts after every line feed -/
theorem wsLinesAux_split (st : Option Nat) (x y : Str) :
    wsLinesAux st (x ++ '\n' :: y) = wsLinesAux st (x ++ ['\n']) ++ wsLinesAux (some 0) y := by
  induction x generalizing st with
  | nil => simp [wsLinesAux_nl, wsLinesAux]
  | cons c x ih =>
    cases st with
    | none =>
      by_cases h : c = '\n'
      · simp [wsLinesAux, h, ih]
      · simp [wsLinesAux, h, ih]
    | some n =>
      by_cases h1 : c = ' '
      · simp [wsLinesAux, h1, ih]
      · by_cases h2 : c = '\n'
        · simp [wsLinesAux, h2, ih]
        · simp [wsLinesAux, h1, h2, ih]

/-- a run of spaces between two line feeds is deleted -/
theorem wsLinesAux_spaces_nl (n m : Nat) (z : Str) :
    wsLinesAux (some n) (List.replicate m ' ' ++ '\n' :: z) = '\n' :: wsLinesAux (some 0) z := by
  induction m generalizing n with
  | zero => simp [wsLinesAux]
  | succ m ih => simp [List.replicate_succ, wsLinesAux, ih]

theorem wsLinesAux_replicate_nl (k : Nat) :
    wsLinesAux (some 0) (List.replicate k '\n') = List.replicate k '\n' := by
  induction k with
  | zero => rfl
  | succ k ih => simp [List.replicate_succ, wsLinesAux, ih]

/-! ### the pipeline behind a line feed -/

theorem expandtabsAux_snoc_nl (tab n : Nat) (x : Str) :
    expandtabsAux tab n (x ++ ['\n']) = expandtabsAux tab n x ++ ['\n'] := by
  rw [expandtabsAux_append]; simp [expandtabsAux]

/-- after a line feed the tab expander is at column 0 and the whitespace-line scanner in state `some 0` -/
theorem pipeline_split (st : Option Nat) (tab : Nat) (x y : Str) :
    wsLinesAux st (expandtabsAux tab 0 (x ++ '\n' :: y)) =
      wsLinesAux st (expandtabsAux tab 0 x ++ ['\n']) ++ wsLinesAux (some 0) (expandtabsAux tab 0 y) := by
  have h : x ++ '\n' :: y = (x ++ ['\n']) ++ y := by simp
  rw [h, expandtabsAux_append, colAfter_append_nl, expandtabsAux_snoc_nl, List.append_assoc]
  exact wsLinesAux_split st _ _

/-- unless it swallows the line feed of a CRLF at the very start, the output of the line-ending scanner on a text
    ending with a line feed ends with a line feed -/
theorem nlAux_snoc_nl (b : Bool) (x : Str) (h : b = false ∨ x ≠ []) :
    ∃ q, nlAux b (x ++ ['\n']) = q ++ ['\n'] := by
  induction x generalizing b with
  | nil =>
    have hb : b = false := by simpa using h
    subst hb
    exact ⟨[], by simp [nlAux]⟩
  | cons c x ih =>
    by_cases h1 : c = '\r'
    · subst h1
      cases x with
      | nil => exact ⟨[], by simp [nlAux]⟩
      | cons d x =>
        obtain ⟨q, hq⟩ := ih true (Or.inr (by simp))
        exact ⟨'\n' :: q, by simp only [List.cons_append, nlAux, if_true] at hq ⊢; rw [hq]⟩
    · obtain ⟨q, hq⟩ := ih false (Or.inl rfl)
      by_cases h2 : c = '\n'
      · subst h2
        cases b
        · exact ⟨'\n' :: q, by simp [nlAux, hq]⟩
        · exact ⟨q, by simp [nlAux, hq]⟩
      · exact ⟨c :: q, by simp [nlAux, h1, h2, hq]⟩

/-! ### C09 (b): STX/ETX -/

theorem normalize_stripCtl (tab : Nat) (s : Str) : normalize tab (stripCtl s) = normalize tab s := by
  simp only [normalize_eq, stripCtl_idem]

theorem normalize_congr_ctl (tab : Nat) {s s' : Str} (h : stripCtl s' = stripCtl s) :
    normalize tab s' = normalize tab s := by
  simp only [normalize_eq, h]

theorem stripCtl_replicate_nl (k : Nat) : stripCtl (List.replicate k '\n') = List.replicate k '\n' := by
  rw [stripCtl_eq_filter, List.filter_replicate]; simp [notCtl, STX, ETX]

/-! ### C09 (g): trailing line feeds -/

theorem normalize_trailing (tab : Nat) (s : Str) (k : Nat) (h : (stripCtl s).getLast? ≠ some '\r') :
    normalize tab (s ++ List.replicate k '\n') = normalize tab s ++ List.replicate k '\n' := by
  have he : endCR false (stripCtl s) = false := by
    rw [endCR_eq_getLast]
    cases hg : (stripCtl s).getLast? with
    | none => rfl
    | some c =>
      have : c ≠ '\r' := by intro hc; apply h; rw [hg, hc]
      simp [this]
  have hr : List.replicate k '\n' ++ ['\n', '\n'] = '\n' :: '\n' :: List.replicate k '\n' := by
    have : (['\n', '\n'] : Str) = List.replicate 2 '\n' := rfl
    rw [this, List.replicate_append_replicate]; rfl
  rw [normalize_eq, normalize_eq, stripCtl_append, stripCtl_replicate_nl, nlAux_append, he, nlAux_replicate_nl,
    List.append_assoc, hr, pipeline_split, pipeline_split]
  have h1 : expandtabsAux tab 0 ('\n' :: List.replicate k '\n') = '\n' :: List.replicate k '\n' :=
    expandtabsAux_replicate_nl tab 0 (k + 1)
  have h2 : wsLinesAux (some 0) ('\n' :: List.replicate k '\n') = '\n' :: List.replicate k '\n' :=
    wsLinesAux_replicate_nl (k + 1)
  rw [h1, h2]
  simp [expandtabsAux, wsLinesAux]

/-! ### C09 (d): whitespace-only lines -/

theorem stripCtl_blankish (ws : Str) (h : ∀ c ∈ ws, isBlankish c = true) :
    ∀ c ∈ stripCtl ws, c = ' ' ∨ c = '\t' := by
  intro c hc
  rw [mem_stripCtl] at hc
  have := h c hc.1
  simp only [isBlankish, Bool.or_eq_true, decide_eq_true_eq] at this
  rcases this with ((h1 | h1) | h1) | h1
  · exact Or.inl h1
  · exact Or.inr h1
  · exact absurd h1 hc.2.1
  · exact absurd h1 hc.2.2

theorem isLine_of_blank (w : Str) (h : ∀ c ∈ w, c = ' ' ∨ c = '\t') : isLine w = true := by
  simp only [isLine, List.all_eq_true, Bool.and_eq_true, bne_iff_ne, ne_eq]
  intro c hc
  rcases h c hc with h | h <;> subst h <;> decide

theorem normalize_ws_line (tab : Nat) (a ws b : Str) (hws : ∀ c ∈ ws, isBlankish c = true) :
    normalize tab (a ++ '\n' :: ws ++ '\n' :: b) = normalize tab (a ++ '\n' :: '\n' :: b) := by
  have hw := stripCtl_blankish ws hws
  have hl := isLine_of_blank _ hw
  obtain ⟨q, hq⟩ := nlAux_snoc_nl false (stripCtl a) (Or.inl rfl)
  have hnl : stripCtl ['\n'] = ['\n'] := by decide
  have e1 : stripCtl (a ++ '\n' :: ws ++ '\n' :: b) =
      (stripCtl a ++ ['\n']) ++ (stripCtl ws ++ ('\n' :: stripCtl b)) := by
    have : a ++ '\n' :: ws ++ '\n' :: b = a ++ (['\n'] ++ (ws ++ (['\n'] ++ b))) := by simp
    rw [this]; simp only [stripCtl_append, hnl]; simp
  have e2 : stripCtl (a ++ '\n' :: '\n' :: b) = (stripCtl a ++ ['\n']) ++ ('\n' :: stripCtl b) := by
    have : a ++ '\n' :: '\n' :: b = a ++ (['\n'] ++ (['\n'] ++ b)) := by simp
    rw [this]; simp only [stripCtl_append, hnl]; simp
  have n1 : nlAux false (stripCtl ws ++ ('\n' :: stripCtl b)) =
      stripCtl ws ++ '\n' :: nlAux false (stripCtl b) := by
    rw [nlAux_append, nlAux_line _ _ hl, endCR_line _ _ hl]; simp [nlAux]
  have n2 : nlAux false ('\n' :: stripCtl b) = '\n' :: nlAux false (stripCtl b) := by simp [nlAux]
  obtain ⟨m, hm⟩ := expandtabsAux_blank_nl tab (stripCtl ws) hw 0
  have L : nlAux false (stripCtl (a ++ '\n' :: ws ++ '\n' :: b)) ++ ['\n', '\n'] =
      q ++ '\n' :: (stripCtl ws ++ '\n' :: (nlAux false (stripCtl b) ++ ['\n', '\n'])) := by
    rw [e1, nlAux_append false (stripCtl a ++ ['\n']), endCR_append_singleton, hq]
    simp only [show decide ('\n' = '\r') = false from rfl, n1]
    simp
  have R : nlAux false (stripCtl (a ++ '\n' :: '\n' :: b)) ++ ['\n', '\n'] =
      q ++ '\n' :: ('\n' :: (nlAux false (stripCtl b) ++ ['\n', '\n'])) := by
    rw [e2, nlAux_append false (stripCtl a ++ ['\n']), endCR_append_singleton, hq]
    simp only [show decide ('\n' = '\r') = false from rfl, n2]
    simp
  rw [normalize_eq, normalize_eq, L, R, pipeline_split _ _ q, pipeline_split _ _ q, hm, wsLinesAux_spaces_nl]
  simp [expandtabsAux, wsLinesAux]

/-! ### C09 (c): tabs -/

theorem colFrom_eq_colAfter (tab : Nat) (pre : Str) (b : Bool) (n : Nat) (h : b = true → n = 0) :
    colAfter tab n (nlAux b (stripCtl pre)) = colFrom tab n pre := by
  induction pre generalizing b n with
  | nil => rfl
  | cons c pre ih =>
    rw [stripCtl_cons]
    by_cases h1 : c = '\r'
    · subst h1
      simp [notCtl, STX, ETX, nlAux, colFrom, colAfter, ih true 0 (fun _ => rfl)]
    · by_cases h2 : c = '\n'
      · subst h2
        cases b
        · simp [notCtl, STX, ETX, nlAux, colFrom, colAfter, ih false 0 (by simp)]
        · have hn : n = 0 := h rfl
          subst hn
          simp [notCtl, STX, ETX, nlAux, colFrom, ih false 0 (by simp)]
      · by_cases h3 : c = STX
        · subst h3
          simp [notCtl, colFrom, h1, h2, ih b n h]
        · by_cases h4 : c = ETX
          · subst h4
            simp [notCtl, colFrom, h1, h2, ih b n h]
          · by_cases h5 : c = '\t'
            · subst h5
              simp [notCtl, h3, h4, nlAux, colFrom, colAfter, ih false _ (by simp)]
            · simp [notCtl, h1, h2, h3, h4, h5, nlAux, colFrom, colAfter, ih false _ (by simp)]

theorem col_eq_colAfter (tab : Nat) (pre : Str) :
    col tab pre = colAfter tab 0 (nlAux false (stripCtl pre)) :=
  (colFrom_eq_colAfter tab pre false 0 (by simp)).symm

theorem nlAux_spaces (b : Bool) (k : Nat) (hk : k > 0) (y : Str) :
    nlAux b (List.replicate k ' ' ++ y) = List.replicate k ' ' ++ nlAux false y := by
  have hl : isLine (List.replicate k ' ') = true := by
    simp only [isLine, List.all_eq_true]; intro c hc; rw [List.eq_of_mem_replicate hc]; decide
  rw [nlAux_append, nlAux_line _ _ hl, endCR_line _ _ hl]
  have : (List.replicate k ' ').isEmpty = false := by
    cases k with
    | zero => omega
    | succ k => rfl
  simp [this]

theorem stripCtl_replicate_space (k : Nat) : stripCtl (List.replicate k ' ') = List.replicate k ' ' := by
  rw [stripCtl_eq_filter, List.filter_replicate]; simp [notCtl, STX, ETX]

theorem normalize_tab (tab : Nat) (ht : tab > 0) (pre post : Str) :
    normalize tab (pre ++ '\t' :: post) =
      normalize tab (pre ++ List.replicate (tab - col tab pre % tab) ' ' ++ post) := by
  have hk : tab - col tab pre % tab > 0 := by
    have := Nat.mod_lt (col tab pre) ht
    omega
  have ht' : stripCtl ('\t' :: post) = '\t' :: stripCtl post := by
    rw [stripCtl_cons]; simp [notCtl, STX, ETX]
  have n1 : ∀ b, nlAux b ('\t' :: stripCtl post) = '\t' :: nlAux false (stripCtl post) := by
    intro b; simp [nlAux]
  have L : nlAux false (stripCtl (pre ++ '\t' :: post)) ++ ['\n', '\n'] =
      nlAux false (stripCtl pre) ++ ('\t' :: (nlAux false (stripCtl post) ++ ['\n', '\n'])) := by
    rw [stripCtl_append, ht', nlAux_append, n1]; simp
  have R : nlAux false (stripCtl (pre ++ List.replicate (tab - col tab pre % tab) ' ' ++ post)) ++ ['\n', '\n'] =
      nlAux false (stripCtl pre) ++
        (List.replicate (tab - col tab pre % tab) ' ' ++ (nlAux false (stripCtl post) ++ ['\n', '\n'])) := by
    rw [List.append_assoc, stripCtl_append, stripCtl_append, stripCtl_replicate_space, nlAux_append,
      nlAux_spaces _ _ hk]
    simp
  rw [normalize_eq, normalize_eq, L, R, expandtabsAux_append, expandtabsAux_append _ _ (nlAux false (stripCtl pre)),
    ← col_eq_colAfter, expandtabsAux_tab _ _ ht]

/-! ### C09 (e): what the output is made of -/

theorem mem_nlAux {c : Char} {b : Bool} {s : Str} (h : c ∈ nlAux b s) : (c = '\n' ∨ c ∈ s) ∧ c ≠ '\r' := by
  induction s generalizing b with
  | nil => simp [nlAux] at h
  | cons d s ih =>
    by_cases h1 : d = '\r'
    · simp only [nlAux, h1, if_true, List.mem_cons] at h
      rcases h with h | h
      · subst h; exact ⟨Or.inl rfl, by decide⟩
      · have := ih h; exact ⟨this.1.imp id (List.mem_cons_of_mem _), this.2⟩
    · by_cases h2 : d = '\n'
      · subst h2
        have hrn : ¬ ('\n' = '\r') := by decide
        cases b
        · simp only [nlAux, hrn, if_false, if_true, List.mem_cons, Bool.false_eq_true] at h
          rcases h with h | h
          · subst h; exact ⟨Or.inl rfl, by decide⟩
          · have := ih h; exact ⟨this.1.imp id (List.mem_cons_of_mem _), this.2⟩
        · simp only [nlAux, hrn, if_false, if_true] at h
          have := ih h; exact ⟨this.1.imp id (List.mem_cons_of_mem _), this.2⟩
      · simp only [nlAux, h1, h2, if_false, List.mem_cons] at h
        rcases h with h | h
        · subst h; exact ⟨Or.inr List.mem_cons_self, h1⟩
        · have := ih h; exact ⟨this.1.imp id (List.mem_cons_of_mem _), this.2⟩

theorem mem_expandtabsAux {c : Char} {tab n : Nat} {s : Str} (h : c ∈ expandtabsAux tab n s) :
    (c = ' ' ∨ c ∈ s) ∧ c ≠ '\t' := by
  induction s generalizing n with
  | nil => simp [expandtabsAux] at h
  | cons d s ih =>
    by_cases h1 : d = '\t'
    · by_cases ht : tab > 0
      · simp only [expandtabsAux, h1, ht, if_true, List.mem_append] at h
        rcases h with h | h
        · have := List.eq_of_mem_replicate h
          subst this; exact ⟨Or.inl rfl, by decide⟩
        · have := ih h; exact ⟨this.1.imp id (List.mem_cons_of_mem _), this.2⟩
      · simp only [expandtabsAux, h1, ht, if_true, if_false] at h
        have := ih h; exact ⟨this.1.imp id (List.mem_cons_of_mem _), this.2⟩
    · have h' : c = d ∨ ∃ n', c ∈ expandtabsAux tab n' s := by
        simp only [expandtabsAux, h1, if_false] at h
        split at h
        · rcases List.mem_cons.1 h with h | h
          · exact Or.inl h
          · exact Or.inr ⟨_, h⟩
        · rcases List.mem_cons.1 h with h | h
          · exact Or.inl h
          · exact Or.inr ⟨_, h⟩
      rcases h' with h | ⟨n', h⟩
      · subst h; exact ⟨Or.inr List.mem_cons_self, h1⟩
      · have := ih h; exact ⟨this.1.imp id (List.mem_cons_of_mem _), this.2⟩

theorem mem_wsLinesAux {c : Char} {st : Option Nat} {s : Str} (h : c ∈ wsLinesAux st s) : c = ' ' ∨ c ∈ s := by
  induction s generalizing st with
  | nil =>
    cases st with
    | none => simp [wsLinesAux] at h
    | some n => exact Or.inl (List.eq_of_mem_replicate h)
  | cons d s ih =>
    cases st with
    | none =>
      simp only [wsLinesAux] at h
      split at h
      · rcases List.mem_cons.1 h with h | h
        · subst h; rename_i hd; exact Or.inr (by simp [hd])
        · exact (ih h).imp id (List.mem_cons_of_mem _)
      · rcases List.mem_cons.1 h with h | h
        · subst h; exact Or.inr List.mem_cons_self
        · exact (ih h).imp id (List.mem_cons_of_mem _)
    | some n =>
      simp only [wsLinesAux] at h
      split at h
      · exact (ih h).imp id (List.mem_cons_of_mem _)
      · split at h
        · rcases List.mem_cons.1 h with h | h
          · subst h; rename_i hd; exact Or.inr (by simp [hd])
          · exact (ih h).imp id (List.mem_cons_of_mem _)
        · rcases List.mem_append.1 h with h | h
          · exact Or.inl (List.eq_of_mem_replicate h)
          · rcases List.mem_cons.1 h with h | h
            · subst h; exact Or.inr List.mem_cons_self
            · exact (ih h).imp id (List.mem_cons_of_mem _)

/-- every character of the output is a space, a line feed, or a character of the input other than STX, ETX, CR
    and tab -/
theorem mem_normalize {c : Char} {tab : Nat} {s : Str} (h : c ∈ normalize tab s) :
    (c = ' ' ∨ c = '\n' ∨ c ∈ s) ∧ c ≠ STX ∧ c ≠ ETX ∧ c ≠ '\r' ∧ c ≠ '\t' := by
  rw [normalize_eq] at h
  rcases mem_wsLinesAux h with h | h
  · subst h; exact ⟨Or.inl rfl, by decide, by decide, by decide, by decide⟩
  · have h2 := mem_expandtabsAux h
    rcases h2.1 with h3 | h3
    · subst h3; exact ⟨Or.inl rfl, by decide, by decide, by decide, by decide⟩
    · rcases List.mem_append.1 h3 with h4 | h4
      · have h5 := mem_nlAux h4
        rcases h5.1 with h6 | h6
        · subst h6; exact ⟨Or.inr (Or.inl rfl), by decide, by decide, by decide, by decide⟩
        · rw [mem_stripCtl] at h6
          exact ⟨Or.inr (Or.inr h6.1), h6.2.1, h6.2.2, h5.2, h2.2⟩
      · have : c = '\n' := by simpa using h4
        subst this; exact ⟨Or.inr (Or.inl rfl), by decide, by decide, by decide, by decide⟩

/-! ### C09 (a): line terminators -/

theorem isTerminator_cases {e : Str} (h : isTerminator e = true) : e = LF ∨ e = CRLF ∨ e = CR := by
  simpa [isTerminator, or_assoc] using h

theorem headD_terminator (es : List Str) (he : ∀ e ∈ es, isTerminator e = true) :
    isTerminator (es.headD LF) = true := by
  cases es with
  | nil => rfl
  | cons e es => exact he e List.mem_cons_self

theorem isLine_stripCtl {l : Str} (h : isLine l = true) : isLine (stripCtl l) = true := by
  simp only [isLine, List.all_eq_true] at h ⊢
  intro c hc
  exact h c (mem_stripCtl.1 hc).1

theorem respell_cons_cons (es : List Str) (l l' : Str) (ls : List Str) :
    respell es (l :: l' :: ls) = l ++ es.headD LF ++ respell es.tail (l' :: ls) := rfl

theorem splitsCRLF_cons (es : List Str) (x l l' : Str) (ls : List Str) :
    splitsCRLF es (x :: l :: l' :: ls) =
      ((es.headD LF = CR && stripCtl l = [] && es.tail.headD LF = LF) || splitsCRLF es.tail (l :: l' :: ls)) := rfl

theorem splitsCRLF_tail {es : List Str} {l l' : Str} {ls : List Str} (h : splitsCRLF es (l :: l' :: ls) = false) :
    splitsCRLF es.tail (l' :: ls) = false := by
  cases ls with
  | nil => rfl
  | cons l'' ls =>
    rw [splitsCRLF_cons] at h
    exact (Bool.or_eq_false_iff.1 h).2

/-- the line-ending scanner reads every admissible respelling as the LF spelling.  `b`: the scanner has just read
    a `\r`; then the text must not begin with the `\n` of a gap. -/
theorem nl_respell (ls : List Str) (es : List Str) (b : Bool)
    (hl : ∀ l ∈ ls, isLine l = true) (he : ∀ e ∈ es, isTerminator e = true)
    (hs : splitsCRLF es ls = false)
    (hb : b = true → ∀ l l' rest, ls = l :: l' :: rest → ¬ (stripCtl l = [] ∧ es.headD LF = LF)) :
    nlAux b (stripCtl (respell es ls)) = stripCtl (respell [] ls) := by
  induction ls generalizing es b with
  | nil => rfl
  | cons l ls ih =>
    have hll : isLine (stripCtl l) = true := isLine_stripCtl (hl l List.mem_cons_self)
    cases ls with
    | nil => exact nlAux_line _ _ hll
    | cons l' rest =>
      have hl' : ∀ x ∈ l' :: rest, isLine x = true := fun x hx => hl x (List.mem_cons_of_mem _ hx)
      have he' : ∀ e ∈ es.tail, isTerminator e = true := fun e h => he e (List.mem_of_mem_tail h)
      have hs' := splitsCRLF_tail hs
      have ihf := ih es.tail false hl' he' hs' (by simp)
      rw [respell_cons_cons, respell_cons_cons, List.append_assoc, List.append_assoc, stripCtl_append,
        stripCtl_append, stripCtl_append, stripCtl_append, nlAux_append, nlAux_line _ _ hll, endCR_line _ _ hll]
      congr 1
      have hLF : stripCtl LF = LF := by decide
      have hCR : stripCtl CR = CR := by decide
      have hCRLF : stripCtl CRLF = CRLF := by decide
      rcases isTerminator_cases (headD_terminator es he) with h | h | h
      · -- LF
        have hb' : ((stripCtl l).isEmpty && b) = false := by
          cases hbb : b with
          | false => simp
          | true =>
            have := hb hbb l l' rest rfl
            cases hsl : stripCtl l with
            | nil => exact absurd ⟨hsl, h⟩ this
            | cons c r => rfl
        rw [h, hb', hLF]
        show nlAux false ('\n' :: stripCtl (respell es.tail (l' :: rest))) = _
        simp only [nlAux, show ¬ ('\n' = '\r') by decide, if_false, if_true, Bool.false_eq_true, ihf]
        rfl
      · -- CRLF
        rw [h, hCRLF]
        show nlAux _ ('\r' :: '\n' :: stripCtl (respell es.tail (l' :: rest))) = _
        simp only [nlAux, show ¬ ('\n' = '\r') by decide, if_false, if_true, ihf]
        rfl
      · -- CR
        have iht := ih es.tail true hl' he' hs' (by
          intro _ l1 l2 rest' hls hc
          cases hls
          rw [splitsCRLF_cons] at hs
          have := (Bool.or_eq_false_iff.1 hs).1
          rw [h, hc.1, hc.2] at this
          simp at this)
        rw [h, hCR]
        show nlAux _ ('\r' :: stripCtl (respell es.tail (l' :: rest))) = _
        simp only [nlAux, if_true, iht]
        rfl

theorem normalize_respell (tab : Nat) (ls es₁ es₂ : List Str)
    (hl : ∀ l ∈ ls, isLine l = true)
    (h₁ : ∀ e ∈ es₁, isTerminator e = true) (h₂ : ∀ e ∈ es₂, isTerminator e = true)
    (s₁ : splitsCRLF es₁ ls = false) (s₂ : splitsCRLF es₂ ls = false) :
    normalize tab (respell es₁ ls) = normalize tab (respell es₂ ls) := by
  rw [normalize_eq, normalize_eq, nl_respell ls es₁ false hl h₁ s₁ (by simp),
    nl_respell ls es₂ false hl h₂ s₂ (by simp)]

/-- one terminator throughout: `sep.join(ls)` -/
theorem join_eq_respell (e : Str) (ls : List Str) (n : Nat) (hn : ls.length ≤ n + 1) :
    join e ls = respell (List.replicate n e) ls := by
  induction ls generalizing n with
  | nil => rfl
  | cons l ls ih =>
    cases ls with
    | nil => rfl
    | cons l' rest =>
      cases n with
      | zero => simp at hn
      | succ n =>
        rw [join, respell_cons_cons, ih n (by simpa using hn)]
        simp [List.replicate_succ]

theorem splitsCRLF_replicate (e : Str) (ls : List Str) (n : Nat) (hn : ls.length ≤ n + 1) :
    splitsCRLF (List.replicate n e) ls = false := by
  induction ls generalizing n with
  | nil => rfl
  | cons x ls ih =>
    match ls, ih with
    | [], _ => rfl
    | [_], _ => rfl
    | l :: l' :: rest, ih =>
      match n, hn with
      | n + 2, hn =>
        rw [splitsCRLF_cons, List.replicate_succ, List.tail_cons, ih (n + 1) (by simpa using hn)]
        simp only [List.headD_cons, List.replicate_succ, Bool.or_false]
        by_cases h : e = CR
        · subst h; simp [CR, LF]
        · simp [h]

theorem normalize_join (tab : Nat) (ls : List Str) (e₁ e₂ : Str)
    (hl : ∀ l ∈ ls, isLine l = true) (h₁ : isTerminator e₁ = true) (h₂ : isTerminator e₂ = true) :
    normalize tab (join e₁ ls) = normalize tab (join e₂ ls) := by
  rw [join_eq_respell e₁ ls ls.length (by omega), join_eq_respell e₂ ls ls.length (by omega)]
  exact normalize_respell tab ls _ _ hl
    (fun e he => by rw [List.eq_of_mem_replicate he]; exact h₁)
    (fun e he => by rw [List.eq_of_mem_replicate he]; exact h₂)
    (splitsCRLF_replicate _ _ _ (by omega)) (splitsCRLF_replicate _ _ _ (by omega))

/-! ### leading line feeds, and the first line (F-C09-1, repaired in a0e7e3c) -/

theorem wsLinesAux_some_visible (n m : Nat) (c : Char) (h1 : c ≠ ' ') (h2 : c ≠ '\n') (z : Str) :
    wsLinesAux (some n) (List.replicate m ' ' ++ c :: z) = List.replicate (n + m) ' ' ++ c :: wsLinesAux none z := by
  induction m generalizing n with
  | zero => simp [wsLinesAux, h1, h2]
  | succ m ih =>
    simp only [List.replicate_succ, List.cons_append, wsLinesAux, if_true]
    rw [ih, show n + 1 + m = n + (m + 1) by omega]

theorem wsLinesAux_none_visible (m : Nat) (c : Char) (h2 : c ≠ '\n') (z : Str) :
    wsLinesAux none (List.replicate m ' ' ++ c :: z) = List.replicate m ' ' ++ c :: wsLinesAux none z := by
  induction m with
  | zero => simp [wsLinesAux, h2]
  | succ m ih => simp [List.replicate_succ, wsLinesAux, ih]

theorem expandtabsAux_blank (tab : Nat) (w : Str) (hw : ∀ c ∈ w, c = ' ' ∨ c = '\t') (n : Nat) :
    ∃ m n', ∀ y, expandtabsAux tab n (w ++ y) = List.replicate m ' ' ++ expandtabsAux tab n' y := by
  induction w generalizing n with
  | nil => exact ⟨0, n, fun y => by simp⟩
  | cons c w ih =>
    have hw' : ∀ c ∈ w, c = ' ' ∨ c = '\t' := fun d hd => hw d (List.mem_cons_of_mem _ hd)
    rcases hw c (List.mem_cons_self) with h | h
    · subst h
      obtain ⟨m, n', hm⟩ := ih hw' (n + 1)
      exact ⟨m + 1, n', fun y => by simp [expandtabsAux, hm, List.replicate_succ]⟩
    · subst h
      by_cases ht : tab > 0
      · obtain ⟨m, n', hm⟩ := ih hw' (n + (tab - n % tab))
        exact ⟨(tab - n % tab) + m, n', fun y => by
          simp only [List.cons_append, expandtabsAux, ht, if_true, hm]
          rw [← List.append_assoc, List.replicate_append_replicate]⟩
      · obtain ⟨m, n', hm⟩ := ih hw' n
        exact ⟨m, n', fun y => by simp [expandtabsAux, ht, hm]⟩

theorem dropWhile_head_false (p : Char → Bool) (l : Str) (d : Char) (r : Str) (h : l.dropWhile p = d :: r) :
    p d = false := by
  induction l with
  | nil => simp at h
  | cons c l ih =>
    by_cases hc : p c
    · rw [List.dropWhile_cons_of_pos hc] at h; exact ih h
    · rw [List.dropWhile_cons_of_neg hc] at h
      cases h; simpa using hc

theorem mem_takeWhile_true (p : Char → Bool) (l : Str) (x : Char) (h : x ∈ l.takeWhile p) : p x = true := by
  induction l with
  | nil => simp at h
  | cons c l ih =>
    by_cases hc : p c
    · rw [List.takeWhile_cons_of_pos hc] at h
      rcases List.mem_cons.1 h with h | h
      · subst h; exact hc
      · exact ih h
    · rw [List.takeWhile_cons_of_neg hc] at h; simp at h

/-- **whitespace-only first line** (the repair of F-C09-1, commit a0e7e3c): the scan starts at a line start, so the
    first line is treated like every other line -/
theorem normalize_ws_first_line (tab : Nat) (ws b : Str) (hws : ∀ c ∈ ws, isBlankish c = true) :
    normalize tab (ws ++ '\n' :: b) = normalize tab ('\n' :: b) := by
  have hw := stripCtl_blankish ws hws
  have hl := isLine_of_blank _ hw
  have hnl : ∀ t, stripCtl ('\n' :: t) = '\n' :: stripCtl t := by
    intro t; rw [stripCtl_cons]; rfl
  obtain ⟨m, hm⟩ := expandtabsAux_blank_nl tab (stripCtl ws) hw 0
  have L : nlAux false (stripCtl (ws ++ '\n' :: b)) ++ ['\n', '\n'] =
      stripCtl ws ++ '\n' :: (nlAux false (stripCtl b) ++ ['\n', '\n']) := by
    rw [stripCtl_append, hnl, nlAux_append, nlAux_line _ _ hl, endCR_line _ _ hl]; simp [nlAux]
  have R : nlAux false (stripCtl ('\n' :: b)) ++ ['\n', '\n'] =
      '\n' :: (nlAux false (stripCtl b) ++ ['\n', '\n']) := by
    rw [hnl]; simp [nlAux]
  rw [normalize_eq, normalize_eq, L, R, hm, wsLinesAux_spaces_nl]
  simp [expandtabsAux, wsLinesAux]

theorem normalize_cons_nl (tab : Nat) (s : Str) : normalize tab ('\n' :: s) = '\n' :: normalize tab s := by
  have hnl : stripCtl ('\n' :: s) = '\n' :: stripCtl s := by rw [stripCtl_cons]; rfl
  rw [normalize_eq, normalize_eq, hnl]
  simp [nlAux, expandtabsAux, wsLinesAux]

theorem normalize_leading (tab : Nat) (s : Str) (k : Nat) :
    normalize tab (List.replicate k '\n' ++ s) = List.replicate k '\n' ++ normalize tab s := by
  induction k with
  | zero => simp
  | succ k ih => rw [List.replicate_succ, List.cons_append, normalize_cons_nl, ih]; rfl

/-! ### normalising a normalised text -/

theorem wsLinesAux_replicate_space (k n : Nat) :
    wsLinesAux (some k) (List.replicate n ' ') = List.replicate (k + n) ' ' := by
  induction n generalizing k with
  | zero => simp [wsLinesAux]
  | succ n ih =>
    simp only [List.replicate_succ, wsLinesAux, if_true, ih]
    rw [show k + 1 + n = k + (n + 1) by omega]

theorem wsLinesAux_idem (y : Str) :
    wsLinesAux none (wsLinesAux none y) = wsLinesAux none y ∧
    ∀ n, wsLinesAux (some 0) (wsLinesAux (some n) y) = wsLinesAux (some n) y := by
  induction y with
  | nil =>
    refine ⟨rfl, fun n => ?_⟩
    simp [wsLinesAux, wsLinesAux_replicate_space]
  | cons c y ih =>
    constructor
    · by_cases h : c = '\n'
      · simp [wsLinesAux, h, ih.2 0]
      · simp [wsLinesAux, h, ih.1]
    · intro n
      by_cases h1 : c = ' '
      · simp [wsLinesAux, h1, ih.2 (n + 1)]
      · by_cases h2 : c = '\n'
        · simp [wsLinesAux, h2, ih.2 0]
        · simp only [wsLinesAux, h1, h2, if_false]
          rw [wsLinesAux_some_visible _ _ _ h1 h2, ih.1, Nat.zero_add]

theorem nlAux_id (s : Str) (h : ∀ c ∈ s, c ≠ '\r') : nlAux false s = s := by
  induction s with
  | nil => rfl
  | cons c s ih =>
    have hc : c ≠ '\r' := h c List.mem_cons_self
    have ih' := ih (fun d hd => h d (List.mem_cons_of_mem _ hd))
    by_cases h2 : c = '\n'
    · simp [nlAux, h2, ih']
    · simp [nlAux, hc, h2, ih']

theorem expandtabsAux_id (tab n : Nat) (s : Str) (h : ∀ c ∈ s, c ≠ '\t') : expandtabsAux tab n s = s := by
  induction s generalizing n with
  | nil => rfl
  | cons c s ih =>
    have hc : c ≠ '\t' := h c List.mem_cons_self
    have ih' := fun n => ih n (fun d hd => h d (List.mem_cons_of_mem _ hd))
    simp only [expandtabsAux, hc, if_false]
    split <;> rw [ih']

theorem normalize_normalize (tab : Nat) (s : Str) :
    normalize tab (normalize tab s) = normalize tab s ++ ['\n', '\n'] := by
  have hmem : ∀ c ∈ normalize tab s, c ≠ STX ∧ c ≠ ETX ∧ c ≠ '\r' ∧ c ≠ '\t' := fun c hc => (mem_normalize hc).2
  have h1 : stripCtl (normalize tab s) = normalize tab s := by
    rw [stripCtl_eq_filter, List.filter_eq_self]
    intro c hc
    have := hmem c hc
    simp [notCtl, this.1, this.2.1]
  have h2 : nlAux false (normalize tab s) = normalize tab s := nlAux_id _ (fun c hc => (hmem c hc).2.2.1)
  have h3 : expandtabsAux tab 0 (normalize tab s ++ ['\n', '\n']) = normalize tab s ++ ['\n', '\n'] := by
    apply expandtabsAux_id
    intro c hc
    rcases List.mem_append.1 hc with hc | hc
    · exact (hmem c hc).2.2.2
    · have : c = '\n' := by simpa using hc
      subst this; decide
  rw [normalize_eq tab (normalize tab s), h1, h2, h3]
  -- the normalised text ends with a line feed
  have hx : ∃ w, normalize tab s = wsLinesAux (some 0) (w ++ ['\n']) ++ ['\n'] := by
    refine ⟨expandtabsAux tab 0 (nlAux false (stripCtl s)), ?_⟩
    rw [normalize_eq]
    have : nlAux false (stripCtl s) ++ ['\n', '\n'] = nlAux false (stripCtl s) ++ '\n' :: ['\n'] := rfl
    rw [this, pipeline_split]
    simp [expandtabsAux, wsLinesAux]
  obtain ⟨w, hw⟩ := hx
  have hi : wsLinesAux (some 0) (normalize tab s) = normalize tab s := by
    rw [normalize_eq]; exact (wsLinesAux_idem _).2 0
  have : normalize tab s ++ ['\n', '\n'] = wsLinesAux (some 0) (w ++ ['\n']) ++ '\n' :: ['\n', '\n'] := by
    rw [hw]; simp
  calc wsLinesAux (some 0) (normalize tab s ++ ['\n', '\n'])
      = wsLinesAux (some 0) (wsLinesAux (some 0) (w ++ ['\n']) ++ '\n' :: ['\n', '\n']) := by rw [this]
    _ = wsLinesAux (some 0) (normalize tab s) ++ wsLinesAux (some 0) ['\n', '\n'] := by rw [wsLinesAux_split, ← hw]
    _ = normalize tab s ++ ['\n', '\n'] := by rw [hi]; simp [wsLinesAux]

/-! ### the blank-document test -/

theorem lstripP_eq_nil (p : Char → Bool) (s : Str) : lstripP p s = [] ↔ s.all p = true := by
  induction s with
  | nil => simp [lstripP]
  | cons c s ih =>
    by_cases h : p c
    · simp [lstripP, h, ih]
    · simp [lstripP, h]

theorem all_lstripP (p : Char → Bool) (s : Str) : (lstripP p s).all p = s.all p := by
  induction s with
  | nil => rfl
  | cons c s ih =>
    by_cases h : p c
    · simp [lstripP, h, ih]
    · simp [lstripP, h]

/-- `not source.strip()` holds exactly when every character is white space -/
theorem isBlankDoc_eq_all (s : Str) : isBlankDoc s = s.all isSpace := by
  have h : (strip s = []) ↔ s.all isSpace = true := by
    simp only [strip, stripP, rstripP, List.reverse_eq_nil_iff, lstripP_eq_nil, List.all_reverse, all_lstripP]
  unfold isBlankDoc
  cases hs : strip s with
  | nil => simp [(h.1 hs)]
  | cons c r =>
    have : ¬ (s.all isSpace = true) := fun ha => by rw [h.2 ha] at hs; cases hs
    simp only [List.isEmpty_cons]
    exact (Bool.eq_false_iff.2 this).symm

end MdVerif.Normalize
