/-
C10c: copy of `Lemmas/PlaceholdersBFM.lean` with the invariant `Adj3` (no `](`, no `![`) replaced by `AdjC true` (simple regions
behind `](` and `![`, `Spec/NoCtlC.lean`).  Declarations that do not depend on the invariant are imported from the
original file.  Core Lean only.
-/
import MdVerif.Lemmas.PlaceholdersBFM
import MdVerif.Lemmas.PlaceholdersCAdj
import MdVerif.Lemmas.PlaceholdersCLink

namespace MdVerif.NoCtl
open Py Inline

/-! ### backtick -/

theorem backtick_stash_okC {k : Nat} {data : Str} {m : BtMatch} (hd : DataC 0 k data)
    (h : btFind data 0 = some m) :
    m.kind = .code ∧
    FoundOKC k 0 data
      ⟨.el { mkEl "code" with text := some (Inline.codeEscape (strip m.group)), textAtomic := true }, m.start, m.stop⟩ := by
  have hsafe : BtSafe data := by have := hd.bt; unfold BtInv at this; simpa using this
  obtain ⟨pre, n, G, rest, hdata, hn, hG, rfl, hGs, hrs, hT⟩ := bt_first_match hd.adj.1 hsafe h
  refine ⟨rfl, ?_⟩
  have hMne : List.replicate n '`' ++ G ++ List.replicate n '`' ≠ [] := by
    intro e
    have := congrArg List.length e
    simp at this; omega
  obtain ⟨t1, ht1⟩ : ∃ t, List.replicate n '`' = '`' :: t := ⟨List.replicate (n - 1) '`', by
    have : n = (n - 1) + 1 := by omega
    conv => lhs; rw [this, List.replicate_succ]⟩
  obtain ⟨t2, ht2⟩ : ∃ t, List.replicate n '`' = t ++ ['`'] := ⟨List.replicate (n - 1) '`', by
    have : n = (n - 1) + 1 := by omega
    conv => lhs; rw [this, List.replicate_succ']⟩
  have hhead : ∀ c, (List.replicate n '`' ++ G ++ List.replicate n '`').head? = some c → inner c = false ∧ c ≠ ETX := by
    intro c hc
    rw [ht1] at hc
    simp at hc; subst hc; decide
  have hlast : ∀ c, (List.replicate n '`' ++ G ++ List.replicate n '`').getLast? = some c →
      inner c = false ∧ c ≠ STX := by
    intro c hc
    rw [ht2, ← List.append_assoc, List.getLast?_concat] at hc
    simp at hc; subst hc; decide
  have hsuf : data.drop 0 = pre ++ (List.replicate n '`' ++ G ++ List.replicate n '`') ++ rest := by simpa using hdata
  obtain ⟨hsp, hwM⟩ := splice_of_span hd.wf hsuf hMne hhead hlast
  obtain ⟨e1, e2, -, -⟩ := span_of_suffix hsuf hMne
  have hwG : WF true k G := by
    rw [List.append_assoc] at hwM
    have b1 : Bnd (List.replicate n '`') (G ++ List.replicate n '`') := by
      right; intro c hc
      rw [ht2, List.getLast?_concat] at hc
      simp at hc; subst hc; decide
    have w2 := (hwM.split b1).2
    have b2 : Bnd G (List.replicate n '`') := by
      left; intro c hc
      rw [ht1] at hc
      simp at hc; subst hc; decide
    exact (w2.split b2).1
  have hGn : NoCtl G := noCtl_of_wf_no_stx hwG hGs
  have elen : pre.length + n + G.length + n = pre.length + (List.replicate n '`' ++ G ++ List.replicate n '`').length := by
    simp; omega
  simp only [Nat.zero_add] at hsp e1 e2
  refine ⟨?_, ?_, rfl, fun _ => rfl⟩
  · show SpliceC k 0 data pre.length ((pre.length + n + G.length + n : Nat) : Int)
    rw [elen]
    refine ⟨hsp.1, hsp.2, ?_⟩
    intro T hTs
    rw [pyDrop_natCast, e1, e2]
    simp only [List.take_zero, List.nil_append]
    obtain ⟨-, j2⟩ := hT T hTs.1
    have hadj := hd.adj
    rw [hdata] at hadj
    have hbrk : breaks (List.replicate n '`' ++ G ++ List.replicate n '`') = true := by
      rw [ht1, List.append_assoc, List.cons_append]
      exact breaks_of_head (by decide) _
    exact ⟨adjC_replace hadj hbrk hTs, by unfold BtInv; simpa using j2⟩
  · rw [Node.forall_iff]
    refine ⟨⟨by show NoCtl "code".toList; decide, by intro kv hkv; simp [mkEl] at hkv, rfl, strC_none k, ?_⟩,
      by simp [mkEl]⟩
    have hc : isCode ({ mkEl "code" with text := some (Inline.codeEscape (strip G)), textAtomic := true } : Node) = true := rfl
    rw [if_pos hc]
    exact ⟨rfl, noCtl_codeEscape hGn.strip, rfl, rfl⟩

/-! ### the contract of `findMatch` on the widened domain -/

theorem fmSpecC {cfg : Cfg} (hcfg : EscOK cfg.esc) (hrefs : RefsOK cfg) : FMSpecC cfg := by
  intro pi data si st fo st' hpi hsi hd h
  have hnone : some ((none : Option Found), st) = some (fo, st') → BtDone data →
      st' = st ∧ (∀ f, fo = some f → FoundOKC st.stash.length pi data f) ∧ (fo = none → BtDone data) := by
    intro hx hb
    simp only [Option.some.injEq, Prod.mk.injEq] at hx
    obtain ⟨rfl, rfl⟩ := hx
    exact ⟨rfl, fun f hf => (by cases hf), fun _ => hb⟩
  have hsome : ∀ f, some (some f, st) = some (fo, st') → FoundOKC st.stash.length pi data f →
      st' = st ∧ (∀ f, fo = some f → FoundOKC st.stash.length pi data f) ∧ (fo = none → BtDone data) := by
    intro f hx hf
    simp only [Option.some.injEq, Prod.mk.injEq] at hx
    obtain ⟨rfl, rfl⟩ := hx
    exact ⟨rfl, fun f' hf' => (by cases hf'; exact hf), fun h0 => (by cases h0)⟩
  have hdone : 1 ≤ pi → BtDone data := fun h1 => (btInv_succ h1).1 hd.bt
  unfold findMatch at h
  simp only at h
  split at h
  · -- start index beyond the data: only reachable with `si > 0`, i.e. `pi ≥ 1`
    rename_i hgt
    have : 1 ≤ pi := by
      rcases Nat.eq_zero_or_pos pi with h0 | h0
      · have := hsi h0; omega
      · exact h0
    exact hnone h (hdone this)
  · have hpi' : pi = 0 ∨ pi = 1 ∨ pi = 2 ∨ pi = 3 ∨ pi = 4 ∨ pi = 5 ∨ pi = 6 ∨ pi = 7 ∨ pi = 8 ∨ pi = 9 ∨ pi = 10 ∨
        pi = 11 ∨ pi = 12 ∨ pi = 13 ∨ pi = 14 ∨ pi = 15 := by
      unfold patternCount at hpi; omega
    have hdrop : data.drop si = data.drop si := rfl
    have hlinks : ∀ p, (p = 3 ∨ p = 4 ∨ p = 5 ∨ p = 7) → DataC p st.stash.length data →
        some (linkScan cfg st.stash p data (if si = 0 then none else data[si - 1]?) (data.drop si) si, st) = some (fo, st') →
        st' = st ∧ (∀ f, fo = some f → FoundOKC st.stash.length p data f) ∧ (fo = none → BtDone data) := by
      intro p hp hdp hx
      simp only [Option.some.injEq, Prod.mk.injEq] at hx
      obtain ⟨rfl, rfl⟩ := hx
      have hp1 : 1 ≤ p := by rcases hp with rfl | rfl | rfl | rfl <;> omega
      refine ⟨rfl, ?_, fun _ => (btInv_succ hp1).1 hdp.bt⟩
      intro f hf
      rcases hp with rfl | rfl | rfl | rfl
      · obtain ⟨j, t, hj, hl⟩ := linkScan_plain_someC cfg st.stash (pi := 3) (by decide) data _ _ _ f rfl hf
        exact linkHandle_link_okC st.stash hdp hj hl
      · obtain ⟨j, t, hj, hl⟩ := linkScan_image_someC cfg st.stash (pi := 4) (by decide) data _ _ _ f rfl hf
        exact linkHandle_image_okC st.stash hdp hj hl
      · obtain ⟨j, t, hj, hl⟩ := linkScan_image_someC cfg st.stash (pi := 5) (by decide) data _ _ _ f rfl hf
        exact linkHandle_imgref_okC hrefs st.stash (.inl rfl) hdp hj hl
      · obtain ⟨j, t, hj, hl⟩ := linkScan_image_someC cfg st.stash (pi := 7) (by decide) data _ _ _ f rfl hf
        exact linkHandle_imgref_okC hrefs st.stash (.inr rfl) hdp hj hl
    have href : ∀ p, p = 2 ∨ p = 6 → DataC p st.stash.length data →
        some (linkScan cfg st.stash p data (if si = 0 then none else data[si - 1]?) (data.drop si) si, st) = some (fo, st') →
        st' = st ∧ (∀ f, fo = some f → FoundOKC st.stash.length p data f) ∧ (fo = none → BtDone data) := by
      intro p hp hdp hx
      simp only [Option.some.injEq, Prod.mk.injEq] at hx
      obtain ⟨rfl, rfl⟩ := hx
      have hp1 : 1 ≤ p := by rcases hp with rfl | rfl <;> omega
      refine ⟨rfl, ?_, fun _ => (btInv_succ hp1).1 hdp.bt⟩
      intro f hf
      obtain ⟨j, t, hj, hl⟩ := linkScan_ref_some cfg st.stash hp data _ _ _ f rfl hf
      exact linkHandle_ref_okC hrefs st.stash hp hdp hj hl
    rcases hpi' with rfl | rfl | rfl | rfl | rfl | rfl | rfl | rfl | rfl | rfl | rfl | rfl | rfl | rfl | rfl | rfl
    · -- backtick
      have hs0 : si = 0 := hsi rfl
      subst hs0
      simp only at h
      cases hb : btFind data 0 with
      | none => simp only [hb] at h; exact hnone h hb
      | some m =>
        simp only [hb] at h
        obtain ⟨hk, hf⟩ := backtick_stash_okC hd hb
        simp only [hk] at h
        exact hsome _ h hf
    · -- escape
      simp only at h
      cases he : escScan (data.drop si) si with
      | none => simp only [he] at h; exact hnone h (hdone (by omega))
      | some r =>
        obtain ⟨j, ch⟩ := r
        simp only [he] at h
        exact hsome _ h (escape_stash_okC hcfg (by omega) hd he)
    · exact href 2 (.inl rfl) hd h
    · exact hlinks 3 (.inl rfl) hd h
    · exact hlinks 4 (.inr (.inl rfl)) hd h
    · exact hlinks 5 (.inr (.inr (.inl rfl))) hd h
    · exact href 6 (.inr rfl) hd h
    · exact hlinks 7 (.inr (.inr (.inr rfl))) hd h
    · exact hnone h (hdone (by omega))
    · exact hnone h (hdone (by omega))
    · -- line break
      simp only at h
      cases hf : find [' ', ' ', '\n'] (data.drop si) with
      | none => simp only [hf] at h; exact hnone h (hdone (by omega))
      | some off =>
        simp only [hf] at h
        exact hsome _ h (linebreak_stash_okC (by omega) hd hf)
    · exact hnone h (hdone (by omega))
    · simp only [entityFind_none (domB_no_amp hd.dom)] at h
      exact hnone h (hdone (by omega))
    · -- not_strong
      simp only at h
      cases hf : nsFind data si with
      | none => simp only [hf] at h; exact hnone h (hdone (by omega))
      | some r =>
        obtain ⟨s, e⟩ := r
        simp only [hf] at h
        exact hsome _ h (not_strong_stash_okC (by omega) hd hf)
    · -- em_strong
      simp only at h
      rw [if_pos True.intro] at h
      cases hf : emScan data '*' (data.drop si) si with
      | none => simp [hf] at h
      | some r =>
        cases r with
        | none => simp only [hf] at h; exact hnone h (hdone (by omega))
        | some p =>
          obtain ⟨el, s, e⟩ := p
          simp only [hf] at h
          exact hsome _ h (em_stash_okC (by omega) delimB_star (by decide) hd hf)
    · -- em_strong2
      simp only at h
      have e15 : (if (15 : Nat) = 14 then '*' else '_') = '_' := by decide
      rw [e15] at h
      cases hf : emScan data '_' (data.drop si) si with
      | none => simp [hf] at h
      | some r =>
        cases r with
        | none => simp only [hf] at h; exact hnone h (hdone (by omega))
        | some p =>
          obtain ⟨el, s, e⟩ := p
          simp only [hf] at h
          exact hsome _ h (em_stash_okC (by omega) delimB_under (by decide) hd hf)

/-- the contract of `handleInline` on the widened domain -/
theorem hiSpecC {cfg : Cfg} (hcfg : EscOK cfg.esc) (hrefs : RefsOK cfg) : HISpecC cfg :=
  hiSpecC_of_fmSpecC (fmSpecC hcfg hrefs)

end MdVerif.NoCtl
