/-
Helper lemmas for `Props/C16RenderG.lean`, part 32: footnotes with references in several paragraphs — the serializer,
the footnote postprocessor, the end of `convertX`, and `convertX` end to end.

Core Lean only.
-/
import MdVerif.Lemmas.RenderGMP4

namespace MdVerif.RenderG
open Py Block BlockExt MdVerif.RenderX Inline InlineX
open MdVerif.Footnotes.Spec (refName)

def lPE : Str := "</p>\n".toList
def lDF : Str := "<div class=\"footnote\">\n".toList

/-- the paragraphs: `<p>`, the text, the references, `</p>` and a line feed -/
def parasHtml (keys : List Str) : List FPara → List Str → Str
  | [], _ => []
  | p :: r, hist => lD1 ++ p.1 ++ refsHtml keys p.2 hist ++ lPE ++ parasHtml keys r ((segIds p).reverse ++ hist)

/-- the rendering: the paragraphs, then `div.footnote > hr, ol` -/
def fnOutP (fmt : Ser.Fmt) (pre lis : Str) : Str := pre ++ lDF ++ hrTag fmt ++ lD3 ++ lis ++ lD4

theorem serializeList_pnodes (fmt : Ser.Fmt) (keys : List Str) : ∀ (ps : List FPara) (hist : List Str),
    (∀ p ∈ ps, FParaOK p) →
    Ser.serializeList fmt ((procPsE keys ps hist).map pnodeFin) = parasHtml keys ps hist := by
  intro ps
  induction ps with
  | nil => intro hist _; rfl
  | cons p r ih =>
    intro hist hp
    have hq := hp p List.mem_cons_self
    have et : Ser.escCdata p.1 = p.1 := CodeLaw.escCdata_plain _ hq.text.noMarkup
    simp only [procPsE, List.map_cons, Ser.serializeList, parasHtml,
      ih _ (fun x hx => hp x (List.mem_cons_of_mem _ hx))]
    rw [show pnodeFin ({ mkText "p" p.1 with children := supKids (refItemsE keys p.2 hist) } : Node) =
      ⟨.name "p".toList, [], some p.1, false, supKids (refItemsE keys p.2 hist), some ['\n'], false⟩ from rfl,
      CodeLaw.serialize_plain fmt _ _ _ _ _ _ et_p.1 et_p.2, ifText_some _ et, ifText_some _ ec_nl,
      serializeList_sups fmt keys p.2 hist hq.segs]
    unfold lD1 lPE
    generalize refsHtml keys p.2 hist = R
    generalize parasHtml keys r ((segIds p).reverse ++ hist) = REST
    simp only [String.reduceToList]
    simp only [List.cons_append, List.append_assoc, List.nil_append, List.append_nil]

theorem serialize_fnDivFin (fmt : Ser.Fmt) (lis : List Node) :
    Ser.serialize fmt (fnDivFin lis) = lDF ++ hrTag fmt ++ lD3 ++ Ser.serializeList fmt lis ++ lD4 ++ ['\n'] := by
  unfold fnDivFin
  rw [serialize_elA fmt "div".toList [("class".toList, "footnote".toList)] [("class".toList, "footnote".toList)] _ _ _ _ _
    (by simp [Ser.sortAttrs, Ser.insAttr])
    et_div.1 et_div.2 (by intro kv hkv; simp at hkv; subst hkv; exact ⟨kv_class_footnote, ea_footnote⟩)]
  simp only [Ser.serializeList]
  rw [serialize_hrG fmt, CodeLaw.serialize_plain fmt _ _ _ _ _ _ et_ol.1 et_ol.2]
  simp only [ifText_some _ ec_nl]
  unfold lDF lD3 lD4
  generalize Ser.serializeList fmt lis = S2
  generalize hrTag fmt = HR
  simp only [attrStr]
  simp only [String.reduceToList]
  simp only [List.cons_append, List.append_assoc, List.nil_append, List.append_nil]

theorem serialize_fnP (fmt : Ser.Fmt) (keys : List Str) (ps : List FPara) (lis : List Node) (hp : ∀ p ∈ ps, FParaOK p) :
    Ser.serialize fmt (fnRootFinP (procPsE keys ps []) lis) =
      "<div>".toList ++ ('\n' :: fnOutP fmt (parasHtml keys ps []) (Ser.serializeList fmt lis) ++ ['\n']) ++
        "</div>\n".toList := by
  unfold fnRootFinP
  rw [CodeLaw.serialize_plain fmt _ _ _ _ _ _ et_div.1 et_div.2, ifText_some _ ec_nl, serializeList_append,
    serializeList_pnodes fmt keys ps [] hp]
  simp only [Ser.serializeList, serialize_fnDivFin]
  unfold fnOutP
  generalize parasHtml keys ps [] = P
  generalize Ser.serializeList fmt lis = S2
  generalize hrTag fmt = HR
  generalize lDF = A
  generalize lD3 = B
  generalize lD4 = C
  simp only [String.reduceToList]
  simp only [List.cons_append, List.append_assoc, List.nil_append, List.append_nil]

/-! ### the postprocessor -/

theorem stx_parasHtml (keys : List Str) : ∀ (ps : List FPara) (hist : List Str), (∀ p ∈ ps, FParaOK p) →
    Post.STX ∉ parasHtml keys ps hist := by
  intro ps
  induction ps with
  | nil => intro hist _; simp [parasHtml]
  | cons p r ih =>
    intro hist hp
    have hq := hp p List.mem_cons_self
    unfold parasHtml
    exact stx_app (stx_app (stx_app (stx_app stx_lD1 hq.text.noStx) (stx_refsHtml keys p.2 hist hq.segs))
      (by decide +kernel)) (ih _ (fun x hx => hp x (List.mem_cons_of_mem _ hx)))

theorem repl_docP {f : Str → Str} {nb bl nb' bl' : Str} (R : Repl f nb bl nb' bl') (hnil : f [] = [])
    (fmt : Ser.Fmt) (pre : Str) (cnt : Str → Nat)
    (defs : List (Str × Str)) (hpre : Post.STX ∉ pre) (hd : DefsOK defs) :
    f (fnOutP fmt pre (lisHtml cnt nb bl defs 1)) = fnOutP fmt pre (lisHtml cnt nb' bl' defs 1) := by
  have e : ∀ L, fnOutP fmt pre L = (pre ++ lDF ++ hrTag fmt ++ lD3) ++ (L ++ (lD4 ++ [])) := by
    intro L
    simp only [fnOutP, List.append_assoc, List.append_nil]
  rw [e, e, R.clean _ _ (stx_app (stx_app (stx_app hpre (by decide +kernel)) (stx_hr fmt)) stx_lD3),
    repl_lis R cnt defs 1 _ hd, R.clean _ _ stx_lD4, hnil]

theorem postprocess_fnP (fmt : Ser.Fmt) (pre : Str) (cnt : Str → Nat) (defs : List (Str × Str))
    (hpre : Post.STX ∉ pre) (hd : DefsOK defs) :
    FootnotesTree.postprocess
        (fnOutP fmt pre (lisHtml cnt FootnotesTree.nbspPlaceholder FootnotesTree.fnBacklinkText defs 1)) =
      fnOutP fmt pre (lisHtml cnt entNb entBl defs 1) := by
  have h1 : replace (fnOutP fmt pre (lisHtml cnt FootnotesTree.nbspPlaceholder FootnotesTree.fnBacklinkText defs 1))
      FootnotesTree.fnBacklinkText entBl = fnOutP fmt pre (lisHtml cnt FootnotesTree.nbspPlaceholder entBl defs 1) :=
    repl_docP repl_first (replace_nil _ _) fmt pre cnt defs hpre hd
  have h2 : replace (fnOutP fmt pre (lisHtml cnt FootnotesTree.nbspPlaceholder entBl defs 1))
      FootnotesTree.nbspPlaceholder entNb = fnOutP fmt pre (lisHtml cnt entNb entBl defs 1) :=
    repl_docP repl_second (replace_nil _ _) fmt pre cnt defs hpre hd
  show replace (replace _ FootnotesTree.fnBacklinkText entBl) FootnotesTree.nbspPlaceholder entNb = _
  rw [h1, h2]

theorem finishX_fnP (x : PipelineX.Exts) (hfo : x.footnotes = true) (cfg : Pipeline.Cfg) (keys : List Str)
    (p0 : FPara) (pr : List FPara) (cnt : Str → Nat) (defs : List (Str × Str)) (hp : ∀ p ∈ p0 :: pr, FParaOK p)
    (hd : DefsOK defs) :
    PipelineX.finishX x cfg []
      ("<div>".toList ++
        ('\n' :: fnOutP cfg.fmt (parasHtml keys (p0 :: pr) [])
          (lisHtml cnt FootnotesTree.nbspPlaceholder FootnotesTree.fnBacklinkText defs 1) ++ ['\n']) ++
        "</div>\n".toList) = .ok (fnOutP cfg.fmt (parasHtml keys (p0 :: pr) []) (lisHtml cnt entNb entBl defs 1)) := by
  have hpre := stx_parasHtml keys (p0 :: pr) [] hp
  have hends : ∀ (L : Str), (fnOutP cfg.fmt (parasHtml keys (p0 :: pr) []) L).head? = some '<' ∧
      (fnOutP cfg.fmt (parasHtml keys (p0 :: pr) []) L).getLast? = some '>' := by
    intro L
    have h1 : ∃ r, lD1 = '<' :: r := ⟨"p>".toList, by decide +kernel⟩
    have h2 : ∃ r, lD4 = r ++ ['>'] := ⟨"</ol>\n</div".toList, by decide +kernel⟩
    obtain ⟨r1, e1⟩ := h1
    obtain ⟨r2, e2⟩ := h2
    unfold fnOutP parasHtml
    rw [e1, e2]
    constructor
    · simp
    · rw [← List.append_assoc, List.getLast?_append]; simp
  have visible : ∀ (L : Str), strip (fnOutP cfg.fmt (parasHtml keys (p0 :: pr) []) L) =
      fnOutP cfg.fmt (parasHtml keys (p0 :: pr) []) L := by
    intro L
    obtain ⟨e1, e2⟩ := hends L
    apply strip_eq_self
    · intro c hc
      rw [e1] at hc
      cases hc; decide
    · intro c hc
      rw [e2] at hc
      cases hc; decide
  have hs2 : ∀ L, strip ('\n' :: fnOutP cfg.fmt (parasHtml keys (p0 :: pr) []) L ++ ['\n']) =
      fnOutP cfg.fmt (parasHtml keys (p0 :: pr) []) L := by
    intro L
    have := strip_append_of_blank (a := ['\n']) (b := ['\n']) (by decide) (by decide)
      (fnOutP cfg.fmt (parasHtml keys (p0 :: pr) []) L)
    have e : '\n' :: fnOutP cfg.fmt (parasHtml keys (p0 :: pr) []) L ++ ['\n'] =
        ['\n'] ++ fnOutP cfg.fmt (parasHtml keys (p0 :: pr) []) L ++ ['\n'] := by simp
    rw [e, this, visible]
  have hfin : Post.STX ∉ fnOutP cfg.fmt (parasHtml keys (p0 :: pr) []) (lisHtml cnt entNb entBl defs 1) := by
    unfold fnOutP
    exact stx_app (stx_app (stx_app (stx_app (stx_app hpre (by decide +kernel)) (stx_hr cfg.fmt)) stx_lD3)
      (stx_lis cnt defs 1 hd)) stx_lD4
  exact finishX_gen x hfo cfg _ _ (hs2 _) (postprocess_fnP cfg.fmt _ cnt defs hpre hd)
    (Escape.ampSub_id _ hfin) (visible _)

end MdVerif.RenderG
