/-
Helper lemmas for C10 on the extension model (`Props/C10XLate.lean`): the GENERIC TAIL of `PipelineX.convertX` —
everything behind the inline stage when footnotes is off: prettify 10, attr_list 8, abbr 7, toc 5, unescape 0, the
serialiser, `finishX` — for every combination of the other ten extension flags.  Reusable by every end-to-end
composition: the front part (preprocessors, block parser, inline stage) has to deliver a tree of `FNode` elements
(escape tokens only, none in `code` text, attributes free of STX/ETX) and an empty raw-HTML stash.  Core Lean only.

* `lateTreeX`, `lateX`      the tail of `treeX` as functions of the result of the inline stage; `treeX_front`: `treeX`
                            equals `lateX` of that result
* `lateTreeX_fnodeX`        prettify, attr_list, abbr keep `FNodeX` (t1: `prettify_fnodeX`, `attrList_run_fnodeX`,
                            `abbr_run_fnodeX`)
* `late_noctl`              the statement with explicit intermediate results
* `lateX_noctl`, `finishX_noctl`, `convertX_noctl_of_front`   the `treeX`-shaped corollaries
* `convertX_front_ok`, `convertX_noctl_generic`   the unfolding of `convertX` (footnotes off) and the proof rule for
                            end-to-end statements.  Usage: `refine convertX_noctl_generic hfn ?_ h; intro text stash root log
                            t xs hp hb hr`, rewrite `hp` (`prepareX`) and `hb` (`parseDocumentXT`) for the flags at hand,
                            apply the block-stage and inline-stage lemmas (`runX_specB`, `fnode_of_wnodeB`), conclude
                            `⟨ht, hhtml, habbr⟩`.
-/
import MdVerif.Lemmas.PlaceholdersXToc2
import MdVerif.Lemmas.PlaceholdersXTree
import MdVerif.Lemmas.PlaceholdersXAttr

namespace MdVerif.NoCtlX
open MdVerif.NoCtl Py

/-- the configuration of the inline stage in `PipelineX.treeX` -/
abbrev xcX (x : PipelineX.Exts) (cfg : Pipeline.Cfg) (log : Block.Refs) : InlineX.XCfg :=
  { cfg := { esc := PipelineX.escX x cfg, refs := (PipelineX.refsX x log).reverse }
    table := InlineX.table x.footnotes x.wikilinks x.nl2br
    fnKeys := (BlockExt.footnotesOf log).map (·.1) }

/-- the tree processors prettify 10, attr_list 8, abbr 7 of `PipelineX.treeX` -/
def lateTreeX (x : PipelineX.Exts) (bl : List Str) (abbrs : List (Str × Str)) (t : Node) : Node :=
  let t := TreeProc.prettify t bl
  let t := if x.attrList then AttrListTree.run bl t else t
  if x.abbr then AbbrTree.run abbrs t else t

/-- the toc stage of `PipelineX.treeX` -/
def tocStageX (x : PipelineX.Exts) (cfg : Pipeline.Cfg) (html : List Str) (t : Node) : TocTree.R Node :=
  if x.toc then TocTree.run { fmt := cfg.fmt, post := PipelineX.postX x cfg html } cfg.blockLevel t else .ok t

/-- the stages of `PipelineX.treeX` behind the inline stage when footnotes is off; `t`, `html`: tree and raw-HTML
    stash after the inline stage, `abbrs`: the abbreviation table -/
def lateX (x : PipelineX.Exts) (cfg : Pipeline.Cfg) (abbrs : List (Str × Str)) (t : Node) (html : List Str) :
    PipelineX.TreeResult :=
  match tocStageX x cfg html (lateTreeX x cfg.blockLevel abbrs t) with
  | .oof => .oof
  | .err => .err
  | .ood => .ood
  | .ok t =>
    match TreeProc.unescapeTree t with
    | none => .err
    | some u => .ok u html

/-- `treeX` with footnotes off is `lateX` of the result of the inline stage -/
theorem treeX_front {x : PipelineX.Exts} (hfn : x.footnotes = false) {cfg : Pipeline.Cfg} {src text : Str}
    {stash : List Str} {root t : Node} {log : Block.Refs} {xs : InlineX.XSt}
    (hp : PipelineX.prepareX x cfg src = .ok (text, stash))
    (hb : BlockExt.parseDocumentXT x.tables x.blockCfg cfg.tab text = some (root, log))
    (hr : InlineX.runX (xcX x cfg log) root stash = some (t, xs)) :
    PipelineX.treeX x cfg src = lateX x cfg (BlockExt.abbrsOf log) t xs.st.html := by
  unfold PipelineX.treeX
  rw [hp]
  simp only
  rw [hb]
  simp only [hfn, Bool.false_eq_true, if_false]
  simp only [xcX, hfn] at hr
  rw [hr]
  rfl

/-! ### the stages -/

/-- prettify, attr_list (when enabled) and abbr (when enabled; no abbreviation or title with STX/ETX, no abbreviation
    that is a number) keep `FNodeX` -/
theorem lateTreeX_fnodeX (x : PipelineX.Exts) (bl : List Str) {abbrs : List (Str × Str)}
    (habbr : x.abbr = true → (∀ kv ∈ abbrs, NoCtl kv.1 ∧ NoCtl kv.2) ∧ noDigitsAbbr abbrs = true)
    {t : Node} (ht : t.Forall FNodeX) : (lateTreeX x bl abbrs t).Forall FNodeX := by
  unfold lateTreeX
  simp only
  have h1 := prettify_fnodeX ht bl
  have h2 : (if x.attrList = true then AttrListTree.run bl (TreeProc.prettify t bl)
      else TreeProc.prettify t bl).Forall FNodeX := by
    split
    · exact attrList_run_fnodeX bl h1
    · exact h1
  split
  · next ha => exact abbr_run_fnodeX h2 (habbr ha).1 (habbr ha).2
  · exact h2

/-- the toc stage (when enabled) keeps `FNodeX`; raw-HTML stash empty -/
theorem tocStageX_fnodeX (x : PipelineX.Exts) (cfg : Pipeline.Cfg) {t t' : Node} (ht : t.Forall FNodeX)
    (h : tocStageX x cfg [] t = .ok t') : t'.Forall FNodeX := by
  unfold tocStageX at h
  split at h
  · exact toc_run_fnodeX ht h (postX_noctl x cfg)
  · injection h with h
    subst h; exact ht

/-- the end of `convertX` (`<div>` strip, raw_html 30 on the empty stash, footnote 25, amp_substitute 20, `.strip()`)
    keeps "no STX/ETX", for every set of extensions -/
theorem finishX_noctl (x : PipelineX.Exts) (cfg : Pipeline.Cfg) {output out : Str} (h : NoCtl output)
    (hf : PipelineX.finishX x cfg [] output = .ok out) : NoCtl out := by
  unfold PipelineX.finishX at hf
  split at hf
  · cases hf
  · next t hs =>
    split at hf
    · cases hf
    · next r hr =>
      simp only [Pipeline.Outcome.ok.injEq] at hf
      subst hf
      exact (postX_noctl x cfg _ (topLevelStrip_noctl h hs) _ hr).strip

/-- **the generic tail, explicit intermediate results**: `t` = the tree after the inline stage (and, with footnotes
    off, after the skipped footnote-duplicate stage), `t4` = the tree after prettify, attr_list, abbr and toc, `u` =
    after unescape, `out` = the answer -/
theorem late_noctl (x : PipelineX.Exts) (cfg : Pipeline.Cfg) (abbrs : List (Str × Str))
    (habbr : x.abbr = true → (∀ kv ∈ abbrs, NoCtl kv.1 ∧ NoCtl kv.2) ∧ noDigitsAbbr abbrs = true)
    {t : Node} (ht : t.Forall FNode) {t4 u : Node} {out : Str}
    (h4 : (if x.toc then
            TocTree.run { fmt := cfg.fmt, post := PipelineX.postX x cfg [] } cfg.blockLevel
              (let t1 := TreeProc.prettify t cfg.blockLevel
               let t2 := if x.attrList then AttrListTree.run cfg.blockLevel t1 else t1
               if x.abbr then AbbrTree.run abbrs t2 else t2)
           else .ok
              (let t1 := TreeProc.prettify t cfg.blockLevel
               let t2 := if x.attrList then AttrListTree.run cfg.blockLevel t1 else t1
               if x.abbr then AbbrTree.run abbrs t2 else t2)) = .ok t4)
    (hu : TreeProc.unescapeTree t4 = some u)
    (hf : PipelineX.finishX x cfg [] (Ser.serialize cfg.fmt u) = .ok out) : NoCtl out := by
  have h4' : tocStageX x cfg [] (lateTreeX x cfg.blockLevel abbrs t) = .ok t4 := h4
  have h3 := lateTreeX_fnodeX x cfg.blockLevel habbr (forall_fnodeX_of_fnode ht)
  have hun := unescapeTree_fnodeX (tocStageX_fnodeX x cfg h3 h4') hu
  exact finishX_noctl x cfg (serialize_noctl cfg.fmt hun) hf

/-- the tail of `treeX` on a tree of `FNode` elements with an empty raw-HTML stash: no STX/ETX in the tree handed to
    the serialiser, the stash is still empty -/
theorem lateX_noctl (x : PipelineX.Exts) (cfg : Pipeline.Cfg) {abbrs : List (Str × Str)}
    (habbr : x.abbr = true → (∀ kv ∈ abbrs, NoCtl kv.1 ∧ NoCtl kv.2) ∧ noDigitsAbbr abbrs = true)
    {t : Node} (ht : t.Forall FNode) {u : Node} {html : List Str}
    (h : lateX x cfg abbrs t [] = .ok u html) : TreeNoCtl u ∧ html = [] := by
  unfold lateX at h
  split at h
  · cases h
  · cases h
  · cases h
  · next t4 h4 =>
    split at h
    · cases h
    · next u' hu =>
      injection h with h1 h2
      subst h1 h2
      have h3 := lateTreeX_fnodeX x cfg.blockLevel habbr (forall_fnodeX_of_fnode ht)
      exact ⟨unescapeTree_fnodeX (tocStageX_fnodeX x cfg h3 h4) hu, rfl⟩

/-- **the generic tail, `treeX`-shaped**: if, for a source `src`, the front part of `treeX` (preprocessors, block
    parser, inline stage — footnotes off) delivers a tree of `FNode` elements and an empty raw-HTML stash, and the
    abbreviation table (when abbr is on) holds no STX/ETX and no abbreviation that is a number, then whatever
    `convertX` answers contains neither STX nor ETX — for every combination of the other flags. -/
theorem convertX_noctl_of_front {x : PipelineX.Exts} (hfn : x.footnotes = false) {cfg : Pipeline.Cfg}
    {src text : Str} {stash : List Str} {root t : Node} {log : Block.Refs} {xs : InlineX.XSt}
    (hp : PipelineX.prepareX x cfg src = .ok (text, stash))
    (hb : BlockExt.parseDocumentXT x.tables x.blockCfg cfg.tab text = some (root, log))
    (hr : InlineX.runX (xcX x cfg log) root stash = some (t, xs))
    (ht : t.Forall FNode) (hhtml : xs.st.html = [])
    (habbr : x.abbr = true →
      (∀ kv ∈ BlockExt.abbrsOf log, NoCtl kv.1 ∧ NoCtl kv.2) ∧ noDigitsAbbr (BlockExt.abbrsOf log) = true)
    {out : Str} (h : PipelineX.convertX x cfg src = .ok out) : NoCtl out := by
  unfold PipelineX.convertX at h
  split at h
  · cases h
  · split at h
    · cases h
    · split at h
      · simp only [Pipeline.Outcome.ok.injEq] at h
        subst h; exact noCtl_nil
      · rw [treeX_front hfn hp hb hr, hhtml] at h
        split at h
        · cases h
        · cases h
        · cases h
        · next u html hl =>
          obtain ⟨hu, rfl⟩ := lateX_noctl x cfg habbr ht hl
          exact finishX_noctl x cfg (serialize_noctl cfg.fmt hu) h

/-- how `convertX` unfolds with footnotes off: an answer `.ok out` is `[]` (blank document) or the front part
    succeeded and the answer is `finishX` of `lateX` of its result -/
theorem convertX_front_ok {x : PipelineX.Exts} (hfn : x.footnotes = false) {cfg : Pipeline.Cfg} {src out : Str}
    (h : PipelineX.convertX x cfg src = .ok out) :
    out = [] ∨
    ∃ text stash root log t xs u html,
      PipelineX.prepareX x cfg src = .ok (text, stash) ∧
      BlockExt.parseDocumentXT x.tables x.blockCfg cfg.tab text = some (root, log) ∧
      InlineX.runX (xcX x cfg log) root stash = some (t, xs) ∧
      lateX x cfg (BlockExt.abbrsOf log) t xs.st.html = .ok u html ∧
      PipelineX.finishX x cfg html (Ser.serialize cfg.fmt u) = .ok out := by
  unfold PipelineX.convertX at h
  split at h
  · cases h
  · split at h
    · cases h
    · split at h
      · simp only [Pipeline.Outcome.ok.injEq] at h
        exact .inl h.symm
      · right
        cases hp : PipelineX.prepareX x cfg src with
        | oof => simp only [PipelineX.treeX, hp] at h; cases h
        | ood => simp only [PipelineX.treeX, hp] at h; cases h
        | ok ts =>
          obtain ⟨text, stash⟩ := ts
          cases hb : BlockExt.parseDocumentXT x.tables x.blockCfg cfg.tab text with
          | none => simp only [PipelineX.treeX, hp, hb] at h; cases h
          | some rl =>
            obtain ⟨root, log⟩ := rl
            cases hr : InlineX.runX (xcX x cfg log) root stash with
            | none =>
              exfalso
              have hr' := hr
              simp only [xcX, hfn] at hr'
              simp only [PipelineX.treeX, hp, hb, hfn, Bool.false_eq_true, if_false, hr'] at h
              cases h
            | some ir =>
              obtain ⟨t, xs⟩ := ir
              rw [treeX_front hfn hp hb hr] at h
              split at h
              · cases h
              · cases h
              · cases h
              · next u html hl => exact ⟨text, stash, root, log, t, xs, u, html, rfl, hb, hr, hl, h⟩

/-- **the generic tail, as a proof rule for end-to-end statements** (footnotes off): it suffices to show that
    whenever the front part of `convertX` succeeds on `src`, the tree after the inline stage consists of `FNode`
    elements, the raw-HTML stash is empty, and (with abbr on) the abbreviation table holds no STX/ETX and no
    abbreviation that is a number. -/
theorem convertX_noctl_generic {x : PipelineX.Exts} (hfn : x.footnotes = false) {cfg : Pipeline.Cfg} {src out : Str}
    (hfront : ∀ text stash root log t xs,
      PipelineX.prepareX x cfg src = .ok (text, stash) →
      BlockExt.parseDocumentXT x.tables x.blockCfg cfg.tab text = some (root, log) →
      InlineX.runX (xcX x cfg log) root stash = some (t, xs) →
      t.Forall FNode ∧ xs.st.html = [] ∧
      (x.abbr = true →
        (∀ kv ∈ BlockExt.abbrsOf log, NoCtl kv.1 ∧ NoCtl kv.2) ∧ noDigitsAbbr (BlockExt.abbrsOf log) = true))
    (h : PipelineX.convertX x cfg src = .ok out) : NoCtl out := by
  rcases convertX_front_ok hfn h with rfl | ⟨text, stash, root, log, t, xs, u, html, hp, hb, hr, hl, hf⟩
  · exact noCtl_nil
  · obtain ⟨ht, hhtml, habbr⟩ := hfront text stash root log t xs hp hb hr
    rw [hhtml] at hl
    obtain ⟨hu, rfl⟩ := lateX_noctl x cfg habbr ht hl
    exact finishX_noctl x cfg (serialize_noctl cfg.fmt hu) hf

/-! ### a tree that satisfies the hypothesis (used by the examples of `Props/C10XLate.lean`) -/

/-- the tree after the inline stage for `[TOC]` and `# T \* HTML {: title="\#" }`: escape tokens in the text of the
    heading, the attribute list not yet read -/
def exLateTree : Node :=
  { tag := .name "div".toList, children := [
      { tag := .name "p".toList, text := some "[TOC]".toList, tail := some "\n".toList },
      { tag := .name "h1".toList,
        text := some ("T ".toList ++ escToken 42 ++ " HTML {: title=\"".toList ++ escToken 35 ++ "\" }".toList) }] }

theorem exLateTree_fnode : exLateTree.Forall FNode := by
  have w : WF true 0 ("T ".toList ++ escToken 42 ++ " HTML {: title=\"".toList ++ escToken 35 ++ "\" }".toList) :=
    ((((WF.of_noCtl (by decide)).append (wf_escToken (by decide))).append (WF.of_noCtl (by decide))).append
      (wf_escToken (by decide))).append (WF.of_noCtl (by decide))
  have hno : attrsNoCtl [] := fun _ h => by cases h
  simp only [exLateTree, Node.Forall, Node.ForallL, and_true]
  exact ⟨⟨(by decide : NoCtl "div".toList), hno, .nil, .nil, fun _ => noCtl_nil⟩,
    ⟨(by decide : NoCtl "p".toList), hno, WF.of_noCtl (by decide : NoCtl "\n".toList),
      WF.of_noCtl (by decide : NoCtl "[TOC]".toList), fun _ => (by decide : NoCtl "[TOC]".toList)⟩,
    ⟨(by decide : NoCtl "h1".toList), hno, .nil, w, fun h => absurd h (by decide)⟩⟩

/-- the tree of a `TreeResult` shown serialised -/
def showTreeResult (r : PipelineX.TreeResult) : Option Str :=
  match r with
  | .ok u _ => some (Ser.serialize .xhtml u)
  | _ => none

end MdVerif.NoCtlX
