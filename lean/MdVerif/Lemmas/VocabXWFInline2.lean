/-
Lemmas for C05 on the extension model (`PipelineX.treeX`), well-formedness part 1b: the inline stage over a pattern
table (`InlineX.runX`) keeps the auxiliary invariant of the elements with an `id` attribute (`VocabXWFDefs2.PL`), in
the strengthened form that is inductive:

    PL' n := hasId n = true → Node.truthy n.text = false ∧
               ∀ l, n.last? = some l → voidT l.tag = false ∧ Node.truthy l.tail = false

(an element with an `id` has no truthy text, and its last child, if any, is not void and has no truthy tail).
`PL` alone is NOT kept: an element with an `id`, a truthy text and no children gets the elements made from its text as
children, and the last of them may be a `br`/`img` or have a tail.

Why `PL'` is kept: the inline stage puts the elements made from a TEXT in front of the children, and only for a truthy
text (no `id` then); the elements made from the TAIL of a child go after that child, and only for a truthy tail (not
the last child of an `id` element then); texts and tails that are not truthy are left alone; tags never change.  The
stash invariant is `SP n` = `PLF' n` and `n` has no truthy tail (as in part 1: `procNode` puts what the tail of a
stashed element produces INTO that element).

Core Lean only.
-/
import MdVerif.Lemmas.VocabXWFInline
import MdVerif.Lemmas.VocabXWFDefs2

namespace MdVerif.VocabXWF
open Py Inline InlineX

/-! ### the strengthened invariant -/

/-- an element with an `id` attribute has no truthy text, and its last child (if any) is not void and has no truthy
    tail -/
def PL' (n : Node) : Prop :=
  hasId n = true → Node.truthy n.text = false ∧
    ∀ l, n.last? = some l → voidT l.tag = false ∧ Node.truthy l.tail = false

/-- `PL'` at every element of the tree -/
def PLF' (n : Node) : Prop := n.Forall PL'

theorem PLF'_iff (n : Node) : PLF' n ↔ PL' n ∧ ∀ c ∈ n.children, PLF' c := Node.forall_iff PL' n

theorem PLF'.pl {n : Node} (h : PLF' n) : PL' n := ((PLF'_iff n).1 h).1
theorem PLF'.kids {n : Node} (h : PLF' n) : ∀ c ∈ n.children, PLF' c := ((PLF'_iff n).1 h).2

/-- the strengthened invariant gives the one the footnote tree processor needs -/
theorem PLF'.plf {n : Node} (h : PLF' n) : PLF n :=
  Node.Forall.mono (fun _ hm hid => (hm hid).2) n h

theorem hasId_congr {a b : Node} (h : a.attrs = b.attrs) : hasId a = hasId b := by
  unfold hasId; rw [h]

/-- same attributes and children; the text is the same when there is an `id` -/
theorem PLF'_same {p p' : Node} (h : PLF' p) (ha : p'.attrs = p.attrs) (hc : p'.children = p.children)
    (ht : hasId p = true → p'.text = p.text) : PLF' p' := by
  rw [PLF'_iff]
  refine ⟨fun hid => ?_, by rw [hc]; exact h.kids⟩
  have hid' : hasId p = true := (hasId_congr ha).symm.trans hid
  obtain ⟨h1, h2⟩ := h.pl hid'
  refine ⟨by rw [ht hid']; exact h1, ?_⟩
  intro l hl
  unfold Node.last? at hl; rw [hc] at hl
  exact h2 l hl

theorem PLF'_noId {n : Node} (h : hasId n = false) (hk : ∀ c ∈ n.children, PLF' c) : PLF' n := by
  rw [PLF'_iff]
  exact ⟨fun hid => (by rw [h] at hid; cases hid), hk⟩

theorem PLF'_noKids {p : Node} (hp : PLF' p) : PLF' { p with children := [] } := by
  rw [PLF'_iff]
  refine ⟨fun hid => ⟨(hp.pl hid).1, ?_⟩, by intro c hc; cases hc⟩
  intro l hl; cases hl

theorem hasId_iff (n : Node) : hasId n = true ↔ "id".toList ∈ n.attrs.map Prod.fst := by
  unfold hasId
  rw [List.any_eq_true]
  constructor
  · rintro ⟨x, hx, e⟩
    exact List.mem_map.2 ⟨x, hx, by simpa using e⟩
  · intro h
    obtain ⟨x, hx, e⟩ := List.mem_map.1 h
    exact ⟨x, hx, by simp [e]⟩

theorem hasId_setAttr (n : Node) (k v : Str) (hk : k ≠ "id".toList) : hasId (n.setAttr k v) = hasId n := by
  rw [Bool.eq_iff_iff, hasId_iff, hasId_iff, Vocab2.setAttr_keys]
  split
  · exact Iff.rfl
  · simp only [List.mem_append, List.mem_singleton]
    constructor
    · rintro (h | h)
      · exact h
      · exact absurd h.symm hk
    · exact Or.inl

/-! ### lists -/

theorem getLast?_append_ne {α} (m r : List α) (hr : r ≠ []) : (m ++ r).getLast? = r.getLast? := by
  rw [List.getLast?_append]
  cases h : r.getLast? with
  | none => exact absurd (List.getLast?_eq_none_iff.1 h) hr
  | some y => rfl

theorem getLast?_set' {α} {l : List α} {i : Nat} {c x y : α} (hc : l[i]? = some c)
    (h : (l.set i x).getLast? = some y) : (y = x ∧ l.getLast? = some c) ∨ l.getLast? = some y := by
  rw [List.getLast?_eq_getElem?, List.length_set, List.getElem?_set] at h
  rw [List.getLast?_eq_getElem?]
  split at h
  · rename_i e
    subst e
    split at h
    · simp only [Option.some.injEq] at h
      exact Or.inl ⟨h.symm, hc⟩
    · cases h
  · exact Or.inr h

theorem withIdx_last : ∀ (l : List Node) (i : Nat) (z : Node) (o : Option Nat),
    (withIdx l i).getLast? = some (z, o) → l.getLast? = some z := by
  intro l
  induction l with
  | nil => intro i z o h; simp [withIdx] at h
  | cons a r ih =>
    intro i z o h
    cases r with
    | nil => simp [withIdx] at h ⊢; exact h.1
    | cons b r' =>
      simp only [withIdx] at h
      rw [List.getLast?_cons_cons] at h ⊢
      exact ih (i + 1) z o (by simpa only [withIdx] using h)

/-- two lists related element by element -/
inductive All2 (R : Node → Node → Prop) : List Node → List Node → Prop
  | nil : All2 R [] []
  | cons {a b : Node} {l1 l2 : List Node} : R a b → All2 R l1 l2 → All2 R (a :: l1) (b :: l2)

theorem All2.mem {R : Node → Node → Prop} {a b : List Node} (h : All2 R a b) :
    ∀ y ∈ b, ∃ x ∈ a, R x y := by
  induction h with
  | nil => intro y hy; cases hy
  | cons hr _ ih =>
    intro y hy
    rcases List.mem_cons.1 hy with rfl | hy
    · exact ⟨_, List.mem_cons_self, hr⟩
    · obtain ⟨x, hx, r⟩ := ih y hy
      exact ⟨x, List.mem_cons_of_mem _ hx, r⟩

theorem All2.last {R : Node → Node → Prop} {a b : List Node} (h : All2 R a b) :
    ∀ y, b.getLast? = some y → ∃ x, a.getLast? = some x ∧ R x y := by
  induction h with
  | nil => intro y hy; cases hy
  | cons hr ht ih =>
    intro y hy
    cases ht with
    | nil =>
      simp only [List.getLast?_singleton, Option.some.injEq] at hy ⊢
      subst hy
      exact ⟨_, rfl, hr⟩
    | cons hr2 ht2 =>
      rw [List.getLast?_cons_cons] at hy ⊢
      exact ih y hy

/-! ### the elements of the core patterns have no `id` -/

theorem noId_of_attrsOk {n : Node} (h : Vocab2.attrsOk n.attrs = true) : hasId n = false := by
  cases hh : hasId n with
  | false => rfl
  | true =>
    unfold hasId at hh
    obtain ⟨kv, hkv, e⟩ := List.any_eq_true.1 hh
    simp only [Vocab2.attrsOk, Bool.and_eq_true, List.all_eq_true] at h
    have h1 := h.1 kv hkv
    have e' : kv.1 = "id".toList := by simpa using e
    rw [e'] at h1
    revert h1; decide

mutual
theorem PLF'_of_goodT : (n : Node) → Vocab2.GoodT Vocab2.inlineTags n = true → PLF' n
  | ⟨tag, attrs, text, ta, children, tail, tla⟩, h => by
    rw [Vocab2.goodT_mk, Bool.and_eq_true] at h
    have h1 := h.1
    cases tag with
    | name t =>
      simp only [Vocab2.nodeOk, Bool.and_eq_true] at h1
      exact PLF'_noId (noId_of_attrsOk (n := ⟨.name t, attrs, text, ta, children, tail, tla⟩) h1.1.2)
        (PLF'_of_goodList children h.2)
    | _ => simp [Vocab2.nodeOk] at h1
theorem PLF'_of_goodList : (l : List Node) → Vocab2.GoodListT Vocab2.inlineTags l = true → ∀ c ∈ l, PLF' c
  | [], _ => by intro c hc; cases hc
  | x :: r, h => by
    simp only [Vocab2.GoodListT, Bool.and_eq_true] at h
    intro c hc
    rcases List.mem_cons.1 hc with e | hc
    · rw [e]; exact PLF'_of_goodT x h.1
    · exact PLF'_of_goodList r h.2 c hc
end

/-! ### the stash, `applyPatternX`, `handleInlineX` -/

/-- what is kept about an element of the inline stash -/
def SP (n : Node) : Prop := PLF' n ∧ Node.truthy n.tail = false

def StashP (stash : List StashItem) : Prop := ∀ n, StashItem.node n ∈ stash → SP n

theorem stashP_nil : StashP [] := by intro n hn; cases hn

theorem stashP_push {stash : List StashItem} (h : StashP stash) (it : StashItem)
    (hit : ∀ n, it = .node n → SP n) : StashP (stash ++ [it]) := by
  intro n hn
  rcases List.mem_append.1 hn with hn | hn
  · exact h n hn
  · simp only [List.mem_singleton] at hn; exact hit n hn.symm

def HIP (hi : HIX) : Prop :=
  ∀ d p x d' x', hi d p x = some (d', x') → StashP x.st.stash → StashP x'.st.stash

/-- what `hiNodeX` does to an element: a text / tail is rewritten only when it was truthy -/
def HiRel (n n' : Node) : Prop :=
  ∃ t tl, n' = { n with text := t, tail := tl } ∧
    (Node.truthy n.text = false → t = n.text) ∧ (Node.truthy n.tail = false → tl = n.tail)

theorem HiRel.plf {n n' : Node} (r : HiRel n n') (h : PLF' n) : PLF' n' := by
  obtain ⟨t, tl, e, a, _⟩ := r; subst e
  exact PLF'_same h rfl rfl (fun hid => a (h.pl hid).1)

theorem HiRel.tag {n n' : Node} (r : HiRel n n') : n'.tag = n.tag := by
  obtain ⟨t, tl, e, _, _⟩ := r; subst e; rfl

theorem HiRel.tail {n n' : Node} (r : HiRel n n') (h : Node.truthy n.tail = false) : Node.truthy n'.tail = false := by
  obtain ⟨t, tl, e, _, b⟩ := r; subst e
  show Node.truthy tl = false
  rw [b h]; exact h

theorem hiOptX_P {hi : HIX} (hhi : HIP hi) {t t' : Option Str} {atomic : Bool} {pi : Nat} {x x' : XSt}
    (h : hiOptX hi t atomic pi x = some (t', x')) (hs : StashP x.st.stash) :
    StashP x'.st.stash ∧ (Node.truthy t = false → t' = t) := by
  unfold hiOptX at h
  split at h
  · rename_i hc
    split at h
    · rename_i d x1 hh
      simp only [Option.some.injEq, Prod.mk.injEq] at h
      obtain ⟨_, h2⟩ := h; subst h2
      refine ⟨hhi _ _ _ _ _ hh hs, ?_⟩
      intro ht; rw [ht] at hc; simp at hc
    · cases h
  · simp only [Option.some.injEq, Prod.mk.injEq] at h
    obtain ⟨h1, h2⟩ := h; subst h1; subst h2; exact ⟨hs, fun _ => rfl⟩

theorem hiNodeX_P {hi : HIX} (hhi : HIP hi) {pi : Nat} {n n' : Node} {x x' : XSt}
    (h : hiNodeX hi pi n x = some (n', x')) (hs : StashP x.st.stash) :
    StashP x'.st.stash ∧ HiRel n n' := by
  unfold hiNodeX at h
  split at h
  · cases h
  · rename_i t x1 h1
    split at h
    · cases h
    · rename_i tl x2 h2
      simp only [Option.some.injEq, Prod.mk.injEq] at h
      obtain ⟨e1, e2⟩ := h; subst e1; subst e2
      have q1 := hiOptX_P hhi h1 hs
      have q2 := hiOptX_P hhi h2 q1.1
      exact ⟨q2.1, t, tl, rfl, q1.2, q2.2⟩

theorem hiNodesX_P {hi : HIX} (hhi : HIP hi) (pi : Nat) :
    ∀ (ns : List Node) (x : XSt) (ns' : List Node) (x' : XSt), hiNodesX hi pi ns x = some (ns', x') →
      StashP x.st.stash → All2 HiRel ns ns' ∧ StashP x'.st.stash := by
  intro ns
  induction ns with
  | nil =>
    intro x ns' x' h hs
    simp only [hiNodesX, Option.some.injEq, Prod.mk.injEq] at h
    obtain ⟨e1, e2⟩ := h; subst e1; subst e2
    exact ⟨.nil, hs⟩
  | cons n r ih =>
    intro x ns' x' h hs
    simp only [hiNodesX] at h
    split at h
    · cases h
    · rename_i n1 x1 h1
      split at h
      · cases h
      · rename_i r1 x2 h2
        simp only [Option.some.injEq, Prod.mk.injEq] at h
        obtain ⟨e1, e2⟩ := h; subst e1; subst e2
        obtain ⟨a2, a3⟩ := hiNodeX_P hhi h1 hs
        obtain ⟨b1, b2⟩ := ih _ _ _ h2 a2
        exact ⟨.cons a3 b1, b2⟩

/-- **every element a pattern of the table builds** satisfies the invariant and has no tail -/
theorem findX_P {xc : InlineX.XCfg} {k : PatK} {data : Str} {si : Nat} {x x' : XSt}
    {f : Found} (h : findX xc k data si x = some (some f, x')) :
    x'.st.stash = x.st.stash ∧ ∀ n, f.node = .el n → SP n := by
  have hhref : "href".toList ≠ "id".toList := by decide
  have hclass : "class".toList ≠ "id".toList := by decide
  unfold findX at h
  cases k with
  | core i =>
    simp only at h
    split at h
    · cases h
    · rename_i fo st hf
      simp only [Option.some.injEq, Prod.mk.injEq] at h
      obtain ⟨e1, e2⟩ := h; subst e1; subst e2
      obtain ⟨a, b⟩ := Vocab2.findMatch_ok _ _ _ _ _ _ _ hf
      exact ⟨a, fun n hn => ⟨PLF'_of_goodT n (b n hn).good, by rw [(b n hn).tail]; rfl⟩⟩
  | footnote =>
    simp only at h
    split at h
    · cases h
    · split at h
      · rename_i id s e _
        simp only [Option.some.injEq, Prod.mk.injEq] at h
        obtain ⟨e1, e2⟩ := h; subst e1; subst e2
        refine ⟨rfl, ?_⟩
        intro n hn
        simp only [PNode.el.injEq] at hn; subst hn
        unfold fnRefNode
        refine ⟨?_, ?_⟩
        · rw [PLF'_iff]
          refine ⟨fun _ => ⟨?_, ?_⟩, ?_⟩
          · show Node.truthy ((mkEl "sup").setAttr "id".toList
                (Footnotes.footnoteRefId id true x.fn).1).text = false
            rw [Vocab2.setAttr_text]; rfl
          · intro l hl
            simp only [Node.last?, List.getLast?_singleton, Option.some.injEq] at hl
            subst hl
            refine ⟨?_, ?_⟩
            · rw [Vocab2.setAttr_tag, Vocab2.setAttr_tag]
              exact (by decide : Ser.isEmptyTag "a".toList = false)
            · rw [Vocab2.setAttr_tail, Vocab2.setAttr_tail]; rfl
          · intro c hc
            simp only [List.mem_singleton] at hc
            subst hc
            refine PLF'_noId ?_ ?_
            · rw [hasId_setAttr _ _ _ hclass, hasId_setAttr _ _ _ hhref]; rfl
            · rw [Vocab2.setAttr_children, Vocab2.setAttr_children]; intro c hc; cases hc
        · show Node.truthy ((mkEl "sup").setAttr "id".toList
              (Footnotes.footnoteRefId id true x.fn).1).tail = false
          rw [Vocab2.setAttr_tail]; rfl
      · cases h
  | wikilink =>
    simp only at h
    split at h
    · cases h
    · split at h
      · rename_i g s e _
        simp only [Option.some.injEq, Prod.mk.injEq] at h
        obtain ⟨e1, e2⟩ := h; subst e1; subst e2
        refine ⟨rfl, ?_⟩
        intro n hn
        unfold wikiNode at hn
        simp only at hn
        split at hn
        · cases hn
        · simp only [PNode.el.injEq] at hn; subst hn
          refine ⟨PLF'_noId ?_ ?_, ?_⟩
          · rw [hasId_setAttr _ _ _ hclass, hasId_setAttr _ _ _ hhref]; rfl
          · rw [Vocab2.setAttr_children, Vocab2.setAttr_children]; intro c hc; cases hc
          · rw [Vocab2.setAttr_tail, Vocab2.setAttr_tail]; rfl
      · cases h
  | nl =>
    simp only at h
    split at h
    · cases h
    · split at h
      · simp only [Option.some.injEq, Prod.mk.injEq] at h
        obtain ⟨e1, e2⟩ := h; subst e1; subst e2
        refine ⟨rfl, ?_⟩
        intro n hn
        simp only [PNode.el.injEq] at hn; subst hn
        exact ⟨PLF'_noId rfl (by intro c hc; cases hc), rfl⟩
      · cases h

def APP (ap : Nat → Str → Nat → XSt → Option (Str × Bool × Nat × XSt)) : Prop :=
  ∀ pi d si x d' m si' x', ap pi d si x = some (d', m, si', x') → StashP x.st.stash → StashP x'.st.stash

theorem applyPatternX_P {xc : InlineX.XCfg} {hi : HIX} (hhi : HIP hi) : APP (applyPatternX xc hi) := by
  intro pi data si x d' m si' x' h hs
  unfold applyPatternX at h
  split at h
  · simp only [Option.some.injEq, Prod.mk.injEq] at h
    obtain ⟨_, _, _, e⟩ := h; subst e; exact hs
  · rename_i k hk
    split at h
    · cases h
    · rename_i x1 hf
      simp only [Option.some.injEq, Prod.mk.injEq] at h
      obtain ⟨_, _, _, e⟩ := h; subst e
      rw [VocabX.findX_none_stash hf]; exact hs
    · rename_i f x1 hf
      obtain ⟨c1, c2⟩ := findX_P hf
      have hs1 : StashP x1.st.stash := by rw [c1]; exact hs
      split at h
      · simp only [Option.some.injEq, Prod.mk.injEq] at h
        obtain ⟨_, _, _, e⟩ := h; subst e; exact hs1
      · simp only [stashX, stashNode, Option.some.injEq, Prod.mk.injEq] at h
        obtain ⟨_, _, _, e⟩ := h; subst e
        exact stashP_push hs1 _ (fun n hn => by cases hn)
      · rename_i n hnode
        have hn := c2 n hnode
        simp only at h
        split at h
        · cases h
        · rename_i n' x2 hr
          simp only [stashX, stashNode, Option.some.injEq, Prod.mk.injEq] at h
          obtain ⟨_, _, _, e⟩ := h; subst e
          have q : SP n' ∧ StashP x2.st.stash := by
            split at hr
            · simp only [Option.some.injEq, Prod.mk.injEq] at hr
              obtain ⟨e1, e2⟩ := hr; subst e1; subst e2
              exact ⟨hn, hs1⟩
            · split at hr
              · cases hr
              · rename_i n1 x3 h1
                split at hr
                · cases hr
                · rename_i kids x4 h2
                  simp only [Option.some.injEq, Prod.mk.injEq] at hr
                  obtain ⟨e1, e2⟩ := hr; subst e1; subst e2
                  obtain ⟨a1, t, tl, e, a2, a3⟩ := hiNodeX_P hhi h1 hs1
                  obtain ⟨b1, b2⟩ := hiNodesX_P hhi _ _ _ _ _ h2 a1
                  subst e
                  refine ⟨⟨?_, ?_⟩, b2⟩
                  · rw [PLF'_iff]
                    refine ⟨fun hid => ?_, ?_⟩
                    · obtain ⟨p1, p2⟩ := hn.1.pl hid
                      refine ⟨?_, ?_⟩
                      · show Node.truthy t = false
                        rw [a2 p1]; exact p1
                      · intro l hl
                        obtain ⟨l0, hl0, r⟩ := b1.last l hl
                        obtain ⟨q1, q2⟩ := p2 l0 hl0
                        exact ⟨by rw [r.tag]; exact q1, r.tail q2⟩
                    · intro c hc
                      obtain ⟨c0, hc0, r⟩ := b1.mem c hc
                      exact r.plf (hn.1.kids c0 hc0)
                  · show Node.truthy tl = false
                    rw [a3 hn.2]; exact hn.2
          exact stashP_push q.2 _ (fun m hm => by cases hm; exact q.1)

theorem hiLoopX_P {count : Nat} {ap : Nat → Str → Nat → XSt → Option (Str × Bool × Nat × XSt)} (hap : APP ap) :
    ∀ (g : Nat) (data : Str) (pi si : Nat) (x : XSt) (d' : Str) (x' : XSt),
      hiLoopX count ap g data pi si x = some (d', x') → StashP x.st.stash → StashP x'.st.stash := by
  intro g
  induction g with
  | zero => intro data pi si x d' x' h; simp [hiLoopX] at h
  | succ g ih =>
    intro data pi si x d' x' h hs
    simp only [hiLoopX] at h
    split at h
    · split at h
      · cases h
      · rename_i d m si1 x1 h1
        exact ih _ _ _ _ _ _ h (hap _ _ _ _ _ _ _ _ h1 hs)
    · simp only [Option.some.injEq, Prod.mk.injEq] at h
      obtain ⟨_, e⟩ := h; subst e; exact hs

theorem handleInlineX_P (xc : InlineX.XCfg) : ∀ (f : Nat), HIP (handleInlineX xc f) := by
  intro f
  induction f with
  | zero => intro d p x d' x' h; simp [handleInlineX] at h
  | succ f ih =>
    intro d p x d' x' h hs
    simp only [handleInlineX] at h
    exact hiLoopX_P (applyPatternX_P ih) _ _ _ _ _ _ _ h hs

theorem handleInlineTopX_P {xc : InlineX.XCfg} {data : Str} {x : XSt} {d' : Str} {x' : XSt}
    (h : handleInlineTopX xc data x = some (d', x')) (hs : StashP x.st.stash) : StashP x'.st.stash :=
  handleInlineX_P xc _ _ _ _ _ _ h hs

/-! ### `processPlaceholders` -/

/-- what `processPlaceholders` does to its parent: the tail (`isText = false`) or the text (`isText = true`) only -/
structure Same (it : Bool) (p p' : Node) : Prop where
  tag : p'.tag = p.tag
  attrs : p'.attrs = p.attrs
  children : p'.children = p.children
  text : it = false → p'.text = p.text
  tail : it = true → p'.tail = p.tail

theorem Same.refl (it : Bool) (p : Node) : Same it p p := ⟨rfl, rfl, rfl, fun _ => rfl, fun _ => rfl⟩

theorem Same.trans {it : Bool} {a b c : Node} (h1 : Same it a b) (h2 : Same it b c) : Same it a c :=
  ⟨h2.tag.trans h1.tag, h2.attrs.trans h1.attrs, h2.children.trans h1.children,
   fun e => (h2.text e).trans (h1.text e), fun e => (h2.tail e).trans (h1.tail e)⟩

/-- the text is the target only for an element without an `id` -/
theorem Same.plf {it : Bool} {p p' : Node} (s : Same it p p') (h : PLF' p) (hn : it = true → hasId p = false) :
    PLF' p' := by
  refine PLF'_same h s.attrs s.children (fun hid => ?_)
  cases it with
  | false => exact s.text rfl
  | true => rw [hn rfl] at hid; cases hid

theorem linkText_P (text : Str) (atomic isText : Bool) (result : List Node) (parent : Node)
    (hr : ∀ n ∈ result, PLF' n) :
    (∀ n ∈ (linkText text atomic isText result parent).1, PLF' n) ∧
      Same isText parent (linkText text atomic isText result parent).2 := by
  unfold linkText
  split
  · exact ⟨hr, Same.refl _ _⟩
  · split
    · rename_i l r
      have hl := hr l List.mem_cons_self
      have hrest : ∀ n ∈ r, PLF' n := fun n hn => hr n (List.mem_cons_of_mem _ hn)
      split
      · refine ⟨?_, Same.refl _ _⟩
        intro n hn
        rcases List.mem_cons.1 hn with e | hn
        · subst e; exact PLF'_same hl rfl rfl (fun _ => rfl)
        · exact hrest n hn
      · refine ⟨?_, Same.refl _ _⟩
        intro n hn
        rcases List.mem_cons.1 hn with e | hn
        · subst e; exact PLF'_same hl rfl rfl (fun _ => rfl)
        · exact hrest n hn
    · split
      · rename_i hit
        have hit' : isText = false := by simpa using hit
        split
        · exact ⟨by simp, rfl, rfl, rfl, fun _ => rfl, fun e => by rw [hit'] at e; cases e⟩
        · exact ⟨by simp, rfl, rfl, rfl, fun _ => rfl, fun e => by rw [hit'] at e; cases e⟩
      · rename_i hit
        have hit' : isText = true := by simpa using hit
        split
        · exact ⟨by simp, rfl, rfl, rfl, fun e => (by rw [hit'] at e; cases e), fun _ => rfl⟩
        · exact ⟨by simp, rfl, rfl, rfl, fun e => (by rw [hit'] at e; cases e), fun _ => rfl⟩

def NestedP (nested : Node → Option Node) : Prop :=
  ∀ n n', SP n → nested n = some n' → PLF' n'

theorem ppLoop_P {stash : List StashItem} (hs : StashP stash) {nested : Node → Option Node}
    (hn : NestedP nested) (data : Str) (atomic isText : Bool) :
    ∀ (g start : Nat) (result : List Node) (parent : Node) (res : List Node) (parent' : Node),
      (∀ n ∈ result, PLF' n) →
      ppLoop stash nested data atomic isText g start result parent = some (res, parent') →
      (∀ n ∈ res, PLF' n) ∧ Same isText parent parent' := by
  intro g
  induction g with
  | zero => intro start result parent res parent' _ h; simp [ppLoop] at h
  | succ g ih =>
    intro start result parent res parent' hr h
    simp only [ppLoop] at h
    have hpre : ∀ (c : Prop) [Decidable c] (t : Str),
        (∀ n ∈ (if c then linkText t false isText result parent else (result, parent)).1, PLF' n) ∧
          Same isText parent (if c then linkText t false isText result parent else (result, parent)).2 := by
      intro c _ t
      split
      · exact linkText_P _ _ _ _ _ hr
      · exact ⟨hr, Same.refl _ _⟩
    split at h
    · rename_i off _
      split at h
      · rename_i item hitem
        have hmem : item ∈ stash := by
          cases hid : (findPh data (start + off)).fst with
          | none => rw [hid] at hitem; cases hitem
          | some id => rw [hid] at hitem; exact Vocab2.stashGet_mem _ _ _ hitem
        have p1 := hpre (start + off > 0) (slice data start (start + off))
        split at h
        · rename_i n
          split at h
          · cases h
          · rename_i n' hn'
            have hg : PLF' n' := hn n n' (hs n hmem) hn'
            have q := ih _ _ _ _ _ (fun m hm => by
              rcases List.mem_cons.1 hm with e | hm
              · subst e; exact hg
              · exact p1.1 m hm) h
            exact ⟨q.1, p1.2.trans q.2⟩
        · rename_i s
          have p2 := linkText_P s false isText _
            (if start + off > 0 then linkText (slice data start (start + off)) false isText result parent
              else (result, parent)).2 p1.1
          have q := ih _ _ _ _ _ p2.1 h
          exact ⟨q.1, p1.2.trans (p2.2.trans q.2)⟩
      · have p1 := linkText_P (slice data start (start + off + phPrefixLen)) false isText result parent hr
        have q := ih _ _ _ _ _ p1.1 h
        exact ⟨q.1, p1.2.trans q.2⟩
    · simp only [Option.some.injEq, Prod.mk.injEq] at h
      obtain ⟨e1, e2⟩ := h; subst e1; subst e2
      have p1 := linkText_P (List.drop start data) atomic isText result parent hr
      exact ⟨fun n hn => p1.1 n (List.mem_reverse.1 hn), p1.2⟩

def PPP (pp : PP) : Prop :=
  ∀ d a parent isText res parent', pp d a parent isText = some (res, parent') →
    (∀ n ∈ res, PLF' n) ∧ Same isText parent parent'

theorem petTail_P {pp : PP} (hpp : PPP pp) {c c' : Node} {res : List Node}
    (h : petTail pp c = some (c', res)) (hc : PLF' c) : PLF' c' ∧ ∀ n ∈ res, PLF' n := by
  unfold petTail at h
  split at h
  · split at h
    · rename_i r c1 hh
      simp only [Option.some.injEq, Prod.mk.injEq] at h
      obtain ⟨e1, e2⟩ := h; subst e1; subst e2
      have q := hpp _ _ _ _ _ _ hh
      exact ⟨q.2.plf (PLF'_same hc rfl rfl (fun _ => rfl)) (fun e => by cases e), q.1⟩
    · cases h
  · simp only [Option.some.injEq, Prod.mk.injEq] at h
    obtain ⟨e1, e2⟩ := h; subst e1; subst e2
    exact ⟨hc, by simp⟩

/-- `petText` keeps the tag, the attributes and the tail -/
theorem petText_keep {pp : PP} (hpp : PPP pp) {c c2 : Node} (h : petText pp c = some c2) :
    c2.tag = c.tag ∧ c2.attrs = c.attrs ∧ c2.tail = c.tail := by
  unfold petText at h
  split at h
  · split at h
    · rename_i r c1 hh
      simp only [Option.some.injEq] at h; subst h
      have q := (hpp _ _ _ _ _ _ hh).2
      exact ⟨q.tag, q.attrs, q.tail rfl⟩
    · cases h
  · simp only [Option.some.injEq] at h; subst h
    exact ⟨rfl, rfl, rfl⟩

theorem petText_P {pp : PP} (hpp : PPP pp) {c c2 : Node} (h : petText pp c = some c2) (hc : PLF' c) :
    PLF' c2 := by
  unfold petText at h
  split at h
  · rename_i hcond
    have ht : Node.truthy c.text = true := by
      simp only [Bool.and_eq_true] at hcond; exact hcond.1
    have hnoid : hasId c = false := by
      cases hh : hasId c with
      | false => rfl
      | true => have := (hc.pl hh).1; rw [this] at ht; cases ht
    split at h
    · rename_i r c1 hh
      simp only [Option.some.injEq] at h; subst h
      have q := hpp _ _ _ _ _ _ hh
      refine PLF'_noId ((hasId_congr (b := c) q.2.attrs).trans hnoid) ?_
      intro x hx
      rcases List.mem_append.1 hx with hx | hx
      · exact q.1 x hx
      · rw [q.2.children] at hx; exact hc.kids x hx
    · cases h
  · simp only [Option.some.injEq] at h; subst h
    exact hc

theorem procKids_P {pp : PP} (hpp : PPP pp) :
    ∀ (l l' : List Node), procKids pp l = some l' → (∀ n ∈ l, PLF' n) → ∀ n ∈ l', PLF' n := by
  intro l
  induction l with
  | nil => intro l' h _; simp only [procKids, Option.some.injEq] at h; subst h; simp
  | cons c r ih =>
    intro l' h hg
    simp only [procKids] at h
    split at h
    · cases h
    · rename_i c1 res h1
      split at h
      · cases h
      · rename_i c2 h2
        split at h
        · cases h
        · rename_i r' h3
          simp only [Option.some.injEq] at h; subst h
          have q1 := petTail_P hpp h1 (hg c List.mem_cons_self)
          have q2 := petText_P hpp h2 q1.1
          have q3 := ih _ h3 (fun n hn => hg n (List.mem_cons_of_mem _ hn))
          intro n hn
          rcases List.mem_append.1 hn with hn | hn
          · rcases List.mem_cons.1 hn with rfl | hn
            · exact q2
            · exact q1.2 n hn
          · exact q3 n hn

/-- the last child stays the last one, with its tag and without a tail, when it had no tail -/
theorem procKids_last {pp : PP} (hpp : PPP pp) :
    ∀ (l l' : List Node), procKids pp l = some l' → ∀ y, l'.getLast? = some y →
      ∃ z, l.getLast? = some z ∧ (Node.truthy z.tail = false → y.tag = z.tag ∧ Node.truthy y.tail = false) := by
  intro l
  induction l with
  | nil => intro l' h y hy; simp only [procKids, Option.some.injEq] at h; subst h; cases hy
  | cons c r ih =>
    intro l' h y hy
    simp only [procKids] at h
    split at h
    · cases h
    · rename_i c1 res h1
      split at h
      · cases h
      · rename_i c2 h2
        split at h
        · cases h
        · rename_i r' h3
          simp only [Option.some.injEq] at h; subst h
          cases r with
          | nil =>
            simp only [procKids, Option.some.injEq] at h3; subst h3
            refine ⟨c, rfl, ?_⟩
            intro hz
            rw [petTail_falsy pp hz] at h1
            simp only [Option.some.injEq, Prod.mk.injEq] at h1
            obtain ⟨e1, e2⟩ := h1; subst e1; subst e2
            simp only [List.append_nil, List.getLast?_singleton, Option.some.injEq] at hy
            subst hy
            obtain ⟨k1, _, k3⟩ := petText_keep hpp h2
            exact ⟨k1, by rw [k3]; exact hz⟩
          | cons d r2 =>
            have hne : r' ≠ [] := by
              intro e; subst e
              simp only [procKids] at h3
              repeat' split at h3
              all_goals cases h3
            rw [getLast?_append_ne _ _ hne] at hy
            obtain ⟨z, hz, hzz⟩ := ih _ h3 y hy
            exact ⟨z, by rw [List.getLast?_cons_cons]; exact hz, hzz⟩

theorem procNode_P {pp : PP} (hpp : PPP pp) : NestedP (procNode pp) := by
  intro node n' hf h
  unfold procNode at h
  simp only [] at h
  rw [petTail_falsy pp (c := { node with children := [] }) hf.2] at h
  simp only [] at h
  have hg0 : PLF' ({ node with children := [] } : Node) := PLF'_noKids hf.1
  split at h
  · cases h
  · rename_i n2 h2
    split at h
    · cases h
    · rename_i kids h3
      simp only [Option.some.injEq] at h; subst h
      have q2 := petText_P hpp h2 hg0
      have k2 := petText_keep hpp h2
      have q3 := procKids_P hpp _ _ h3 hf.1.kids
      rw [PLF'_iff]
      refine ⟨fun hid => ?_, ?_⟩
      · have hid' : hasId node = true := (hasId_congr (a := node) (b := n2) k2.2.1.symm).trans hid
        obtain ⟨p1, p2⟩ := hf.1.pl hid'
        rw [petText_falsy pp (c := { node with children := [] }) p1] at h2
        simp only [Option.some.injEq] at h2; subst h2
        refine ⟨p1, ?_⟩
        intro l hl
        have hl' : kids.getLast? = some l := by simpa [Node.last?] using hl
        obtain ⟨z, hz, hzz⟩ := procKids_last hpp _ _ h3 l hl'
        obtain ⟨r1, r2⟩ := p2 z hz
        obtain ⟨s1, s2⟩ := hzz r2
        exact ⟨by rw [s1]; exact r1, s2⟩
      · intro x hx
        rcases List.mem_append.1 hx with hx | hx
        · rcases List.mem_append.1 hx with hx | hx
          · exact q2.kids x hx
          · cases hx
        · exact q3 x hx

theorem processPlaceholders_P {stash : List StashItem} (hs : StashP stash) :
    ∀ (f : Nat), PPP (processPlaceholders stash f) := by
  intro f
  induction f with
  | zero => intro d a parent isText res parent' h; simp [processPlaceholders] at h
  | succ f ih =>
    intro d a parent isText res parent' h
    simp only [processPlaceholders] at h
    split at h
    · simp only [Option.some.injEq, Prod.mk.injEq] at h
      obtain ⟨e1, e2⟩ := h; subst e1; subst e2
      exact ⟨by simp, Same.refl _ _⟩
    · exact ppLoop_P hs (procNode_P ih) d a isText _ _ _ _ _ _ (by simp) h

theorem ppTop_P (st : St) (hs : StashP st.stash) : PPP (ppTop st) :=
  fun d a parent isText res parent' h => processPlaceholders_P hs _ d a parent isText res parent' h

/-! ### `runX` -/

/-- one child: the invariant, and — for a child without a (truthy) tail — nothing is inserted after it and it keeps
    its tag and stays without a tail -/
theorem visitChildX_P {xc : InlineX.XCfg} {child : Node}
    {v : VisitX} {c : Node} {tr : List Node} {v' : VisitX} (h : visitChildX xc child v = some (c, tr, v'))
    (hc : PLF' child) (hs : StashP v.x.st.stash) :
    PLF' c ∧ (∀ t ∈ tr, PLF' t) ∧ StashP v'.x.st.stash ∧ v'.done = v.done ∧ c.tag = child.tag ∧
      (Node.truthy child.tail = false → tr = [] ∧ Node.truthy c.tail = false) := by
  unfold visitChildX at h
  simp only [] at h
  split at h
  · cases h
  · rename_i c1 lst x1 hr1
    have q1 : StashP x1.st.stash ∧ (∀ t ∈ lst, PLF' t) ∧ c1.tag = child.tag ∧ c1.attrs = child.attrs ∧
        c1.children = child.children ∧ c1.tail = child.tail ∧
        (hasId child = true → c1.text = child.text ∧ lst = []) := by
      split at hr1
      · rename_i hcond
        have ht : Node.truthy child.text = true := by
          simp only [Bool.and_eq_true] at hcond; exact hcond.1
        split at hr1
        · cases hr1
        · rename_i data x2 hh
          have hs2 := handleInlineTopX_P hh hs
          split at hr1
          · cases hr1
          · rename_i l c' hp
            simp only [Option.some.injEq, Prod.mk.injEq] at hr1
            obtain ⟨e1, e2, e3⟩ := hr1; subst e1; subst e2; subst e3
            have q := ppTop_P _ hs2 _ _ _ _ _ _ hp
            refine ⟨hs2, q.1, q.2.tag, q.2.attrs, q.2.children, q.2.tail rfl, ?_⟩
            intro hid
            have := (hc.pl hid).1
            rw [this] at ht; cases ht
      · simp only [Option.some.injEq, Prod.mk.injEq] at hr1
        obtain ⟨e1, e2, e3⟩ := hr1; subst e1; subst e2; subst e3
        exact ⟨hs, by simp, rfl, rfl, rfl, rfl, fun _ => ⟨rfl, rfl⟩⟩
    split at h
    · cases h
    · rename_i c2 tr' x2 hr2
      simp only [Option.some.injEq, Prod.mk.injEq] at h
      obtain ⟨e1, e2, e3⟩ := h; subst e1; subst e2; subst e3
      have q2 : StashP x2.st.stash ∧ (∀ t ∈ tr', PLF' t) ∧ c2.tag = c1.tag ∧ c2.attrs = c1.attrs ∧
          c2.children = c1.children ∧ c2.text = c1.text ∧
          (Node.truthy c1.tail = false → tr' = [] ∧ c2.tail = c1.tail) := by
        split at hr2
        · rename_i htl
          split at hr2
          · cases hr2
          · rename_i data x3 hh
            have hs3 : StashP x3.st.stash := by
              split at hh
              · simp only [Option.some.injEq, Prod.mk.injEq] at hh
                obtain ⟨_, e⟩ := hh; subst e; exact q1.1
              · exact handleInlineTopX_P hh q1.1
            split at hr2
            · cases hr2
            · rename_i tr2 dumby hp
              simp only [Option.some.injEq, Prod.mk.injEq] at hr2
              obtain ⟨e1, e2, e3⟩ := hr2; subst e1; subst e2; subst e3
              have q := ppTop_P _ hs3 _ _ _ _ _ _ hp
              refine ⟨hs3, q.1, by split <;> rfl, by split <;> rfl, by split <;> rfl, by split <;> rfl, ?_⟩
              intro hf; rw [hf] at htl; cases htl
        · simp only [Option.some.injEq, Prod.mk.injEq] at hr2
          obtain ⟨e1, e2, e3⟩ := hr2; subst e1; subst e2; subst e3
          exact ⟨q1.1, by simp, rfl, rfl, rfl, rfl, fun _ => ⟨rfl, rfl⟩⟩
      obtain ⟨a0, a1, a2, a3, a4, a5, a6⟩ := q1
      obtain ⟨b0, b1, b2, b3, b4, b5, b6⟩ := q2
      refine ⟨?_, b1, ?_, ?_, b2.trans a2, ?_⟩
      · rw [PLF'_iff]
        refine ⟨fun hid => ?_, ?_⟩
        · have hid' : hasId child = true :=
            (hasId_congr (a := child) (b := c2) (b3.trans a3).symm).trans hid
          obtain ⟨p1, p2⟩ := hc.pl hid'
          obtain ⟨t1, t2⟩ := a6 hid'
          refine ⟨?_, ?_⟩
          · show Node.truthy c2.text = false
            rw [b5, t1]; exact p1
          · intro l hl
            have hl' : (lst ++ c2.children).getLast? = some l := hl
            rw [t2, List.nil_append, b4, a4] at hl'
            exact p2 l hl'
        · intro x hx
          rcases List.mem_append.1 hx with hx | hx
          · exact a1 x hx
          · rw [b4, a4] at hx; exact hc.kids x hx
      · split <;> exact b0
      · split <;> rfl
      · intro hf
        have hf1 : Node.truthy c1.tail = false := by rw [a5]; exact hf
        obtain ⟨u1, u2⟩ := b6 hf1
        refine ⟨u1, ?_⟩
        show Node.truthy c2.tail = false
        rw [u2]; exact hf1

theorem visitLoopX_P (xc : InlineX.XCfg) :
    ∀ (g : Nat) (todo : List (Node × Option Nat)) (v v' : VisitX), visitLoopX xc g todo v = some v' →
      (∀ x ∈ todo, PLF' x.1) → (∀ n ∈ v.done, PLF' n) → StashP v.x.st.stash →
      (∀ n ∈ v'.done, PLF' n) ∧ StashP v'.x.st.stash ∧
        (todo ≠ [] → ∀ y, v'.done.head? = some y → ∃ z o, todo.getLast? = some (z, o) ∧
          (Node.truthy z.tail = false → y.tag = z.tag ∧ Node.truthy y.tail = false)) := by
  intro g
  induction g with
  | zero => intro todo v v' h; simp [visitLoopX] at h
  | succ g ih =>
    intro todo v v' h htodo hdone hs
    cases todo with
    | nil =>
      simp only [visitLoopX, Option.some.injEq] at h; subst h
      exact ⟨hdone, hs, fun hne => absurd rfl hne⟩
    | cons x todo =>
      obtain ⟨child, orig⟩ := x
      simp only [visitLoopX] at h
      split at h
      · cases h
      · rename_i c tr v1 hv
        have q := visitChildX_P hv (htodo (child, orig) List.mem_cons_self) hs
        obtain ⟨i1, i2, i3⟩ := ih _ _ _ h (by
            intro y hy
            rcases List.mem_append.1 hy with hy | hy
            · obtain ⟨n, hn, e⟩ := List.mem_map.1 hy
              subst e; exact q.2.1 n hn
            · exact htodo y (List.mem_cons_of_mem _ hy)) (by
            intro n hn
            rcases List.mem_cons.1 hn with e | hn
            · subst e; exact q.1
            · rw [q.2.2.2.1] at hn; exact hdone n hn) q.2.2.1
        refine ⟨i1, i2, ?_⟩
        intro _ y hy
        cases todo with
        | nil =>
          refine ⟨child, orig, rfl, ?_⟩
          intro hz
          obtain ⟨u1, u2⟩ := q.2.2.2.2.2 hz
          subst u1
          simp only [List.map_nil, List.append_nil] at h
          have e := visitLoopX_nil h
          rw [e] at hy
          simp only [List.head?_cons, Option.some.injEq] at hy
          subst hy
          exact ⟨q.2.2.2.2.1, u2⟩
        | cons e rest =>
          obtain ⟨z, o, hz, hzz⟩ := i3 (by simp) y hy
          rw [getLast?_append_ne _ _ (by simp)] at hz
          exact ⟨z, o, by rw [List.getLast?_cons_cons]; exact hz, hzz⟩

theorem PLF'_getAt : ∀ (p : Path) {root cur : Node}, PLF' root → getAt root p = some cur → PLF' cur := by
  intro p
  induction p with
  | nil => intro root cur hr h; rw [NoCtl.getAt_nil] at h; cases h; exact hr
  | cons i p ih =>
    intro root cur hr h
    rw [NoCtl.getAt_cons] at h
    cases hc : root.children[i]? with
    | none => simp [hc] at h
    | some c =>
      simp only [hc] at h
      exact ih (hr.kids c (List.mem_of_getElem? hc)) h

/-- the element at the path is replaced by one with the same tag and tail that satisfies the invariant -/
theorem PLF'_setAt : ∀ (p : Path) {root cur new : Node}, PLF' root → PLF' new → getAt root p = some cur →
    new.tag = cur.tag → new.tail = cur.tail →
    PLF' (setAt root p new) ∧ (setAt root p new).tag = root.tag ∧ (setAt root p new).tail = root.tail := by
  intro p
  induction p with
  | nil =>
    intro root cur new _ hn h e1 e2
    rw [NoCtl.getAt_nil] at h; cases h
    rw [NoCtl.setAt_nil]; exact ⟨hn, e1, e2⟩
  | cons i p ih =>
    intro root cur new hr hn h e1 e2
    rw [NoCtl.getAt_cons] at h
    rw [NoCtl.setAt_cons]
    cases hc : root.children[i]? with
    | none => simp [hc] at h
    | some c =>
      simp only [hc] at h
      have hcm : c ∈ root.children := List.mem_of_getElem? hc
      obtain ⟨j1, j2, j3⟩ := ih (hr.kids c hcm) hn h e1 e2
      refine ⟨?_, rfl, rfl⟩
      rw [PLF'_iff]
      refine ⟨fun hid => ?_, ?_⟩
      · obtain ⟨p1, p2⟩ := hr.pl hid
        refine ⟨p1, ?_⟩
        intro l hl
        have hl' : (root.children.set i (setAt c p new)).getLast? = some l := hl
        rcases getLast?_set' hc hl' with ⟨e, hlast⟩ | hlast
        · obtain ⟨r1, r2⟩ := p2 c hlast
          subst e
          exact ⟨by rw [j2]; exact r1, by rw [j3]; exact r2⟩
        · exact p2 l hlast
      · intro d hd
        rcases List.mem_or_eq_of_mem_set hd with hd | rfl
        · exact hr.kids d hd
        · exact j1

theorem runLoopX_P (xc : InlineX.XCfg) (g2 : Nat) :
    ∀ (g : Nat) (root : Node) (stack : List Path) (x : XSt) (root' : Node) (x' : XSt),
      runLoopX xc g2 g root stack x = some (root', x') → PLF' root → StashP x.st.stash → PLF' root' := by
  intro g
  induction g with
  | zero => intro root stack x root' x' h; simp [runLoopX] at h
  | succ g ih =>
    intro root stack x root' x' h hd hs
    cases stack with
    | nil =>
      simp only [runLoopX, Option.some.injEq, Prod.mk.injEq] at h
      obtain ⟨e, _⟩ := h; subst e; exact hd
    | cons p stack =>
      simp only [runLoopX] at h
      split at h
      · exact ih _ _ _ _ _ h hd hs
      · rename_i cur hcur
        split at h
        · cases h
        · rename_i v hv
          have hcurP := PLF'_getAt p hd hcur
          obtain ⟨q1, q2, q3⟩ := visitLoopX_P xc g2 _ { x := x } v hv
            (fun y hy => hcurP.kids y.1 (Vocab2.withIdx_fst _ _ _ hy))
            (by intro n hn; cases hn) hs
          have hnew : PLF' { cur with children := v.done.reverse } := by
            rw [PLF'_iff]
            refine ⟨fun hid => ?_, fun n hn => q1 n (List.mem_reverse.1 hn)⟩
            obtain ⟨p1, p2⟩ := hcurP.pl hid
            refine ⟨p1, ?_⟩
            intro l hl
            have hl' : v.done.reverse.getLast? = some l := hl
            rw [List.getLast?_reverse] at hl'
            cases hk : cur.children with
            | nil =>
              rw [hk] at hv
              have e := visitLoopX_nil (xc := xc) hv
              subst e
              cases hl'
            | cons c0 r0 =>
              obtain ⟨z, o, hz, hzz⟩ := q3 (by rw [hk]; simp [withIdx]) l hl'
              have hz' := withIdx_last _ _ _ _ hz
              obtain ⟨r1, r2⟩ := p2 z hz'
              obtain ⟨s1, s2⟩ := hzz r2
              exact ⟨by rw [s1]; exact r1, s2⟩
          exact ih _ _ _ _ _ h (PLF'_setAt p hd hnew hcur rfl rfl).1 q2

/-- **the inline stage over any pattern table keeps the (strengthened) invariant of the elements with an `id`** -/
theorem runX_PLF' {xc : InlineX.XCfg} {root : Node} {html : List Str} {t : Node} {x : InlineX.XSt}
    (h : InlineX.runX xc root html = some (t, x)) (hp : PLF' root) : PLF' t := by
  unfold runX at h
  exact runLoopX_P xc _ _ _ _ _ _ _ h hp stashP_nil

/-- … hence the invariant `PLF` that `FootnotePostTreeprocessor` needs holds after the inline stage -/
theorem runX_PLF {xc : InlineX.XCfg} {root : Node} {html : List Str} {t : Node} {x : InlineX.XSt}
    (h : InlineX.runX xc root html = some (t, x)) (hp : PLF' root) : PLF t :=
  (runX_PLF' h hp).plf

end MdVerif.VocabXWF
