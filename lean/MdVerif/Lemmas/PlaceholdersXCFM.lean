/-
C10c × C10X: copy of `Lemmas/PlaceholdersXFM.lean` (worker x1) with the invariants of `Props/C10c.lean` (`AdjC true`: simple regions
behind `](` and `![`) in place of `Adj3`; namespace `MdVerif.NoCtlXC`.

Helper lemmas for C10 on the extension model, part 3: the contract `FMSpecXB` of the table entries for the tables
`InlineX.table false wikilinks nl2br`.

* `.core i`: from `fmSpecC` (`Lemmas/PlaceholdersBFM.lean`) and `findMatchQ` (`Lemmas/PlaceholdersXQ.lean`); the table
  index and the core index agree on "is it 0" (`tableOK`), which is all that `DataC` / `FoundOKC` look at;
* `.nl` (nl2br): the match is the single newline, the node a `br` element;
* `.wikilink`: the match is `[[label]]` with `label ∈ [\w -]+`; without a `[` immediately before a blank (`Qw true`)
  the label does not start with a blank, so `strip label` is not empty and the node is an `a` element whose text,
  `href` and `class` consist of word characters, blanks, `-`, `_`, `/`: no STX/ETX, no `<`, `&`, backtick, backslash,
  bracket.

Core Lean only.
-/
import MdVerif.Lemmas.PlaceholdersXCRun

namespace MdVerif.NoCtlXC
open MdVerif.NoCtl Py Inline InlineX

/-! ### the contract, entry by entry -/

/-- the contract of the entry `k` standing at table index `pi` -/
def EntrySpecXB (wl : Bool) (xc : XCfg) (pi : Nat) (k : PatK) : Prop :=
  ∀ (data : Str) (si : Nat) (x : XSt) (fo : Option Found) (x' : XSt),
    (pi = 0 → si = 0) → DataC pi x.st.stash.length data → Qw wl data → findX xc k data si x = some (fo, x') →
    x'.st.html = x.st.html ∧ x'.st.stash = x.st.stash ∧
      (∀ f, fo = some f → FoundOKC x.st.stash.length pi data f ∧ FoundQ wl f) ∧ (fo = none → BtDone data)

theorem fmSpecXB_of_entries {wl : Bool} {xc : XCfg}
    (h : ∀ pi k, xc.table[pi]? = some k → EntrySpecXB wl xc pi k) : FMSpecXB wl xc :=
  fun pi k data si x fo x' hk hsi hd hq hf => h pi k hk data si x fo x' hsi hd hq hf

/-! ### transfer between the table index and the core index -/

theorem btInv_congr {pi i : Nat} (h : pi = 0 ↔ i = 0) : BtInv pi = BtInv i := by
  funext s
  unfold BtInv
  by_cases hp : pi = 0
  · rw [if_pos hp, if_pos (h.1 hp)]
  · rw [if_neg hp, if_neg (fun hi => hp (h.2 hi))]

theorem dataB_congr {pi i k : Nat} (h : pi = 0 ↔ i = 0) {d : Str} (hd : DataC pi k d) : DataC i k d :=
  ⟨hd.wf, hd.dom, hd.adj, by rw [← btInv_congr h]; exact hd.bt⟩

theorem spliceB_congr {pi i k : Nat} (h : pi = 0 ↔ i = 0) {data : Str} {start : Nat} {stop : Int}
    (hs : SpliceC k i data start stop) : SpliceC k pi data start stop := by
  unfold SpliceC at hs ⊢
  rw [btInv_congr h]; exact hs

theorem foundOKB_congr {pi i k : Nat} (h : pi = 0 ↔ i = 0) {data : Str} {f : Found}
    (hf : FoundOKC k i data f) : FoundOKC k pi data f := by
  unfold FoundOKC at hf ⊢
  cases hn : f.node with
  | none =>
    simp only [hn] at hf ⊢
    rcases Nat.eq_zero_or_pos pi with h0 | h0
    · have := h.1 h0; omega
    · exact h0
  | str s =>
    simp only [hn] at hf ⊢
    exact ⟨spliceB_congr h hf.1, hf.2⟩
  | el n =>
    simp only [hn] at hf ⊢
    exact ⟨spliceB_congr h hf.1, hf.2.1, hf.2.2.1, fun h0 => hf.2.2.2 (h.1 h0)⟩

/-! ### core entries -/

theorem entry_core {wl : Bool} {xc : XCfg} (hcfg : EscOK xc.cfg.esc) (hrefs : RefsOK xc.cfg) {pi i : Nat}
    (hi : i < patternCount) (hz : pi = 0 ↔ i = 0) : EntrySpecXB wl xc pi (.core i) := by
  intro data si x fo x' hsi hd hq h
  simp only [findX] at h
  cases hf : findMatch xc.cfg i data si x.st with
  | none => simp [hf] at h
  | some r =>
    obtain ⟨fo', st'⟩ := r
    simp only [hf, Option.some.injEq, Prod.mk.injEq] at h
    obtain ⟨rfl, rfl⟩ := h
    have hsi' : i = 0 → si = 0 := fun h0 => hsi (hz.2 h0)
    have hd' := dataB_congr hz hd
    obtain ⟨e, h1, h2⟩ := fmSpecC hcfg hrefs i data si x.st fo' st' hi hsi' hd' hf
    subst e
    refine ⟨rfl, rfl, fun f hfo => ⟨foundOKB_congr hz (h1 f hfo), ?_⟩, h2⟩
    subst hfo
    exact findMatchQ hi hd' hsi' hq hf

/-! ### nl2br -/

theorem entry_nl {wl : Bool} {xc : XCfg} {pi : Nat} (hpi : 1 ≤ pi) : EntrySpecXB wl xc pi .nl := by
  intro data si x fo x' _ hd _ h
  have hdone : BtDone data := (btInv_succ hpi).1 hd.bt
  simp only [findX] at h
  split at h
  · simp only [Option.some.injEq, Prod.mk.injEq] at h
    obtain ⟨rfl, rfl⟩ := h
    exact ⟨rfl, rfl, fun f hf => (by cases hf), fun _ => hdone⟩
  · cases hf : find ['\n'] (data.drop si) with
    | none =>
      simp only [hf, Option.some.injEq, Prod.mk.injEq] at h
      obtain ⟨rfl, rfl⟩ := h
      exact ⟨rfl, rfl, fun f hf => (by cases hf), fun _ => hdone⟩
    | some off =>
      simp only [hf, Option.some.injEq, Prod.mk.injEq] at h
      obtain ⟨rfl, rfl⟩ := h
      refine ⟨rfl, rfl, ?_, fun h0 => by cases h0⟩
      intro f hfo
      cases hfo
      obtain ⟨pre, post, hsuf, rfl, -⟩ := find_some_iff.1 hf
      have := spliceC_of_span (M := ['\n']) hpi hd hsuf (by simp)
        (by intro c hc; simp at hc; subst hc; decide) (by intro c hc; simp at hc; subst hc; decide) (by decide)
      have e : ((si + pre.length + 1 : Nat) : Int) = ((si + pre.length + ['\n'].length : Nat) : Int) := by
        simp
      refine ⟨⟨?_, (brNode_snodeC x.st.stash.length).1, (brNode_snodeC x.st.stash.length).2, fun h0 => by omega⟩,
        qn_mkEl wl "br"⟩
      show SpliceC _ pi data (si + pre.length) ((si + pre.length + 1 : Nat) : Int)
      rw [e]; exact this

/-! ### wikilinks: the characters of a label -/

theorem wk_space_word_disjoint :
    Generated.Chars.spaceNonAscii.all (fun n => !inRanges Generated.Chars.wordNonAscii n) = true := by
  decide +kernel

theorem wk_alnum_toNat {c : Char} (h : isAsciiAlnum c = true) : 48 ≤ c.toNat := by
  simp only [isAsciiAlnum, isAsciiAlpha, isAsciiDigit, isAsciiLower, isAsciiUpper, Bool.or_eq_true, Bool.and_eq_true,
    decide_eq_true_eq, Char.le_def, UInt32.le_iff_toNat_le] at h
  have e0 : ('0' : Char).val.toNat = 48 := by decide
  have ea : ('a' : Char).val.toNat = 97 := by decide
  have eA : ('A' : Char).val.toNat = 65 := by decide
  have : c.toNat = c.val.toNat := rfl
  omega

/-- `\w` and `\s` are disjoint -/
theorem wk_word_not_space {c : Char} (h : isWord c = true) : isSpace c = false := by
  unfold isWord at h
  unfold isSpace
  by_cases hlt : c.toNat < 128
  · simp only [hlt, if_true] at h ⊢
    simp only [Bool.or_eq_true, decide_eq_true_eq] at h
    rcases h with h | rfl
    · have h48 := wk_alnum_toNat h
      have e : ∀ d : Char, c = d → c.toNat = d.toNat := fun d e => by rw [e]
      simp only [Bool.or_eq_false_iff, decide_eq_false_iff_not, Bool.and_eq_false_iff, Nat.not_le]
      refine ⟨⟨⟨⟨⟨⟨?_, ?_⟩, ?_⟩, ?_⟩, ?_⟩, ?_⟩, ?_⟩
      · intro e1; have := e _ e1; simp at this; omega
      · intro e1; have := e _ e1; simp at this; omega
      · intro e1; have := e _ e1; simp at this; omega
      · intro e1; have := e _ e1; simp at this; omega
      · omega
      · omega
      · omega
    · decide
  · simp only [hlt, if_false] at h ⊢
    cases hs : Generated.Chars.spaceNonAscii.contains c.toNat with
    | false => rfl
    | true =>
      have hm : c.toNat ∈ Generated.Chars.spaceNonAscii := by simpa using hs
      have := List.all_eq_true.1 wk_space_word_disjoint _ hm
      simp [h] at this

theorem wk_wikiChar_not_space {c : Char} (h : isWikiChar c = true) (hc : c ≠ ' ') : isSpace c = false := by
  simp only [isWikiChar, Bool.or_eq_true, decide_eq_true_eq] at h
  rcases h with (h | h) | h
  · exact wk_word_not_space h
  · exact absurd h hc
  · subst h; decide

/-- a string of label characters (and `/`) has none of the characters the invariants care about -/
def LabelStr (s : Str) : Prop := ∀ c ∈ s, isWikiChar c = true ∨ c = '/'

theorem labelStr_facts {s : Str} (h : LabelStr s) :
    NoCtl s ∧ DomB s ∧ '`' ∉ s ∧ '[' ∉ s ∧ ']' ∉ s ∧ '\\' ∉ s := by
  have key : ∀ d : Char, isWikiChar d = false → d ≠ '/' → d ∉ s := by
    intro d hd hd' hm
    rcases h d hm with h1 | h1
    · rw [h1] at hd; cases hd
    · exact hd' h1
  refine ⟨noCtl_iff.2 fun c hc => ⟨?_, ?_⟩, fun c hc => ?_, key _ (by decide) (by decide), key _ (by decide) (by decide),
    key _ (by decide) (by decide), key _ (by decide) (by decide)⟩
  · rintro rfl; exact key NoCtl.STX (by decide) (by decide) hc
  · rintro rfl; exact key NoCtl.ETX (by decide) (by decide) hc
  · simp only [domCharB, Bool.and_eq_true, bne_iff_ne, ne_eq]
    exact ⟨by rintro rfl; exact key '<' (by decide) (by decide) hc,
      by rintro rfl; exact key '&' (by decide) (by decide) hc⟩

theorem labelStr_strB {s : Str} (h : LabelStr s) (k : Nat) : StrC k (some s) := by
  obtain ⟨h1, h2, h3, h4, h5, h6⟩ := labelStr_facts h
  exact ⟨WF.of_noCtl h1, h2, adjC_of_no_bracket (noAdj_of_no_backtick h3) h4 h5, btDone_of_no_backtick h3⟩

theorem mem_cleanLabel : ∀ (s : Str) (k : Nat) (c : Char), c ∈ cleanLabel k s → c ∈ s ∨ c = '_' := by
  intro s
  induction s with
  | nil => intro k c h; cases k <;> simp [cleanLabel] at h
  | cons a r ih =>
    intro k c h
    cases k with
    | succ k =>
      simp only [cleanLabel] at h
      rcases ih k c h with h | h
      · exact .inl (List.mem_cons_of_mem _ h)
      · exact .inr h
    | zero =>
      simp only [cleanLabel] at h
      split at h
      · split at h
        · rcases List.mem_cons.1 h with h | h
          · exact .inr h
          · rcases ih _ c h with h | h
            · exact .inl (List.mem_cons_of_mem _ h)
            · exact .inr h
        · rcases List.mem_cons.1 h with h | h
          · exact .inr h
          · rcases ih _ c h with h | h
            · exact .inl (List.mem_cons_of_mem _ h)
            · exact .inr h
      · split at h
        · rcases List.mem_cons.1 h with h | h
          · exact .inr h
          · rcases ih _ c h with h | h
            · exact .inl (List.mem_cons_of_mem _ h)
            · exact .inr h
        · rcases List.mem_cons.1 h with h | h
          · exact .inl (by simp [h])
          · rcases ih _ c h with h | h
            · exact .inl (List.mem_cons_of_mem _ h)
            · exact .inr h

/-! ### wikilinks: the match -/

theorem wikiAt_spec {suf g : Str} {len : Nat} (h : wikiAt suf = some (g, len)) :
    ∃ post, suf = ('[' :: '[' :: g) ++ [']', ']'] ++ post ∧ len = g.length + 4 ∧ g ≠ [] ∧
      ∀ c ∈ g, isWikiChar c = true := by
  unfold wikiAt at h
  split at h
  · rename_i r
    simp only at h
    split at h
    · rename_i hc
      simp only [Bool.and_eq_true, decide_eq_true_eq, beq_iff_eq] at hc
      obtain ⟨⟨hn, h1⟩, h2⟩ := hc
      simp only [Option.some.injEq, Prod.mk.injEq] at h
      obtain ⟨rfl, rfl⟩ := h
      have hle := spanLen_le isWikiChar r
      have hlt1 : spanLen isWikiChar r < r.length := by
        rcases Nat.lt_or_ge (spanLen isWikiChar r) r.length with h | h
        · exact h
        · rw [List.getElem?_eq_none h] at h1; cases h1
      have hlt2 : spanLen isWikiChar r + 1 < r.length := by
        rcases Nat.lt_or_ge (spanLen isWikiChar r + 1) r.length with h | h
        · exact h
        · rw [List.getElem?_eq_none h] at h2; cases h2
      have e1 : r[spanLen isWikiChar r] = ']' := by
        rw [List.getElem?_eq_getElem hlt1] at h1; exact Option.some.inj h1
      have e2 : r[spanLen isWikiChar r + 1] = ']' := by
        rw [List.getElem?_eq_getElem hlt2] at h2; exact Option.some.inj h2
      have hr : r = r.take (spanLen isWikiChar r) ++ [']', ']'] ++ r.drop (spanLen isWikiChar r + 2) := by
        conv => lhs; rw [← List.take_append_drop (spanLen isWikiChar r) r]
        rw [List.drop_eq_getElem_cons hlt1, e1, List.drop_eq_getElem_cons hlt2, e2]
        simp
      refine ⟨r.drop (spanLen isWikiChar r + 2), ?_, ?_, ?_, spanLen_prefix_all isWikiChar r⟩
      · conv => lhs; rw [hr]
        simp
      · simp only [List.length_take]
        omega
      · intro he
        have := congrArg List.length he
        simp only [List.length_take, List.length_nil] at this
        omega
    · cases h
  · cases h

theorem wikiScan_spec : ∀ (suf : Str) (i : Nat) (g : Str) (s e : Nat), wikiScan suf i = some (g, s, e) →
    ∃ pre post, suf = pre ++ (('[' :: '[' :: g) ++ [']', ']']) ++ post ∧ s = i + pre.length ∧
      e = s + (g.length + 4) ∧ g ≠ [] ∧ ∀ c ∈ g, isWikiChar c = true := by
  intro suf
  induction suf with
  | nil => intro i g s e h; simp [wikiScan] at h
  | cons c r ih =>
    intro i g s e h
    simp only [wikiScan] at h
    cases ha : wikiAt (c :: r) with
    | none =>
      simp only [ha] at h
      obtain ⟨pre, post, h1, h2, h3, h4, h5⟩ := ih _ _ _ _ h
      refine ⟨c :: pre, post, by rw [h1]; simp, by rw [h2]; simp; omega, h3, h4, h5⟩
    | some p =>
      obtain ⟨g', len⟩ := p
      simp only [ha, Option.some.injEq, Prod.mk.injEq] at h
      obtain ⟨rfl, rfl, rfl⟩ := h
      obtain ⟨post, h1, h2, h3, h4⟩ := wikiAt_spec ha
      exact ⟨[], post, by rw [h1]; simp, by simp, by rw [h2], h3, h4⟩

/-- the element of a wikilink with a non-blank label -/
theorem wikiNode_ok {g : Str} (hg : ∀ c ∈ g, isWikiChar c = true) (hne : strip g ≠ []) (k : Nat) (wl : Bool)
    (hq : Qw wl g) :
    ∃ n, wikiNode g = .el n ∧ n.Forall (SNodeC k) ∧ n.tail = none ∧ isCode n = false ∧ n.Forall (QN wl) := by
  have hemp : (strip g).isEmpty = false := by
    cases hs : strip g with
    | nil => exact absurd hs hne
    | cons a b => rfl
  have hlab : LabelStr (strip g) := fun c hc => .inl (hg c ((strip_infix g).subset hc))
  have hhref : LabelStr ('/' :: cleanLabel 0 (strip g) ++ ['/']) := by
    intro c hc
    simp only [List.cons_append, List.mem_cons, List.mem_append, List.not_mem_nil, or_false] at hc
    rcases hc with rfl | hc | rfl
    · exact .inr rfl
    · rcases mem_cleanLabel _ _ _ hc with h | rfl
      · exact hlab c h
      · exact .inl (by decide)
    · exact .inr rfl
  let a0 : Node := { mkEl "a" with text := some (strip g) }
  let a1 : Node := a0.setAttr "href".toList ('/' :: cleanLabel 0 (strip g) ++ ['/'])
  let a2 : Node := a1.setAttr "class".toList "wikilink".toList
  have hn : wikiNode g = .el a2 := by
    unfold wikiNode
    simp only [hemp, Bool.false_eq_true, if_false]
    rfl
  obtain ⟨f1, f2, f3, f4, f5, f6⟩ := setAttr_frame a0 "href".toList ('/' :: cleanLabel 0 (strip g) ++ ['/'])
  obtain ⟨g1, g2, g3, g4, g5, g6⟩ := setAttr_frame a1 "class".toList "wikilink".toList
  have hattrs : attrsNoCtl a2.attrs :=
    attrsNoCtl_setAttr (attrsNoCtl_setAttr (n := a0) (by intro kv hkv; simp [a0, mkEl] at hkv) (by decide)
      (labelStr_facts hhref).1) (by decide) (by decide)
  have htag : a2.tag = .name "a".toList := by rw [g1, f1]; rfl
  have htext : a2.text = some (strip g) := by rw [g2, f2]
  have hta : a2.textAtomic = false := by rw [g3, f3]; rfl
  have hkids : a2.children = [] := by rw [g4, f4]; rfl
  have htail : a2.tail = none := by rw [g5, f5]; rfl
  have htla : a2.tailAtomic = false := by rw [g6, f6]; rfl
  have hcode : isCode a2 = false := by
    simp only [isCode, htag]; decide
  refine ⟨a2, hn, ?_, htail, hcode, ?_⟩
  · rw [Node.forall_iff]
    refine ⟨⟨by rw [htag]; show NoCtl "a".toList; decide, hattrs, htla, by rw [htail]; exact strC_none k, ?_⟩,
      by rw [hkids]; intro c hc; cases hc⟩
    rw [if_neg (by rw [hcode]; decide)]
    exact ⟨hta, by rw [htext]; exact labelStr_strB hlab k⟩
  · rw [Node.forall_iff]
    refine ⟨⟨fun _ => by rw [htext]; exact hq.infix (strip_infix g), by rw [htail]; exact qw_nil wl⟩,
      by rw [hkids]; intro c hc; cases hc⟩

theorem entry_wikilink {xc : XCfg} {pi : Nat} (hpi : 1 ≤ pi) : EntrySpecXB true xc pi .wikilink := by
  intro data si x fo x' _ hd hq h
  have hdone : BtDone data := (btInv_succ hpi).1 hd.bt
  simp only [findX] at h
  split at h
  · simp only [Option.some.injEq, Prod.mk.injEq] at h
    obtain ⟨rfl, rfl⟩ := h
    exact ⟨rfl, rfl, fun f hf => (by cases hf), fun _ => hdone⟩
  · cases hf : wikiScan (data.drop si) si with
    | none =>
      simp only [hf, Option.some.injEq, Prod.mk.injEq] at h
      obtain ⟨rfl, rfl⟩ := h
      exact ⟨rfl, rfl, fun f hf => (by cases hf), fun _ => hdone⟩
    | some r =>
      obtain ⟨g, s, e⟩ := r
      simp only [hf, Option.some.injEq, Prod.mk.injEq] at h
      obtain ⟨rfl, rfl⟩ := h
      refine ⟨rfl, rfl, ?_, fun h0 => by cases h0⟩
      intro f hfo
      cases hfo
      obtain ⟨pre, post, hsuf, rfl, rfl, hgne, hgc⟩ := wikiScan_spec _ _ _ _ _ hf
      have hMne : ('[' :: '[' :: g) ++ [']', ']'] ≠ [] := by simp
      have hsp := spliceC_of_span (M := ('[' :: '[' :: g) ++ [']', ']']) hpi hd hsuf hMne
        (by intro c hc; simp at hc; subst hc; decide)
        (by intro c hc
            rw [show ('[' :: '[' :: g) ++ [']', ']'] = (('[' :: '[' :: g) ++ [']']) ++ [']'] by simp,
              List.getLast?_concat] at hc
            cases hc; decide)
        (by rw [List.cons_append]; exact breaks_of_head (by decide) _)
      obtain ⟨-, -, -, hdata⟩ := span_of_suffix hsuf hMne
      have hginf : g <:+: data := by
        refine ⟨(data.take si ++ pre) ++ ['[', '['], [']', ']'] ++ post, ?_⟩
        conv => rhs; rw [hdata]
        simp
      -- the label does not start with a blank
      obtain ⟨c0, g', rfl⟩ : ∃ c0 g', g = c0 :: g' := by
        cases g with
        | nil => exact absurd rfl hgne
        | cons a b => exact ⟨a, b, rfl⟩
      have hc0 : c0 ≠ ' ' := by
        rintro rfl
        have := hq rfl
        rw [noPair_iff] at this
        refine this ((data.take si ++ pre) ++ ['[']) (g' ++ [']', ']'] ++ post) ?_
        conv => lhs; rw [hdata]
        simp
      have hns : strip (c0 :: g') ≠ [] := by
        intro he
        have := (strip_eq_nil_iff _).1 he
        simp only [isBlank, List.all_cons, Bool.and_eq_true] at this
        rw [wk_wikiChar_not_space (hgc c0 (by simp)) hc0] at this
        exact absurd this.1 (by decide)
      obtain ⟨n, hn, n1, n2, n3, n4⟩ := wikiNode_ok hgc hns x.st.stash.length true (hq.infix hginf)
      have elen : ((si + pre.length + ((c0 :: g').length + 4) : Nat) : Int) =
          ((si + pre.length + (('[' :: '[' :: c0 :: g') ++ [']', ']']).length : Nat) : Int) := by
        simp; omega
      constructor
      · unfold FoundOKC
        simp only [hn]
        refine ⟨?_, n1, n2, fun h0 => by omega⟩
        rw [elen]; exact hsp
      · unfold FoundQ
        simp only [hn]
        exact n4

/-! ### footnote references -/

theorem qw_of_no_bracket {wl : Bool} {s : Str} (h : '[' ∉ s) : Qw wl s := fun _ => noPair_of_not_mem_left h

theorem digits_strB {s : Str} (h : ∀ c ∈ s, isAsciiDigit c = true) (k : Nat) :
    StrC k (some s) ∧ NoCtl s ∧ '[' ∉ s := by
  have key : ∀ d : Char, isAsciiDigit d = false → d ∉ s := by
    intro d hd hm
    rw [h d hm] at hd; cases hd
  have hn : NoCtl s := noCtl_iff.2 fun c hc =>
    ⟨by rintro rfl; exact key NoCtl.STX (by decide) hc, by rintro rfl; exact key NoCtl.ETX (by decide) hc⟩
  refine ⟨⟨WF.of_noCtl hn, fun c hc => ?_, adjC_of_no_bracket (noAdj_of_no_backtick (key _ (by decide)))
    (key _ (by decide)) (key _ (by decide)), btDone_of_no_backtick (key _ (by decide))⟩, hn, key _ (by decide)⟩
  simp only [domCharB, Bool.and_eq_true, bne_iff_ne, ne_eq]
  exact ⟨by rintro rfl; exact key '<' (by decide) hc, by rintro rfl; exact key '&' (by decide) hc⟩

theorem splitFirst_spec {c : Char} : ∀ {s a b : Str}, Footnotes.splitFirst c s = some (a, b) → s = a ++ c :: b := by
  intro s
  induction s with
  | nil => intro a b h; simp [Footnotes.splitFirst] at h
  | cons x r ih =>
    intro a b h
    simp only [Footnotes.splitFirst] at h
    split at h
    · rename_i hx
      simp only [Option.some.injEq, Prod.mk.injEq] at h
      obtain ⟨rfl, rfl⟩ := h
      simp [hx]
    · cases hs : Footnotes.splitFirst c r with
      | none => simp [hs] at h
      | some p =>
        obtain ⟨a', b'⟩ := p
        simp only [hs, Option.map_some, Option.some.injEq, Prod.mk.injEq] at h
        obtain ⟨rfl, rfl⟩ := h
        rw [ih hs]; simp

theorem noCtl_natToDec (n : Nat) : NoCtl (natToDec n) := (digits_strB (natToDec_digits n) 0).2.1

theorem noCtl_bumpRef {r : Str} (h : NoCtl r) : NoCtl (Footnotes.bumpRef r) := by
  unfold Footnotes.bumpRef
  cases hs : Footnotes.splitFirst ':' r with
  | none => exact h
  | some p =>
    obtain ⟨ref, rest⟩ := p
    have hr := splitFirst_spec hs
    rw [hr] at h
    obtain ⟨h1, h2⟩ := noCtl_append.1 h
    have h3 : NoCtl rest := (noCtl_cons.1 h2).2
    simp only
    cases hm : Footnotes.refIdMatch ref with
    | none =>
      simp only
      exact noCtl_append.2 ⟨noCtl_append.2 ⟨h1, noCtl_natToDec _⟩, noCtl_cons.2 ⟨by decide, h3⟩⟩
    | some q =>
      obtain ⟨g1, g2⟩ := q
      simp only
      have hg1 : g1 = Footnotes.fnref := by
        unfold Footnotes.refIdMatch at hm
        split at hm
        · split at hm
          · cases hm
          · simp only [Option.some.injEq, Prod.mk.injEq] at hm
            exact hm.1.symm
        · cases hm
      subst hg1
      exact noCtl_append.2 ⟨noCtl_append.2 ⟨by decide, noCtl_natToDec _⟩, noCtl_cons.2 ⟨by decide, h3⟩⟩

theorem noCtl_uniqueRefLoop (used : List Str) : ∀ (fuel : Nat) (r : Str), NoCtl r →
    NoCtl (Footnotes.uniqueRefLoop fuel r used) := by
  intro fuel
  induction fuel with
  | zero => intro r h; exact h
  | succ f ih =>
    intro r h
    simp only [Footnotes.uniqueRefLoop]
    split
    · exact ih _ (noCtl_bumpRef h)
    · exact h

theorem noCtl_footnoteRefId {id : Str} (h : NoCtl id) (st : Footnotes.State) :
    NoCtl (Footnotes.footnoteRefId id true st).1 := by
  simp only [Footnotes.footnoteRefId, Footnotes.uniqueRef, if_true]
  exact noCtl_uniqueRefLoop _ _ _ (noCtl_append.2 ⟨by decide, noCtl_cons.2 ⟨by decide, h⟩⟩)

theorem fnRefAt_spec {suf id : Str} {len : Nat} (h : fnRefAt suf = some (id, len)) :
    ∃ post, suf = ('[' :: '^' :: id) ++ [']'] ++ post ∧ len = id.length + 3 := by
  unfold fnRefAt at h
  split at h
  · rename_i r
    simp only at h
    split at h
    · rename_i hc
      simp only [beq_iff_eq] at hc
      simp only [Option.some.injEq, Prod.mk.injEq] at h
      obtain ⟨rfl, rfl⟩ := h
      have hlt : spanLen (fun c => c != ']') r < r.length := by
        rcases Nat.lt_or_ge (spanLen (fun c => c != ']') r) r.length with h | h
        · exact h
        · rw [List.getElem?_eq_none h] at hc; cases hc
      have e1 : r[spanLen (fun c => c != ']') r] = ']' := by
        rw [List.getElem?_eq_getElem hlt] at hc; exact Option.some.inj hc
      refine ⟨r.drop (spanLen (fun c => c != ']') r + 1), ?_, ?_⟩
      · have hr : r = r.take (spanLen (fun c => c != ']') r) ++ ']' :: r.drop (spanLen (fun c => c != ']') r + 1) := by
          conv => lhs; rw [← List.take_append_drop (spanLen (fun c => c != ']') r) r]
          rw [List.drop_eq_getElem_cons hlt, e1]
        conv => lhs; rw [hr]
        simp
      · simp only [List.length_take]
        have := spanLen_le (fun c => c != ']') r
        omega
    · cases h
  · cases h

theorem fnRefScan_spec (keys : List Str) : ∀ (suf : Str) (k i : Nat) (id : Str) (s e : Nat),
    fnRefScan keys k suf i = some (id, s, e) →
    ∃ pre post, suf = pre ++ (('[' :: '^' :: id) ++ [']']) ++ post ∧ s = i + pre.length ∧
      e = s + (id.length + 3) ∧ keys.contains id = true := by
  intro suf
  induction suf with
  | nil => intro k i id s e h; cases k <;> simp [fnRefScan] at h
  | cons c r ih =>
    intro k i id s e h
    have step : ∀ k', fnRefScan keys k' r (i + 1) = some (id, s, e) →
        ∃ pre post, c :: r = pre ++ (('[' :: '^' :: id) ++ [']']) ++ post ∧ s = i + pre.length ∧
          e = s + (id.length + 3) ∧ keys.contains id = true := by
      intro k' h'
      obtain ⟨pre, post, h1, h2, h3, h4⟩ := ih _ _ _ _ _ h'
      exact ⟨c :: pre, post, by rw [h1]; simp, by rw [h2]; simp; omega, h3, h4⟩
    cases k with
    | succ k => simp only [fnRefScan] at h; exact step _ h
    | zero =>
      simp only [fnRefScan] at h
      cases ha : fnRefAt (c :: r) with
      | none => simp only [ha] at h; exact step _ h
      | some p =>
        obtain ⟨id', len⟩ := p
        simp only [ha] at h
        split at h
        · rename_i hk
          simp only [Option.some.injEq, Prod.mk.injEq] at h
          obtain ⟨rfl, rfl, rfl⟩ := h
          obtain ⟨post, h1, h2⟩ := fnRefAt_spec ha
          exact ⟨[], post, by rw [h1]; simp, by simp, by rw [h2], hk⟩
        · exact step _ h

/-- an `a` element with a good text and two harmless attributes -/
theorem aNode2_ok {t k1 v1 k2 v2 : Str} (hk1 : NoCtl k1) (hv1 : NoCtl v1) (hk2 : NoCtl k2) (hv2 : NoCtl v2) (k : Nat)
    (ht : StrC k (some t)) (wl : Bool) (hq : Qw wl t) :
    let a : Node := (({ mkEl "a" with text := some t } : Node).setAttr k1 v1).setAttr k2 v2
    a.Forall (SNodeC k) ∧ a.tail = none ∧ isCode a = false ∧ a.Forall (QN wl) := by
  intro a
  obtain ⟨f1, f2, f3, f4, f5, f6⟩ := setAttr_frame ({ mkEl "a" with text := some t } : Node) k1 v1
  obtain ⟨g1, g2, g3, g4, g5, g6⟩ := setAttr_frame (({ mkEl "a" with text := some t } : Node).setAttr k1 v1) k2 v2
  have hattrs : attrsNoCtl a.attrs :=
    attrsNoCtl_setAttr (attrsNoCtl_setAttr (n := { mkEl "a" with text := some t })
      (by intro kv hkv; simp [mkEl] at hkv) hk1 hv1) hk2 hv2
  have htag : a.tag = .name "a".toList := by rw [g1, f1]; rfl
  have htext : a.text = some t := by rw [g2, f2]
  have hta : a.textAtomic = false := by rw [g3, f3]; rfl
  have hkids : a.children = [] := by rw [g4, f4]; rfl
  have htail : a.tail = none := by rw [g5, f5]; rfl
  have htla : a.tailAtomic = false := by rw [g6, f6]; rfl
  have hcode : isCode a = false := by
    simp only [isCode, htag]; decide
  refine ⟨?_, htail, hcode, ?_⟩
  · rw [Node.forall_iff]
    refine ⟨⟨by rw [htag]; show NoCtl "a".toList; decide, hattrs, htla, by rw [htail]; exact strC_none k, ?_⟩,
      by rw [hkids]; intro c hc; cases hc⟩
    rw [if_neg (by rw [hcode]; decide)]
    exact ⟨hta, by rw [htext]; exact ht⟩
  · rw [Node.forall_iff]
    refine ⟨⟨fun _ => by rw [htext]; exact hq, by rw [htail]; exact qw_nil wl⟩,
      by rw [hkids]; intro c hc; cases hc⟩

/-- the `sup` element of a footnote reference -/
theorem fnRefNode_ok (keys : List Str) {id refId : Str} (hid : NoCtl id) (hr : NoCtl refId) (k : Nat) (wl : Bool) :
    (fnRefNode keys id refId).Forall (SNodeC k) ∧ (fnRefNode keys id refId).tail = none ∧
      (fnRefNode keys id refId).Forall (QN wl) := by
  obtain ⟨d1, d2, d3⟩ := digits_strB (natToDec_digits (indexOf keys id + 1)) k
  have hhref : NoCtl ('#' :: Footnotes.footnoteId id) := by
    simp only [Footnotes.footnoteId]
    exact noCtl_cons.2 ⟨by decide, noCtl_cons.2 ⟨by decide, noCtl_cons.2 ⟨by decide, noCtl_cons.2 ⟨by decide, hid⟩⟩⟩⟩
  obtain ⟨a1, a2, a3, a4⟩ := aNode2_ok (t := natToDec (indexOf keys id + 1)) (k1 := "href".toList)
    (v1 := '#' :: Footnotes.footnoteId id) (k2 := "class".toList) (v2 := "footnote-ref".toList)
    (by decide) hhref (by decide) (by decide) k d1 wl (qw_of_no_bracket d3)
  obtain ⟨f1, f2, f3, f4, f5, f6⟩ := setAttr_frame (mkEl "sup") "id".toList refId
  have hattrs : attrsNoCtl ((mkEl "sup").setAttr "id".toList refId).attrs :=
    attrsNoCtl_setAttr (n := mkEl "sup") (by intro kv hkv; simp [mkEl] at hkv) (by decide) hr
  unfold fnRefNode
  simp only
  refine ⟨?_, by show ((mkEl "sup").setAttr "id".toList refId).tail = none; rw [f5]; rfl, ?_⟩
  · rw [Node.forall_iff]
    refine ⟨⟨by show tagNoCtl ((mkEl "sup").setAttr "id".toList refId).tag; rw [f1]; show NoCtl "sup".toList; decide,
      hattrs, by show ((mkEl "sup").setAttr "id".toList refId).tailAtomic = false; rw [f6]; rfl,
      by show StrC k ((mkEl "sup").setAttr "id".toList refId).tail; rw [f5]; exact strC_none k, ?_⟩, ?_⟩
    · have hc : ∀ l : List Node,
          ¬ isCode ({ (mkEl "sup").setAttr "id".toList refId with children := l } : Node) = true := by
        intro l
        show ¬ (((mkEl "sup").setAttr "id".toList refId).tag == Tag.name "code".toList) = true
        rw [f1]; decide
      rw [if_neg (hc _)]
      exact ⟨by show ((mkEl "sup").setAttr "id".toList refId).textAtomic = false; rw [f3]; rfl,
        by show StrC k ((mkEl "sup").setAttr "id".toList refId).text; rw [f2]; exact strC_none k⟩
    · intro c hc
      simp only [List.mem_singleton] at hc
      subst hc
      exact a1
  · rw [Node.forall_iff]
    refine ⟨⟨fun _ => ?_, ?_⟩, ?_⟩
    · show Qw wl (((mkEl "sup").setAttr "id".toList refId).text.getD [])
      rw [f2]; exact qw_nil wl
    · show Qw wl (((mkEl "sup").setAttr "id".toList refId).tail.getD [])
      rw [f5]; exact qw_nil wl
    · intro c hc
      simp only [List.mem_singleton] at hc
      subst hc
      exact a4

theorem entry_footnote {wl : Bool} {xc : XCfg} (hkeys : ∀ k ∈ xc.fnKeys, NoCtl k) {pi : Nat} (hpi : 1 ≤ pi) :
    EntrySpecXB wl xc pi .footnote := by
  intro data si x fo x' _ hd hq h
  have hdone : BtDone data := (btInv_succ hpi).1 hd.bt
  simp only [findX] at h
  split at h
  · simp only [Option.some.injEq, Prod.mk.injEq] at h
    obtain ⟨rfl, rfl⟩ := h
    exact ⟨rfl, rfl, fun f hf => (by cases hf), fun _ => hdone⟩
  · cases hf : fnRefScan xc.fnKeys 0 (data.drop si) si with
    | none =>
      simp only [hf, Option.some.injEq, Prod.mk.injEq] at h
      obtain ⟨rfl, rfl⟩ := h
      exact ⟨rfl, rfl, fun f hf => (by cases hf), fun _ => hdone⟩
    | some r =>
      obtain ⟨id, s, e⟩ := r
      simp only [hf, Option.some.injEq, Prod.mk.injEq] at h
      obtain ⟨rfl, rfl⟩ := h
      refine ⟨rfl, rfl, ?_, fun h0 => by cases h0⟩
      intro f hfo
      cases hfo
      obtain ⟨pre, post, hsuf, rfl, rfl, hk⟩ := fnRefScan_spec _ _ _ _ _ _ _ hf
      have hid : NoCtl id := hkeys id (by simpa using hk)
      have hMne : ('[' :: '^' :: id) ++ [']'] ≠ [] := by simp
      have hsp := spliceC_of_span (M := ('[' :: '^' :: id) ++ [']']) hpi hd hsuf hMne
        (by intro c hc; simp at hc; subst hc; decide)
        (by intro c hc; rw [List.getLast?_concat] at hc; cases hc; decide)
        (by rw [List.cons_append]; exact breaks_of_head (by decide) _)
      obtain ⟨n1, n2, n3⟩ := fnRefNode_ok xc.fnKeys hid (noCtl_footnoteRefId hid x.fn) x.st.stash.length wl
      have elen : ((si + pre.length + (id.length + 3) : Nat) : Int) =
          ((si + pre.length + (('[' :: '^' :: id) ++ [']']).length : Nat) : Int) := by
        simp; omega
      constructor
      · unfold FoundOKC
        simp only
        refine ⟨?_, n1, n2, fun h0 => by omega⟩
        rw [elen]; exact hsp
      · exact n3

/-! ### tables -/

/-- the first entry is the backtick pattern, the other core entries are core patterns 1 … 15 -/
def tableOK : List PatK → Bool
  | [] => false
  | k :: r => k == .core 0 && r.all (fun k => match k with | .core i => 1 ≤ i && i < 16 | _ => true)

theorem tableOK_get {t : List PatK} (h : tableOK t = true) {pi : Nat} {k : PatK} (hk : t[pi]? = some k) :
    match k with
    | .core i => i < patternCount ∧ (pi = 0 ↔ i = 0)
    | _ => 1 ≤ pi := by
  cases t with
  | nil => simp [tableOK] at h
  | cons k0 r =>
    simp only [tableOK, Bool.and_eq_true, beq_iff_eq, List.all_eq_true] at h
    obtain ⟨rfl, hr⟩ := h
    cases pi with
    | zero =>
      simp only [List.getElem?_cons_zero, Option.some.injEq] at hk
      subst hk
      exact ⟨by decide, by simp⟩
    | succ p =>
      simp only [List.getElem?_cons_succ] at hk
      have := hr k (List.mem_of_getElem? hk)
      cases k with
      | core i =>
        simp only [Bool.and_eq_true, decide_eq_true_eq] at this
        exact ⟨by unfold patternCount; omega, by constructor <;> intro h0 <;> omega⟩
      | footnote => exact Nat.succ_le_succ (Nat.zero_le _)
      | wikilink => exact Nat.succ_le_succ (Nat.zero_le _)
      | nl => exact Nat.succ_le_succ (Nat.zero_le _)

theorem tableOK_table (fn wl nl : Bool) : tableOK (table fn wl nl) = true := by
  cases fn <;> cases wl <;> cases nl <;> decide

theorem table_length_pos (fn wl nl : Bool) : 1 ≤ (table fn wl nl).length := by
  cases fn <;> cases wl <;> cases nl <;> decide

/-- the contract of the matchers for a table of core patterns, the nl2br pattern and — when `wl` — the wikilink
    pattern -/
theorem fmSpecXB_inline {wl : Bool} {xc : XCfg} (hcfg : EscOK xc.cfg.esc) (hrefs : RefsOK xc.cfg)
    (ht : tableOK xc.table = true) (hk : ∀ k ∈ xc.table, k ≠ .footnote ∧ (k = .wikilink → wl = true)) :
    FMSpecXB wl xc := by
  apply fmSpecXB_of_entries
  intro pi k hpk
  have hg := tableOK_get ht hpk
  have hm := hk k (List.mem_of_getElem? hpk)
  cases k with
  | core i => exact entry_core hcfg hrefs hg.1 hg.2
  | footnote => exact absurd rfl hm.1
  | wikilink =>
    have := hm.2 rfl
    subst this
    exact entry_wikilink hg
  | nl => exact entry_nl hg

/-- the contract of the matchers for any of the tables `InlineX.table …` -/
theorem fmSpecXB_tables {wl : Bool} {xc : XCfg} (hcfg : EscOK xc.cfg.esc) (hrefs : RefsOK xc.cfg)
    (hkeys : ∀ k ∈ xc.fnKeys, NoCtl k) (ht : tableOK xc.table = true)
    (hk : ∀ k ∈ xc.table, k = .wikilink → wl = true) : FMSpecXB wl xc := by
  apply fmSpecXB_of_entries
  intro pi k hpk
  have hg := tableOK_get ht hpk
  have hm := hk k (List.mem_of_getElem? hpk)
  cases k with
  | core i => exact entry_core hcfg hrefs hg.1 hg.2
  | footnote => exact entry_footnote hkeys hg
  | wikilink =>
    have := hm rfl
    subst this
    exact entry_wikilink hg
  | nl => exact entry_nl hg

theorem table_wl_mem (fn wl nl : Bool) : ∀ k ∈ table fn wl nl, k = .wikilink → wl = true := by
  cases fn <;> cases wl <;> cases nl <;> decide

/-- `HISpecXB` for all eight tables; the footnote keys (the ids of the footnote definitions, which the block parser
    cuts out of the normalised source) have no STX/ETX -/
theorem hiSpecXB_tables {xc : XCfg} (hcfg : EscOK xc.cfg.esc) (hrefs : RefsOK xc.cfg)
    (hkeys : ∀ k ∈ xc.fnKeys, NoCtl k) {fn wl nl : Bool} (ht : xc.table = table fn wl nl) : HISpecXB wl xc :=
  hiSpecXB_of_fmSpecXB
    (fmSpecXB_tables hcfg hrefs hkeys (by rw [ht]; exact tableOK_table _ _ _) (by rw [ht]; exact table_wl_mem fn wl nl))
    (by rw [ht]; exact table_length_pos _ _ _)

theorem table_inline_mem (wl nl : Bool) :
    ∀ k ∈ table false wl nl, k ≠ .footnote ∧ (k = .wikilink → wl = true) := by
  cases wl <;> cases nl <;> decide

/-- `HISpecXB` for the tables with nl2br and wikilinks on or off (no footnote pattern) -/
theorem hiSpecXB_inline {xc : XCfg} (hcfg : EscOK xc.cfg.esc) (hrefs : RefsOK xc.cfg) {wl nl : Bool}
    (ht : xc.table = table false wl nl) : HISpecXB wl xc :=
  hiSpecXB_of_fmSpecXB
    (fmSpecXB_inline hcfg hrefs (by rw [ht]; exact tableOK_table _ _ _) (by rw [ht]; exact table_inline_mem wl nl))
    (by rw [ht]; exact table_length_pos _ _ _)

end MdVerif.NoCtlXC
