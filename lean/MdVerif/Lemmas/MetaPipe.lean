/-
Lemmas about `PipelineM.convertM` (`Model/PipelineM.lean`): with the flag off it is `convertX`; the normalisation of
`clean header lines ++ "\n" ++ body`; the meta step on such a text; a first line that is no meta data.
Core Lean only.
-/
import MdVerif.Model.PipelineM
import MdVerif.Lemmas.MetaRun
import MdVerif.Lemmas.Normalize

namespace MdVerif.MetaPipe
open Py Pipeline PipelineX PipelineM Normalize Meta MetaSpec MetaRun

/-! ### a visible character survives the normalisation -/

theorem mem_nlAux_of_mem {c : Char} (h1 : c ≠ '\r') (h2 : c ≠ '\n') {s : Str} (b : Bool) (h : c ∈ s) : c ∈ nlAux b s := by
  induction s generalizing b with
  | nil => simp at h
  | cons d s ih =>
    rcases List.mem_cons.1 h with e | e
    · subst e; simp [nlAux, h1, h2]
    · by_cases g1 : d = '\r'
      · simp [nlAux, g1, ih true e]
      · by_cases g2 : d = '\n'
        · cases b <;> simp [nlAux, g2, ih false e]
        · simp [nlAux, g1, g2, ih false e]

theorem mem_expandtabsAux_of_mem {c : Char} (h1 : c ≠ '\t') {s : Str} (tab n : Nat) (h : c ∈ s) :
    c ∈ expandtabsAux tab n s := by
  induction s generalizing n with
  | nil => simp at h
  | cons d s ih =>
    rcases List.mem_cons.1 h with e | e
    · subst e
      simp only [expandtabsAux, h1, if_false]
      split <;> exact List.mem_cons_self
    · by_cases g1 : d = '\t'
      · by_cases ht : tab > 0
        · simp only [expandtabsAux, g1, ht, if_true]; exact List.mem_append_right _ (ih _ e)
        · simp only [expandtabsAux, g1, ht, if_true, if_false]; exact ih _ e
      · simp only [expandtabsAux, g1, if_false]
        split <;> exact List.mem_cons_of_mem _ (ih _ e)

theorem mem_wsLinesAux_of_mem {c : Char} (h1 : c ≠ ' ') {s : Str} (st : Option Nat) (h : c ∈ s) : c ∈ wsLinesAux st s := by
  induction s generalizing st with
  | nil => simp at h
  | cons d s ih =>
    rcases List.mem_cons.1 h with e | e
    · subst e
      cases st with
      | none => by_cases g : c = '\n' <;> simp [wsLinesAux, g]
      | some n => by_cases g : c = '\n' <;> simp [wsLinesAux, h1, g]
    · cases st with
      | none => by_cases g : d = '\n' <;> simp [wsLinesAux, g, ih _ e]
      | some n =>
        by_cases g1 : d = ' '
        · simp [wsLinesAux, g1, ih _ e]
        · by_cases g2 : d = '\n' <;> simp [wsLinesAux, g1, g2, ih _ e]

theorem lt_mem_normalize (tab : Nat) (s : Str) : '<' ∈ normalize tab s ↔ '<' ∈ s := by
  constructor
  · intro h
    rcases (mem_normalize h).1 with e | e | e
    · exact absurd e (by decide)
    · exact absurd e (by decide)
    · exact e
  · intro h
    rw [normalize_eq]
    apply mem_wsLinesAux_of_mem (by decide)
    apply mem_expandtabsAux_of_mem (by decide)
    apply List.mem_append_left
    apply mem_nlAux_of_mem (by decide) (by decide)
    rw [mem_stripCtl]
    exact ⟨h, by decide, by decide⟩

theorem contains_lt_normalize (tab : Nat) (s : Str) : (normalize tab s).contains '<' = s.contains '<' := by
  have := lt_mem_normalize tab s
  by_cases h : '<' ∈ s <;> simp [h, this]

/-! ### `convertM` with the flag off -/

theorem convertX_eq_convertT (x : Exts) (cfg : Cfg) (src : Str) (hb : isBlankDoc src = false) :
    convertX x cfg src = convertT x cfg (normalize cfg.tab src) := by
  simp only [convertX, convertT, contains_lt_normalize, hb, Bool.false_eq_true, if_false, treeX_eq, prepareX_eq]
  rfl

theorem blank_no_lt {src : Str} (hb : isBlankDoc src = true) : src.contains '<' = false := by
  rw [isBlankDoc_eq_all] at hb
  cases h : src.contains '<' with
  | false => rfl
  | true =>
    have hm : '<' ∈ src := by simpa using h
    have := List.all_eq_true.1 hb _ hm
    exact absurd this (by decide)

theorem convertX_blank (x : Exts) (cfg : Cfg) (src : Str) (hb : isBlankDoc src = true) : convertX x cfg src = .ok [] := by
  have h := blank_no_lt hb
  simp only [convertX, h, hb, Exts.unsupported, Bool.false_eq_true, if_false, if_true]

/-- without the `meta` extension `convertM` is `convertX` -/
theorem convertM_off (x : Exts) (cfg : Cfg) (src : Str) : convertM false x cfg src = (convertX x cfg src, []) := by
  cases hb : isBlankDoc src with
  | true => simp [convertM, hb, convertX_blank x cfg src hb]
  | false => simp [convertM, hb, metaStep, convertX_eq_convertT x cfg src hb]

/-- with the `meta` extension: the meta step, then `convertX`'s stages -/
theorem convertM_on (x : Exts) (cfg : Cfg) (src : Str) (hb : isBlankDoc src = false) :
    convertM true x cfg src =
      (convertT x cfg (joinLines (Meta.run (lines (normalize cfg.tab src))).1),
       (Meta.run (lines (normalize cfg.tab src))).2) := by
  simp [convertM, hb, metaStep]

/-! ### a first line that is no meta data -/

/-- the first line of the normalised source (what `MetaPreprocessor.run` looks at first) -/
def firstLine (tab : Nat) (src : Str) : Str := (lines (normalize tab src)).headD []

theorem convertM_inert (x : Exts) (cfg : Cfg) (src : Str) (h : notMetaStart (firstLine cfg.tab src) = true) :
    convertM true x cfg src = (convertX x cfg src, []) := by
  cases hb : isBlankDoc src with
  | true => simp [convertM, hb, convertX_blank x cfg src hb]
  | false =>
    rw [convertM_on x cfg src hb, convertX_eq_convertT x cfg src hb]
    obtain ⟨l, r, hlr⟩ := splitC_eq_cons '\n' (normalize cfg.tab src)
    have hl : lines (normalize cfg.tab src) = l :: r := hlr
    have hfl : firstLine cfg.tab src = l := by simp [firstLine, hl]
    rw [hfl] at h
    rw [hl, run_inert l r h, ← hl, lines_joinLines]

/-! ### the normalisation of clean lines followed by a body -/

/-- a line that the normalisation leaves alone: no STX, ETX, CR, LF, tab, and either empty or not made of blanks only -/
def cleanLine (l : Str) : Bool :=
  l.all (fun c => c != STX && c != ETX && c != '\r' && c != '\n' && c != '\t') && (l.isEmpty || l.any (· != ' '))

theorem cleanLine_spec {l : Str} (h : cleanLine l = true) :
    (∀ c ∈ l, c ≠ STX ∧ c ≠ ETX ∧ c ≠ '\r' ∧ c ≠ '\n' ∧ c ≠ '\t') ∧ (l = [] ∨ l.any (· != ' ') = true) := by
  simp only [cleanLine, Bool.and_eq_true, List.all_eq_true, bne_iff_ne, ne_eq, Bool.or_eq_true, List.isEmpty_iff] at h
  refine ⟨fun c hc => ?_, h.2⟩
  have := h.1 c hc
  exact ⟨this.1.1.1.1, this.1.1.1.2, this.1.1.2, this.1.2, this.2⟩

theorem ws_none_line (z y : Str) (h : '\n' ∉ z) : wsLinesAux none (z ++ '\n' :: y) = z ++ '\n' :: wsLinesAux (some 0) y := by
  induction z with
  | nil => simp [wsLinesAux]
  | cons c z ih =>
    have hc : c ≠ '\n' := fun e => h (e ▸ List.mem_cons_self)
    simp [wsLinesAux, hc, ih (fun hm => h (List.mem_cons_of_mem _ hm))]

theorem ws_some_line (a y : Str) (h1 : '\n' ∉ a) (h2 : a = [] ∨ a.any (· != ' ') = true) :
    wsLinesAux (some 0) (a ++ '\n' :: y) = a ++ '\n' :: wsLinesAux (some 0) y := by
  rcases h2 with h2 | h2
  · subst h2; simp [wsLinesAux]
  · obtain ⟨w, hw, hall⟩ := lstripP_decomp (· = ' ') a
    have hw' : w = List.replicate w.length ' ' := by
      apply List.eq_replicate_iff.2
      exact ⟨rfl, fun c hc => by simpa using List.all_eq_true.1 hall c hc⟩
    cases hr : lstripP (· = ' ') a with
    | nil =>
      exfalso
      rw [hr, List.append_nil] at hw
      obtain ⟨c, hc, hne⟩ := List.any_eq_true.1 h2
      rw [hw] at hc
      have := List.all_eq_true.1 hall c hc
      simp at this hne
      exact hne this
    | cons c z =>
      have hcsp : c ≠ ' ' := by
        have := lstripP_head (p := (· = ' ')) (s := a) (c := c) (by rw [hr]; rfl)
        simpa using this
      rw [hr] at hw
      have hcnl : c ≠ '\n' := fun e => h1 (by rw [hw, e]; simp)
      have hz : '\n' ∉ z := fun hm => h1 (by rw [hw]; simp [hm])
      rw [hw, hw', List.append_assoc, List.cons_append, wsLinesAux_some_visible _ _ _ hcsp hcnl, ws_none_line _ _ hz]
      simp

theorem ws_joinLines (ls : List Str) (hne : ls ≠ []) (h : ∀ l ∈ ls, '\n' ∉ l ∧ (l = [] ∨ l.any (· != ' ') = true))
    (y : Str) :
    wsLinesAux (some 0) (joinLines ls ++ '\n' :: y) = joinLines ls ++ '\n' :: wsLinesAux (some 0) y := by
  induction ls with
  | nil => exact absurd rfl hne
  | cons a r ih =>
    have ha := h a List.mem_cons_self
    cases r with
    | nil =>
      simp only [joinLines, join]
      exact ws_some_line a y ha.1 ha.2
    | cons b r =>
      have ih' := ih (by simp) (fun l hl => h l (List.mem_cons_of_mem _ hl))
      simp only [joinLines, join, List.append_assoc, List.cons_append, List.nil_append] at ih' ⊢
      rw [ws_some_line a _ ha.1 ha.2, ih']

theorem mem_joinLines {c : Char} {ls : List Str} (h : c ∈ joinLines ls) : c = '\n' ∨ ∃ l ∈ ls, c ∈ l := by
  induction ls with
  | nil => simp [joinLines, join] at h
  | cons a r ih =>
    cases r with
    | nil => simp only [joinLines, join] at h; exact Or.inr ⟨a, List.mem_cons_self, h⟩
    | cons b r =>
      simp only [joinLines, join, List.append_assoc, List.mem_append, List.mem_cons, List.not_mem_nil, or_false] at h
      rcases h with h | h | h
      · exact Or.inr ⟨a, List.mem_cons_self, h⟩
      · exact Or.inl h
      · rcases ih h with h | ⟨l, hl, hc⟩
        · exact Or.inl h
        · exact Or.inr ⟨l, List.mem_cons_of_mem _ hl, hc⟩

/-- clean lines in front of a body go through the normalisation unchanged, and the body is normalised on its own -/
theorem normalize_clean_lines (tab : Nat) (ls : List Str) (body : Str) (hne : ls ≠ [])
    (h : ∀ l ∈ ls, cleanLine l = true) :
    normalize tab (joinLines ls ++ '\n' :: body) = joinLines ls ++ '\n' :: normalize tab body := by
  have hchar : ∀ c ∈ joinLines ls, c ≠ STX ∧ c ≠ ETX ∧ c ≠ '\r' ∧ c ≠ '\t' := by
    intro c hc
    rcases mem_joinLines hc with e | ⟨l, hl, hcl⟩
    · subst e; exact ⟨by decide, by decide, by decide, by decide⟩
    · have := (cleanLine_spec (h l hl)).1 c hcl
      exact ⟨this.1, this.2.1, this.2.2.1, this.2.2.2.2⟩
  have hH : ∀ c ∈ joinLines ls ++ ['\n'], c ≠ STX ∧ c ≠ ETX ∧ c ≠ '\r' ∧ c ≠ '\t' := by
    intro c hc
    rcases List.mem_append.1 hc with hc | hc
    · exact hchar c hc
    · have : c = '\n' := by simpa using hc
      subst this; exact ⟨by decide, by decide, by decide, by decide⟩
  have h1 : stripCtl (joinLines ls ++ ['\n']) = joinLines ls ++ ['\n'] := by
    rw [stripCtl_eq_filter, List.filter_eq_self]
    intro c hc; have := hH c hc; simp [notCtl, this.1, this.2.1]
  have h2 : nlAux false (joinLines ls ++ ['\n']) = joinLines ls ++ ['\n'] := nlAux_id _ (fun c hc => (hH c hc).2.2.1)
  have h3 : expandtabsAux tab 0 (joinLines ls) = joinLines ls := expandtabsAux_id _ _ _ (fun c hc => (hchar c hc).2.2.2)
  have hsplit : joinLines ls ++ '\n' :: body = (joinLines ls ++ ['\n']) ++ body := by simp
  rw [normalize_eq, normalize_eq, hsplit, stripCtl_append, h1, nlAux_append, h2, endCR_append_singleton]
  have : (decide ('\n' = '\r')) = false := by decide
  rw [this]
  have hre : joinLines ls ++ ['\n'] ++ nlAux false (stripCtl body) ++ ['\n', '\n'] =
      joinLines ls ++ '\n' :: (nlAux false (stripCtl body) ++ ['\n', '\n']) := by simp
  rw [hre, pipeline_split, h3]
  have hws := ws_joinLines ls hne (fun l hl => by
    have := cleanLine_spec (h l hl)
    exact ⟨fun hm => (this.1 _ hm).2.2.2.1 rfl, this.2⟩) []
  simp only [wsLinesAux] at hws
  have hws' : wsLinesAux (some 0) (joinLines ls ++ ['\n']) = joinLines ls ++ ['\n'] := by
    simpa using hws
  rw [hws']
  simp

/-- the lines of such a text -/
theorem lines_normalize_clean (tab : Nat) (ls : List Str) (body : Str) (hne : ls ≠ [])
    (h : ∀ l ∈ ls, cleanLine l = true) :
    lines (normalize tab (joinLines ls ++ '\n' :: body)) = ls ++ lines (normalize tab body) := by
  rw [normalize_clean_lines tab ls body hne h]
  unfold lines
  rw [splitC_append_sep]
  have := joinLines_lines hne (fun p hp hm => ((cleanLine_spec (h p hp)).1 _ hm).2.2.2.1 rfl)
  unfold lines at this
  rw [this]

/-! ### the lines of a well-formed entry are clean when its characters are -/

/-- no STX, ETX, CR, tab in the entry (line feeds are excluded by `Entry.ok`) -/
def Entry.clean (e : Entry) : Bool :=
  let okc := fun (c : Char) => c != STX && c != ETX && c != '\r' && c != '\t'
  e.raw.all okc && e.conts.all (fun c => c.2.all okc)

theorem keyChar_clean {c : Char} (h : isKeyChar c = true) :
    c ≠ STX ∧ c ≠ ETX ∧ c ≠ '\r' ∧ c ≠ '\n' ∧ c ≠ '\t' ∧ c ≠ ' ' := by
  have key : ∀ n, n < 128 → isKeyChar (Char.ofNat n) = true →
      Char.ofNat n ≠ STX ∧ Char.ofNat n ≠ ETX ∧ Char.ofNat n ≠ '\r' ∧ Char.ofNat n ≠ '\n' ∧ Char.ofNat n ≠ '\t' ∧
      Char.ofNat n ≠ ' ' := by decide
  exact ofAscii (fun c => isKeyChar c = true → c ≠ STX ∧ c ≠ ETX ∧ c ≠ '\r' ∧ c ≠ '\n' ∧ c ≠ '\t' ∧ c ≠ ' ') key c
    (isKeyChar_ascii h) h

theorem entry_lines_clean (e : Entry) (hok : e.ok = true) (hc : Entry.clean e = true) : ∀ l ∈ e.lines, cleanLine l = true := by
  simp only [Entry.ok, Bool.and_eq_true, decide_eq_true_eq, Bool.not_eq_true', List.contains_eq_mem,
    decide_eq_false_iff_not] at hok
  obtain ⟨⟨⟨⟨_, h2⟩, h3⟩, h5⟩, h6⟩ := hok
  simp only [Entry.clean, Bool.and_eq_true, List.all_eq_true, bne_iff_ne, ne_eq] at hc
  obtain ⟨c1, c2⟩ := hc
  intro l hl
  simp only [Entry.lines, List.mem_cons, List.mem_map] at hl
  rcases hl with rfl | ⟨c, hcm, rfl⟩
  · -- the keyword line
    cases hk : e.key with
    | nil => simp [hk] at h2
    | cons k ks =>
      have hk1 : isKeyChar k = true := List.all_eq_true.1 h3 k (by rw [hk]; exact List.mem_cons_self)
      simp only [cleanLine, Bool.and_eq_true, List.all_eq_true, bne_iff_ne, ne_eq, Bool.or_eq_true, List.any_eq_true]
      refine ⟨?_, Or.inr ⟨k, by simp, (keyChar_clean hk1).2.2.2.2.2⟩⟩
      intro c hc
      simp only [List.append_assoc, List.mem_append, List.mem_replicate, List.mem_cons] at hc
      rcases hc with ⟨_, rfl⟩ | hc | rfl | hc
      · decide
      · have := keyChar_clean (List.all_eq_true.1 h3 c (by rw [hk]; exact List.mem_cons.2 hc))
        exact ⟨⟨⟨⟨this.1, this.2.1⟩, this.2.2.1⟩, this.2.2.2.1⟩, this.2.2.2.2.1⟩
      · decide
      · have := c1 c hc
        exact ⟨⟨⟨⟨this.1.1.1, this.1.1.2⟩, this.1.2⟩, fun e => h5 (e ▸ hc)⟩, this.2⟩
  · -- an additional line
    have h6' := List.all_eq_true.1 h6 c hcm
    simp only [Bool.and_eq_true, decide_eq_true_eq, Bool.not_eq_true', decide_eq_false_iff_not] at h6'
    obtain ⟨⟨_, g2⟩, g3⟩ := h6'
    have hnb : ∃ d ∈ c.2, isSpace d = false := by
      have : ¬ (isBlank c.2 = true) := by simp [g3]
      rw [isBlank_iff] at this
      simpa using this
    obtain ⟨d, hd, hds⟩ := hnb
    simp only [contLine, cleanLine, Bool.and_eq_true, List.all_eq_true, bne_iff_ne, ne_eq, Bool.or_eq_true,
      List.any_eq_true]
    refine ⟨?_, Or.inr ⟨d, by simp [hd], fun e => by subst e; exact absurd hds (by decide)⟩⟩
    intro x hx
    simp only [List.mem_append, List.mem_replicate] at hx
    rcases hx with ⟨_, rfl⟩ | hx
    · decide
    · have := c2 c hcm x hx
      exact ⟨⟨⟨⟨this.1.1.1, this.1.1.2⟩, this.1.2⟩, fun e => g2 (e ▸ hx)⟩, this.2⟩

/-! ### the first line of a source, seen through the normalisation -/

/-- the first line of the source text -/
def srcFirstLine (src : Str) : Str := src.takeWhile (· ≠ '\n')

theorem normalize_clean_single (tab : Nat) (l : Str) (h : cleanLine l = true) : normalize tab l = l ++ ['\n', '\n'] := by
  have hs := cleanLine_spec h
  have h1 : stripCtl l = l := by
    rw [stripCtl_eq_filter, List.filter_eq_self]
    intro c hc; have := hs.1 c hc; simp [notCtl, this.1, this.2.1]
  have h2 : nlAux false l = l := nlAux_id _ (fun c hc => (hs.1 c hc).2.2.1)
  have h3 : expandtabsAux tab 0 l = l := expandtabsAux_id _ _ _ (fun c hc => (hs.1 c hc).2.2.2.2)
  have hre : l ++ ['\n', '\n'] = l ++ '\n' :: ['\n'] := rfl
  rw [normalize_eq, h1, h2, hre, pipeline_split, h3]
  have := ws_some_line l [] (fun hm => (hs.1 _ hm).2.2.2.1 rfl) hs.2
  simp only [wsLinesAux, List.replicate] at this
  rw [this]
  simp [expandtabsAux, wsLinesAux]

theorem firstLine_clean_single (tab : Nat) (l : Str) (h : cleanLine l = true) : firstLine tab l = l := by
  have hnl : '\n' ∉ l := fun hm => ((cleanLine_spec h).1 _ hm).2.2.2.1 rfl
  have hre : l ++ ['\n', '\n'] = l ++ '\n' :: ['\n'] := rfl
  unfold firstLine lines
  rw [normalize_clean_single tab l h, hre, splitC_append_sep_of_no_sep hnl]
  rfl

theorem firstLine_clean (tab : Nat) (l rest : Str) (h : cleanLine l = true) : firstLine tab (l ++ '\n' :: rest) = l := by
  have := lines_normalize_clean tab [l] rest (by simp) (by simpa using h)
  simp only [joinLines, join] at this
  unfold firstLine
  rw [this]; rfl

theorem firstLine_of_src (tab : Nat) (src : Str) (h : cleanLine (srcFirstLine src) = true) :
    firstLine tab src = srcFirstLine src := by
  have hsplit : src = srcFirstLine src ++ src.dropWhile (· ≠ '\n') := (List.takeWhile_append_dropWhile).symm
  cases hd : src.dropWhile (· ≠ '\n') with
  | nil =>
    have : src = srcFirstLine src := by rw [hd, List.append_nil] at hsplit; exact hsplit
    rw [← this] at h ⊢
    rw [firstLine_clean_single tab src h]
  | cons c r =>
    have hc : c = '\n' := by
      have := List.head_dropWhile_not (· ≠ '\n') (l := src) (by rw [hd]; simp)
      simp only [hd, List.head_cons] at this
      simpa using this
    subst hc
    rw [hd] at hsplit
    conv => lhs; rw [hsplit]
    exact firstLine_clean tab _ r h

/-! ### a documented header in front of a body -/

theorem mem_joinLines_of_mem {c : Char} {l : Str} {ls : List Str} (hl : l ∈ ls) (hc : c ∈ l) : c ∈ joinLines ls := by
  induction ls with
  | nil => simp at hl
  | cons a r ih =>
    cases r with
    | nil =>
      have : l = a := by simpa using hl
      subst this; simpa [joinLines, join] using hc
    | cons b r =>
      simp only [joinLines, join, List.append_assoc, List.mem_append]
      rcases List.mem_cons.1 hl with e | e
      · subst e; exact Or.inl hc
      · exact Or.inr (Or.inr (ih e))

/-- the lines of a header: the opening deliminator when there is one, the lines of the entries -/
theorem header_lines_clean (open_ : Option Str) (es : List Entry) (term : Str)
    (ho : ∀ b, open_ = some b → cleanLine b = true) (hes : ∀ e ∈ es, e.ok = true ∧ Entry.clean e = true)
    (ht : cleanLine term = true) : ∀ l ∈ headerLines open_ es ++ [term], cleanLine l = true := by
  intro l hl
  simp only [headerLines, List.mem_append, Option.mem_toList, List.mem_flatMap, List.mem_cons, List.not_mem_nil,
    or_false] at hl
  rcases hl with (hl | ⟨e, he, hl⟩) | rfl
  · exact ho l hl
  · exact entry_lines_clean e (hes e he).1 (hes e he).2 l hl
  · exact ht

theorem header_not_blank (open_ : Option Str) (es : List Entry) (term body : Str) (hne : es ≠ [])
    (hes : ∀ e ∈ es, e.ok = true) :
    isBlankDoc (joinLines (headerLines open_ es ++ [term]) ++ '\n' :: body) = false := by
  cases es with
  | nil => exact absurd rfl hne
  | cons e es' =>
    have hok := hes e List.mem_cons_self
    simp only [Entry.ok, Bool.and_eq_true, decide_eq_true_eq, Bool.not_eq_true'] at hok
    obtain ⟨⟨⟨⟨_, h2⟩, h3⟩, _⟩, _⟩ := hok
    cases hk : e.key with
    | nil => simp [hk] at h2
    | cons k ks =>
      have hk1 : isKeyChar k = true := List.all_eq_true.1 h3 k (by rw [hk]; exact List.mem_cons_self)
      have hmem : k ∈ joinLines (headerLines open_ (e :: es') ++ [term]) ++ '\n' :: body := by
        apply List.mem_append_left
        apply mem_joinLines_of_mem (l := List.replicate e.indent ' ' ++ e.key ++ ':' :: e.raw)
        · simp [headerLines, Entry.lines]
        · simp [hk]
      cases hb : isBlankDoc (joinLines (headerLines open_ (e :: es') ++ [term]) ++ '\n' :: body) with
      | false => rfl
      | true =>
        rw [isBlankDoc_eq_all] at hb
        have := List.all_eq_true.1 hb k hmem
        rw [(keyChar_facts hk1).1] at this
        exact absurd this (by decide)

/-- `convert` with `meta` on a documented header, a terminator line and a body: the body alone goes on, `md.Meta` is the
    documented dictionary -/
theorem convertM_header (x : Exts) (cfg : Cfg) (open_ : Option Str) (es : List Entry) (term body : Str)
    (ho : ∀ b, open_ = some b → beginMatch b = true ∧ cleanLine b = true) (hne : es ≠ [])
    (hes : ∀ e ∈ es, e.ok = true ∧ Entry.clean e = true)
    (ht : term = [] ∨ (endMatch term = true ∧ cleanLine term = true)) (hb : isBlankDoc body = false) :
    convertM true x cfg (joinLines (headerLines open_ es ++ [term]) ++ '\n' :: body) =
      (convertX x cfg body, specDict es) := by
  have htc : cleanLine term = true := by
    rcases ht with rfl | h
    · rfl
    · exact h.2
  have htt : isBlank term = true ∨ endMatch term = true := by
    rcases ht with rfl | h
    · exact Or.inl rfl
    · exact Or.inr h.1
  have hclean := header_lines_clean open_ es term (fun b hb => (ho b hb).2) hes htc
  rw [convertM_on _ _ _ (header_not_blank open_ es term body hne (fun e he => (hes e he).1)),
    lines_normalize_clean cfg.tab _ body (by simp) hclean, List.append_assoc, List.singleton_append,
    run_header open_ es term _ (fun b hb => (ho b hb).1) hne (fun e he => (hes e he).1) htt,
    lines_joinLines, convertX_eq_convertT x cfg body hb]

end MdVerif.MetaPipe
