/-
Helper lemmas for the AtomicString / htmlStash half of C18 (`Props/C18Stash.lean`).  Core Lean only.

A. `str.replace` as split + join; `Post.ampSub`
B. one pass of the raw-HTML restore (`Post.subPass`) and its iteration (`Post.rawHtml`)
C. placeholders and the serializer's escaping
D. the stages after the block parser on the probe trees
E. `Inline.run` keeps atomic strings (`Probe.Emb`)
-/
import MdVerif.Spec.Probe
import MdVerif.Lemmas.PyBasic
import MdVerif.Lemmas.Serializer

namespace MdVerif.StashAtomic
open Py Probe

/-! ### A. `replace` = `join ∘ split` -/

theorem replaceAux_eq_join_splitAux (pat b : Str) : ∀ (s : Str) (k : Nat),
    replaceAux pat b k s = join b (splitAux pat k s) := by
  intro s
  induction s with
  | nil => intro k; simp
  | cons c s ih =>
    intro k
    cases k with
    | succ k => simp only [replaceAux_succ_cons, splitAux]; exact ih k
    | zero =>
      rw [replaceAux_zero_cons]
      unfold splitAux
      by_cases h : startsWith (c :: s) pat = true
      · rw [if_pos h, if_pos h, join_cons_of_ne_nil _ _ (splitAux_ne_nil _ _ _), ih]; simp
      · rw [if_neg h, if_neg h, ih]
        cases hs : splitAux pat 0 s with
        | nil => exact absurd hs (splitAux_ne_nil _ _ _)
        | cons p ps => simp only; rw [join_cons_head]

/-- `s.replace(pat, b) = b.join(s.split(pat))` -/
theorem replace_eq_join_splitS {pat : Str} (hp : pat ≠ []) (b s : Str) : replace s pat b = join b (splitS pat s) := by
  unfold replace splitS
  have : pat.isEmpty = false := by cases pat <;> simp_all
  rw [this]; exact replaceAux_eq_join_splitAux pat b s 0

/-- a prefix without the first character of the pattern is copied -/
theorem replaceAux_prefix (p : Char) (pat b rest : Str) : ∀ pre : Str, p ∉ pre →
    replaceAux (p :: pat) b 0 (pre ++ rest) = pre ++ replaceAux (p :: pat) b 0 rest := by
  intro pre
  induction pre with
  | nil => intro _; rfl
  | cons c pre ih =>
    intro h
    have hc : c ≠ p := fun e => h (by simp [e])
    have hp : p ∉ pre := fun e => h (by simp [e])
    rw [List.cons_append, replaceAux_zero_cons]
    simp [startsWith, hc, ih hp]

theorem replaceAux_skip (pat b : Str) (a : Str) : ∀ r, replaceAux pat b a.length (a ++ r) = replaceAux pat b 0 r := by
  induction a with
  | nil => intro r; rfl
  | cons c a ih => intro r; simp [ih]

theorem replaceAux_match (p : Char) (pat b rest : Str) :
    replaceAux (p :: pat) b 0 ((p :: pat) ++ rest) = b ++ replaceAux (p :: pat) b 0 rest := by
  rw [List.cons_append, replaceAux_zero_cons]
  have : startsWith (p :: (pat ++ rest)) (p :: pat) = true := by
    simp
  rw [if_pos this]
  simp only [List.length_cons, Nat.add_sub_cancel]
  rw [replaceAux_skip]

/-! ### B. the raw-HTML restore -/

open Post in
/-- the first alternative of the pattern of `RawHtmlPostprocessor.run` at the start of `suf`:
    `<p>` placeholder `</p>` → replacement and length of the match -/
def alt1 (bl : List Str) (stash : List Str) (suf : Str) : Option (Str × Nat) :=
  if startsWith suf pOpen then
    match htmlPhAt (suf.drop 3) with
    | some (digits, l) =>
      if startsWith (suf.drop (3 + l)) pClose then
        let len := 3 + l + 4
        match stashLookup stash digits with
        | some html =>
          if isBlockLevelHtml bl html then some (html, len)
          else some (pOpen ++ html ++ pClose, len)
        | none => some (suf.take len, len)
      else none
    | none => none
  else none

open Post in
theorem subPass_zero_cons (bl : List Str) (stash : List Str) (c : Char) (s : Str) :
    subPass bl stash 0 (c :: s) =
      match alt1 bl stash (c :: s) with
      | some (out, len) => out ++ subPass bl stash (len - 1) s
      | none =>
        match (if c = STX then htmlPhAt (c :: s) else none) with
        | some (digits, l) =>
          match stashLookup stash digits with
          | some html => html ++ subPass bl stash (l - 1) s
          | none => (c :: s).take l ++ subPass bl stash (l - 1) s
        | none => c :: subPass bl stash 0 s := by
  have hc : (c = '<' && startsWith (c :: s) "<p>".toList) = startsWith (c :: s) pOpen := by
    by_cases h : c = '<' <;> simp [h, pOpen]
  conv => lhs; unfold subPass
  simp only [hc]
  rfl

open Post in
theorem subPass_skip (bl : List Str) (stash : List Str) (a : Str) :
    ∀ r, subPass bl stash a.length (a ++ r) = subPass bl stash 0 r := by
  induction a with
  | nil => intro r; rfl
  | cons c a ih => intro r; simp [subPass, ih]

open Post in
theorem htmlPhAt_none_of_head {s : Str} (h : s.head? ≠ some STX) : htmlPhAt s = none := by
  unfold htmlPhAt
  have : startsWith s htmlPrefix = false := by
    cases s with
    | nil => rfl
    | cons c s =>
      have hc : c ≠ STX := fun e => h (by simp [e])
      simp [htmlPrefix, hc]
  simp [this]

open Post in
theorem alt1_none_of_drop3 {bl : List Str} {stash : List Str} {suf : Str} (h : (suf.drop 3).head? ≠ some STX) :
    alt1 bl stash suf = none := by
  unfold alt1
  rw [htmlPhAt_none_of_head h]
  split <;> rfl

open Post in
/-- a prefix in which no match starts is copied -/
theorem subPass_prefix (bl : List Str) (stash : List Str) (rest : Str) : ∀ pre : Str, STX ∉ pre →
    (∀ a b, pre = a ++ b → b ≠ [] → alt1 bl stash (b ++ rest) = none) →
    subPass bl stash 0 (pre ++ rest) = pre ++ subPass bl stash 0 rest := by
  intro pre
  induction pre with
  | nil => intro _ _; rfl
  | cons c pre ih =>
    intro hs h
    have hc : c ≠ STX := fun e => hs (by simp [e])
    have hp : STX ∉ pre := fun e => hs (by simp [e])
    have h0 : alt1 bl stash (c :: (pre ++ rest)) = none := by simpa using h [] (c :: pre) rfl (by simp)
    rw [List.cons_append, subPass_zero_cons, h0]
    simp only [hc, if_false]
    rw [ih hp (fun a b hab hb => h (c :: a) b (by simp [hab]) hb)]
    rfl

/-! #### placeholders -/

open Post in
theorem ph_head (i : Nat) : ∃ t, htmlPlaceholder i = STX :: 'w' :: 'z' :: 'x' :: t := ⟨_, rfl⟩

open Post in
theorem ph_length (i : Nat) : (htmlPlaceholder i).length = htmlPrefixLen + (natToDec i).length + 1 := by
  simp [htmlPlaceholder, htmlPrefix, htmlPrefixLen]; omega

theorem natToDec_all_digit (i : Nat) : (natToDec i).all isAsciiDigit = true := by
  simpa [List.all_eq_true] using natToDec_digits i

open Post in
theorem htmlPhAt_ph (i : Nat) (rest : Str) :
    htmlPhAt (htmlPlaceholder i ++ rest) = some (natToDec i, (htmlPlaceholder i).length) := by
  have hsw : startsWith (htmlPlaceholder i ++ rest) htmlPrefix = true := by
    simp [htmlPlaceholder, List.append_assoc]
  have hd : (htmlPlaceholder i ++ rest).drop htmlPrefixLen = natToDec i ++ ETX :: rest := by
    simp [htmlPlaceholder, htmlPrefix, htmlPrefixLen]
  have hsp : spanLen isAsciiDigit (natToDec i ++ ETX :: rest) = (natToDec i).length := by
    rw [spanLen_append_of_all (natToDec_all_digit i)]
    have : isAsciiDigit ETX = false := by decide
    simp [spanLen_cons, this]
  have hpos := natToDec_length_pos i
  unfold htmlPhAt
  rw [if_pos hsw]
  simp only [hd, hsp, ph_length]
  have h1 : (natToDec i ++ ETX :: rest)[(natToDec i).length]? = some ETX := by simp
  have h2 : (natToDec i ++ ETX :: rest).take (natToDec i).length = natToDec i := by simp
  rw [h1, h2]
  simp [hpos]

open Post in
theorem stashLookup_natToDec (stash : List Str) (i : Nat) : stashLookup stash (natToDec i) = stash[i]? := by
  simp [stashLookup]

open Post in
theorem alt1_wrapped (bl : List Str) (stash : List Str) (i : Nat) (raw post : Str) (hi : stash[i]? = some raw) :
    alt1 bl stash (pOpen ++ (htmlPlaceholder i ++ (pClose ++ post))) =
      some (if isBlockLevelHtml bl raw then raw else pOpen ++ raw ++ pClose, 3 + (htmlPlaceholder i).length + 4) := by
  have h0 : startsWith (pOpen ++ (htmlPlaceholder i ++ (pClose ++ post))) pOpen = true := startsWith_append _ _
  have h1 : (pOpen ++ (htmlPlaceholder i ++ (pClose ++ post))).drop 3 = htmlPlaceholder i ++ (pClose ++ post) := rfl
  have h2 : (pOpen ++ (htmlPlaceholder i ++ (pClose ++ post))).drop (3 + (htmlPlaceholder i).length) = pClose ++ post := by
    rw [← List.drop_drop, h1, List.drop_left]
  unfold alt1
  rw [if_pos h0, h1, htmlPhAt_ph]
  simp only [h2, startsWith_append, if_true, stashLookup_natToDec, hi]
  split <;> rfl

open Post in
/-- no wrapped match starts inside an `STX`-free text that is followed by `<p>` + placeholder -/
theorem alt1_before_wrapped (bl : List Str) (stash : List Str) (b r : Str) (hb : b ≠ []) (hstx : STX ∉ b) :
    alt1 bl stash (b ++ ('<' :: 'p' :: '>' :: STX :: r)) = none := by
  apply alt1_none_of_drop3
  match b, hb, hstx with
  | [c], _, _ => simp; decide
  | [c, c1], _, _ => simp; decide
  | [c, c1, c2], _, _ => simp; decide
  | c :: c1 :: c2 :: c3 :: t, _, hstx => simp at hstx ⊢; exact fun e => hstx.2.2.2.1 e.symm

open Post in
/-- no wrapped match starts inside an `STX`-free text that is followed by a placeholder, unless that text is `<p>`
    and `</p>` follows the placeholder -/
theorem alt1_before_bare (bl : List Str) (stash : List Str) (b : Str) (i : Nat) (post : Str) (hb : b ≠ [])
    (hstx : STX ∉ b) (hw : ¬ (b = pOpen ∧ startsWith post pClose = true)) :
    alt1 bl stash (b ++ (htmlPlaceholder i ++ post)) = none := by
  obtain ⟨t, ht⟩ := ph_head i
  match b, hb, hstx with
  | [c], _, _ => apply alt1_none_of_drop3; rw [ht]; simp; decide
  | [c, c1], _, _ => apply alt1_none_of_drop3; rw [ht]; simp; decide
  | [c, c1, c2], _, _ =>
    unfold alt1
    by_cases hsw : startsWith ([c, c1, c2] ++ (htmlPlaceholder i ++ post)) pOpen = true
    · have hbp : [c, c1, c2] = pOpen := by
        simp [startsWith, pOpen] at hsw; simp [pOpen, hsw]
      have hpost : startsWith post pClose = false := by
        cases h : startsWith post pClose with
        | false => rfl
        | true => exact absurd ⟨hbp, h⟩ hw
      have hd : ([c, c1, c2] ++ (htmlPlaceholder i ++ post)).drop 3 = htmlPlaceholder i ++ post := rfl
      have hd2 : ([c, c1, c2] ++ (htmlPlaceholder i ++ post)).drop (3 + (htmlPlaceholder i).length) = post := by
        rw [← List.drop_drop, hd, List.drop_left]
      rw [if_pos hsw, hd, htmlPhAt_ph]
      simp only [hd2, hpost]
      rfl
    · rw [if_neg hsw]
  | c :: c1 :: c2 :: c3 :: t', _, hstx =>
    apply alt1_none_of_drop3
    simp at hstx ⊢; exact fun e => hstx.2.2.2.1 e.symm

theorem not_mem_of_append_right {pre a b : Str} {x : Char} (h : pre = a ++ b) (hpre : x ∉ pre) : x ∉ b := by
  subst h; exact fun hb => hpre (List.mem_append.mpr (Or.inr hb))

open Post in
/-- one pass, paragraph made of the placeholder alone -/
theorem subPass_wrapped (bl : List Str) (stash : List Str) (i : Nat) (raw pre post : Str)
    (hi : stash[i]? = some raw) (hpre : STX ∉ pre) :
    subPass bl stash 0 (pre ++ (pOpen ++ (htmlPlaceholder i ++ (pClose ++ post)))) =
      pre ++ ((if isBlockLevelHtml bl raw then raw else pOpen ++ raw ++ pClose) ++ subPass bl stash 0 post) := by
  obtain ⟨t, ht⟩ := ph_head i
  rw [subPass_prefix _ _ _ _ hpre]
  · congr 1
    have hm := alt1_wrapped bl stash i raw post hi
    have hc : pOpen ++ (htmlPlaceholder i ++ (pClose ++ post)) =
        '<' :: ("p>".toList ++ (htmlPlaceholder i ++ (pClose ++ post))) := rfl
    rw [hc] at hm ⊢
    rw [subPass_zero_cons, hm]
    simp only
    congr 1
    have hl : 3 + (htmlPlaceholder i).length + 4 - 1 = ("p>".toList ++ htmlPlaceholder i ++ pClose).length := by
      simp [pClose]; omega
    rw [hl]
    have : "p>".toList ++ (htmlPlaceholder i ++ (pClose ++ post)) = ("p>".toList ++ htmlPlaceholder i ++ pClose) ++ post := by
      simp
    rw [this, subPass_skip]
  · intro a b hab hbne
    have : pOpen ++ (htmlPlaceholder i ++ (pClose ++ post)) = '<' :: 'p' :: '>' :: STX :: ('w' :: 'z' :: 'x' :: t ++ (pClose ++ post)) := by
      rw [ht]; rfl
    rw [this]
    exact alt1_before_wrapped bl stash b _ hbne (not_mem_of_append_right hab hpre)

open Post in
/-- one pass, placeholder that does not make up a paragraph of its own -/
theorem subPass_bare (bl : List Str) (stash : List Str) (i : Nat) (raw pre post : Str)
    (hi : stash[i]? = some raw) (hpre : STX ∉ pre)
    (hw : (¬ ∃ pre1, pre = pre1 ++ pOpen) ∨ startsWith post pClose = false) :
    subPass bl stash 0 (pre ++ (htmlPlaceholder i ++ post)) = pre ++ (raw ++ subPass bl stash 0 post) := by
  obtain ⟨t, ht⟩ := ph_head i
  rw [subPass_prefix _ _ _ _ hpre]
  · congr 1
    have ha : alt1 bl stash (htmlPlaceholder i ++ post) = none := by
      apply alt1_none_of_drop3; rw [ht]; simp; decide
    have hc : htmlPlaceholder i ++ post = STX :: ((htmlPlaceholder i).drop 1 ++ post) := by rw [ht]; rfl
    have hl : ((htmlPlaceholder i).drop 1).length = (htmlPlaceholder i).length - 1 := by simp
    rw [hc] at ha
    have hp := htmlPhAt_ph i post
    rw [hc] at hp
    rw [hc, subPass_zero_cons, ha]
    simp only [if_true, hp, stashLookup_natToDec, hi]
    rw [← hl, subPass_skip]
  · intro a b hab hbne
    refine alt1_before_bare bl stash b i post hbne (not_mem_of_append_right hab hpre) ?_
    rintro ⟨hbp, hsw⟩
    rcases hw with hw | hw
    · exact hw ⟨a, by rw [hab, hbp]⟩
    · rw [hw] at hsw; exact Bool.noConfusion hsw

open Post in
theorem subPass_cons_of_ne (bl : List Str) (stash : List Str) (c : Char) (s : Str) (hc : c ≠ STX)
    (hp : startsWith (c :: s) pOpen = false) : subPass bl stash 0 (c :: s) = c :: subPass bl stash 0 s := by
  have : alt1 bl stash (c :: s) = none := by unfold alt1; rw [hp]; rfl
  rw [subPass_zero_cons, this]
  simp [hc]

open Post in
theorem subPass_pClose (bl : List Str) (stash : List Str) (post : Str) :
    subPass bl stash 0 (pClose ++ post) = pClose ++ subPass bl stash 0 post := by
  show subPass bl stash 0 ('<' :: '/' :: 'p' :: '>' :: post) = '<' :: '/' :: 'p' :: '>' :: subPass bl stash 0 post
  rw [subPass_cons_of_ne _ _ _ _ (by decide) (by simp [pOpen]),
      subPass_cons_of_ne _ _ _ _ (by decide) (by simp [pOpen]),
      subPass_cons_of_ne _ _ _ _ (by decide) (by simp [pOpen]),
      subPass_cons_of_ne _ _ _ _ (by decide) (by simp [pOpen])]

open Post in
/-- one pass: a placeholder is replaced in place, unless it makes up a paragraph of its own AND the entry is
    block-level (then the `<p>` wrapper goes as well: `subPass_wrapped`) -/
theorem subPass_inline (bl : List Str) (stash : List Str) (i : Nat) (raw pre post : Str)
    (hi : stash[i]? = some raw) (hpre : STX ∉ pre)
    (hw : (¬ ∃ pre1, pre = pre1 ++ pOpen) ∨ startsWith post pClose = false ∨ isBlockLevelHtml bl raw = false) :
    subPass bl stash 0 (pre ++ (htmlPlaceholder i ++ post)) = pre ++ (raw ++ subPass bl stash 0 post) := by
  by_cases h1 : ∃ pre1, pre = pre1 ++ pOpen
  · by_cases h2 : startsWith post pClose = true
    · have hb : isBlockLevelHtml bl raw = false := by
        rcases hw with hw | hw | hw
        · exact absurd h1 hw
        · rw [h2] at hw; cases hw
        · exact hw
      obtain ⟨pre1, rfl⟩ := h1
      have hpost := startsWith_drop h2
      have hpre1 : STX ∉ pre1 := fun e => hpre (List.mem_append.mpr (Or.inl e))
      rw [hpost, List.append_assoc, subPass_wrapped bl stash i raw pre1 _ hi hpre1, hb, subPass_pClose]
      simp
    · exact subPass_bare bl stash i raw pre post hi hpre (Or.inr (by simpa using h2))
  · exact subPass_bare bl stash i raw pre post hi hpre (Or.inl h1)

theorem contains_false_of_append {a b pat : Str} (h : contains (a ++ b) pat = false) :
    contains a pat = false ∧ contains b pat = false := by
  rw [contains_eq_false_iff] at h ⊢
  rw [contains_eq_false_iff]
  refine ⟨fun p q e => h p (q ++ b) (by rw [e]; simp), fun p q e => h (a ++ p) q (by rw [e]; simp)⟩

theorem startsWith_drop_false_of_not_contains {s pat : Str} (h : contains s pat = false) (k : Nat) :
    startsWith (s.drop k) pat = false := by
  cases hs : startsWith (s.drop k) pat with
  | false => rfl
  | true =>
    rw [contains_eq_false_iff] at h
    have := startsWith_drop hs
    exact absurd (by rw [List.append_assoc, ← this, List.take_append_drop]) (h (s.take k) ((s.drop k).drop pat.length))

open Post in
/-- a text without the placeholder prefix is a fixed point of the pass -/
theorem subPass_fix (bl : List Str) (stash : List Str) : ∀ s : Str, contains s htmlPrefix = false →
    subPass bl stash 0 s = s := by
  intro s
  induction s with
  | nil => intro _; rfl
  | cons c s ih =>
    intro h
    obtain ⟨h1, h2⟩ := contains_cons_eq_false h
    have ha : alt1 bl stash (c :: s) = none := by
      unfold alt1
      have : htmlPhAt ((c :: s).drop 3) = none := by
        unfold htmlPhAt; rw [startsWith_drop_false_of_not_contains h 3]; rfl
      rw [this]; split <;> rfl
    have hb : htmlPhAt (c :: s) = none := by unfold htmlPhAt; rw [h1]; rfl
    rw [subPass_zero_cons, ha, hb]
    simp [ih h2]

open Post in
/-- two passes are enough when the first one produces a text without the placeholder prefix -/
theorem rawHtml_of_fix (bl : List Str) (stash : List Str) (f : Nat) (t t' : Str) (hne : stash ≠ [])
    (h1 : subPass bl stash 0 t = t') (h2 : contains t' htmlPrefix = false) :
    rawHtml bl stash (f + 2) t = some t' := by
  have he : stash.isEmpty = false := by cases stash <;> simp_all
  have h3 := subPass_fix bl stash t' h2
  unfold rawHtml
  simp only [he, Bool.false_eq_true, if_false, h1]
  by_cases e : t' = t
  · rw [if_pos e]
  · rw [if_neg e]
    unfold rawHtml
    simp [he, h3]

/-! #### several placeholders in one text -/

/-- the text with the placeholders -/
def withPh (segs : List (Str × Nat × Str)) (last : Str) : Str :=
  weave (segs.map (fun x => (x.1, htmlPlaceholder x.2.1))) last

/-- the text with the stash entries in their place -/
def withRaw (segs : List (Str × Nat × Str)) (last : Str) : Str :=
  weave (segs.map (fun x => (x.1, x.2.2))) last

open Post in
theorem subPass_weave (bl : List Str) (stash : List Str) (last : Str) : ∀ segs : List (Str × Nat × Str),
    (∀ x ∈ segs, stash[x.2.1]? = some x.2.2 ∧ STX ∉ x.1 ∧
        (endsWith x.1 pOpen = false ∨ isBlockLevelHtml bl x.2.2 = false)) →
    subPass bl stash 0 (withPh segs last) = withRaw segs (subPass bl stash 0 last) := by
  intro segs
  induction segs with
  | nil => intro _; rfl
  | cons x r ih =>
    intro h
    obtain ⟨h1, h2, h3⟩ := h x (by simp)
    have ih' := ih (fun y hy => h y (by simp [hy]))
    have hw : (¬ ∃ pre1, x.1 = pre1 ++ pOpen) ∨ startsWith (withPh r last) pClose = false ∨
        isBlockLevelHtml bl x.2.2 = false := by
      rcases h3 with h3 | h3
      · left; intro he; rw [← endsWith_iff_suffix, h3] at he; cases he
      · right; right; exact h3
    show subPass bl stash 0 (x.1 ++ htmlPlaceholder x.2.1 ++ withPh r last) = x.1 ++ x.2.2 ++ withRaw r _
    rw [List.append_assoc, subPass_inline bl stash x.2.1 x.2.2 x.1 _ h1 h2 hw, ih']
    simp

/-! ### C. placeholders and the serializer's escaping -/

theorem spanLen_append_stop {p : Char → Bool} {x : Char} (hx : p x = false) (r t : Str) :
    spanLen p (r ++ x :: t) = spanLen p r := by
  induction r with
  | nil => simp [spanLen_cons, hx]
  | cons c r ih => simp [spanLen_cons, ih]

open Ser in
theorem runSemi_append_stop {p : Char → Bool} {x : Char} (hx : p x = false) (hx2 : x ≠ ';') (r t : Str) :
    runSemi p (r ++ x :: t) = runSemi p r := by
  unfold runSemi
  simp only [spanLen_append_stop hx]
  have hle := Py.spanLen_le p r
  have : ((r ++ x :: t)[spanLen p r]? == some ';') = (r[spanLen p r]? == some ';') := by
    by_cases h : spanLen p r < r.length
    · rw [List.getElem?_append_left h]
    · have he : spanLen p r = r.length := by omega
      rw [he]
      simp [hx2]
  rw [this]

open Ser in
theorem entLen_append_stx (r t : Str) : entLen (r ++ Post.STX :: t) = entLen r := by
  have d1 : isDig Post.STX = false := by decide
  have d2 : isHexI Post.STX = false := by decide
  have d3 : isAlnumI Post.STX = false := by decide
  have d4 : Post.STX ≠ ';' := by decide
  match r with
  | [] =>
    have e1 : entLen (Post.STX :: t) = runSemi isAlnumI (Post.STX :: t) := by
      unfold entLen; split
      · rename_i h; injection h with h _; exact absurd h (by decide)
      · rfl
    show entLen (Post.STX :: t) = entLen []
    rw [e1]; simp [runSemi, spanLen_cons, d3]; rfl
  | c :: r1 =>
    by_cases hc : c = '#'
    · subst hc
      show entLen ('#' :: (r1 ++ Post.STX :: t)) = entLen ('#' :: r1)
      simp only [entLen, runSemi_append_stop d1 d4]
      cases runSemi isDig r1 with
      | some n => rfl
      | none =>
        simp only
        match r1 with
        | [] => simp; intro h; exact absurd h (by decide)
        | x :: r2 =>
          show (if x = 'x' || x = 'X' then (runSemi isHexI (r2 ++ Post.STX :: t)).map (· + 2) else none) = _
          rw [runSemi_append_stop d2 d4]
    · have e1 : entLen (c :: r1 ++ Post.STX :: t) = runSemi isAlnumI (c :: r1 ++ Post.STX :: t) := by
        show entLen (c :: (r1 ++ Post.STX :: t)) = _
        unfold entLen; split
        · rename_i h; injection h with h _; exact absurd h hc
        · rfl
      have e2 : entLen (c :: r1) = runSemi isAlnumI (c :: r1) := by
        unfold entLen; split
        · rename_i h; injection h with h _; exact absurd h hc
        · rfl
      rw [e1, e2, runSemi_append_stop d3 d4]

open Ser in
/-- an `STX` splits the escaping in two independent parts -/
theorem esc1_stx (q n : Bool) (t : Str) : ∀ pre : Str,
    esc1 q n (pre ++ Post.STX :: t) = esc1 q n pre ++ Post.STX :: esc1 q n t := by
  intro pre
  induction pre with
  | nil =>
    have : plain Post.STX = true := by decide
    show esc1 q n (Post.STX :: t) = Post.STX :: esc1 q n t
    simpa using esc1_body q n [Post.STX] t (by simpa using this)
  | cons c pre ih =>
    rw [List.cons_append]
    simp only [esc1, entLen_append_stx, ih]
    repeat' split
    all_goals simp

open Ser in
theorem esc1_ph (q n : Bool) (i : Nat) (pre post : Str) :
    esc1 q n (pre ++ (htmlPlaceholder i ++ post)) = esc1 q n pre ++ (htmlPlaceholder i ++ esc1 q n post) := by
  have hb : ∀ c ∈ "wzxhzdk:".toList ++ natToDec i ++ [Post.ETX], plain c = true := by
    intro c hc
    rcases List.mem_append.1 hc with hc | hc
    · rcases List.mem_append.1 hc with hc | hc
      · have : ∀ c ∈ "wzxhzdk:".toList, plain c = true := by decide
        exact this c hc
      · apply plain_of_alnum; right; right; left; exact natToDec_digits i c hc
    · simp at hc; subst hc; decide
  have he : htmlPlaceholder i ++ post = Post.STX :: (("wzxhzdk:".toList ++ natToDec i ++ [Post.ETX]) ++ post) := by
    simp [htmlPlaceholder, Post.htmlPrefix]
  rw [he, esc1_stx, esc1_body _ _ _ _ hb]
  simp [htmlPlaceholder, Post.htmlPrefix]

open Ser in
/-- a placeholder passes the serializer unchanged, whatever surrounds it, and the text around it is escaped as if
    the placeholder were not there -/
theorem escCdata_ph (i : Nat) (pre post : Str) :
    escCdata (pre ++ (htmlPlaceholder i ++ post)) = escCdata pre ++ (htmlPlaceholder i ++ escCdata post) := by
  simp only [onepass_cdata]; exact esc1_ph _ _ i pre post

theorem sub5 : ∀ w ∈ ["&amp;".toList, "&lt;".toList, "&gt;".toList, "&quot;".toList, "&#10;".toList],
    ∀ c ∈ w, c ∈ "&amp;ltgquo#10".toList := by decide

open Ser in
theorem mem_esc1 (q n : Bool) (s : Str) : ∀ c ∈ esc1 q n s, c ∈ s ∨ c ∈ "&amp;ltgquo#10".toList := by
  induction s with
  | nil => simp [esc1]
  | cons a r ih =>
    intro c hc
    have step : c ∈ r ∨ c ∈ "&amp;ltgquo#10".toList → c ∈ a :: r ∨ c ∈ "&amp;ltgquo#10".toList := by
      rintro (h | h)
      · exact Or.inl (List.mem_cons_of_mem _ h)
      · exact Or.inr h
    simp only [esc1] at hc
    repeat' split at hc
    all_goals
      first
      | (rcases List.mem_cons.1 hc with h | h
         · first
           | (left; rw [h]; exact List.mem_cons_self)
           | (right; rw [h]; decide)
         · exact step (ih c h))
      | (rcases List.mem_append.1 hc with h | h
         · right; exact sub5 _ (by decide) c h
         · exact step (ih c h))

open Ser in
theorem stx_not_mem_escCdata {a : Str} (h : Post.STX ∉ a) : Post.STX ∉ escCdata a := by
  rw [onepass_cdata]
  intro hm
  rcases mem_esc1 _ _ a _ hm with h' | h'
  · exact h h'
  · revert h'; decide

/-! ### D. the stages after the block parser on the probe trees -/

section probes
open Inline

theorem visitChild_atomic_leaf (cfg : Cfg) (tag : Tag) (attrs : List (Str × Str)) (a : Str) (v : Visit) :
    visitChild cfg { tag := tag, attrs := attrs, text := some a, textAtomic := true } v =
      some ({ tag := tag, attrs := attrs, text := some a, textAtomic := true }, [], v) := by
  simp [visitChild, Node.truthy]

theorem runLoop_probeText (cfg : Cfg) (a : Str) (g g2 : Nat) (st : St) :
    runLoop cfg (g2 + 2) (g + 2) (probeText a) [[]] st = some (probeText a, st) := by
  simp [runLoop, getAt, probeText, withIdx, visitLoop, visitChild_atomic_leaf, setAt]

theorem run_probeText (cfg : Cfg) (a : Str) (html : List Str) :
    Inline.run cfg (probeText a) html = some (probeText a, { html := html }) := by
  show runLoop cfg (runFuel _) (runFuel _) (probeText a) [[]] { html := html } = _
  obtain ⟨k, hk⟩ : ∃ k, runFuel (probeText a) = k + 2 := ⟨runFuel (probeText a) - 2, by unfold runFuel; omega⟩
  rw [hk]
  exact runLoop_probeText cfg a _ _ _

theorem find_none_of_not_contains {s pat : Str} (h : contains s pat = false) : find pat s = none := by
  unfold contains at h
  cases hf : find pat s with
  | none => rfl
  | some _ => rw [hf] at h; cases h

/-- `__processPlaceholders` on a tail without the placeholder prefix: the tail is assigned as it is, an
    `AtomicString` stays one -/
theorem ppTop_clean_tail (st : St) (a : Str) (atomic : Bool) (parent : Node) (ha : a ≠ [])
    (hc : contains a phPrefix = false) (hp : Node.truthy parent.tail = false) :
    ppTop st a atomic parent false = some ([], { parent with tail := some a, tailAtomic := atomic }) := by
  have hf := find_none_of_not_contains hc
  have he : a.isEmpty = false := by cases a <;> simp_all
  unfold ppTop processPlaceholders
  simp only [he, Bool.false_eq_true, if_false]
  unfold ppLoop
  simp [hf, linkText, he, hp]

theorem visitChild_atomic_tail (cfg : Cfg) (tag : Tag) (attrs : List (Str × Str)) (a : Str) (v : Visit)
    (hc : contains a phPrefix = false) :
    visitChild cfg { tag := tag, attrs := attrs, tail := some a, tailAtomic := true } v =
      some ({ tag := tag, attrs := attrs, tail := some a, tailAtomic := true }, [], v) := by
  cases a with
  | nil => simp [visitChild, Node.truthy]
  | cons c a =>
    have := ppTop_clean_tail v.st (c :: a) true (mkEl "d") (by simp) hc rfl
    simp [mkEl] at this
    simp [visitChild, Node.truthy, this, mkEl]

theorem visitChild_bare (cfg : Cfg) (tag : Tag) (attrs : List (Str × Str)) (kids : List Node) (v : Visit) :
    visitChild cfg { tag := tag, attrs := attrs, children := kids } v =
      some ({ tag := tag, attrs := attrs, children := kids }, [],
        { v with pushes := if kids.isEmpty then v.pushes else [v.done.length] :: v.pushes }) := by
  cases kids <;> simp [visitChild, Node.truthy]

theorem runLoop_probeTail (cfg : Cfg) (a : Str) (g g2 : Nat) (st : St) (hc : contains a phPrefix = false) :
    runLoop cfg (g2 + 2) (g + 3) (probeTail a) [[]] st = some (probeTail a, st) := by
  simp [runLoop, getAt, probeTail, withIdx, visitLoop, visitChild_atomic_tail, visitChild_bare, setAt, hc]

theorem run_probeTail (cfg : Cfg) (a : Str) (html : List Str) (hc : contains a phPrefix = false) :
    Inline.run cfg (probeTail a) html = some (probeTail a, { html := html }) := by
  show runLoop cfg (runFuel _) (runFuel _) (probeTail a) [[]] { html := html } = _
  obtain ⟨k, hk⟩ : ∃ k, runFuel (probeTail a) = k + 3 := ⟨runFuel (probeTail a) - 3, by unfold runFuel; omega⟩
  rw [hk]
  exact runLoop_probeTail cfg a k (k + 1) _ hc

end probes

section stages
open TreeProc

/-- the text probe after `prettify` (and, with `ta = false`, after `unescape`) -/
def prettyText (a : Str) (ta : Bool) : Node :=
  { tag := .name "div".toList, text := some ['\n'],
    children := [{ tag := .name "p".toList, text := some a, textAtomic := ta, tail := some ['\n'] }],
    tail := some ['\n'] }

/-- the tail probe after `prettify` (and, with `ta = false`, after `unescape`) -/
def prettyTail (a : Str) (ta : Bool) : Node :=
  { tag := .name "div".toList, text := some ['\n'],
    children := [{ tag := .name "p".toList,
                   children := [{ tag := .name "span".toList, tail := some a, tailAtomic := ta }],
                   tail := some ['\n'] }],
    tail := some ['\n'] }

theorem bl_div : isBlockLevel defaultBlockLevel (.name ['d', 'i', 'v']) = true := by decide
theorem bl_p : isBlockLevel defaultBlockLevel (.name ['p']) = true := by decide
theorem bl_span : isBlockLevel defaultBlockLevel (.name ['s', 'p', 'a', 'n']) = false := by decide

theorem prettify_probeText (a : Str) : prettify (probeText a) = prettyText a true := by
  simp [prettify, probeText, prettifyETree, prettifyKids, bl_div, bl_p, blankOrNone, Node.truthy, mapTree, mapKids,
    brRule, preRule, tagIs, prettyText]

theorem prettify_probeTail (a : Str) : prettify (probeTail a) = prettyTail a true := by
  simp [prettify, probeTail, prettifyETree, prettifyKids, bl_div, bl_p, bl_span, blankOrNone, Node.truthy, mapTree,
    mapKids, brRule, preRule, tagIs, prettyTail]

theorem unescapeText_of_no_stx : ∀ s : Str, Post.STX ∉ s → unescapeText 0 s = some s := by
  intro s
  induction s with
  | nil => intro _; rfl
  | cons c s ih =>
    intro h
    have hc : c ≠ TreeProc.STX := fun e => h (by rw [e]; exact List.mem_cons_self)
    have hs : Post.STX ∉ s := fun e => h (List.mem_cons_of_mem _ e)
    simp [unescapeText, hc, ih hs]

theorem unescapeText_prefix (r : Str) : ∀ pre : Str, Post.STX ∉ pre →
    unescapeText 0 (pre ++ r) = (unescapeText 0 r).map (pre ++ ·) := by
  intro pre
  induction pre with
  | nil => intro _; simp
  | cons c s ih =>
    intro h
    have hc : c ≠ TreeProc.STX := fun e => h (by rw [e]; exact List.mem_cons_self)
    have hs : Post.STX ∉ s := fun e => h (List.mem_cons_of_mem _ e)
    simp [unescapeText, hc, ih hs]
    cases unescapeText 0 r <;> simp

/-- the HTML placeholder is not a backslash-escape marker: `unescape` leaves it alone -/
theorem unescapeText_ph (i : Nat) (pre post : Str) (hpre : Post.STX ∉ pre) (hpost : Post.STX ∉ post) :
    unescapeText 0 (pre ++ (htmlPlaceholder i ++ post)) = some (pre ++ (htmlPlaceholder i ++ post)) := by
  have hb : Post.STX ∉ "wzxhzdk:".toList ++ natToDec i ++ [Post.ETX] ++ post := by
    intro hm
    rcases List.mem_append.1 hm with hm | hm
    · rcases List.mem_append.1 hm with hm | hm
      · rcases List.mem_append.1 hm with hm | hm
        · revert hm; decide
        · have := natToDec_digits i _ hm; revert this; decide
      · revert hm; decide
    · exact hpost hm
  have he : htmlPlaceholder i ++ post = TreeProc.STX :: ("wzxhzdk:".toList ++ natToDec i ++ [Post.ETX] ++ post) := by
    simp [htmlPlaceholder, Post.htmlPrefix, Post.STX, TreeProc.STX]
  rw [unescapeText_prefix _ _ hpre, he]
  have h0 : unescapeText 0 (TreeProc.STX :: ("wzxhzdk:".toList ++ natToDec i ++ [Post.ETX] ++ post)) =
      (unescapeText 0 ("wzxhzdk:".toList ++ natToDec i ++ [Post.ETX] ++ post)).map (TreeProc.STX :: ·) := by
    have hw : isDecimal 'w' = false := by decide
    simp [unescapeText, spanLen_cons, hw]
  rw [h0, unescapeText_of_no_stx _ hb]
  rfl

theorem unescapeTree_prettyText (a : Str) (ta : Bool) (h : unescapeText 0 a = some a) :
    unescapeTree (prettyText a ta) = some (prettyText a (if a = [] then ta else false)) := by
  have h2 : unescapeText 0 ['\n'] = some ['\n'] := by decide
  cases a with
  | nil => simp [unescapeTree, unescapeKids, prettyText, Node.truthy, unescAttrs, h2]
  | cons c a => simp [unescapeTree, unescapeKids, prettyText, Node.truthy, unescAttrs, h, h2]

theorem unescapeTree_prettyTail (a : Str) (ta : Bool) (h : unescapeText 0 a = some a) :
    unescapeTree (prettyTail a ta) = some (prettyTail a (if a = [] then ta else false)) := by
  have h2 : unescapeText 0 ['\n'] = some ['\n'] := by decide
  cases a with
  | nil => simp [unescapeTree, unescapeKids, prettyTail, Node.truthy, unescAttrs, h2]
  | cons c a => simp [unescapeTree, unescapeKids, prettyTail, Node.truthy, unescAttrs, h, h2]

open Ser in
theorem serialize_prettyText (fmt : Fmt) (a : Str) (ta : Bool) :
    serialize fmt (prettyText a ta) =
      "<div>".toList ++ ("\n".toList ++ (pOpen ++ escCdata a ++ pClose) ++ "\n".toList) ++ "</div>\n".toList := by
  have e1 : isEmptyTag ['d', 'i', 'v'] = false := by decide
  have e2 : isEmptyTag ['p'] = false := by decide
  have r1 : isRawTextTag ['d', 'i', 'v'] = false := by decide
  have r2 : isRawTextTag ['p'] = false := by decide
  have n1 : escCdata ['\n'] = ['\n'] := by decide
  have n0 : escCdata [] = [] := by decide
  cases a with
  | nil =>
    simp [serialize, serializeList, element, prettyText, Node.truthy, e1, e2, r1, n1, n0, writeAttrs,
      sortAttrs, pOpen, pClose]
  | cons c a =>
    simp [serialize, serializeList, element, prettyText, Node.truthy, e1, e2, r1, r2, n1, writeAttrs, sortAttrs,
      pOpen, pClose]

open Ser in
theorem serialize_prettyTail (fmt : Fmt) (a : Str) (ta : Bool) :
    serialize fmt (prettyTail a ta) =
      "<div>".toList ++ ("\n".toList ++ (pOpen ++ "<span></span>".toList ++ escCdata a ++ pClose) ++ "\n".toList) ++
        "</div>\n".toList := by
  have e1 : isEmptyTag ['d', 'i', 'v'] = false := by decide
  have e2 : isEmptyTag ['p'] = false := by decide
  have e3 : isEmptyTag ['s', 'p', 'a', 'n'] = false := by decide
  have n1 : escCdata ['\n'] = ['\n'] := by decide
  have n0 : escCdata [] = [] := by decide
  have r1 : isRawTextTag ['d', 'i', 'v'] = false := by decide
  cases a with
  | nil =>
    simp [serialize, serializeList, element, prettyTail, Node.truthy, e1, e2, e3, r1, n1, n0, writeAttrs,
      sortAttrs, pOpen, pClose]
  | cons c a =>
    simp [serialize, serializeList, element, prettyTail, Node.truthy, e1, e2, e3, r1, n1, writeAttrs, sortAttrs,
      pOpen, pClose]

end stages

section finish
open Post

theorem find_self_append (c : Char) (pat rest : Str) : find (c :: pat) ((c :: pat) ++ rest) = some 0 := by
  rw [List.cons_append, find_cons]
  have : startsWith (c :: (pat ++ rest)) (c :: pat) = true := by simp
  rw [if_pos this]

/-- the `<div>` wrapper (with the newline `prettify` puts after it) is taken off -/
theorem topLevelStrip_div (B : Str) :
    topLevelStrip ("<div>".toList ++ B ++ "</div>\n".toList) = some (strip B) := by
  have h1 : find ('<' :: "div".toList ++ ['>']) ("<div>".toList ++ B ++ "</div>\n".toList) = some 0 := by
    have := find_self_append '<' "div>".toList (B ++ "</div>\n".toList)
    simpa using this
  have h2 : rfind ('<' :: '/' :: "div".toList ++ ['>']) ("<div>".toList ++ B ++ "</div>\n".toList) =
      some (5 + B.length) := by
    unfold rfind
    have e : ("<div>".toList ++ B ++ "</div>\n".toList).reverse =
        '\n' :: (">vid/<".toList ++ (B.reverse ++ ">vid<".toList)) := by
      simp
    have e2 : ('<' :: '/' :: "div".toList ++ ['>']).reverse = ">vid/<".toList := by decide
    rw [e, e2, find_cons]
    rw [if_neg (by simp)]
    have hf : find ">vid/<".toList (">vid/<".toList ++ (B.reverse ++ ">vid<".toList)) = some 0 :=
      find_self_append '>' "vid/<".toList (B.reverse ++ ">vid<".toList)
    rw [hf]
    simp
    omega
  unfold topLevelStrip
  simp only [h1, h2]
  have e3 : "<div>".toList ++ B ++ "</div>\n".toList = ("<div>".toList ++ B) ++ "</div>\n".toList := rfl
  have e4 : 5 + B.length = ("<div>".toList ++ B).length := by simp; omega
  simp only [topLevelStrip.sl, Option.some.injEq]
  rw [e3, e4, List.take_left]
  simp

/-- a paragraph is its own `strip` -/
theorem strip_par (X : Str) : strip (pOpen ++ X ++ pClose) = pOpen ++ X ++ pClose := by
  apply strip_eq_self
  · intro c hc; simp [pOpen] at hc; subst hc; decide
  · intro c hc; simp [pClose] at hc; subst hc; decide

theorem strip_nl_par (X : Str) : strip ("\n".toList ++ (pOpen ++ X ++ pClose) ++ "\n".toList) = pOpen ++ X ++ pClose := by
  rw [strip_append_of_blank (by decide) (by decide), strip_par]

theorem ampSub_of_no_stx {s : Str} (h : STX ∉ s) : ampSub s = s := by
  apply replace_id_of_not_contains
  rw [contains_eq_false_iff]
  rintro p q rfl
  exact h (by simp [ampSubstitute])

/-- the end of `convert` on the serialized probe, empty stash -/
theorem finish_par_nil (bl : List Str) (X : Str) (hX : STX ∉ X) :
    finish bl [] ("<div>".toList ++ ("\n".toList ++ (pOpen ++ X ++ pClose) ++ "\n".toList) ++ "</div>\n".toList) =
      some (some (pOpen ++ X ++ pClose)) := by
  have hs : STX ∉ pOpen ++ X ++ pClose := by
    intro hm
    rcases List.mem_append.1 hm with hm | hm
    · rcases List.mem_append.1 hm with hm | hm
      · revert hm; decide
      · exact hX hm
    · revert hm; decide
  have hr : rawHtml bl [] (rawHtmlFuel []) (pOpen ++ X ++ pClose) = some (pOpen ++ X ++ pClose) := by
    simp [rawHtml, rawHtmlFuel]
  unfold finish
  rw [topLevelStrip_div, strip_nl_par]
  simp only [post, hr, Option.map_some]
  rw [ampSub_of_no_stx hs, strip_par]

theorem no_prefix_of_no_stx {s : Str} (h : STX ∉ s) : contains s htmlPrefix = false := by
  rw [contains_eq_false_iff]
  rintro p q rfl
  exact h (by simp [htmlPrefix])

open Ser in
theorem esc1_cons_ne_nil (q n : Bool) (c : Char) (r : Str) : esc1 q n (c :: r) ≠ [] := by
  simp only [esc1]
  repeat' split
  all_goals simp

theorem endsWith_pOpen_false (E : Str) (hne : E ≠ []) (hgt : '>' ∉ E) : endsWith (pOpen ++ E) pOpen = false := by
  cases h : endsWith (pOpen ++ E) pOpen with
  | false => rfl
  | true =>
    obtain ⟨t, ht⟩ := endsWith_iff_suffix.1 h
    have := congrArg List.getLast? ht
    cases E with
    | nil => exact absurd rfl hne
    | cons c E =>
      simp [pOpen, List.getLast?_append] at this
      have hm : '>' ∈ c :: E := by
        have h2 : (c :: E).getLast? = some '>' := by simpa using this
        exact List.mem_of_getLast? h2
      exact absurd hm hgt

theorem startsWith_pClose_false (E : Str) (hne : E ≠ []) (hlt : '<' ∉ E) :
    startsWith (E ++ pClose) pClose = false := by
  cases E with
  | nil => exact absurd rfl hne
  | cons c E =>
    have : c ≠ '<' := fun e => hlt (by simp [e])
    simp [pClose, this]

open Ser in
theorem escCdata_no_markup (s : Str) : '<' ∉ escCdata s ∧ '>' ∉ escCdata s := by
  rw [onepass_cdata]
  exact ⟨fun h => (esc1_no_markup _ _ s _ h).1 rfl, fun h => (esc1_no_markup _ _ s _ h).2.1 rfl⟩

open Ser in
theorem escCdata_ne_nil {s : Str} (h : s ≠ []) : escCdata s ≠ [] := by
  rw [onepass_cdata]
  cases s with
  | nil => exact absurd rfl h
  | cons c r => exact esc1_cons_ne_nil _ _ c r

theorem not_mem_append3 {x : Char} {a b c : Str} (ha : x ∉ a) (hb : x ∉ b) (hc : x ∉ c) : x ∉ a ++ b ++ c := by
  intro hm
  rcases List.mem_append.1 hm with hm | hm
  · rcases List.mem_append.1 hm with hm | hm
    · exact ha hm
    · exact hb hm
  · exact hc hm

open Ser in
/-- the end of `convert` on a serialized paragraph whose text contains one placeholder among other text -/
theorem finish_par_stash_inline (bl : List Str) (stash : List Str) (i : Nat) (raw pre post : Str)
    (hi : stash[i]? = some raw) (hpre : STX ∉ pre) (hpost : STX ∉ post) (hraw : STX ∉ raw)
    (hw : pre ≠ [] ∨ post ≠ [] ∨ isBlockLevelHtml bl raw = false) :
    finish bl stash ("<div>".toList ++ ("\n".toList ++ (pOpen ++ escCdata (pre ++ (htmlPlaceholder i ++ post)) ++ pClose)
        ++ "\n".toList) ++ "</div>\n".toList) =
      some (some (pOpen ++ (escCdata pre ++ raw ++ escCdata post) ++ pClose)) := by
  have hne : stash ≠ [] := by rintro rfl; simp at hi
  have s1 : STX ∉ pOpen ++ escCdata pre := by
    intro hm; rcases List.mem_append.1 hm with hm | hm
    · revert hm; decide
    · exact stx_not_mem_escCdata hpre hm
  have s2 : STX ∉ escCdata post ++ pClose := by
    intro hm; rcases List.mem_append.1 hm with hm | hm
    · exact stx_not_mem_escCdata hpost hm
    · revert hm; decide
  have s3 : STX ∉ pOpen ++ escCdata pre ++ (raw ++ (escCdata post ++ pClose)) := by
    have := not_mem_append3 s1 hraw s2
    simpa [List.append_assoc] using this
  have hw' : (¬ ∃ pre1, pOpen ++ escCdata pre = pre1 ++ pOpen) ∨
      startsWith (escCdata post ++ pClose) pClose = false ∨ isBlockLevelHtml bl raw = false := by
    rcases hw with h | h | h
    · left; intro he
      rw [← endsWith_iff_suffix, endsWith_pOpen_false _ (escCdata_ne_nil h) (escCdata_no_markup pre).2] at he
      cases he
    · right; left; exact startsWith_pClose_false _ (escCdata_ne_nil h) (escCdata_no_markup post).1
    · right; right; exact h
  have h1 := subPass_inline bl stash i raw (pOpen ++ escCdata pre) (escCdata post ++ pClose) hi s1 hw'
  rw [subPass_fix bl stash _ (no_prefix_of_no_stx s2)] at h1
  have hr := rawHtml_of_fix bl stash (stash.length + 1) _ _ hne h1 (no_prefix_of_no_stx s3)
  have e : pOpen ++ escCdata (pre ++ (htmlPlaceholder i ++ post)) ++ pClose =
      pOpen ++ escCdata pre ++ (htmlPlaceholder i ++ (escCdata post ++ pClose)) := by
    rw [escCdata_ph]; simp
  unfold finish
  rw [topLevelStrip_div, strip_nl_par, e]
  simp only [Post.post, rawHtmlFuel, hr, Option.map_some]
  have e2 : pOpen ++ escCdata pre ++ (raw ++ (escCdata post ++ pClose)) =
      pOpen ++ (escCdata pre ++ raw ++ escCdata post) ++ pClose := by simp
  rw [ampSub_of_no_stx s3, e2, strip_par]

open Ser in
/-- the end of `convert` on a serialized paragraph that consists of the placeholder of a block-level entry -/
theorem finish_par_stash_block (bl : List Str) (stash : List Str) (i : Nat) (raw : Str)
    (hi : stash[i]? = some raw) (hraw : STX ∉ raw) (hb : isBlockLevelHtml bl raw = true) :
    finish bl stash ("<div>".toList ++ ("\n".toList ++ (pOpen ++ escCdata (htmlPlaceholder i) ++ pClose)
        ++ "\n".toList) ++ "</div>\n".toList) = some (some (strip raw)) := by
  have hne : stash ≠ [] := by rintro rfl; simp at hi
  have h1 := subPass_wrapped bl stash i raw [] [] hi (by simp)
  rw [hb] at h1
  have h1' : subPass bl stash 0 (pOpen ++ htmlPlaceholder i ++ pClose) = raw := by
    simpa [subPass] using h1
  have hr := rawHtml_of_fix bl stash (stash.length + 1) _ _ hne h1' (no_prefix_of_no_stx hraw)
  have e : escCdata (htmlPlaceholder i) = htmlPlaceholder i := by
    have := escCdata_ph i [] []
    have n0 : escCdata [] = [] := by decide
    simpa [n0] using this
  unfold finish
  rw [topLevelStrip_div, strip_nl_par, e]
  simp only [post, rawHtmlFuel, hr, Option.map_some]
  rw [ampSub_of_no_stx hraw]

end finish

/-! #### `render` on the probes -/

theorem render_probeText (cfg : Pipeline.Cfg) (refs : List (Str × Str × Option Str)) (a : Str)
    (hbl : cfg.blockLevel = TreeProc.defaultBlockLevel) (ha : Post.STX ∉ a) :
    render cfg refs (probeText a) = .ok (pOpen ++ Ser.escCdata a ++ pClose) := by
  unfold render
  rw [run_probeText]
  simp only
  rw [hbl, prettify_probeText, unescapeTree_prettyText _ _ (unescapeText_of_no_stx a ha)]
  simp only
  rw [serialize_prettyText, finish_par_nil _ _ (stx_not_mem_escCdata ha)]

theorem no_phPrefix_of_no_stx {s : Str} (h : Post.STX ∉ s) : contains s Inline.phPrefix = false := by
  rw [contains_eq_false_iff]
  rintro p q rfl
  exact h (by simp [Inline.phPrefix, Post.STX, Inline.STX])

theorem render_probeTail (cfg : Pipeline.Cfg) (refs : List (Str × Str × Option Str)) (a : Str)
    (hbl : cfg.blockLevel = TreeProc.defaultBlockLevel) (ha : Post.STX ∉ a) :
    render cfg refs (probeTail a) = .ok (pOpen ++ ("<span></span>".toList ++ Ser.escCdata a) ++ pClose) := by
  have hX : Post.STX ∉ "<span></span>".toList ++ Ser.escCdata a := by
    intro hm; rcases List.mem_append.1 hm with hm | hm
    · revert hm; decide
    · exact stx_not_mem_escCdata ha hm
  unfold render
  rw [run_probeTail _ _ _ (no_phPrefix_of_no_stx ha)]
  simp only
  rw [hbl, prettify_probeTail, unescapeTree_prettyTail _ _ (unescapeText_of_no_stx a ha)]
  simp only
  rw [serialize_prettyTail]
  have := finish_par_nil TreeProc.defaultBlockLevel _ hX
  simp only [← List.append_assoc] at this ⊢
  rw [this]

theorem render_probe_stash_inline (cfg : Pipeline.Cfg) (refs : List (Str × Str × Option Str)) (stash : List Str)
    (i : Nat) (raw pre post : Str) (hbl : cfg.blockLevel = TreeProc.defaultBlockLevel)
    (hi : stash[i]? = some raw) (hpre : Post.STX ∉ pre) (hpost : Post.STX ∉ post) (hraw : Post.STX ∉ raw)
    (hw : pre ≠ [] ∨ post ≠ [] ∨ Post.isBlockLevelHtml TreeProc.defaultBlockLevel raw = false) :
    render cfg refs (probeText (pre ++ (htmlPlaceholder i ++ post))) stash =
      .ok (pOpen ++ (Ser.escCdata pre ++ raw ++ Ser.escCdata post) ++ pClose) := by
  unfold render
  rw [run_probeText]
  simp only
  rw [hbl, prettify_probeText, unescapeTree_prettyText _ _ (unescapeText_ph i pre post hpre hpost)]
  simp only
  rw [serialize_prettyText, finish_par_stash_inline _ _ i raw pre post hi hpre hpost hraw hw]

theorem render_probe_stash_block (cfg : Pipeline.Cfg) (refs : List (Str × Str × Option Str)) (stash : List Str)
    (i : Nat) (raw : Str) (hbl : cfg.blockLevel = TreeProc.defaultBlockLevel)
    (hi : stash[i]? = some raw) (hraw : Post.STX ∉ raw)
    (hb : Post.isBlockLevelHtml TreeProc.defaultBlockLevel raw = true) :
    render cfg refs (probeText (htmlPlaceholder i)) stash = .ok (strip raw) := by
  have hu : TreeProc.unescapeText 0 (htmlPlaceholder i) = some (htmlPlaceholder i) := by
    simpa using unescapeText_ph i [] [] (by simp) (by simp)
  unfold render
  rw [run_probeText]
  simp only
  rw [hbl, prettify_probeText, unescapeTree_prettyText _ _ hu]
  simp only
  rw [serialize_prettyText, finish_par_stash_block _ _ i raw hi hraw hb]

/-! ### E. `Inline.run` keeps atomic strings -/

section emb
open Inline

theorem emb_iff (a b : Node) : Emb a b ↔
    (b.tag = a.tag ∧ b.attrs = a.attrs ∧
    (a.textAtomic = true → b.text = a.text ∧ b.textAtomic = true) ∧
    (a.tailAtomic = true → contains (a.tail.getD []) Inline.phPrefix = false → b.tail = a.tail ∧ b.tailAtomic = true) ∧
    EmbList a.children b.children) := by
  cases a; simp [Emb]

theorem embList_nil (bs : List Node) : EmbList [] bs := by simp [EmbList]

theorem embList_cons_iff (a : Node) (as bs : List Node) :
    EmbList (a :: as) bs ↔ ∃ pre b rest, bs = pre ++ b :: rest ∧ Emb a b ∧ EmbList as rest := by
  simp [EmbList]

mutual
theorem emb_refl : (a : Node) → Emb a a
  | ⟨tag, attrs, text, ta, children, tail, tla⟩ => by
    rw [emb_iff]
    exact ⟨rfl, rfl, fun h => ⟨rfl, h⟩, fun h _ => ⟨rfl, h⟩, embList_refl children⟩
theorem embList_refl : (l : List Node) → EmbList l l
  | [] => embList_nil _
  | a :: as => (embList_cons_iff _ _ _).2 ⟨[], a, as, rfl, emb_refl a, embList_refl as⟩
end

theorem embList_append_left (ys : List Node) {as bs : List Node} (h : EmbList as bs) : EmbList as (ys ++ bs) := by
  cases as with
  | nil => exact embList_nil _
  | cons a as =>
    obtain ⟨pre, b, rest, rfl, h1, h2⟩ := (embList_cons_iff _ _ _).1 h
    exact (embList_cons_iff _ _ _).2 ⟨ys ++ pre, b, rest, by simp, h1, h2⟩

theorem embList_drop_prefix : ∀ (xs : List Node) {as bs : List Node}, EmbList (xs ++ as) bs → EmbList as bs := by
  intro xs
  induction xs with
  | nil => intro as bs h; exact h
  | cons x xs ih =>
    intro as bs h
    obtain ⟨pre, b, rest, rfl, _, h2⟩ := (embList_cons_iff _ _ _).1 h
    have := ih h2
    have e : pre ++ b :: rest = (pre ++ [b]) ++ rest := by simp
    rw [e]; exact embList_append_left _ this

theorem embList_cons {a b : Node} {as bs : List Node} (h1 : Emb a b) (h2 : EmbList as bs) :
    EmbList (a :: as) (b :: bs) :=
  (embList_cons_iff _ _ _).2 ⟨[], b, bs, rfl, h1, h2⟩

/-- splitting an embedding of `pre ++ b :: rest` at `b` -/
theorem embList_split : ∀ (pre : List Node) {b : Node} {rest cs : List Node}, EmbList (pre ++ b :: rest) cs →
    ∃ pre' c rest', cs = pre' ++ c :: rest' ∧ Emb b c ∧ EmbList rest rest' := by
  intro pre
  induction pre with
  | nil => intro b rest cs h; exact (embList_cons_iff _ _ _).1 h
  | cons p pre ih =>
    intro b rest cs h
    obtain ⟨q, c0, r0, rfl, _, h2⟩ := (embList_cons_iff _ _ _).1 h
    obtain ⟨pre', c, rest', rfl, h3, h4⟩ := ih h2
    exact ⟨q ++ c0 :: pre', c, rest', by simp, h3, h4⟩

mutual
theorem emb_trans : (a : Node) → ∀ (b c : Node), Emb a b → Emb b c → Emb a c
  | ⟨tag, attrs, text, ta, children, tail, tla⟩, b, c, h1, h2 => by
    rw [emb_iff] at h1 h2 ⊢
    obtain ⟨a1, a2, a3, a4, a5⟩ := h1
    obtain ⟨b1, b2, b3, b4, b5⟩ := h2
    refine ⟨b1.trans a1, b2.trans a2, ?_, ?_, embList_trans children _ _ a5 b5⟩
    · intro ht
      obtain ⟨x1, x2⟩ := a3 ht
      obtain ⟨y1, y2⟩ := b3 x2
      exact ⟨y1.trans x1, y2⟩
    · intro ht hc
      obtain ⟨x1, x2⟩ := a4 ht hc
      obtain ⟨y1, y2⟩ := b4 x2 (by rw [x1]; exact hc)
      exact ⟨y1.trans x1, y2⟩
theorem embList_trans : (as : List Node) → ∀ (bs cs : List Node), EmbList as bs → EmbList bs cs → EmbList as cs
  | [], _, _, _, _ => embList_nil _
  | a :: as, bs, cs, h1, h2 => by
    obtain ⟨pre, b, rest, rfl, g1, g2⟩ := (embList_cons_iff _ _ _).1 h1
    obtain ⟨pre', c, rest', rfl, g3, g4⟩ := embList_split pre h2
    exact (embList_cons_iff _ _ _).2 ⟨pre', c, rest', rfl, emb_trans a b c g1 g3, embList_trans as rest rest' g2 g4⟩
end


/-- what `__processPlaceholders` leaves alone in the element it is given -/
def Frame (isText : Bool) (p q : Node) : Prop :=
  q.tag = p.tag ∧ q.attrs = p.attrs ∧ q.children = p.children ∧
  (isText = true → q.tail = p.tail ∧ q.tailAtomic = p.tailAtomic) ∧
  (isText = false → q.text = p.text ∧ q.textAtomic = p.textAtomic)

theorem Frame.refl (t : Bool) (p : Node) : Frame t p p := ⟨rfl, rfl, rfl, fun _ => ⟨rfl, rfl⟩, fun _ => ⟨rfl, rfl⟩⟩

theorem Frame.trans {t : Bool} {p q r : Node} (h1 : Frame t p q) (h2 : Frame t q r) : Frame t p r := by
  obtain ⟨a1, a2, a3, a4, a5⟩ := h1
  obtain ⟨b1, b2, b3, b4, b5⟩ := h2
  refine ⟨b1.trans a1, b2.trans a2, b3.trans a3, fun h => ?_, fun h => ?_⟩
  · exact ⟨(b4 h).1.trans (a4 h).1, (b4 h).2.trans (a4 h).2⟩
  · exact ⟨(b5 h).1.trans (a5 h).1, (b5 h).2.trans (a5 h).2⟩

theorem linkText_frame (text : Str) (atomic isText : Bool) (result : List Node) (parent : Node) :
    Frame isText parent (linkText text atomic isText result parent).2 := by
  unfold linkText
  split
  · exact Frame.refl _ _
  · split
    · split <;> exact Frame.refl _ _
    · cases isText <;> simp [Frame] <;> split <;> simp

theorem ppLoop_frame (stash : List StashItem) (nested : Node → Option Node) (data : Str) (atomic isText : Bool) :
    ∀ (g start : Nat) (result : List Node) (parent : Node) (res : List Node) (parent' : Node),
      ppLoop stash nested data atomic isText g start result parent = some (res, parent') →
      Frame isText parent parent' := by
  intro g
  induction g with
  | zero => intro start result parent res parent' h; simp [ppLoop] at h
  | succ g ih =>
    intro start result parent res parent' h
    unfold ppLoop at h
    split at h
    · rename_i off _
      simp only [] at h
      generalize findPh data (start + off) = fp at h
      obtain ⟨id, phEnd⟩ := fp
      simp only [] at h
      cases hb : id.bind (stashGet stash) with
      | some item =>
        rw [hb] at h; simp only [] at h
        generalize hl : (if start + off > 0 then linkText (slice data start (start + off)) false isText result parent
          else (result, parent)) = lt at h
        obtain ⟨r1, p1⟩ := lt
        have f1 : Frame isText parent p1 := by
          have := congrArg Prod.snd hl
          simp only at this
          rw [← this]
          split
          · exact linkText_frame _ _ _ _ _
          · exact Frame.refl _ _
        simp only [] at h
        cases item with
        | node n =>
          simp only [] at h
          cases hn : nested n with
          | none => rw [hn] at h; cases h
          | some n' => rw [hn] at h; exact f1.trans (ih _ _ _ _ _ h)
        | str s0 =>
          simp only [] at h
          generalize hl2 : linkText s0 false isText r1 p1 = lt2 at h
          obtain ⟨r2, p2⟩ := lt2
          have f2 : Frame isText p1 p2 := by
            have := congrArg Prod.snd hl2
            simp only at this
            rw [← this]; exact linkText_frame _ _ _ _ _
          exact (f1.trans f2).trans (ih _ _ _ _ _ h)
      | none =>
        rw [hb] at h; simp only [] at h
        generalize hl2 : linkText (slice data start (start + off + phPrefixLen)) false isText result parent = lt2 at h
        obtain ⟨r2, p2⟩ := lt2
        have f2 : Frame isText parent p2 := by
          have := congrArg Prod.snd hl2
          simp only at this
          rw [← this]; exact linkText_frame _ _ _ _ _
        exact f2.trans (ih _ _ _ _ _ h)
    · generalize hl2 : linkText (List.drop start data) atomic isText result parent = lt2 at h
      obtain ⟨r2, p2⟩ := lt2
      have f2 : Frame isText parent p2 := by
        have := congrArg Prod.snd hl2
        simp only at this
        rw [← this]; exact linkText_frame _ _ _ _ _
      simp only [Option.some.injEq, Prod.mk.injEq] at h
      rw [← h.2]; exact f2

theorem ppTop_frame (st : St) (data : Str) (atomic : Bool) (parent : Node) (isText : Bool) (res : List Node)
    (parent' : Node) (h : ppTop st data atomic parent isText = some (res, parent')) : Frame isText parent parent' := by
  unfold ppTop processPlaceholders at h
  split at h
  · simp only [Option.some.injEq, Prod.mk.injEq] at h; rw [← h.2]; exact Frame.refl _ _
  · exact ppLoop_frame _ _ _ _ _ _ _ _ _ _ _ h


/-- the text half of `visitChild` -/
def vcText (cfg : Cfg) (child : Node) (st : St) : Option (Node × List Node × St) :=
  if Node.truthy child.text && !child.textAtomic then
    match handleInlineTop cfg (child.text.getD []) st with
    | none => none
    | some (data, st1) =>
      match ppTop st1 data false { child with text := none, textAtomic := false } true with
      | none => none
      | some (lst, c1) => some (c1, lst, st1)
  else some (child, [], st)

/-- the tail half of `visitChild` -/
def vcTail (cfg : Cfg) (c1 : Node) (st1 : St) : Option (Node × List Node × St) :=
  if Node.truthy c1.tail then
    let tl := c1.tail.getD []
    let h : Option (Str × St) := if c1.tailAtomic then some (tl, st1) else handleInlineTop cfg tl st1
    match h with
    | none => none
    | some (data, st2) =>
      match ppTop st2 data c1.tailAtomic (mkEl "d") false with
      | none => none
      | some (tr, dumby) =>
        let c2 : Node :=
          if Node.truthy dumby.tail then { c1 with tail := dumby.tail, tailAtomic := dumby.tailAtomic }
          else { c1 with tail := none, tailAtomic := false }
        some (c2, tr, st2)
  else some (c1, [], st1)

theorem visitChild_eq (cfg : Cfg) (child : Node) (v : Visit) :
    visitChild cfg child v =
      match vcText cfg child v.st with
      | none => none
      | some (c1, lst, st1) =>
        match vcTail cfg c1 st1 with
        | none => none
        | some (c2, tr, st2) =>
          let i := v.done.length
          let pushes := ((List.range lst.length).map (fun k => [i, k])).reverse ++ v.pushes
          let pushes := if child.children.isEmpty then pushes else [i] :: pushes
          some ({ c2 with children := lst ++ c2.children }, tr, { v with pushes := pushes, st := st2 }) := rfl

theorem vcText_spec (cfg : Cfg) (child : Node) (st : St) (c1 : Node) (lst : List Node) (st1 : St)
    (h : vcText cfg child st = some (c1, lst, st1)) :
    c1.tag = child.tag ∧ c1.attrs = child.attrs ∧ c1.children = child.children ∧ c1.tail = child.tail ∧
    c1.tailAtomic = child.tailAtomic ∧ (child.textAtomic = true → c1.text = child.text ∧ c1.textAtomic = true) := by
  unfold vcText at h
  split at h
  · rename_i hc
    have hna : child.textAtomic = false := by
      cases hta : child.textAtomic with
      | false => rfl
      | true => rw [hta] at hc; simp at hc
    split at h
    · cases h
    · split at h
      · cases h
      · rename_i hpp
        simp only [Option.some.injEq, Prod.mk.injEq] at h
        obtain ⟨f1, f2, f3, f4, _⟩ := ppTop_frame _ _ _ _ _ _ _ hpp
        rw [← h.1]
        exact ⟨f1, f2, f3, (f4 rfl).1, (f4 rfl).2, fun ht => by rw [hna] at ht; cases ht⟩
  · simp only [Option.some.injEq, Prod.mk.injEq] at h
    rw [← h.1]
    exact ⟨rfl, rfl, rfl, rfl, rfl, fun ht => ⟨rfl, ht⟩⟩

theorem truthy_eq_some {t : Option Str} (h : Node.truthy t = true) : t = some (t.getD []) := by
  cases t with
  | none => cases h
  | some s => rfl

theorem truthy_ne_nil {t : Option Str} (h : Node.truthy t = true) : t.getD [] ≠ [] := by
  match t, h with
  | some (_ :: _), _ => simp

theorem vcTail_spec (cfg : Cfg) (c1 : Node) (st1 : St) (c2 : Node) (tr : List Node) (st2 : St)
    (h : vcTail cfg c1 st1 = some (c2, tr, st2)) :
    c2.tag = c1.tag ∧ c2.attrs = c1.attrs ∧ c2.children = c1.children ∧ c2.text = c1.text ∧
    c2.textAtomic = c1.textAtomic ∧
    (c1.tailAtomic = true → contains (c1.tail.getD []) phPrefix = false → c2.tail = c1.tail ∧ c2.tailAtomic = true) := by
  unfold vcTail at h
  split at h
  · rename_i htr
    simp only [] at h
    split at h
    · cases h
    · rename_i data st2' hh
      split at h
      · cases h
      · rename_i tr' dumby hpp
        simp only [Option.some.injEq, Prod.mk.injEq] at h
        rw [← h.1]
        refine ⟨by split <;> rfl, by split <;> rfl, by split <;> rfl, by split <;> rfl, by split <;> rfl, ?_⟩
        intro hta hc
        rw [hta] at hh hpp
        simp only [if_true, Option.some.injEq, Prod.mk.injEq] at hh
        rw [← hh.1] at hpp
        have := ppTop_clean_tail st2' (c1.tail.getD []) true (mkEl "d") (truthy_ne_nil htr) hc rfl
        rw [this] at hpp
        simp only [Option.some.injEq, Prod.mk.injEq] at hpp
        rw [← hpp.2]
        have ht2 : Node.truthy (some (c1.tail.getD [])) = true := by rw [← truthy_eq_some htr]; exact htr
        simp only [ht2, if_true]
        exact ⟨(truthy_eq_some htr).symm, trivial⟩
  · simp only [Option.some.injEq, Prod.mk.injEq] at h
    rw [← h.1]
    exact ⟨rfl, rfl, rfl, rfl, rfl, fun ht _ => ⟨rfl, ht⟩⟩


theorem visitChild_emb (cfg : Cfg) (child : Node) (v : Visit) (c : Node) (tr : List Node) (v1 : Visit)
    (h : visitChild cfg child v = some (c, tr, v1)) : Emb child c := by
  rw [visitChild_eq] at h
  split at h
  · cases h
  · rename_i c1 lst st1 h1
    split at h
    · cases h
    · rename_i c2 tr' st2 h2
      simp only [Option.some.injEq, Prod.mk.injEq] at h
      obtain ⟨a1, a2, a3, a4, a5, a6⟩ := vcText_spec _ _ _ _ _ _ h1
      obtain ⟨b1, b2, b3, b4, b5, b6⟩ := vcTail_spec _ _ _ _ _ _ h2
      rw [← h.1, emb_iff]
      refine ⟨b1.trans a1, b2.trans a2, ?_, ?_, ?_⟩
      · intro ht
        obtain ⟨x1, x2⟩ := a6 ht
        exact ⟨b4.trans x1, b5.trans x2⟩
      · intro ht hc
        exact (by
          have := b6 (a5.trans ht) (by rw [a4]; exact hc)
          exact ⟨this.1.trans a4, this.2⟩)
      · show EmbList child.children (lst ++ c2.children)
        rw [b3, a3]
        exact embList_append_left _ (embList_refl _)

theorem visitChild_done (cfg : Cfg) (child : Node) (v : Visit) (c : Node) (tr : List Node) (v1 : Visit)
    (h : visitChild cfg child v = some (c, tr, v1)) : v1.done = v.done := by
  rw [visitChild_eq] at h
  split at h
  · cases h
  · split at h
    · cases h
    · simp only [Option.some.injEq, Prod.mk.injEq] at h
      rw [← h.2.2]

theorem visitLoop_emb (cfg : Cfg) : ∀ (g : Nat) (todo : List (Node × Option Nat)) (v v' : Visit),
    visitLoop cfg g todo v = some v' →
    ∃ X, v'.done = X.reverse ++ v.done ∧ EmbList (todo.map Prod.fst) X := by
  intro g
  induction g with
  | zero => intro todo v v' h; simp [visitLoop] at h
  | succ g ih =>
    intro todo v v' h
    cases todo with
    | nil =>
      simp only [visitLoop, Option.some.injEq] at h
      exact ⟨[], by simp [h], embList_nil _⟩
    | cons x todo =>
      obtain ⟨child, orig⟩ := x
      simp only [visitLoop] at h
      split at h
      · cases h
      · rename_i c tr v1 hv
        obtain ⟨X, hX, hE⟩ := ih _ _ _ h
        refine ⟨c :: X, by simp [hX, visitChild_done _ _ _ _ _ _ hv], ?_⟩
        simp only [List.map_append, List.map_map, List.map_cons] at hE ⊢
        exact embList_cons (visitChild_emb _ _ _ _ _ _ hv) (embList_drop_prefix _ hE)

theorem withIdx_map_fst : ∀ (l : List Node) (i : Nat), (withIdx l i).map Prod.fst = l := by
  intro l
  induction l with
  | nil => intro i; rfl
  | cons a l ih => intro i; simp [withIdx, ih]

theorem embList_set : ∀ (l : List Node) (i : Nat) (c x : Node), l[i]? = some c → Emb c x → EmbList l (l.set i x) := by
  intro l
  induction l with
  | nil => intro i c x h; simp at h
  | cons a l ih =>
    intro i c x h hx
    cases i with
    | zero =>
      simp at h; subst h
      exact embList_cons hx (embList_refl _)
    | succ i =>
      simp at h
      exact embList_cons (emb_refl _) (ih i c x h hx)

theorem setAt_emb : ∀ (p : Path) (root cur cur' : Node), getAt root p = some cur → Emb cur cur' →
    Emb root (setAt root p cur') := by
  intro p
  induction p with
  | nil =>
    intro root cur cur' h he
    simp only [getAt, Option.some.injEq] at h
    subst h; exact he
  | cons i p ih =>
    intro root cur cur' h he
    simp only [getAt] at h
    split at h
    · rename_i c hc
      simp only [setAt, hc]
      rw [emb_iff]
      exact ⟨rfl, rfl, fun ht => ⟨rfl, ht⟩, fun ht _ => ⟨rfl, ht⟩, embList_set _ _ _ _ hc (ih _ _ _ h he)⟩
    · cases h

theorem runLoop_emb (cfg : Cfg) (g2 : Nat) : ∀ (g : Nat) (root : Node) (stack : List Path) (st : St) (root' : Node)
    (st' : St), runLoop cfg g2 g root stack st = some (root', st') → Emb root root' := by
  intro g
  induction g with
  | zero => intro root stack st root' st' h; simp [runLoop] at h
  | succ g ih =>
    intro root stack st root' st' h
    cases stack with
    | nil =>
      simp only [runLoop, Option.some.injEq, Prod.mk.injEq] at h
      rw [← h.1]; exact emb_refl _
    | cons p stack =>
      simp only [runLoop] at h
      split at h
      · exact ih _ _ _ _ _ h
      · rename_i cur hcur
        split at h
        · cases h
        · rename_i v hv
          obtain ⟨X, hX, hE⟩ := visitLoop_emb _ _ _ _ _ hv
          rw [withIdx_map_fst] at hE
          have hd : v.done.reverse = X := by rw [hX]; simp
          have hcur' : Emb cur { cur with children := v.done.reverse } := by
            rw [emb_iff, hd]
            exact ⟨rfl, rfl, fun ht => ⟨rfl, ht⟩, fun ht _ => ⟨rfl, ht⟩, hE⟩
          exact emb_trans _ _ _ (setAt_emb _ _ _ _ hcur hcur') (ih _ _ _ _ _ h)

theorem run_emb (cfg : Cfg) (tree : Node) (html : List Str) (t : Node) (st : St)
    (h : Inline.run cfg tree html = some (t, st)) : Emb tree t :=
  runLoop_emb cfg _ _ _ _ _ _ _ h


theorem elems_eq (a : Node) : elems a = a :: elemsList a.children := by cases a; simp [elems]

theorem elemsList_append : ∀ (l1 l2 : List Node), elemsList (l1 ++ l2) = elemsList l1 ++ elemsList l2 := by
  intro l1
  induction l1 with
  | nil => intro l2; simp [elemsList]
  | cons a l1 ih => intro l2; simp [elemsList, ih]

mutual
theorem emb_elems : (a : Node) → ∀ b, Emb a b → ∀ x ∈ elems a, ∃ y ∈ elems b, Emb x y
  | ⟨tag, attrs, text, ta, children, tail, tla⟩, b, h, x, hx => by
    rw [elems_eq] at hx
    rcases List.mem_cons.1 hx with hx | hx
    · exact ⟨b, by rw [elems_eq]; exact List.mem_cons_self, by rw [hx]; exact h⟩
    · have hl := ((emb_iff _ _).1 h).2.2.2.2
      obtain ⟨y, hy, hxy⟩ := embList_elems children b.children hl x hx
      exact ⟨y, by rw [elems_eq]; exact List.mem_cons_of_mem _ hy, hxy⟩
theorem embList_elems : (as : List Node) → ∀ bs, EmbList as bs → ∀ x ∈ elemsList as, ∃ y ∈ elemsList bs, Emb x y
  | [], _, _, x, hx => by simp [elemsList] at hx
  | a :: as, bs, h, x, hx => by
    obtain ⟨pre, b, rest, rfl, h1, h2⟩ := (embList_cons_iff _ _ _).1 h
    simp only [elemsList, List.mem_append] at hx
    rw [elemsList_append]
    simp only [elemsList, List.mem_append]
    rcases hx with hx | hx
    · obtain ⟨y, hy, hxy⟩ := emb_elems a b h1 x hx
      exact ⟨y, Or.inr (Or.inl hy), hxy⟩
    · obtain ⟨y, hy, hxy⟩ := embList_elems as rest h2 x hx
      exact ⟨y, Or.inr (Or.inr hy), hxy⟩
end


end emb

end MdVerif.StashAtomic
